(* Chunker.Next (Model/Chunker.v part 2) refines the rule, for every read fragmentation. *)
From Coq Require Import NArith List Lia Arith Bool ZifyN ZifyNat ZifyBool.
From DS Require Import Gen.Constants Base.Bytes Base.Word32 Model.Chunker Proofs.RollProofs Proofs.ChunkerSpecProofs.
Import ListNotations.

Lemma W_pos : 1 <= W. Proof. vm_compute. lia. Qed.
Global Opaque W.

(* ---------- the ring buffer ---------- *)

Definition ring_ok (hwin : list N) (hidx : nat) (win : list N) : Prop :=
  length hwin = W /\ hidx < W /\ win = skipn hidx hwin ++ firstn hidx hwin.

Lemma set_nth_split {A} (l : list A) i x : i < length l ->
  set_nth l i x = firstn i l ++ x :: skipn (S i) l.
Proof.
  revert i. induction l as [|y l IH]; intros i Hi; [cbn in Hi; lia|].
  destruct i; cbn; [reflexivity|]. f_equal. apply IH. cbn in Hi. lia.
Qed.

Lemma nth_split' {A} (l : list A) i d : i < length l ->
  l = firstn i l ++ nth i l d :: skipn (S i) l.
Proof.
  revert i. induction l as [|y l IH]; intros i Hi; [cbn in Hi; lia|].
  destruct i; cbn; [reflexivity|]. f_equal. apply IH. cbn in Hi. lia.
Qed.

Lemma ring_step hwin hidx a w b :
  ring_ok hwin hidx (a :: w) ->
  nth hidx hwin 0%N = a /\ ring_ok (set_nth hwin hidx b) ((hidx + 1) mod W) (w ++ [b]).
Proof.
  intros (Hl & Hi & Hw).
  assert (Hi' : hidx < length hwin) by lia.
  pose proof (nth_split' hwin hidx 0%N Hi') as Hs.
  pose proof (set_nth_split hwin hidx b Hi') as Hset.
  remember (skipn (S hidx) hwin) as sk eqn:Esk.
  remember (firstn hidx hwin) as fr eqn:Efr.
  assert (Lfr : length fr = hidx) by (subst fr; rewrite firstn_length; lia).
  assert (Lsk : length sk = W - S hidx) by (subst sk; rewrite skipn_length; lia).
  assert (Hsk : skipn hidx hwin = nth hidx hwin 0%N :: sk).
  { rewrite Hs at 1. rewrite skipn_app, Lfr, Nat.sub_diag.
    rewrite skipn_all2 by lia. reflexivity. }
  rewrite Hsk in Hw. rewrite <- app_comm_cons in Hw.
  assert (Ha : a = nth hidx hwin 0%N) by congruence.
  assert (Hw' : w = sk ++ fr) by congruence.
  split; [symmetry; exact Ha|]. subst w.
  unfold ring_ok. rewrite Hset. clear Hset Hs Hsk Hw Esk Efr.
  split; [rewrite app_length; cbn [length]; lia|].
  split; [apply Nat.mod_upper_bound; pose proof W_pos; lia|].
  destruct (Nat.eq_dec (hidx + 1) W) as [E|E].
  - rewrite E, Nat.mod_same by (pose proof W_pos; lia). cbn [skipn firstn]. rewrite app_nil_r.
    assert (sk = []) by (destruct sk; [reflexivity|cbn in Lsk; lia]). subst sk.
    cbn [app]. reflexivity.
  - rewrite Nat.mod_small by lia. replace (hidx + 1) with (S hidx) by lia.
    rewrite skipn_app, firstn_app, Lfr.
    rewrite skipn_all2 by lia. rewrite firstn_all2 by lia.
    replace (S hidx - hidx) with 1 by lia. cbn [skipn firstn app]. rewrite <- app_assoc. reflexivity.
Qed.

Lemma ring_init win : length win = W -> ring_ok win 0 win.
Proof. intros Hl. unfold ring_ok. pose proof W_pos. cbn. rewrite app_nil_r. repeat split; lia. Qed.

(* ---------- the rolling loop computes find_cut ---------- *)

Lemma tl_app_snoc {A} (w : list A) b r : tl (w ++ [b]) ++ r = tl (w ++ b :: r).
Proof. destruct w; cbn; [reflexivity|]. now rewrite <- app_assoc. Qed.

Lemma roll_find d : forall rest win hwin hidx pos m,
  length win = W -> ring_ok hwin hidx win -> (pos < m)%N -> N.to_nat (m - pos) <= length rest ->
  fst (fst (fst (roll_loop rest pos m d (win_hash win) hwin hidx))) =
  find_cut (tl win ++ rest) (pos + 1)%N m d.
Proof.
  unfold bytes, byte in *.
  induction rest as [|b rest IH]; intros win hwin hidx pos m Hl Hr Hpm Hlen; [cbn in Hlen; lia|].
  destruct win as [|a w]; [pose proof W_pos; cbn in Hl; lia|].
  destruct (ring_step hwin hidx a w b Hr) as [Hout Hr'].
  cbn [roll_loop]. rewrite Hout.
  assert (Hroll : xor (xor (rotl (win_hash (a :: w)) 1) (rotl (T a) (N.of_nat W))) (T b) = win_hash (w ++ [b])).
  { cbn in Hl. rewrite <- Hl. apply roll_correct. }
  rewrite Hroll. cbn [tl].
  assert (Hcur : exists y cur', w ++ b :: rest = y :: cur') by (destruct w; cbn; eauto).
  destruct Hcur as (y & cur' & Ecur). rewrite Ecur. cbn [find_cut]. rewrite <- Ecur.
  assert (Hfw : firstn W (w ++ b :: rest) = w ++ [b]).
  { cbn in Hl. rewrite firstn_app. replace (W - length w) with 1 by lia.
    rewrite firstn_all2 by lia. reflexivity. }
  unfold bytes, byte in *. rewrite Hfw.
  destruct (m <=? pos + 1)%N eqn:E1; [cbn; lia|].
  destruct (is_boundary d (win_hash (w ++ [b]))); [reflexivity|].
  rewrite (IH (w ++ [b]) _ _ (pos + 1)%N m).
  - f_equal. replace cur' with (tl (w ++ b :: rest)) by (rewrite Ecur; reflexivity). apply tl_app_snoc.
  - rewrite app_length. cbn in *. lia.
  - exact Hr'.
  - lia.
  - cbn in Hlen. lia.
Qed.

(* the cursor only matters up to m *)
Lemma find_cut_app d extra : forall rest p m,
  N.to_nat (m - p) + W <= length rest + 1 ->
  find_cut (rest ++ extra) p m d = find_cut rest p m d.
Proof.
  induction rest as [|x r IH]; intros p m Hlen.
  - pose proof W_pos. cbn in Hlen. cbn [app find_cut]. destruct extra; cbn [find_cut]; [reflexivity|].
    replace (m <=? p)%N with true by lia. reflexivity.
  - cbn [app find_cut]. destruct (m <=? p)%N eqn:E1; [reflexivity|].
    assert (HW : W <= length (x :: r)) by (cbn in *; lia).
    change (x :: r ++ extra) with ((x :: r) ++ extra). rewrite firstn_app.
    replace (W - length (x :: r)) with 0 by lia. cbn [firstn]. rewrite app_nil_r.
    destruct (is_boundary d (win_hash (firstn W (x :: r)))); [reflexivity|].
    apply IH. cbn in Hlen. lia.
Qed.

Section Impl.
  Variables (min max : nat) (d : N).
  Hypothesis Hmin : W <= min.
  Hypothesis Hmax : min <= max.

  (* cut_spec only looks at the first max bytes *)
  Lemma cut_spec_prefix buf tail :
    (max <= length buf \/ tail = []) ->
    cut_spec min max d (buf ++ tail) = cut_spec min max d buf.
  Proof.
    intros [Hb|Ht]; [|subst tail; now rewrite app_nil_r].
    unfold cut_spec. rewrite app_length.
    destruct (length buf <=? min) eqn:E1.
    - (* |buf| <= min, so max = min = |buf| *)
      assert (length buf = min) by lia. assert (max = min) by lia.
      destruct (length buf + length tail <=? min) eqn:E2; [lia|].
      replace (Nat.min max (length buf + length tail) <=? min) with true by lia. lia.
    - replace (length buf + length tail <=? min) with false by lia.
      replace (Nat.min max (length buf + length tail)) with max by lia.
      replace (Nat.min max (length buf)) with max by lia.
      destruct (max <=? min); [reflexivity|].
      f_equal. rewrite skipn_app.
      replace (S min - W - length buf) with 0 by lia. cbn [skipn].
      apply find_cut_app. rewrite skipn_length. lia.
  Qed.

  (* ---------- one call of Next on a filled buffer ---------- *)

  Definition params_ok (c : chunker) : Prop :=
    c_min c = min /\ c_max c = max /\ c_d c = d /\ c_hidx c = 0 /\ c_hval c = 0%N.

  Lemma next_core_cut c :
    params_ok c ->
    exists hwin, next_core c = split c (cut_spec min max d (c_buf c)) hwin.
  Proof.
    intros (Emin & Emax & Ed & Eidx & Ehv).
    unfold next_core.
    rewrite Emin, Emax, Ed, Eidx, Ehv. unfold cut_spec.
    set (n := length (c_buf c)).
    destruct (n <=? min) eqn:E1; [eexists; reflexivity|].
    assert (Em : (if n <? max then n else max) = Nat.min max n) by (destruct (n <? max) eqn:E; lia).
    rewrite Em. destruct (Nat.min max n <=? min) eqn:E2; [eexists; reflexivity|].
    set (m := Nat.min max n) in *.
    set (window := slice (c_buf c) (min - W) W).
    assert (Hwl : length window = W) by (apply slice_length; fold n; lia).
    assert (Hh0 : init_hash window W 0%N = win_hash window) by (rewrite <- Hwl at 1; apply init_hash_correct).
    rewrite Hh0.
    pose proof (roll_find d (skipn min (c_buf c)) window window 0 (N.of_nat min) (N.of_nat m)
                  Hwl (ring_init window Hwl) ltac:(lia) ltac:(rewrite skipn_length; fold n; lia)) as Hrf.
    destruct (roll_loop (skipn min (c_buf c)) (N.of_nat min) (N.of_nat m) d (win_hash window) window 0)
      as [[[pos hv] hw] hi] eqn:Erl.
    cbn [fst] in Hrf. exists hw. f_equal. f_equal. rewrite Hrf.
    replace (N.of_nat min + 1)%N with (N.of_nat (S min)) by lia. f_equal.
    (* tl window ++ buf[min:] = buf[min+1-W:] *)
    assert (Hcat : window ++ skipn min (c_buf c) = skipn (min - W) (c_buf c)).
    { unfold window, slice. rewrite <- (firstn_skipn W (skipn (min - W) (c_buf c))) at 2.
      f_equal. rewrite skipn_skipn. f_equal. lia. }
    replace (S min - W) with (S (min - W)) by lia. rewrite skipn_S_tl, <- Hcat.
    destruct window; [pose proof W_pos; cbn in Hwl; lia|reflexivity].
  Qed.

  (* ---------- reading: short reads, eager EOF ---------- *)

  Lemma read1_spec r room : 1 <= room ->
    let '(b, eof, r') := read1 r room in
    b ++ r_data r' = r_data r /\ (eof = true -> r_data r' = []) /\ (eof = false -> 1 <= length b).
  Proof.
    intros Hroom. unfold read1.
    set (want := match r_frags r with [] => room | f :: _ => Nat.min (Nat.max 1 f) room end).
    assert (Hwant : 1 <= want) by (unfold want; destruct (r_frags r); lia).
    set (k := Nat.min want (length (r_data r))).
    cbn [r_data]. split; [apply firstn_skipn|]. split.
    - destruct (r_data r) as [|x l] eqn:Ed.
      + intros _. now rewrite skipn_nil.
      + intros He. apply andb_true_iff in He. destruct He as [_ He].
        apply Nat.eqb_eq in He. destruct (skipn k (x :: l)); [reflexivity|cbn in He; lia].
    - destruct (r_data r) as [|x l] eqn:Ed; [discriminate|].
      intros _. rewrite firstn_length. subst k. cbn [length]. lia.
  Qed.

  Lemma fill_loop_spec size : forall fuel r acc, size - length acc < fuel ->
    let '(buf, eof, r') := fill_loop fuel r acc size in
    buf ++ r_data r' = acc ++ r_data r /\ (size <= length buf \/ r_data r' = []) /\
    (eof = true -> r_data r' = []).
  Proof.
    induction fuel as [|fuel IH]; intros r acc Hf; [lia|].
    cbn [fill_loop]. destruct (size <=? length acc) eqn:E1.
    - split; [reflexivity|]. split; [left; lia|discriminate].
    - pose proof (read1_spec r (size - length acc) ltac:(lia)) as Hr.
      destruct (read1 r (size - length acc)) as [[b eof] r'] eqn:Er.
      destruct Hr as (Hcat & Heof & Hprog).
      destruct eof.
      + split; [rewrite <- app_assoc, Hcat; reflexivity|]. split; [right; auto|auto].
      + specialize (Hprog eq_refl).
        specialize (IH r' (acc ++ b) ltac:(rewrite app_length; lia)).
        destruct (fill_loop fuel r' (acc ++ b) size) as [[buf eof'] r''].
        destruct IH as (H1 & H2 & H3). split; [rewrite H1, <- app_assoc, Hcat; reflexivity|]. split; assumption.
  Qed.

  (* ---------- the invariant between calls ---------- *)

  Record Inv (data : bytes) (c : chunker) : Prop := {
    inv_params : params_ok c;
    inv_data : c_buf c ++ r_data (c_rd c) = skipn (c_start c) data;
    inv_eof : c_eof c = true -> r_data (c_rd c) = [];
  }.

  Hypothesis Hpos : 0 < max.

  Lemma fill_buffer_inv data c : Inv data c ->
    let c' := fill_buffer c in
    Inv data c' /\ c_start c' = c_start c /\ (max <= length (c_buf c') \/ r_data (c_rd c') = []).
  Proof.
    intros [Hp Hd He]. unfold fill_buffer. destruct (c_eof c) eqn:Eeof.
    - split; [constructor; auto|]. split; [reflexivity|]. right. auto.
    - destruct Hp as (Emin & Emax & Ed & Eidx & Ehv).
      pose proof (fill_loop_spec (10 * c_max c) (S (10 * c_max c)) (c_rd c) (c_buf c) ltac:(lia)) as Hs.
      destruct (fill_loop (S (10 * c_max c)) (c_rd c) (c_buf c) (10 * c_max c)) as [[buf eof] r'].
      destruct Hs as (H1 & H2 & H3). cbn.
      split; [constructor; cbn; [repeat split; assumption|rewrite H1; exact Hd|exact H3]|].
      split; [reflexivity|]. destruct H2 as [H2|H2]; [left; lia|right; exact H2].
  Qed.

  Lemma firstn_app_le {A} (a b : list A) k : k <= length a -> firstn k (a ++ b) = firstn k a.
  Proof. intros. rewrite firstn_app. replace (k - length a) with 0 by lia. cbn. apply app_nil_r. Qed.
  Lemma skipn_app_le {A} (a b : list A) k : k <= length a -> skipn k (a ++ b) = skipn k a ++ b.
  Proof. intros. rewrite skipn_app. replace (k - length a) with 0 by lia. reflexivity. Qed.

  Lemma next_spec data c : Inv data c ->
    let rem := skipn (c_start c) data in
    let k := cut_spec min max d rem in
    exists c', next c = (c_start c, firstn k rem, c') /\ Inv data c' /\ c_start c' = c_start c + k.
  Proof.
    intros HI rem k. unfold next.
    set (c1 := if length (c_buf c) <? c_max c then fill_buffer c else c).
    assert (H1 : Inv data c1 /\ c_start c1 = c_start c /\ (max <= length (c_buf c1) \/ r_data (c_rd c1) = [])).
    { unfold c1. destruct (length (c_buf c) <? c_max c) eqn:E.
      - apply fill_buffer_inv, HI.
      - split; [exact HI|]. split; [reflexivity|]. left.
        destruct HI as [(Emin & Emax & _) _ _]. lia. }
    destruct H1 as ([Hp Hd He] & Hst & Hfull).
    destruct (next_core_cut c1 Hp) as [hw Hn]. rewrite Hn.
    assert (Hk : cut_spec min max d (c_buf c1) = k).
    { unfold k, rem. rewrite <- Hst, <- Hd. symmetry. apply cut_spec_prefix. exact Hfull. }
    rewrite Hk.
    assert (Hkl : k <= length (c_buf c1)) by (rewrite <- Hk; apply cut_le_len; assumption).
    unfold split. eexists. split; [|split].
    - rewrite Hst. f_equal. f_equal. unfold rem. rewrite <- Hst, <- Hd. symmetry. apply firstn_app_le, Hkl.
    - destruct Hp as (Emin & Emax & Ed & Eidx & Ehv).
      constructor; cbn; [repeat split; assumption| |exact He].
      rewrite <- skipn_app_le by exact Hkl. rewrite Hd, skipn_skipn. f_equal; lia.
    - cbn. lia.
  Qed.

  Fixpoint starts_from (s0 : nat) (l : list (nat * bytes)) : Prop :=
    match l with
    | [] => True
    | (s, b) :: r => s = s0 /\ starts_from (s0 + length b) r
    end.

  Lemma next_all_spec data : forall fuel c, Inv data c ->
    length (skipn (c_start c) data) < fuel ->
    map snd (next_all fuel c) = chunk_all min max d (skipn (c_start c) data) /\
    starts_from (c_start c) (next_all fuel c).
  Proof.
    induction fuel as [|fuel IH]; intros c HI Hf; [lia|].
    cbn [next_all]. destruct (next_spec data c HI) as (c' & Hn & HI' & Hst).
    rewrite Hn. set (rem := skipn (c_start c) data) in *.
    destruct rem as [|x r] eqn:Erem.
    - rewrite firstn_nil. split; [reflexivity|exact I].
    - rewrite <- Erem in *.
      assert (Hne : rem <> []) by (rewrite Erem; discriminate).
      pose proof (cut_pos min max d Hmin Hmax Hpos rem Hne) as Hc.
      pose proof (cut_le_len min max d Hmin Hmax Hpos rem) as Hl.
      destruct (firstn (cut_spec min max d rem) rem) as [|y b'] eqn:Ef.
      { apply (f_equal (@length _)) in Ef. rewrite firstn_length in Ef. cbn in Ef. lia. }
      rewrite <- Ef.
      assert (Hrem' : skipn (c_start c') data = skipn (cut_spec min max d rem) rem).
      { rewrite Hst. unfold rem. rewrite skipn_skipn. reflexivity. }
      destruct (IH c' HI') as [IH1 IH2].
      { rewrite Hrem', skipn_length. lia. }
      split.
      + cbn [map snd]. rewrite IH1, Hrem'. symmetry. apply chunk_all_step; assumption.
      + cbn [starts_from]. split; [reflexivity|].
        rewrite firstn_length, Nat.min_l by exact Hl. rewrite <- Hst. exact IH2.
  Qed.

  (* Chunker.Next, called until it returns an empty chunk, yields exactly the chunk sequence of
     the rule, with consecutive start offsets -- for EVERY way the reader fragments its reads. *)
  Theorem chunk_impl_correct (r : reader) :
    map snd (chunk_impl r min max d) = chunk_all min max d (r_data r) /\
    starts_from 0 (chunk_impl r min max d).
  Proof.
    unfold chunk_impl.
    assert (HI : Inv (r_data r) (new_chunker r min max d)).
    { constructor; cbn; [repeat split; reflexivity|reflexivity|discriminate]. }
    apply (next_all_spec (r_data r) _ _ HI). cbn. lia.
  Qed.

  Corollary fragmentation_independent data frags1 eager1 frags2 eager2 :
    chunk_impl {| r_data := data; r_frags := frags1; r_eager := eager1 |} min max d =
    chunk_impl {| r_data := data; r_frags := frags2; r_eager := eager2 |} min max d.
  Proof.
    set (r1 := {| r_data := data; r_frags := frags1; r_eager := eager1 |}).
    set (r2 := {| r_data := data; r_frags := frags2; r_eager := eager2 |}).
    destruct (chunk_impl_correct r1) as [A1 B1]. destruct (chunk_impl_correct r2) as [A2 B2].
    assert (E : map snd (chunk_impl r1 min max d) = map snd (chunk_impl r2 min max d)) by (rewrite A1, A2; reflexivity).
    revert E B1 B2. generalize (chunk_impl r1 min max d) (chunk_impl r2 min max d) 0.
    induction l as [|[s1 b1] l IH]; intros [|[s2 b2] l'] s0 E B1 B2; try discriminate; [reflexivity|].
    cbn in E. injection E as Eb El. cbn in B1, B2. destruct B1 as [-> B1], B2 as [-> B2]. subst b2.
    f_equal. eapply IH; eauto.
  Qed.
End Impl.
