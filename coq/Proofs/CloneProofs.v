From Coq Require Import List NArith ZArith Bool Lia ZifyN ZifyBool.
From DS Require Import Gen.Constants Model.Clone.
Import ListNotations.
Local Open Scope N_scope.
Ltac Zify.zify_post_hook ::= Z.div_mod_to_equations.

Lemma wsub_exact a b : b <= a -> a < 2 ^ 64 -> wsub a b = a - b.
Proof.
  intros Hba Ha. unfold wsub.
  replace (a + 2 ^ 64 - b) with ((a - b) + 1 * 2 ^ 64) by lia.
  rewrite N.mod_add by (apply N.pow_nonzero; discriminate). apply N.mod_small. lia.
Qed.

(* Every operation of the (fixed) file-seed clone writes inside the segment's destination range,
   reads the source at the same displacement, the clone call has block-aligned offsets and a
   positive block-aligned length, and the written lengths add up to the segment length. *)
Theorem fs_clone_confined srcOffset srcLength dstOffset bs :
  0 < bs -> srcOffset mod bs = dstOffset mod bs ->
  srcOffset + srcLength + bs < 2 ^ 64 -> dstOffset + srcLength + bs < 2 ^ 64 ->
  let ops := fs_clone_ops srcOffset srcLength dstOffset bs in
  Forall (fun o => dstOffset <= op_dst o /\ op_dst o + op_len o <= dstOffset + srcLength /\
                   op_src o + dstOffset = op_dst o + srcOffset) ops /\
  Forall (fun o => match o with
                   | Clone d s l => d mod bs = 0 /\ s mod bs = 0 /\ l mod bs = 0 /\ 0 < l
                   | Copy _ _ _ => True end) ops /\
  fold_right (fun o acc => op_len o + acc) 0 ops = srcLength.
Proof.
  intros Hbs Hal Hs Hd. unfold fs_clone_ops.
  unfold fsclone_srcAlignStart, fsclone_srcAlignEnd, fsclone_dstAlignStart, fsclone_alignLength, fsclone_dstAlignEnd.
  set (sas := (srcOffset / bs + 1) * bs).
  set (sae := (srcOffset + srcLength) / bs * bs).
  destruct (sae <=? sas) eqn:Eg.
  - cbn. repeat split; try (repeat constructor; cbn; lia). 
  - apply N.leb_gt in Eg.
    set (das := (dstOffset / bs + 1) * bs).
    assert (Hsas : srcOffset < sas /\ sas <= srcOffset + bs /\ sas mod bs = 0).
    { subst sas. split; [|split]; [| |apply N.mod_mul; lia]; nia. }
    assert (Hsae : sae <= srcOffset + srcLength /\ srcOffset + srcLength < sae + bs /\ sae mod bs = 0).
    { subst sae. split; [|split]; [| |apply N.mod_mul; lia]; nia. }
    assert (Hdas : das mod bs = 0) by (subst das; apply N.mod_mul; lia).
    (* same phase => das - dstOffset = sas - srcOffset *)
    assert (Hph : das + srcOffset = sas + dstOffset).
    { subst das sas.
      pose proof (N.div_mod srcOffset bs ltac:(lia)). pose proof (N.div_mod dstOffset bs ltac:(lia)). nia. }
    rewrite (wsub_exact sae sas) by lia.
    rewrite (wsub_exact sas srcOffset) by lia.
    rewrite (wsub_exact (srcOffset + srcLength) sae) by lia.
    assert (Hl : (sae - sas) mod bs = 0).
    { destruct Hsas as (_ & _ & Ha). destruct Hsae as (_ & _ & Hb).
      apply N.mod_divide in Ha; [|lia]. apply N.mod_divide in Hb; [|lia].
      apply N.mod_divide; [lia|]. destruct Ha as [x Hx], Hb as [y Hy]. exists (y - x). nia. }
    cbn [op_dst op_src op_len fold_right].
    repeat split; repeat constructor; cbn [op_dst op_src op_len]; try lia.
Qed.

(* Before the fix (no guard): a 50-byte segment at offset 100 with 4096-byte blocks issues a
   head copy of 3996 bytes -- beyond the segment -- and a clone of length 2^64-4096. *)
Example fs_clone_unguarded_refuted :
  exists o, In o (fs_clone_ops_unguarded 100 50 100 4096) /\ 100 + 50 < op_dst o + op_len o.
Proof. exists (Copy 100 100 3996). split; [left; reflexivity|vm_compute; reflexivity]. Qed.

Example fs_clone_example :
  fs_clone_ops 100 10000 4196 4096 = [Copy 4196 100 3996; Copy 12288 8192 1908; Clone 8192 4096 4096].
Proof. vm_compute. reflexivity. Qed.

(* null section (fixed): every op stays inside [offset, offset+length) *)
Lemma ns_blocks_confined bs dae : 0 < bs -> dae mod bs = 0 ->
  forall fuel blk, blk mod bs = 0 ->
  Forall (fun o => blk <= op_dst o /\ op_dst o + op_len o <= dae) (ns_blocks fuel blk dae bs).
Proof.
  intros Hbs Hdae. induction fuel as [|f IH]; intros blk Hblk; cbn [ns_blocks]; [constructor|].
  destruct (blk <? dae) eqn:E; [|constructor].
  apply N.ltb_lt in E.
  assert (blk + bs <= dae).
  { apply N.mod_divide in Hblk; [|lia]. apply N.mod_divide in Hdae; [|lia].
    destruct Hblk as [x Hx], Hdae as [y Hy]. subst blk dae.
    assert (x + 1 <= y) by nia. nia. }
  constructor; [cbn; lia|].
  assert (Hn : (blk + bs) mod bs = 0).
  { apply N.mod_divide; [lia|]. apply N.mod_divide in Hblk; [|lia]. destruct Hblk as [x Hx]. exists (x + 1). nia. }
  specialize (IH (blk + bs) Hn). eapply Forall_impl; [|exact IH]. cbn. intros o [A B]. lia.
Qed.

Theorem ns_clone_confined offset length bs :
  0 < bs -> offset + length + bs < 2 ^ 64 ->
  Forall (fun o => offset <= op_dst o /\ op_dst o + op_len o <= offset + length)
         (ns_clone_ops offset length bs).
Proof.
  intros Hbs Ho. unfold ns_clone_ops, nsclone_dstAlignStart, nsclone_dstAlignEnd.
  set (das := (offset / bs + 1) * bs). set (dae := (offset + length) / bs * bs).
  destruct (dae <=? das) eqn:Eg.
  - repeat constructor; cbn; lia.
  - apply N.leb_gt in Eg.
    assert (Hdas : offset < das /\ das <= offset + bs /\ das mod bs = 0).
    { subst das. split; [|split]; [| |apply N.mod_mul; lia]; nia. }
    assert (Hdae : dae <= offset + length /\ offset + length < dae + bs /\ dae mod bs = 0).
    { subst dae. split; [|split]; [| |apply N.mod_mul; lia]; nia. }
    rewrite (wsub_exact das offset) by lia. rewrite (wsub_exact (offset + length) dae) by lia.
    apply Forall_app. split.
    + repeat constructor; cbn; lia.
    + pose proof (ns_blocks_confined bs dae Hbs (proj2 (proj2 Hdae)) (N.to_nat ((dae - das) / bs) + 1) das (proj2 (proj2 Hdas))) as Hb.
      eapply Forall_impl; [|exact Hb]. cbn. intros o [A B]. lia.
Qed.
