(* The bytes Index.WriteTo produces, read at fixed offsets by [parse_layout]. *)
From Coq Require Import List NArith Arith Bool Lia ZifyN ZifyNat ZifyBool.
From DS Require Import Gen.Constants Base.Bytes Base.LE64 Model.Format Model.Index
     Proofs.FormatProofs Proofs.IndexProofs Proofs.ReencodeProofs.
Import ListNotations.
Local Open Scope N_scope.

Lemma word_at_words : forall ws pre rest m,
  (m < length ws)%nat -> Forall w64 ws ->
  word_at (pre ++ le64s ws ++ rest) (length pre + 8 * m) = nth m ws 0.
Proof.
  induction ws as [|w ws IH]; intros pre rest m Hm Hwf; [cbn in Hm; lia|].
  inversion Hwf as [|? ? Hw Hwf']; subst. rewrite le64s_cons, <- app_assoc.
  destruct m as [|m].
  - rewrite Nat.mul_0_r, Nat.add_0_r. cbn [nth]. now apply word_at_app.
  - cbn [nth]. rewrite app_assoc.
    replace (length pre + 8 * S m)%nat with (length (pre ++ le64 w) + 8 * m)%nat by (rewrite app_length, le64_length; lia).
    apply IH; [cbn [length] in Hm; lia|exact Hwf'].
Qed.

Lemma slice_app_skip {A} (pre l rest : list A) : slice (pre ++ l ++ rest) (length pre) (length l) = l.
Proof.
  unfold slice. rewrite skipn_app, skipn_all, Nat.sub_diag. cbn [skipn app].
  rewrite firstn_app, firstn_all, Nat.sub_diag, firstn_O, app_nil_r. reflexivity.
Qed.

Lemma titem_at : forall items pre post j,
  Forall wf_titem items -> (j < length items)%nat ->
  word_at (pre ++ enc_titems items ++ post) (length pre + 40 * j) = fst (nth j items (0, [])) /\
  slice (pre ++ enc_titems items ++ post) (length pre + 40 * j + 8) 32 = snd (nth j items (0, [])).
Proof.
  induction items as [|[o id] items IH]; intros pre post j Hwf Hj; [cbn in Hj; lia|].
  inversion Hwf as [|? ? Hi Hwf']; subst. destruct Hi as [Ho [_ Hid]].
  cbn [enc_titems flat_map enc_titem]. fold (enc_titems items). rewrite <- !app_assoc.
  destruct j as [|j].
  - rewrite Nat.mul_0_r, Nat.add_0_r. cbn [nth fst snd]. split.
    + now apply word_at_app.
    + rewrite (app_assoc pre (le64 o)).
      replace (length pre + 8)%nat with (length (pre ++ le64 o)) by (rewrite app_length, le64_length; reflexivity).
      rewrite <- Hid. apply slice_app_skip.
  - cbn [nth].
    replace (pre ++ le64 o ++ id ++ enc_titems items ++ post) with ((pre ++ le64 o ++ id) ++ enc_titems items ++ post)
      by (now rewrite <- !app_assoc).
    replace (length pre + 40 * S j)%nat with (length (pre ++ le64 o ++ id) + 40 * j)%nat
      by (rewrite !app_length, le64_length, Hid; lia).
    apply IH; [exact Hwf'|cbn [length] in Hj; lia].
Qed.

Lemma map_seq_nth {A} (d : A) : forall (l : list A) (f : nat -> A) s,
  (forall j, (j < length l)%nat -> f (s + j)%nat = nth j l d) -> map f (seq s (length l)) = l.
Proof.
  induction l as [|x l IH]; intros f s Hf; [reflexivity|].
  cbn [length seq map]. f_equal.
  - specialize (Hf 0%nat ltac:(cbn; lia)). now rewrite Nat.add_0_r in Hf.
  - apply IH. intros j Hj. specialize (Hf (S j) ltac:(cbn [length]; lia)).
    replace (S s + j)%nat with (s + S j)%nat by lia. exact Hf.
Qed.

Lemma existsb_zero_offsets items : Forall wf_titem items -> existsb (fun it : titem => fst it =? 0) items = false.
Proof.
  induction 1 as [|[o id] items Hi _ IH]; [reflexivity|]. destruct Hi as [_ [Hnz _]].
  cbn [existsb fst]. rewrite IH, orb_false_r. now apply N.eqb_neq.
Qed.

(* The file WriteTo produces is, read at the fixed offsets of the caibx layout: the parameters, one
   (end offset, id) row per chunk, and the tail record 0,0,48,uint64(file length - 48),marker. *)
Theorem index_layout i : wf_index i ->
  parse_layout (encode_index i) =
    Some (mkLayout (ix_flags i) (ix_min i) (ix_avg i) (ix_max i) (table_items 0 (ix_chunks i))
                   48 (u64 (N.of_nat (length (encode_index i) - 48)))) /\
  length (encode_index i) = (48 + 16 + 40 * length (ix_chunks i) + 40)%nat.
Proof.
  intros Hwf. pose proof (table_elem_wf i Hwf) as [_ Hit]. destruct Hwf as [Hff Hmn Hav Hmx _ _ _ _ _].
  set (items := table_items 0 (ix_chunks i)) in *.
  set (W6 := le64s [48; CaFormatIndex; ix_flags i; ix_min i; ix_avg i; ix_max i]).
  set (W2 := le64s [MaxUint64; CaFormatTable]).
  set (tsz := lenN (W2 ++ enc_titems items) + 40).
  set (W5 := le64s [0; 0; 48; u64 tsz; CaFormatTableTailMarker]).
  assert (Hb : encode_index i = W6 ++ W2 ++ enc_titems items ++ W5).
  { unfold encode_index. cbn [encode_elem h_size h_type]. fold items W6 W2. fold tsz.
    unfold W5, le64s. cbn [flat_map]. rewrite le64_u64. now rewrite <- !app_assoc. }
  assert (Hk : length items = length (ix_chunks i)) by apply table_items_length.
  assert (HW6 : length W6 = 48%nat) by (unfold W6; rewrite le64s_length; reflexivity).
  assert (HW2 : length W2 = 16%nat) by (unfold W2; rewrite le64s_length; reflexivity).
  assert (HW5 : length W5 = 40%nat) by (unfold W5; rewrite le64s_length; reflexivity).
  assert (HE : length (enc_titems items) = (40 * length items)%nat) by (now apply enc_titems_length).
  assert (Hlen : length (encode_index i) = (104 + 40 * length items)%nat).
  { rewrite Hb, !app_length, HW6, HW2, HW5, HE. lia. }
  assert (Htsz : tsz = N.of_nat (length (encode_index i) - 48)).
  { unfold tsz, lenN. rewrite app_length, HW2, HE, Hlen. lia. }
  split; [|rewrite Hlen, Hk; lia].
  assert (F6 : Forall w64 [48; CaFormatIndex; ix_flags i; ix_min i; ix_avg i; ix_max i]).
  { repeat constructor; unfold w64; try assumption; try reflexivity. }
  assert (F2 : Forall w64 [MaxUint64; CaFormatTable]) by (repeat constructor; unfold w64; reflexivity).
  assert (F5 : Forall w64 [0; 0; 48; u64 tsz; CaFormatTableTailMarker]).
  { repeat constructor; unfold w64; try reflexivity. apply u64_lt. }
  (* the words at their offsets *)
  assert (A6 : forall m, (m < 6)%nat -> word_at (encode_index i) (8 * m) =
                 nth m [48; CaFormatIndex; ix_flags i; ix_min i; ix_avg i; ix_max i] 0).
  { intros m Hm. rewrite Hb. apply (word_at_words _ [] _ m); [cbn; lia|exact F6]. }
  assert (A2 : forall m, (m < 2)%nat -> word_at (encode_index i) (48 + 8 * m) = nth m [MaxUint64; CaFormatTable] 0).
  { intros m Hm. rewrite Hb, <- HW6. unfold W2. apply (word_at_words _ W6 _ m); [cbn; lia|exact F2]. }
  assert (A5 : forall m, (m < 5)%nat -> word_at (encode_index i) (64 + 40 * length items + 8 * m) =
                 nth m [0; 0; 48; u64 tsz; CaFormatTableTailMarker] 0).
  { intros m Hm. rewrite Hb.
    replace (W6 ++ W2 ++ enc_titems items ++ W5) with ((W6 ++ W2 ++ enc_titems items) ++ W5 ++ []) by (now rewrite app_nil_r, <- !app_assoc).
    replace (64 + 40 * length items)%nat with (length (W6 ++ W2 ++ enc_titems items)) by (rewrite !app_length, HW6, HW2, HE; lia).
    unfold W5. apply (word_at_words _ _ [] m); [cbn; lia|exact F5]. }
  assert (AI : map (fun j => (word_at (encode_index i) (64 + 40 * j), slice (encode_index i) (72 + 40 * j) 32))
                   (seq 0 (length items)) = items).
  { apply (map_seq_nth (0, [])). intros j Hj. rewrite Nat.add_0_l. rewrite Hb.
    replace (W6 ++ W2 ++ enc_titems items ++ W5) with ((W6 ++ W2) ++ enc_titems items ++ W5) by (now rewrite <- !app_assoc).
    destruct (titem_at items (W6 ++ W2) W5 j Hit Hj) as [E1 E2].
    rewrite app_length, HW6, HW2 in E1, E2.
    replace (48 + 16 + 40 * j)%nat with (64 + 40 * j)%nat in E1, E2 by lia.
    replace (72 + 40 * j)%nat with (64 + 40 * j + 8)%nat by lia.
    rewrite E1, E2. symmetry. apply surjective_pairing. }
  unfold parse_layout. rewrite Hlen.
  replace (104 + 40 * length items <? 104)%nat with false by (symmetry; apply Nat.ltb_ge; lia).
  replace (104 + 40 * length items - 104)%nat with (length items * 40)%nat by lia.
  rewrite Nat.mod_mul, Nat.div_mul by lia. cbn [Nat.eqb negb].
  rewrite AI.
  assert (S0 : word_at (encode_index i) 0 = 48) by exact (A6 0%nat ltac:(lia)).
  assert (S1 : word_at (encode_index i) 8 = CaFormatIndex) by exact (A6 1%nat ltac:(lia)).
  assert (S2 : word_at (encode_index i) 16 = ix_flags i) by exact (A6 2%nat ltac:(lia)).
  assert (S3 : word_at (encode_index i) 24 = ix_min i) by exact (A6 3%nat ltac:(lia)).
  assert (S4 : word_at (encode_index i) 32 = ix_avg i) by exact (A6 4%nat ltac:(lia)).
  assert (S5 : word_at (encode_index i) 40 = ix_max i) by exact (A6 5%nat ltac:(lia)).
  assert (S6 : word_at (encode_index i) 48 = MaxUint64) by exact (A2 0%nat ltac:(lia)).
  assert (S7 : word_at (encode_index i) 56 = CaFormatTable) by exact (A2 1%nat ltac:(lia)).
  assert (T0 : word_at (encode_index i) (64 + 40 * length items) = 0).
  { pose proof (A5 0%nat ltac:(lia)) as T. rewrite Nat.mul_0_r, Nat.add_0_r in T. exact T. }
  assert (T1 : word_at (encode_index i) (64 + 40 * length items + 8) = 0) by exact (A5 1%nat ltac:(lia)).
  assert (T2 : word_at (encode_index i) (64 + 40 * length items + 16) = 48) by exact (A5 2%nat ltac:(lia)).
  assert (T3 : word_at (encode_index i) (64 + 40 * length items + 24) = u64 tsz) by exact (A5 3%nat ltac:(lia)).
  assert (T4 : word_at (encode_index i) (64 + 40 * length items + 32) = CaFormatTableTailMarker) by exact (A5 4%nat ltac:(lia)).
  rewrite S0, S1, S2, S3, S4, S5, S6, S7, T0, T1, T2, T3, T4. rewrite !N.eqb_refl. cbn [negb].
  rewrite existsb_zero_offsets by assumption.
  rewrite Htsz, Hlen. reflexivity.
Qed.

(* ---------- re-encoding, with "canonical" read off by the independent layout reader ---------- *)

Lemma parse_layout_inv b l : parse_layout b = Some l ->
  let k := ((length b - 104) / 40)%nat in
  length b = (104 + 40 * k)%nat /\
  word_at b 0 = 48 /\
  (forall j, (j < k)%nat -> word_at b (64 + 40 * j) <> 0) /\
  word_at b (64 + 40 * k) = 0 /\
  ly_index_offset l = word_at b (64 + 40 * k + 16) /\
  ly_table_size l = word_at b (64 + 40 * k + 24).
Proof.
  intros E. cbv zeta. unfold parse_layout in E. set (k := ((length b - 104) / 40)%nat) in *.
  destruct (length b <? 104)%nat eqn:E0; [discriminate|]. apply Nat.ltb_ge in E0.
  destruct (negb ((length b - 104) mod 40 =? 0)%nat) eqn:E1; [discriminate|].
  apply negb_false_iff, Nat.eqb_eq in E1.
  destruct (negb (word_at b 0 =? 48)) eqn:E2; [discriminate|]. apply negb_false_iff, N.eqb_eq in E2.
  destruct (negb (word_at b 8 =? CaFormatIndex)); [discriminate|].
  destruct (negb (word_at b 48 =? MaxUint64)); [discriminate|].
  destruct (negb (word_at b 56 =? CaFormatTable)); [discriminate|].
  destruct (existsb _ _) eqn:E3; [discriminate|].
  destruct (negb (word_at b (64 + 40 * k) =? 0)) eqn:E4; [discriminate|]. apply negb_false_iff, N.eqb_eq in E4.
  destruct (negb (word_at b (64 + 40 * k + 8) =? 0)); [discriminate|].
  destruct (negb (word_at b (64 + 40 * k + 32) =? CaFormatTableTailMarker)); [discriminate|].
  inversion E; subst. clear E. cbn [ly_index_offset ly_table_size].
  split.
  { pose proof (Nat.div_mod (length b - 104) 40 ltac:(lia)) as Hd. rewrite E1 in Hd. unfold k. lia. }
  split; [exact E2|]. split; [|split; [exact E4|split; reflexivity]].
  intros j Hj Hz.
  assert (Hex : existsb (fun it : N * list byte => fst it =? 0)
                  (map (fun j => (word_at b (64 + 40 * j), slice b (72 + 40 * j) 32)) (seq 0 k)) = true).
  { apply existsb_exists. exists (word_at b (64 + 40 * j), slice b (72 + 40 * j) 32). split.
    - apply in_map_iff. exists j. split; [reflexivity|]. apply in_seq. lia.
    - cbn [fst]. now apply N.eqb_eq. }
  rewrite Hex in E3. discriminate.
Qed.

(* A file of real bytes that IndexFromReader accepts and that the fixed-offset reader of the caibx
   layout parses with canonical tail fields is reproduced byte for byte by WriteTo. *)
Theorem index_reencode_layout d b i l :
  wf_bytes b -> decode_index d b = Ok i -> parse_layout b = Some l -> canonical_tail b l = true ->
  encode_index i = b.
Proof.
  intros Hwf Ed Hl Hc.
  unfold decode_index in Ed.
  destruct (index_from_reader d b) as [[[i'|er|pp] rest] a] eqn:Ei; try discriminate.
  inversion Ed; subst i'. clear Ed.
  destruct (index_from_reader_inv _ _ _ _ _ Ei Hwf) as [sz [x [y [items [Hb [Hsz [Hx [Hy [Hwfi _]]]]]]]]].
  destruct (parse_layout_inv _ _ Hl) as [Hlen [Hw0 [Hnz [Hz [Hio Hts]]]]].
  set (k := ((length b - 104) / 40)%nat) in *.
  set (W6 := le64s [sz; CaFormatIndex; ix_flags i; ix_min i; ix_avg i; ix_max i]) in *.
  set (W2 := le64s [MaxUint64; CaFormatTable]) in *.
  set (W5 := le64s [0; 0; x; y; CaFormatTableTailMarker]) in *.
  assert (HW6 : length W6 = 48%nat) by (unfold W6; rewrite le64s_length; reflexivity).
  assert (HW2 : length W2 = 16%nat) by (unfold W2; rewrite le64s_length; reflexivity).
  assert (HW5 : length W5 = 40%nat) by (unfold W5; rewrite le64s_length; reflexivity).
  assert (HE : length (enc_titems items) = (40 * length items)%nat) by (now apply enc_titems_length).
  assert (Hlenb : length b = (104 + 40 * length items + length rest)%nat).
  { rewrite Hb at 1. rewrite !app_length, HW6, HW2, HW5, HE. lia. }
  (* offsets of the rows, and the terminator behind them, in b *)
  assert (Hrow : forall j, (j < length items)%nat -> word_at b (64 + 40 * j) <> 0).
  { intros j Hj. rewrite Hb.
    replace (W6 ++ W2 ++ enc_titems items ++ W5 ++ rest) with ((W6 ++ W2) ++ enc_titems items ++ (W5 ++ rest)) by (now rewrite <- !app_assoc).
    destruct (titem_at items (W6 ++ W2) (W5 ++ rest) j Hwfi Hj) as [E1 _].
    rewrite app_length, HW6, HW2 in E1. replace (48 + 16 + 40 * j)%nat with (64 + 40 * j)%nat in E1 by lia. rewrite E1.
    rewrite Forall_forall in Hwfi. specialize (Hwfi (nth j items (0, [])) (nth_In _ _ Hj)).
    destruct (nth j items (0, [])) as [o id]. destruct Hwfi as [_ [Ho _]]. exact Ho. }
  assert (Hterm : word_at b (64 + 40 * length items) = 0).
  { rewrite Hb.
    replace (W6 ++ W2 ++ enc_titems items ++ W5 ++ rest) with ((W6 ++ W2 ++ enc_titems items) ++ W5 ++ rest) by (now rewrite <- !app_assoc).
    pose proof (word_at_words [0; 0; x; y; CaFormatTableTailMarker] (W6 ++ W2 ++ enc_titems items) rest 0%nat) as Hw.
    rewrite !app_length, HW6, HW2, HE in Hw. replace (48 + (16 + 40 * length items) + 8 * 0)%nat with (64 + 40 * length items)%nat in Hw by lia.
    apply Hw; [cbn; lia|]. repeat constructor; unfold w64; try assumption; reflexivity. }
  assert (Hk : length items = k).
  { destruct (lt_eq_lt_dec (length items) k) as [[Hlt|Heq]|Hgt]; [|exact Heq|].
    - exfalso. exact (Hnz _ Hlt Hterm).
    - exfalso. exact (Hrow _ Hgt Hz). }
  assert (Hrest : rest = []) by (apply length_zero_iff_nil; lia).
  apply (index_reencode d); [exact Hwf| |].
  - unfold decode_index_rest, run_result. rewrite Ei, Hrest. reflexivity.
  - apply andb_true_iff in Hc. destruct Hc as [Hc1 Hc2]. apply N.eqb_eq in Hc1, Hc2.
    unfold canonical. split; [exact Hw0|]. rewrite Hio in Hc1. rewrite Hts in Hc2.
    replace (length b - 24)%nat with (64 + 40 * k + 16)%nat by lia.
    replace (length b - 16)%nat with (64 + 40 * k + 24)%nat by lia.
    split; assumption.
Qed.

(* Re-encoding heals: whatever the words IndexFromReader does not look at held in the file (the index
   element's size field, the tail's index offset and table size), what WriteTo writes for the decoded
   index has the canonical layout. *)
Theorem reencode_canonical d b i rest :
  wf_bytes b -> decode_index_rest d b = Ok (i, rest) ->
  parse_layout (encode_index i) =
    Some (mkLayout (ix_flags i) (ix_min i) (ix_avg i) (ix_max i) (table_items 0 (ix_chunks i))
                   48 (u64 (N.of_nat (length (encode_index i) - 48)))) /\
  word_at (encode_index i) 0 = 48.
Proof.
  intros Hwf E. pose proof (index_accepted_wf d b i rest Hwf E) as Hwi.
  destruct (index_layout i Hwi) as [Hl _]. split; [exact Hl|].
  destruct (parse_layout_inv _ _ Hl) as [_ [Hw _]]. exact Hw.
Qed.
