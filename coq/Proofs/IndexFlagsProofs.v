From Coq Require Import NArith Bool.
From DS Require Import Gen.Constants Model.IndexFlags.

(* the digest flag of the index IndexFromFile returns says which digest made the chunk ids,
   whatever the input file's catar header claims *)
Theorem index_flags_digest_bit d512 catar : has_digest_bit (index_flags d512 catar) = d512.
Proof.
  unfold has_digest_bit, index_flags, make_flags_init, make_flags_catar, digest_flag.
  destruct catar as [t|].
  - rewrite N.land_lor_distr_l, N.land_ldiff, N.lor_0_r. destruct d512; vm_compute; reflexivity.
  - destruct d512; vm_compute; reflexivity.
Qed.

(* so the same configuration can read the index back *)
Theorem made_index_is_readable d512 catar : reader_accepts d512 (index_flags d512 catar) = true.
Proof. unfold reader_accepts. rewrite index_flags_digest_bit. destruct d512; reflexivity. Qed.

(* and a configuration with the other digest refuses it *)
Theorem made_index_refused_by_other_digest d512 catar : reader_accepts (negb d512) (index_flags d512 catar) = false.
Proof. unfold reader_accepts. rewrite index_flags_digest_bit. destruct d512; reflexivity. Qed.

(* nothing else of the catar's flags is lost *)
Lemma ldiff_mask_gen (a t m x : N) : (x = m \/ x = 0%N) ->
  N.ldiff (N.lor (N.lor a x) (N.ldiff t m)) m = N.ldiff (N.lor a t) m.
Proof.
  intros Hx. apply N.bits_inj. intro n. rewrite !N.ldiff_spec, !N.lor_spec, !N.ldiff_spec.
  destruct Hx as [->| ->]; [|rewrite N.bits_0];
    destruct (N.testbit a n), (N.testbit t n), (N.testbit m n); reflexivity.
Qed.

Theorem index_flags_keeps_catar_flags d512 t :
  N.ldiff (index_flags d512 (Some t)) CaFormatSHA512256
  = N.ldiff (N.lor CaFormatExcludeNoDump t) CaFormatSHA512256.
Proof.
  unfold index_flags, make_flags_init, make_flags_catar, digest_flag.
  apply ldiff_mask_gen. destruct d512; [left|right]; reflexivity.
Qed.
