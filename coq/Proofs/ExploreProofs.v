From Coq Require Import List Bool Lia.
From DS Require Import Model.Explore.
Import ListNotations.

Section ExploreProofs.
  Context {st : Type}.
  Variable succs : st -> list st.
  Variable eqb : st -> st -> bool.
  Hypothesis eqb_eq : forall a b, eqb a b = true <-> a = b.

  Inductive reach (init : st) : st -> Prop :=
  | reach_refl : reach init init
  | reach_step : forall a b, reach init a -> In b (succs a) -> reach init b.

  Lemma mem_In s l : mem eqb s l = true <-> In s l.
  Proof.
    unfold mem. rewrite existsb_exists. split.
    - intros [x [Hin E]]. apply eqb_eq in E. now subst.
    - intros Hin. exists s. split; [exact Hin|]. now apply eqb_eq.
  Qed.

  (* every explored state is reachable *)
  Lemma explore_sound init fuel : forall todo seen out,
    (forall x, In x todo -> reach init x) -> (forall x, In x seen -> reach init x) ->
    explore succs eqb fuel todo seen = Some out -> forall x, In x out -> reach init x.
  Proof.
    induction fuel as [|f IH]; intros todo seen out Ht Hs E; [discriminate|].
    cbn in E. destruct todo as [|s rest].
    - inversion E; subst. exact Hs.
    - destruct (mem eqb s seen) eqn:Em.
      + eapply IH; [| |exact E]; auto. intros x Hx. apply Ht. now right.
      + eapply IH; [| |exact E].
        * intros x Hx. apply in_app_or in Hx. destruct Hx as [Hx|Hx].
          -- eapply reach_step; [apply Ht; now left|exact Hx].
          -- apply Ht. now right.
        * intros x [<-|Hx]; [apply Ht; now left|auto].
  Qed.

  (* the explored set contains the work list and is closed under successors *)
  Lemma explore_closed fuel : forall todo seen out,
    (forall x y, In x seen -> In y (succs x) -> In y seen \/ In y todo) ->
    explore succs eqb fuel todo seen = Some out ->
    (forall x, In x seen -> In x out) /\ (forall x, In x todo -> In x out) /\
    (forall x y, In x out -> In y (succs x) -> In y out).
  Proof.
    induction fuel as [|f IH]; intros todo seen out Hc E; [discriminate|].
    cbn in E. destruct todo as [|s rest].
    - inversion E; subst. split; [auto|]. split; [intros x []|].
      intros x y Hx Hy. destruct (Hc x y Hx Hy) as [?|[]]. assumption.
    - destruct (mem eqb s seen) eqn:Em.
      + apply mem_In in Em.
        destruct (IH rest seen out) as [A [B C]]; [|exact E|].
        * intros x y Hx Hy. destruct (Hc x y Hx Hy) as [?|[<-|?]]; auto.
        * split; [exact A|]. split; [|exact C]. intros x [<-|Hx]; auto.
      + destruct (IH (succs s ++ rest) (s :: seen) out) as [A [B C]]; [|exact E|].
        * intros x y [<-|Hx] Hy.
          -- right. apply in_or_app. now left.
          -- destruct (Hc x y Hx Hy) as [?|[<-|?]].
             ++ left. now right.
             ++ left. now left.
             ++ right. apply in_or_app. now right.
        * split; [intros x Hx; apply A; now right|]. split; [|exact C].
          intros x [<-|Hx]; [apply A; now left|apply B; apply in_or_app; now right].
  Qed.

  Theorem reach_set_sound fuel init out :
    reach_set succs eqb fuel init = Some out -> forall x, In x out -> reach init x.
  Proof.
    intros E. eapply explore_sound; [| |exact E].
    - intros x [<-|[]]. constructor.
    - intros x [].
  Qed.

  Theorem reach_set_complete fuel init out :
    reach_set succs eqb fuel init = Some out -> forall x, reach init x -> In x out.
  Proof.
    intros E x Hr.
    destruct (explore_closed fuel [init] [] out) as [_ [B C]]; [intros ? ? []|exact E|].
    induction Hr as [|a b _ IH Hb]; [apply B; now left|eapply C; eauto].
  Qed.
End ExploreProofs.
