(* Lemmas about Model/Prune.v: the walk, LocalStore.Prune, LocalStore.Verify, S3Store.Prune. *)
From Coq Require Import List NArith Arith Bool Lia Permutation.
From DS Require Import Gen.Constants Base.Bytes Base.Hash Base.HexId Base.FS Model.LocalStore Model.Prune
     Proofs.LocalStoreProofs.
Import ListNotations.

(* ---------- file-system helpers ---------- *)

Lemma remove_stat p s s' : remove p s = Ok s' ->
  forall q, stat q s' = if path_eqb q p then None else stat q s.
Proof.
  unfold remove. intros E.
  assert (U : unlink p s = Ok s' -> forall q, stat q s' = if path_eqb q p then None else stat q s)
    by (intros U; apply (stat_unlink _ _ _ U)).
  destruct (resolve p s) as [[m l|m b|m t]|e] eqn:R; try (now apply U).
  unfold rmdir in E. destruct (stat_upd_point _ _ _ _ E) as (r & F & _ & P).
  assert (L : lookup p s = Some (Dir m l)) by (unfold lookup; now rewrite R). rewrite L in F, P.
  destruct l; [|discriminate]. inversion F; subst r. apply P; exact I.
Qed.

Lemma stat_app_none p t s : stat p s = None -> stat (p ++ t) s = None.
Proof.
  unfold stat. rewrite lookup_app. destruct (lookup p s); [discriminate|]. reflexivity.
Qed.

Lemma stat_below_nondir p t s : t <> [] -> is_dir (stat p s) = false -> stat (p ++ t) s = None.
Proof.
  intros Ht. unfold stat. rewrite lookup_app. destruct (lookup p s) as [[m l|m b|m x]|]; cbn; try discriminate;
    intros _; destruct t; try congruence; cbn [lookup_opt]; now rewrite lookup_cons.
Qed.

Lemma assoc_in n l : (exists c, assoc n l = Some c) <-> In n (map fst l).
Proof.
  induction l as [|[k v] l IH]; cbn [assoc map fst In].
  - split; [intros [c E]; discriminate|tauto].
  - destruct (bytes_eqb k n) eqn:E.
    + apply bytes_eqb_eq in E. subst. split; [now left|intros _; now exists v].
    + rewrite IH. split; [now right|intros [X|X]; [|exact X]]. subst. now rewrite bytes_eqb_refl in E.
Qed.

Lemma readdir_in p s names n : readdir p s = Ok names ->
  (In n names <-> exists c, lookup (p ++ [n]) s = Some c).
Proof.
  unfold readdir. destruct (resolve p s) as [[m l|m b|m t]|e] eqn:R; try discriminate.
  intros E. inversion E; subst names. rewrite in_sort_names, <- assoc_in.
  assert (L : lookup p s = Some (Dir m l)) by (unfold lookup; now rewrite R).
  rewrite lookup_app, L. cbn [lookup_opt]. rewrite lookup_cons, lookup_opt_nil. reflexivity.
Qed.

Lemma readdir_ok_dir p s names : readdir p s = Ok names -> is_dir (stat p s) = true.
Proof.
  unfold readdir, stat, lookup. destruct (resolve p s) as [[m l|m b|m t]|e]; try discriminate. reflexivity.
Qed.

Lemma stat_node_is_dir p s c : lookup p s = Some c -> is_dir (stat p s) = node_is_dir c.
Proof. unfold stat. intros ->. now destruct c. Qed.

Lemma last_app_single {A} (l : list A) x d : last (l ++ [x]) d = x.
Proof. induction l as [|a l IH]; [reflexivity|]. cbn [app]. destruct (l ++ [x]) eqn:E; [destruct l; discriminate|exact IH]. Qed.

(* ---------- the suffix test on the path is a test on the base name ---------- *)

Definition base_file_id (unc : bool) (nm : name) : option id :=
  if has_suffix nm (ext_of unc) then unhex_id (trim_suffix nm (ext_of unc)) else None.

Lemma has_suffix_app_long a b e : length e <= length b -> has_suffix (a ++ b) e = has_suffix b e.
Proof.
  intros L. unfold has_suffix. rewrite app_length.
  replace (length e <=? length a + length b) with true by (symmetry; apply Nat.leb_le; lia).
  replace (length e <=? length b) with true by (symmetry; apply Nat.leb_le; lia).
  rewrite skipn_app, skipn_all2 by lia. cbn [app andb].
  now replace (length a + length b - length e - length a) with (length b - length e) by lia.
Qed.

Lemma ext_short unc : length (ext_of unc) <= 64.
Proof. destruct unc; [vm_compute; lia|apply comp_ext_short]. Qed.

Lemma chunk_file_id_base unc dstr nm : chunk_file_id unc (join_str dstr nm) nm = base_file_id unc nm.
Proof.
  unfold chunk_file_id, base_file_id, join_str.
  destruct (Nat.le_gt_cases (length (ext_of unc)) (length nm)) as [L|L].
  - change (dstr ++ slash :: nm) with (dstr ++ [slash] ++ nm). rewrite app_assoc.
    now rewrite has_suffix_app_long.
  - assert (Sf : has_suffix nm (ext_of unc) = false).
    { unfold has_suffix. apply andb_false_iff. left. apply Nat.leb_gt. exact L. }
    rewrite Sf. destruct (has_suffix (dstr ++ slash :: nm) (ext_of unc)); [|reflexivity].
    unfold trim_suffix. rewrite Sf.
    destruct (unhex_id nm) eqn:U; [|reflexivity]. apply unhex_id_some in U. destruct U as [U _].
    pose proof (ext_short unc). lia.
Qed.

(* canonical names are accepted by their own filter *)
Lemma base_file_id_canonical unc i : wf_id i -> base_file_id unc (hex_id i ++ ext_of unc) = Some i.
Proof. intros W. rewrite <- (chunk_file_id_base unc []). now apply chunk_file_id_canonical. Qed.

Definition is_tmp (nm : name) : bool := has_prefix nm tmpChunkPrefix_bytes.
Definition canon (st : store) (i : id) : path := snd (name_from_id st i).

Lemma last_canon st i : last (canon st i) [] = hex_id i ++ ext_of (st_unc st).
Proof. unfold canon, name_from_id. cbn [snd]. apply last_app_single. Qed.

(* ---------- generic facts about the walk ---------- *)

Definition mono (s s' : node) : Prop := forall q en, stat q s' = Some en -> stat q s = Some en.

Lemma mono_refl s : mono s s. Proof. intros q en E. exact E. Qed.
Lemma mono_trans a b c : mono a b -> mono b c -> mono a c.
Proof. intros X Y q en E. apply X, Y, E. Qed.

Section WalkFacts.
  Context {X : Type}.
  Variable fs_of : X -> node.
  Variable on_file : bytes -> path -> X -> X * option walk_err.

  Lemma walk_inv (Inv : X -> Prop) :
    (forall pstr p x x' e, Inv x -> on_file pstr p x = (x', e) -> Inv x') ->
    forall fuel pstr p isdir x x' e,
      Inv x -> walk fs_of on_file fuel pstr p isdir x = (x', e) -> Inv x'.
  Proof.
    intros HF. induction fuel as [|f IH]; intros pstr p isdir x x' e HI W; cbn [walk] in W.
    - inversion W; subst. exact HI.
    - destruct isdir; [|eapply HF; eauto].
      destruct (readdir p (fs_of x)) as [names|er]; [|inversion W; subst; exact HI].
      revert x HI W. induction names as [|n r IHn]; intros x HI W; cbn [walk_loop] in W.
      + inversion W; subst. exact HI.
      + destruct (lookup (p ++ [n]) (fs_of x)) as [c|]; [|inversion W; subst; exact HI].
        destruct (walk fs_of on_file f (join_str pstr n) (p ++ [n]) (node_is_dir c) x) as [x1 [e1|]] eqn:W1.
        * inversion W; subst. eapply IH; eauto.
        * eapply IHn; [eapply IH; eauto|exact W].
  Qed.

  (* the same, the callback knowing that it is handed an existing non-directory *)
  Lemma walk_inv2 (Inv : X -> Prop) :
    (forall pstr p x x' e, Inv x -> stat p (fs_of x) <> None -> is_dir (stat p (fs_of x)) = false ->
                           on_file pstr p x = (x', e) -> Inv x') ->
    forall fuel pstr p isdir x x' e,
      Inv x -> stat p (fs_of x) <> None -> isdir = is_dir (stat p (fs_of x)) ->
      walk fs_of on_file fuel pstr p isdir x = (x', e) -> Inv x'.
  Proof.
    intros HF. induction fuel as [|f IH]; intros pstr p isdir x x' e HI Ex Hd W; cbn [walk] in W.
    - inversion W; subst. exact HI.
    - destruct isdir; [|eapply HF; eauto].
      destruct (readdir p (fs_of x)) as [names|er]; [|inversion W; subst; exact HI].
      clear Ex Hd. revert x HI W. induction names as [|n r IHn]; intros x HI W; cbn [walk_loop] in W.
      + inversion W; subst. exact HI.
      + destruct (lookup (p ++ [n]) (fs_of x)) as [c|] eqn:L; [|inversion W; subst; exact HI].
        assert (Ex : stat (p ++ [n]) (fs_of x) <> None) by (unfold stat; rewrite L; discriminate).
        assert (Hd : node_is_dir c = is_dir (stat (p ++ [n]) (fs_of x))) by (symmetry; now apply stat_node_is_dir).
        destruct (walk fs_of on_file f (join_str pstr n) (p ++ [n]) (node_is_dir c) x) as [x1 [e1|]] eqn:W1.
        * inversion W; subst. eapply IH; eauto.
        * eapply IHn; [eapply IH; eauto|exact W].
  Qed.

  (* an error of the walk is the budget, an lstat/readdir errno, or an error of the callback *)
  Lemma walk_err_cases (P : walk_err -> Prop) :
    P WeFuel -> (forall e, P (WeErrno e)) ->
    (forall pstr p x x' e, on_file pstr p x = (x', Some e) -> P e) ->
    forall fuel pstr p isdir x x' e, walk fs_of on_file fuel pstr p isdir x = (x', Some e) -> P e.
  Proof.
    intros PF PE PO. induction fuel as [|f IH]; intros pstr p isdir x x' e W; cbn [walk] in W.
    - inversion W; subst. exact PF.
    - destruct isdir; [|eapply PO; eauto].
      destruct (readdir p (fs_of x)) as [names|er]; [|inversion W; subst; apply PE].
      revert x W. induction names as [|n r IHn]; intros x W; cbn [walk_loop] in W; [discriminate|].
      destruct (lookup (p ++ [n]) (fs_of x)) as [c|]; [|inversion W; subst; apply PE].
      destruct (walk fs_of on_file f (join_str pstr n) (p ++ [n]) (node_is_dir c) x) as [x1 [e1|]] eqn:W1.
      + inversion W; subst. eapply IH; eauto.
      + eapply IHn; eauto.
  Qed.

  (* a preorder on callback states along which the file system only loses entries *)
  Variable le : X -> X -> Prop.
  Hypothesis le_refl : forall x, le x x.
  Hypothesis le_trans : forall a b c, le a b -> le b c -> le a c.
  Hypothesis le_fs : forall x x', le x x' -> mono (fs_of x) (fs_of x').
  Hypothesis on_file_le : forall pstr p x x' e, on_file pstr p x = (x', e) -> le x x'.

  Lemma walk_le fuel pstr p isdir x x' e :
    walk fs_of on_file fuel pstr p isdir x = (x', e) -> le x x'.
  Proof.
    intros W. refine (walk_inv (fun y => le x y) _ fuel pstr p isdir x x' e (le_refl _) W).
    intros ps q y y' e' M O. eapply le_trans; [exact M|eapply on_file_le; exact O].
  Qed.

  Lemma walk_loop_le f pstr p names : forall y x',
    walk_loop fs_of (walk fs_of on_file f) pstr p names y = (x', None) -> le y x'.
  Proof.
    induction names as [|n1 r IHr]; intros y1 x' WL; cbn [walk_loop] in WL.
    - inversion WL; subst. apply le_refl.
    - destruct (lookup (p ++ [n1]) (fs_of y1)) as [c1|]; [|discriminate].
      destruct (walk fs_of on_file f (join_str pstr n1) (p ++ [n1]) (node_is_dir c1) y1)
        as [y2 [e2|]] eqn:W2; [discriminate|].
      eapply le_trans; [eapply walk_le; exact W2|apply IHr; exact WL].
  Qed.

  (* Enough fuel suffices: if every path below p is shorter than the fuel, the walk never reports
     WeFuel (the callback only removes entries, so the bound stays valid while it runs). *)
  Hypothesis on_file_nofuel : forall pstr p x x' e, on_file pstr p x = (x', e) -> e <> Some WeFuel.

  Lemma walk_fuel : forall fuel pstr p isdir x x' e,
    stat p (fs_of x) <> None ->
    (forall q en, stat (p ++ q) (fs_of x) = Some en -> length q < fuel) ->
    walk fs_of on_file fuel pstr p isdir x = (x', e) -> e <> Some WeFuel.
  Proof.
    induction fuel as [|f IH]; intros pstr p isdir x x' e Ex B W.
    - exfalso. destruct (stat p (fs_of x)) as [en|] eqn:S; [|congruence].
      specialize (B [] en). rewrite app_nil_r in B. specialize (B S). cbn in B. lia.
    - cbn [walk] in W. destruct isdir; [|eapply on_file_nofuel; eauto].
      destruct (readdir p (fs_of x)) as [names|er]; [|inversion W; discriminate].
      assert (Loop : forall names0 y, le x y -> walk_loop fs_of (walk fs_of on_file f) pstr p names0 y = (x', e) -> e <> Some WeFuel).
      { induction names0 as [|n r IHn]; intros y L WL; cbn [walk_loop] in WL; [inversion WL; discriminate|].
        destruct (lookup (p ++ [n]) (fs_of y)) as [c|] eqn:Lk; [|inversion WL; discriminate].
        destruct (walk fs_of on_file f (join_str pstr n) (p ++ [n]) (node_is_dir c) y) as [y1 [e1|]] eqn:W1.
        - inversion WL; subst. eapply (IH _ _ _ _ _ _ _ _ W1).
        - eapply IHn; [|exact WL]. eapply le_trans; [exact L|eapply walk_le; exact W1]. }
      eapply Loop; [apply le_refl|exact W].
      Unshelve.
      + unfold stat. rewrite Lk. discriminate.
      + intros q en S. apply (le_fs _ _ L) in S. rewrite <- app_assoc in S. specialize (B _ _ S). cbn in B. lia.
  Qed.

  (* Whatever non-directory is still there after a walk that returned nil has been handed to the
     callback, and the callback left it in place.  Inv is any invariant of the callback; Good is
     what the callback establishes for a path it leaves in place, stable along le. *)
  Variable Inv : X -> Prop.
  Hypothesis on_file_inv : forall pstr p x x' e, Inv x -> on_file pstr p x = (x', e) -> Inv x'.
  Variable Good : X -> path -> Prop.
  Hypothesis Good_le : forall x x' p, le x x' -> Good x p -> Good x' p.
  Hypothesis on_file_good : forall dstr p x x',
    p <> [] -> is_dir (stat p (fs_of x)) = false ->
    Inv x -> on_file (join_str dstr (last p [])) p x = (x', None) ->
    stat p (fs_of x') <> None -> Good x' p.

  Lemma walk_post : forall fuel pstr p isdir x x',
    Inv x -> isdir = is_dir (stat p (fs_of x)) ->
    (isdir = false -> p <> [] /\ exists dstr, pstr = join_str dstr (last p [])) ->
    walk fs_of on_file fuel pstr p isdir x = (x', None) ->
    forall t en, stat (p ++ t) (fs_of x') = Some en -> is_dir (Some en) = false -> Good x' (p ++ t).
  Proof.
    induction fuel as [|f IH]; intros pstr p isdir x x' HI Hd Hs W t en St Nd; cbn [walk] in W; [discriminate|].
    destruct isdir.
    - destruct (readdir p (fs_of x)) as [names|er] eqn:RD; [|discriminate].
      assert (Loop : forall names0 y, Inv y -> walk_loop fs_of (walk fs_of on_file f) pstr p names0 y = (x', None) ->
                forall n, In n names0 -> forall t' en', stat ((p ++ [n]) ++ t') (fs_of x') = Some en' ->
                is_dir (Some en') = false -> Good x' ((p ++ [n]) ++ t')).
      { induction names0 as [|n0 r IHn]; intros y HIy WL n I t' en' St' Nd'; [destruct I|].
        cbn [walk_loop] in WL. destruct (lookup (p ++ [n0]) (fs_of y)) as [c|] eqn:L; [|discriminate].
        destruct (walk fs_of on_file f (join_str pstr n0) (p ++ [n0]) (node_is_dir c) y)
          as [y1 [e1|]] eqn:W1; [discriminate|].
        assert (HI1 : Inv y1) by (eapply (walk_inv Inv on_file_inv); eauto).
        destruct I as [<-|I]; [|eapply IHn; eauto].
        pose proof (walk_loop_le _ _ _ _ _ _ WL) as M.
        apply (le_fs _ _ M) in St'.
        assert (Hdc : node_is_dir c = is_dir (stat (p ++ [n0]) (fs_of y))) by (symmetry; now apply stat_node_is_dir).
        assert (Hsc : node_is_dir c = false -> p ++ [n0] <> [] /\ exists dstr, join_str pstr n0 = join_str dstr (last (p ++ [n0]) [])).
        { intros _. split; [intros Z; apply app_eq_nil in Z; destruct Z; discriminate|].
          exists pstr; now rewrite last_app_single. }
        apply (Good_le _ _ _ M). exact (IH _ _ _ _ _ HIy Hdc Hsc W1 _ _ St' Nd'). }
      assert (M0 : mono (fs_of x) (fs_of x')).
      { apply le_fs. apply (walk_le (S f) pstr p true x x' None). cbn [walk]. now rewrite RD. }
      destruct t as [|n t'].
      + rewrite app_nil_r in St. apply M0 in St.
        rewrite St in Hd. cbn in Nd, Hd. destruct en; discriminate.
      + assert (E : p ++ n :: t' = (p ++ [n]) ++ t') by now rewrite <- app_assoc.
        rewrite E in *. eapply Loop; eauto.
        apply (readdir_in _ _ _ n RD).
        pose proof (M0 _ _ St) as S0.
        destruct (lookup (p ++ [n]) (fs_of x)) as [c|] eqn:L; [now exists c|].
        rewrite stat_app_none in S0; [discriminate|]. unfold stat. now rewrite L.
    - destruct (Hs eq_refl) as [Hp [dstr ->]]. destruct t as [|n t'].
      + rewrite app_nil_r in *. eapply on_file_good; eauto. congruence.
      + apply (le_fs _ _ (on_file_le _ _ _ _ _ W)) in St.
        rewrite stat_below_nondir in St; [discriminate|discriminate|now symmetry].
  Qed.
End WalkFacts.

(* ---------- LocalStore.Prune ---------- *)

Lemma remove_ok_exists p s s' : remove p s = Ok s' -> stat p s <> None.
Proof.
  unfold remove. intros R. unfold stat, lookup.
  destruct (resolve p s) as [n|e] eqn:RS; [discriminate|]. exfalso.
  unfold unlink in R. destruct (stat_upd_point _ _ _ _ R) as (r & F & _).
  unfold lookup in F. rewrite RS in F. discriminate.
Qed.

Section PruneProofs.
  Variable tmp_rule : bool.      (* true: LocalStore.Prune, false: SFTPStore.Prune *)
  Variable stop : path -> bool.  (* where the context is found cancelled *)
  Variable st : store.
  Variable keep : id -> bool.

  (* what Prune may remove: a temp-named entry, or the canonical own-format name of an id outside keep *)
  Definition removable (q : path) : Prop :=
    (tmp_rule = true /\ is_tmp (last q []) = true) \/ exists i, wf_id i /\ keep i = false /\ q = canon st i.

  Lemma remove_chunk_ok i s s' : remove_chunk st i s = RmOk s' ->
    remove (canon st i) s = Ok s' /\ stat (canon st i) s <> None.
  Proof.
    unfold remove_chunk. fold (canon st i).
    destruct (probe_f (canon st i) s); [|discriminate].
    destruct (remove (canon st i) s) eqn:R; [|discriminate]. intros E. inversion E; subst. split; [reflexivity|].
    eapply remove_ok_exists; eauto.
  Qed.

  (* ChunkMissing from RemoveChunk: Stat failed -- the path does not exist, or is a dangling link *)
  Lemma remove_chunk_missing i s m b : remove_chunk st i s = RmMissing -> stat (canon st i) s <> Some (EFile m b).
  Proof.
    unfold remove_chunk. fold (canon st i). intros R S. rewrite (probe_f_file _ _ _ _ S) in R.
    destruct (remove (canon st i) s); discriminate.
  Qed.

  (* one callback: nothing, or exactly one removal of a removable path *)
  Lemma prune_file_step pstr p s s' e : prune_file_gen tmp_rule stop st keep pstr p s = (s', e) ->
    s' = s \/ exists t, remove t s = Ok s' /\ removable t /\ stat t s <> None.
  Proof.
    unfold prune_file_gen. destruct (stop p); [intros E; inversion E; now left|].
    destruct (tmp_rule && has_prefix (last p []) tmpChunkPrefix_bytes) eqn:T.
    - destruct (remove p s) as [s1|er] eqn:R; intros E; inversion E; subst; [|now left].
      apply andb_true_iff in T. destruct T as [T1 T2].
      right. exists p. split; [exact R|]. split; [left; split; [exact T1|exact T2]|].
      unfold remove in R. unfold stat, lookup. destruct (resolve p s) as [n|er] eqn:RS; [discriminate|].
      exfalso. unfold unlink in R. destruct (stat_upd_point _ _ _ _ R) as (r & F & _).
      unfold lookup in F. rewrite RS in F. discriminate.
    - destruct (chunk_file_id (st_unc st) pstr (last p [])) as [i|] eqn:C; [|intros E; inversion E; now left].
      destruct (keep i) eqn:K; [intros E; inversion E; now left|].
      destruct (remove_chunk st i s) as [s1| |er] eqn:R; intros E; inversion E; subst; try (now left).
      right. exists (canon st i). apply remove_chunk_ok in R. destruct R as [R N].
      split; [exact R|]. split; [|exact N]. right. exists i. split; [|split; [exact K|reflexivity]].
      unfold chunk_file_id in C. destruct (has_suffix pstr (ext_of (st_unc st))); [|discriminate].
      eapply unhex_id_wf; eauto.
  Qed.

  Lemma prune_file_mono pstr p s s' e : prune_file_gen tmp_rule stop st keep pstr p s = (s', e) -> mono s s'.
  Proof.
    intros E. destruct (prune_file_step _ _ _ _ _ E) as [->|(t & R & _)]; [apply mono_refl|].
    intros q en. rewrite (remove_stat _ _ _ R). destruct (path_eqb q t); [discriminate|tauto].
  Qed.

  Definition safe_rel (s0 s : node) : Prop :=
    forall q, stat q s = stat q s0 \/ (stat q s = None /\ stat q s0 <> None /\ removable q).

  Lemma prune_file_safe s0 pstr p s s' e :
    safe_rel s0 s -> prune_file_gen tmp_rule stop st keep pstr p s = (s', e) -> safe_rel s0 s'.
  Proof.
    intros I E. destruct (prune_file_step _ _ _ _ _ E) as [->|(t & R & Rm & N)]; [exact I|].
    intros q. rewrite (remove_stat _ _ _ R). destruct (path_eqb q t) eqn:Q; [|apply I].
    apply path_eqb_eq in Q. subst q. destruct (I t) as [Eq|(Nn & _)]; [|congruence].
    right. split; [reflexivity|]. split; [congruence|exact Rm].
  Qed.

  (* prune_safe *)
  Lemma prune_safe fuel bstr s0 s' e :
    prune_gen tmp_rule stop fuel st bstr keep s0 = (s', e) ->
    forall q, stat q s' = stat q s0 \/ (stat q s' = None /\ stat q s0 <> None /\ removable q).
  Proof.
    unfold prune_gen, walk_root. destruct (lookup (st_base st) s0) as [c|]; [|intros E; inversion E; now left].
    intros W. refine (walk_inv (fun s => s) _ (safe_rel s0) _ fuel bstr _ _ s0 s' e _ W).
    - intros. eapply prune_file_safe; eauto.
    - intros q. now left.
  Qed.

  (* the callback left p in place: p is not temp-named, and if its name parses to an id outside keep
     then p is not that id's canonical path, which existed in the store *)
  Definition good (s0 : node) (p : path) : Prop :=
    (tmp_rule = true -> is_tmp (last p []) = false) /\
    forall i, base_file_id (st_unc st) (last p []) = Some i ->
              keep i = true \/ (p <> canon st i /\ stat (canon st i) s0 <> None).

  Lemma prune_file_good s0 dstr p s s' :
    p <> [] -> is_dir (stat p s) = false ->
    mono s0 s -> prune_file_gen tmp_rule stop st keep (join_str dstr (last p [])) p s = (s', None) ->
    stat p s' <> None -> good s0 p.
  Proof.
    unfold prune_file_gen, good, is_tmp. rewrite chunk_file_id_base. intros Hp Nd M.
    destruct (stop p); [discriminate|].
    destruct (tmp_rule && has_prefix (last p []) tmpChunkPrefix_bytes) eqn:T.
    - destruct (remove p s) as [s1|er] eqn:R; intros E; inversion E; subst; intros N.
      + rewrite (remove_stat _ _ _ R), path_eqb_refl in N. congruence.
      + exfalso. destruct (stat p s') as [en|] eqn:S; [|congruence].
        destruct (unlink_ok p s' Hp) as [s2 U]; [exists en; now rewrite S|].
        unfold remove in R. unfold stat, lookup in S.
        destruct (resolve p s') as [[m l|m b|m t]|e0]; try congruence.
        cbn in S. inversion S; subst. discriminate.
    - intros E N. split; [intros ->; exact T|]. intros i B. rewrite B in E.
      destruct (keep i) eqn:K; [now left|]. right.
      destruct (remove_chunk st i s) as [s1| |er] eqn:R; inversion E; subst.
      apply remove_chunk_ok in R. destruct R as [R Ex]. split.
      + intros ->. rewrite (remove_stat _ _ _ R), path_eqb_refl in N. congruence.
      + destruct (stat (canon st i) s) eqn:S1; [|congruence]. rewrite (M _ _ S1). discriminate.
  Qed.

  Lemma prune_file_nofuel pstr p s s' e : prune_file_gen tmp_rule stop st keep pstr p s = (s', e) -> e <> Some WeFuel.
  Proof.
    unfold prune_file_gen. destruct (stop p); [intros E; inversion E; discriminate|].
    destruct (tmp_rule && has_prefix (last p []) tmpChunkPrefix_bytes).
    - intros E; inversion E; discriminate.
    - destruct (chunk_file_id (st_unc st) pstr (last p [])); [|intros E; inversion E; discriminate].
      destruct (keep i); [intros E; inversion E; discriminate|].
      destruct (remove_chunk st i s); intros E; inversion E; discriminate.
  Qed.

  Lemma prune_file_noblock pstr p s s' e : prune_file_gen tmp_rule stop st keep pstr p s = (s', e) -> e <> Some WeBlocked.
  Proof.
    unfold prune_file_gen. destruct (stop p); [intros E; inversion E; discriminate|].
    destruct (tmp_rule && has_prefix (last p []) tmpChunkPrefix_bytes).
    - intros E; inversion E; discriminate.
    - destruct (chunk_file_id (st_unc st) pstr (last p [])); [|intros E; inversion E; discriminate].
      destruct (keep i); [intros E; inversion E; discriminate|].
      destruct (remove_chunk st i s); intros E; inversion E; discriminate.
  Qed.

  (* Prune never waits for a second connection, whatever the pool size *)
  Lemma prune_never_blocks fuel bstr s0 : snd (prune_gen tmp_rule stop fuel st bstr keep s0) <> Some WeBlocked.
  Proof.
    unfold prune_gen, walk_root. destruct (lookup (st_base st) s0) as [c|]; [|discriminate].
    destruct (walk (fun s => s) (prune_file_gen tmp_rule stop st keep) fuel bstr (st_base st) (node_is_dir c) s0) as [s' e] eqn:W.
    cbn [snd]. destruct e as [e|]; [|discriminate].
    refine (walk_err_cases (fun s => s) (prune_file_gen tmp_rule stop st keep) (fun e => Some e <> Some WeBlocked) _ _ _
              fuel bstr _ _ s0 s' e W); try discriminate.
    intros ps q x x' e0 O. eapply prune_file_noblock; eauto.
  Qed.

  (* a recursion budget above the depth of the store never runs out *)
  Lemma prune_fuel_suffices fuel bstr s0 :
    (forall q en, stat (st_base st ++ q) s0 = Some en -> length q < fuel) ->
    snd (prune_gen tmp_rule stop fuel st bstr keep s0) <> Some WeFuel.
  Proof.
    intros B. unfold prune_gen, walk_root. destruct (lookup (st_base st) s0) as [c|] eqn:L; [|discriminate].
    destruct (walk (fun s => s) (prune_file_gen tmp_rule stop st keep) fuel bstr (st_base st) (node_is_dir c) s0) as [s' e] eqn:W.
    cbn [snd].
    refine (walk_fuel (fun s => s) (prune_file_gen tmp_rule stop st keep) mono mono_refl mono_trans (fun _ _ M => M) _ _
              fuel bstr (st_base st) (node_is_dir c) s0 s' e _ B W).
    - intros. eapply prune_file_mono; eauto.
    - intros. eapply prune_file_nofuel; eauto.
    - unfold stat. rewrite L. discriminate.
  Qed.

  (* every non-directory below the base that is still there after a prune that returned nil is good *)
  Lemma prune_post fuel bstr s0 s' :
    is_dir (stat (st_base st) s0) = true ->
    prune_gen tmp_rule stop fuel st bstr keep s0 = (s', None) ->
    forall t en, stat (st_base st ++ t) s' = Some en -> is_dir (Some en) = false -> good s0 (st_base st ++ t).
  Proof.
    unfold prune_gen, walk_root. intros D. destruct (lookup (st_base st) s0) as [c|] eqn:L; [|discriminate].
    intros W.
    refine (walk_post (fun s => s) (prune_file_gen tmp_rule stop st keep) mono mono_refl mono_trans (fun _ _ M => M) _
              (mono s0) _ (fun _ => good s0) (fun _ _ _ _ G => G) _
              fuel bstr (st_base st) (node_is_dir c) s0 s' (mono_refl _) _ _ W).
    - intros. eapply prune_file_mono; eauto.
    - intros ps q x x' e M O. eapply mono_trans; [exact M|eapply prune_file_mono; exact O].
    - intros. eapply prune_file_good; eauto.
    - symmetry. now apply stat_node_is_dir.
    - rewrite <- (stat_node_is_dir _ _ _ L), D. discriminate.
  Qed.

  (* prune_complete *)
  Lemma prune_complete fuel bstr s0 s' :
    is_dir (stat (st_base st) s0) = true ->
    prune_gen tmp_rule stop fuel st bstr keep s0 = (s', None) ->
    (forall i en, wf_id i -> keep i = false -> stat (canon st i) s' = Some en -> is_dir (Some en) = true) /\
    (tmp_rule = true ->
     forall t en, stat (st_base st ++ t) s' = Some en -> is_tmp (last (st_base st ++ t) []) = true -> is_dir (Some en) = true).
  Proof.
    intros D P. split.
    - intros i en W K S. destruct (is_dir (Some en)) eqn:Nd; [reflexivity|exfalso].
      unfold canon, name_from_id in S. cbn [snd] in S. rewrite <- app_assoc in S.
      pose proof (prune_post _ _ _ _ D P _ _ S Nd) as [_ G].
      rewrite app_assoc in G. change ((st_base st ++ [firstn 4 (hex_id i)]) ++ [hex_id i ++ ext_of (st_unc st)]) with (canon st i) in G.
      rewrite last_canon in G. destruct (G i (base_file_id_canonical _ _ W)) as [K'|[N _]]; congruence.
    - intros TR t en S T. destruct (is_dir (Some en)) eqn:Nd; [reflexivity|exfalso].
      pose proof (prune_post _ _ _ _ D P _ _ S Nd) as [G _]. specialize (G TR). congruence.
  Qed.

  (* prune_stray_name_errors: a file whose name parses to an id outside keep while that id's canonical
     path does not exist makes Prune fail *)
  Lemma prune_stray_errors fuel bstr s0 t en i :
    is_dir (stat (st_base st) s0) = true ->
    stat (st_base st ++ t) s0 = Some en -> is_dir (Some en) = false ->
    (tmp_rule = true -> is_tmp (last (st_base st ++ t) []) = false) ->
    base_file_id (st_unc st) (last (st_base st ++ t) []) = Some i -> keep i = false ->
    stat (canon st i) s0 = None ->
    snd (prune_gen tmp_rule stop fuel st bstr keep s0) <> None.
  Proof.
    intros D S Nd T B K C. destruct (prune_gen tmp_rule stop fuel st bstr keep s0) as [s' e] eqn:P. cbn [snd].
    destruct e; [discriminate|]. exfalso.
    destruct (prune_safe _ _ _ _ _ P (st_base st ++ t)) as [Eq|(_ & _ & [[TR Tm]|(j & Wj & Kj & Ej)])].
    - rewrite S in Eq. pose proof (prune_post _ _ _ _ D P _ _ Eq Nd) as [_ G].
      destruct (G i B) as [K'|[_ N]]; congruence.
    - specialize (T TR). unfold is_tmp in *. congruence.
    - rewrite Ej, last_canon, (base_file_id_canonical _ _ Wj) in B. inversion B; subst j.
      rewrite Ej in S. congruence.
  Qed.
End PruneProofs.

(* ---------- LocalStore.Verify ---------- *)

Section VerifyProofs.
  Variable H : bytes -> id.
  Variable zdecomp : bytes -> option bytes.
  Variable st : store.

  Notation get_chunk := (get_chunk H zdecomp).
  Notation verify_one := (verify_one H zdecomp).
  Notation verify_all := (verify_all H zdecomp).

  (* the object at the id's canonical path fails NewChunkFromStorage *)
  Definition invalid (i : id) (s : node) : Prop := exists sum, get_chunk st i s = GetInvalid sum.
  Definition reported (msgs : list verify_msg) : list id :=
    flat_map (fun m => match m with VmInvalid i _ _ _ => [i] | VmOther _ => [] end) msgs.

  Lemma reported_app a b : reported (a ++ b) = reported a ++ reported b.
  Proof. apply flat_map_app. Qed.

  Lemma canon_inj i j : wf_id i -> wf_id j -> canon st i = canon st j -> i = j.
  Proof.
    intros Wi Wj E. destruct st as [b z k]. unfold canon in E.
    now destruct (name_from_id_inj _ _ _ _ _ _ _ Wi Wj E).
  Qed.

  Lemma canon_length i : length (canon st i) = S (S (length (st_base st))).
  Proof. apply name_length. Qed.

  Lemma canon_nonnil i : canon st i <> [].
  Proof. intros E. pose proof (canon_length i) as L. rewrite E in L. discriminate. Qed.

  Lemma probe_remove_frame i j s s' : wf_id i -> wf_id j -> i <> j ->
    remove (canon st i) s = Ok s' -> probe (canon st j) s' = probe (canon st j) s.
  Proof.
    intros Wi Wj N R. apply probe_ext.
    - rewrite (remove_stat _ _ _ R). replace (path_eqb (canon st j) (canon st i)) with false; [reflexivity|].
      symmetry. apply path_eqb_neq. intros E. apply N. symmetry. now apply canon_inj.
    - intros q I. apply in_sprefixes_length in I. rewrite (remove_stat _ _ _ R).
      replace (path_eqb q (canon st i)) with false; [reflexivity|].
      symmetry. apply path_eqb_neq. intros ->. rewrite !canon_length in I. lia.
  Qed.

  Lemma get_chunk_remove_frame i j s s' : wf_id i -> wf_id j -> i <> j ->
    not_link (probe (canon st j) s) ->
    remove (canon st i) s = Ok s' -> get_chunk st j s' = get_chunk st j s.
  Proof.
    intros Wi Wj N NL R.
    assert (P : probe (canon st j) s' = probe (canon st j) s).
    { apply probe_ext.
      - rewrite (remove_stat _ _ _ R). replace (path_eqb (canon st j) (canon st i)) with false; [reflexivity|].
        symmetry. apply path_eqb_neq. intros E. apply N. symmetry. now apply canon_inj.
      - intros q I. apply in_sprefixes_length in I. rewrite (remove_stat _ _ _ R).
        replace (path_eqb q (canon st i)) with false; [reflexivity|].
        symmetry. apply path_eqb_neq. intros ->. rewrite !canon_length in I. lia. }
    unfold LocalStore.get_chunk, read_file. fold (canon st j).
    rewrite !probe_f_eq; [now rewrite P|exact NL|rewrite P; exact NL].
  Qed.

  Lemma verify_one_spec repair i s s' m : verify_one st repair i s = (s', m) ->
    ((reported m = [i] /\ invalid i s) \/ (reported m = [] /\ ~ invalid i s /\ s' = s)) /\
    (s' = s \/ (repair = true /\ invalid i s /\ remove (canon st i) s = Ok s')) /\
    (repair = true -> invalid i s -> (exists m0 b0, stat (canon st i) s = Some (EFile m0 b0)) ->
     stat (canon st i) s' = None).
  Proof.
    unfold Prune.verify_one, invalid. destruct (get_chunk st i s) as [b| |sum] eqn:G.
    - intros E; inversion E; subst. split; [right; split; [reflexivity|split; [intros [x X]; discriminate|reflexivity]]|].
      split; [now left|]. intros _ [x X]. discriminate.
    - intros E; inversion E; subst. split; [right; split; [reflexivity|split; [intros [x X]; discriminate|reflexivity]]|].
      split; [now left|]. intros _ [x X]. discriminate.
    - destruct repair.
      + destruct (remove_chunk st i s) as [s1| |er] eqn:R; intros E; inversion E; subst.
        * apply remove_chunk_ok in R. destruct R as [R _].
          split; [left; split; [reflexivity|now exists sum]|]. split; [right; repeat split; [now exists sum|exact R]|].
          intros _ _ _. now rewrite (remove_stat _ _ _ R), path_eqb_refl.
        * split; [left; split; [reflexivity|now exists sum]|]. split; [now left|].
          intros _ _ (m0 & b0 & S). exfalso. exact (remove_chunk_missing st _ _ _ _ R S).
        * split; [left; split; [reflexivity|now exists sum]|]. split; [now left|].
          intros _ _ (m0 & b0 & S). exfalso.
          unfold remove_chunk in R. fold (canon st i) in R. rewrite (probe_f_file _ _ _ _ S) in R.
          destruct (unlink_ok (canon st i) s' (canon_nonnil i)) as [s2 U]; [exists (EFile m0 b0); now split|].
          unfold remove in R. unfold stat, lookup in S.
          destruct (resolve (canon st i) s') as [[m1 l|m1 b|m1 t]|e0]; try discriminate.
          -- rewrite U in R. discriminate.
      + intros E; inversion E; subst. split; [left; split; [reflexivity|now exists sum]|].
        split; [now left|]. discriminate.
  Qed.

  Lemma invalid_frame i j s s' : wf_id i -> wf_id j -> i <> j ->
    not_link (probe (canon st j) s) ->
    remove (canon st i) s = Ok s' -> (invalid j s' <-> invalid j s).
  Proof. intros Wi Wj N NL R. unfold invalid. now rewrite (get_chunk_remove_frame _ _ _ _ Wi Wj N NL R). Qed.

  (* the workers' iterations in feeding order *)
  Lemma verify_all_spec repair ids : forall s s' msgs,
    Forall wf_id ids -> (forall j, In j ids -> not_link (probe (canon st j) s)) ->
    verify_all st repair ids s = (s', msgs) ->
    (forall j, In j (reported msgs) <-> In j ids /\ invalid j s) /\
    (forall q, stat q s' = stat q s \/
               (stat q s' = None /\ repair = true /\ exists i, In i ids /\ invalid i s /\ q = canon st i)) /\
    (repair = false -> s' = s) /\
    (repair = true -> forall i, In i ids -> invalid i s ->
       (exists m b, stat (canon st i) s = Some (EFile m b)) -> stat (canon st i) s' = None).
  Proof.
    induction ids as [|i r IH]; intros s s' msgs W NL E; cbn [Prune.verify_all] in E.
    - inversion E; subst. split; [|split; [|split]].
      + intros j. cbn. tauto.
      + intros q. now left.
      + reflexivity.
      + intros _ i [].
    - inversion W as [|? ? Wi Wr]; subst.
      destruct (verify_one st repair i s) as [s1 m1] eqn:V1.
      destruct (verify_all st repair r s1) as [s2 m2] eqn:V2. inversion E; subst. clear E.
      destruct (verify_one_spec _ _ _ _ _ V1) as (Rep & St & Rm).
      assert (Wr' : forall j, In j r -> wf_id j) by (apply Forall_forall; exact Wr).
      assert (NL1 : forall j, In j r -> not_link (probe (canon st j) s1)).
      { intros j Ij. destruct St as [->|(_ & _ & R)]; [apply NL; now right|].
        destruct (N.eq_dec j i) as [->|N].
        - apply not_link_of_stat_none. now rewrite (remove_stat _ _ _ R), path_eqb_refl.
        - rewrite (probe_remove_frame i j _ _ Wi (Wr' _ Ij) (fun X => N (eq_sym X)) R). apply NL. now right. }
      destruct (IH _ _ _ Wr NL1 V2) as (IH1 & IH2 & IH3 & IH4).
      (* invalidity of the other ids is unaffected by what was done for i *)
      assert (Fr : forall j, In j r -> j <> i -> (invalid j s1 <-> invalid j s)).
      { intros j Ij N. destruct St as [->|(_ & _ & R)]; [reflexivity|].
        apply (invalid_frame i j); auto. apply NL. now right. }
      split; [|split; [|split]].
      + intros j. rewrite reported_app, in_app_iff, IH1. cbn [In].
        destruct (N.eq_dec j i) as [->|N].
        * destruct Rep as [[R1 Iv]|[R1 [Niv ->]]]; rewrite R1; cbn [In]; [tauto|]. tauto.
        * assert (~ In j (reported m1)).
          { destruct Rep as [[R1 _]|[R1 _]]; rewrite R1; cbn; [intros [X|[]]; congruence|tauto]. }
          split.
          -- intros [X|[X Y]]; [contradiction|]. split; [now right|]. apply (Fr j X N), Y.
          -- intros [[X|X] Y]; [congruence|]. right. split; [exact X|]. apply (Fr j X N), Y.
      + intros q. destruct (IH2 q) as [Eq|(Nn & Rp & j & Ij & Vj & Qj)].
        * rewrite Eq. destruct St as [->|(Rp & Iv & R)]; [now left|].
          rewrite (remove_stat _ _ _ R). destruct (path_eqb q (canon st i)) eqn:Q; [|now left].
          apply path_eqb_eq in Q. destruct (stat q s) eqn:S0; [|now left].
          right. split; [reflexivity|]. split; [exact Rp|].
          exists i. split; [now left|]. split; [exact Iv|exact Q].
        * destruct (N.eq_dec j i) as [->|N].
          -- destruct (stat q s) eqn:S0.
             ++ right. split; [exact Nn|]. split; [exact Rp|]. exists i. split; [now left|]. split; [|exact Qj].
                destruct St as [->|(_ & Iv & _)]; [exact Vj|exact Iv].
             ++ left. congruence.
          -- right. split; [exact Nn|]. split; [exact Rp|]. exists j. split; [now right|].
             split; [apply (Fr j Ij N), Vj|exact Qj].
      + intros Rp. rewrite (IH3 Rp). destruct St as [->|(Rp' & _)]; [reflexivity|congruence].
      + intros Rp j [<-|Ij] Vj Ex.
        * specialize (Rm Rp Vj Ex). destruct (IH2 (canon st i)) as [Eq|(Nn & _)]; congruence.
        * destruct (N.eq_dec j i) as [->|N].
          -- specialize (Rm Rp Vj Ex). destruct (IH2 (canon st i)) as [Eq|(Nn & _)]; congruence.
          -- apply IH4; auto.
             ++ apply (Fr j Ij N), Vj.
             ++ destruct St as [->|(_ & _ & R)]; [exact Ex|].
                destruct Ex as (m0 & b0 & S). exists m0, b0.
                rewrite (remove_stat _ _ _ R). replace (path_eqb (canon st j) (canon st i)) with false; [exact S|].
                symmetry. apply path_eqb_neq. intros X. apply N. now apply canon_inj; auto.
  Qed.

  (* The order in which the workers get to the ids does not matter when every fed id's canonical path is
     a file (alias-free store): same reported set, same resulting tree. *)
  Lemma verify_all_perm repair ids ids' s s1 m1 s2 m2 :
    Permutation ids ids' -> Forall wf_id ids ->
    (forall i, In i ids -> exists m b, stat (canon st i) s = Some (EFile m b)) ->
    verify_all st repair ids s = (s1, m1) -> verify_all st repair ids' s = (s2, m2) ->
    (forall j, In j (reported m1) <-> In j (reported m2)) /\ (forall q, stat q s1 = stat q s2).
  Proof.
    intros P W Fl V1 V2.
    assert (W' : Forall wf_id ids') by (eapply Permutation_Forall; eauto).
    assert (NLa : forall j, In j ids -> not_link (probe (canon st j) s)).
    { intros j Ij. destruct (Fl j Ij) as (m & b & S). rewrite (probe_of_stat _ _ _ S). exact I. }
    assert (NLb : forall j, In j ids' -> not_link (probe (canon st j) s)).
    { intros j Ij. apply NLa. eapply Permutation_in; [apply Permutation_sym; exact P|exact Ij]. }
    destruct (verify_all_spec _ _ _ _ _ W NLa V1) as (A1 & A2 & _ & A4).
    destruct (verify_all_spec _ _ _ _ _ W' NLb V2) as (B1 & B2 & _ & B4).
    split.
    - intros j. rewrite A1, B1. split; intros [I V]; (split; [|exact V]).
      + eapply Permutation_in; eauto.
      + eapply Permutation_in; [apply Permutation_sym; exact P|exact I].
    - intros q. destruct (A2 q) as [E1|(N1 & R & i & Ii & Vi & Qi)]; destruct (B2 q) as [E2|(N2 & R' & i' & Ii' & Vi' & Qi')].
      + congruence.
      + rewrite N2. subst q. assert (Ii0 : In i' ids) by (eapply Permutation_in; [apply Permutation_sym; exact P|exact Ii']).
        apply A4; auto.
      + rewrite N1. subst q. symmetry. assert (Ii0 : In i ids') by (eapply Permutation_in; eauto).
        apply B4; auto.
      + congruence.
  Qed.

  (* the id-collecting walk *)
  Definition vle (x x' : node * list id) : Prop := fst x' = fst x /\ incl (snd x) (snd x').

  Lemma verify_file_le pstr p x x' e : verify_file st pstr p x = (x', e) -> vle x x'.
  Proof.
    unfold verify_file, vle. destruct (chunk_file_id (st_unc st) pstr (last p [])); [destruct (path_eqb p _)|];
      intros E; inversion E; subst; cbn.
    - split; [reflexivity|]. intros y Y. apply in_or_app. now left.
    - split; [reflexivity|apply incl_refl].
    - split; [reflexivity|apply incl_refl].
  Qed.

  Lemma verify_ids_spec fuel bstr s0 ids e :
    verify_ids fuel st bstr s0 = (ids, e) ->
    Forall wf_id ids /\
    (forall i, In i ids -> exists en, stat (canon st i) s0 = Some en /\ is_dir (Some en) = false) /\
    (e = None -> is_dir (stat (st_base st) s0) = true ->
     forall t en i, stat (st_base st ++ t) s0 = Some en -> is_dir (Some en) = false ->
       base_file_id (st_unc st) (last (st_base st ++ t) []) = Some i -> st_base st ++ t = canon st i -> In i ids).
  Proof.
    unfold verify_ids, walk_root. cbn [fst].
    destruct (lookup (st_base st) s0) as [c|] eqn:L.
    2:{ intros E. inversion E; subst. split; [constructor|split; [intros i []|discriminate]]. }
    destruct (walk (@fst node (list id)) (verify_file st) fuel bstr (st_base st) (node_is_dir c) (s0, []))
      as [[s1 ids1] e1] eqn:W. intros E. inversion E; subst. clear E.
    split; [|split].
    - refine (walk_inv (@fst node (list id)) (verify_file st) (fun x => Forall wf_id (snd x)) _ _ _ _ _ _ _ _ _ W); [|constructor].
      intros pstr p x x' e0 F. unfold verify_file.
      destruct (chunk_file_id (st_unc st) pstr (last p [])) as [i|] eqn:C; [destruct (path_eqb p _)|];
        intros E; inversion E; subst; try exact F.
      cbn. apply Forall_app. split; [exact F|]. constructor; [|constructor].
      unfold chunk_file_id in C. destruct (has_suffix pstr (ext_of (st_unc st))); [|discriminate].
      eapply unhex_id_wf; eauto.
    - (* every fed id was read off its own canonical, existing, non-directory path *)
      pose (CInv := fun x : node * list id => fst x = s0 /\ forall i, In i (snd x) ->
                     exists en, stat (canon st i) s0 = Some en /\ is_dir (Some en) = false).
      assert (R : CInv (s1, ids)).
      { refine (walk_inv2 (@fst node (list id)) (verify_file st) CInv _ fuel bstr (st_base st) (node_is_dir c) (s0, []) (s1, ids) e _ _ _ W); unfold CInv.
        - intros pstr p [xs xl] x' e0 [Fx Ix] Ex Nd. cbn [fst snd] in Fx, Ix, Ex, Nd. subst xs. unfold verify_file.
          destruct (chunk_file_id (st_unc st) pstr (last p [])) as [i|]; [destruct (path_eqb p (snd (name_from_id st i))) eqn:Q|];
            intros E; inversion E; cbn [fst snd]; (split; [reflexivity|]); try exact Ix.
          intros j Ij. apply in_app_iff in Ij. destruct Ij as [Ij|[<-|[]]]; [now apply Ix|].
          apply path_eqb_eq in Q. unfold canon. rewrite <- Q.
          destruct (stat p s0) as [en|]; [|congruence]. exists en. split; [reflexivity|exact Nd].
        - split; [reflexivity|intros i []].
        - cbn [fst]. unfold stat. rewrite L. discriminate.
        - cbn [fst]. symmetry. now apply stat_node_is_dir. }
      exact (proj2 R).
    - intros -> D t en i S Nd B Q.
      assert (LE : vle (s0, []) (s1, ids)).
      { refine (walk_le (@fst node (list id)) (verify_file st) vle _ _ _ _ _ _ _ _ _ _ W).
        - intros x. split; [reflexivity|apply incl_refl].
        - intros a b c0 [A1 A2] [B1 B2]. split; [congruence|eapply incl_tran; eauto].
        - intros. eapply verify_file_le; eauto. }
      destruct LE as [Fs _]. cbn in Fs. subst s1.
      assert (G : (fun (x : node * list id) (p : path) =>
                     forall i, base_file_id (st_unc st) (last p []) = Some i -> p = canon st i -> In i (snd x)) (s0, ids) (st_base st ++ t)).
      { refine (walk_post (@fst node (list id)) (verify_file st) vle _ _ _ _ (fun _ => True) _
                  (fun x p => forall i, base_file_id (st_unc st) (last p []) = Some i -> p = canon st i -> In i (snd x)) _ _
                  fuel bstr (st_base st) (node_is_dir c) (s0, []) (s0, ids) I _ _ W t en S Nd).
        - intros x. split; [reflexivity|apply incl_refl].
        - intros a b c0 [A1 A2] [B1 B2]. split; [congruence|eapply incl_tran; eauto].
        - intros x x' [A _]. rewrite A. apply mono_refl.
        - intros. eapply verify_file_le; eauto.
        - intros; exact I.
        - intros x x' p [_ A] G j Bj Qj. apply A. now apply G.
        - intros dstr p x x' _ _ _. unfold verify_file. rewrite chunk_file_id_base.
          intros E _ j Bj Qj. rewrite Bj in E. unfold canon in Qj. rewrite <- Qj, path_eqb_refl in E.
          inversion E; subst. cbn. apply in_or_app. right. now left.
        - cbn [fst]. symmetry. now apply stat_node_is_dir.
        - cbn [fst]. rewrite <- (stat_node_is_dir _ _ _ L), D. discriminate. }
      exact (G i B Q).
  Qed.

  (* no chunk of the store's own format is kept as a symbolic link *)
  Definition no_chunk_links (s : node) : Prop := forall i, not_link (probe (canon st i) s).

  Lemma nondir_nolink_file s i en : no_chunk_links s -> stat (canon st i) s = Some en -> is_dir (Some en) = false ->
    exists m b, en = EFile m b.
  Proof.
    intros NL S Nd. specialize (NL i). rewrite (probe_of_stat _ _ _ S) in NL.
    destruct en as [m|m b|m t]; [discriminate|now exists m, b|destruct NL].
  Qed.

  (* verify_exact *)
  Lemma verify_exact fuel bstr repair s0 s' msgs :
    is_dir (stat (st_base st) s0) = true -> no_chunk_links s0 ->
    verify_raw H zdecomp fuel st bstr repair s0 = (s', msgs, None) ->
    (forall i, In i (reported msgs) ->
       wf_id i /\ invalid i s0 /\ exists m b, stat (canon st i) s0 = Some (EFile m b)) /\
    (forall i en, wf_id i -> stat (canon st i) s0 = Some en -> is_dir (Some en) = false ->
                  invalid i s0 -> In i (reported msgs)) /\
    (repair = false -> s' = s0) /\
    (forall q, stat q s' = stat q s0 \/
               (stat q s' = None /\ repair = true /\ exists i, In i (reported msgs) /\ q = canon st i)) /\
    (repair = true -> forall i, In i (reported msgs) -> stat (canon st i) s' = None) /\
    (st_skip st = false -> forall i m b, wf_id i -> stat (canon st i) s0 = Some (EFile m b) ->
                      ~ In i (reported msgs) -> exists d, storage_data zdecomp (st_unc st) b = Some d /\ H d = i).
  Proof.
    intros D NL. unfold verify_raw. destruct (verify_ids fuel st bstr s0) as [ids e] eqn:VI.
    destruct (Prune.verify_all H zdecomp st repair ids s0) as [s1 m1] eqn:VA.
    intros E. inversion E; subst. clear E.
    destruct (verify_ids_spec _ _ _ _ _ VI) as (Wf & Canon & Cov). specialize (Cov eq_refl D).
    destruct (verify_all_spec _ _ _ _ _ Wf (fun j _ => NL j) VA) as (A1 & A2 & A3 & A4).
    assert (CanonF : forall i, In i ids -> exists m b, stat (canon st i) s0 = Some (EFile m b)).
    { intros i I. destruct (Canon i I) as (en & S & Nd). destruct (nondir_nolink_file _ _ _ NL S Nd) as (m & b & ->). now exists m, b. }
    assert (Fed : forall i en, wf_id i -> stat (canon st i) s0 = Some en -> is_dir (Some en) = false -> In i ids).
    { intros i en Wi S Nd. unfold canon, name_from_id in S. cbn [snd] in S. rewrite <- app_assoc in S.
      eapply Cov; eauto.
      - rewrite app_assoc. change ((st_base st ++ [firstn 4 (hex_id i)]) ++ [hex_id i ++ ext_of (st_unc st)]) with (canon st i).
        rewrite last_canon. now apply base_file_id_canonical.
      - unfold canon, name_from_id. cbn [snd]. now rewrite <- app_assoc. }
    split; [|split; [|split; [|split; [|split]]]].
    6:{ intros K i m b Wi S Nr.
        assert (I : In i ids) by (eapply Fed; eauto).
        assert (G : get_chunk st i s0 = new_chunk_from_storage H zdecomp i b (st_unc st) false).
        { unfold LocalStore.get_chunk, read_file. fold (canon st i). rewrite (probe_f_file _ _ _ _ S), K. reflexivity. }
        destruct (new_chunk_from_storage H zdecomp i b (st_unc st) false) as [b'| |sum] eqn:N.
        - assert (b' = b). { unfold new_chunk_from_storage in N. destruct (storage_data zdecomp (st_unc st) b); [|discriminate].
            destruct (N.eqb (H b0) i); inversion N; reflexivity. }
          subst b'. eapply new_chunk_ok_valid; eauto.
        - unfold new_chunk_from_storage in N. destruct (storage_data zdecomp (st_unc st) b); [|discriminate].
          destruct (N.eqb (H b0) i); discriminate.
        - exfalso. apply Nr. apply A1. split; [exact I|]. exists sum. exact G. }
    - intros i I. apply A1 in I. destruct I as [I V]. split; [|split; [exact V|now apply CanonF]].
      rewrite Forall_forall in Wf. now apply Wf.
    - intros i en Wi S Nd V. apply A1. split; [|exact V]. eapply Fed; eauto.
    - exact A3.
    - intros q. destruct (A2 q) as [Eq|(Nn & Rp & i & Ii & Vi & Qi)]; [now left|].
      right. split; [exact Nn|]. split; [exact Rp|]. exists i. split; [|exact Qi]. apply A1. now split.
    - intros Rp i I. apply A1 in I. destruct I as [I V]. apply A4; auto.
  Qed.
End VerifyProofs.

(* before 27b0229 *)
Lemma zero_id_accepts_undecodable_prefix (H : bytes -> id) (zdecomp : bytes -> option bytes) (b : bytes) unc :
  storage_data zdecomp unc b = None ->
  new_chunk_from_storage_prefix H zdecomp zero_id b unc false = GetOk b.
Proof. intros E. unfold new_chunk_from_storage_prefix, storage_sum. rewrite E. reflexivity. Qed.

(* after it: an object whose data cannot be produced is invalid for every id *)
Lemma undecodable_always_invalid (H : bytes -> id) (zdecomp : bytes -> option bytes) (b : bytes) unc i :
  storage_data zdecomp unc b = None ->
  new_chunk_from_storage H zdecomp i b unc false = GetInvalid zero_id.
Proof. intros E. unfold new_chunk_from_storage. rewrite E. reflexivity. Qed.

(* ---------- S3Store.Prune ---------- *)

Lemma in_remove_key k l x : In x (remove_key k l) <-> In x l /\ x <> k.
Proof.
  induction l as [|y l IH]; cbn [remove_key In]; [tauto|].
  destruct (bytes_eqb y k) eqn:E.
  - apply bytes_eqb_eq in E. subst y. rewrite IH. split; [tauto|]. intros [[->|I] N]; [congruence|tauto].
  - apply bytes_eqb_neq in E. cbn [In]. rewrite IH. split; [|tauto]. intros [->|[I N]]; [split; [now left|exact E]|tauto].
Qed.

Section S3Proofs.
  Variable prefix : bytes.
  Variable unc : bool.
  Variable keep : id -> bool.

  (* the keys Prune deletes because of the listed key k *)
  Definition s3_victim (k x : bytes) : Prop :=
    exists i, s3_id_from_name prefix unc k = Some i /\ keep i = false /\ x = s3_name prefix unc i.

  Lemma s3_prune_loop_spec listed : forall bucket x,
    In x (s3_prune_loop prefix unc keep listed bucket) <->
    In x bucket /\ ~ exists k, In k listed /\ s3_victim k x.
  Proof.
    induction listed as [|k r IH]; intros bucket x; cbn [s3_prune_loop].
    - split; [intros I; split; [exact I|intros (k & [] & _)]|tauto].
    - destruct (s3_id_from_name prefix unc k) as [i|] eqn:F.
      + destruct (keep i) eqn:K.
        * rewrite IH. split; intros [I N]; (split; [exact I|]); intros (k0 & I0 & V); apply N.
          -- destruct I0 as [<-|I0]; [|exists k0; tauto].
             destruct V as (j & Fj & Kj & _). congruence.
          -- exists k0. split; [now right|exact V].
        * rewrite IH, in_remove_key. split.
          -- intros [[I Nx] N]. split; [exact I|]. intros (k0 & [<-|I0] & V).
             ++ destruct V as (j & Fj & _ & ->). congruence.
             ++ apply N. now exists k0.
          -- intros [I N]. split; [split; [exact I|]|].
             ++ intros ->. apply N. exists k. split; [now left|]. now exists i.
             ++ intros (k0 & I0 & V). apply N. exists k0. split; [now right|exact V].
      + rewrite IH. split; intros [I N]; (split; [exact I|]); intros (k0 & I0 & V); apply N.
        * destruct I0 as [<-|I0]; [|exists k0; tauto]. destruct V as (j & Fj & _). congruence.
        * exists k0. split; [now right|exact V].
  Qed.

  (* s3 prune_safe *)
  Lemma s3_prune_safe bucket x :
    (In x (s3_prune prefix unc keep bucket) -> In x bucket) /\
    (In x bucket -> In x (s3_prune prefix unc keep bucket) \/
                    exists i, wf_id i /\ keep i = false /\ x = s3_name prefix unc i).
  Proof.
    unfold s3_prune. split.
    - intros I. now apply s3_prune_loop_spec in I.
    - intros I. destruct (in_dec (list_eq_dec N.eq_dec) x (s3_prune_loop prefix unc keep (filter (fun k => has_prefix k prefix) bucket) bucket)) as [Y|N];
        [now left|right].
      rewrite s3_prune_loop_spec in N.
      (* classical-free: decide the existence over the finite list *)
      assert (D : forall l, (exists k, In k l /\ s3_victim k x) \/ ~ (exists k, In k l /\ s3_victim k x)).
      { induction l as [|k l IHl]; [right; intros (k & [] & _)|].
        destruct IHl as [(k0 & I0 & V)|Nn]; [left; exists k0; split; [now right|exact V]|].
        destruct (s3_id_from_name prefix unc k) as [i|] eqn:F.
        - destruct (keep i) eqn:K.
          + right. intros (k0 & [<-|I0] & V); [destruct V as (j & Fj & Kj & _); congruence|apply Nn; now exists k0].
          + destruct (list_eq_dec N.eq_dec x (s3_name prefix unc i)) as [->|Ne].
            * left. exists k. split; [now left|]. now exists i.
            * right. intros (k0 & [<-|I0] & V); [destruct V as (j & Fj & _ & ->); congruence|apply Nn; now exists k0].
        - right. intros (k0 & [<-|I0] & V); [destruct V as (j & Fj & _); congruence|apply Nn; now exists k0]. }
      destruct (D (filter (fun k => has_prefix k prefix) bucket)) as [(k & _ & i & F & K & ->)|Nn]; [|tauto].
      exists i. split; [|split; [exact K|reflexivity]].
      unfold s3_id_from_name in F. destruct (has_suffix k (ext_of unc)); [|discriminate].
      destruct (split_slash _) as [|a [|b [|c l]]]; try discriminate.
      destruct (has_prefix b a); [|discriminate]. eapply unhex_id_wf; eauto.
  Qed.

  Lemma split_slash_aux_noslash cur b : forallb (fun c => negb (N.eqb c slash)) b = true ->
    split_slash_aux cur b = [rev cur ++ b].
  Proof.
    revert cur. induction b as [|c b IH]; intros cur Hb; cbn [split_slash_aux].
    - now rewrite app_nil_r.
    - cbn [forallb] in Hb. apply andb_true_iff in Hb. destruct Hb as [Hc Hb].
      destruct (N.eqb c slash); [discriminate|]. rewrite IH by exact Hb. cbn [rev]. now rewrite <- app_assoc.
  Qed.

  Lemma split_slash_two a b :
    forallb (fun c => negb (N.eqb c slash)) a = true -> forallb (fun c => negb (N.eqb c slash)) b = true ->
    split_slash (a ++ slash :: b) = [a; b].
  Proof.
    unfold split_slash. intros Ha Hb.
    assert (G : forall cur, split_slash_aux cur (a ++ slash :: b) = [rev cur ++ a; b]).
    { revert Ha. clear - Hb. induction a as [|c a IH]; intros Ha cur; cbn [app split_slash_aux].
      - rewrite N.eqb_refl, app_nil_r. now rewrite (split_slash_aux_noslash [] b Hb).
      - cbn [forallb] in Ha. apply andb_true_iff in Ha. destruct Ha as [Hc Ha].
        destruct (N.eqb c slash); [discriminate|]. rewrite IH by exact Ha. cbn [rev]. now rewrite <- app_assoc. }
    rewrite (G []). reflexivity.
  Qed.

  Lemma lower_hex_noslash s : forallb is_lower_hex s = true -> forallb (fun c => negb (N.eqb c slash)) s = true.
  Proof.
    intros F. rewrite forallb_forall in *. intros c I. specialize (F c I).
    destruct (N.eqb c slash) eqn:E; [|reflexivity]. apply N.eqb_eq in E. subst c. discriminate.
  Qed.

  Lemma forallb_firstn {A} (f : A -> bool) n l : forallb f l = true -> forallb f (firstn n l) = true.
  Proof.
    revert n. induction l as [|x l IH]; intros [|n] F; cbn in *; try reflexivity.
    apply andb_true_iff in F. destruct F as [-> F]. now rewrite IH.
  Qed.

  Lemma has_prefix_app a b : has_prefix (a ++ b) a = true.
  Proof. unfold has_prefix. rewrite firstn_app, firstn_all, Nat.sub_diag. cbn. rewrite app_nil_r. apply bytes_eqb_refl. Qed.

  Lemma trim_prefix_app a b : trim_prefix (a ++ b) a = b.
  Proof. unfold trim_prefix. rewrite has_prefix_app, skipn_app, skipn_all, Nat.sub_diag. reflexivity. Qed.

  (* the canonical key of an id is accepted and yields the id back *)
  Lemma s3_id_from_name_canonical i : wf_id i -> s3_id_from_name prefix unc (s3_name prefix unc i) = Some i.
  Proof.
    intros W. unfold s3_id_from_name, s3_name.
    set (sid := hex_id i). set (d4 := firstn 4 sid).
    replace (has_suffix (prefix ++ d4 ++ slash :: sid ++ ext_of unc) (ext_of unc)) with true.
    2:{ symmetry. apply has_suffix_spec. exists (prefix ++ d4 ++ slash :: sid).
        rewrite <- !app_assoc. cbn [app]. reflexivity. }
    rewrite trim_prefix_app.
    replace (d4 ++ slash :: sid ++ ext_of unc) with ((d4 ++ slash :: sid) ++ ext_of unc)
      by (rewrite <- app_assoc; reflexivity).
    rewrite trim_suffix_app.
    assert (Hs : forallb (fun c => negb (N.eqb c slash)) sid = true) by (apply lower_hex_noslash, hex_id_lower).
    rewrite split_slash_two; [|now apply forallb_firstn|exact Hs].
    replace (has_prefix sid d4) with true.
    2:{ symmetry. unfold d4. rewrite <- (firstn_skipn 4 sid) at 1. apply has_prefix_app. }
    now apply unhex_hex_id.
  Qed.

  (* s3 prune_complete *)
  Lemma s3_prune_complete bucket i : wf_id i -> keep i = false ->
    ~ In (s3_name prefix unc i) (s3_prune prefix unc keep bucket).
  Proof.
    intros W K I. unfold s3_prune in I. apply s3_prune_loop_spec in I. destruct I as [I N].
    apply N. exists (s3_name prefix unc i). split.
    - apply filter_In. split; [exact I|]. unfold s3_name. apply has_prefix_app.
    - exists i. split; [now apply s3_id_from_name_canonical|]. split; [exact K|reflexivity].
  Qed.
End S3Proofs.

(* ---------- SFTP temp names ---------- *)

Lemma last_app_nonnil {A} (a b : list A) d : b <> [] -> last (a ++ b) d = last b d.
Proof.
  intros N. induction a as [|x a IH]; [reflexivity|]. cbn [app]. rewrite <- IH.
  destruct (a ++ b) eqn:E; [apply app_eq_nil in E; destruct E; contradiction|reflexivity].
Qed.

Definition is_digit (c : byte) : bool := ((48 <=? c) && (c <=? 57))%N.

(* SFTPStoreBase.StoreObject's temp name: the chunk name followed by a decimal number *)
Lemma sftp_temp_never_accepted unc i digits :
  digits <> [] -> forallb is_digit digits = true ->
  base_file_id unc (hex_id i ++ ext_of unc ++ digits) = None.
Proof.
  intros Nn Dg. unfold base_file_id. destruct unc.
  - rewrite unc_ext_empty, has_suffix_nil, trim_suffix_nil. cbn [app].
    destruct (unhex_id (hex_id i ++ digits)) eqn:U; [|reflexivity]. exfalso.
    apply unhex_id_some in U. destruct U as [L _]. rewrite app_length, hex_id_length in L.
    destruct digits; [congruence|cbn in L; lia].
  - destruct (has_suffix (hex_id i ++ ext_of false ++ digits) (ext_of false)) eqn:S; [exfalso|reflexivity].
    apply has_suffix_spec in S. destruct S as [x E].
    assert (L : last (hex_id i ++ ext_of false ++ digits) 0%N = last (x ++ ext_of false) 0%N) by now rewrite E.
    rewrite app_assoc, !last_app_nonnil in L by (try exact Nn; rewrite comp_ext_literal; discriminate).
    rewrite comp_ext_literal in L. cbn [last] in L.
    assert (D : is_digit (last digits 0%N) = true).
    { clear - Nn Dg. induction digits as [|c r IH]; [congruence|]. cbn [forallb] in Dg.
      apply andb_true_iff in Dg. destruct Dg as [Dc Dr]. destruct r; [exact Dc|]. apply IH; [discriminate|exact Dr]. }
    rewrite L in D. discriminate.
Qed.

(* ---------- two formats in one directory (C20): Prune and Verify of one format leave the other's files alone ---------- *)

Lemma chunk_name_not_tmp i unc : is_tmp (hex_id i ++ ext_of unc) = false.
Proof.
  destruct (is_tmp (hex_id i ++ ext_of unc)) eqn:T; [exfalso|reflexivity].
  unfold is_tmp, has_prefix in T. apply bytes_eqb_eq in T.
  apply (tmp_name_neq_chunk_name (skipn (length tmpChunkPrefix_bytes) (hex_id i ++ ext_of unc)) i unc).
  unfold tmp_name. rewrite <- T at 1. apply firstn_skipn.
Qed.

Definition other_format (st : store) : store := mkStore (st_base st) (negb (st_unc st)) (st_skip st).

Lemma canon_other_neq st i j : wf_id i -> wf_id j -> canon (other_format st) j <> canon st i.
Proof.
  intros Wi Wj E. destruct st as [b z k]. unfold other_format, canon in E. cbn [st_base st_unc st_skip] in E.
  apply name_from_id_inj in E; [|exact Wj|exact Wi]. destruct E as [_ E]. destruct z; discriminate.
Qed.

Lemma prune_leaves_other_format tmp_rule stop st keep fuel bstr s0 s' e j :
  prune_gen tmp_rule stop fuel st bstr keep s0 = (s', e) -> wf_id j ->
  stat (canon (other_format st) j) s' = stat (canon (other_format st) j) s0.
Proof.
  intros P Wj. destruct (prune_safe _ _ _ _ _ _ _ _ _ P (canon (other_format st) j)) as [E|(_ & _ & [[_ T]|(i & Wi & _ & Q)])].
  - exact E.
  - rewrite last_canon, chunk_name_not_tmp in T. discriminate.
  - exfalso. exact (canon_other_neq st i j Wi Wj Q).
Qed.

Lemma in_sprefixes_split q p : In q (sprefixes p) -> exists t, t <> [] /\ p = q ++ t.
Proof.
  revert q. induction p as [|nm rest IH]; intros q I; [destruct I|]. cbn [sprefixes] in I.
  destruct I as [<-|I]; [exists (nm :: rest); split; [discriminate|reflexivity]|].
  apply in_map_iff in I. destruct I as (x & <- & I). destruct (IH _ I) as (t & Nt & ->).
  exists t. split; [exact Nt|reflexivity].
Qed.

(* below an existing directory a missing name is plain ENOENT *)
Lemma probe_missing_in_dir d nm s : is_dir (stat d s) = true -> stat (d ++ [nm]) s = None ->
  probe (d ++ [nm]) s = Err ENOENT.
Proof.
  intros D N. rewrite probe_char, N.
  replace (existsb (fun q => nondir (stat q s)) (sprefixes (d ++ [nm]))) with false; [reflexivity|].
  symmetry. apply not_true_is_false. intros E. apply existsb_exists in E. destruct E as (q & I & Nd).
  apply in_sprefixes_split in I. destruct I as (t & Nt & E).
  destruct (exists_last Nt) as (t' & nm' & ->). rewrite app_assoc in E. apply app_inj_tail in E. destruct E as [E _].
  assert (Dq : is_dir (stat q s) = true).
  { destruct t' as [|x t'']; [rewrite app_nil_r in E; now subst q|].
    destruct (is_dir (stat q s)) eqn:Q; [reflexivity|exfalso].
    rewrite E, stat_below_nondir in D by (try discriminate; exact Q). discriminate. }
  destruct (stat q s) as [[| |]|]; cbn in Dq, Nd; discriminate.
Qed.

Lemma verify_leaves_other_format (H : bytes -> id) zdecomp st fuel bstr repair s0 s' msgs j :
  is_dir (stat (st_base st) s0) = true -> no_chunk_links st s0 ->
  verify_raw H zdecomp fuel st bstr repair s0 = (s', msgs, None) -> wf_id j ->
  stat (canon (other_format st) j) s' = stat (canon (other_format st) j) s0 /\
  (is_dir (stat (fst (name_from_id st j)) s0) = true -> stat (canon st j) s0 = None -> ~ In j (reported msgs)).
Proof.
  intros D NL V Wj. destruct (verify_exact H zdecomp st _ _ _ _ _ _ D NL V) as (A1 & _ & _ & A4 & _).
  split.
  - destruct (A4 (canon (other_format st) j)) as [E|(_ & _ & i & Ii & Q)]; [exact E|exfalso].
    destruct (A1 i Ii) as [Wi _]. exact (canon_other_neq st i j Wi Wj Q).
  - intros Dd N I. destruct (A1 j I) as [_ [[sum G] _]]. pose proof Logic.I as I0.
    assert (P : probe (snd (name_from_id st j)) s0 = Err ENOENT).
    { unfold canon, name_from_id in N, Dd |- *. cbn [fst snd] in N, Dd |- *. exact (probe_missing_in_dir _ _ _ Dd N). }
    unfold LocalStore.get_chunk, read_file in G. rewrite probe_f_eq in G by (rewrite P; exact I0).
    rewrite P in G. discriminate.
Qed.

(* LocalStore.Verify (reads with verification whatever the store's SkipVerify says) *)
Lemma verify_exact_any (H : bytes -> id) zdecomp st fuel bstr repair s0 s' msgs :
  is_dir (stat (st_base st) s0) = true ->
  (forall i, not_link (probe (snd (name_from_id st i)) s0)) ->
  verify H zdecomp fuel st bstr repair s0 = (s', msgs, None) ->
  (forall i, In i (reported msgs) ->
     wf_id i /\ (exists sum, get_chunk H zdecomp (verifying st) i s0 = GetInvalid sum) /\
     exists m b, stat (snd (name_from_id st i)) s0 = Some (EFile m b)) /\
  (forall i en, wf_id i -> stat (snd (name_from_id st i)) s0 = Some en -> is_dir (Some en) = false ->
     (exists sum, get_chunk H zdecomp (verifying st) i s0 = GetInvalid sum) -> In i (reported msgs)) /\
  (repair = false -> s' = s0) /\
  (forall q, stat q s' = stat q s0 \/
     (stat q s' = None /\ repair = true /\ exists i, In i (reported msgs) /\ q = snd (name_from_id st i))) /\
  (repair = true -> forall i, In i (reported msgs) -> stat (snd (name_from_id st i)) s' = None) /\
  (forall i m b, wf_id i -> stat (snd (name_from_id st i)) s0 = Some (EFile m b) ->
     ~ In i (reported msgs) -> exists d, storage_data zdecomp (st_unc st) b = Some d /\ H d = i).
Proof.
  intros D NL V. unfold verify in V.
  destruct (verify_exact H zdecomp (verifying st) fuel bstr repair s0 s' msgs D NL V) as (A1 & A2 & A3 & A4 & A5 & A6).
  split; [exact A1|]. split; [exact A2|]. split; [exact A3|]. split; [exact A4|]. split; [exact A5|exact (A6 eq_refl)].
Qed.

(* the ids Verify hands to its workers are those of existing canonical chunk files, so the order in which
   the workers take them is irrelevant (verify_all_perm applies to every run) *)
Lemma verify_fed_ids_canonical (st : store) fuel bstr s0 ids e :
  verify_ids fuel st bstr s0 = (ids, e) ->
  Forall wf_id ids /\
  forall i, In i ids -> exists en, stat (snd (name_from_id st i)) s0 = Some en /\ is_dir (Some en) = false.
Proof. intros V. destruct (verify_ids_spec st _ _ _ _ _ V) as (W & C & _). split; [exact W|exact C]. Qed.

Lemma verify_leaves_other_format_any (H : bytes -> id) zdecomp st fuel bstr repair s0 s' msgs j :
  is_dir (stat (st_base st) s0) = true ->
  (forall i, not_link (probe (snd (name_from_id st i)) s0)) ->
  verify H zdecomp fuel st bstr repair s0 = (s', msgs, None) -> wf_id j ->
  stat (canon (other_format st) j) s' = stat (canon (other_format st) j) s0 /\
  (is_dir (stat (fst (name_from_id st j)) s0) = true -> stat (canon st j) s0 = None -> ~ In j (reported msgs)).
Proof.
  intros D NL V Wj. exact (verify_leaves_other_format H zdecomp (verifying st) fuel bstr repair s0 s' msgs j D NL V Wj).
Qed.

(* what Verify did before: run on a store opened with SkipVerify it reports nothing and removes nothing,
   whatever the store holds *)
Lemma verify_raw_skip_reports_nothing (H : bytes -> id) zdecomp st fuel bstr repair s0 :
  st_skip st = true ->
  fst (fst (verify_raw H zdecomp fuel st bstr repair s0)) = s0 /\
  reported (snd (fst (verify_raw H zdecomp fuel st bstr repair s0))) = [].
Proof.
  intros K. unfold verify_raw. destruct (verify_ids fuel st bstr s0) as [ids e].
  assert (G : forall l s, exists m, Prune.verify_all H zdecomp st repair l s = (s, m) /\ reported m = []).
  { induction l as [|i r IH]; intros s; cbn [Prune.verify_all]; [exists []; split; reflexivity|].
    destruct (IH s) as (m & E & R).
    unfold Prune.verify_one, LocalStore.get_chunk. destruct (read_file _ s) as [b|].
    - unfold new_chunk_from_storage. rewrite K, E. exists m. split; [reflexivity|exact R].
    - rewrite E. exists (VmOther i :: m). split; [reflexivity|exact R]. }
  destruct (G ids s0) as (m & E & R). rewrite E. cbn. split; [reflexivity|exact R].
Qed.

(* S3 prune with cancellation: not interrupted = the uninterrupted prune (so nil implies complete) *)
Lemma s3_prune_loop_c_nil stop prefix unc keep listed : forall bucket b',
  s3_prune_loop_c stop prefix unc keep listed bucket = (b', false) ->
  b' = s3_prune_loop prefix unc keep listed bucket.
Proof.
  induction listed as [|k r IH]; intros bucket b' E; cbn [s3_prune_loop_c s3_prune_loop] in *.
  - now inversion E.
  - destruct (stop k); [discriminate|]. destruct (s3_id_from_name prefix unc k) as [i|]; [destruct (keep i)|]; now apply IH.
Qed.

Lemma s3_prune_c_nil stop prefix unc keep bucket b' :
  s3_prune_c stop prefix unc keep bucket = (b', false) -> b' = s3_prune prefix unc keep bucket.
Proof. apply s3_prune_loop_c_nil. Qed.
