From Coq Require Import List Arith Bool Lia.
From DS Require Import Base.Sched Model.Pool Model.MakeCancel Proofs.PoolProofs.
Import ListNotations.

Section MakeCancelProofs.
  Variable stop_at : nat -> nat.
  Variable need : nat.
  Variable can_cancel : bool.
  Notation step := (mstep stop_at need true can_cancel).

  Record MInv (s : mstate) : Prop := {
    mi_clean : forall i e, nth_error (m_workers s) i = Some (MStopped false, e) -> e = stop_at i;
    mi_got : length (m_got s) = m_next s \/ (m_res s <> None /\ length (m_got s) = S (m_next s));
    mi_full : m_res s <> Some RInterrupted -> forall k, k < length (m_got s) -> nth k (m_got s) 0 = stop_at k;
    mi_nil : m_res s = Some RNil ->
             need <= fold_right plus 0 (m_got s) \/ length (m_workers s) <= length (m_got s);
  }.

  Lemma step_minv s t s' : MInv s -> step s t = Some s' -> MInv s'.
  Proof.
    intros [Hc Hg Hf Hn] E. destruct t as [i| |]; unfold mstep in E.
    - destruct (nth_error (m_workers s) i) as [[[|err] e]|] eqn:Ew; try discriminate.
      assert (G : forall st e', (st = MStopped false -> e' = stop_at i) ->
                MInv (mkM (m_cancelled s) (set_nth (m_workers s) i (st, e')) (m_next s) (m_got s) (m_res s))).
      { intros st e' Hst. constructor; cbn; auto.
        - intros j e0 Ej. apply nth_error_set_nth in Ej. destruct Ej as [[<- Ej]|[_ Ej]].
          + inversion Ej; subst. apply Hst. reflexivity.
          + eapply Hc; eauto.
        - intros Hr. rewrite set_nth_length. auto. }
      destruct (m_cancelled s).
      + inversion E; subst. apply G. discriminate.
      + destruct (e =? stop_at i) eqn:Ee; inversion E; subst; apply G.
        * intros _. apply Nat.eqb_eq. exact Ee.
        * discriminate.
    - destruct (m_res s) eqn:Er; [discriminate|].
      assert (Hlen : length (m_got s) = m_next s) by (destruct Hg as [Hg|[Hg _]]; [exact Hg|congruence]).
      destruct (nth_error (m_workers s) (m_next s)) as [[[|err] e]|] eqn:Ew; try discriminate.
      + assert (Hfull : err = false -> forall k, k < length (m_got s ++ [e]) -> nth k (m_got s ++ [e]) 0 = stop_at k).
        { intros -> k Hk. rewrite app_length in Hk. cbn in Hk.
          destruct (Nat.eq_dec k (length (m_got s))) as [->|Hne].
          - rewrite app_nth2, Nat.sub_diag by lia. cbn. rewrite Hlen. eapply Hc; eauto.
          - rewrite app_nth1 by lia. apply Hf; [congruence|lia]. }
        destruct err.
        * inversion E; subst. constructor; cbn; auto; try congruence.
          right. split; [discriminate|]. rewrite app_length. cbn. lia.
        * destruct (need <=? fold_right plus 0 (m_got s ++ [e])) eqn:En; inversion E; subst; constructor; cbn; auto; try discriminate.
          -- right. split; [discriminate|]. rewrite app_length. cbn. lia.
          -- intros _. left. apply Nat.leb_le. exact En.
          -- left. rewrite app_length. cbn. lia.
      + inversion E; subst. constructor; cbn; auto.
        * intros _. apply Hf. congruence.
        * intros _. right. apply nth_error_None in Ew. lia.
    - destruct (can_cancel && negb (m_cancelled s)); [|discriminate]. inversion E; subst. constructor; cbn; auto.
  Qed.

  (* IndexFromFile under cancellation: nil => every bucket that went into the index is the complete
     bucket of its worker (what the uncancelled run collects), and the collector stopped because the
     index covers the file or every worker was drained. *)
  Theorem make_cancel_sound nw sched :
    let s := run step sched (minit nw) in
    m_res s = Some RNil ->
    (forall k, k < length (m_got s) -> nth k (m_got s) 0 = stop_at k) /\
    (need <= fold_right plus 0 (m_got s) \/ nw <= length (m_got s)).
  Proof.
    intros s Hres.
    assert (I : MInv s).
    { apply inv_run with (Inv := MInv); [intros; eapply step_minv; eauto|].
      constructor; cbn; auto; try discriminate; try (intros; lia).
      intros i e Ei. apply nth_error_In, repeat_spec in Ei. discriminate. }
    assert (Hl : length (m_workers s) = nw).
    { apply (inv_run step (fun s => length (m_workers s) = nw)); [|cbn; apply repeat_length].
      intros s0 t s1 Hs E. rewrite <- Hs. destruct t as [i| |]; unfold mstep in E.
      - destruct (nth_error (m_workers s0) i) as [[[|?] ?]|]; try discriminate.
        destruct (m_cancelled s0); [|destruct (_ =? _)]; inversion E; subst; cbn; apply set_nth_length.
      - destruct (m_res s0); [discriminate|].
        destruct (nth_error (m_workers s0) (m_next s0)) as [[[|[|]] ?]|]; try discriminate;
          try destruct (_ <=? _); inversion E; subst; reflexivity.
      - destruct (can_cancel && negb (m_cancelled s0)); [|discriminate]. inversion E; subst; reflexivity. }
    split.
    - apply (mi_full _ I). rewrite Hres. discriminate.
    - rewrite <- Hl. apply (mi_nil _ I). exact Hres.
  Qed.
End MakeCancelProofs.

(* The seeded mutant (the interrupted case does not set c.err): cancelled before the first chunk, every
   worker stops with an empty bucket and no error, the collector returns nil with an empty index. *)
Theorem make_noerr_refuted stop_at need :
  0 < stop_at 0 -> 0 < need ->
  exists nw sched,
    let s := run (mstep stop_at need false true) sched (minit nw) in
    m_res s = Some RNil /\ m_got s = [0] /\
    m_res (run (mstep stop_at need true true) sched (minit nw)) = Some RInterrupted.
Proof.
  intros Hs Hn. exists 1, [MCancel; MWorker 0; MCollect; MCollect].
  unfold run, run1. cbn.
  assert (E : need <=? 0 = false) by (apply Nat.leb_gt; lia). rewrite E. cbn. repeat split; reflexivity.
Qed.
