(* What the LocalFS writer (Model/FSMeta.v) leaves behind when UnTar feeds it the nodes of a tree.

   Part A  directory entries: lookups and updates of the last binding
   Part B  locality: an operation on a path below the entry nm acts inside that entry
   Part C  the metadata calls of one node (Set*Permissions, Chtimes) as a function on the meta record
   Part D  node by node: files, symlinks, devices, directories with their children
   Part E  untar_result: UnTar of the nodes of t into an empty directory = expect t *)
From Coq Require Import List NArith Bool Lia ZifyN ZifyBool.
From DS Require Import Gen.Constants Base.Bytes Base.LE64 Model.Format Model.Archive Model.Mode Model.TarModel
     Model.FSMeta Proofs.ModeProofs Proofs.XattrSort Proofs.TarModelProofs.
From DS Require Base.FS.
Import ListNotations.
Local Open Scope N_scope.

(* ---------- Part A: entries ---------- *)

Lemma assoc_snoc nm ents v : assoc nm ents = None -> assoc nm (ents ++ [(nm, v)]) = Some v.
Proof.
  induction ents as [|[k x] r IH]; intros H; cbn [app assoc] in *.
  - now rewrite FS.bytes_eqb_refl.
  - destruct (FS.bytes_eqb k nm); [discriminate|]. apply IH, H.
Qed.

Lemma assoc_snoc_other nm k ents v : k <> nm -> assoc nm (ents ++ [(k, v)]) = assoc nm ents.
Proof.
  intros Hne. induction ents as [|[k' x] r IH]; cbn [app assoc].
  - apply FS.bytes_eqb_neq in Hne. now rewrite Hne.
  - destruct (FS.bytes_eqb k' nm); [reflexivity|exact IH].
Qed.

Definition ents_result (ents : list (bytes * fnode)) (nm : bytes) (r : fres (option fnode)) : fres (list (bytes * fnode)) :=
  match r with
  | FOk (Some n) => FOk (ents ++ [(nm, n)])
  | FOk None => FOk ents
  | FErr e => FErr e
  end.

Lemma upd_ents_snoc g nm ents v : assoc nm ents = None ->
  upd_ents g nm (ents ++ [(nm, v)]) = ents_result ents nm (g (Some v)).
Proof.
  induction ents as [|[k x] r IH]; intros H; cbn [app upd_ents assoc] in *.
  - rewrite FS.bytes_eqb_refl. destruct (g (Some v)) as [[n|]|e]; reflexivity.
  - destruct (FS.bytes_eqb k nm); [discriminate|]. rewrite (IH H).
    destruct (g (Some v)) as [[n|]|e]; reflexivity.
Qed.

Lemma upd_ents_fresh g nm ents : assoc nm ents = None ->
  upd_ents g nm ents = ents_result ents nm (g None).
Proof.
  induction ents as [|[k x] r IH]; intros H; cbn [upd_ents assoc] in *.
  - destruct (g None) as [[n|]|e]; reflexivity.
  - destruct (FS.bytes_eqb k nm); [discriminate|]. rewrite (IH H).
    destruct (g None) as [[n|]|e]; reflexivity.
Qed.

(* ---------- Part B: locality ---------- *)

Definition node_path (n : node) : list bytes :=
  match n with NDirectory p _ _ | NFile p _ _ _ _ | NSymlink p _ _ _ | NDevice p _ _ _ _ => p end.

(* the same node below the directory pre *)
Definition shift_node (pre : list bytes) (n : node) : node :=
  match n with
  | NDirectory p mt xs => NDirectory (pre ++ p) mt xs
  | NFile p mt xs sz d => NFile (pre ++ p) mt xs sz d
  | NSymlink p mt xs tg => NSymlink (pre ++ p) mt xs tg
  | NDevice p mt xs mj mn => NDevice (pre ++ p) mt xs mj mn
  end.

Section Local.
Variables (m : fmeta) (ents : list (bytes * fnode)) (nm : bytes).
Hypothesis Hfresh : assoc nm ents = None.

(* the directory with the entry nm -> v as its last entry *)
Definition child (v : fnode) : fnode := FDir m (ents ++ [(nm, v)]).
Definition lift_child (r : fres fnode) : fres fnode :=
  match r with FOk v => FOk (child v) | FErr e => FErr e end.

Lemma at_path_child q f v : at_path (nm :: q) f (child v) = lift_child (at_path q f v).
Proof.
  unfold child. cbn [at_path]. rewrite (upd_ents_snoc _ nm ents v Hfresh).
  destruct (at_path q f v); reflexivity.
Qed.

Lemma lookup_child q v : lookup (nm :: q) (child v) = lookup q v.
Proof. unfold child. cbn [lookup]. now rewrite (assoc_snoc nm ents v Hfresh). Qed.

Lemma split_last_cons x q : q <> [] -> exists d l, split_last q = Some (d, l) /\ split_last (x :: q) = Some (x :: d, l).
Proof.
  intros Hq. destruct q as [|y q]; [congruence|].
  assert (H : exists d l, split_last (y :: q) = Some (d, l)).
  { clear. revert y. induction q as [|z q IH]; intros y; [exists [], y; reflexivity|].
    destruct (IH z) as (d & l & E). exists (y :: d), l. cbn [split_last] in *. now rewrite E. }
  destruct H as (d & l & E). exists d, l. split; [exact E|]. cbn [split_last] in *. now rewrite E.
Qed.

Lemma entry_op_child q g v : q <> [] -> entry_op (nm :: q) g (child v) = lift_child (entry_op q g v).
Proof.
  intros Hq. destruct (split_last_cons nm q Hq) as (d & l & E1 & E2).
  unfold entry_op. rewrite E1, E2. apply at_path_child.
Qed.

(* F, acting on the directory, is F' acting inside the entry *)
Definition localf (F F' : fnode -> fres fnode) : Prop := forall v, F (child v) = lift_child (F' v).

Lemma localf_ok : localf (fun s => FOk s) (fun s => FOk s).
Proof. intros v. reflexivity. Qed.

Lemma localf_bind F F' G G' : localf F F' -> localf G G' ->
  localf (fun s => dof x <- F s; G x) (fun s => dof x <- F' s; G' x).
Proof.
  intros HF HG v. rewrite HF. destruct (F' v) as [v'|e]; cbn [lift_child bindf]; [apply HG|reflexivity].
Qed.

Lemma localf_if (b : bool) F F' G G' : localf F F' -> localf G G' ->
  localf (fun s => if b then F s else G s) (fun s => if b then F' s else G' s).
Proof. intros HF HG v. destruct b; [apply HF|apply HG]. Qed.

Lemma localf_on_meta q f : localf (on_meta (nm :: q) f) (on_meta q f).
Proof. intros v. apply at_path_child. Qed.

Lemma localf_entry q g : q <> [] -> localf (entry_op (nm :: q) g) (entry_op q g).
Proof. intros Hq v. apply entry_op_child, Hq. Qed.

Lemma localf_xattrs q : forall xs, localf (set_all_xattrs (nm :: q) xs) (set_all_xattrs q xs).
Proof.
  induction xs as [|[k x] r IH]; [apply localf_ok|].
  cbn [set_all_xattrs]. apply (localf_bind (lsetxattr (nm :: q) k x) (lsetxattr q k x)); [apply localf_on_meta|exact IH].
Qed.

Lemma localf_set_permissions o q mt xs : localf (set_permissions o (nm :: q) mt xs) (set_permissions o q mt xs).
Proof.
  unfold set_permissions.
  apply (localf_bind (fun s => if no_same_owner o then FOk s else dof s' <- chown (nm :: q) (m_uid mt) (m_gid mt) s; set_all_xattrs (nm :: q) xs s')
                     (fun s => if no_same_owner o then FOk s else dof s' <- chown q (m_uid mt) (m_gid mt) s; set_all_xattrs q xs s')).
  - apply localf_if; [apply localf_ok|].
    apply (localf_bind (chown (nm :: q) _ _) (chown q _ _)); [apply localf_on_meta|apply localf_xattrs].
  - apply localf_if; [apply localf_ok|apply localf_on_meta].
Qed.

Lemma localf_set_times q mt : localf (set_times (nm :: q) mt) (set_times q mt).
Proof. unfold set_times. apply localf_if; [apply localf_ok|apply localf_on_meta]. Qed.

Lemma localf_unlink_if q : q <> [] -> localf (unlink_if_there (nm :: q)) (unlink_if_there q).
Proof.
  intros Hq v. unfold unlink_if_there, unlink. rewrite (entry_op_child q _ v Hq).
  destruct (entry_op q _ v) as [v'|[]]; reflexivity.
Qed.

Lemma localf_untar_node pr o n :
  node_path n <> [] -> localf (untar_node pr o (shift_node [nm] n)) (untar_node pr o n).
Proof.
  destruct n as [p mt xs|p mt xs sz data|p mt xs tg|p mt xs mj mn]; cbn [node_path shift_node untar_node app]; intros Hp.
  - unfold create_dir.
    apply (localf_bind (fun s => match lstat (nm :: p) s with Some n => if is_fdir n then FOk s else FErr NotADirectory | None => mkdir pr (nm :: p) 511 s end)
                       (fun s => match lstat p s with Some n => if is_fdir n then FOk s else FErr NotADirectory | None => mkdir pr p 511 s end)).
    + intros v. unfold lstat. rewrite lookup_child. destruct (lookup p v) as [n|].
      * destruct (is_fdir n); reflexivity.
      * unfold mkdir. apply entry_op_child, Hp.
    + apply (localf_bind (set_permissions o (nm :: p) mt xs) (set_permissions o p mt xs));
        [apply localf_set_permissions|apply localf_set_times].
  - unfold create_file.
    apply (localf_bind (remove_all (nm :: p)) (remove_all p)); [apply localf_entry, Hp|].
    apply (localf_bind (create_write pr (nm :: p) 438 data) (create_write pr p 438 data)); [apply localf_entry, Hp|].
    apply (localf_bind (set_permissions o (nm :: p) mt xs) (set_permissions o p mt xs));
      [apply localf_set_permissions|apply localf_set_times].
  - unfold create_symlink.
    apply (localf_bind (unlink_if_there (nm :: p)) (unlink_if_there p)); [apply localf_unlink_if, Hp|].
    apply (localf_bind (symlink pr tg (nm :: p)) (symlink pr tg p)); [apply localf_entry, Hp|].
    apply (localf_bind (fun s => if no_same_owner o then FOk s
                                 else dof s2 <- chown (nm :: p) (m_uid mt) (m_gid mt) s; set_all_xattrs (nm :: p) xs s2)
                       (fun s => if no_same_owner o then FOk s
                                 else dof s2 <- chown p (m_uid mt) (m_gid mt) s; set_all_xattrs p xs s2));
      [|apply localf_set_times].
    apply localf_if; [apply localf_ok|].
    apply (localf_bind (chown (nm :: p) _ _) (chown p _ _)); [apply localf_on_meta|apply localf_xattrs].
  - unfold create_device.
    apply (localf_bind (unlink_if_there (nm :: p)) (unlink_if_there p)); [apply localf_unlink_if, Hp|].
    apply (localf_bind (mknod pr (nm :: p) _ _) (mknod pr p _ _)); [apply localf_entry, Hp|].
    apply (localf_bind (set_permissions o (nm :: p) mt xs) (set_permissions o p mt xs));
      [apply localf_set_permissions|apply localf_set_times].
Qed.

Lemma localf_untar pr o : forall ns, Forall (fun n => node_path n <> []) ns ->
  localf (untar pr o (map (shift_node [nm]) ns)) (untar pr o ns).
Proof.
  induction ns as [|n r IH]; intros Hne; [apply localf_ok|].
  inversion Hne as [|? ? Hn Hr]; subst. cbn [map untar].
  apply (localf_bind (untar_node pr o (shift_node [nm] n)) (untar_node pr o n)); [apply localf_untar_node, Hn|apply IH, Hr].
Qed.

End Local.

(* ---------- Part C: the metadata calls on one object ---------- *)

Lemma fmeta_with_meta v mm : fmeta_of (with_meta v mm) = mm.
Proof. destruct v; reflexivity. Qed.
Lemma with_meta_twice v m1 m2 : with_meta (with_meta v m1) m2 = with_meta v m2.
Proof. destruct v; reflexivity. Qed.
Lemma chown_clear_with_meta v mm p : chown_clear (with_meta v mm) p = chown_clear v p.
Proof. destruct v; reflexivity. Qed.

Lemma on_meta_self f v : on_meta [] f v = FOk (with_meta v (f v (fmeta_of v))).
Proof. reflexivity. Qed.

Definition ins_all (xs acc : list (bytes * bytes)) : list (bytes * bytes) :=
  fold_left (fun acc kv => insert_kv kv acc) xs acc.

Lemma xattrs_self : forall xs v,
  set_all_xattrs [] xs v = FOk (with_meta v (set_xattrs (fmeta_of v) (ins_all xs (fm_xattrs (fmeta_of v))))).
Proof.
  induction xs as [|[k x] r IH]; intros v; cbn [set_all_xattrs].
  - unfold ins_all. cbn [fold_left]. destruct v as [[] ?|[] ?|[] ?|[] ? ?]; reflexivity.
  - unfold lsetxattr. rewrite on_meta_self. cbn [bindf]. rewrite IH.
    rewrite with_meta_twice, fmeta_with_meta. unfold ins_all. cbn [fold_left set_xattrs fm_xattrs fm_perm fm_uid fm_gid fm_mtime].
    reflexivity.
Qed.

Definition meta_chown (v : fnode) (u g : N) (m0 : fmeta) : fmeta :=
  set_owner (set_perm m0 (chown_clear v (fm_perm m0))) u g.

Definition apply_perms (o : lopts) (v : fnode) (mt : meta) (xs : list (bytes * bytes)) (m0 : fmeta) : fmeta :=
  let m1 := if no_same_owner o then m0
            else let mc := meta_chown v (m_uid mt) (m_gid mt) m0 in set_xattrs mc (ins_all xs (fm_xattrs mc)) in
  let m2 := if no_same_permissions o then m1 else set_perm m1 (chmod_bits (node_statmode mt)) in
  if m_mtime mt =? 0 then m2 else set_mtime m2 (Stamp (m_mtime mt)).

Lemma perms_self o mt xs v :
  (dof s2 <- set_permissions o [] mt xs v; set_times [] mt s2) =
  FOk (with_meta v (apply_perms o v mt xs (fmeta_of v))).
Proof.
  unfold set_permissions, set_times, apply_perms, chown, chmod, utimes, meta_chown.
  destruct (no_same_owner o); destruct (no_same_permissions o); destruct (m_mtime mt =? 0);
    cbn [bindf]; rewrite ?on_meta_self; cbn [bindf]; rewrite ?xattrs_self; cbn [bindf];
    rewrite ?on_meta_self; cbn [bindf]; rewrite ?on_meta_self; cbn [bindf];
    rewrite ?with_meta_twice, ?fmeta_with_meta, ?with_meta_twice, ?fmeta_with_meta, ?with_meta_twice;
    try reflexivity; destruct v as [[] ?|[] ?|[] ?|[] ? ?]; reflexivity.
Qed.

(* the same for the entry nm of a directory *)
Lemma perms_child mm ents nm o mt xs v : assoc nm ents = None ->
  (dof s2 <- set_permissions o [nm] mt xs (child mm ents nm v); set_times [nm] mt s2) =
  FOk (child mm ents nm (with_meta v (apply_perms o v mt xs (fmeta_of v)))).
Proof.
  intros Hf.
  pose proof (localf_bind mm ents nm _ _ _ _ (localf_set_permissions mm ents nm Hf o [] mt xs)
                (localf_set_times mm ents nm Hf [] mt) v) as H.
  cbv beta in H. rewrite H, perms_self. reflexivity.
Qed.

(* ---------- the resulting record ---------- *)

Section Expected.
Variables (pr : proc) (o : lopts).

Lemma bits_above_lt x k : (forall n, k <= n -> N.testbit x n = false) -> x < 2 ^ k.
Proof.
  intros H. destruct (N.lt_ge_cases x (2 ^ k)) as [Hlt|Hge]; [exact Hlt|exfalso].
  assert (Hz : x <> 0) by (pose proof (N.pow_nonzero 2 k ltac:(lia)); lia).
  pose proof (N.log2_le_mono _ _ Hge) as Hl. rewrite N.log2_pow2 in Hl by lia.
  pose proof (N.bit_log2 _ Hz) as Hb. rewrite (H _ Hl) in Hb. discriminate.
Qed.

Lemma ldiff_lt x y k : x < 2 ^ k -> N.ldiff x y < 2 ^ k.
Proof.
  intros Hx. apply bits_above_lt. intros n Hn. rewrite N.ldiff_spec, (testbit_small x k n Hx Hn). reflexivity.
Qed.

Lemma land_lt x y k : y < 2 ^ k -> N.land x y < 2 ^ k.
Proof.
  intros Hy. apply bits_above_lt. intros n Hn. rewrite N.land_spec, (testbit_small y k n Hy Hn). apply andb_false_r.
Qed.

(* a permission word without set-id bits is not changed by chown *)
Definition noclear_check (p : N) : bool :=
  (chown_clear (FFile (mkFMeta 0 0 0 Now []) []) p =? p).
Lemma noclear_sweep : forallb noclear_check (all_below 9) = true.
Proof. vm_compute. reflexivity. Qed.

Lemma chown_clear_low v p : p < 2 ^ 9 -> chown_clear v p = p.
Proof.
  intros Hp. destruct v; [reflexivity| | |];
    apply N.eqb_eq; exact (sweep 9 _ noclear_sweep p Hp).
Qed.

Definition plain_perm (mode : N) : N := N.ldiff (N.land mode 4095) (p_umask pr).

Lemma plain_perm_low mode : mode < 2 ^ 9 -> plain_perm mode < 2 ^ 9.
Proof.
  intros Hm. unfold plain_perm. apply ldiff_lt.
  assert (N.land mode 4095 = mode); [|congruence].
  change 4095 with (N.ones 12). rewrite N.land_ones. apply N.mod_small.
  change (2 ^ 9) with 512 in Hm. change (2 ^ 12) with 4096. lia.
Qed.

(* a word below 2^9 has no set-group-ID bit *)
Lemma no_sgid_low p : p < 2 ^ 9 -> has p S_ISGID = false.
Proof.
  intros Hp. unfold has. apply negb_false_iff, N.eqb_eq. apply N.bits_inj. intro n.
  rewrite N.land_spec, N.bits_0. change S_ISGID with (2 ^ 10). rewrite N.pow2_bits_eqb.
  destruct (N.eqb_spec 10 n) as [<-|Hne]; [|apply andb_false_r].
  rewrite (testbit_small p 9 10 Hp) by lia. reflexivity.
Qed.

(* What UnTar keeps true of every directory it creates entries in (a new entry takes the group of a
   set-group-ID directory, a new directory its set-group-ID bit too): under --no-same-owner no
   directory has a foreign group to hand down, under --no-same-permissions none is set-group-ID. *)
Definition dir_inv (pm : fmeta) : Prop :=
  (no_same_owner o = true -> inherit_gid pr pm = p_gid pr) /\
  (no_same_permissions o = true -> has (fm_perm pm) S_ISGID = false).

Lemma dir_inv_touched pm : dir_inv pm -> dir_inv (set_mtime pm Now).
Proof. intros H. exact H. Qed.

Lemma dir_inv_none : dir_inv meta_none.
Proof. split; intros _; reflexivity. Qed.

Lemma statmode_of_attrs a : wf_attrs a -> node_statmode (meta_of a) = t_mode a.
Proof. intros [Hm Ht _ _ _ _]. unfold node_statmode, meta_of. cbn [m_mode]. apply mode_roundtrip_word; assumption. Qed.

Lemma chmod_of_attrs a : wf_attrs a -> chmod_bits (node_statmode (meta_of a)) = perm_of a.
Proof. intros Ha. rewrite (statmode_of_attrs a Ha). reflexivity. Qed.

Lemma ins_all_xs a : ins_all (xs_of a) [] = sort_xattrs (t_xattrs a).
Proof. unfold ins_all, xs_of. apply sort_xattrs_idem. Qed.

(* files and directories: created with mode0 (0666 / 0777) in the directory pm, then chown, xattrs,
   chmod, utimes.  What the new object inherited from pm is overwritten by the explicit chown and
   chmod -- or was nothing, by [dir_inv], when they are switched off. *)
Lemma apply_perms_fresh v a pm isdir mode0 :
  wf_attrs a -> mode0 < 2 ^ 9 -> dir_inv pm ->
  apply_perms o v (meta_of a) (xs_of a) (fresh pr pm isdir mode0) =
  mkFMeta (exp_perm pr o a mode0) (fst (exp_owner pr o a)) (snd (exp_owner pr o a)) (exp_time a) (exp_xattrs o a).
Proof.
  intros Ha Hm0 [Hi1 Hi2]. unfold apply_perms, exp_perm, exp_owner, exp_time, exp_xattrs, meta_chown, fresh.
  rewrite (chmod_of_attrs a Ha). fold (plain_perm mode0).
  pose proof (plain_perm_low mode0 Hm0) as Hlow.
  cbn [meta_of m_uid m_gid m_mtime fm_perm].
  destruct (no_same_owner o) eqn:Eo; destruct (no_same_permissions o) eqn:Ep;
    try rewrite (Hi1 eq_refl); try rewrite (Hi2 eq_refl); rewrite ?andb_false_r;
    try rewrite (chown_clear_low v _ Hlow);
    destruct (t_mtime a =? 0);
    cbn [set_perm set_owner set_xattrs set_mtime fm_perm fm_uid fm_gid fm_mtime fm_xattrs fst snd];
    rewrite ?ins_all_xs; reflexivity.
Qed.

(* the directory just made satisfies the invariant for its own children *)
Lemma dir_inv_expected a t :
  dir_inv (mkFMeta (exp_perm pr o a 511) (fst (exp_owner pr o a)) (snd (exp_owner pr o a)) t (exp_xattrs o a)).
Proof.
  split; intros E.
  - unfold inherit_gid, exp_owner. rewrite E. cbn [fst snd fm_gid]. destruct (has _ S_ISGID); reflexivity.
  - unfold exp_perm. rewrite E. cbn [fm_perm]. apply no_sgid_low. apply (plain_perm_low 511). reflexivity.
Qed.

End Expected.

(* ---------- Part D: node by node ---------- *)

(* sibling names are distinct; device numbers are the kernel's 32 bits *)
Fixpoint unique_tree (t : tree) : Prop :=
  match t with
  | TDir _ ch =>
      NoDup (map fst ch) /\
      (fix all (ch : list (bytes * tree)) : Prop :=
         match ch with [] => True | (_, c) :: r => unique_tree c /\ all r end) ch
  | TDev _ r => r < 2 ^ 32
  | _ => True
  end.

Lemma unique_tree_dir a ch :
  unique_tree (TDir a ch) <-> NoDup (map fst ch) /\ Forall (fun p => unique_tree (snd p)) ch.
Proof.
  cbn [unique_tree].
  assert (H : forall ch, (fix all (ch : list (bytes * tree)) : Prop :=
                            match ch with [] => True | (_, c) :: r => unique_tree c /\ all r end) ch
                         <-> Forall (fun p => unique_tree (snd p)) ch).
  { clear. induction ch as [|[nm c] r IH]; [split; [constructor|trivial]|].
    split.
    - intros (Hc & Hr). constructor; [exact Hc|apply IH; exact Hr].
    - intros Hf. inversion Hf as [|? ? Hc Hr]; subst. split; [exact Hc|apply IH; exact Hr]. }
  rewrite H. tauto.
Qed.

Lemma nodes_shift nm : forall c p, nodes_of (nm :: p) c = map (shift_node [nm]) (nodes_of p c).
Proof.
  induction c as [a ch IH|a d|a tg|a r|a] using tree_ind'; intros p; cbn [nodes_of map shift_node app]; try reflexivity.
  f_equal. induction ch as [|[k c] r IHr]; [reflexivity|].
  inversion IH as [|? ? Hc Hr]; subst. cbn [flat_map snd] in *. rewrite map_app. f_equal.
  - apply (Hc (p ++ [k])).
  - apply IHr, Hr.
Qed.

Lemma nodes_paths_nonempty : forall c p, p <> [] -> Forall (fun n => node_path n <> []) (nodes_of p c).
Proof.
  induction c as [a ch IH|a d|a tg|a r|a] using tree_ind'; intros p Hp; cbn [nodes_of];
    try (constructor; [exact Hp|constructor]); try constructor; [exact Hp|].
  induction ch as [|[k c] r IHr]; [constructor|].
  inversion IH as [|? ? Hc Hr]; subst. cbn [flat_map snd] in *. apply Forall_app. split.
  - apply Hc. destruct p; discriminate.
  - apply IHr, Hr.
Qed.

Lemma untar_app pr o : forall a b s, untar pr o (a ++ b) s = (dof s1 <- untar pr o a s; untar pr o b s1).
Proof.
  induction a as [|n a IH]; intros b s; [reflexivity|].
  cbn [app untar]. destruct (untar_node pr o n s); cbn [bindf]; [apply IH|reflexivity].
Qed.

Section Nodes.
Variables (pr : proc) (o : lopts).

Definition touched (m : fmeta) : fmeta := set_mtime m Now.

Lemma in_dir_fresh nm g m ents : assoc nm ents = None ->
  in_dir nm g (FDir m ents) =
    match g m None with
    | FErr e => FErr e
    | FOk (Some n, t) => FOk (FDir (if t then touched m else m) (ents ++ [(nm, n)]))
    | FOk (None, t) => FOk (FDir (if t then touched m else m) ents)
    end.
Proof.
  intros Hf. cbn [in_dir]. rewrite Hf. destruct (g m None) as [[[n|] t]|e]; try reflexivity;
    rewrite (upd_ents_fresh _ nm ents Hf); reflexivity.
Qed.

Lemma entry_op_single nm g s : entry_op [nm] g s = in_dir nm g s.
Proof. reflexivity. Qed.

Definition exp_kids (ch : list (bytes * tree)) : list (bytes * fnode) :=
  flat_map (fun p => match p with (nm, c) => match expect pr o c with Some n => [(nm, n)] | None => [] end end) ch.

Lemma expect_dir a ch :
  expect pr o (TDir a ch) =
  Some (FDir (mkFMeta (exp_perm pr o a 511) (fst (exp_owner pr o a)) (snd (exp_owner pr o a))
                      (match exp_kids ch with [] => exp_time a | _ => Now end) (exp_xattrs o a)) (exp_kids ch)).
Proof. cbn [expect]. fold (exp_kids ch). destruct (exp_owner pr o a). reflexivity. Qed.

Lemma expect_file a d :
  expect pr o (TFile a d) =
  Some (FFile (mkFMeta (exp_perm pr o a 438) (fst (exp_owner pr o a)) (snd (exp_owner pr o a)) (exp_time a) (exp_xattrs o a)) d).
Proof. cbn [expect]. destruct (exp_owner pr o a). reflexivity. Qed.

Definition result_dir (m : fmeta) (ents : list (bytes * fnode)) (nm : bytes) (oe : option fnode) : fnode :=
  match oe with
  | Some e => FDir (touched m) (ents ++ [(nm, e)])
  | None => FDir m ents
  end.

Definition node_local (c : tree) : Prop :=
  wf_tree c -> unique_tree c -> forall m ents nm, assoc nm ents = None -> dir_inv pr o m ->
  untar pr o (nodes_of [nm] c) (FDir m ents) = FOk (result_dir m ents nm (expect pr o c)).

Lemma touched_twice m : touched (touched m) = touched m.
Proof. reflexivity. Qed.

Lemma kids_local : forall ch,
  Forall (fun p => node_local (snd p)) ch -> wf_kids ch -> Forall (fun p => unique_tree (snd p)) ch ->
  NoDup (map fst ch) ->
  forall m ents, (forall k, In k (map fst ch) -> assoc k ents = None) -> dir_inv pr o m ->
  untar pr o (kids_nodes [] ch) (FDir m ents) =
  FOk (FDir (match exp_kids ch with [] => m | _ => touched m end) (ents ++ exp_kids ch)).
Proof.
  induction ch as [|[k c] r IH]; intros Hloc Hwf Hun Hnd m ents Hfr Hinv.
  - cbn [kids_nodes flat_map exp_kids untar]. now rewrite app_nil_r.
  - inversion Hloc as [|? ? Hc Hlr]; subst. inversion Hwf as [|? ? [Hgn Hwc] Hwr]; subst.
    inversion Hun as [|? ? Huc Hur]; subst. cbn [map fst] in Hnd. inversion Hnd as [|? ? Hk Hndr]; subst.
    cbn [snd fst] in *.
    change (kids_nodes [] ((k, c) :: r)) with (nodes_of [k] c ++ kids_nodes [] r).
    rewrite untar_app. rewrite (Hc Hwc Huc m ents k (Hfr k (or_introl eq_refl)) Hinv). cbn [bindf].
    unfold exp_kids. cbn [flat_map]. fold (exp_kids r).
    destruct (expect pr o c) as [e|]; cbn [result_dir app].
    + rewrite (IH Hlr Hwr Hur Hndr (touched m) (ents ++ [(k, e)])).
      * rewrite <- app_assoc. cbn [app]. destruct (exp_kids r); reflexivity.
      * intros k' Hk'. rewrite assoc_snoc_other; [apply Hfr; right; exact Hk'|].
        intros ->. exact (Hk Hk').
      * exact Hinv.
    + apply (IH Hlr Hwr Hur Hndr m ents); [|exact Hinv]. intros k' Hk'. apply Hfr. right. exact Hk'.
Qed.

Lemma kids_nodes_shift nm ch : kids_nodes [nm] ch = map (shift_node [nm]) (kids_nodes [] ch).
Proof.
  induction ch as [|[k c] r IH]; [reflexivity|].
  change (kids_nodes [nm] ((k, c) :: r)) with (nodes_of [nm; k] c ++ kids_nodes [nm] r).
  change (kids_nodes [] ((k, c) :: r)) with (nodes_of [k] c ++ kids_nodes [] r).
  rewrite map_app, IH. f_equal. apply nodes_shift.
Qed.

Lemma kids_nodes_nonempty ch : Forall (fun n => node_path n <> []) (kids_nodes [] ch).
Proof.
  induction ch as [|[k c] r IH]; [constructor|].
  change (kids_nodes [] ((k, c) :: r)) with (nodes_of [k] c ++ kids_nodes [] r).
  apply Forall_app. split; [apply nodes_paths_nonempty; discriminate|exact IH].
Qed.

Lemma expect_link a tg :
  expect pr o (TLink a tg) =
  Some (FLink (mkFMeta 511 (fst (exp_owner pr o a)) (snd (exp_owner pr o a)) (exp_time a) (exp_xattrs o a)) tg).
Proof. cbn [expect]. destruct (exp_owner pr o a). reflexivity. Qed.

Definition exp_dev_perm (a : attrs) : N :=
  let p0 := N.ldiff (N.land (N.lor (perm_of a) 438) 4095) (p_umask pr) in
  let p1 := if no_same_owner o then p0 else chown_clear (FFile (mkFMeta 0 0 0 Now []) []) p0 in
  if no_same_permissions o then p1 else perm_of a.

Lemma expect_dev a r :
  expect pr o (TDev a r) =
  Some (FDev (mkFMeta (exp_dev_perm a) (fst (exp_owner pr o a)) (snd (exp_owner pr o a)) (exp_time a) (exp_xattrs o a))
             (N.land (t_mode a) S_IFMT =? S_IFCHR) r).
Proof. cbn [expect]. destruct (exp_owner pr o a). reflexivity. Qed.

Lemma land_lor_type x : N.land (N.lor x 438) S_IFMT = N.land x S_IFMT.
Proof. rewrite N.land_lor_distr_l. change (N.land 438 S_IFMT) with 0. apply N.lor_0_r. Qed.

Lemma land_lor_perm x : N.land (N.lor x 438) 4095 = N.land (N.lor (N.land x 4095) 438) 4095.
Proof.
  rewrite !N.land_lor_distr_l. rewrite <- N.land_assoc. change (N.land 4095 4095) with 4095. reflexivity.
Qed.

(* devices: mknod(mode|0666), then chown, xattrs, chmod, utimes *)
Lemma apply_perms_dev a pm chr r :
  wf_attrs a -> dir_inv pr o pm ->
  apply_perms o (FDev (fresh pr pm false (N.lor (t_mode a) 438)) chr r) (meta_of a) (xs_of a) (fresh pr pm false (N.lor (t_mode a) 438)) =
  mkFMeta (exp_dev_perm a) (fst (exp_owner pr o a)) (snd (exp_owner pr o a)) (exp_time a) (exp_xattrs o a).
Proof.
  intros Ha [Hi1 _]. unfold apply_perms, exp_dev_perm, exp_owner, exp_time, exp_xattrs, meta_chown.
  rewrite (chmod_of_attrs a Ha).
  unfold fresh. cbn [andb meta_of m_uid m_gid m_mtime fm_perm]. rewrite (land_lor_perm (t_mode a)). fold (perm_of a).
  destruct (no_same_owner o) eqn:Eo; try rewrite (Hi1 eq_refl); destruct (no_same_permissions o); destruct (t_mtime a =? 0);
    cbn [set_perm set_owner set_xattrs set_mtime fm_perm fm_uid fm_gid fm_mtime fm_xattrs fst snd chown_clear];
    rewrite ?ins_all_xs; reflexivity.
Qed.

(* the tail of CreateSymlink is SetFilePermissions without the chmod, then the times *)
Lemma link_tail p mt xs s1 :
  (dof s2 <- (if no_same_owner o then FOk s1
              else dof s2 <- chown p (m_uid mt) (m_gid mt) s1; set_all_xattrs p xs s2);
   set_times p mt s2) =
  (dof s2 <- set_permissions (mkLopts (no_same_owner o) true) p mt xs s1; set_times p mt s2).
Proof.
  unfold set_permissions. cbn [no_same_owner no_same_permissions].
  destruct (no_same_owner o); cbn [bindf]; [reflexivity|].
  destruct (chown p (m_uid mt) (m_gid mt) s1) as [s'|e]; cbn [bindf]; [|reflexivity].
  destruct (set_all_xattrs p xs s') as [s''|e]; reflexivity.
Qed.

Lemma apply_perms_link a pm tg :
  dir_inv pr o pm ->
  apply_perms (mkLopts (no_same_owner o) true) (FLink (mkFMeta 511 (p_uid pr) (inherit_gid pr pm) Now []) tg)
              (meta_of a) (xs_of a) (mkFMeta 511 (p_uid pr) (inherit_gid pr pm) Now []) =
  mkFMeta 511 (fst (exp_owner pr o a)) (snd (exp_owner pr o a)) (exp_time a) (exp_xattrs o a).
Proof.
  intros [Hi1 _]. unfold apply_perms, exp_owner, exp_time, exp_xattrs, meta_chown.
  cbn [no_same_owner no_same_permissions meta_of m_uid m_gid m_mtime fm_perm].
  change (chown_clear (FLink (mkFMeta 511 (p_uid pr) (inherit_gid pr pm) Now []) tg) 511) with 511.
  destruct (no_same_owner o) eqn:Eo; try rewrite (Hi1 eq_refl); destruct (t_mtime a =? 0);
    cbn [set_perm set_owner set_xattrs set_mtime fm_perm fm_uid fm_gid fm_mtime fm_xattrs fst snd];
    rewrite ?ins_all_xs; reflexivity.
Qed.

Lemma node_local_all : forall c, node_local c.
Proof.
  induction c as [a ch IH|a d|a tg|a r|a] using tree_ind'; intros Hwf Hun m ents nm Hf Hinv.
  - (* directory *)
    apply wf_tree_dir in Hwf. destruct Hwf as (Ha & Hty & Hlen & Hk).
    apply unique_tree_dir in Hun. destruct Hun as (Hnd & Huk).
    cbn [nodes_of]. fold (kids_nodes [nm] ch). cbn [untar untar_node].
    (* CreateDir: nothing there, mkdir, permissions, times *)
    assert (Hcreate : create_dir pr o [nm] (meta_of a) (xs_of a) (FDir m ents) =
                      FOk (child (touched m) ents nm
                             (FDir (mkFMeta (exp_perm pr o a 511) (fst (exp_owner pr o a)) (snd (exp_owner pr o a))
                                            (exp_time a) (exp_xattrs o a)) []))).
    { unfold create_dir, lstat. cbn [lookup]. rewrite Hf. unfold mkdir. rewrite entry_op_single, (in_dir_fresh nm _ m ents Hf).
      cbn [bindf]. fold (child (touched m) ents nm (FDir (fresh pr m true 511) [])).
      rewrite (perms_child (touched m) ents nm o (meta_of a) (xs_of a) _ Hf).
      cbn [fmeta_of with_meta]. rewrite (apply_perms_fresh pr o _ a m true 511 Ha ltac:(reflexivity) Hinv). reflexivity. }
    rewrite Hcreate. cbn [bindf].
    rewrite kids_nodes_shift.
    rewrite (localf_untar (touched m) ents nm Hf pr o _ (kids_nodes_nonempty ch)).
    rewrite (kids_local ch IH Hk Huk Hnd); [|intros; reflexivity|apply dir_inv_expected].
    cbn [lift_child app]. rewrite expect_dir. unfold result_dir, child.
    destruct (exp_kids ch); reflexivity.
  - (* file *)
    destruct Hwf as (Ha & Hty & Hs). cbn [nodes_of untar untar_node].
    unfold create_file, remove_all, create_write. rewrite entry_op_single, (in_dir_fresh nm _ m ents Hf). cbn [bindf].
    rewrite entry_op_single, (in_dir_fresh nm _ m ents Hf). cbn [bindf].
    fold (child (touched m) ents nm (FFile (fresh pr m false 438) d)).
    rewrite (perms_child (touched m) ents nm o (meta_of a) (xs_of a) _ Hf). cbn [bindf fmeta_of with_meta].
    rewrite (apply_perms_fresh pr o _ a m false 438 Ha ltac:(reflexivity) Hinv).
    rewrite expect_file. reflexivity.
  - (* symlink *)
    destruct Hwf as (Ha & Hty & Hs). cbn [nodes_of untar untar_node].
    unfold create_symlink, unlink_if_there, unlink, symlink.
    rewrite entry_op_single, (in_dir_fresh nm _ m ents Hf). cbn [bindf].
    rewrite entry_op_single, (in_dir_fresh nm _ m ents Hf). cbn [bindf].
    fold (child (touched m) ents nm (FLink (mkFMeta 511 (p_uid pr) (inherit_gid pr m) Now []) tg)).
    rewrite link_tail.
    rewrite (perms_child (touched m) ents nm _ (meta_of a) (xs_of a) _ Hf). cbn [bindf fmeta_of with_meta].
    rewrite (apply_perms_link a m tg Hinv). rewrite expect_link. reflexivity.
  - (* device *)
    destruct Hwf as (Ha & Hty). cbn [unique_tree] in Hun. cbn [nodes_of untar untar_node].
    unfold create_device, unlink_if_there, unlink, mknod.
    rewrite entry_op_single, (in_dir_fresh nm _ m ents Hf). cbn [bindf].
    rewrite entry_op_single, (in_dir_fresh nm _ m ents Hf).
    rewrite (statmode_of_attrs a Ha), (land_lor_type (t_mode a)).
    assert (Hdev : (N.land (t_mode a) S_IFMT =? S_IFCHR) || (N.land (t_mode a) S_IFMT =? S_IFBLK) = true).
    { destruct Hty as [E|E]; unfold type_is in E; rewrite E; reflexivity. }
    rewrite Hdev. cbn [bindf]. rewrite (mkdev_split r Hun).
    fold (child (touched m) ents nm (FDev (fresh pr m false (N.lor (t_mode a) 438)) (N.land (t_mode a) S_IFMT =? S_IFCHR) r)).
    rewrite (perms_child (touched m) ents nm o (meta_of a) (xs_of a) _ Hf). cbn [bindf fmeta_of with_meta].
    rewrite (apply_perms_dev a m _ _ Ha Hinv). rewrite expect_dev. reflexivity.
  - cbn [nodes_of untar expect result_dir]. reflexivity.
Qed.

(* ---------- CreateFile does not depend on what was at the path ---------- *)

Lemma in_dir_last nm g m ents old : assoc nm ents = None ->
  in_dir nm g (FDir m (ents ++ [(nm, old)])) =
    match g m (Some old) with
    | FErr e => FErr e
    | FOk (Some n, t) => FOk (FDir (if t then touched m else m) (ents ++ [(nm, n)]))
    | FOk (None, t) => FOk (FDir (if t then touched m else m) ents)
    end.
Proof.
  intros Hf. cbn [in_dir]. rewrite (assoc_snoc nm ents old Hf).
  destruct (g m (Some old)) as [[[n|] t]|e]; try reflexivity;
    rewrite (upd_ents_snoc _ nm ents old Hf); reflexivity.
Qed.

(* os.RemoveAll first: whatever object [old] sits at the path -- a file with other content, other
   xattrs, other links, a directory with children, a symlink, a device -- CreateFile leaves the same
   directory as when nothing was there *)
Theorem create_file_independent m ents nm old mt xs data :
  assoc nm ents = None ->
  create_file pr o [nm] mt xs data (FDir m (ents ++ [(nm, old)])) =
  create_file pr o [nm] mt xs data (FDir m ents).
Proof.
  intros Hf. unfold create_file, remove_all, create_write.
  rewrite entry_op_single, (in_dir_last nm _ m ents old Hf). cbn [bindf].
  rewrite (entry_op_single nm _ (FDir m ents)), (in_dir_fresh nm _ m ents Hf). cbn [bindf].
  rewrite !entry_op_single, !(in_dir_fresh nm _ _ ents Hf). reflexivity.
Qed.

End Nodes.

(* ---------- Part E: the whole tree ---------- *)

Section Whole.
Variables (pr : proc) (o : lopts).

(* UnTar of the nodes of a directory tree into a new, empty directory leaves exactly [expect] *)
Theorem untar_result a ch :
  wf_tree (TDir a ch) -> unique_tree (TDir a ch) ->
  exists r, expect pr o (TDir a ch) = Some r /\
            untar pr o (nodes_of [] (TDir a ch)) (empty_root pr) = FOk r.
Proof.
  intros Hwf Hun. rewrite expect_dir. eexists. split; [reflexivity|].
  apply wf_tree_dir in Hwf. destruct Hwf as (Ha & Hty & Hlen & Hk).
  apply unique_tree_dir in Hun. destruct Hun as (Hnd & Huk).
  cbn [nodes_of]. fold (kids_nodes [] ch). cbn [untar untar_node].
  unfold create_dir, lstat, empty_root. cbn [lookup is_fdir bindf].
  rewrite perms_self. cbn [bindf fmeta_of with_meta].
  rewrite (apply_perms_fresh pr o _ a meta_none true 511 Ha ltac:(reflexivity) (dir_inv_none pr o)).
  rewrite (kids_local pr o ch); [| |exact Hk|exact Huk|exact Hnd|intros; reflexivity|apply dir_inv_expected].
  - cbn [app]. destruct (exp_kids pr o ch); reflexivity.
  - clear. induction ch as [|p r IH]; constructor; [apply node_local_all|exact IH].
Qed.

(* tar, the archive bytes, the decoder, the LocalFS writer: end to end in the model *)
Theorem tar_untar_result a ch :
  wf_tree (TDir a ch) -> unique_tree (TDir a ch) ->
  exists b ns r,
    tar_of_tree (TDir a ch) = Some b /\ decode_archive b = Ok (ns, []) /\
    untar pr o ns (empty_root pr) = FOk r /\ expect pr o (TDir a ch) = Some r.
Proof.
  intros Hwf Hun. destruct (archive_roundtrip (TDir a ch) Hwf I) as (b & Eb & Ed).
  destruct (untar_result a ch Hwf Hun) as (r & Ee & Eu).
  exists b, (nodes_of [] (TDir a ch)), r. repeat split; assumption.
Qed.

(* ---------- reading [expect] at a path ---------- *)

(* the subtree of t at path p (first entry of that name) *)
Fixpoint tassoc (nm : bytes) (l : list (bytes * tree)) : option tree :=
  match l with
  | [] => None
  | (k, v) :: r => if FS.bytes_eqb k nm then Some v else tassoc nm r
  end.

Fixpoint tree_at (p : list bytes) (t : tree) : option tree :=
  match p with
  | [] => Some t
  | nm :: rest =>
      match t with
      | TDir _ ch => match tassoc nm ch with Some c => tree_at rest c | None => None end
      | _ => None
      end
  end.

Lemma assoc_exp_kids nm : forall ch, NoDup (map fst ch) ->
  assoc nm (exp_kids pr o ch) = match tassoc nm ch with Some c => expect pr o c | None => None end.
Proof.
  induction ch as [|[k c] r IH]; intros Hnd; [reflexivity|].
  cbn [map fst] in Hnd. inversion Hnd as [|? ? Hk Hr]; subst.
  unfold exp_kids. cbn [flat_map tassoc]. fold (exp_kids pr o r).
  destruct (FS.bytes_eqb k nm) eqn:E.
  - apply FS.bytes_eqb_eq in E. subst k.
    destruct (expect pr o c) as [e|]; cbn [app assoc].
    + now rewrite FS.bytes_eqb_refl.
    + (* skipped: no later entry has this name *)
      rewrite (IH Hr). destruct (tassoc nm r) as [c'|] eqn:Et; [|reflexivity].
      exfalso. apply Hk. clear -Et. induction r as [|[k' c''] r IHr]; [discriminate|].
      cbn [tassoc] in Et. cbn [map fst In]. destruct (FS.bytes_eqb k' nm) eqn:E'.
      * left. now apply FS.bytes_eqb_eq.
      * right. apply IHr, Et.
  - destruct (expect pr o c) as [e|]; cbn [app assoc]; [rewrite E|]; apply IH, Hr.
Qed.

(* every archived object of the source is found at its path, as [expect] describes it *)
Lemma lookup_expect : forall p t r c,
  unique_tree t -> expect pr o t = Some r -> tree_at p t = Some c ->
  lookup p r = expect pr o c.
Proof.
  induction p as [|nm rest IH]; intros t r c Hun Ee Et.
  - cbn in Et. inversion Et; subst. cbn [lookup]. now symmetry.
  - destruct t as [a ch| | | |]; cbn [tree_at] in Et; try discriminate.
    apply unique_tree_dir in Hun. destruct Hun as (Hnd & Huk).
    rewrite expect_dir in Ee. inversion Ee; subst r. cbn [lookup].
    rewrite (assoc_exp_kids nm ch Hnd).
    destruct (tassoc nm ch) as [c1|] eqn:Eta; [|discriminate].
    assert (Hu1 : unique_tree c1).
    { clear -Eta Huk. induction ch as [|[k c'] r IHr]; [discriminate|].
      inversion Huk as [|? ? Hc Hr]; subst. cbn [tassoc] in Eta. destruct (FS.bytes_eqb k nm).
      - inversion Eta; subst. exact Hc.
      - apply IHr; assumption. }
    destruct (expect pr o c1) as [e1|] eqn:E1.
    + apply (IH c1 e1 c Hu1 E1 Et).
    + (* a fifo or socket has nothing below it *)
      destruct c1; cbn [expect] in E1; try (destruct (exp_owner pr o a0); discriminate).
      destruct rest; cbn [tree_at] in Et; [|discriminate]. inversion Et; subst. reflexivity.
Qed.

End Whole.

(* ---------- Part F: what is restored and what is not ---------- *)

Section Restored.
Variable pr : proc.

Definition default_opts : lopts := mkLopts false false.

Definition meta_restored (a : attrs) (m : fmeta) : Prop :=
  fm_perm m = perm_of a /\ fm_uid m = t_uid a /\ fm_gid m = t_gid a /\ fm_xattrs m = sort_xattrs (t_xattrs a).

(* same kind; permission, set-id and sticky bits, owner, xattrs; content, target, device number *)
Definition restored (c : tree) (e : fnode) : Prop :=
  match c, e with
  | TDir a _, FDir m _ => meta_restored a m
  | TFile a d, FFile m d' => meta_restored a m /\ d' = d
  | TLink a tg, FLink m tg' =>
      fm_uid m = t_uid a /\ fm_gid m = t_gid a /\ fm_xattrs m = sort_xattrs (t_xattrs a) /\ tg' = tg
  | TDev a r, FDev m chr r' =>
      meta_restored a m /\ r' = r /\ chr = (N.land (t_mode a) S_IFMT =? S_IFCHR)
  | _, _ => False
  end.

Definition has_archived_child (ch : list (bytes * tree)) : Prop :=
  exists nm c, In (nm, c) ch /\ supported_tree c = true.

(* the objects whose mtime the writer sets last and nothing touches afterwards *)
Definition mtime_kept (c : tree) : Prop :=
  t_mtime (tree_attrs c) <> 0 /\
  match c with
  | TFile _ _ | TDev _ _ | TLink _ _ => True
  | TDir _ ch => ~ has_archived_child ch
  | _ => False
  end.

Lemma expect_supported o c : supported_tree c = true -> exists e, expect pr o c = Some e.
Proof.
  destruct c; cbn [supported_tree]; intros H; try discriminate.
  - rewrite expect_dir. eauto.
  - rewrite expect_file. eauto.
  - rewrite expect_link. eauto.
  - rewrite expect_dev. eauto.
Qed.

Lemma exp_kids_nil o ch : exp_kids pr o ch = [] <-> ~ has_archived_child ch.
Proof.
  induction ch as [|[k c] r IH].
  - split; [intros _ (nm & c & [] & _)|reflexivity].
  - unfold exp_kids. cbn [flat_map]. fold (exp_kids pr o r). split.
    + intros E (nm & c' & Hin & Hs).
      destruct (expect pr o c) as [e|] eqn:Ec; [discriminate|]. cbn [app] in E.
      destruct Hin as [Heq|Hin].
      * inversion Heq; subst. destruct (expect_supported o c' Hs) as [e Ee]. congruence.
      * apply (proj1 IH E). exists nm, c'. split; assumption.
    + intros Hno. destruct (expect pr o c) as [e|] eqn:Ec.
      * exfalso. apply Hno. exists k, c. split; [now left|]. destruct c; try reflexivity. discriminate.
      * cbn [app]. apply IH. intros (nm & c' & Hin & Hs). apply Hno. exists nm, c'. split; [now right|exact Hs].
Qed.

Lemma restored_expect c e : expect pr default_opts c = Some e -> restored c e.
Proof.
  destruct c; intros E.
  - rewrite expect_dir in E. inversion E; subst. cbn. repeat split.
  - rewrite expect_file in E. inversion E; subst. cbn. repeat split.
  - rewrite expect_link in E. inversion E; subst. cbn. repeat split.
  - rewrite expect_dev in E. inversion E; subst. cbn. repeat split.
  - discriminate.
Qed.

Lemma mtime_expect c e :
  expect pr default_opts c = Some e -> mtime_kept c -> fm_mtime (fmeta_of e) = Stamp (t_mtime (tree_attrs c)).
Proof.
  intros E [Hnz Hk]. assert (Ht : exp_time (tree_attrs c) = Stamp (t_mtime (tree_attrs c))).
  { unfold exp_time. destruct (t_mtime (tree_attrs c) =? 0) eqn:Ez; [apply N.eqb_eq in Ez; contradiction|reflexivity]. }
  destruct c; try contradiction.
  - rewrite expect_dir in E. inversion E; subst. cbn [fmeta_of fm_mtime tree_attrs] in *.
    apply (exp_kids_nil default_opts) in Hk. rewrite Hk. exact Ht.
  - rewrite expect_file in E. inversion E; subst. exact Ht.
  - rewrite expect_link in E. inversion E; subst. exact Ht.
  - rewrite expect_dev in E. inversion E; subst. exact Ht.
Qed.

(* Everything the archive carries is put back -- at the right path, with the right type,
   permission/set-id/sticky bits, owner, xattrs, content, link target and device number -- and
   the mtime of every file, device and directory without archived children (unless it is the
   epoch).  End to end in the model: tar(), encoder, decoder, ArchiveDecoder.Next, LocalFS. *)
Theorem untar_restores a ch :
  wf_tree (TDir a ch) -> unique_tree (TDir a ch) ->
  exists b ns r,
    tar_of_tree (TDir a ch) = Some b /\ decode_archive b = Ok (ns, []) /\
    untar pr default_opts ns (empty_root pr) = FOk r /\
    forall p c, tree_at p (TDir a ch) = Some c -> supported_tree c = true ->
      exists e, lookup p r = Some e /\ restored c e /\
                (mtime_kept c -> fm_mtime (fmeta_of e) = Stamp (t_mtime (tree_attrs c))).
Proof.
  intros Hwf Hun. destruct (tar_untar_result pr default_opts a ch Hwf Hun) as (b & ns & r & Eb & Ed & Eu & Ee).
  exists b, ns, r. repeat split; try assumption.
  intros p c Hat Hs. destruct (expect_supported default_opts c Hs) as [e Ec].
  exists e. rewrite (lookup_expect pr default_opts p _ r c Hun Ee Hat).
  split; [exact Ec|]. split; [apply restored_expect; exact Ec|apply mtime_expect; exact Ec].
Qed.

(* ---------- the defects, for every tree that has such an object ---------- *)

(* the run of the previous theorem, for any options *)
Definition unpacked (o : lopts) (t : tree) (r : fnode) : Prop :=
  exists b ns, tar_of_tree t = Some b /\ decode_archive b = Ok (ns, []) /\ untar pr o ns (empty_root pr) = FOk r.

Lemma unpacked_expect o a ch r :
  wf_tree (TDir a ch) -> unique_tree (TDir a ch) -> unpacked o (TDir a ch) r -> expect pr o (TDir a ch) = Some r.
Proof.
  intros Hwf Hun (b & ns & Eb & Ed & Eu).
  destruct (tar_untar_result pr o a ch Hwf Hun) as (b' & ns' & r' & Eb' & Ed' & Eu' & Ee').
  rewrite Eb in Eb'. inversion Eb'; subst b'. rewrite Ed in Ed'. inversion Ed'; subst ns'.
  rewrite Eu in Eu'. inversion Eu'; subst r'. exact Ee'.
Qed.

(* a directory with at least one archived child comes back with the time of extraction *)
Theorem dir_mtime_lost o a ch r p a' ch' :
  wf_tree (TDir a ch) -> unique_tree (TDir a ch) -> unpacked o (TDir a ch) r ->
  tree_at p (TDir a ch) = Some (TDir a' ch') -> has_archived_child ch' ->
  exists m ents, lookup p r = Some (FDir m ents) /\ fm_mtime m = Now.
Proof.
  intros Hwf Hun Hr Hat Hk. pose proof (unpacked_expect o a ch r Hwf Hun Hr) as Ee.
  rewrite (lookup_expect pr o p _ r _ Hun Ee Hat), expect_dir.
  eexists _, _. split; [reflexivity|]. cbn [fm_mtime].
  destruct (exp_kids pr o ch') eqn:E; [|reflexivity].
  exfalso. apply (proj1 (exp_kids_nil o ch') E). exact Hk.
Qed.

(* a symlink comes back with its own mtime (since "fix: untar restores the modification time of
   symlinks"; before it, every link kept the time of extraction: see untar_prefix) *)
Theorem symlink_mtime_restored o a ch r p a' tg :
  wf_tree (TDir a ch) -> unique_tree (TDir a ch) -> unpacked o (TDir a ch) r ->
  tree_at p (TDir a ch) = Some (TLink a' tg) -> t_mtime a' <> 0 ->
  exists m, lookup p r = Some (FLink m tg) /\ fm_mtime m = Stamp (t_mtime a').
Proof.
  intros Hwf Hun Hr Hat Hnz. pose proof (unpacked_expect o a ch r Hwf Hun Hr) as Ee.
  rewrite (lookup_expect pr o p _ r _ Hun Ee Hat), expect_link. eexists. split; [reflexivity|].
  cbn [fm_mtime]. unfold exp_time. destruct (t_mtime a' =? 0) eqn:E; [apply N.eqb_eq in E; contradiction|reflexivity].
Qed.

(* an object whose mtime is the epoch comes back with the time of extraction *)
Theorem epoch_mtime_lost o a ch r p c :
  wf_tree (TDir a ch) -> unique_tree (TDir a ch) -> unpacked o (TDir a ch) r ->
  tree_at p (TDir a ch) = Some c -> supported_tree c = true -> t_mtime (tree_attrs c) = 0 ->
  exists e, lookup p r = Some e /\ fm_mtime (fmeta_of e) = Now.
Proof.
  intros Hwf Hun Hr Hat Hs Hz. pose proof (unpacked_expect o a ch r Hwf Hun Hr) as Ee.
  rewrite (lookup_expect pr o p _ r _ Hun Ee Hat).
  assert (Ht : exp_time (tree_attrs c) = Now) by (unfold exp_time; rewrite Hz; reflexivity).
  destruct c; try discriminate; cbn [tree_attrs] in Ht.
  - rewrite expect_dir. eexists. split; [reflexivity|]. cbn [fmeta_of fm_mtime]. rewrite Ht. destruct (exp_kids pr o children); reflexivity.
  - rewrite expect_file. eexists. split; [reflexivity|]. exact Ht.
  - rewrite expect_link. eexists. split; [reflexivity|]. exact Ht.
  - rewrite expect_dev. eexists. split; [reflexivity|]. exact Ht.
Qed.

(* --no-same-owner: no extended attribute is restored *)
Theorem no_same_owner_drops_xattrs nsp a ch r p c :
  wf_tree (TDir a ch) -> unique_tree (TDir a ch) -> unpacked (mkLopts true nsp) (TDir a ch) r ->
  tree_at p (TDir a ch) = Some c -> supported_tree c = true ->
  exists e, lookup p r = Some e /\ fm_xattrs (fmeta_of e) = [].
Proof.
  intros Hwf Hun Hr Hat Hs. pose proof (unpacked_expect _ a ch r Hwf Hun Hr) as Ee.
  rewrite (lookup_expect pr _ p _ r _ Hun Ee Hat).
  destruct c; try discriminate.
  - rewrite expect_dir. eexists. split; reflexivity.
  - rewrite expect_file. eexists. split; reflexivity.
  - rewrite expect_link. eexists. split; reflexivity.
  - rewrite expect_dev. eexists. split; reflexivity.
Qed.

End Restored.

(* ---------- fifos and sockets: the result is that of the tree without them ---------- *)

Lemma expect_prune pr o : forall t, expect pr o (prune t) = expect pr o t.
Proof.
  induction t as [a ch IH|a d|a tg|a r|a] using tree_ind'; try reflexivity.
  cbn [prune]. rewrite !expect_dir.
  assert (Hk : exp_kids pr o (flat_map (fun p => match p with (nm, c) => if archived c then [(nm, prune c)] else [] end) ch)
               = exp_kids pr o ch).
  { induction ch as [|[nm c] r IHr]; [reflexivity|].
    inversion IH as [|? ? Hc Hr]; subst. cbn [snd] in Hc. cbn [flat_map].
    unfold exp_kids at 2. cbn [flat_map]. fold (exp_kids pr o r).
    destruct (archived c) eqn:Ea.
    - cbn [app]. unfold exp_kids at 1. cbn [flat_map]. rewrite Hc.
      change (flat_map _ (flat_map _ r)) with
        (exp_kids pr o (flat_map (fun p => match p with (nm, c) => if archived c then [(nm, prune c)] else [] end) r)).
      rewrite (IHr Hr). reflexivity.
    - destruct c; try discriminate. cbn [app expect]. apply IHr, Hr. }
  rewrite Hk. reflexivity.
Qed.

Theorem fifos_left_out t : tar_of_tree (prune t) = tar_of_tree t /\ nodes_of [] (prune t) = nodes_of [] t.
Proof. split; [apply tar_of_tree_prune|apply nodes_of_prune]. Qed.

(* ---------- a concrete tree (used by the Examples of Props/C05.v) ---------- *)

Definition witness_tree : tree :=
  TDir (mkAttrs 16877 0 0 1000 [([117; 46; 98], [1]); ([117; 46; 97], [2; 0; 3])])
    [ ([97], TFile (mkAttrs 35309 1000 4000000000 5 []) [1; 2; 3]);
      ([98], TLink (mkAttrs 41471 7 8 9 []) [47; 120]);
      ([99], TDir (mkAttrs 17407 1 2 7 []) []);
      ([100], TFile (mkAttrs 33188 0 0 0 []) []);
      ([101], TDev (mkAttrs 8612 0 0 3 []) 1283) ].


Lemma witness_wf : wf_tree witness_tree /\ unique_tree witness_tree /\ root_ok witness_tree.
Proof.
  assert (Hx : forall kv : bytes * bytes, ~ In 0 (fst kv) -> lenN (fst kv) < 2 ^ 61 -> lenN (snd kv) < 2 ^ 61 -> wf_xattr kv)
    by (intros kv H1 H2 H3; repeat split; assumption).
  assert (Ha : forall m u g t xs, m < 2 ^ 16 -> valid_type (N.land m S_IFMT) = true -> u < two64 -> g < two64 ->
                 t < two64 -> Forall wf_xattr xs -> wf_attrs (mkAttrs m u g t xs))
    by (intros; constructor; assumption).
  split; [|split; [|exact I]].
  - cbn [wf_tree witness_tree]. unfold type_is, good_name, small. cbn [t_mode].
    repeat split; try (apply Ha); try reflexivity; try constructor; try (apply Hx); try reflexivity;
      try constructor; try (apply Hx); try reflexivity; try constructor; try (left; reflexivity);
      cbn; intuition discriminate.
  - cbn [unique_tree witness_tree map fst]. repeat split; try reflexivity.
    repeat constructor; cbn; try (intuition discriminate).
    all: try constructor.
Qed.


(* ---------- why CreateFile removes first: the reuse variant keeps what the archive does not have ---------- *)

(* a directory holding the file "a" of an earlier generation: other content, an xattr u=1 *)
Definition reuse_before : fnode :=
  FDir (mkFMeta 493 0 0 (Stamp 1) [])
       [([97], FFile (mkFMeta 420 0 0 (Stamp 1) [([117], [1])]) [9; 9])].

Definition xattrs_of_a (r : fres fnode) : option (list (bytes * bytes)) :=
  match r with
  | FOk n => option_map (fun e => fm_xattrs (fmeta_of e)) (lookup [[97]] n)
  | FErr _ => None
  end.

(* the new generation of "a": content [1], mtime 5, no xattrs *)
Lemma create_file_reuse_refuted :
  let pr := mkProc 0 0 18 in
  let mt := mkMeta 0 0 33188 5 in
  xattrs_of_a (create_file_reuse pr default_opts [[97]] mt [] [1] reuse_before) = Some [([117], [1])] /\
  xattrs_of_a (create_file pr default_opts [[97]] mt [] [1] reuse_before) = Some [].
Proof. vm_compute. split; reflexivity. Qed.

(* ---------- why every new entry is chowned, also to the user who runs the extraction ---------- *)

(* a set-group-ID directory (mode 02775) of group 7; the process is root:root *)
Definition sgid_dir : fnode := FDir (mkFMeta 1533 0 7 (Stamp 1) []) [].

Definition owner_of_a (r : fres fnode) : option (N * N) :=
  match r with
  | FOk n => option_map (fun e => (fm_uid (fmeta_of e), fm_gid (fmeta_of e))) (lookup [[97]] n)
  | FErr _ => None
  end.

(* the file "a" of the archive belongs to 0:0, like the process: created in the set-group-ID directory
   it has the directory's group 7; the chown of the code puts 0 back, the variant that skips the chown
   "because the file is ours anyway" leaves 7 *)
Lemma create_file_lazy_chown_refuted :
  let pr := mkProc 0 0 18 in
  let mt := mkMeta 0 0 33188 5 in
  owner_of_a (create_file_lazy_chown pr [[97]] mt [] [1] sgid_dir) = Some (0, 7) /\
  owner_of_a (create_file pr default_opts [[97]] mt [] [1] sgid_dir) = Some (0, 0).
Proof. vm_compute. split; reflexivity. Qed.
