From Coq Require Import NArith Lia.
From DS Require Import Model.Discriminator.
Local Open Scope N_scope.

Lemma disc_den_pos avg : avg <= disc_avg_limit -> 46375482 * 10 ^ 6 <= disc_den avg.
Proof. unfold disc_den, disc_avg_limit. intros H. change (10 ^ 7) with 10000000. change (10 ^ 6) with 1000000. lia. Qed.

(* In the supported range the discriminator is a positive 32-bit number: the chunker's
   "hash mod discriminator" is well defined and the uint32 conversion does not truncate. *)
Theorem disc_range avg : 2 <= avg -> avg <= disc_avg_limit ->
  1 <= disc_of_avg avg /\ disc_of_avg avg < 2 ^ 32.
Proof.
  intros Hlo Hhi. pose proof (disc_den_pos avg Hhi) as Hd.
  unfold disc_of_avg.
  assert (Hdp : disc_den avg <> 0) by (change (10 ^ 6) with 1000000 in Hd; lia).
  assert (Hup : disc_den avg <= 133237515 * 10 ^ 7) by (unfold disc_den; lia).
  split.
  - apply N.div_le_lower_bound; [exact Hdp|]. change (10 ^ 15) with 1000000000000000. change (10 ^ 7) with 10000000 in Hup. lia.
  - apply N.div_lt_upper_bound; [exact Hdp|]. unfold disc_avg_limit in Hhi.
    change (10 ^ 15) with 1000000000000000. change (10 ^ 6) with 1000000 in Hd. change (2 ^ 32) with 4294967296. nia.
Qed.

(* more average => larger discriminator (fewer cuts): the rule is monotone *)
Theorem disc_monotone a b : a <= b -> b <= disc_avg_limit -> disc_of_avg a <= disc_of_avg b.
Proof.
  intros Hab Hb. assert (Ha : a <= disc_avg_limit) by lia.
  pose proof (disc_den_pos a Ha) as Hda. pose proof (disc_den_pos b Hb) as Hdb.
  change (10 ^ 6) with 1000000 in Hda, Hdb.
  unfold disc_of_avg.
  assert (Hden : disc_den b <= disc_den a) by (unfold disc_den; lia).
  transitivity ((a * 10 ^ 15) / disc_den b).
  - apply N.div_le_compat_l. lia.
  - apply N.div_le_mono; [lia|]. apply N.mul_le_mono_r. exact Hab.
Qed.

Example disc_examples :
  disc_of_avg 65536 = 49535 /\ disc_of_avg 8192 = 6153 /\ disc_of_avg 11136 = 8367 /\ disc_of_avg (153 * 1024) = 119597.
Proof. vm_compute. repeat split. Qed.
