(* ArchiveDecoder.Next (Model/Archive.v) seen from the element level.

   The byte-level model reads elements one by one with the element decoder and keeps at
   most one element it has read ahead in [a_last].  Here the same machine is described on
   the *logical* element stream: what is in [a_last] followed by the elements still
   encoded in the reader.  Reading ahead and stashing is then "not consuming".

     estep        the switch of Next for one element                (= the match in archive_loop)
     lloop/lnext  one call of Next on the logical stream
     lruns        all calls until the end of the stream
     archive_sim  decode_archive (encode_elems es) = Ok (ns, []) whenever lruns [] es ns and
                  the elements are well-formed

   Nothing here is specific to tar(); Proofs/TarProofs.v instantiates it. *)
From Coq Require Import List NArith Arith Bool Lia ZifyN ZifyNat ZifyBool.
From DS Require Import Gen.Constants Base.Bytes Base.LE64 Model.Format Model.Archive Proofs.FormatProofs.
Import ListNotations.
Local Open Scope N_scope.

(* ---------- one element ---------- *)

Inductive step_res :=
| SCont (st : astate) (l : locals)
| SRet (r : option node * astate)
| SErr (e : err).

Definition set_entry l e := mkLocals (Some e) (l_payload l) (l_symlink l) (l_device l) (l_xattrs l) (l_name l).
Definition set_payload l p := mkLocals (l_entry l) (Some p) (l_symlink l) (l_device l) (l_xattrs l) (l_name l).
Definition set_symlink l t := mkLocals (l_entry l) (l_payload l) (Some t) (l_device l) (l_xattrs l) (l_name l).
Definition set_device l d := mkLocals (l_entry l) (l_payload l) (l_symlink l) (Some d) (l_xattrs l) (l_name l).
Definition add_xattr l kv := mkLocals (l_entry l) (l_payload l) (l_symlink l) (l_device l) (l_xattrs l ++ [kv]) (l_name l).
Definition set_name l n := mkLocals (l_entry l) (l_payload l) (l_symlink l) (l_device l) (l_xattrs l) n.

(* after the loop: an entry without a name is accepted only as the first one (a.started) *)
Definition efinish (st : astate) (l : locals) (e : meta) : step_res :=
  match l_name l, a_started st with
  | [], true => SErr InvalidFormat
  | _, _ => SRet (finish_node (mkAState (a_dir st) (a_last st) true) l e)
  end.

Definition estep (st : astate) (l : locals) (c : elem) : step_res :=
  match c with
  | Entry _ _ mode _ uid gid mtime =>
      match l_entry l with
      | Some _ => SErr InvalidFormat
      | None => SCont st (set_entry l (mkMeta uid gid mode mtime))
      end
  | User _ _ | Group _ _ | SELinux _ _ | ACLUser _ _ _ _ | ACLGroup _ _ _ _ | ACLGroupObj _ _
  | ACLDefault _ _ _ _ _ | FCaps _ _ => SCont st l
  | Payload h data =>
      match l_entry l with
      | None => SErr InvalidFormat
      | Some e => efinish st (set_payload l (h_size h, data)) e
      end
  | XAttr _ nv =>
      match l_entry l, split_nul nv with
      | Some _, Some kv => SCont st (add_xattr l kv)
      | _, _ => SErr InvalidFormat
      end
  | Symlink _ target =>
      match l_entry l with
      | None => SErr InvalidFormat
      | Some _ => SCont st (set_symlink l target)
      end
  | Device _ major minor =>
      match l_entry l with
      | None => SErr InvalidFormat
      | Some _ => SCont st (set_device l (major, minor))
      end
  | Filename h name =>
      match l_entry l with
      | Some e => efinish (mkAState (a_dir st) (Some (Filename h name)) (a_started st)) l e
      | None => if bad_name name then SErr InvalidFormat else SCont st (set_name l name)
      end
  | Goodbye h items =>
      match l_entry l with
      | Some e => efinish (mkAState (a_dir st) (Some (Goodbye h items)) (a_started st)) l e
      | None => SCont (mkAState (removelast (a_dir st)) (a_last st) (a_started st)) l
      end
  | Index _ _ _ _ _ | Table _ _ => SErr Unsupported
  end.

Definition fetch (st : astate) : M (option elem * astate) :=
  match a_last st with
  | Some c => ret (Some c, mkAState (a_dir st) None (a_started st))
  | None => do c <- next Fixed; ret (c, st)
  end.

Definition after_fetch (k : astate -> locals -> M (option node * astate)) (l : locals)
                       (c_st : option elem * astate) : M (option node * astate) :=
  match fst c_st with
  | None => ret (None, snd c_st)
  | Some c =>
      match estep (snd c_st) l c with
      | SCont st' l' => k st' l'
      | SRet r => ret r
      | SErr e => fail e
      end
  end.

(* the loop body of Model/Archive.v, re-read through [estep] *)
Lemma finish_efinish st l e s :
  finish st l e s = match efinish st l e with
                    | SRet r => (Ok r, s, 0)
                    | SErr x => (Err x, s, 0)
                    | SCont _ _ => (Err OutOfFuel, s, 0)
                    end.
Proof. unfold finish, efinish. destruct (l_name l); destruct (a_started st); reflexivity. Qed.

Ltac step_cases l :=
  try reflexivity;
  destruct (l_entry l); try reflexivity;
  try (match goal with |- context [split_nul ?x] => destruct (split_nul x) as [[? ?]|] end; reflexivity);
  try (match goal with |- context [bad_name ?x] => destruct (bad_name x) end; reflexivity);
  unfold finish, efinish, ret, fail; cbn [l_name a_started a_dir a_last];
  destruct (l_name l); try reflexivity;
  match goal with |- context [a_started ?x] => destruct (a_started x) end; reflexivity.

Lemma archive_loop_step f st l s :
  archive_loop (S f) st l s = bind (fetch st) (after_fetch (archive_loop f) l) s.
Proof.
  cbn [archive_loop]. unfold fetch, after_fetch, bind.
  destruct (a_last st) as [c|].
  - unfold ret, fail. cbn [fst snd].
    destruct c; cbn [estep]; unfold set_entry, set_payload, set_symlink, set_device, add_xattr, set_name; step_cases l.
  - destruct (next Fixed s) as [[[oc|e|p] s1] a1]; try reflexivity.
    unfold ret, fail. cbn [fst snd].
    destruct oc as [c|]; [|reflexivity].
    destruct c; cbn [estep]; unfold set_entry, set_payload, set_symlink, set_device, add_xattr, set_name; step_cases l.
Qed.

(* ---------- the logical stream ---------- *)

Definition last_list (st : astate) : list elem := match a_last st with Some c => [c] | None => [] end.

(* the decoder state between calls, without the stash: current directory, a.started *)
Inductive lres :=
| LNode (n : node) (d : list bytes) (started : bool) (ls : list elem)
| LEnd
| LErr.

Fixpoint lloop (d : list bytes) (sd : bool) (l : locals) (ls : list elem) : lres :=
  match ls with
  | [] => LEnd
  | c :: r =>
      match estep (mkAState d None sd) l c with
      | SCont st' l' => lloop (a_dir st') (a_started st') l' r
      | SRet (Some n, st') => LNode n (a_dir st') (a_started st') (last_list st' ++ r)
      | SRet (None, _) => LErr
      | SErr _ => LErr
      end
  end.

Definition lnext (d : list bytes) (sd : bool) (ls : list elem) : lres := lloop d sd locals0 ls.

Inductive lruns : list bytes -> bool -> list elem -> list node -> Prop :=
| lruns_end d sd ls : lnext d sd ls = LEnd -> lruns d sd ls []
| lruns_node d sd ls n d' sd' ls' ns : lnext d sd ls = LNode n d' sd' ls' -> lruns d' sd' ls' ns -> lruns d sd ls (n :: ns).

(* ---------- estep facts ---------- *)

Lemma efinish_not_cont st l e st' l' : efinish st l e = SCont st' l' -> False.
Proof. unfold efinish. destruct (l_name l); destruct (a_started st); discriminate. Qed.

Lemma estep_cont_last st l c st' l' : a_last st = None -> estep st l c = SCont st' l' -> a_last st' = None.
Proof.
  intros Hl E. destruct c; cbn [estep] in E;
    try (destruct (l_entry l); try discriminate);
    try (exfalso; eapply efinish_not_cont; exact E);
    try (inversion E; subst; assumption);
    try (destruct (split_nul name_and_value) as [[? ?]|]; try discriminate; inversion E; subst; assumption);
    try (destruct (bad_name name); try discriminate; inversion E; subst; assumption);
    try discriminate.
  all: try (inversion E; subst; cbn; assumption).
Qed.

(* only the directory and a.started matter to estep when nothing is stashed *)
Lemma estep_dir st l c : a_last st = None -> estep st l c = estep (mkAState (a_dir st) None (a_started st)) l c.
Proof. intros Hl. destruct st as [d la sd]. cbn in Hl. subst la. reflexivity. Qed.

(* ---------- byte level = logical level ---------- *)

Lemma encode_elems_cons e es : encode_elems (e :: es) = encode_elem e ++ encode_elems es.
Proof. reflexivity. Qed.

Lemma encode_elems_app a b : encode_elems (a ++ b) = encode_elems a ++ encode_elems b.
Proof. unfold encode_elems. apply flat_map_app. Qed.

Lemma next_at_end : okrun (next Fixed) [] None [].
Proof. exists 0. reflexivity. Qed.

(* the loop with nothing stashed, on the encoding of well-formed elements *)
Lemma loop_sim : forall es fuel st l,
  Forall wf_elem es -> a_last st = None -> (length es < fuel)%nat ->
  match lloop (a_dir st) (a_started st) l es with
  | LNode n d' sd' ls' =>
      exists st' es', okrun (archive_loop fuel st l) (encode_elems es) (Some n, st') (encode_elems es') /\
                      a_dir st' = d' /\ a_started st' = sd' /\ last_list st' ++ es' = ls' /\ Forall wf_elem es'
  | LEnd => exists st', okrun (archive_loop fuel st l) (encode_elems es) (None, st') []
  | LErr => True
  end.
Proof.
  induction es as [|c r IH]; intros fuel st l Hwf Hlast Hfuel.
  - destruct fuel as [|f]; [cbn in Hfuel; lia|]. cbn [lloop].
    exists st. destruct next_at_end as [a E].
    exists (a + 0 + 0). rewrite archive_loop_step. unfold bind, fetch. rewrite Hlast.
    cbn [encode_elems flat_map]. unfold bind. rewrite E. reflexivity.
  - destruct fuel as [|f]; [cbn in Hfuel; lia|]. cbn [length] in Hfuel.
    inversion Hwf as [|? ? Hc Hr]; subst.
    cbn [lloop]. rewrite <- (estep_dir st l c Hlast).
    assert (Hfetch : okrun (fetch st) (encode_elems (c :: r)) (Some c, st) (encode_elems r)).
    { unfold fetch. rewrite Hlast. rewrite encode_elems_cons.
      eapply okrun_bind; [apply next_encode; exact Hc|apply okrun_ret]. }
    destruct (estep st l c) as [st1 l1|[on st1]|e] eqn:Est.
    + pose proof (estep_cont_last _ _ _ _ _ Hlast Est) as Hl1.
      specialize (IH f st1 l1 Hr Hl1 ltac:(lia)).
      destruct (lloop (a_dir st1) (a_started st1) l1 r) as [n d' sd' ls'| |].
      * destruct IH as (st' & es' & Hrun & Hd & Hsd & Hls & Hw). exists st', es'. split; [|auto].
        destruct Hfetch as [a1 E1]. destruct Hrun as [a2 E2]. exists (a1 + a2).
        rewrite archive_loop_step. unfold bind. rewrite E1. unfold after_fetch. cbn [fst snd].
        rewrite Est. rewrite E2. reflexivity.
      * destruct IH as (st' & Hrun). exists st'.
        destruct Hfetch as [a1 E1]. destruct Hrun as [a2 E2]. exists (a1 + a2).
        rewrite archive_loop_step. unfold bind. rewrite E1. unfold after_fetch. cbn [fst snd].
        rewrite Est. rewrite E2. reflexivity.
      * exact I.
    + destruct on as [n|]; [|exact I].
      exists st1, r. split; [|auto].
      destruct Hfetch as [a1 E1]. exists (a1 + 0).
      rewrite archive_loop_step. unfold bind. rewrite E1. unfold after_fetch. cbn [fst snd].
      rewrite Est. reflexivity.
    + exact I.
Qed.

Lemma encode_length es : Forall wf_elem es -> (length es <= length (encode_elems es))%nat.
Proof.
  induction 1 as [|e r He Hr IH]; [cbn; lia|].
  rewrite encode_elems_cons, app_length. cbn [length].
  assert (1 <= length (encode_elem e))%nat; [|lia].
  destruct (next_encode e [] He) as [a E]. rewrite app_nil_r in E.
  destruct (encode_elem e); [|cbn; lia]. cbn in E. discriminate.
Qed.

(* one call of Next, whatever is stashed *)
Lemma next_sim st es :
  Forall wf_elem es ->
  match lnext (a_dir st) (a_started st) (last_list st ++ es) with
  | LNode n d' sd' ls' =>
      exists st' es', okrun (archive_next st) (encode_elems es) (Some n, st') (encode_elems es') /\
                      a_dir st' = d' /\ a_started st' = sd' /\ last_list st' ++ es' = ls' /\ Forall wf_elem es'
  | LEnd => exists st', okrun (archive_next st) (encode_elems es) (None, st') []
  | LErr => True
  end.
Proof.
  intros Hwf. unfold lnext, archive_next, with_input_fuel.
  set (fuel := S (length (encode_elems es))).
  pose proof (encode_length es Hwf) as Hlen.
  unfold last_list. destruct (a_last st) as [c|] eqn:Hlast.
  - (* the stashed element first *)
    cbn [app lloop].
    assert (Hstep : forall s, archive_loop (S fuel) st locals0 s =
                              after_fetch (archive_loop fuel) locals0 (Some c, mkAState (a_dir st) None (a_started st)) s).
    { intros s. rewrite archive_loop_step. unfold bind, fetch. rewrite Hlast. unfold ret.
      destruct (after_fetch (archive_loop fuel) locals0 (Some c, mkAState (a_dir st) None (a_started st)) s) as [[x s'] a].
      reflexivity. }
    unfold after_fetch in Hstep. cbn [fst snd] in Hstep.
    destruct (estep (mkAState (a_dir st) None (a_started st)) locals0 c) as [st1 l1|[on st1]|e] eqn:Est.
    + pose proof (estep_cont_last (mkAState (a_dir st) None (a_started st)) _ _ _ _ eq_refl Est) as Hl1.
      pose proof (loop_sim es fuel st1 l1 Hwf Hl1 ltac:(unfold fuel; lia)) as Hs.
      destruct (lloop (a_dir st1) (a_started st1) l1 es) as [n d' sd' ls'| |].
      * destruct Hs as (st' & es' & Hrun & Hd & Hsd & Hls & Hw). exists st', es'.
        split; [destruct Hrun as [a E]; exists a; rewrite Hstep; exact E|].
        repeat split; assumption.
      * destruct Hs as (st' & Hrun). exists st'. destruct Hrun as [a E]. exists a. rewrite Hstep. exact E.
      * exact I.
    + destruct on as [n|]; [|exact I].
      exists st1, es. split; [exists 0; rewrite Hstep; reflexivity|]. repeat split; auto.
    + exact I.
  - cbn [app].
    pose proof (loop_sim es (S fuel) st locals0 Hwf Hlast ltac:(unfold fuel; lia)) as Hs.
    destruct (lloop (a_dir st) (a_started st) locals0 es) as [n d' sd' ls'| |]; [|exact Hs|exact I].
    destruct Hs as (st' & es' & Hrun & Hd & Hsd & Hls & Hw). exists st', es'. repeat split; assumption.
Qed.

Lemma finish_node_last st l e : a_last (snd (finish_node st l e)) = a_last st.
Proof.
  unfold finish_node. destruct (l_payload l) as [[? ?]|]; [reflexivity|].
  destruct (l_device l) as [[? ?]|]; [reflexivity|]. destruct (l_symlink l); reflexivity.
Qed.

(* a call that returns a node has consumed at least the node's entry element *)
Lemma lloop_shrinks : forall ls d sd l n d' sd' ls',
  lloop d sd l ls = LNode n d' sd' ls' ->
  (length ls' <= length ls)%nat /\ (l_entry l = None -> (length ls' < length ls)%nat).
Proof.
  induction ls as [|c r IH]; intros d sd l n d' sd' ls' E; cbn [lloop] in E; [discriminate|].
  destruct (estep (mkAState d None sd) l c) as [st1 l1|[[n1|] st1]|e] eqn:Est; try discriminate.
  - destruct (IH _ _ _ _ _ _ _ E) as [Hle Hlt]. cbn [length]. split; [lia|].
    intros Hnone.
    destruct (l_entry l1) eqn:E1; [lia|]. specialize (Hlt eq_refl). lia.
  - inversion E; subst. cbn [length]. rewrite app_length.
    (* a return happens only with an entry present *)
    assert (Hent : l_entry l <> None).
    { destruct c; cbn [estep] in Est; destruct (l_entry l); try discriminate;
        try (destruct (split_nul name_and_value) as [[? ?]|]; discriminate);
        try (destruct (bad_name name); discriminate). }
    assert (Hll : (length (last_list st1) <= 1)%nat) by (unfold last_list; destruct (a_last st1); cbn; lia).
    split; [lia|]. intros Hnone. contradiction.
Qed.

Lemma lruns_length : forall d sd ls ns, lruns d sd ls ns -> (length ns <= length ls)%nat.
Proof.
  induction 1 as [d sd ls E|d sd ls n d' sd' ls' ns E Hr IH]; [cbn; lia|].
  unfold lnext in E. destruct (lloop_shrinks _ _ _ _ _ _ _ _ E) as [_ Hlt].
  specialize (Hlt eq_refl). cbn [length]. lia.
Qed.

Lemma all_loop_sim : forall ns st es fuel acc,
  Forall wf_elem es -> lruns (a_dir st) (a_started st) (last_list st ++ es) ns -> (length ns < fuel)%nat ->
  okrun (archive_all_loop fuel st acc) (encode_elems es) (rev acc ++ ns) [].
Proof.
  induction ns as [|n ns IH]; intros st es fuel acc Hwf Hruns Hfuel.
  - destruct fuel as [|f]; [cbn in Hfuel; lia|].
    inversion Hruns as [d sd ls E|]; subst.
    pose proof (next_sim st es Hwf) as Hs. rewrite E in Hs. destruct Hs as (st' & Hrun).
    cbn [archive_all_loop]. eapply okrun_bind; [exact Hrun|]. cbn [fst]. rewrite app_nil_r. apply okrun_ret.
  - destruct fuel as [|f]; [cbn in Hfuel; lia|]. cbn [length] in Hfuel.
    inversion Hruns as [|d sd ls n0 d' sd' ls' ns0 E Hr]; subst.
    pose proof (next_sim st es Hwf) as Hs. rewrite E in Hs.
    destruct Hs as (st' & es' & Hrun & Hd & Hsd & Hls & Hw).
    cbn [archive_all_loop]. eapply okrun_bind; [exact Hrun|]. cbn [fst snd].
    replace (rev acc ++ n :: ns) with (rev (n :: acc) ++ ns) by (cbn [rev]; now rewrite <- app_assoc).
    apply IH; [exact Hw| |lia]. rewrite Hd, Hsd, Hls. exact Hr.
Qed.

(* ArchiveDecoder.Next called until it returns nil, on the encoding of well-formed elements *)
Theorem archive_sim es ns :
  Forall wf_elem es -> lruns [] false es ns -> decode_archive (encode_elems es) = Ok (ns, []).
Proof.
  intros Hwf Hruns. unfold decode_archive, run_result, archive_all, with_input_fuel.
  pose proof (lruns_length _ _ _ _ Hruns) as Hl. pose proof (encode_length es Hwf) as He.
  destruct (all_loop_sim ns astate0 es (S (S (length (encode_elems es)))) [] Hwf Hruns ltac:(lia)) as [a E].
  rewrite E. reflexivity.
Qed.
