(* The plan-validate loop of AssembleFile with the seeds' data (Model/Regenerate.v): it ends, after a
   bounded number of attempts, with a plan every file-seed segment of which validates. *)
From Coq Require Import List NArith Arith Bool Lia ZifyN ZifyNat.
From DS Require Import Gen.Constants Base.Bytes Base.Hash Model.Sequencer Model.Regenerate Model.Chunker
  Proofs.SequencerProofs Proofs.ChunkerSpecProofs.
Import ListNotations.

Lemma In_firstn {A} (x : A) : forall n l, In x (firstn n l) -> In x l.
Proof.
  induction n as [|n IH]; intros l Hx; [destruct Hx|]. destruct l as [|y r]; [destruct Hx|].
  cbn [firstn] in Hx. destruct Hx as [->|Hx]; [left; reflexivity|right; apply IH; exact Hx].
Qed.

Lemma nth_error_firstn_lt {A} : forall n (l : list A) j, j < n -> nth_error (firstn n l) j = nth_error l j.
Proof.
  induction n as [|n IH]; intros l j Hj; [lia|]. destruct l as [|x r]; [reflexivity|].
  destruct j as [|j]; [reflexivity|]. cbn. apply IH. lia.
Qed.

Lemma nth_error_skipn_plus {A} : forall a (l : list A) j, nth_error (skipn a l) j = nth_error l (a + j).
Proof.
  induction a as [|a IH]; intros l j; [reflexivity|]. destruct l as [|x r]; [destruct j; reflexivity|]. cbn. apply IH.
Qed.

Lemma forallb_firstn_skipn {A} (f : A -> bool) (l : list A) n p :
  forallb f l = true -> forallb f (firstn n (skipn p l)) = true.
Proof.
  intros Hl. rewrite forallb_forall in *. intros x Hx. apply Hl.
  apply In_firstn in Hx. rewrite <- (firstn_skipn p l). apply in_or_app. right. exact Hx.
Qed.

Section RegenerateProofs.
  Variable H : bytes -> id.
  Variable chunkf : bytes -> list ichunk.

  Notation truly_bad := (truly_bad H).
  Notation nondescr := (nondescr H).
  Notation stale := (stale H).
  Notation vloop := (vloop H chunkf).
  Notation settle_from := (settle_from chunkf).
  Notation settle := (settle chunkf).

  (* ---- a seed reported by Validate is a usable file seed whose index does not describe its data ---- *)
  Lemma tb_is_stale ds idx k :
    In k (truly_bad ds (plan (map fst ds) idx)) ->
    exists s d, nth_error ds k = Some (s, d) /\ nondescr (s, d) = true /\ is_usable_file s = true.
  Proof.
    intros Hin. unfold Regenerate.truly_bad in Hin. apply in_flat_map in Hin. destruct Hin as (c & Hc & Hk).
    destruct (plan_ok_all (map fst ds) idx) as [_ Hf]. rewrite Forall_forall in Hf.
    destruct (Hf c Hc) as (_ & _ & Hs).
    destruct (cd_src c) as [[k' m|k' from to]|]; cbn in Hk; try contradiction.
    destruct (seg_valid H (data_of ds k') m) eqn:Ev; [contradiction|]. destruct Hk as [<-|[]].
    cbn in Hs. destruct Hs as (cr & sidx & Hn & _ & _ & p & Hm).
    rewrite nth_error_map in Hn. unfold data_of in Ev.
    destruct (nth_error ds k') as [[s d]|] eqn:En; cbn in Hn; [|discriminate]. injection Hn as ->.
    exists (SFile cr false sidx), d. split; [reflexivity|]. split; [|reflexivity].
    unfold Regenerate.nondescr. cbn [fst snd orb].
    destruct (seg_valid H d sidx) eqn:Es; [|reflexivity]. exfalso.
    rewrite Hm in Ev. unfold seg_valid in *. rewrite forallb_firstn_skipn in Ev by exact Es. discriminate.
  Qed.

  (* ---- what Validate marks: a non-empty part of the truly bad seeds ---- *)
  Lemma marked_sub tb choice b : In b (marked tb choice) -> In b tb.
  Proof.
    unfold marked. destruct (filter (fun k => existsb (Nat.eqb k) tb) choice) as [|x xs] eqn:Ef.
    - destruct tb as [|t r]; [intros []|]. intros [<-|[]]. left; reflexivity.
    - intros Hb. rewrite <- Ef in Hb. apply filter_In in Hb. destruct Hb as [_ Hb].
      apply existsb_exists in Hb. destruct Hb as (y & Hy & E). apply Nat.eqb_eq in E. subst y. exact Hy.
  Qed.

  Lemma marked_nonempty tb choice : tb <> [] -> exists b, In b (marked tb choice).
  Proof.
    intros Hne. unfold marked. destruct (filter (fun k => existsb (Nat.eqb k) tb) choice) as [|x xs].
    - destruct tb as [|t r]; [congruence|]. exists t. left; reflexivity.
    - exists x. left; reflexivity.
  Qed.

  (* ---- settle keeps the data and the number of seeds ---- *)
  Lemma settle_snd act bad : forall ds i, map snd (settle_from act i bad ds) = map snd ds.
  Proof. induction ds as [|[s d] r IH]; intros i; [reflexivity|]. cbn [settle_from map snd]. f_equal. apply IH. Qed.

  Lemma settle_skip_fst bad : forall ds i, map fst (settle_from Skip i bad ds) = mark_from i bad (map fst ds).
  Proof. induction ds as [|[s d] r IH]; intros i; [reflexivity|]. cbn [settle_from map fst mark_from]. f_equal. apply IH. Qed.

  Definition finished (ds : list dseed) (idx : list ichunk) (o : outcome) : Prop :=
    o_ok o = true /\ o_plan o = plan (map fst (o_seeds o)) idx /\
    truly_bad (o_seeds o) (o_plan o) = [] /\ map snd (o_seeds o) = map snd ds.

  (* InvalidSeedActionSkip: at most (usable file seeds + 1) attempts, and the plan validates *)
  Theorem vloop_skip_terminates idx : forall fuel ds choices,
    dusable ds < fuel ->
    exists o, vloop Skip fuel ds idx choices = Some o /\ finished ds idx o /\ o_attempts o <= dusable ds + 1.
  Proof.
    induction fuel as [|f IH]; intros ds choices Hf; [lia|]. cbn [Regenerate.vloop].
    destruct (truly_bad ds (plan (map fst ds) idx)) as [|t tb] eqn:Etb.
    - eexists; split; [reflexivity|]. unfold finished; cbn. repeat split; [exact Etb|lia].
    - set (bad := marked (t :: tb) (hd [] choices)).
      destruct (marked_nonempty (t :: tb) (hd [] choices) ltac:(discriminate)) as (b & Hb). fold bad in Hb.
      assert (Hbt : In b (truly_bad ds (plan (map fst ds) idx))) by (rewrite Etb; exact (marked_sub _ _ _ Hb)).
      destruct (tb_is_stale ds idx b Hbt) as (s & d & Hn & _ & Hu).
      assert (Hlt : dusable (settle Skip bad ds) < dusable ds).
      { unfold dusable, Regenerate.settle. rewrite settle_skip_fst.
        apply (usable_mark_lt bad (map fst ds) 0 b s); [rewrite nth_error_map, Hn; reflexivity|exact Hu|exact Hb]. }
      destruct (IH (settle Skip bad ds) (tl choices) ltac:(lia)) as (o & E & (H1 & H2 & H3 & H4) & Ha).
      rewrite E. eexists; split; [reflexivity|]. unfold finished; cbn. repeat split; try assumption; [|lia].
      rewrite H4. apply settle_snd.
  Qed.

  (* InvalidSeedActionBailOut: one attempt; it succeeds exactly when nothing in the plan is stale *)
  Theorem vloop_bail idx fuel ds choices :
    exists o, vloop Bail (S fuel) ds idx choices = Some o /\ o_attempts o = 1 /\
      o_plan o = plan (map fst ds) idx /\
      (o_ok o = true <-> truly_bad ds (plan (map fst ds) idx) = []).
  Proof.
    cbn [Regenerate.vloop]. destruct (truly_bad ds (plan (map fst ds) idx)) as [|t tb].
    - eexists; split; [reflexivity|]. cbn. repeat split; reflexivity.
    - eexists; split; [reflexivity|]. cbn. repeat split; intros; discriminate.
  Qed.

  (* ---- what a validated plan gives the workers: every row a file seed provides is, in the seed's
          data, a byte string with the digest the TARGET index asks for at that row ---- *)
  Theorem validated_plan_sources ds idx c k m j :
    truly_bad ds (plan (map fst ds) idx) = [] ->
    In c (plan (map fst ds) idx) -> cd_src c = Some (FromFile k m) -> j < length m ->
    exists sc row, nth_error m j = Some sc /\ nth_error idx (cd_first c + j) = Some row /\
      c_id sc = c_id row /\ chunk_valid H (data_of ds k) sc = true.
  Proof.
    intros Htb Hc Hs Hj.
    destruct (plan_ok_all (map fst ds) idx) as [_ Hf]. rewrite Forall_forall in Hf.
    destruct (Hf c Hc) as (Hfl & Hl & Hok). rewrite Hs in Hok. cbn in Hok.
    destruct Hok as (cr & sidx & _ & Hlen & Hids & _).
    assert (Hv : seg_valid H (data_of ds k) m = true).
    { destruct (seg_valid H (data_of ds k) m) eqn:Ev; [reflexivity|]. exfalso.
      assert (Hin : In k (truly_bad ds (plan (map fst ds) idx))).
      { unfold Regenerate.truly_bad. apply in_flat_map. exists c. split; [exact Hc|]. rewrite Hs, Ev. left; reflexivity. }
      rewrite Htb in Hin. exact Hin. }
    destruct (nth_error m j) as [sc|] eqn:Em; [|apply nth_error_None in Em; lia].
    assert (Hrow : nth_error (firstn (cd_last c + 1 - cd_first c) (skipn (cd_first c) idx)) j
                   = nth_error idx (cd_first c + j)).
    { rewrite nth_error_firstn_lt by lia. apply nth_error_skipn_plus. }
    assert (Hidj : nth_error (ids m) j = nth_error (ids (firstn (cd_last c + 1 - cd_first c) (skipn (cd_first c) idx))) j)
      by (rewrite Hids; reflexivity).
    unfold ids in Hidj. rewrite !nth_error_map, Em, Hrow in Hidj.
    destruct (nth_error idx (cd_first c + j)) as [row|] eqn:Er; [|discriminate].
    cbn in Hidj. injection Hidj as Hid.
    exists sc, row. repeat split; [exact Hid|].
    unfold seg_valid in Hv. rewrite forallb_forall in Hv. apply Hv. eapply nth_error_In; exact Em.
  Qed.

  (* the only fact about the chunker the loop needs: a regenerated index describes the data *)
  Hypothesis chunkf_describes : forall d, seg_valid H d (chunkf d) = true.

  (* ---- Regenerate: the number of stale seeds goes down ---- *)
  Lemma nondescr_regen s d i bad :
    nondescr (regen_seed chunkf (if existsb (Nat.eqb i) bad then set_invalid s else s) d, d) = true ->
    nondescr (s, d) = true /\ existsb (Nat.eqb i) bad = false.
  Proof.
    unfold Regenerate.nondescr. destruct s as [cr inv sidx|cr nid]; cbn [fst snd].
    - destruct (existsb (Nat.eqb i) bad); cbn [set_invalid regen_seed fst].
      + rewrite chunkf_describes. cbn. discriminate.
      + destruct inv; cbn [regen_seed fst].
        * rewrite chunkf_describes. cbn. discriminate.
        * intros E; split; [exact E|reflexivity].
    - destruct (existsb (Nat.eqb i) bad); cbn; discriminate.
  Qed.

  Lemma stale_settle_le bad : forall ds i, stale (settle_from Regen i bad ds) <= stale ds.
  Proof.
    unfold Regenerate.stale. induction ds as [|[s d] r IH]; intros i; [cbn; lia|]. cbn [settle_from filter].
    specialize (IH (S i)).
    destruct (nondescr (regen_seed chunkf (if existsb (Nat.eqb i) bad then set_invalid s else s) d, d)) eqn:E.
    - apply nondescr_regen in E. destruct E as [E _]. rewrite E. cbn [length]. lia.
    - destruct (nondescr (s, d)); cbn [length]; lia.
  Qed.

  Lemma stale_settle_lt bad : forall ds i k sd,
    nth_error ds k = Some sd -> nondescr sd = true -> In (i + k) bad ->
    stale (settle_from Regen i bad ds) < stale ds.
  Proof.
    unfold Regenerate.stale. induction ds as [|[s d] r IH]; intros i k sd Hk Hn Hin; [destruct k; discriminate|].
    cbn [settle_from filter]. destruct k as [|k].
    - injection Hk as <-. rewrite Nat.add_0_r in Hin. rewrite Hn.
      assert (Hex : existsb (Nat.eqb i) bad = true) by (apply existsb_exists; exists i; split; [exact Hin|apply Nat.eqb_refl]).
      destruct (nondescr (regen_seed chunkf (if existsb (Nat.eqb i) bad then set_invalid s else s) d, d)) eqn:E.
      + apply nondescr_regen in E. destruct E as [_ E]. congruence.
      + pose proof (stale_settle_le bad r (S i)) as Hle. unfold Regenerate.stale in Hle. cbn [length]. lia.
    - cbn [nth_error] in Hk. replace (i + S k) with (S i + k) in Hin by lia.
      specialize (IH (S i) k sd Hk Hn Hin).
      destruct (nondescr (regen_seed chunkf (if existsb (Nat.eqb i) bad then set_invalid s else s) d, d)) eqn:E.
      + apply nondescr_regen in E. destruct E as [E _]. rewrite E. cbn [length]. lia.
      + destruct (nondescr (s, d)); cbn [length]; lia.
  Qed.

  (* InvalidSeedActionRegenerate: at most (stale seeds + 1) attempts, and the plan validates *)
  Theorem vloop_regen_terminates idx : forall fuel ds choices,
    stale ds < fuel ->
    exists o, vloop Regen fuel ds idx choices = Some o /\ finished ds idx o /\ o_attempts o <= stale ds + 1.
  Proof.
    induction fuel as [|f IH]; intros ds choices Hf; [lia|]. cbn [Regenerate.vloop].
    destruct (truly_bad ds (plan (map fst ds) idx)) as [|t tb] eqn:Etb.
    - eexists; split; [reflexivity|]. unfold finished; cbn. repeat split; [exact Etb|lia].
    - set (bad := marked (t :: tb) (hd [] choices)).
      destruct (marked_nonempty (t :: tb) (hd [] choices) ltac:(discriminate)) as (b & Hb). fold bad in Hb.
      assert (Hbt : In b (truly_bad ds (plan (map fst ds) idx))) by (rewrite Etb; exact (marked_sub _ _ _ Hb)).
      destruct (tb_is_stale ds idx b Hbt) as (s & d & Hn & Hnd & _).
      assert (Hlt : stale (settle Regen bad ds) < stale ds) by (apply (stale_settle_lt bad ds 0 b (s, d) Hn Hnd); exact Hb).
      destruct (IH (settle Regen bad ds) (tl choices) ltac:(lia)) as (o & E & (H1 & H2 & H3 & H4) & Ha).
      rewrite E. eexists; split; [reflexivity|]. unfold finished; cbn. repeat split; try assumption; [|lia].
      rewrite H4. apply settle_snd.
  Qed.

End RegenerateProofs.

(* ---------- IndexFromFile describes the data it chunked ---------- *)
Section Describes.
  Variable H : bytes -> id.

  Lemma rows_of_chunks_describe : forall cs pre post,
    seg_valid H (pre ++ concat cs ++ post) (rows_of_chunks H (N.of_nat (length pre)) cs) = true.
  Proof.
    induction cs as [|c r IH]; intros pre post; [reflexivity|].
    cbn [rows_of_chunks seg_valid forallb concat]. apply andb_true_iff. split.
    - unfold chunk_valid. cbn [Sequencer.c_id Sequencer.c_start Sequencer.c_size]. apply andb_true_iff. split.
      + apply orb_true_iff. right. apply N.leb_le. rewrite !app_length, !Nnat.Nat2N.inj_add.
        generalize (N.of_nat (length pre)) (N.of_nat (length c)) (N.of_nat (length (concat r))) (N.of_nat (length post)). intros; lia.
      + apply N.eqb_eq. f_equal. rewrite !Nnat.Nat2N.id. unfold slice.
        rewrite skipn_app, skipn_all, Nat.sub_diag. cbn [skipn app].
        rewrite <- app_assoc, firstn_app, firstn_all, Nat.sub_diag. cbn [firstn]. apply app_nil_r.
    - replace (N.of_nat (length pre) + N.of_nat (length c))%N with (N.of_nat (length (pre ++ c)))
        by (rewrite app_length, Nnat.Nat2N.inj_add; reflexivity).
      specialize (IH (pre ++ c) post). rewrite <- !app_assoc in IH. rewrite <- app_assoc. exact IH.
  Qed.

  Variables (min max : nat) (d : N).
  Hypothesis Hmin : W <= min.
  Hypothesis Hmax : min <= max.
  Hypothesis Hpos : 0 < max.

  Definition index_from_file (data : bytes) : list ichunk := rows_of_chunks H 0 (chunk_all min max d data).

  Theorem index_from_file_describes data : seg_valid H data (index_from_file data) = true.
  Proof.
    unfold index_from_file. pose proof (rows_of_chunks_describe (chunk_all min max d data) [] []) as E.
    cbn [app length N.of_nat] in E. rewrite app_nil_r, (chunks_tile min max d Hmin Hmax Hpos) in E. exact E.
  Qed.

  (* the two loops, with the real chunker as the regenerator *)
  Corollary regenerate_loop_ends idx ds choices :
    exists o, vloop H index_from_file Regen (S (stale H ds)) ds idx choices = Some o /\
      finished H ds idx o /\ o_attempts o <= stale H ds + 1.
  Proof. apply vloop_regen_terminates; [exact index_from_file_describes|lia]. Qed.
End Describes.
