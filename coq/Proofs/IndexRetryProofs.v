From Coq Require Import List NArith Arith Bool Lia.
From DS Require Import Base.Bytes Base.LE64 Model.Format Model.Index Model.IndexRetry.
Import ListNotations.

Lemma put_retry_fresh accepts body : forall budget script sent,
  put_retry FreshReader accepts budget script body sent =
    if (leading_failures script <? budget) && accepts body then Some body else None.
Proof.
  induction budget as [|budget IH]; intros script sent; cbn [put_retry].
  - reflexivity.
  - destruct script as [|[|] rest]; cbn [leading_failures].
    + destruct (accepts body); reflexivity.
    + rewrite IH. reflexivity.
    + destruct (accepts body); reflexivity.
Qed.

(* success => the backend holds exactly WriteTo's bytes; and it succeeds exactly when an attempt within
   the budget reaches a backend that accepts the index *)
Theorem remote_store_index_spec accepts error_retry script i :
  remote_store_index FreshReader accepts error_retry script i =
    if (leading_failures script <? attempts_of error_retry) && accepts (encode_index i)
    then Some (encode_index i) else None.
Proof. unfold remote_store_index. apply put_retry_fresh. Qed.

Corollary remote_store_index_success accepts error_retry script i obj :
  remote_store_index FreshReader accepts error_retry script i = Some obj -> obj = encode_index i.
Proof.
  rewrite remote_store_index_spec. destruct (_ && _); intros E; inversion E. reflexivity.
Qed.
