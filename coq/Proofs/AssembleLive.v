(* AssembleFile cannot get stuck when the store holds every chunk: from EVERY reachable state
   of the event model (any seeds writing anything, any interleaving so far) there is a
   continuation -- start the idle jobs, take every row of every unfinished job from the store,
   finish -- after which all jobs are finished (and then, by assemble_safe, the file is the blob). *)
From Coq Require Import List NArith Arith Bool Lia.
From DS Require Import Base.Bytes Base.Hash Base.Sched Model.Assemble Model.VerifyIndex Proofs.AssembleProofs.
Import ListNotations.

Section AssembleLive.
  Variable H : bytes -> id.
  Variable idx : index.
  Variable plan : list (nat * nat).
  Hypothesis Hplan : plan_ok idx plan.
  (* the store: for every row a chunk with the right digest and size (C03: what GetChunk returns) *)
  Variable store : nat -> bytes.
  Hypothesis Hstore : forall i, i < length idx ->
    N.eqb (H (store i)) (id_of idx i) = true /\ length (store i) = size_of idx i.

  Notation step := (Assemble.step H idx plan).
  Let L := start_of idx (length idx).

  Lemma row_end_le i : i < length idx -> start_of idx i + size_of idx i <= L.
  Proof.
    intros Hi. unfold L. destruct (Nat.eq_dec (S i) (length idx)) as [E|N].
    - rewrite <- E. rewrite start_of_S by exact Hi. lia.
    - pose proof (start_of_mono idx i (length idx) ltac:(lia)). lia.
  Qed.

  Lemma set_nth_twice {A} (l : list A) j x y : set_nth (set_nth l j x) j y = set_nth l j y.
  Proof. revert j. induction l as [|a l IH]; intros [|j]; cbn; try reflexivity. f_equal. apply IH. Qed.

  Lemma set_nth_same {A} (l : list A) j d : set_nth l j (nth j l d) = l.
  Proof. revert j. induction l as [|a l IH]; intros [|j]; cbn; try reflexivity. f_equal. apply IH. Qed.

  Definition stores (j : nat) (rs : list nat) : list event := map (fun i => EStore j i (store i)) rs.

  Lemma stores_run j : forall rs s v,
    job_state s j = JRunning v -> length (a_file s) = L ->
    (forall i, In i rs -> in_job plan j i = true /\ i < length idx) ->
    let s' := run step (stores j rs) s in
    a_jobs s' = set_nth (a_jobs s) j (JRunning (rev rs ++ v)) /\ length (a_file s') = L.
  Proof.
    induction rs as [|i rs IH]; intros s v Hj Hl Hin; cbn [stores map].
    - cbn [run fold_left rev app]. split; [|exact Hl]. rewrite <- Hj. unfold job_state. symmetry. apply set_nth_same.
    - destruct (Hin i (or_introl eq_refl)) as [Hij Hi].
      destruct (Hstore i Hi) as [Hh Hsz]. pose proof (row_end_le i Hi) as Hle.
      assert (Es : step s (EStore j i (store i)) =
                   Some (set_job s j (JRunning (i :: v)) (write_at (a_file s) (start_of idx i) (store i)))).
      { cbn [Assemble.step]. rewrite Hj, Hij, Hh, Hsz, Nat.eqb_refl. cbn [andb].
        replace (start_of idx i + size_of idx i <=? length (a_file s)) with true by (symmetry; apply Nat.leb_le; lia).
        reflexivity. }
      fold (stores j rs).
      change (run step (EStore j i (store i) :: stores j rs) s)
        with (run step (stores j rs) (run1 step s (EStore j i (store i)))).
      set (s1 := set_job s j (JRunning (i :: v)) (write_at (a_file s) (start_of idx i) (store i))).
      replace (run1 step s (EStore j i (store i))) with s1 by (unfold run1; rewrite Es; reflexivity).
      assert (Hjl : j < length (a_jobs s)) by (apply job_state_lt; rewrite Hj; discriminate).
      assert (Hj1 : job_state s1 j = JRunning (i :: v)).
      { unfold s1. rewrite job_state_set. rewrite Nat.eqb_refl. cbn [andb].
        replace (j <? length (a_jobs s)) with true by (symmetry; apply Nat.ltb_lt; exact Hjl). reflexivity. }
      assert (Hl1 : length (a_file s1) = L).
      { unfold s1, set_job. cbn [a_file]. rewrite write_at_length; lia. }
      destruct (IH s1 (i :: v) Hj1 Hl1 (fun i' Hi' => Hin i' (or_intror Hi'))) as [Ha Hb].
      split; [|exact Hb]. rewrite Ha. unfold s1, set_job. cbn [a_jobs].
      rewrite set_nth_twice. cbn [rev]. rewrite <- app_assoc. reflexivity.
  Qed.

  Lemma rows_of_job_in j i : j < length plan -> In i (rows_of_job plan j) -> in_job plan j i = true /\ i < length idx.
  Proof.
    intros Hj Hi. unfold rows_of_job in Hi. apply in_seq in Hi.
    destruct (plan_tiles_facts idx plan 0 j Hplan Hj) as (_ & Hfl & Hl & _).
    fold (jfirst plan j) in Hfl. fold (jlast plan j) in Hfl, Hl.
    unfold in_job. split; [apply andb_true_iff; split; apply Nat.leb_le; lia|lia].
  Qed.

  (* the continuation that finishes job j from its current state *)
  Definition job_cont (j : nat) (st : jstate) : list event :=
    match st with
    | JFinished => []
    | JIdle => EStart j :: stores j (rows_of_job plan j) ++ [EFinish j]
    | JRunning _ => stores j (rows_of_job plan j) ++ [EFinish j]
    end.

  Lemma finish_running j s v : j < length plan -> length (a_jobs s) = length plan ->
    job_state s j = JRunning v -> length (a_file s) = L ->
    let s' := run step (stores j (rows_of_job plan j) ++ [EFinish j]) s in
    a_jobs s' = set_nth (a_jobs s) j JFinished /\ length (a_file s') = L.
  Proof.
    intros Hj Hn Hs Hl. rewrite run_app.
    destruct (stores_run j (rows_of_job plan j) s v Hs Hl (fun i Hi => rows_of_job_in j i Hj Hi)) as [Ha Hb].
    set (s1 := run step (stores j (rows_of_job plan j)) s) in *.
    assert (Hj1 : job_state s1 j = JRunning (rev (rows_of_job plan j) ++ v)).
    { unfold job_state. rewrite Ha. rewrite nth_set_nth. rewrite Nat.eqb_refl. cbn [andb].
      replace (j <? length (a_jobs s)) with true by (symmetry; apply Nat.ltb_lt; lia). reflexivity. }
    cbn [run fold_left]. unfold run1. cbn [Assemble.step]. rewrite Hj1.
    replace (forallb _ (rows_of_job plan j)) with true.
    - unfold set_job. cbn [a_jobs a_file]. rewrite Ha, set_nth_twice. split; [reflexivity|exact Hb].
    - symmetry. apply forallb_forall. intros i Hi. apply existsb_exists. exists i. split; [|apply Nat.eqb_refl].
      apply in_or_app. left. apply in_rev. rewrite rev_involutive. exact Hi.
  Qed.

  Lemma job_cont_ok j s : j < length plan -> length (a_jobs s) = length plan -> length (a_file s) = L ->
    let s' := run step (job_cont j (job_state s j)) s in
    a_jobs s' = set_nth (a_jobs s) j JFinished /\ length (a_file s') = L.
  Proof.
    intros Hj Hn Hl. destruct (job_state s j) as [|v|] eqn:Es; cbn [job_cont].
    - (* idle: start first *)
      set (c := stores j (rows_of_job plan j) ++ [EFinish j]).
      change (run step (EStart j :: c) s) with (run step c (run1 step s (EStart j))).
      set (s1 := set_job s j (JRunning []) (a_file s)).
      assert (R1 : run1 step s (EStart j) = s1).
      { unfold run1. cbn [Assemble.step]. rewrite Es.
        replace (j <? length plan) with true by (symmetry; apply Nat.ltb_lt; exact Hj). reflexivity. }
      rewrite R1.
      assert (Hj1 : job_state s1 j = JRunning []).
      { unfold s1. rewrite job_state_set, Nat.eqb_refl. cbn [andb].
        replace (j <? length (a_jobs s)) with true by (symmetry; apply Nat.ltb_lt; lia). reflexivity. }
      assert (Hn1 : length (a_jobs s1) = length plan) by (unfold s1, set_job; cbn [a_jobs]; rewrite set_nth_length; exact Hn).
      destruct (finish_running j s1 [] Hj Hn1 Hj1 Hl) as [Ha Hb].
      split; [|exact Hb]. unfold c. rewrite Ha.
      unfold s1, set_job. cbn [a_jobs]. apply set_nth_twice.
    - apply (finish_running j s v Hj Hn Es Hl).
    - cbn. split; [|exact Hl]. rewrite <- Es. unfold job_state. symmetry. apply set_nth_same.
  Qed.

  (* finish the jobs js one after the other; jobs outside js keep their state *)
  Fixpoint conts (js : list nat) (s : astate) : list event :=
    match js with
    | [] => []
    | j :: r => let c := job_cont j (job_state s j) in c ++ conts r (run step c s)
    end.

  Lemma conts_ok : forall js s, (forall j, In j js -> j < length plan) ->
    length (a_jobs s) = length plan -> length (a_file s) = L ->
    let s' := run step (conts js s) s in
    length (a_jobs s') = length plan /\ length (a_file s') = L /\
    (forall j, In j js -> job_state s' j = JFinished) /\
    (forall j, ~ In j js -> job_state s' j = job_state s j).
  Proof.
    induction js as [|j r IH]; intros s Hjs Hn Hl; cbn [conts].
    - cbn. split; [exact Hn|]. split; [exact Hl|]. split; [intros j []|intros; reflexivity].
    - rewrite run_app.
      destruct (job_cont_ok j s (Hjs j (or_introl eq_refl)) Hn Hl) as [Ha Hb].
      set (s1 := run step (job_cont j (job_state s j)) s) in *.
      assert (Hn1 : length (a_jobs s1) = length plan) by (rewrite Ha, set_nth_length; exact Hn).
      destruct (IH s1 (fun j' Hj' => Hjs j' (or_intror Hj')) Hn1 Hb) as (A & B & C & D).
      assert (Hs1 : forall j', job_state s1 j' = if j =? j' then JFinished else job_state s j').
      { intros j'. unfold job_state. rewrite Ha, nth_set_nth.
        destruct (j =? j') eqn:E; cbn [andb]; [|reflexivity].
        apply Nat.eqb_eq in E. subst j'.
        replace (j <? length (a_jobs s)) with true by (symmetry; apply Nat.ltb_lt; rewrite Hn; apply Hjs; left; reflexivity). reflexivity. }
      split; [exact A|]. split; [exact B|]. split.
      + intros j' [<-|Hj']; [|apply C; exact Hj'].
        destruct (in_dec Nat.eq_dec j r) as [Hin|Hnin]; [apply C; exact Hin|].
        rewrite (D j Hnin), Hs1, Nat.eqb_refl. reflexivity.
      + intros j' Hnin. rewrite D by (intro Hx; apply Hnin; right; exact Hx).
        rewrite Hs1. destruct (j =? j') eqn:E; [|reflexivity].
        apply Nat.eqb_eq in E. exfalso. apply Hnin. left. exact E.
  Qed.

  Lemma forallb_nth {A} (f : A -> bool) (l : list A) d :
    (forall j, j < length l -> f (nth j l d) = true) -> forallb f l = true.
  Proof.
    intros Hf. apply forallb_forall. intros x Hx. destruct (In_nth l x d Hx) as (j & Hj & <-). apply Hf; exact Hj.
  Qed.

  Theorem assemble_can_finish file0 sched : length file0 = L ->
    let s := run step sched (init plan file0) in
    exists cont, all_finished (run step cont s) = true.
  Proof.
    intros Hl s.
    pose proof (run_inv H idx plan Hplan file0 sched) as I. fold s in I.
    exists (conts (seq 0 (length plan)) s).
    destruct (conts_ok (seq 0 (length plan)) s) as (A & _ & C & _).
    - intros j Hj. apply in_seq in Hj. lia.
    - exact (ai_jobs H idx plan _ _ I).
    - rewrite (ai_len H idx plan _ _ I). exact Hl.
    - unfold all_finished. apply forallb_nth with (d := JIdle). intros j Hj.
      fold (job_state (run step (conts (seq 0 (length plan)) s) s) j).
      rewrite C; [reflexivity|]. apply in_seq. lia.
  Qed.
End AssembleLive.
