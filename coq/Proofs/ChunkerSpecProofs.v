(* Properties of the chunking rule (Model/Chunker.v part 1). *)
From Coq Require Import NArith List Lia Arith Bool ZifyN ZifyNat ZifyBool.
From DS Require Import Gen.Constants Base.Bytes Base.Word32 Model.Chunker.
Import ListNotations.

Lemma W_val : W = N.to_nat ChunkerWindowSize. Proof. reflexivity. Qed.

Lemma find_cut_range rest : forall p m d, (p <= m)%N -> (p <= find_cut rest p m d <= m)%N.
Proof.
  induction rest as [|x rest IH]; intros p m d Hpm; cbn [find_cut]; [lia|].
  destruct (m <=? p)%N eqn:E1; [lia|].
  destruct (is_boundary d (win_hash (firstn W (x :: rest)))); [lia|].
  specialize (IH (p + 1)%N m d). lia.
Qed.

(* boundary test at position q of data: the W bytes before q *)
Definition bnd (d : N) (data : bytes) (q : nat) : bool :=
  is_boundary d (win_hash (slice data (q - W) W)).

Lemma skipn_S_tl {A} (l : list A) k : skipn (S k) l = tl (skipn k l).
Proof.
  revert l; induction k as [|k IH]; intros l.
  - destruct l; reflexivity.
  - destruct l as [|x l]; [reflexivity|]. change (skipn (S k) l = tl (skipn k l)). apply IH.
Qed.

Lemma find_cut_spec d data : forall k p m,
  W <= p -> p <= m -> m <= length data -> k = m - p ->
  let c := N.to_nat (find_cut (skipn (p - W) data) (N.of_nat p) (N.of_nat m) d) in
  (c < m -> bnd d data c = true) /\ (forall q, p <= q < c -> bnd d data q = false).
Proof.
  induction k as [|k IH]; intros p m HW Hpm Hm Hk.
  - assert (p = m) by lia. subst p.
    destruct (skipn (m - W) data) eqn:Es; cbn [find_cut].
    + split; intros; lia.
    + replace (N.of_nat m <=? N.of_nat m)%N with true by lia. split; intros; lia.
  - destruct (skipn (p - W) data) as [|x rest] eqn:Es.
    { apply (f_equal (@length _)) in Es. rewrite skipn_length in Es. cbn in Es. lia. }
    cbn [find_cut]. replace (N.of_nat m <=? N.of_nat p)%N with false by lia.
    destruct (is_boundary d (win_hash (firstn W (x :: rest)))) eqn:Eb.
    + rewrite Nat2N.id. split; [|intros; lia]. intros _. unfold bnd, slice. rewrite Es. exact Eb.
    + assert (Hrest : rest = skipn (S p - W) data).
      { replace (S p - W) with (S (p - W)) by lia. rewrite skipn_S_tl, Es. reflexivity. }
      replace (N.of_nat p + 1)%N with (N.of_nat (S p)) by lia. rewrite Hrest.
      destruct (IH (S p) m ltac:(lia) ltac:(lia) Hm ltac:(lia)) as [H1 H2].
      split; [exact H1|]. intros q Hq.
      destruct (Nat.eq_dec q p) as [->|Hne]; [unfold bnd, slice; rewrite Es; exact Eb|].
      apply H2. lia.
Qed.

Section Spec.
  Variables (min max : nat) (d : N).
  Hypothesis Hmin : W <= min.
  Hypothesis Hmax : min <= max.
  Hypothesis Hpos : 0 < max.

  Notation cut := (cut_spec min max d).

  Lemma cut_le_len data : cut data <= length data.
  Proof.
    unfold cut_spec. destruct (length data <=? min) eqn:E1; [lia|].
    destruct (Nat.min max (length data) <=? min) eqn:E2; [lia|].
    pose proof (find_cut_range (skipn (S min - W) data) (N.of_nat (S min)) (N.of_nat (Nat.min max (length data))) d). lia.
  Qed.

  Lemma cut_le_max data : cut data <= max.
  Proof.
    unfold cut_spec. destruct (length data <=? min) eqn:E1; [lia|].
    destruct (Nat.min max (length data) <=? min) eqn:E2; [lia|].
    pose proof (find_cut_range (skipn (S min - W) data) (N.of_nat (S min)) (N.of_nat (Nat.min max (length data))) d). lia.
  Qed.

  Lemma cut_pos data : data <> [] -> 1 <= cut data.
  Proof.
    intros Hne. assert (1 <= length data) by (destruct data; [congruence|cbn; lia]).
    unfold cut_spec. destruct (length data <=? min) eqn:E1; [lia|].
    destruct (Nat.min max (length data) <=? min) eqn:E2; [lia|].
    pose proof (find_cut_range (skipn (S min - W) data) (N.of_nat (S min)) (N.of_nat (Nat.min max (length data))) d). lia.
  Qed.

  (* a chunk that is not the last one has at least min bytes (more than min unless min = max) *)
  Lemma cut_ge_min data : cut data < length data -> min <= cut data /\ (min < cut data \/ min = max).
  Proof.
    unfold cut_spec. destruct (length data <=? min) eqn:E1; [lia|].
    destruct (Nat.min max (length data) <=? min) eqn:E2; [lia|].
    pose proof (find_cut_range (skipn (S min - W) data) (N.of_nat (S min)) (N.of_nat (Nat.min max (length data))) d). lia.
  Qed.

  (* THE RULE: the cut is the first position past min whose preceding window hashes to the
     discriminator, capped at min(max, |data|). *)
  Theorem cut_rule data :
    min < length data -> min < max ->
    let m := Nat.min max (length data) in
    let c := cut data in
    min < c <= m /\
    (c < m -> bnd d data c = true) /\
    (forall q, min < q < c -> bnd d data q = false).
  Proof.
    intros Hn Hlt m c. unfold c, cut_spec.
    replace (length data <=? min) with false by lia.
    fold m. replace (m <=? min) with false by lia.
    pose proof (find_cut_range (skipn (S min - W) data) (N.of_nat (S min)) (N.of_nat m) d ltac:(lia)) as Hr.
    destruct (find_cut_spec d data (m - S min) (S min) m ltac:(lia) ltac:(lia) ltac:(lia) eq_refl) as [H1 H2].
    split; [lia|]. split; [exact H1|]. intros q Hq. apply H2. lia.
  Qed.

  (* ---- runs of one byte value ----
     Inside a run of one byte every window is the same, so the rule either cuts after min+1 bytes
     (when the discriminator meets the hash of that window: "resonant" parameters, e.g. zero runs
     with avg = 5251) or not at all.  "A zero run contains no boundary" holds exactly in the
     second case. *)
  Lemma bnd_constant b n q : W <= q <= n -> bnd d (repeat b n) q = is_boundary d (win_hash (repeat b W)).
  Proof.
    intros Hq. unfold bnd, slice. f_equal. f_equal.
    replace n with ((q - W) + (n - (q - W))) by lia. rewrite repeat_app, skipn_app, repeat_length.
    rewrite skipn_all2 by (rewrite repeat_length; lia). rewrite Nat.sub_diag. cbn [app skipn].
    replace (n - (q - W)) with (W + (n - q)) by lia. rewrite repeat_app, firstn_app, repeat_length, Nat.sub_diag.
    rewrite firstn_all2 by (rewrite repeat_length; lia). cbn [firstn]. apply app_nil_r.
  Qed.

  Theorem cut_constant_run b n :
    min < n -> min < max ->
    cut (repeat b n) = if is_boundary d (win_hash (repeat b W)) then S min else Nat.min max n.
  Proof.
    intros Hn Hlt. pose proof (cut_rule (repeat b n)) as R. rewrite repeat_length in R.
    specialize (R Hn Hlt). cbv zeta in R. destruct R as ((Hc1 & Hc2) & Hb & Hnb).
    destruct (is_boundary d (win_hash (repeat b W))) eqn:E.
    - (* resonant: position min+1 is a boundary, nothing before it is considered *)
      destruct (Nat.eq_dec (cut (repeat b n)) (S min)) as [->|Hne]; [reflexivity|].
      specialize (Hnb (S min) ltac:(lia)). rewrite bnd_constant in Hnb by lia. congruence.
    - destruct (Nat.eq_dec (cut (repeat b n)) (Nat.min max n)) as [->|Hne]; [reflexivity|].
      specialize (Hb ltac:(lia)). rewrite bnd_constant in Hb by lia. congruence.
  Qed.

  Theorem cut_short data : length data <= min -> cut data = length data.
  Proof. intros. unfold cut_spec. replace (length data <=? min) with true by lia. reflexivity. Qed.

  (* ---- the chunk sequence ---- *)

  Lemma chunks_spec_concat : forall fuel data, length data < fuel ->
    concat (chunks_spec fuel min max d data) = data.
  Proof.
    induction fuel as [|fuel IH]; intros data Hf; [lia|].
    cbn [chunks_spec]. destruct data as [|x r]; [reflexivity|].
    set (dt := x :: r) in *. cbn [concat].
    assert (Hc := cut_pos dt ltac:(discriminate)). assert (Hll := cut_le_len dt). clearbody dt.
    rewrite IH; [apply firstn_skipn|]. rewrite skipn_length. lia.
  Qed.

  Theorem chunks_tile data : concat (chunk_all min max d data) = data.
  Proof. apply chunks_spec_concat. lia. Qed.

  (* every chunk is non-empty and at most max; every chunk but the last has at least min bytes *)
  Fixpoint sizes_ok (cs : list bytes) : Prop :=
    match cs with
    | [] => True
    | c :: rest => 1 <= length c <= max /\ (rest <> [] -> min <= length c /\ (min < length c \/ min = max)) /\ sizes_ok rest
    end.

  Lemma chunks_spec_nonempty fuel data : data <> [] -> 0 < fuel -> chunks_spec fuel min max d data <> [].
  Proof. intros Hne Hf. destruct fuel; [lia|]. cbn. destruct data; [congruence|discriminate]. Qed.

  Lemma chunks_spec_sizes : forall fuel data, length data < fuel -> sizes_ok (chunks_spec fuel min max d data).
  Proof.
    induction fuel as [|fuel IH]; intros data Hf; [lia|].
    cbn [chunks_spec]. destruct data as [|x r]; [exact I|].
    set (dt := x :: r) in *.
    assert (Hc := cut_pos dt ltac:(discriminate)).
    assert (Hl := cut_le_len dt). assert (Hm := cut_le_max dt). clearbody dt.
    cbn [sizes_ok]. rewrite firstn_length. split; [lia|]. split.
    - intros Hrest.
      assert (Hlt : cut dt < length dt).
      { destruct (Nat.eq_dec (cut dt) (length dt)) as [E|E]; [|lia].
        exfalso. apply Hrest. rewrite E, skipn_all. destruct fuel; reflexivity. }
      pose proof (cut_ge_min dt Hlt). lia.
    - apply IH. rewrite skipn_length. lia.
  Qed.

  Theorem chunk_size_bounds data : sizes_ok (chunk_all min max d data).
  Proof. apply chunks_spec_sizes. lia. Qed.

  (* fuel does not matter once it exceeds the length *)
  Lemma chunks_spec_fuel : forall f1 f2 data, length data < f1 -> length data < f2 ->
    chunks_spec f1 min max d data = chunks_spec f2 min max d data.
  Proof.
    induction f1 as [|f1 IH]; intros f2 data H1 H2; [lia|]. destruct f2 as [|f2]; [lia|].
    cbn [chunks_spec]. destruct data as [|x r]; [reflexivity|].
    set (dt := x :: r) in *. assert (Hc := cut_pos dt ltac:(discriminate)). assert (Hll := cut_le_len dt). clearbody dt.
    f_equal. apply IH; rewrite skipn_length; lia.
  Qed.

  (* Self-synchronisation: the chunk sequence of a stream from a cut point on is the chunk
     sequence of the suffix -- cuts depend only on bytes after the chunk start. *)
  Theorem chunk_all_step data : data <> [] ->
    chunk_all min max d data =
    firstn (cut data) data :: chunk_all min max d (skipn (cut data) data).
  Proof.
    intros Hne. unfold chunk_all at 1. cbn [chunks_spec]. destruct data as [|x r]; [congruence|].
    set (dt := x :: r) in *. f_equal. unfold chunk_all.
    assert (Hc := cut_pos dt ltac:(discriminate)).
    apply chunks_spec_fuel; rewrite skipn_length; subst dt; cbn [length] in *; lia.
  Qed.

  Fixpoint total_len (cs : list bytes) : nat :=
    match cs with [] => 0 | c :: r => length c + total_len r end.

  Theorem chunk_all_skipn : forall k data,
    skipn k (chunk_all min max d data) =
    chunk_all min max d (skipn (total_len (firstn k (chunk_all min max d data))) data).
  Proof.
    induction k as [|k IH]; intros data; [reflexivity|].
    destruct data as [|x r]; [reflexivity|].
    set (dt := x :: r) in *.
    rewrite (chunk_all_step dt) by discriminate. cbn [skipn firstn total_len].
    rewrite IH. rewrite firstn_length.
    assert (Hl := cut_le_len dt). rewrite Nat.min_l by exact Hl.
    rewrite skipn_skipn. reflexivity.
  Qed.

  (* Two chunkers started at different offsets o1, o2 of the same stream that each emit a chunk
     starting at the same absolute position emit identical chunks from there on. *)
  Theorem self_sync data o1 o2 k1 k2 :
    o1 + total_len (firstn k1 (chunk_all min max d (skipn o1 data))) =
    o2 + total_len (firstn k2 (chunk_all min max d (skipn o2 data))) ->
    skipn k1 (chunk_all min max d (skipn o1 data)) = skipn k2 (chunk_all min max d (skipn o2 data)).
  Proof.
    intros E. rewrite !chunk_all_skipn, !skipn_skipn. rewrite E. reflexivity.
  Qed.
End Spec.
