From Coq Require Import List NArith Arith Bool Lia.
From DS Require Import Base.Bytes Base.Hash Base.Sched Model.Assemble Model.VerifyIndex Proofs.VerifyIndexProofs.
Import ListNotations.

(* ---------- write_at ---------- *)

Lemma write_at_length file off data :
  off + length data <= length file -> length (write_at file off data) = length file.
Proof.
  intros Hb. unfold write_at. rewrite !app_length, !firstn_length, skipn_length. lia.
Qed.

Lemma write_at_eq file off data :
  off + length data <= length file ->
  write_at file off data = firstn off file ++ data ++ skipn (off + length data) file.
Proof. intros Hb. unfold write_at. rewrite (firstn_all2 (n := length file - off)) by lia. reflexivity. Qed.

Lemma slice_app_l {A} (a b : list A) s n : s + n <= length a -> slice (a ++ b) s n = slice a s n.
Proof.
  intros Hb. unfold slice. rewrite skipn_app, firstn_app, skipn_length.
  replace (s - length a) with 0 by lia. replace (n - (length a - s)) with 0 by lia.
  cbn. now rewrite app_nil_r.
Qed.

Lemma slice_app_r {A} (a b : list A) s n : length a <= s -> slice (a ++ b) s n = slice b (s - length a) n.
Proof.
  intros Hb. unfold slice. rewrite skipn_app. rewrite (skipn_all2 a) by lia. reflexivity.
Qed.

Lemma slice_firstn {A} (l : list A) k s n : s + n <= k -> slice (firstn k l) s n = slice l s n.
Proof.
  intros Hb. unfold slice. rewrite <- (firstn_skipn k l) at 2.
  destruct (Nat.le_gt_cases k (length l)) as [Hk|Hk].
  - rewrite skipn_app, firstn_app, skipn_length, firstn_length, Nat.min_l by lia.
    replace (s - k) with 0 by lia. replace (n - (k - s)) with 0 by lia. cbn. now rewrite app_nil_r.
  - rewrite (firstn_all2 (n := k) l) by lia. rewrite (skipn_all2 (n := k) l) by lia. now rewrite app_nil_r.
Qed.

Lemma slice_skipn {A} (l : list A) k s n : slice (skipn k l) s n = slice l (k + s) n.
Proof. unfold slice. now rewrite skipn_skipn. Qed.

Lemma write_at_slice_before file off data s n :
  off + length data <= length file -> s + n <= off ->
  slice (write_at file off data) s n = slice file s n.
Proof.
  intros Hb Hd. rewrite write_at_eq by exact Hb.
  rewrite slice_app_l by (rewrite firstn_length; lia). apply slice_firstn. lia.
Qed.

Lemma write_at_slice_after file off data s n :
  off + length data <= length file -> off + length data <= s ->
  slice (write_at file off data) s n = slice file s n.
Proof.
  intros Hb Hd. rewrite write_at_eq by exact Hb.
  rewrite slice_app_r by (rewrite firstn_length; lia).
  rewrite firstn_length, Nat.min_l by lia.
  rewrite slice_app_r by lia. rewrite slice_skipn. f_equal. lia.
Qed.

Lemma write_at_slice_same file off data :
  off + length data <= length file ->
  slice (write_at file off data) off (length data) = data.
Proof.
  intros Hb. rewrite write_at_eq by exact Hb.
  rewrite slice_app_r by (rewrite firstn_length; lia).
  rewrite firstn_length, Nat.min_l by lia. rewrite Nat.sub_diag.
  unfold slice. cbn [skipn]. rewrite firstn_app, Nat.sub_diag, firstn_all. cbn. now rewrite app_nil_r.
Qed.

(* ---------- rows ---------- *)

Lemma start_of_S idx : forall i, i < length idx -> start_of idx (S i) = start_of idx i + size_of idx i.
Proof.
  induction idx as [|r rest IH]; intros i Hi; [cbn in Hi; lia|].
  destruct i as [|i].
  - cbn. unfold size_of. cbn. destruct rest; cbn; lia.
  - cbn [start_of]. rewrite IH by (cbn in Hi; lia).
    unfold size_of. cbn [nth]. cbn [start_of]. lia.
Qed.

Lemma size_of_out idx i : length idx <= i -> size_of idx i = 0.
Proof. intros. unfold size_of. now rewrite nth_overflow. Qed.

Lemma start_of_mono idx : forall i i', i < i' -> start_of idx i + size_of idx i <= start_of idx i'.
Proof.
  induction idx as [|r rest IH]; intros i i' Hlt.
  - destruct i, i'; cbn; unfold size_of; cbn; try lia; destruct i; cbn; lia.
  - destruct i' as [|i']; [lia|]. destruct i as [|i].
    + cbn. unfold size_of. cbn. lia.
    + cbn [start_of]. unfold size_of. cbn [nth]. specialize (IH i i' ltac:(lia)). unfold size_of in IH. lia.
Qed.

Lemma rows_ok_of_chunks H file idx : forall s,
  (forall i, i < length idx -> H (slice file (s + start_of idx i) (size_of idx i)) = id_of idx i) ->
  rows_ok H file s idx = true.
Proof.
  induction idx as [|r rest IH]; intros s Hall; [reflexivity|].
  cbn [rows_ok]. apply andb_true_iff. split.
  - unfold row_ok. apply N.eqb_eq. specialize (Hall 0 ltac:(cbn; lia)).
    cbn in Hall. unfold size_of, id_of in Hall. cbn in Hall. rewrite Nat.add_0_r in Hall. exact Hall.
  - apply IH. intros i Hi. specialize (Hall (S i) ltac:(cbn; lia)).
    cbn [start_of] in Hall. unfold size_of, id_of in *. cbn [nth] in Hall.
    rewrite <- Hall. f_equal. f_equal. lia.
Qed.

(* ---------- the invariant ---------- *)

Section AssembleProofs.
  Variable H : bytes -> id.
  Variable idx : index.
  Variable plan : list (nat * nat).
  Hypothesis Hplan : plan_ok idx plan.

  Notation step := (Assemble.step H idx plan).
  Notation in_job := (in_job plan).
  Notation job_lo := (job_lo idx plan).
  Notation job_hi := (job_hi idx plan).

  Lemma set_nth_length {A} (l : list A) i x : length (set_nth l i x) = length l.
  Proof. revert i; induction l; destruct i; cbn; auto. Qed.

  Lemma nth_set_nth {A} (l : list A) i j x d :
    nth j (set_nth l i x) d = if (i =? j) && (i <? length l) then x else nth j l d.
  Proof.
    revert i j. induction l as [|y l IH]; intros i j; cbn.
    - rewrite andb_false_r. reflexivity.
    - destruct i, j; cbn; try reflexivity. rewrite IH. reflexivity.
  Qed.

  (* plan facts *)
  Lemma plan_tiles_facts : forall pl k j,
    plan_tiles_from idx k pl -> j < length pl ->
    let f := fst (nth j pl (0, 0)) in let l := snd (nth j pl (0, 0)) in
    k <= f /\ f <= l /\ l < length idx /\
    (forall j', j < j' -> j' < length pl -> l < fst (nth j' pl (0, 0))).
  Proof.
    induction pl as [|[f0 l0] rest IH]; intros k j Ht Hj; [cbn in Hj; lia|].
    cbn in Ht. destruct Ht as (Ef & Hfl & Hrest).
    assert (Hbound : forall pl k, plan_tiles_from idx k pl -> k <= length idx).
    { clear. induction pl as [|[f l] r IHr]; intros k Hk; cbn in Hk; [lia|].
      destruct Hk as (? & ? & Hr). apply IHr in Hr. lia. }
    destruct j as [|j].
    - cbn. split; [lia|]. split; [lia|]. split; [apply Hbound in Hrest; lia|].
      intros j' Hj' Hl'. destruct j' as [|j']; [lia|]. cbn.
      destruct (IH (S l0) j' Hrest ltac:(cbn in Hl'; lia)) as (H1 & _). lia.
    - cbn [nth]. destruct (IH (S l0) j Hrest ltac:(cbn in Hj; lia)) as (H1 & H2 & H3 & H4).
      split; [lia|]. split; [lia|]. split; [lia|].
      intros j' Hj' Hl'. destruct j' as [|j']; [lia|]. cbn [nth]. apply H4; [lia|cbn in Hl'; lia].
  Qed.

  Lemma job_disjoint j j' i : j < length plan -> j' < length plan -> j <> j' ->
    in_job j i = true -> in_job j' i = true -> False.
  Proof.
    intros Hj Hj' Hne H1 H2. unfold Assemble.in_job, jfirst, jlast in *.
    apply andb_true_iff in H1, H2. destruct H1 as [A1 B1], H2 as [A2 B2].
    apply Nat.leb_le in A1, B1, A2, B2.
    destruct (plan_tiles_facts plan 0 j Hplan Hj) as (_ & _ & _ & F1).
    destruct (plan_tiles_facts plan 0 j' Hplan Hj') as (_ & _ & _ & F2).
    destruct (Nat.lt_ge_cases j j') as [Hlt|Hge].
    - specialize (F1 j' Hlt Hj'). lia.
    - specialize (F2 j ltac:(lia) Hj). lia.
  Qed.

  Lemma row_has_job : forall i, i < length idx -> exists j, j < length plan /\ in_job j i = true.
  Proof.
    assert (G : forall pl k, plan_tiles_from idx k pl -> forall i, k <= i -> i < length idx ->
              exists j, j < length pl /\ (fst (nth j pl (0,0)) <=? i) && (i <=? snd (nth j pl (0,0))) = true).
    { induction pl as [|[f l] rest IH]; intros k Ht i Hk Hi; cbn in Ht; [lia|].
      destruct Ht as (Ef & Hfl & Hrest).
      destruct (Nat.le_gt_cases i l) as [Hle|Hgt].
      - exists 0. split; [cbn; lia|]. cbn. apply andb_true_iff. split; apply Nat.leb_le; lia.
      - destruct (IH (S l) Hrest i ltac:(lia) Hi) as (j & Hj & Hin). exists (S j). split; [cbn; lia|exact Hin]. }
    intros i Hi. apply (G plan 0 Hplan i); lia.
  Qed.

  (* byte ranges *)
  Lemma row_in_job_range j i : j < length plan -> in_job j i = true ->
    job_lo j <= start_of idx i /\ start_of idx i + size_of idx i <= job_hi j.
  Proof.
    intros Hj Hin. unfold Assemble.in_job in Hin. apply andb_true_iff in Hin. destruct Hin as [A B].
    apply Nat.leb_le in A, B. unfold Assemble.job_lo, Assemble.job_hi. split.
    - destruct (Nat.eq_dec (jfirst plan j) i) as [->|Hne]; [lia|].
      pose proof (start_of_mono idx (jfirst plan j) i ltac:(lia)). lia.
    - destruct (Nat.eq_dec (jlast plan j) i) as [->|Hne]; [lia|].
      pose proof (start_of_mono idx i (jlast plan j) ltac:(lia)). lia.
  Qed.

  Lemma row_outside_job_range j i : in_job j i = false -> jfirst plan j <= jlast plan j ->
    start_of idx i + size_of idx i <= job_lo j \/ job_hi j <= start_of idx i.
  Proof.
    intros Hin Hfl. unfold Assemble.in_job in Hin. apply andb_false_iff in Hin.
    unfold Assemble.job_lo, Assemble.job_hi.
    destruct Hin as [A|B].
    - apply Nat.leb_gt in A. left. apply start_of_mono. exact A.
    - apply Nat.leb_gt in B. right. apply start_of_mono. exact B.
  Qed.

  Lemma owner_from_in_job : forall pl k js src, owner_from k pl src = Some js ->
    k <= js /\ (fst (nth (js - k) pl (0,0)) <=? src) && (src <=? snd (nth (js - k) pl (0,0))) = true.
  Proof.
    induction pl as [|[f l] rest IH]; intros k js src Eo; cbn in Eo; [discriminate|].
    destruct ((f <=? src) && (src <=? l)) eqn:Ein.
    - inversion Eo; subst. rewrite Nat.sub_diag. cbn. split; [lia|exact Ein].
    - destruct (IH (S k) js src Eo) as [Hk Hin]. split; [lia|].
      replace (js - k) with (S (js - S k)) by lia. exact Hin.
  Qed.

  Lemma owner_in_job src js : owner plan src = Some js -> in_job js src = true.
  Proof.
    intros Eo. unfold owner in Eo. destruct (owner_from_in_job plan 0 js src Eo) as [_ Hin].
    rewrite Nat.sub_0_r in Hin. exact Hin.
  Qed.

  Definition chunk_okP (file : bytes) (i : nat) : Prop := chunk_ok H idx file i = true.

  Record AInv (L : nat) (s : astate) : Prop := {
    ai_len : length (a_file s) = L;
    ai_jobs : length (a_jobs s) = length plan;
    ai_fin : forall j, job_state s j = JFinished -> forall i, in_job j i = true -> chunk_okP (a_file s) i;
    ai_run : forall j v, job_state s j = JRunning v -> forall i, In i v -> in_job j i = true /\ chunk_okP (a_file s) i;
  }.

  Lemma job_state_set s j st file j' :
    job_state (set_job s j st file) j' =
    if (j =? j') && (j <? length (a_jobs s)) then st else job_state s j'.
  Proof. unfold job_state, set_job. cbn. apply nth_set_nth. Qed.

  Lemma job_state_lt s j : job_state s j <> JIdle -> j < length (a_jobs s).
  Proof.
    intros Hne. destruct (Nat.lt_ge_cases j (length (a_jobs s))) as [|Hge]; [assumption|].
    exfalso. apply Hne. unfold job_state. now apply nth_overflow.
  Qed.

  (* a write inside job j's range leaves the rows of every other job untouched *)
  Lemma chunk_ok_write_other file j off data i :
    j < length plan -> in_job j i = false ->
    job_lo j <= off -> off + length data <= job_hi j -> job_hi j <= length file ->
    chunk_ok H idx (write_at file off data) i = chunk_ok H idx file i.
  Proof.
    intros Hj Hin Hlo Hhi Hlen. unfold chunk_ok. f_equal. f_equal.
    destruct (plan_tiles_facts plan 0 j Hplan Hj) as (_ & Hfl & _).
    destruct (row_outside_job_range j i Hin Hfl) as [Hb|Ha].
    - apply write_at_slice_before; lia.
    - apply write_at_slice_after; lia.
  Qed.

  (* a write of exactly row i leaves other rows untouched *)
  Lemma chunk_ok_write_row file i b i' :
    i <> i' -> length b = size_of idx i -> start_of idx i + size_of idx i <= length file ->
    chunk_ok H idx (write_at file (start_of idx i) b) i' = chunk_ok H idx file i'.
  Proof.
    intros Hne Hb Hlen. unfold chunk_ok. f_equal. f_equal.
    destruct (Nat.lt_ge_cases i' i) as [Hlt|Hge].
    - apply write_at_slice_before; [lia|]. pose proof (start_of_mono idx i' i Hlt). lia.
    - apply write_at_slice_after; [lia|]. pose proof (start_of_mono idx i i' ltac:(lia)). lia.
  Qed.

  Ltac solve_lt :=
    match goal with
    | Hx : context [?a <? length (a_jobs ?s)] |- _ =>
        replace (a <? length (a_jobs s)) with true in Hx by (symmetry; apply Nat.ltb_lt; lia)
    end.

  Lemma step_inv L s e s' : AInv L s -> step s e = Some s' -> AInv L s'.
  Proof.
    intros I E. destruct I as [Il Ij If Ir]. unfold Assemble.step in E.
    destruct e as [j|j off data|j i|j i|j i b|j i src|j].
    - (* EStart *)
      destruct (job_state s j) eqn:Ej; try discriminate.
      destruct (j <? length plan) eqn:Elt; [|discriminate]. injection E as <-.
      constructor; cbn [a_file set_job]; auto.
      + cbn. rewrite set_nth_length. exact Ij.
      + intros j' Hf i Hin. rewrite job_state_set in Hf.
        destruct ((j =? j') && (j <? length (a_jobs s))); [discriminate|]. eapply If; eauto.
      + intros j' v Hr i Hin. rewrite job_state_set in Hr.
        destruct ((j =? j') && (j <? length (a_jobs s))).
        * inversion Hr; subst. contradiction.
        * eapply Ir; eauto.
    - (* EWrite *)
      destruct (job_state s j) as [|v|] eqn:Ej; try discriminate.
      destruct ((job_lo j <=? off) && (off + length data <=? job_hi j) && (job_hi j <=? length (a_file s))) eqn:Eg; [|discriminate].
      apply andb_true_iff in Eg. destruct Eg as [Eg G3]. apply andb_true_iff in Eg. destruct Eg as [G1 G2].
      apply Nat.leb_le in G1, G2, G3.
      injection E as <-.
      assert (Hjl : j < length plan) by (rewrite <- Ij; apply job_state_lt; congruence).
      constructor; cbn [a_file set_job].
      + rewrite write_at_length by lia. exact Il.
      + cbn. rewrite set_nth_length. exact Ij.
      + intros j' Hf i Hin. rewrite job_state_set in Hf.
        destruct (Nat.eqb_spec j j') as [->|Hne]; cbn [andb] in Hf.
        * solve_lt. discriminate.
        * assert (Ein : in_job j i = false).
          { destruct (in_job j i) eqn:Ein; [|reflexivity].
            exfalso. eapply (job_disjoint j j' i); eauto.
            rewrite <- Ij. apply job_state_lt. congruence. }
          unfold chunk_okP. rewrite (chunk_ok_write_other (a_file s) j off data i Hjl Ein G1 G2 G3).
          eapply If; eauto.
      + intros j' v' Hr i Hin. rewrite job_state_set in Hr.
        destruct (Nat.eqb_spec j j') as [->|Hne]; cbn [andb] in Hr.
        * solve_lt. injection Hr as <-. contradiction.
        * destruct (Ir j' v' Hr i Hin) as [Hin' Hok]. split; [exact Hin'|].
          assert (Ein : in_job j i = false).
          { destruct (in_job j i) eqn:Ein; [|reflexivity].
            exfalso. eapply (job_disjoint j j' i); eauto.
            rewrite <- Ij. apply job_state_lt. congruence. }
          unfold chunk_okP. rewrite (chunk_ok_write_other (a_file s) j off data i Hjl Ein G1 G2 G3). exact Hok.
    - (* EValidate *)
      destruct (job_state s j) as [|v|] eqn:Ej; try discriminate.
      destruct (in_job j i && chunk_ok H idx (a_file s) i) eqn:Eg; [|discriminate].
      apply andb_true_iff in Eg. destruct Eg as [G1 G2]. injection E as <-.
      constructor; cbn [a_file set_job]; auto.
      + cbn. rewrite set_nth_length. exact Ij.
      + intros j' Hf i' Hin. rewrite job_state_set in Hf.
        destruct ((j =? j') && (j <? length (a_jobs s))); [discriminate|]. eapply If; eauto.
      + intros j' v' Hr i' Hin. rewrite job_state_set in Hr.
        destruct ((j =? j') && (j <? length (a_jobs s))) eqn:Ec.
        * apply andb_true_iff in Ec. destruct Ec as [Ec _]. apply Nat.eqb_eq in Ec. subst j'.
          inversion Hr; subst. destruct Hin as [<-|Hin]; [split; assumption|]. eapply Ir; eauto.
        * eapply Ir; eauto.
    - (* EInPlace *)
      destruct (job_state s j) as [|v|] eqn:Ej; try discriminate.
      destruct (in_job j i && chunk_ok H idx (a_file s) i) eqn:Eg; [|discriminate].
      apply andb_true_iff in Eg. destruct Eg as [G1 G2]. injection E as <-.
      constructor; cbn [a_file set_job]; auto.
      + cbn. rewrite set_nth_length. exact Ij.
      + intros j' Hf i' Hin. rewrite job_state_set in Hf.
        destruct ((j =? j') && (j <? length (a_jobs s))); [discriminate|]. eapply If; eauto.
      + intros j' v' Hr i' Hin. rewrite job_state_set in Hr.
        destruct ((j =? j') && (j <? length (a_jobs s))) eqn:Ec.
        * apply andb_true_iff in Ec. destruct Ec as [Ec _]. apply Nat.eqb_eq in Ec. subst j'.
          inversion Hr; subst. destruct Hin as [<-|Hin]; [split; assumption|]. eapply Ir; eauto.
        * eapply Ir; eauto.
    - (* EStore *)
      destruct (job_state s j) as [|v|] eqn:Ej; try discriminate.
      match type of E with (if ?g then _ else _) = _ => destruct g eqn:Eg; [|discriminate] end.
      do 3 (apply andb_true_iff in Eg; destruct Eg as [Eg ?]).
      rename Eg into G1. rename H0 into G4. rename H1 into G3. rename H2 into G2.
      apply N.eqb_eq in G2. apply Nat.eqb_eq in G3. apply Nat.leb_le in G4.
      injection E as <-.
      assert (Hjl : j < length plan) by (rewrite <- Ij; apply job_state_lt; congruence).
      assert (Hnew : chunk_okP (write_at (a_file s) (start_of idx i) b) i).
      { unfold chunk_okP, chunk_ok. rewrite <- G3. rewrite write_at_slice_same by lia. now apply N.eqb_eq. }
      assert (Hoth : forall i', i' <> i -> chunk_ok H idx (write_at (a_file s) (start_of idx i) b) i' = chunk_ok H idx (a_file s) i').
      { intros i' Hne. apply chunk_ok_write_row; auto. }
      constructor; cbn [a_file set_job].
      + rewrite write_at_length by lia. exact Il.
      + cbn. rewrite set_nth_length. exact Ij.
      + intros j' Hf i' Hin. rewrite job_state_set in Hf.
        destruct (Nat.eqb_spec j j') as [->|Hne]; cbn [andb] in Hf.
        * solve_lt. discriminate.
        * unfold chunk_okP. rewrite Hoth; [eapply If; eauto|].
          intros ->. eapply (job_disjoint j j' i); eauto. rewrite <- Ij. apply job_state_lt. congruence.
      + intros j' v' Hr i' Hin. rewrite job_state_set in Hr.
        destruct (Nat.eqb_spec j j') as [->|Hne]; cbn [andb] in Hr.
        * solve_lt. injection Hr as <-. destruct Hin as [<-|Hin]; [split; assumption|].
          destruct (Ir j' v Ej i' Hin) as [Hin' Hok]. split; [exact Hin'|].
          destruct (Nat.eq_dec i' i) as [->|Hne']; [exact Hnew|]. unfold chunk_okP. now rewrite Hoth.
        * destruct (Ir j' v' Hr i' Hin) as [Hin' Hok]. split; [exact Hin'|].
          unfold chunk_okP. rewrite Hoth; [exact Hok|].
          intros ->. eapply (job_disjoint j j' i); eauto. rewrite <- Ij. apply job_state_lt. congruence.
    - (* ESelfCopy *)
      destruct (job_state s j) as [|v|] eqn:Ej; try discriminate.
      match type of E with (if ?g then _ else _) = _ => destruct g eqn:Eg; [|discriminate] end.
      do 5 (apply andb_true_iff in Eg; destruct Eg as [Eg ?]).
      rename Eg into G1. rename H0 into G6. rename H1 into G5. rename H2 into G4. rename H3 into G3. rename H4 into G2.
      apply N.eqb_eq in G3. apply Nat.eqb_eq in G4. apply Nat.leb_le in G5, G6.
      injection E as <-.
      assert (Hjl : j < length plan) by (rewrite <- Ij; apply job_state_lt; congruence).
      set (b := slice (a_file s) (start_of idx src) (size_of idx src)).
      assert (Hbl : length b = size_of idx i) by (unfold b; rewrite slice_length; lia).
      assert (Hsrc : chunk_okP (a_file s) src).
      { unfold finished in G2. destruct (owner plan src) as [js|] eqn:Eo; [|discriminate].
        destruct (job_state s js) eqn:Ejs; try discriminate.
        apply (If js Ejs). apply owner_in_job. exact Eo. }
      assert (Hnew : chunk_okP (write_at (a_file s) (start_of idx i) b) i).
      { unfold chunk_okP, chunk_ok. rewrite <- Hbl. rewrite write_at_slice_same by lia.
        unfold chunk_okP, chunk_ok in Hsrc. apply N.eqb_eq in Hsrc. apply N.eqb_eq. unfold b. congruence. }
      assert (Hoth : forall i', i' <> i -> chunk_ok H idx (write_at (a_file s) (start_of idx i) b) i' = chunk_ok H idx (a_file s) i').
      { intros i' Hne. apply chunk_ok_write_row; auto. }
      constructor; cbn [a_file set_job].
      + rewrite write_at_length by lia. exact Il.
      + cbn. rewrite set_nth_length. exact Ij.
      + intros j' Hf i' Hin. rewrite job_state_set in Hf.
        destruct (Nat.eqb_spec j j') as [->|Hne]; cbn [andb] in Hf.
        * solve_lt. discriminate.
        * unfold chunk_okP. rewrite Hoth; [eapply If; eauto|].
          intros ->. eapply (job_disjoint j j' i); eauto. rewrite <- Ij. apply job_state_lt. congruence.
      + intros j' v' Hr i' Hin. rewrite job_state_set in Hr.
        destruct (Nat.eqb_spec j j') as [->|Hne]; cbn [andb] in Hr.
        * solve_lt. injection Hr as <-. destruct Hin as [<-|Hin]; [split; assumption|].
          destruct (Ir j' v Ej i' Hin) as [Hin' Hok]. split; [exact Hin'|].
          destruct (Nat.eq_dec i' i) as [->|Hne']; [exact Hnew|]. unfold chunk_okP. now rewrite Hoth.
        * destruct (Ir j' v' Hr i' Hin) as [Hin' Hok]. split; [exact Hin'|].
          unfold chunk_okP. rewrite Hoth; [exact Hok|].
          intros ->. eapply (job_disjoint j j' i); eauto. rewrite <- Ij. apply job_state_lt. congruence.
    - (* EFinish *)
      destruct (job_state s j) as [|v|] eqn:Ej; try discriminate.
      destruct (forallb (fun i => existsb (Nat.eqb i) v) (rows_of_job plan j)) eqn:Eg; [|discriminate].
      injection E as <-.
      constructor; cbn [a_file set_job]; auto.
      + cbn. rewrite set_nth_length. exact Ij.
      + intros j' Hf i Hin. rewrite job_state_set in Hf.
        destruct ((j =? j') && (j <? length (a_jobs s))) eqn:Ec; [|eapply If; eauto].
        apply andb_true_iff in Ec. destruct Ec as [Ec _]. apply Nat.eqb_eq in Ec. subst j'.
        rewrite forallb_forall in Eg.
        assert (Hrow : In i (rows_of_job plan j)).
        { unfold rows_of_job. apply in_seq. unfold Assemble.in_job in Hin.
          apply andb_true_iff in Hin. destruct Hin as [A B]. apply Nat.leb_le in A, B. lia. }
        specialize (Eg i Hrow). apply existsb_exists in Eg. destruct Eg as (x & Hx & Ex).
        apply Nat.eqb_eq in Ex. subst x. eapply Ir; eauto.
      + intros j' v' Hr i Hin. rewrite job_state_set in Hr.
        destruct ((j =? j') && (j <? length (a_jobs s))); [discriminate|]. eapply Ir; eauto.
  Qed.

  Lemma init_inv file0 : AInv (length file0) (init plan file0).
  Proof.
    constructor; cbn.
    - reflexivity.
    - apply repeat_length.
    - intros j Hf. unfold job_state in Hf. cbn in Hf.
      destruct (nth_in_or_default j (repeat JIdle (length plan)) JIdle) as [Hin|Hd].
      + apply repeat_spec in Hin. congruence.
      + congruence.
    - intros j v Hr. unfold job_state in Hr. cbn in Hr.
      destruct (nth_in_or_default j (repeat JIdle (length plan)) JIdle) as [Hin|Hd].
      + apply repeat_spec in Hin. congruence.
      + congruence.
  Qed.

  Lemma run_inv file0 sched : AInv (length file0) (run step sched (init plan file0)).
  Proof. apply inv_run with (Inv := AInv (length file0)); [intros; eapply step_inv; eauto|apply init_inv]. Qed.

  (* Every schedule of the workers' events: once all jobs are finished, every row of the index
     hashes to its ID in the output file, and the file still has its (truncated) length. *)
  Theorem assemble_rows_ok file0 sched :
    let s := run step sched (init plan file0) in
    all_finished s = true ->
    length (a_file s) = length file0 /\
    forall i, i < length idx -> chunk_ok H idx (a_file s) i = true.
  Proof.
    intros s Hall. destruct (run_inv file0 sched) as [Il Ij If Ir]. fold s in Il, Ij, If, Ir.
    split; [exact Il|]. intros i Hi.
    destruct (row_has_job i Hi) as (j & Hj & Hin).
    apply (If j); [|exact Hin].
    unfold all_finished in Hall. rewrite forallb_forall in Hall.
    unfold job_state. specialize (Hall (nth j (a_jobs s) JIdle)).
    destruct (nth j (a_jobs s) JIdle) eqn:En; try reflexivity;
      (assert (Hx : In (nth j (a_jobs s) JIdle) (a_jobs s)) by (apply nth_In; lia);
       rewrite En in Hx; specialize (Hall Hx); discriminate).
  Qed.

  (* ... hence the output IS the blob the index describes (or H has a collision). *)
  Theorem assemble_safe file0 blob sched :
    index_describes H idx blob ->
    length file0 = length blob ->
    let s := run step sched (init plan file0) in
    all_finished s = true ->
    a_file s = blob \/ Collision H.
  Proof.
    intros Hd Hlen s Hall. destruct (assemble_rows_ok file0 sched Hall) as [Hl Hrows]. fold s in Hl, Hrows.
    assert (Hr : rows_ok H (a_file s) 0 idx = true).
    { apply rows_ok_of_chunks. intros i Hi. specialize (Hrows i Hi).
      unfold chunk_ok in Hrows. apply N.eqb_eq in Hrows. exact Hrows. }
    apply (verify_accepts_only_blob H 1%N (a_file s) idx blob Hd).
    apply verify_iff. destruct Hd as [Hdl Hdh]. split; [lia|].
    apply rows_ok_iff in Hr. exact Hr.
  Qed.
End AssembleProofs.
