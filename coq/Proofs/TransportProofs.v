(* Client and server composed (C14): data survives every combination of compression
   settings, missing stays missing, failure stays failure. *)
From Coq Require Import List NArith Arith Bool Lia ZifyN ZifyNat ZifyBool.
From DS Require Import Gen.Constants Base.Bytes Base.Hash Base.Hex Base.GoPath
     Model.HTTPServer Model.HTTPClient Proofs.HTTPServerProofs Proofs.HTTPClientProofs.
Import ListNotations.

Arguments IData {index_t} ix.
Arguments IMissing {index_t}.
Arguments IErr {index_t}.

(* path.Join(a, b) for two real elements *)
Lemma join_rel_plain a b : real_elem a -> real_elem b -> join [a; b] = a ++ slash :: b.
Proof.
  intros Ha Hb. unfold join. destruct (real_elem_head _ Ha) as [c [a' [-> _]]].
  cbn [forallb andb join_buf app].
  pose proof (clean_of_clean_rel 0 [c :: a'; b]) as Hc. cbn [repeat app join47] in Hc.
  apply Hc; [constructor; [assumption|constructor; [assumption|constructor]]|discriminate].
Qed.

(* RemoteHTTP.nameFromID produces the canonical path idFromPath expects *)
Lemma name_from_id_canonical unc ib :
  wf_bytes ib -> length ib = 32%nat ->
  name_from_id unc ib = [slash] ++ firstn 4 (hex ib) ++ [slash] ++ hex ib ++ chunk_ext (negb unc).
Proof.
  intros Wf Li. unfold name_from_id.
  pose proof (hex_lower_hexchars _ Wf) as Hl.
  assert (forallb is_hexchar (hex ib) = true) as Hh.
  { rewrite forallb_forall in *. intros x Hx. apply is_lower_hexchar_hexchar. now apply Hl. }
  pose proof (hex_length ib) as Lh. rewrite Li in Lh.
  rewrite join_rel_plain.
  - destruct unc; cbn [negb chunk_ext]; rewrite <- !app_assoc; reflexivity.
  - rewrite <- (app_nil_r (firstn 4 (hex ib))). apply hexchars_real; [now apply forallb_firstn| |intros []].
    destruct (hex ib) as [|a [|b [|c [|d s']]]]; cbn in Lh; try lia. discriminate.
  - rewrite <- (app_nil_r (hex ib)). apply hexchars_real; [exact Hh| |intros []].
    intros E. rewrite E in Lh. cbn in Lh. lia.
Qed.

(* a client whose compression setting differs from the server's is refused, never served *)
Lemma id_from_path_mismatch comp ib :
  wf_bytes ib -> length ib = 32%nat ->
  id_from_path comp ([slash] ++ firstn 4 (hex ib) ++ [slash] ++ hex ib ++ chunk_ext (negb comp)) = None.
Proof.
  intros Wf Li. destruct (id_from_path comp _) as [i|] eqn:E; [|reflexivity]. exfalso.
  apply id_from_path_sound in E as [sid [Ep [_ [_ [Ls _]]]]].
  apply (f_equal (@length byte)) in Ep. rewrite !app_length, !firstn_length, hex_length, Li, Ls in Ep.
  cbn [length] in Ep. destruct comp; vm_compute in Ep; lia.
Qed.

(* ---------- the client against a constant answer ---------- *)

Lemma const_200 budget b :
  issue_retryable budget (const_script (resp 200 b)) = (HStatus 200 b, 1%N).
Proof.
  rewrite (retry_transparent budget _ 0%N); [reflexivity|unfold max_attempts; lia|intros j Hj; lia|reflexivity].
Qed.

Lemma const_final budget st b :
  ((500 <=? st) && (st <? 600))%N = false ->
  issue_retryable budget (const_script (resp st b)) = (HStatus st b, 1%N).
Proof.
  intros Hst. rewrite (retry_transparent budget _ 0%N); [reflexivity|unfold max_attempts; lia|intros j Hj; lia|].
  unfold retry_at. cbn. exact Hst.
Qed.

Lemma const_500 budget b :
  issue_retryable budget (const_script (resp 500 b)) = (HStatus 0 [], max_attempts budget).
Proof. rewrite retry_exhausted; [reflexivity|]. intros j _. reflexivity. Qed.


Section Transport.
  Variable H : bytes -> id.
  Variable zcomp : bytes -> bytes.
  Variable zdecomp : bytes -> option bytes.
  (* the contract assumed of zstd *)
  Hypothesis z_roundtrip : forall x, zdecomp (zcomp x) = Some x.
  Hypothesis z_nonempty : forall x, zcomp x <> [].

  Notation to_storage := (to_storage zcomp).
  Notation from_storage := (from_storage zdecomp).
  Notation chunk_data := (chunk_data zdecomp).
  Notation new_chunk_from_storage := (new_chunk_from_storage H zdecomp).
  Notation chunk_handle := (chunk_handle H zcomp zdecomp).
  Notation remote_get_chunk := (remote_get_chunk H zcomp zdecomp).
  Notation remote_has_chunk := (remote_has_chunk H zcomp zdecomp).
  Notation remote_store_chunk := (remote_store_chunk H zcomp zdecomp).

  (* ---------- converter layers ---------- *)

  Lemma from_to_storage cs x : from_storage cs (to_storage cs x) = Some x.
  Proof.
    revert x. induction cs as [|l cs IH]; intros x; [reflexivity|].
    cbn [HTTPServer.to_storage HTTPServer.from_storage]. rewrite IH. destruct l. cbn. apply z_roundtrip.
  Qed.

  Lemma to_storage_nonempty cs x : x <> [] -> to_storage cs x <> [].
  Proof.
    revert x. induction cs as [|l cs IH]; intros x Hx; [exact Hx|].
    cbn [HTTPServer.to_storage]. apply IH. destruct l. cbn. apply z_nonempty.
  Qed.

  Lemma conv_equal_eq a b : conv_equal a b = true -> a = b.
  Proof.
    revert b. induction a as [|x a IH]; intros [|y b] E; cbn in E; try discriminate; [reflexivity|].
    destruct x, y. f_equal. now apply IH.
  Qed.

  Lemma nonempty_true {A} (l : list A) : l <> [] -> nonempty l = true.
  Proof. destruct l; [congruence|reflexivity]. Qed.

  (* a chunk built from the storage form of d: verification passes iff skipped or H d = i *)
  Lemma new_chunk_good i d cs skip :
    d <> [] -> (skip = true \/ H d = i) ->
    exists c, new_chunk_from_storage i (to_storage cs d) cs skip = Some c /\
              chunk_data c = Some d /\ ch_storage c = to_storage cs d /\ ch_conv c = cs /\
              chunk_id H zdecomp c = i.
  Proof.
    intros Hd Hv. pose proof (to_storage_nonempty cs d Hd) as Hs.
    unfold HTTPServer.new_chunk_from_storage. destruct skip.
    - eexists. split; [reflexivity|]. unfold HTTPServer.chunk_data. cbn [ch_data ch_storage ch_conv nonempty].
      rewrite (nonempty_true _ Hs), from_to_storage. repeat split.
    - destruct Hv as [Hv|Hv]; [discriminate|].
      unfold chunk_id, HTTPServer.chunk_data. cbn [ch_idcalc ch_data ch_storage ch_conv nonempty].
      rewrite (nonempty_true _ Hs), from_to_storage, Hv, N.eqb_refl.
      eexists. split; [reflexivity|]. cbn [ch_data ch_storage ch_conv ch_idcalc ch_id].
      rewrite (nonempty_true _ Hd). repeat split.
  Qed.

  (* HTTPHandler.get on such a chunk: pass-through or re-encoding, the body is the handler's
     storage form of d either way *)
  Lemma handler_get_good hconv c d :
    chunk_data c = Some d ->
    (ch_storage c <> [] -> ch_storage c = to_storage (ch_conv c) d) ->
    handler_get zcomp zdecomp hconv (GChunk c) = resp 200 (to_storage hconv d).
  Proof.
    intros Hd Hs. unfold handler_get.
    destruct (nonempty (ch_storage c) && conv_equal hconv (ch_conv c)) eqn:E.
    - apply andb_prop in E as [E1 E2]. apply conv_equal_eq in E2. subst hconv.
      rewrite Hs; [reflexivity|]. destruct (ch_storage c); [discriminate|discriminate].
    - rewrite Hd. reflexivity.
  Qed.

  (* ---------- GET ---------- *)

  Definition authorized (c : cfg) (auth : bytes) : Prop := c_auth c = [] \/ auth = c_auth c.

  Lemma authorized_ok c m p auth b : authorized c auth -> auth_denied c (mk_req m p auth b) = false.
  Proof.
    intros [Ha|Ha]; unfold auth_denied; cbn [r_auth]; [now rewrite Ha|].
    subst. rewrite beq_refl. now rewrite andb_false_r.
  Qed.

  Lemma serve_get c s ib auth :
    wf_bytes ib -> length ib = 32%nat -> authorized c auth ->
    fst (chunk_handle c s (mk_req GET (name_from_id (negb (c_compressed c)) ib) auth []))
    = handler_get zcomp zdecomp (handler_conv c) (local_get H zdecomp s (id_of_bytes ib)).
  Proof.
    intros Wf Li Ha. unfold HTTPServer.chunk_handle, chunk_serve.
    rewrite authorized_ok by exact Ha. unfold mk_req; cbn [r_path r_method r_body r_auth].
    rewrite name_from_id_canonical, negb_involutive by assumption.
    rewrite id_from_path_complete by assumption.
    reflexivity.
  Qed.

  (* transport_matrix: whatever the upstream store's, the server's (= the client's) compression
     setting and the verification switches, the client receives exactly the data stored. *)
  Lemma transport_get budget c s ib d auth cli_skip :
    wf_bytes ib -> length ib = 32%nat -> authorized c auth ->
    d <> [] -> H d = id_of_bytes ib ->
    lookup (id_of_bytes ib) (ls_files s) = Some (to_storage (opt_converters (ls_uncompressed s)) d) ->
    exists ch,
      remote_get_chunk budget (negb (c_compressed c)) cli_skip auth c s ib = (CData ch, 1%N) /\
      chunk_data ch = Some d.
  Proof.
    intros Wf Li Ha Hd Hh Hl. unfold HTTPClient.remote_get_chunk.
    rewrite serve_get by assumption. unfold local_get. rewrite Hl.
    destruct (new_chunk_good (id_of_bytes ib) d (opt_converters (ls_uncompressed s)) (ls_skip_verify s) Hd (or_intror Hh))
      as [c0 [E0 [D0 [S0 [C0 _]]]]].
    rewrite E0. rewrite (handler_get_good _ c0 d D0) by (intros _; now rewrite S0, C0).
    unfold get_chunk. rewrite get_object_eq, const_200. cbn [fst snd obj_of N.eqb Pos.eqb].
    unfold handler_conv.
    destruct (new_chunk_good (id_of_bytes ib) d (opt_converters (negb (c_compressed c))) cli_skip Hd (or_intror Hh))
      as [c1 [E1 [D1 _]]].
    rewrite E1. now exists c1.
  Qed.

  (* a missing chunk is reported as missing, after a single request *)
  Lemma transport_get_missing budget c s ib auth cli_skip :
    wf_bytes ib -> length ib = 32%nat -> authorized c auth ->
    lookup (id_of_bytes ib) (ls_files s) = None ->
    remote_get_chunk budget (negb (c_compressed c)) cli_skip auth c s ib = (CMissing, 1%N).
  Proof.
    intros Wf Li Ha Hl. unfold HTTPClient.remote_get_chunk.
    rewrite serve_get by assumption. unfold local_get. rewrite Hl. cbn [handler_get base_get].
    unfold get_chunk. rewrite get_object_eq, const_final by reflexivity. reflexivity.
  Qed.

  (* a failing upstream store is reported as an error, after max(1, budget) requests *)
  Lemma transport_get_failure budget c s ib auth cli_skip :
    wf_bytes ib -> length ib = 32%nat -> authorized c auth ->
    local_get H zdecomp s (id_of_bytes ib) = GFail ->
    remote_get_chunk budget (negb (c_compressed c)) cli_skip auth c s ib = (CErr, max_attempts budget).
  Proof.
    intros Wf Li Ha Hl. unfold HTTPClient.remote_get_chunk.
    rewrite serve_get by assumption. rewrite Hl. cbn [handler_get base_get].
    unfold get_chunk. rewrite get_object_eq, const_500. reflexivity.
  Qed.

  (* client and server disagree about compression: refused (400), reported as an error *)
  Lemma transport_get_mismatch budget c s ib auth cli_skip :
    wf_bytes ib -> length ib = 32%nat ->
    fst (remote_get_chunk budget (c_compressed c) cli_skip auth c s ib) = CErr.
  Proof.
    intros Wf Li. unfold HTTPClient.remote_get_chunk, HTTPServer.chunk_handle, chunk_serve.
    destruct (auth_denied c _).
    - cbn [chunk_exec fst]. unfold get_chunk. rewrite get_object_eq, const_final by reflexivity. reflexivity.
    - unfold mk_req; cbn [r_path r_method r_body r_auth]. rewrite name_from_id_canonical by assumption.
      rewrite id_from_path_mismatch by assumption. cbn [chunk_exec fst].
      unfold get_chunk. rewrite get_object_eq, const_final by reflexivity. reflexivity.
  Qed.

  (* an unauthorized client gets an error, never data, never "missing" *)
  Lemma transport_get_unauthorized budget cu c s ib auth cli_skip :
    c_auth c <> [] -> auth <> c_auth c ->
    remote_get_chunk budget cu cli_skip auth c s ib = (CErr, 1%N).
  Proof.
    intros Hc Ha. unfold HTTPClient.remote_get_chunk.
    rewrite chunk_auth_gate by assumption. cbn [fst].
    unfold get_chunk. rewrite get_object_eq, const_final by reflexivity. reflexivity.
  Qed.

  (* ---------- HEAD ---------- *)
  Lemma transport_has budget c s ib auth :
    wf_bytes ib -> length ib = 32%nat -> authorized c auth ->
    remote_has_chunk budget (negb (c_compressed c)) auth c s ib =
    (match lookup (id_of_bytes ib) (ls_files s) with Some _ => HasTrue | None => HasFalse end, 1%N).
  Proof.
    intros Wf Li Ha. unfold HTTPClient.remote_has_chunk, HTTPServer.chunk_handle, chunk_serve.
    rewrite authorized_ok by exact Ha. unfold mk_req; cbn [r_path r_method r_body r_auth].
    rewrite name_from_id_canonical, negb_involutive, id_from_path_complete by assumption.
    cbn [chunk_exec fst]. unfold local_has.
    destruct (lookup (id_of_bytes ib) (ls_files s)); cbn [handler_head];
      rewrite has_chunk_eq, const_final by reflexivity; reflexivity.
  Qed.

  (* ---------- a chunk server whose upstream store answers / fails per call ---------- *)

  (* HEAD: present -> true, absent -> false, an upstream FAILURE -> an error after max(1, budget)
     requests (500 is retried) -- never "false" *)
  Lemma upstream_head budget (u : has_result) :
    has_chunk budget (const_script (handler_head u)) =
    match u with
    | HasYes => (HasTrue, 1%N)
    | HasNo => (HasFalse, 1%N)
    | HasFail => (HasErr, max_attempts budget)
    end.
  Proof using Type.
    clear z_roundtrip z_nonempty. destruct u; cbn [handler_head]; rewrite has_chunk_eq.
    - now rewrite const_final by reflexivity.
    - now rewrite const_final by reflexivity.
    - now rewrite const_500.
  Qed.

  (* GET: absent -> ChunkMissing, an upstream failure -> an error, never "missing" *)
  Lemma upstream_get_not_present budget unc skip i (u : get_result) :
    u = GMissing \/ u = GFail ->
    get_chunk H zdecomp budget unc skip i (const_script (handler_get zcomp zdecomp (opt_converters unc) u)) =
    match u with GMissing => (CMissing, 1%N) | _ => (CErr, max_attempts budget) end.
  Proof using Type.
    clear z_roundtrip z_nonempty. intros [-> | ->]; cbn [handler_get base_get]; unfold get_chunk; rewrite get_object_eq.
    - now rewrite const_final by reflexivity.
    - now rewrite const_500.
  Qed.

  (* PUT: an upstream StoreChunk failure is answered 500 -> the client's StoreChunk fails *)
  Lemma upstream_put_failure budget :
    store_object budget (const_script (resp 500 [])) = (false, max_attempts budget).
  Proof using Type. clear z_roundtrip z_nonempty. rewrite store_object_eq, const_500. reflexivity. Qed.

  (* ---------- PUT, then GET ---------- *)
  Lemma transport_put budget c s ib d auth ch :
    wf_bytes ib -> length ib = 32%nat -> authorized c auth ->
    c_writable c = true -> c_store_writable c = true ->
    d <> [] -> H d = id_of_bytes ib -> chunk_data ch = Some d ->
    exists s',
      remote_store_chunk budget (negb (c_compressed c)) auth c s ib ch = ((true, 1%N), s') /\
      lookup (id_of_bytes ib) (ls_files s') = Some (to_storage (opt_converters (ls_uncompressed s)) d) /\
      ls_uncompressed s' = ls_uncompressed s /\
      forall j, j <> id_of_bytes ib -> lookup j (ls_files s') = lookup j (ls_files s).
  Proof.
    intros Wf Li Ha Hw Hsw Hd Hh Hch. unfold HTTPClient.remote_store_chunk, store_chunk_body. rewrite Hch.
    unfold HTTPServer.chunk_handle, chunk_serve. rewrite authorized_ok by exact Ha. unfold mk_req; cbn [r_path r_method r_body r_auth].
    rewrite name_from_id_canonical, negb_involutive, id_from_path_complete by assumption.
    unfold handler_put_pre. rewrite Hw, Hsw. cbn [negb]. unfold handler_conv.
    destruct (new_chunk_good (id_of_bytes ib) d (opt_converters (negb (c_compressed c))) (c_skip_verify_write c) Hd (or_intror Hh))
      as [c1 [E1 [D1 [_ [_ I1]]]]].
    rewrite E1. cbn [chunk_exec]. unfold handler_conv. rewrite E1. unfold local_store. rewrite D1, I1.
    eexists. split; [|split; [|split]].
    - rewrite store_object_eq, const_200. reflexivity.
    - cbn [ls_files]. apply lookup_update_same.
    - reflexivity.
    - intros j Hj. cbn [ls_files]. now apply lookup_update_other.
  Qed.

  (* ---------- indexes ---------- *)
  Variable index_t : Type.
  Variable idx_decode : bytes -> option index_t.
  Variable idx_encode : index_t -> bytes.
  Hypothesis idx_roundtrip : forall ix, idx_decode (idx_encode ix) = Some ix.

  Notation remote_get_index := (remote_get_index index_t idx_decode idx_encode).
  Notation remote_has_index := (remote_has_index index_t idx_decode idx_encode).
  Notation remote_store_index := (remote_store_index index_t idx_decode idx_encode).
  Notation index_handle := (index_handle index_t idx_decode idx_encode).

  (* a name the index store can hold: non-empty, no '/', no NUL, not "." or "..", at most 255 bytes *)
  Definition plain_name (n : bytes) : Prop :=
    n <> [] /\ noslash n /\ special_name n = false /\ bad_name n = false.

  Lemma base_plain n : plain_name n -> base ([slash] ++ n) = n.
  Proof. intros [Ne [Ns _]]. apply (base_app_slash [] n Ne Ns). Qed.

  Lemma index_get budget c d n auth :
    plain_name n -> authorized c auth ->
    remote_get_index budget auth c d n =
    match dlookup n d with
    | None => (IMissing, 1%N)
    | Some DDir | Some DErr => (IErr, 1%N)
    | Some (DFile b) => match idx_decode b with Some ix => (IData ix, 1%N) | None => (IErr, 1%N) end
    end.
  Proof.
    intros Hn Ha. unfold HTTPClient.remote_get_index, HTTPServer.index_handle, index_serve.
    rewrite authorized_ok by exact Ha. unfold mk_req; cbn [r_path r_method r_body r_auth]. rewrite base_plain by exact Hn.
    cbn [index_exec]. unfold fs_open. destruct Hn as [_ [_ [-> ->]]].
    destruct (dlookup n d) as [[b| |]|]; cbn [fst].
    - destruct (idx_decode b) as [ix|] eqn:E; cbn [fst]; unfold get_index.
      + rewrite get_object_eq, const_200. cbn [fst snd obj_of N.eqb Pos.eqb]. now rewrite idx_roundtrip.
      + rewrite get_object_eq, const_final by reflexivity. reflexivity.
    - unfold get_index. rewrite get_object_eq, const_final by reflexivity. reflexivity.
    - unfold get_index. rewrite get_object_eq, const_final by reflexivity. reflexivity.
    - unfold get_index. rewrite get_object_eq, const_final by reflexivity. reflexivity.
  Qed.

  (* index_head_truthful: 200 iff the entry is a file, 404 iff there is no entry of that name,
     an error (400) for a directory or an entry that cannot be opened *)
  Lemma index_head budget c d n auth :
    plain_name n -> authorized c auth ->
    remote_has_index budget auth c d n =
    (match dlookup n d with Some (DFile _) => HasTrue | Some _ => HasErr | None => HasFalse end, 1%N).
  Proof.
    intros Hn Ha. unfold HTTPClient.remote_has_index, HTTPServer.index_handle, index_serve.
    rewrite authorized_ok by exact Ha. unfold mk_req; cbn [r_path r_method r_body r_auth]. rewrite base_plain by exact Hn.
    cbn [index_exec]. unfold fs_open. destruct Hn as [_ [_ [-> ->]]].
    destruct (dlookup n d) as [[b| |]|]; cbn [fst index_head_status]; rewrite has_chunk_eq, const_final by reflexivity; reflexivity.
  Qed.

  Lemma index_head_missing_iff budget c d n auth :
    plain_name n -> authorized c auth ->
    (fst (remote_has_index budget auth c d n) = HasFalse <-> dlookup n d = None).
  Proof.
    intros Hn Ha. rewrite index_head by assumption. cbn [fst].
    destruct (dlookup n d) as [[b| |]|]; split; congruence.
  Qed.

  Lemma index_put_get budget c d n auth ix :
    plain_name n -> authorized c auth -> c_writable c = true -> c_store_writable c = true ->
    dlookup n d <> Some DDir -> dlookup n d <> Some DErr ->
    exists d',
      remote_store_index budget auth c d n ix = ((true, 1%N), d') /\
      remote_get_index budget auth c d' n = (IData ix, 1%N).
  Proof.
    intros Hn Ha Hw Hsw Hnd Hne. unfold HTTPClient.remote_store_index, HTTPServer.index_handle, index_serve.
    rewrite authorized_ok by exact Ha. unfold mk_req; cbn [r_path r_method r_body r_auth]. rewrite base_plain by exact Hn.
    rewrite Hw, Hsw, idx_roundtrip. cbn [negb index_exec]. rewrite idx_roundtrip.
    unfold fs_create. destruct Hn as [Ne [Ns [Hs Hb]]]. rewrite Hs, Hb.
    assert (exists d', match dlookup n d with Some DDir | Some DErr => None | _ => Some (dupdate n (DFile (idx_encode ix)) d) end = Some d'
                       /\ d' = dupdate n (DFile (idx_encode ix)) d) as [d' [E ->]].
    { destruct (dlookup n d) as [[b| |]|]; try (eexists; split; reflexivity); congruence. }
    rewrite E. eexists. split; [rewrite store_object_eq, const_200; reflexivity|].
    rewrite index_get by (try assumption; repeat split; assumption).
    unfold dupdate. cbn [dlookup]. rewrite beq_refl, idx_roundtrip. reflexivity.
  Qed.

  (* ---------- index server in front of a remote index store ---------- *)
  Notation proxied_get_index_gen := (proxied_get_index_gen index_t idx_decode idx_encode).
  Notation proxied_get_index := (proxied_get_index index_t idx_decode idx_encode).
  Notation proxied_get_index_prefix := (proxied_get_index_prefix index_t idx_decode idx_encode).
  Notation get_index := (get_index index_t idx_decode).

  Lemma proxied_index_gen prefix budget budget_up rs_up :
    proxied_get_index_gen prefix budget budget_up rs_up =
    match fst (get_index budget_up rs_up) with
    | IData ix => (IData ix, 1%N)
    | IMissing => (if prefix then IErr else IMissing, 1%N)
    | IErr => (IErr, 1%N)
    end.
  Proof.
    unfold HTTPClient.proxied_get_index_gen. destruct (fst (get_index budget_up rs_up)) as [ix| |]; cbn [index_get_proxied_gen].
    - unfold HTTPClient.get_index at 1. rewrite get_object_eq, const_200. cbn [fst snd obj_of N.eqb Pos.eqb]. now rewrite idx_roundtrip.
    - destruct prefix; unfold HTTPClient.get_index at 1; rewrite get_object_eq, const_final by reflexivity; reflexivity.
    - unfold HTTPClient.get_index at 1. rewrite get_object_eq, const_final by reflexivity. reflexivity.
  Qed.

  (* through a proxying index server the client sees exactly what a direct client of the upstream
     store would see: the index, "missing", or an error -- after one request *)
  Lemma proxied_index budget budget_up rs_up :
    proxied_get_index budget budget_up rs_up = (fst (get_index budget_up rs_up), 1%N).
  Proof.
    unfold HTTPClient.proxied_get_index. rewrite proxied_index_gen.
    destruct (fst (get_index budget_up rs_up)); reflexivity.
  Qed.

  (* before the fix: a missing index upstream reached the client as an error *)
  Lemma proxied_index_prefix budget budget_up rs_up :
    fst (get_index budget_up rs_up) = IMissing ->
    proxied_get_index_prefix budget budget_up rs_up = (IErr, 1%N).
  Proof. intros E. unfold HTTPClient.proxied_get_index_prefix. now rewrite proxied_index_gen, E. Qed.
End Transport.
