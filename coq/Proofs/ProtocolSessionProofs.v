(* Lemmas about Model/ProtocolSession.v (C14): message framing and one protocol session. *)
From Coq Require Import List NArith Arith Bool Lia ZifyN ZifyNat ZifyBool.
From DS Require Import Gen.Constants Base.Bytes Base.Hash Base.LE64 Model.HTTPServer Model.ProtocolSession Proofs.TransportProofs.
Import ListNotations.
Local Open Scope N_scope.

(* ---------- framing ---------- *)

Definition wf_message (m : message) : Prop :=
  m_type m < two64 /\ N.of_nat (length (m_body m)) + 16 <= MaxInt64.

Lemma read_n_app n a rest : N.of_nat (length a) = n -> n <= MaxInt64 -> read_n n (a ++ rest) = Some (a, rest).
Proof.
  intros Hl Hn. unfold read_n.
  replace (MaxInt64 <? n) with false by lia.
  replace (N.of_nat (length (a ++ rest)) <? n) with false by (rewrite app_length; lia).
  replace (N.to_nat n) with (length a) by lia.
  rewrite firstn_app, firstn_all, Nat.sub_diag, skipn_app, skipn_all, Nat.sub_diag. cbn [firstn skipn app].
  now rewrite app_nil_r.
Qed.

(* message_roundtrip: whatever follows on the stream *)
Lemma message_roundtrip m rest :
  wf_message m -> read_message (write_message m ++ rest) = RMsg m rest.
Proof.
  intros [Ht Hb]. unfold read_message, write_message. rewrite <- !app_assoc.
  rewrite (read_n_app 8 (le64 _)) by (rewrite ?le64_length; lia).
  rewrite un_le64_le64 by lia.
  replace (16 + N.of_nat (length (m_body m)) <? 16) with false by lia.
  rewrite app_assoc.
  rewrite (read_n_app _ (le64 (m_type m) ++ m_body m)) by (rewrite ?app_length, ?le64_length; lia).
  rewrite firstn_app, firstn_all2 by (rewrite le64_length; lia).
  rewrite le64_length. cbn [Nat.sub firstn]. rewrite app_nil_r.
  rewrite skipn_app, skipn_all2 by (rewrite le64_length; lia).
  rewrite le64_length. cbn [Nat.sub skipn app].
  rewrite un_le64_le64 by exact Ht. destruct m; reflexivity.
Qed.

(* a stream that ends inside a message is an error, never a message *)
Lemma read_message_empty : read_message [] = RErr.
Proof. reflexivity. Qed.

(* ---------- ids on the wire ---------- *)

Lemma be_bytes_length n x : length (be_bytes n x) = n.
Proof. revert x. induction n as [|n IH]; intros x; cbn [be_bytes]; [reflexivity|]. rewrite app_length, IH. cbn. lia. Qed.

Lemma id_of_bytes_app a b : id_of_bytes (a ++ [b]) = id_of_bytes a * 256 + b.
Proof. unfold id_of_bytes. now rewrite fold_left_app. Qed.

Lemma id_of_be_bytes n x : id_of_bytes (be_bytes n x) = x mod 256 ^ N.of_nat n.
Proof.
  revert x. induction n as [|n IH]; intros x.
  - cbn. now rewrite N.mod_1_r.
  - cbn [be_bytes]. rewrite id_of_bytes_app, IH.
    replace (N.of_nat (S n)) with (N.succ (N.of_nat n)) by lia. rewrite N.pow_succ_r'.
    rewrite N.mod_mul_r by (try apply N.pow_nonzero; lia). lia.
Qed.

Definition wf_id (i : id) : Prop := i < 256 ^ 32.

Lemma id_bytes_roundtrip i : wf_id i -> id_of_bytes (id_bytes i) = i.
Proof. intros Hi. unfold id_bytes. rewrite id_of_be_bytes. apply N.mod_small. exact Hi. Qed.

Lemma wf_request i : wf_message (request_msg i).
Proof. split; [vm_compute; reflexivity|]. cbn [request_msg m_body]. rewrite app_length, le64_length. unfold id_bytes. rewrite be_bytes_length. vm_compute. discriminate. Qed.

Lemma wf_missing i : wf_message (missing_msg i).
Proof. split; [vm_compute; reflexivity|]. cbn [missing_msg m_body]. unfold id_bytes. rewrite be_bytes_length. vm_compute. discriminate. Qed.

Section ProtocolSessionProofs.
  Variable H : bytes -> id.
  Variable zcomp : bytes -> bytes.
  Variable zdecomp : bytes -> option bytes.
  Hypothesis z_roundtrip : forall x, zdecomp (zcomp x) = Some x.
  Hypothesis z_nonempty : forall x, zcomp x <> [].

  Notation serve_loop_gen := (serve_loop_gen H zcomp zdecomp).
  Notation request_chunk_reply := (request_chunk_reply H zdecomp).
  Notation client_replies := (client_replies H zdecomp).
  Notation session := (session H zcomp zdecomp).
  Notation session_prefix := (session_prefix H zcomp zdecomp).

  (* a chunk as any store may hand it to the server: it has data d *)
  Definition good_chunk (c : chunk) (d : bytes) : Prop :=
    chunk_data zdecomp c = Some d /\ N.of_nat (length (zcomp d)) + 56 <= MaxInt64.

  Lemma wf_chunk_msg i f d : f < two64 -> N.of_nat (length (zcomp d)) + 56 <= MaxInt64 -> wf_message (chunk_msg i f (zcomp d)).
  Proof.
    intros Hf Hl. split; [vm_compute; reflexivity|]. cbn [chunk_msg m_body].
    rewrite !app_length, le64_length. unfold id_bytes. rewrite be_bytes_length. lia.
  Qed.

  (* ---------- one step of the server ---------- *)

  Lemma serve_request sam fuel store i rest :
    wf_id i ->
    serve_loop_gen sam (S fuel) store (write_message (request_msg i) ++ rest) =
    match store i with
    | GMissing => write_message (missing_msg i) ++ (if sam then [] else serve_loop_gen sam fuel store rest)
    | GFail => []
    | GChunk c =>
        match chunk_data zdecomp c with
        | None => []
        | Some d => write_message (chunk_msg (chunk_id H zdecomp c) CaProtocolChunkCompressed (zcomp d))
                      ++ serve_loop_gen sam fuel store rest
        end
    end.
  Proof using Type.
    clear z_roundtrip z_nonempty. intros Hi. cbn [ProtocolSession.serve_loop_gen]. rewrite message_roundtrip by apply wf_request.
    cbn [request_msg m_type m_body]. rewrite N.eqb_refl.
    replace (N.of_nat (length (le64 CaProtocolRequestHighPriority ++ id_bytes i)) <? 40) with false
      by (rewrite app_length, le64_length; unfold id_bytes; rewrite be_bytes_length; reflexivity).
    rewrite skipn_app, skipn_all2 by (rewrite le64_length; lia). rewrite le64_length. cbn [Nat.sub skipn app].
    rewrite firstn_all2 by (unfold id_bytes; rewrite be_bytes_length; lia).
    rewrite id_bytes_roundtrip by exact Hi. reflexivity.
  Qed.

  (* ---------- one step of the client ---------- *)

  Lemma reply_missing i j rest :
    request_chunk_reply i (write_message (missing_msg j) ++ rest) = (PMissing, rest).
  Proof using Type.
    clear z_roundtrip z_nonempty. unfold ProtocolSession.request_chunk_reply. rewrite message_roundtrip by apply wf_missing. reflexivity.
  Qed.

  Lemma reply_chunk i j d rest :
    d <> [] -> H d = i -> N.of_nat (length (zcomp d)) + 56 <= MaxInt64 ->
    exists c, request_chunk_reply i (write_message (chunk_msg j CaProtocolChunkCompressed (zcomp d)) ++ rest) = (PData c, rest)
              /\ chunk_data zdecomp c = Some d.
  Proof.
    intros Hd Hh Hl. unfold ProtocolSession.request_chunk_reply.
    rewrite message_roundtrip by (apply wf_chunk_msg; [vm_compute; reflexivity|exact Hl]).
    cbn [chunk_msg m_type m_body].
    replace (CaProtocolChunk =? CaProtocolMissing) with false by reflexivity. rewrite N.eqb_refl.
    replace (N.of_nat (length (le64 CaProtocolChunkCompressed ++ id_bytes j ++ zcomp d)) <? 40) with false
      by (rewrite !app_length, le64_length; unfold id_bytes; rewrite be_bytes_length; lia).
    rewrite app_assoc, skipn_app, skipn_all2
      by (rewrite app_length, le64_length; unfold id_bytes; rewrite be_bytes_length; lia).
    rewrite app_length, le64_length. unfold id_bytes. rewrite be_bytes_length. cbn [Nat.add Nat.sub skipn app].
    unfold new_chunk_from_storage, chunk_id, chunk_data. cbn [ch_idcalc ch_data ch_storage ch_conv nonempty].
    pose proof (z_nonempty d) as Hz. destruct (zcomp d) as [|x zs] eqn:Ez; [congruence|]. cbn [nonempty].
    cbn [from_storage layer_from]. rewrite <- Ez, z_roundtrip, Hh, N.eqb_refl.
    eexists. split; [reflexivity|]. cbn [ch_data ch_storage ch_conv].
    destruct d; [congruence|reflexivity].
  Qed.

  Lemma reply_eof i : request_chunk_reply i [] = (PErr, []).
  Proof. reflexivity. Qed.

  Lemma replies_eof ids : client_replies ids [] = repeat PErr (length ids).
  Proof. induction ids as [|i r IH]; [reflexivity|]. cbn [ProtocolSession.client_replies length repeat]. rewrite reply_eof, IH. reflexivity. Qed.

  (* ---------- a whole session ---------- *)

  (* what the store holds for the ids asked: data_of i, hashing to i *)
  Definition present (store : id -> get_result) (data_of : id -> bytes) (i : id) : Prop :=
    wf_id i /\ data_of i <> [] /\ H (data_of i) = i /\
    exists c, store i = GChunk c /\ good_chunk c (data_of i).
  Definition absent (store : id -> get_result) (i : id) : Prop := wf_id i /\ store i = GMissing.
  Definition servable store data_of i : Prop := present store data_of i \/ absent store i.

  Definition is_data (data_of : id -> bytes) (i : id) (r : chunk_res) : Prop :=
    exists c, r = PData c /\ chunk_data zdecomp c = Some (data_of i).

  (* the truthful answer: CHUNK with its data for a present chunk, MISSING for a missing one *)
  Definition answered store data_of (i : id) (r : chunk_res) : Prop :=
    (present store data_of i /\ is_data data_of i r) \/ (absent store i /\ r = PMissing).

  (* session_truthful, generalised for the induction: whatever follows the server's output *)
  Lemma session_truthful_gen store data_of ids : forall fuel rest_out,
    Forall (servable store data_of) ids -> (length ids <= fuel)%nat ->
    Forall2 (answered store data_of) ids
      (client_replies ids (serve_loop_gen false fuel store (client_requests ids) ++ rest_out)).
  Proof.
    induction ids as [|i r IH]; intros fuel rest_out F Hf.
    - constructor.
    - inversion F as [|? ? Hs Fr]; subst.
      destruct fuel as [|fuel]; [cbn [length] in Hf; lia|].
      cbn [client_requests ProtocolSession.client_replies].
      destruct Hs as [Hp|Ha].
      + pose proof Hp as Hp'. destruct Hp as [Hi [Hd [Hh [c [Es [Ed Hl]]]]]].
        rewrite serve_request by exact Hi. rewrite Es, Ed. rewrite <- app_assoc.
        destruct (reply_chunk i (chunk_id H zdecomp c) (data_of i)
                    (serve_loop_gen false fuel store (client_requests r) ++ rest_out) Hd Hh Hl) as [c' [Er Hc']].
        rewrite Er. constructor; [left; split; [exact Hp'|exists c'; split; [reflexivity|exact Hc']]|].
        apply IH; [exact Fr|cbn [length] in Hf; lia].
      + pose proof Ha as Ha'. destruct Ha as [Hi Em].
        rewrite serve_request by exact Hi. rewrite Em. rewrite <- app_assoc, reply_missing.
        constructor; [right; split; [exact Ha'|reflexivity]|].
        apply IH; [exact Fr|cbn [length] in Hf; lia].
  Qed.

  (* session_truthful: every request of a session is answered CHUNK (with exactly its data)
     for a present chunk and MISSING for a missing one, in any order and any number *)
  Lemma session_truthful store data_of ids :
    Forall (servable store data_of) ids -> Forall2 (answered store data_of) ids (session store ids).
  Proof.
    intros F. unfold ProtocolSession.session, session_gen.
    rewrite <- (app_nil_r (ProtocolSession.serve_loop_gen _ _ _ _ _ _ _)).
    apply session_truthful_gen; [exact F|lia].
  Qed.

  (* ... until a store FAILURE ends the session: the failing request and every later one are errors *)
  Lemma session_until_failure store data_of pre f post :
    Forall (servable store data_of) pre -> wf_id f -> store f = GFail ->
    exists rs,
      session store (pre ++ f :: post) = rs ++ repeat PErr (S (length post)) /\
      Forall2 (answered store data_of) pre rs.
  Proof.
    intros F Hf Ef. unfold ProtocolSession.session, session_gen.
    assert (forall fuel, (length pre < fuel)%nat ->
              exists rs, client_replies (pre ++ f :: post)
                           (serve_loop_gen false fuel store (client_requests (pre ++ f :: post)))
                         = rs ++ repeat PErr (S (length post)) /\ Forall2 (answered store data_of) pre rs) as Hgen.
    { induction pre as [|i r IH]; intros fuel Hfu.
      - destruct fuel as [|fuel]; [lia|]. cbn [app client_requests]. rewrite serve_request by exact Hf. rewrite Ef.
        exists []. split; [|constructor]. cbn [app]. change (f :: post) with ([f] ++ post).
        rewrite replies_eof. rewrite app_length. reflexivity.
      - inversion F as [|? ? Hs Fr]; subst.
        destruct fuel as [|fuel]; [lia|]. cbn [app client_requests ProtocolSession.client_replies].
        destruct (IH Fr fuel ltac:(cbn in Hfu; lia)) as [rs [Ers Hrs]].
        destruct Hs as [Hp|Ha].
        + pose proof Hp as Hp'. destruct Hp as [Hi [Hd [Hh [c [Es [Ed Hl]]]]]].
          rewrite serve_request by exact Hi. rewrite Es, Ed.
          destruct (reply_chunk i (chunk_id H zdecomp c) (data_of i)
                      (serve_loop_gen false fuel store (client_requests (r ++ f :: post))) Hd Hh Hl) as [c' [Er Hc']].
          rewrite Er, Ers. exists (PData c' :: rs). split; [reflexivity|].
          constructor; [left; split; [exact Hp'|exists c'; split; [reflexivity|exact Hc']]|exact Hrs].
        + pose proof Ha as Ha'. destruct Ha as [Hi Em].
          rewrite serve_request by exact Hi. rewrite Em, reply_missing, Ers.
          exists (PMissing :: rs). split; [reflexivity|].
          constructor; [right; split; [exact Ha'|reflexivity]|exact Hrs]. }
    apply Hgen. rewrite app_length. cbn. lia.
  Qed.

  Lemma session_store_failure store i :
    wf_id i -> store i = GFail -> session store [i] = [PErr].
  Proof using Type.
    clear z_roundtrip z_nonempty. intros Hi Ef. unfold ProtocolSession.session, session_gen. cbn [client_requests length].
    rewrite serve_request by exact Hi. rewrite Ef. reflexivity.
  Qed.

  (* The code BEFORE fix 9771602: replies are correct up to and including the first MISSING;
     the server had then returned from Serve, and every later request on the session -- for a
     present or for a missing chunk -- failed. *)
  Lemma session_prefix_after_missing store data_of pre m post :
    Forall (present store data_of) pre -> wf_id m -> store m = GMissing ->
    exists rs,
      session_prefix store (pre ++ m :: post) = rs ++ PMissing :: repeat PErr (length post) /\
      Forall2 (is_data data_of) pre rs.
  Proof.
    intros F Hm Em. unfold ProtocolSession.session_prefix, session_gen.
    assert (forall fuel, (length pre < fuel)%nat ->
              exists rs, client_replies (pre ++ m :: post)
                           (serve_loop_gen true fuel store (client_requests (pre ++ m :: post)))
                         = rs ++ PMissing :: repeat PErr (length post) /\ Forall2 (is_data data_of) pre rs) as Hgen.
    { induction pre as [|i r IH]; intros fuel Hf.
      - destruct fuel as [|fuel]; [lia|]. cbn [app client_requests]. rewrite serve_request by exact Hm. rewrite Em.
        exists []. split; [|constructor]. cbn [app ProtocolSession.client_replies].
        rewrite reply_missing, replies_eof. reflexivity.
      - inversion F as [|? ? [Hi [Hd [Hh [c [Es [Ed Hl]]]]]] Fr]; subst.
        destruct fuel as [|fuel]; [lia|]. cbn [app client_requests]. rewrite serve_request by exact Hi. rewrite Es, Ed.
        destruct (IH Fr fuel ltac:(cbn in Hf; lia)) as [rs [Ers Hrs]].
        cbn [ProtocolSession.client_replies].
        destruct (reply_chunk i (chunk_id H zdecomp c) (data_of i)
                    (serve_loop_gen true fuel store (client_requests (r ++ m :: post))) Hd Hh Hl) as [c' [Er Hc']].
        rewrite Er, Ers. exists (PData c' :: rs). split; [reflexivity|]. constructor; [exists c'; split; [reflexivity|exact Hc']|exact Hrs]. }
    apply Hgen. rewrite app_length. cbn. lia.
  Qed.
  (* ---------- the store behind `desync pull`: a LocalStore in either format ---------- *)

  (* what a LocalStore holds for the ids asked: nothing, or the chunk in the store's own format *)
  Definition held (s : lstore) (data_of : id -> bytes) (i : id) : Prop :=
    wf_id i /\
    (lookup i (ls_files s) = None \/
     (data_of i <> [] /\ H (data_of i) = i /\ N.of_nat (length (zcomp (data_of i))) + 56 <= MaxInt64 /\
      lookup i (ls_files s) = Some (to_storage zcomp (opt_converters (ls_uncompressed s)) (data_of i)))).

  Lemma held_servable s data_of i :
    held s data_of i -> servable (local_get H zdecomp s) data_of i.
  Proof.
    intros [Hi [Hn|[Hd [Hh [Hl Hf]]]]].
    - right. split; [exact Hi|]. unfold local_get. now rewrite Hn.
    - left. split; [exact Hi|]. split; [exact Hd|]. split; [exact Hh|].
      destruct (new_chunk_good H zcomp zdecomp z_roundtrip z_nonempty i (data_of i)
                  (opt_converters (ls_uncompressed s)) (ls_skip_verify s) Hd (or_intror Hh)) as [c [E [D _]]].
      exists c. split; [unfold local_get; now rewrite Hf, E|]. split; [exact D|exact Hl].
  Qed.

  (* whatever format the store keeps its chunks in (compressed like casync, or plain) and whether
     or not it verifies on read, every request of a session is answered truthfully: the wire
     always carries the COMPRESSED form of the chunk's data *)
  Lemma session_over_local_store s data_of ids :
    Forall (held s data_of) ids ->
    Forall2 (answered (local_get H zdecomp s) data_of) ids (session (local_get H zdecomp s) ids).
  Proof.
    intros F. apply session_truthful. eapply Forall_impl; [|exact F]. intros i. apply held_servable.
  Qed.
End ProtocolSessionProofs.
