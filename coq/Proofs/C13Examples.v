(* The computed examples of Props/C13.v (vm_compute); kept in a Proofs file so that the property
   file, which is recompiled at every check for its Print Assumptions, stays cheap. *)
From Coq Require Import List NArith Arith.
From DS Require Import Gen.Constants Base.Bytes Model.Format Model.Goodbye Model.Sip Model.Tar.
Import ListNotations.

Lemma C13_sip_vectors_proof :
  sip_ref_computed = sip_ref_vectors.
Proof. vm_compute. reflexivity. Qed.

Lemma C13_bst_example_proof :
  make_goodbye_bst [(10, 1, 50); (20, 1, 30); (30, 1, 50); (40, 1, 10); (50, 1, 70); (60, 1, 60)]%N
  = Some [(30, 1, 50); (20, 1, 30); (50, 1, 70); (40, 1, 10); (10, 1, 50); (60, 1, 60)]%N.
Proof. vm_compute. reflexivity. Qed.

Lemma C13_lookup_example_proof :
  casync_lookup [(30, 1, 50); (20, 1, 30); (50, 1, 70); (40, 1, 10); (10, 1, 50); (60, 1, 60)]%N 60%N
  = Some (5, (60, 1, 60)%N).
Proof. vm_compute. reflexivity. Qed.

Lemma C13_tar_example_proof :
  (let m := mkMeta 493 0 0 1600000000000000000 in
   let t := NDir m [] [([97], NFile m [] [1; 2; 3]); ([98], NDir m [] [([120], NFile m [] [])]);
                       ([99], NSymlink m [] [97]); ([100], NDevice m [] true 1 3)] in
   validate true (tar_bytes t) = Some t)%N.
Proof. vm_compute. reflexivity. Qed.

Lemma C13_tar_stream_example_proof :
  (let m := mkMeta 493 0 0 1600000000000000000 in
   let t := NDir m [] [([98], NFile m [] [1]); ([97], NFile m [] [])] in
   validate false (tar_bytes t) = Some t /\ validate true (tar_bytes t) = None)%N.
Proof. vm_compute. split; reflexivity. Qed.

