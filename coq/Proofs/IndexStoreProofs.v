From Coq Require Import List NArith Arith Bool Lia.
From DS Require Import Base.Bytes Base.LE64 Model.Format Model.Index Model.IndexStore
     Proofs.FormatProofs Proofs.IndexProofs.
Import ListNotations.

(* whatever was stored under the name before, the file is exactly what WriteTo writes *)
Theorem store_overwrites old i : local_store_index old i = encode_index i.
Proof.
  unfold local_store_index, store_index_file, write_at_start, open_for_write.
  destruct old; rewrite skipn_nil; apply app_nil_r.
Qed.

Theorem store_history_get d old i1 i2 :
  wf_index i2 -> digest_ok d (ix_flags i2) = true ->
  local_get_index d (local_store_index (Some (local_store_index old i1)) i2) = Ok i2.
Proof. intros Hwf Hd. rewrite store_overwrites. unfold local_get_index. now apply index_roundtrip. Qed.

(* without O_TRUNC the tail of a longer old file survives *)
Lemma store_no_trunc old i :
  store_index_file false (Some old) i = encode_index i ++ skipn (length (encode_index i)) old.
Proof. reflexivity. Qed.
