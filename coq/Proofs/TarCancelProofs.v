From Coq Require Import List Arith Bool Lia.
From DS Require Import Model.TarCancel.
Import ListNotations.

(* Tar returns nil only for a complete archive: every payload has the size its header announces,
   wherever the cancellation arrives (also inside the payload of the last entry). *)
Theorem tar_walk_sound sizes cancel_at : forall i cancelled w,
  tar_walk true sizes i cancelled cancel_at = (w, WNil) -> w = sizes.
Proof.
  induction sizes as [|sz rest IH]; intros i cancelled w E; cbn in E.
  - inversion E. reflexivity.
  - destruct cancelled; [discriminate|].
    destruct (tar_walk true rest (S i) _ cancel_at) as [w' res] eqn:Er.
    inversion E; subst. f_equal.
    + destruct cancel_at as [[e r]|]; [destruct (e =? i)|]; reflexivity.
    + eapply IH. exact Er.
Qed.

(* a cancellation that arrives before the last entry is reported *)
Theorem tar_walk_interrupted sizes e r :
  S e < length sizes -> snd (tar_walk true sizes 0 false (Some (e, r))) = WInterrupted.
Proof.
  assert (G : forall sizes i, i <= e -> S (e - i) < length sizes ->
              snd (tar_walk true sizes i false (Some (e, r))) = WInterrupted).
  { induction sizes0 as [|sz rest IH]; intros i Hi Hl; cbn in Hl; [lia|]. cbn.
    destruct (e =? i) eqn:Ee.
    - destruct rest as [|sz2 rest2]; [cbn in Hl; lia|]. cbn. reflexivity.
    - apply Nat.eqb_neq in Ee.
      destruct (tar_walk true rest (S i) false (Some (e, r))) as [w res] eqn:Er. cbn.
      change res with (snd (w, res)). rewrite <- Er. apply IH; [lia|].
      replace (e - S i) with (e - i - 1) by lia. lia. }
  intros Hl. apply G; [lia|]. replace (e - 0) with e by lia. exact Hl.
Qed.

(* the variant whose payload reader stops at the cancellation: cancelled inside the LAST payload it returns nil
   for an archive whose last payload is shorter than its header says *)
Theorem tar_walk_mutant_refuted :
  exists sizes e r,
    tar_walk false sizes 0 false (Some (e, r)) = ([3; 2], WNil) /\ sizes = [3; 5] /\
    tar_walk true sizes 0 false (Some (e, r)) = (sizes, WNil).
Proof. exists [3; 5], 1, 2. repeat split; reflexivity. Qed.
