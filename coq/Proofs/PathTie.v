(* The paths of ArchiveDecoder (archive.go) as strings and as component lists.

   Model/Archive.v keeps a.dir as the list of its components and uses
       join dir name        for path.Join(a.dir, name)
       removelast dir       for filepath.Dir(a.dir)
   Here this reading is justified with the string-level models of Go's path package
   (Base/GoPath.v): for a directory made of real components (not "", ".", "..", no '/'),
   rendered as Go holds it -- "." for the root, the components joined by '/' otherwise --

       path.Join(render ds, nm) = render (join ds nm)       (also for nm = "", the root entry)
       path.Dir(render ds)      = render (removelast ds)

   and an entry name passes the decoder's check exactly when it is a real component. *)
From Coq Require Import List NArith Bool Lia.
From DS Require Import Base.Bytes Base.GoPath Model.Archive.
Import ListNotations.
Local Open Scope N_scope.

Definition render_dir (ds : list bytes) : bytes :=
  match ds with [] => [dot] | _ :: _ => join47 ds end.

(* ---------- the decoder's name check ---------- *)

Lemma bytes_eqb_spec a b : Archive.bytes_eqb a b = true <-> a = b.
Proof.
  revert b. induction a as [|x a IH]; intros [|y b]; cbn [Archive.bytes_eqb]; try (split; [discriminate|congruence]); [tauto|].
  unfold byte_eqb. rewrite andb_true_iff, N.eqb_eq, IH. split; [intros [-> ->]; reflexivity|intros H; inversion H; auto].
Qed.

Lemma existsb_slash nm : existsb (fun x => x =? 47) nm = false <-> noslash nm.
Proof.
  unfold noslash. split.
  - intros H Hin. assert (Ht : existsb (fun x => x =? 47) nm = true); [|congruence].
    apply existsb_exists. exists slash. split; [exact Hin|reflexivity].
  - intros H. destruct (existsb (fun x => x =? 47) nm) eqn:E; [|reflexivity].
    apply existsb_exists in E. destruct E as (x & Hin & Hx). apply N.eqb_eq in Hx. subst x. contradiction.
Qed.

Lemma bytes_eqb_false a b : Archive.bytes_eqb a b = false <-> a <> b.
Proof.
  split.
  - intros H E. apply bytes_eqb_spec in E. congruence.
  - intros H. destruct (Archive.bytes_eqb a b) eqn:E; [|reflexivity]. apply bytes_eqb_spec in E. contradiction.
Qed.

Lemma is_dot_false c : is_dot c = false <-> c <> dot.
Proof. unfold is_dot. apply N.eqb_neq. Qed.

Lemma kind_real nm : kind nm = EReal <-> nm <> [] /\ nm <> [dot] /\ nm <> [dot; dot].
Proof.
  destruct nm as [|x [|y [|z r]]]; unfold kind.
  - split; [discriminate|intros [H _]; congruence].
  - destruct (is_dot x) eqn:Ex.
    + apply is_dot_true in Ex. subst x. split; [discriminate|intros (_ & H & _); congruence].
    + apply is_dot_false in Ex. split; [intros _; repeat split; congruence|reflexivity].
  - destruct (is_dot x) eqn:Ex.
    + apply is_dot_true in Ex. subst x. destruct (is_dot y) eqn:Ey.
      * apply is_dot_true in Ey. subst y. split; [discriminate|intros (_ & _ & H); congruence].
      * apply is_dot_false in Ey. split; [intros _; repeat split; congruence|reflexivity].
    + apply is_dot_false in Ex. split; [intros _; repeat split; congruence|reflexivity].
  - destruct (is_dot x) eqn:Ex.
    + destruct (is_dot y) eqn:Ey; (split; [intros _; repeat split; congruence|reflexivity]).
    + split; [intros _; repeat split; congruence|reflexivity].
Qed.

Theorem bad_name_real nm : bad_name nm = false <-> real_elem nm.
Proof.
  unfold real_elem. rewrite kind_real. destruct nm as [|x r].
  - cbn. split; [discriminate|intros [[H _] _]; congruence].
  - unfold bad_name. rewrite !orb_false_iff, existsb_slash, !bytes_eqb_false.
    change [46] with [dot]. change [46; 46] with [dot; dot].
    split; [intros [[H1 H2] H3]; repeat split; [discriminate|assumption..]|intros [(_ & H1 & H2) H3]; repeat split; assumption].
Qed.

(* ---------- Clean on the strings that occur ---------- *)

Lemma split47_join_app : forall ds r, Forall noslash ds -> ds <> [] ->
  split47 (join47 ds ++ slash :: r) = ds ++ split47 r.
Proof.
  induction ds as [|e es IH]; intros r F Hne; [congruence|].
  inversion F as [|? ? He Fes]; subst. rewrite join47_cons. destruct es as [|e2 es'].
  - cbn [sepj app]. rewrite app_nil_r. apply split47_app_slash. exact He.
  - cbn [sepj]. rewrite <- app_assoc. cbn [app]. rewrite split47_app_slash by exact He.
    rewrite IH; [reflexivity|exact Fes|discriminate].
Qed.

Lemma real_noslash ds : Forall real_elem ds -> Forall noslash ds.
Proof. intros F. eapply Forall_impl; [|exact F]. now intros a []. Qed.

Lemma join47_head ds : Forall real_elem ds -> ds <> [] ->
  exists c r, join47 ds = c :: r /\ is_slash c = false.
Proof.
  intros F Hne. destruct ds as [|e es]; [congruence|]. inversion F as [|? ? He _]; subst.
  destruct (real_elem_head e He) as (c & e' & -> & Hc). rewrite join47_cons. exists c, (e' ++ sepj es). split; [reflexivity|exact Hc].
Qed.

(* a trailing slash after a clean relative path *)
Lemma clean_trailing_slash ds : Forall real_elem ds -> ds <> [] -> clean (join47 ds ++ [slash]) = join47 ds.
Proof.
  intros F Hne. rewrite clean_eq_spec.
  destruct (join47_head ds F Hne) as (c & r & E & Hc).
  unfold clean_spec. rewrite E. cbn [app]. rewrite Hc. cbv iota zeta.
  change (c :: r ++ [slash]) with ((c :: r) ++ [slash]). rewrite <- E.
  rewrite split47_join_app by (try apply real_noslash; assumption).
  cbn [split47]. rewrite fold_left_app, fold_push_real by exact F. rewrite app_nil_r, fold_empty.
  unfold render, comps_of. cbn [fst snd repeat app root_prefix]. rewrite rev_involutive.
  rewrite E. reflexivity.
Qed.

Lemma clean_dot_slash_name nm : real_elem nm -> clean (dot :: slash :: nm) = nm.
Proof.
  intros Hn. rewrite clean_eq_spec. unfold clean_spec. change (is_slash dot) with false. cbv iota zeta.
  change (dot :: slash :: nm) with ([dot] ++ slash :: nm).
  rewrite split47_app_slash by (intros [H|[]]; discriminate).
  rewrite (split47_noslash_id nm (proj2 Hn)). cbn [fold_left].
  change (cstep false (0%nat, []) [dot]) with (0%nat, @nil bytes).
  unfold cstep. rewrite (proj1 Hn). cbn [fst snd].
  unfold render, comps_of. cbn [fst snd repeat app root_prefix rev join47].
  destruct (real_elem_head nm Hn) as (c & e' & -> & _). reflexivity.
Qed.

Lemma clean_dot_slash : clean [dot; slash] = [dot].
Proof. reflexivity. Qed.

(* ---------- path.Join and path.Dir on rendered directories ---------- *)

Lemma render_nonempty ds : Forall real_elem ds -> exists c r, render_dir ds = c :: r.
Proof.
  intros F. destruct ds as [|e es]; [eexists _, _; reflexivity|].
  destruct (join47_head (e :: es) F ltac:(discriminate)) as (c & r & E & _). exists c, r. exact E.
Qed.

Theorem join_render ds nm : Forall real_elem ds -> real_elem nm ->
  GoPath.join [render_dir ds; nm] = render_dir (Archive.join ds nm).
Proof.
  intros F Hn. destruct (real_elem_head nm Hn) as (cn & en & En & _).
  assert (Hj : Archive.join ds nm = ds ++ [nm]) by (unfold Archive.join; rewrite En; reflexivity).
  rewrite Hj. unfold GoPath.join.
  destruct (render_nonempty ds F) as (c & r & Er). rewrite Er. cbn [forallb andb join_buf].
  rewrite En. cbn [join_buf]. rewrite <- En, <- Er.
  destruct ds as [|e es].
  - cbn [render_dir app]. apply clean_dot_slash_name. exact Hn.
  - assert (Hr : render_dir ((e :: es) ++ [nm]) = join47 ((e :: es) ++ [nm])) by reflexivity.
    rewrite Hr. cbn [render_dir].
    assert (Hs : join47 (e :: es) ++ slash :: nm = join47 ((e :: es) ++ [nm])) by (rewrite join47_snoc; reflexivity).
    rewrite Hs.
    apply (clean_of_clean_rel 0 ((e :: es) ++ [nm])); [apply Forall_app; split; [exact F|constructor; [exact Hn|constructor]]|].
    intros H. inversion H.
Qed.

(* the root entry has no filename element: path.Join(a.dir, "") *)
Theorem join_render_empty ds : Forall real_elem ds ->
  GoPath.join [render_dir ds; []] = render_dir (Archive.join ds []).
Proof.
  intros F. cbn [Archive.join]. unfold GoPath.join.
  destruct (render_nonempty ds F) as (c & r & Er). rewrite Er. cbn [forallb andb join_buf]. rewrite <- Er.
  destruct ds as [|e es]; [reflexivity|].
  cbn [render_dir]. apply clean_trailing_slash; [exact F|discriminate].
Qed.

Theorem dir_render ds : Forall real_elem ds -> GoPath.dir (render_dir ds) = render_dir (removelast ds).
Proof.
  intros F. unfold GoPath.dir.
  destruct ds as [|e es] using rev_ind; [reflexivity|]. clear IHes.
  rewrite removelast_last. apply Forall_app in F. destruct F as [Fes Fe]. inversion Fe as [|? ? He _]; subst.
  destruct es as [|e1 es'].
  - cbn [app render_dir join47]. rewrite (split_path_noslash e (proj2 He)). reflexivity.
  - assert (Hr : render_dir ((e1 :: es') ++ [e]) = join47 (e1 :: es') ++ slash :: e).
    { change (render_dir ((e1 :: es') ++ [e])) with (join47 ((e1 :: es') ++ [e])). rewrite join47_snoc. reflexivity. }
    rewrite Hr, (split_path_app_slash _ e (proj2 He)). cbn [fst render_dir].
    apply clean_trailing_slash; [exact Fes|discriminate].
Qed.

Theorem join_render_both ds nm : Forall real_elem ds -> real_elem nm ->
  GoPath.join [render_dir ds; nm] = render_dir (Archive.join ds nm) /\
  GoPath.join [render_dir ds; []] = render_dir (Archive.join ds []).
Proof. intros F H. split; [exact (join_render ds nm F H)|exact (join_render_empty ds F)]. Qed.
