(* Lemmas about Model/StoreCrash.v: the crash-state invariant of concurrent StoreChunk calls and of
   writeWithTmpFile. *)
From Coq Require Import List NArith Arith Bool Lia.
From DS Require Import Gen.Constants Base.Bytes Base.Hash Base.HexId Base.FS Base.Sched
     Model.LocalStore Model.Prune Model.StoreCrash Proofs.LocalStoreProofs Proofs.PruneProofs.
Import ListNotations.

Lemma app_single_inj {A} (a b : list A) x y : a ++ [x] = b ++ [y] -> a = b /\ x = y.
Proof. intros E. apply app_inj_tail in E. exact E. Qed.

Lemma incl_firstn {A} n (l : list A) : incl (firstn n l) l.
Proof.
  revert n. induction l as [|x l IH]; intros [|n] y Y; cbn in *; try contradiction.
  destruct Y as [->|Y]; [now left|right; eapply IH; eauto].
Qed.

Lemma tmp_name_inj r r' : tmp_name r = tmp_name r' -> r = r'.
Proof. unfold tmp_name. apply app_inv_head. Qed.

Opaque max_attempts.

Section CrashProofs.
  Variable base : path.
  Variable wd : nat -> wdata.
  Variable s0 : node.

  Notation w_dir := (w_dir base wd).
  Notation w_final := (w_final base wd).
  Notation w_tmp := (w_tmp base wd).
  Notation step := (StoreCrash.step base wd).
  Notation obj i := (wd_obj (wd i)).
  Notation cands i := (wd_cands (wd i)).

  (* temp suffixes are not shared between writers *)
  Hypothesis cands_disjoint : forall i j r, In r (cands i) -> In r (cands j) -> i = j.

  Lemma w_final_eq i : w_final i = w_dir i ++ [hex_id (wd_id (wd i)) ++ ext_of (wd_unc (wd i))].
  Proof. reflexivity. Qed.

  Lemma len_w_dir i : length (w_dir i) = S (length base).
  Proof. unfold StoreCrash.w_dir, name_from_id. cbn [fst w_store st_base]. rewrite app_length. cbn. lia. Qed.

  Lemma tmp_neq_final i r j : w_tmp i r <> w_final j.
  Proof.
    rewrite w_final_eq. unfold StoreCrash.w_tmp. intros E. apply app_single_inj in E.
    destruct E as [_ E]. exact (tmp_name_neq_chunk_name _ _ _ E).
  Qed.

  Lemma prefix_neq_tmp i q j r : In q (prefixes (w_dir i)) -> q <> w_tmp j r.
  Proof.
    intros I ->. apply in_prefixes_length in I. unfold StoreCrash.w_tmp in I.
    rewrite app_length, !len_w_dir in I. cbn in I. lia.
  Qed.

  Lemma prefix_neq_final i q j : In q (prefixes (w_dir i)) -> q <> w_final j.
  Proof.
    intros I ->. apply in_prefixes_length in I. rewrite w_final_eq, app_length, !len_w_dir in I. cbn in I. lia.
  Qed.

  Lemma tmp_eq_inv i r j r' : In r (cands i) -> In r' (cands j) -> w_tmp i r = w_tmp j r' -> i = j /\ r = r'.
  Proof.
    intros I J E. unfold StoreCrash.w_tmp in E. apply app_single_inj in E. destruct E as [_ E].
    apply tmp_name_inj in E. subst r'. split; [eapply cands_disjoint; eauto|reflexivity].
  Qed.

  (* ---------- the invariant ---------- *)

  (* every path: as in s0, or a directory MkdirAll created, or a final name holding a complete object,
     or a temp name (absent in s0) holding a prefix of its writer's object *)
  Definition Gq (fs : node) (q : path) : Prop :=
    stat q fs = stat q s0 \/
    (stat q s0 = None /\ stat q fs = Some (EDir meta0) /\ exists i, In q (prefixes (w_dir i))) \/
    (exists i, q = w_final i /\ stat q fs = Some (EFile meta0 (obj i))) \/
    (stat q s0 = None /\ exists i r k, In r (cands i) /\ q = w_tmp i r /\
                                      stat q fs = Some (EFile meta0 (firstn k (obj i)))).

  Definition tmp_is (fs : node) (i : nat) (r : bytes) (c : bytes) : Prop :=
    In r (cands i) /\ stat (w_tmp i r) s0 = None /\ stat (w_tmp i r) fs = Some (EFile meta0 c).

  (* what a writer that returned nil is owed: its final name holds the complete object of a writer of
     that same name (its own, or the one a concurrent writer of the same chunk renamed over it) *)
  Definition DoneOk (fs : node) (i : nat) : Prop :=
    exists j, w_final j = w_final i /\ stat (w_final i) fs = Some (EFile meta0 (obj j)).

  Definition Wi (fs : node) (i : nat) (pc : wpc) : Prop :=
    match pc with
    | PcEnsure todo => incl todo (prefixes (w_dir i))
    | PcCreate rs => incl rs (cands i)
    | PcWrite r w => tmp_is fs i r (firstn w (obj i))
    | PcClose r | PcRename r => tmp_is fs i r (obj i)
    | PcFailClose r | PcFailRemove r => exists k, tmp_is fs i r (firstn k (obj i))
    | PcDone None => DoneOk fs i
    | PcDone (Some _) => True
    end.

  Definition Inv (s : cstate) : Prop :=
    (forall q, Gq (fst s) q) /\ (forall i, Wi (fst s) i (snd s i)).

  Lemma Inv_init : Inv (init base wd s0).
  Proof.
    split; [intros q; now left|]. intros i. cbn. apply incl_refl.
  Qed.

  (* Wi only looks at the writer's own temp paths and, once it returned nil, at its final name *)
  Lemma Wi_frame fs fs' j pc :
    (forall r, In r (cands j) -> stat (w_tmp j r) fs' = stat (w_tmp j r) fs) ->
    (DoneOk fs j -> DoneOk fs' j) -> Wi fs j pc -> Wi fs' j pc.
  Proof.
    intros F FD. destruct pc as [| | | | | | |[|]]; cbn [Wi]; try tauto.
    - intros (I & Z & S). split; [exact I|]. split; [exact Z|]. now rewrite F.
    - intros (I & Z & S). split; [exact I|]. split; [exact Z|]. now rewrite F.
    - intros (I & Z & S). split; [exact I|]. split; [exact Z|]. now rewrite F.
    - intros (k & I & Z & S). exists k. split; [exact I|]. split; [exact Z|]. now rewrite F.
    - intros (k & I & Z & S). exists k. split; [exact I|]. split; [exact Z|]. now rewrite F.
  Qed.

  (* Gq only looks at stat q *)
  Lemma Gq_frame fs fs' q : stat q fs' = stat q fs -> Gq fs q -> Gq fs' q.
  Proof. intros E. unfold Gq. now rewrite E. Qed.

  (* a state change that is a point update at p (when c holds) by writer i *)
  Lemma Inv_point fs pcs fs' i pc' p (c : bool) X :
    Inv (fs, pcs) ->
    (forall q, stat q fs' = if path_eqb q p && c then X else stat q fs) ->
    (c = true -> Gq fs' p) ->
    (c = true -> forall j r, j <> i -> In r (cands j) -> w_tmp j r <> p) ->
    (c = true -> forall j, w_final j <> p) ->
    Wi fs' i pc' ->
    Inv (fs', set_pc pcs i pc').
  Proof.
    intros [G W] U Gp Fr Ff Wn. split; cbn [fst snd].
    - intros q. destruct (path_eqb q p && c) eqn:B.
      + apply andb_true_iff in B. destruct B as [B ->]. apply path_eqb_eq in B. subst q. now apply Gp.
      + apply (Gq_frame fs); [now rewrite U, B|apply G].
    - intros j. unfold set_pc. destruct (Nat.eqb j i) eqn:J.
      + apply Nat.eqb_eq in J. now subst j.
      + apply Nat.eqb_neq in J. apply (Wi_frame fs); [| |apply W].
        * intros r I. rewrite U. destruct c; [|now rewrite andb_false_r].
          replace (path_eqb (w_tmp j r) p) with false; [reflexivity|].
          symmetry. apply path_eqb_neq. now apply Fr.
        * intros (j' & E & S). exists j'. split; [exact E|]. rewrite U. destruct c; [|now rewrite andb_false_r].
          replace (path_eqb (w_final j) p) with false; [exact S|].
          symmetry. apply path_eqb_neq. now apply Ff.
  Qed.

  (* a step that only moves the program counter *)
  Lemma Inv_pc fs pcs i pc' : Inv (fs, pcs) -> Wi fs i pc' -> Inv (fs, set_pc pcs i pc').
  Proof.
    intros I Wn. apply (Inv_point fs pcs fs i pc' [] false None I); try discriminate; [|exact Wn].
    intros q. now rewrite andb_false_r.
  Qed.

  Lemma stat_s0_none_of_G fs q : Gq fs q -> stat q fs = None -> stat q s0 = None.
  Proof.
    intros [E|[(Z & _)|[(i & _ & S)|(Z & _)]]] N; try assumption; congruence.
  Qed.

  Lemma step_inv s t s' : Inv s -> step s t = Some s' -> Inv s'.
  Proof.
    destruct s as [fs pcs], t as [i a]. intros I. pose proof I as [G W].
    cbn [fst snd] in G, W. specialize (W i). unfold StoreCrash.step.
    destruct (pcs i) as [todo|rs|r w|r|r|r|r|e] eqn:PC; cbn [Wi] in W.
    - (* MkdirAll *)
      destruct todo as [|q todo].
      + intros E. inversion E; subst. apply Inv_pc; [exact I|]. cbn [Wi]. exact (incl_firstn max_attempts (cands i)).
      + destruct (ensure_dir q fs) as [fs'|e] eqn:ED; intros E; inversion E; subst; clear E.
        * assert (Iq : In q (prefixes (w_dir i))) by (apply W; now left).
          apply (Inv_point fs pcs fs' i (PcEnsure todo) q (isnone (stat q fs)) (Some (EDir meta0)) I).
          -- apply (stat_ensure_dir' _ _ _ ED).
          -- intros C. right. left. split; [|split].
             ++ apply (stat_s0_none_of_G fs); [apply G|]. destruct (stat q fs); [discriminate|reflexivity].
             ++ rewrite (stat_ensure_dir' _ _ _ ED), path_eqb_refl, C. reflexivity.
             ++ now exists i.
          -- intros _ j r _ _ X. symmetry in X. exact (prefix_neq_tmp _ _ _ _ Iq X).
          -- intros _ j X. exact (prefix_neq_final _ _ _ Iq (eq_sym X)).
          -- cbn [Wi]. intros x X. apply W. now right.
        * apply Inv_pc; [exact I|exact Logic.I].
    - (* create the temp file *)
      destruct rs as [|r rs].
      + intros E. inversion E; subst. apply Inv_pc; [exact I|exact Logic.I].
      + assert (Ir : In r (cands i)) by (apply W; now left).
        destruct (create_excl (w_tmp i r) fs) as [fs'|e] eqn:CE.
        * intros E. inversion E; subst; clear E. destruct (stat_create_excl _ _ _ CE) as [N U].
          assert (Z : stat (w_tmp i r) s0 = None) by (apply (stat_s0_none_of_G fs); [apply G|exact N]).
          apply (Inv_point fs pcs fs' i (PcWrite r 0) (w_tmp i r) true (Some (EFile meta0 [])) I).
          -- intros q. rewrite andb_true_r. apply U.
          -- intros _. right. right. right. split; [exact Z|]. exists i, r, 0. split; [exact Ir|]. split; [reflexivity|].
             rewrite U, path_eqb_refl. reflexivity.
          -- intros _ j r' J Ij X. destruct (tmp_eq_inv _ _ _ _ Ij Ir X). contradiction.
          -- intros _ j X. exact (tmp_neq_final _ _ _ (eq_sym X)).
          -- cbn [Wi]. split; [exact Ir|]. split; [exact Z|]. rewrite U, path_eqb_refl. reflexivity.
        * destruct e; intros E; inversion E; subst; clear E;
            (apply Inv_pc; [exact I|]); try exact Logic.I.
          cbn [Wi]. intros x X. apply W. now right.
    - (* write *)
      destruct W as (Ir & Z & St).
      destruct a as [k|].
      + destruct (length (obj i) <=? w) eqn:LW.
        * intros E. inversion E; subst. apply Inv_pc; [exact I|]. cbn [Wi]. split; [exact Ir|]. split; [exact Z|].
          apply Nat.leb_le in LW. now rewrite firstn_all2 in St by exact LW.
        * set (w' := Nat.min (w + S k) (length (obj i))).
          destruct (write_file (w_tmp i r) (firstn w' (obj i)) fs) as [fs'|e] eqn:WF;
            intros E; inversion E; subst; clear E; [|apply Inv_pc; [exact I|exact Logic.I]].
          destruct (stat_write_file _ _ _ _ WF) as (m & old & So & U). rewrite St in So. inversion So; subst m old.
          apply (Inv_point fs pcs fs' i (PcWrite r w') (w_tmp i r) true (Some (EFile meta0 (firstn w' (obj i)))) I).
          -- intros q. rewrite andb_true_r. apply U.
          -- intros _. right. right. right. split; [exact Z|]. exists i, r, w'. split; [exact Ir|]. split; [reflexivity|].
             rewrite U, path_eqb_refl. reflexivity.
          -- intros _ j r' J Ij X. destruct (tmp_eq_inv _ _ _ _ Ij Ir X). contradiction.
          -- intros _ j X. exact (tmp_neq_final _ _ _ (eq_sym X)).
          -- cbn [Wi]. split; [exact Ir|]. split; [exact Z|]. rewrite U, path_eqb_refl. reflexivity.
      + intros E. inversion E; subst. apply Inv_pc; [exact I|]. cbn [Wi]. exists w. split; [exact Ir|]. now split.
    - (* close *)
      intros E. inversion E; subst. apply Inv_pc; [exact I|exact W].
    - (* rename *)
      destruct W as (Ir & Z & St).
      destruct (rename (w_tmp i r) (w_final i) fs) as [fs'|e] eqn:RN; intros E; inversion E; subst; clear E;
        [|apply Inv_pc; [exact I|exact Logic.I]].
      pose proof (stat_rename_leaf _ _ _ _ RN (tmp_neq_final _ _ _) ltac:(eexists; exact St) ltac:(now rewrite St)) as U.
      split; cbn [fst snd].
      + intros q. destruct (path_eqb q (w_final i)) eqn:Q1.
        * apply path_eqb_eq in Q1. subst q. right. right. left. exists i. split; [reflexivity|].
          rewrite U, path_eqb_refl. exact St.
        * destruct (path_eqb q (w_tmp i r)) eqn:Q2.
          -- apply path_eqb_eq in Q2. subst q. left. rewrite U, Q1, path_eqb_refl. now rewrite Z.
          -- apply (Gq_frame fs); [now rewrite U, Q1, Q2|apply G].
      + intros j. unfold set_pc. destruct (Nat.eqb j i) eqn:J.
        { apply Nat.eqb_eq in J. subst j. cbn [Wi]. exists i. split; [reflexivity|].
          rewrite U, path_eqb_refl. exact St. }
        apply Nat.eqb_neq in J.
        destruct I as [_ W0]. cbn [fst snd] in W0. apply (Wi_frame fs); [| |apply W0].
        * intros r' Ij. rewrite U.
          replace (path_eqb (w_tmp j r') (w_final i)) with false
            by (symmetry; apply path_eqb_neq; apply tmp_neq_final).
          replace (path_eqb (w_tmp j r') (w_tmp i r)) with false; [reflexivity|].
          symmetry. apply path_eqb_neq. intros X. destruct (tmp_eq_inv _ _ _ _ Ij Ir X). contradiction.
        * (* a writer of the same chunk that had already returned nil now sees this writer's object *)
          intros (j' & E & S). destruct (path_eqb (w_final j) (w_final i)) eqn:Q.
          -- apply path_eqb_eq in Q. exists i. split; [now symmetry|]. rewrite U, Q, path_eqb_refl. exact St.
          -- exists j'. split; [exact E|]. rewrite U, Q.
             replace (path_eqb (w_final j) (w_tmp i r)) with false; [exact S|].
             symmetry. apply path_eqb_neq. intros X. exact (tmp_neq_final _ _ _ (eq_sym X)).
    - (* failed write: close *)
      intros E. inversion E; subst. apply Inv_pc; [exact I|exact W].
    - (* failed write: remove the temp file *)
      destruct W as (k & Ir & Z & St).
      destruct (remove (w_tmp i r) fs) as [fs'|e] eqn:RM; intros E; inversion E; subst; clear E;
        [|apply Inv_pc; [exact I|exact Logic.I]].
      apply (Inv_point fs pcs fs' i (PcDone (Some EIO)) (w_tmp i r) true None I).
      + intros q. rewrite andb_true_r. apply (remove_stat _ _ _ RM).
      + intros _. left. rewrite (remove_stat _ _ _ RM), path_eqb_refl. now rewrite Z.
      + intros _ j r' J Ij X. destruct (tmp_eq_inv _ _ _ _ Ij Ir X). contradiction.
      + intros _ j X. exact (tmp_neq_final _ _ _ (eq_sym X)).
      + exact Logic.I.
    - discriminate.
  Qed.

  (* every crash state of every schedule satisfies the invariant *)
  Lemma crash_inv sched : Inv (run step sched (init base wd s0)).
  Proof. apply inv_run; [intros s t s'; apply step_inv|apply Inv_init]. Qed.

  (* a writer that returned nil -- in particular after write errors and short writes, which only ever
     lead to PcDone (Some EIO) -- finds a complete object under its final name, in every schedule *)
  Lemma store_nil_complete sched i :
    let s := run step sched (init base wd s0) in
    snd s i = PcDone None ->
    exists j, w_final j = w_final i /\ stat (w_final i) (fst s) = Some (EFile meta0 (obj j)).
  Proof.
    cbv zeta. intros D. destruct (crash_inv sched) as [_ W]. specialize (W i). rewrite D in W. exact W.
  Qed.

  Lemma store_nil_complete_id sched i :
    (forall i, wf_id (wd_id (wd i))) ->
    let s := run step sched (init base wd s0) in
    snd s i = PcDone None ->
    exists j, wd_id (wd j) = wd_id (wd i) /\ wd_unc (wd j) = wd_unc (wd i) /\
              stat (w_final i) (fst s) = Some (EFile meta0 (obj j)).
  Proof.
    intros Wall. cbv zeta. intros D. destruct (store_nil_complete sched i D) as (j & E & S).
    exists j. unfold StoreCrash.w_final, w_store in E.
    apply name_from_id_inj in E; [|apply Wall|apply Wall]. cbn [st_unc] in E. destruct E as [E1 E2].
    repeat split; assumption.
  Qed.

  (* store_crash_atomic, path by path *)
  Lemma store_crash_paths sched q :
    let fs := fst (run step sched (init base wd s0)) in
    stat q fs = stat q s0 \/
    (stat q s0 = None /\ stat q fs = Some (EDir meta0) /\ exists i, In q (prefixes (w_dir i))) \/
    (exists i, q = w_final i /\ stat q fs = Some (EFile meta0 (obj i))) \/
    (stat q s0 = None /\ exists i r k, In r (cands i) /\ q = w_tmp i r /\
                                      stat q fs = Some (EFile meta0 (firstn k (obj i)))).
  Proof. destruct (crash_inv sched) as [G _]. apply G. Qed.

  (* ... and for chunk names: whatever file sits at the canonical name of (id, format) in a crash
     state was there before or is the complete object of a writer of exactly that (id, format) *)
  Lemma store_crash_chunk_names sched (st : store) (j : id) m c :
    st_base st = base -> wf_id j -> (forall i, wf_id (wd_id (wd i))) ->
    let fs := fst (run step sched (init base wd s0)) in
    stat (snd (name_from_id st j)) fs = Some (EFile m c) ->
    stat (snd (name_from_id st j)) s0 = Some (EFile m c) \/
    exists i, wd_id (wd i) = j /\ wd_unc (wd i) = st_unc st /\ c = obj i /\ m = meta0.
  Proof.
    intros B Wj Wall. cbv zeta. intros S.
    pose proof (store_crash_paths sched (snd (name_from_id st j))) as P. cbv zeta in P.
    destruct P as [E|[(_ & D & _)|[(i & Q & F)|(_ & i & r & k & _ & Q & _)]]].
    - left. congruence.
    - congruence.
    - right. exists i. rewrite S in F. inversion F; subst m c.
      destruct st as [b z sk]. cbn [st_base] in B. subst b. unfold StoreCrash.w_final, w_store in Q.
      apply name_from_id_inj in Q; [|exact Wj|apply Wall]. cbn [st_unc]. destruct Q as [-> ->]. repeat split; reflexivity.
    - exfalso. destruct st as [b z sk]. cbn [st_base] in B. subst b.
      assert (X : snd (name_from_id (mkStore base z sk) j) = StoreCrash.w_final base (fun _ => mkW z j [] []) 0) by reflexivity.
      rewrite X in Q. symmetry in Q. unfold StoreCrash.w_tmp, StoreCrash.w_final in Q.
      cbn [snd name_from_id w_store st_base st_unc wd_unc wd_id] in Q.
      apply app_single_inj in Q. destruct Q as [_ Q]. exact (tmp_name_neq_chunk_name _ _ _ Q).
  Qed.

  (* with writers that hold complete valid objects, a verifying reader accepts whatever new file it finds
     under a chunk name *)
  Lemma store_crash_valid (H : bytes -> id) (zdecomp : bytes -> option bytes) sched (st : store) (j : id) m c :
    st_base st = base -> wf_id j -> (forall i, wf_id (wd_id (wd i))) ->
    (forall i, new_chunk_from_storage H zdecomp (wd_id (wd i)) (obj i) (wd_unc (wd i)) false = GetOk (obj i)) ->
    let fs := fst (run step sched (init base wd s0)) in
    stat (snd (name_from_id st j)) fs = Some (EFile m c) ->
    stat (snd (name_from_id st j)) s0 = Some (EFile m c) \/
    new_chunk_from_storage H zdecomp j c (st_unc st) false = GetOk c.
  Proof.
    intros B Wj Wall V. cbv zeta. intros S.
    destruct (store_crash_chunk_names sched st j m c B Wj Wall S) as [E|(i & <- & <- & -> & _)]; [now left|].
    right. apply V.
  Qed.

  Lemma is_tmp_tmp_name r : is_tmp (tmp_name r) = true.
  Proof.
    unfold is_tmp, has_prefix, tmp_name. rewrite firstn_app, firstn_all, Nat.sub_diag. cbn [firstn].
    rewrite app_nil_r. apply bytes_eqb_refl.
  Qed.

  (* a later prune that returns nil has removed every leftover temp file (C16 applied to a crash state) *)
  Lemma prune_removes_leftovers sched (st : store) keep fuel bstr fs' i r :
    st_base st = base ->
    let fs := fst (run step sched (init base wd s0)) in
    is_dir (stat base fs) = true ->
    prune fuel st bstr keep fs = (fs', None) ->
    In r (cands i) -> stat (w_tmp i r) s0 = None ->
    stat (w_tmp i r) fs' = None.
  Proof.
    intros B. cbv zeta. intros D P Ir Z.
    destruct (stat (w_tmp i r) fs') as [en|] eqn:S'; [exfalso|reflexivity].
    assert (Shape : w_tmp i r = st_base st ++ [firstn 4 (hex_id (wd_id (wd i))); tmp_name r]).
    { rewrite B. unfold StoreCrash.w_tmp, StoreCrash.w_dir, name_from_id. cbn [fst w_store st_base].
      now rewrite <- app_assoc. }
    assert (D' : is_dir (stat (st_base st) (fst (run step sched (init base wd s0)))) = true) by (rewrite B; exact D).
    destruct (prune_complete true never st keep fuel bstr _ _ D' P) as [_ C2]. specialize (C2 eq_refl).
    rewrite Shape in S'. specialize (C2 _ _ S').
    assert (L : last (st_base st ++ [firstn 4 (hex_id (wd_id (wd i))); tmp_name r]) [] = tmp_name r).
    { change [firstn 4 (hex_id (wd_id (wd i))); tmp_name r] with ([firstn 4 (hex_id (wd_id (wd i)))] ++ [tmp_name r]).
      rewrite app_assoc. apply last_app_single. }
    rewrite L in C2. specialize (C2 (is_tmp_tmp_name r)).
    rewrite <- Shape in S'.
    destruct (prune_safe true never st keep _ _ _ _ _ P (w_tmp i r)) as [E|(N & _)]; [|congruence].
    pose proof (store_crash_paths sched (w_tmp i r)) as G. cbv zeta in G. rewrite <- E, S' in G.
    destruct G as [G|[(_ & G & j & Ij)|[(j & Q & _)|(_ & j & r' & k & _ & _ & G)]]].
    - congruence.
    - exact (prefix_neq_tmp _ _ _ _ Ij eq_refl).
    - exact (tmp_neq_final _ _ _ Q).
    - inversion G; subst en. discriminate.
  Qed.
End CrashProofs.

(* ---------- writeWithTmpFile ---------- *)

Section ExtractProofs.
  Variable dir : path.
  Variable dst : name.
  Variable cands : list bytes.
  Variable contents : list bytes.
  Variable s0 : node.

  Notation x_tmp := (x_tmp dir dst).
  Notation x_dst := (x_dst dir dst).
  Notation xstep := (xstep dir dst contents).

  Lemma x_tmp_neq_dst r : x_tmp r <> x_dst.
  Proof.
    unfold StoreCrash.x_tmp, StoreCrash.x_dst. intros E. apply app_single_inj in E. destruct E as [_ E].
    apply (f_equal (@length byte)) in E. rewrite app_length in E. cbn [length] in E. unfold name, bytes, byte in *. lia.
  Qed.

  Definition final_content : bytes := last contents [].

  (* nothing but temp names and the destination ever changes; the destination changes only by the
     final rename, to the completely assembled content *)
  Definition XInv (s : node * xpc) : Prop :=
    let (fs, pc) := s in
    (forall q, (forall r, q <> x_tmp r) -> q <> x_dst -> stat q fs = stat q s0) /\
    match pc with
    | XCreate _ => stat x_dst fs = stat x_dst s0
    | XAssemble r todo =>
        stat x_dst fs = stat x_dst s0 /\
        exists done, contents = done ++ todo /\ stat (x_tmp r) fs = Some (EFile meta0 (last done []))
    | XRename r => stat x_dst fs = stat x_dst s0 /\ stat (x_tmp r) fs = Some (EFile meta0 final_content)
    | XRemove _ true | XDone true => stat x_dst fs = Some (EFile meta0 final_content)
    | XRemove _ false | XDone false => stat x_dst fs = stat x_dst s0
    end.

  Lemma xstep_inv s a s' : XInv s -> xstep s a = Some s' -> XInv s'.
  Proof.
    destruct s as [fs pc]. unfold XInv, StoreCrash.xstep. intros [F P].
    destruct pc as [rs|r todo|r|r ok|ok].
    - destruct rs as [|r rs]; [intros E; inversion E; subst; now split|].
      destruct (create_excl (x_tmp r) fs) as [fs'|e] eqn:CE.
      + intros E. inversion E; subst. destruct (stat_create_excl _ _ _ CE) as [_ U]. split; [|split].
        * intros q N1 N2. rewrite U. replace (path_eqb q (x_tmp r)) with false; [now apply F|].
          symmetry. apply path_eqb_neq. apply N1.
        * rewrite U. replace (path_eqb x_dst (x_tmp r)) with false; [exact P|].
          symmetry. apply path_eqb_neq. intros X. symmetry in X. exact (x_tmp_neq_dst _ X).
        * exists []. split; [reflexivity|]. rewrite U, path_eqb_refl. reflexivity.
      + destruct e; intros E; inversion E; subst; now split.
    - destruct P as (D & done & C & T). destruct a.
      + destruct todo as [|c rest].
        * intros E. inversion E; subst. split; [exact F|]. split; [exact D|].
          rewrite app_nil_r in C. unfold final_content. now rewrite C.
        * destruct (write_file (x_tmp r) c fs) as [fs'|e] eqn:WF; intros E; inversion E; subst; [|now split].
          destruct (stat_write_file _ _ _ _ WF) as (m & old & So & U). rewrite T in So. inversion So; subst m old.
          split; [|split].
          -- intros q N1 N2. rewrite U. replace (path_eqb q (x_tmp r)) with false; [now apply F|].
             symmetry. apply path_eqb_neq. apply N1.
          -- rewrite U. replace (path_eqb x_dst (x_tmp r)) with false; [exact D|].
             symmetry. apply path_eqb_neq. intros X. symmetry in X. exact (x_tmp_neq_dst _ X).
          -- exists (done ++ [c]). split; [now rewrite <- app_assoc|].
             rewrite U, path_eqb_refl, last_app_single. reflexivity.
      + intros E. inversion E; subst. now split.
    - destruct P as [D T].
      destruct (rename (x_tmp r) x_dst fs) as [fs'|e] eqn:RN; intros E; inversion E; subst; [|now split].
      pose proof (stat_rename_leaf _ _ _ _ RN (x_tmp_neq_dst r) ltac:(eexists; exact T) ltac:(now rewrite T)) as U.
      split.
      + intros q N1 N2. rewrite U. replace (path_eqb q x_dst) with false by (symmetry; now apply path_eqb_neq).
        replace (path_eqb q (x_tmp r)) with false; [now apply F|]. symmetry. apply path_eqb_neq. apply N1.
      + rewrite U, path_eqb_refl. exact T.
    - destruct (remove (x_tmp r) fs) as [fs'|e] eqn:RM; intros E; inversion E; subst; [|now split].
      assert (U := remove_stat _ _ _ RM). split.
      + intros q N1 N2. rewrite U. replace (path_eqb q (x_tmp r)) with false; [now apply F|].
        symmetry. apply path_eqb_neq. apply N1.
      + assert (X : stat x_dst fs' = stat x_dst fs).
        { rewrite U. replace (path_eqb x_dst (x_tmp r)) with false; [reflexivity|].
          symmetry. apply path_eqb_neq. intros X. symmetry in X. exact (x_tmp_neq_dst _ X). }
        destruct ok; now rewrite X.
    - discriminate.
  Qed.

  Lemma extract_crash sched :
    let '(fs, pc) := run xstep sched (s0, XCreate cands) in
    (forall q, (forall r, q <> x_tmp r) -> q <> x_dst -> stat q fs = stat q s0) /\
    (stat x_dst fs = stat x_dst s0 \/
     (stat x_dst fs = Some (EFile meta0 final_content) /\ (pc = XDone true \/ exists r, pc = XRemove r true))).
  Proof.
    assert (I : XInv (run xstep sched (s0, XCreate cands))).
    { apply inv_run; [intros s t s'; apply xstep_inv|]. split; [reflexivity|reflexivity]. }
    destruct (run xstep sched (s0, XCreate cands)) as [fs pc]. destruct I as [F P]. split; [exact F|].
    destruct pc as [rs|r todo|r|r [|]|[|]]; try tauto.
    right. split; [exact P|]. right. now exists r.
  Qed.
End ExtractProofs.
