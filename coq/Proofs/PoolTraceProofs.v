From Coq Require Import List Arith Bool Lia.
From DS Require Import Base.Sched Model.Pool Model.PoolTrace.
Import ListNotations.

Section PoolTraceProofs.
  Variable njobs : nat.
  Variable job_ok : nat -> bool.
  Notation step := (Pool.step njobs job_ok true).

  Lemma run_strict_app (a b : list tid) s s1 s2 :
    run_strict step a s = Some s1 -> run_strict step b s1 = Some s2 -> run_strict step (a ++ b) s = Some s2.
  Proof.
    revert s. induction a as [|t r IH]; cbn; intros s Ea Eb; [injection Ea as ->; exact Eb|].
    destruct (step s t); [apply IH; assumption|discriminate].
  Qed.

  Lemma take_step s w k s' : take njobs job_ok s w k = Some s' ->
    step s (Worker w) = Some s' /\ fed s = k /\ busy_at s' w k = true.
  Proof.
    unfold take. destruct (fed s =? k) eqn:E; [|discriminate]. apply Nat.eqb_eq in E.
    destruct (step s (Worker w)) as [s1|]; [|discriminate].
    destruct (busy_at s1 w k) eqn:B; [|discriminate]. intros H; injection H as <-. auto.
  Qed.

  Lemma catchup_sound : forall fuel rest k s early s' e' fr,
    catchup njobs job_ok fuel rest k s early = Some (s', e', fr) -> run_strict step fr s = Some s'.
  Proof.
    induction fuel as [|f IH]; intros rest k s early s' e' fr; cbn [catchup].
    - destruct (k <=? fed s); [intros H; injection H as <- _ <-; reflexivity|discriminate].
    - destruct (k <=? fed s); [intros H; injection H as <- _ <-; reflexivity|].
      destruct (find_take (fed s) rest) as [w|]; [|discriminate].
      destruct (take njobs job_ok s w (fed s)) as [s1|] eqn:Et; [|discriminate].
      destruct (catchup njobs job_ok f rest k s1 (fed s :: early)) as [[[s2 e2] fr2]|] eqn:Ec; [|discriminate].
      intros H; injection H as <- _ <-. cbn [run_strict].
      destruct (take_step _ _ _ _ Et) as (Es & _ & _). rewrite Es. eapply IH; exact Ec.
  Qed.

  Lemma apply_ev_sound e rest s early s' e' fr :
    apply_ev njobs job_ok e rest s early = Some (s', e', fr) -> run_strict step fr s = Some s'.
  Proof.
    destruct e as [w k|w k|w k|w|b|]; cbn [apply_ev].
    - destruct (existsb (Nat.eqb k) early); [intros H; injection H as <- _ <-; reflexivity|].
      destruct (catchup njobs job_ok (S (length rest)) rest k s early) as [[[s1 e1] fr1]|] eqn:Ec; [|discriminate].
      destruct (take njobs job_ok s1 w k) as [s2|] eqn:Et; [|discriminate].
      intros H; injection H as <- _ <-. apply (run_strict_app _ _ _ s1); [eapply catchup_sound; exact Ec|].
      cbn [run_strict]. destruct (take_step _ _ _ _ Et) as (Es & _ & _). rewrite Es. reflexivity.
    - destruct (busy_at s w k && job_ok k); [|discriminate].
      destruct (step s (Worker w)) as [s1|] eqn:Es; [|discriminate]. intros H; injection H as <- _ <-. cbn [run_strict]. rewrite Es. reflexivity.
    - destruct (busy_at s w k && negb (job_ok k)); [|discriminate].
      destruct (step s (Worker w)) as [s1|] eqn:Es; [|discriminate]. intros H; injection H as <- _ <-. cbn [run_strict]. rewrite Es. reflexivity.
    - destruct (idle_at s w && match feeder s with Stopped _ => true | Feeding => false end); [|discriminate].
      destruct (step s (Worker w)) as [s1|] eqn:Es; [|discriminate]. intros H; injection H as <- _ <-. cbn [run_strict]. rewrite Es. reflexivity.
    - destruct (catchup njobs job_ok (S (length rest)) rest (takes_upto rest) s early) as [[[s1 e1] fr1]|] eqn:Ec; [|discriminate].
      destruct (step s1 Feeder) as [s2|] eqn:Es; [|discriminate].
      destruct (feeder s2) as [|b']; [discriminate|]. destruct (Bool.eqb b b'); [|discriminate].
      intros H; injection H as <- _ <-. apply (run_strict_app _ _ _ s1); [eapply catchup_sound; exact Ec|].
      cbn [run_strict]. rewrite Es. reflexivity.
    - destruct (step s CancelEnv) as [s1|] eqn:Es; [|discriminate]. intros H; injection H as <- _ <-. cbn [run_strict]. rewrite Es. reflexivity.
  Qed.

  (* an accepted trace is an execution of the model: the schedule [replay] returns is a run of enabled steps *)
  Theorem replay_sound : forall tr s early s' sched,
    replay njobs job_ok tr s early = Some (s', sched) -> run_strict step sched s = Some s'.
  Proof.
    induction tr as [|e r IH]; intros s early s' sched; cbn [replay].
    - destruct early; [intros H; injection H as <- <-; reflexivity|discriminate].
    - destruct (apply_ev njobs job_ok e r s early) as [[[s1 e1] fr]|] eqn:Ea; [|discriminate].
      destruct (replay njobs job_ok r s1 e1) as [[s2 fr2]|] eqn:Er; [|discriminate].
      intros H; injection H as <- <-. apply (run_strict_app _ _ _ s1); [eapply apply_ev_sound; exact Ea|eapply IH; exact Er].
  Qed.

  (* what "matched" means for the recorded receive and results *)
  Lemma label_take_sound s w k s' : take njobs job_ok s w k = Some s' ->
    fed s = k /\ fed s' = S k /\ nth_error (workers s') w = Some (Busy k).
  Proof.
    intros Et. destruct (take_step _ _ _ _ Et) as (Es & Ef & Eb). split; [exact Ef|].
    unfold busy_at in Eb. destruct (nth_error (workers s') w) as [[|k'|]|] eqn:En; try discriminate.
    apply Nat.eqb_eq in Eb. subst k'. split; [|reflexivity].
    cbn [Pool.step] in Es. destruct (nth_error (workers s) w) as [[|k0|]|]; try discriminate.
    - destruct (feeder s).
      + destruct (fed s <? njobs); [|discriminate]. injection Es as <-. cbn. lia.
      + injection Es as <-. cbn in En.
        (* a worker that found the channel closed is Exited, not Busy *)
        exfalso. clear -En. revert w En. generalize (workers s). induction l as [|x l IH]; intros [|w] En; cbn in En; try discriminate.
        eapply IH; exact En.
    - destruct (job_ok k0); injection Es as <-; cbn in En; exfalso; clear -En;
        revert w En; generalize (workers s); induction l as [|x l IH]; intros [|w] En; cbn in En; try discriminate; eapply IH; exact En.
  Qed.
End PoolTraceProofs.
