(* Basic facts for the IndexFromFile protocol proof: state access, chains of canonical chunks,
   and the zero-run lemma that licenses the null-chunk fast-forward. *)
From Coq Require Import List NArith Arith Bool Lia.
From DS Require Import Gen.Constants Base.Bytes Base.Hash Base.Word32 Model.Chunker Model.PChunker
     Proofs.ChunkerSpecProofs.
Import ListNotations.
Global Opaque W.

(* ---------- lists ---------- *)

Lemma set_nth_length {A} (l : list A) i x : length (set_nth l i x) = length l.
Proof. revert i; induction l; destruct i; cbn; auto. Qed.

Lemma nth_set_nth {A} (l : list A) i j x d :
  nth j (set_nth l i x) d = if (i =? j) && (i <? length l) then x else nth j l d.
Proof.
  revert i j. induction l as [|y l IH]; intros i j; cbn.
  - rewrite andb_false_r. reflexivity.
  - destruct i, j; cbn; try reflexivity. rewrite IH. reflexivity.
Qed.

Lemma getw_setw s i w j : i < nworkers s ->
  getw (setw s i w) j = if i =? j then w else getw s j.
Proof.
  intros Hi. unfold getw, setw, nworkers in *. cbn. rewrite nth_set_nth.
  replace (i <? length (p_w s)) with true by (symmetry; apply Nat.ltb_lt; exact Hi).
  now rewrite andb_true_r.
Qed.

Lemma nworkers_setw s i w : nworkers (setw s i w) = nworkers s.
Proof. unfold nworkers, setw. cbn. apply set_nth_length. Qed.

Lemma pc_setw s i w : p_c (setw s i w) = p_c s.
Proof. reflexivity. Qed.

(* ---------- chains of chunks ---------- *)

Fixpoint chain (from : nat) (cs : list chunk) : Prop :=
  match cs with
  | [] => True
  | c :: r => c_start c = from /\ chain (c_end c) r
  end.

Lemma covered_app a b : covered (a ++ b) = covered a + covered b.
Proof. unfold covered. induction a; cbn; [reflexivity|]. rewrite IHa. lia. Qed.

Lemma covered_cons c a : covered (c :: a) = c_size c + covered a.
Proof. reflexivity. Qed.

Lemma chain_app from a b : chain from (a ++ b) <-> chain from a /\ chain (from + covered a) b.
Proof.
  revert from. induction a as [|c a IH]; intros from; cbn [chain app].
  - unfold covered. cbn. rewrite Nat.add_0_r. tauto.
  - rewrite IH, covered_cons.
    assert (E' : c_start c = from -> c_end c + covered a = from + (c_size c + covered a))
      by (intros E; unfold c_end, c_start, c_size in *; lia).
    split.
    + intros (E & A & B). rewrite (E' E) in B. tauto.
    + intros ((E & A) & B). rewrite <- (E' E) in B. tauto.
Qed.

Lemma chain_nth from cs k c : chain from cs -> nth_error cs k = Some c ->
  c_start c = from + covered (firstn k cs).
Proof.
  revert from k. induction cs as [|x r IH]; intros from k Hc Hn; [destruct k; discriminate|].
  destruct k as [|k].
  - cbn in Hn. inversion Hn; subst. destruct Hc as [E _]. cbn [firstn]. unfold covered; cbn. lia.
  - cbn [nth_error] in Hn. cbn [chain] in Hc. destruct Hc as [E Hc]. rewrite (IH _ _ Hc Hn).
    cbn [firstn]. rewrite covered_cons. unfold c_end, c_start, c_size in *. lia.
Qed.

Lemma firstn_S_nth {A} (l : list A) k x : nth_error l k = Some x -> firstn (S k) l = firstn k l ++ [x].
Proof.
  revert k. induction l as [|y l IH]; intros k Hn; [destruct k; discriminate|].
  destruct k as [|k]; cbn in *; [inversion Hn; reflexivity|]. f_equal. apply IH. exact Hn.
Qed.

Lemma covered_firstn_S cs k c : nth_error cs k = Some c ->
  covered (firstn (S k) cs) = covered (firstn k cs) + c_size c.
Proof. intros Hn. rewrite (firstn_S_nth _ _ _ Hn), covered_app. unfold covered. cbn. lia. Qed.

Lemma out_length_chain cs : chain 0 cs -> out_length cs = covered cs.
Proof.
  intros Hc. unfold out_length. destruct (rev cs) as [|c r] eqn:Er.
  - apply (f_equal (@rev _)) in Er. rewrite rev_involutive in Er. subst cs. reflexivity.
  - apply (f_equal (@rev _)) in Er. rewrite rev_involutive in Er. cbn in Er. subst cs.
    apply chain_app in Hc. destruct Hc as [_ Hc]. cbn in Hc. destruct Hc as [E _].
    rewrite covered_app. rewrite covered_cons. unfold covered at 2. cbn. unfold c_end, c_start, c_size in *. lia.
Qed.

Lemma slice_skipn {A} (l : list A) k s n : slice (skipn k l) s n = slice l (k + s) n.
Proof. unfold slice. now rewrite skipn_skipn. Qed.

Section Canon.
  Variables (min max : nat) (d : N) (data : bytes).
  Hypothesis Hmin : W <= min.
  Hypothesis Hmax : min <= max.
  Hypothesis Hpos : 0 < max.

  Definition canon (c : chunk) : Prop := next_chunk min max d data (c_start c) = Some c.

  Lemma next_chunk_some p c : next_chunk min max d data p = Some c ->
    c = (p, cut_spec min max d (skipn p data)) /\ p < length data.
  Proof.
    unfold next_chunk. destruct (skipn p data) eqn:Es; [discriminate|].
    intros E. inversion E; subst. split; [reflexivity|].
    destruct (Nat.lt_ge_cases p (length data)) as [|Hge]; [assumption|].
    rewrite skipn_all2 in Es by lia. discriminate.
  Qed.

  Lemma next_chunk_none p : next_chunk min max d data p = None -> length data <= p.
  Proof.
    unfold next_chunk. destruct (skipn p data) eqn:Es; [|discriminate]. intros _.
    apply (f_equal (@length _)) in Es. rewrite skipn_length in Es. cbn in Es. lia.
  Qed.

  Lemma canon_bounds c : canon c ->
    c_start c < length data /\ 1 <= c_size c <= max /\ c_end c <= length data.
  Proof.
    intros Hc. destruct (next_chunk_some _ _ Hc) as [E Hlt]. destruct c as [s z]. cbn in *.
    inversion E as [Ez]. clear E.
    assert (Hne : skipn s data <> []).
    { intro En. apply (f_equal (@length _)) in En. rewrite skipn_length in En. cbn in En. lia. }
    pose proof (cut_pos min max d Hmin Hmax Hpos _ Hne).
    pose proof (cut_le_max min max d Hmin Hmax Hpos (skipn s data)).
    pose proof (cut_le_len min max d Hmin Hmax Hpos (skipn s data)) as Hl. rewrite skipn_length in Hl.
    unfold c_end. cbn. lia.
  Qed.

  Lemma canon_unique c c' : canon c -> canon c' -> c_start c = c_start c' -> c = c'.
  Proof. unfold canon. intros A B E. rewrite E in A. congruence. Qed.

  (* with_offsets of the rule's chunks from p, and chains of canonical chunks *)
  Lemma with_offsets_app from a b :
    with_offsets from (a ++ b) = with_offsets from a ++ with_offsets (from + total_len a) b.
  Proof.
    revert from. induction a as [|x a IH]; intros from; cbn; [now rewrite Nat.add_0_r|].
    rewrite IH. now rewrite Nat.add_assoc.
  Qed.

  Lemma covered_with_offsets from cs : covered (with_offsets from cs) = total_len cs.
  Proof. revert from. induction cs; intros; cbn; [reflexivity|]. unfold covered in *. cbn. now rewrite IHcs. Qed.

  Definition seq_from (p : nat) : list chunk := with_offsets p (chunk_all min max d (skipn p data)).

  Lemma seq_from_step p : p < length data ->
    exists c, canon c /\ c_start c = p /\ seq_from p = c :: seq_from (c_end c).
  Proof.
    intros Hp.
    assert (Hne : skipn p data <> []).
    { intro En. apply (f_equal (@length _)) in En. rewrite skipn_length in En. cbn in En. lia. }
    exists (p, cut_spec min max d (skipn p data)). split; [|split; [reflexivity|]].
    - unfold canon, next_chunk. cbn. destruct (skipn p data); [congruence|reflexivity].
    - unfold seq_from. rewrite (chunk_all_step min max d Hmin Hmax Hpos _ Hne). cbn [with_offsets].
      rewrite firstn_length. pose proof (cut_le_len min max d Hmin Hmax Hpos (skipn p data)) as Hl.
      rewrite Nat.min_l by exact Hl. unfold c_end. cbn. rewrite skipn_skipn. reflexivity.
  Qed.

  Lemma seq_from_end p : length data <= p -> seq_from p = [].
  Proof. intros Hp. unfold seq_from. rewrite skipn_all2 by exact Hp. reflexivity. Qed.

  (* a chain of canonical chunks starting at p is a prefix of the rule's sequence from p *)
  Lemma chain_canon_prefix : forall cs p, chain p cs -> Forall canon cs ->
    exists rest, seq_from p = cs ++ rest /\ rest = seq_from (p + covered cs).
  Proof.
    induction cs as [|c cs IH]; intros p Hc Hf.
    - exists (seq_from p). unfold covered. cbn. rewrite Nat.add_0_r. split; reflexivity.
    - cbn in Hc. destruct Hc as [Es Hc]. inversion Hf as [|? ? Hcan Hf']; subst.
      destruct (canon_bounds c Hcan) as (Hlt & _ & _).
      destruct (seq_from_step (c_start c) Hlt) as (c' & Hcan' & Es' & Eseq).
      assert (c' = c) by (apply canon_unique; auto). subst c'.
      destruct (IH _ Hc Hf') as (rest & E1 & E2).
      exists rest. split.
      + rewrite Eseq, E1. reflexivity.
      + rewrite E2. f_equal. rewrite covered_cons. unfold c_end, c_start, c_size in *. lia.
  Qed.

  (* a chain of canonical chunks from 0 that covers the whole input IS the single-stream index *)
  Theorem chain_canon_complete cs : chain 0 cs -> Forall canon cs -> length data <= covered cs ->
    cs = seq_index min max d data.
  Proof.
    intros Hc Hf Hcov. destruct (chain_canon_prefix cs 0 Hc Hf) as (rest & E1 & E2).
    rewrite seq_from_end in E2 by (cbn; exact Hcov). subst rest. rewrite app_nil_r in E1.
    unfold seq_index. unfold seq_from in E1. cbn [skipn] in E1. congruence.
  Qed.

  (* ---------- zero runs ---------- *)

  Definition all_zero (s l : nat) : Prop := slice data s l = repeat 0%N l /\ s + l <= length data.

  (* a window of zeros does not meet the discriminator, or there is no room to look for a cut *)
  Definition zeros_dont_cut : Prop := max <= S min \/ is_boundary d (win_hash (repeat 0%N W)) = false.

  Lemma slice_slice {A} (l : list A) s n s' n' : s' + n' <= n ->
    slice (slice l s n) s' n' = slice l (s + s') n'.
  Proof.
    intros Hb. unfold slice. rewrite skipn_firstn_comm, firstn_firstn, skipn_skipn.
    f_equal. lia.
  Qed.

  Lemma slice_repeat {A} (x : A) n s k : s + k <= n -> slice (repeat x n) s k = repeat x k.
  Proof.
    intros Hb. unfold slice. 
    assert (Hs : skipn s (repeat x n) = repeat x (n - s)).
    { revert n Hb. induction s as [|s IH]; intros n Hb; [now rewrite Nat.sub_0_r|].
      destruct n; [lia|]. cbn. apply IH. lia. }
    rewrite Hs. clear Hs.
    assert (Hf : forall m k, k <= m -> firstn k (repeat x m) = repeat x k).
    { induction m as [|m IH]; intros k' Hk; [replace k' with 0 by lia; reflexivity|].
      destruct k'; [reflexivity|]. cbn. f_equal. apply IH. lia. }
    apply Hf. lia.
  Qed.

  Lemma all_zero_sub s l s' l' : all_zero s l -> s <= s' -> s' + l' <= s + l -> all_zero s' l'.
  Proof.
    intros [Hz Hb] H1 H2. split; [|lia].
    replace s' with (s + (s' - s)) by lia. rewrite <- (slice_slice data s l (s' - s) l') by lia.
    rewrite Hz. apply slice_repeat. lia.
  Qed.

  (* a canonical max-size chunk of zeros shows that zeros do not cut *)
  Lemma null_chunk_zeros_dont_cut c : canon c -> c_size c = max -> all_zero (c_start c) max -> zeros_dont_cut.
  Proof.
    intros Hcan Hsz [Hz Hb]. unfold zeros_dont_cut.
    destruct (Nat.le_gt_cases max (S min)) as [|Hgt]; [left; assumption|]. right.
    destruct (next_chunk_some _ _ Hcan) as [E Hlt]. destruct c as [s z]. cbn in *. subst z.
    inversion E as [Ecut]. clear E.
    set (rest := skipn s data) in *.
    assert (Hlen : min < length rest) by (subst rest; rewrite skipn_length; lia).
    destruct (cut_rule min max d Hmin Hmax Hpos rest Hlen ltac:(lia)) as (_ & _ & Hno).
    rewrite <- Ecut in Hno.
    specialize (Hno (S min) ltac:(lia)). unfold bnd in Hno.
    assert (Hw : slice rest (S min - W) W = repeat 0%N W).
    { subst rest. rewrite slice_skipn.
      replace (s + (S min - W)) with (s + (S min - W)) by lia.
      rewrite <- (slice_slice data s max (S min - W) W) by lia. rewrite Hz. apply slice_repeat. lia. }
    rewrite Hw in Hno. exact Hno.
  Qed.

  (* in a run of max zeros the rule cuts a max-size chunk *)
  Lemma zero_run_cut p : zeros_dont_cut -> all_zero p max ->
    canon (p, max).
  Proof.
    intros Hz [Hzero Hb]. unfold canon, next_chunk. cbn.
    assert (Hne : skipn p data <> []).
    { intro En. apply (f_equal (@length _)) in En. rewrite skipn_length in En. cbn in En. lia. }
    destruct (skipn p data) eqn:Es; [congruence|]. rewrite <- Es. f_equal. f_equal.
    set (rest := skipn p data) in *.
    assert (Hlen : length rest = length data - p) by (subst rest; apply skipn_length).
    destruct (Nat.le_gt_cases max min) as [Hle|Hgt].
    - (* max = min *)
      unfold cut_spec. destruct (length rest <=? min) eqn:E1; [lia|].
      replace (Nat.min max (length rest) <=? min) with true by lia. lia.
    - destruct (cut_rule min max d Hmin Hmax Hpos rest ltac:(lia) Hgt) as (Hr & Hb1 & Hno).
      replace (Nat.min max (length rest)) with max in * by lia.
      destruct (Nat.eq_dec (cut_spec min max d rest) max) as [|Hne']; [assumption|].
      exfalso. specialize (Hb1 ltac:(lia)).
      destruct Hz as [Hz|Hz]; [lia|].
      unfold bnd in Hb1.
      assert (Hw : slice rest (cut_spec min max d rest - W) W = repeat 0%N W).
      { subst rest. rewrite slice_skipn.
        rewrite <- (slice_slice data p max (cut_spec min max d (skipn p data) - W) W) by lia.
        rewrite Hzero. apply slice_repeat. lia. }
      rewrite Hw in Hb1. congruence.
  Qed.
End Canon.
