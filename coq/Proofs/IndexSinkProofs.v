From Coq Require Import List NArith Arith Bool Lia ZifyN ZifyNat ZifyBool.
From DS Require Import Base.Bytes Base.LE64 Model.Format Model.Index Model.IndexSink Proofs.FormatProofs.
Import ListNotations.
Local Open Scope N_scope.

Lemma ws_write_ok s p s' : ws_write s p = (s', true) ->
  ws_data s' = ws_data s ++ p /\ lenN p <= ws_cap s /\ ws_cap s' = ws_cap s - lenN p.
Proof.
  unfold ws_write. destruct (lenN p <=? ws_cap s) eqn:E; intros H; inversion H; subst; cbn.
  apply N.leb_le in E. repeat split; assumption.
Qed.

Lemma ws_write_fail s p s' : ws_write s p = (s', false) ->
  ws_cap s < lenN p /\ ws_data s' = ws_data s ++ firstn (N.to_nat (ws_cap s)) p /\ ws_cap s' = 0.
Proof.
  unfold ws_write. destruct (lenN p <=? ws_cap s) eqn:E; intros H; inversion H; subst; cbn.
  apply N.leb_gt in E. repeat split; assumption.
Qed.

(* success => everything arrived, and n is the length *)
Theorem write_to_success i s s' n :
  index_write_to i s = (s', n, true) ->
  ws_data s' = ws_data s ++ encode_index i /\ n = lenN (encode_index i).
Proof.
  unfold index_write_to, write_to.
  set (b := encode_index i). set (k := early_len (lenN b)).
  destruct (ws_write s (firstn k b)) as [s1 [|]] eqn:E1; [|discriminate].
  destruct (ws_write s1 (skipn k b)) as [s2 [|]] eqn:E2; [|discriminate].
  intros H. inversion H; subst. clear H.
  apply ws_write_ok in E1. apply ws_write_ok in E2. destruct E1 as [D1 _]. destruct E2 as [D2 _].
  split; [|reflexivity]. rewrite D2, D1, <- app_assoc, firstn_skipn. reflexivity.
Qed.

(* it succeeds exactly when the writer has room for the whole file *)
Theorem write_to_ok_iff i s :
  snd (index_write_to i s) = true <-> lenN (encode_index i) <= ws_cap s.
Proof.
  unfold index_write_to, write_to.
  set (b := encode_index i). set (k := early_len (lenN b)).
  assert (Hlen : lenN b = lenN (firstn k b) + lenN (skipn k b)).
  { rewrite <- (firstn_skipn k b) at 1. apply lenN_app. }
  destruct (ws_write s (firstn k b)) as [s1 [|]] eqn:E1.
  - apply ws_write_ok in E1. destruct E1 as [_ [L1 C1]].
    destruct (ws_write s1 (skipn k b)) as [s2 [|]] eqn:E2; cbn [snd].
    + apply ws_write_ok in E2. destruct E2 as [_ [L2 _]]. split; [intros _; lia|reflexivity].
    + apply ws_write_fail in E2. destruct E2 as [L2 _]. split; [discriminate|intros; lia].
  - apply ws_write_fail in E1. destruct E1 as [L1 _]. cbn [snd]. split; [discriminate|intros; lia].
Qed.

(* whatever happens, what arrived is a prefix of the file *)
Theorem write_to_prefix v i s :
  exists k, ws_data (fst (fst (write_to v i s))) = ws_data s ++ firstn k (encode_index i).
Proof.
  unfold write_to. set (b := encode_index i). set (k := early_len (lenN b)).
  destruct (ws_write s (firstn k b)) as [s1 [|]] eqn:E1.
  - apply ws_write_ok in E1. destruct E1 as [D1 _].
    destruct (ws_write s1 (skipn k b)) as [s2 [|]] eqn:E2; cbn [fst].
    + apply ws_write_ok in E2. destruct E2 as [D2 _]. exists (length b).
      rewrite D2, D1, <- app_assoc, firstn_skipn, firstn_all. reflexivity.
    + apply ws_write_fail in E2. destruct E2 as [_ [D2 _]].
      exists (k + N.to_nat (ws_cap s1))%nat. rewrite D2, D1, <- app_assoc. f_equal.
      rewrite <- (firstn_skipn k b) at 3.
      destruct (Nat.le_gt_cases k (length b)) as [Hk|Hk].
      * rewrite firstn_app, firstn_length, (Nat.min_l _ _ Hk).
        rewrite (firstn_all2 (firstn k b)) by (rewrite firstn_length; lia).
        f_equal. f_equal. lia.
      * rewrite (skipn_all2 b) by lia. rewrite firstn_nil, !app_nil_r.
        rewrite firstn_firstn. f_equal. lia.
  - apply ws_write_fail in E1. destruct E1 as [_ [D1 _]]. cbn [fst].
    exists (Nat.min (N.to_nat (ws_cap s)) k). rewrite D1, firstn_firstn. reflexivity.
Qed.
