(* Preservation of the IndexFromFile invariant, step kind by step kind. *)
From Coq Require Import List NArith Arith Bool Lia.
From DS Require Import Gen.Constants Base.Bytes Base.Hash Base.Sched Model.Chunker Model.PChunker
     Proofs.ChunkerSpecProofs Proofs.PChunkerBase Proofs.PChunkerInv.
Import ListNotations.

Section Steps.
  Variable H : bytes -> id.
  Variables (min max : nat) (d : N) (data : bytes).
  Hypothesis Hmin : W <= min.
  Hypothesis Hmax : min <= max.
  Hypothesis Hpos : 0 < max.
  Variables (nw span : nat).
  Hypothesis Hspan : forall i, i < nw -> span * i <= length data.

  Notation canon := (canon min max d data).
  Notation PInv := (PInv min max d data nw span).
  Notation emit_end := (emit_end span).
  Notation frontier := (frontier span).
  Notation pcl := (pcl min max d data nw span).
  Notation sl := (sl min max d data).
  Notation stateA := (stateA span).
  Notation stateB := (stateB nw span).

  (* rewriting getw over setw *)
  Ltac gs :=
    repeat (rewrite getw_setw by (rewrite ?nworkers_setw; lia));
    repeat match goal with
           | |- context [?a =? ?b] => destruct (Nat.eqb_spec a b); try subst; try lia
           end.

  (* ---------- a change of the program counter only ---------- *)

  Definition same_but_pc (w w' : wstate) : Prop :=
    w_pos w' = w_pos w /\ w_emit w' = w_emit w /\ w_cons w' = w_cons w /\ w_sync w' = w_sync w /\
    w_next w' = w_next w /\ w_active w' = w_active w /\ w_eof w' = w_eof w.

  Lemma with_pc_same w p : same_but_pc w (with_pc w p).
  Proof. unfold same_but_pc, with_pc. cbn. tauto. Qed.

  Section PcOnly.
    Variables (s : pstate) (i : nat) (w' : wstate).
    Hypothesis I : PInv s.
    Hypothesis Hi : i < nw.
    Hypothesis Hsame : same_but_pc (getw s i) w'.
    Let s' := setw s i w'.

    Lemma po_getw j : getw s' j = if i =? j then w' else getw s j.
    Proof. unfold s'. apply getw_setw. rewrite (p_n _ _ _ _ _ _ s I). exact Hi. Qed.

    Lemma po_field {A} (f : wstate -> A) j :
      (f w' = f (getw s i)) -> f (getw s' j) = f (getw s j).
    Proof. intros E. rewrite po_getw. destruct (Nat.eqb_spec i j); [subst; exact E|reflexivity]. Qed.

    Lemma po_emit j : w_emit (getw s' j) = w_emit (getw s j).
    Proof. apply po_field. apply Hsame. Qed.
    Lemma po_cons j : w_cons (getw s' j) = w_cons (getw s j).
    Proof. apply po_field. apply Hsame. Qed.
    Lemma po_sync j : w_sync (getw s' j) = w_sync (getw s j).
    Proof. apply po_field. apply Hsame. Qed.
    Lemma po_next j : w_next (getw s' j) = w_next (getw s j).
    Proof. apply po_field. apply Hsame. Qed.
    Lemma po_active j : w_active (getw s' j) = w_active (getw s j).
    Proof. apply po_field. apply Hsame. Qed.
    Lemma po_eof j : w_eof (getw s' j) = w_eof (getw s j).
    Proof. apply po_field. apply Hsame. Qed.
    Lemma po_pos j : w_pos (getw s' j) = w_pos (getw s j).
    Proof. apply po_field. apply Hsame. Qed.
    Lemma po_pc j : j <> i -> w_pc (getw s' j) = w_pc (getw s j).
    Proof. intros Hne. rewrite po_getw. destruct (Nat.eqb_spec i j); [congruence|reflexivity]. Qed.

    Lemma po_emit_end j : emit_end s' j = emit_end s j.
    Proof. unfold PChunkerInv.emit_end. now rewrite po_emit. Qed.
    Lemma po_frontier j : frontier s' j = frontier s j.
    Proof. unfold PChunkerInv.frontier. now rewrite po_emit, po_cons. Qed.
    Lemma po_onchain j : onchain s' j <-> onchain s j.
    Proof. unfold onchain. split; intros Ho x Hx; specialize (Ho x Hx); now rewrite po_next in *. Qed.

    Hypothesis Hex : is_ex (w_pc w') = is_ex (w_pc (getw s i)).
    Hypothesis Hpcl : pcl s' i.
    Hypothesis Hsl : sl s' i.

    Lemma pc_only_inv : PInv s'.
    Proof.
      destruct I as [In Ich Ica Ipo Ico Ine Iac Ieo Ipc Isy Ia Ib Ic Isl Ikb Iout Icol Idone Ihand].
      constructor.
      - unfold s'. rewrite nworkers_setw. exact In.
      - intros j Hj. rewrite po_emit. auto.
      - intros j Hj. rewrite po_emit. auto.
      - intros j Hj. rewrite po_pos, po_emit_end. auto.
      - intros j Hj. rewrite po_cons, po_emit. auto.
      - intros j Hj. rewrite po_next. auto.
      - intros j Hj. rewrite po_active. destruct (Nat.eq_dec j i) as [->|Hne].
        + rewrite po_getw, Nat.eqb_refl, Hex. auto.
        + rewrite po_pc by exact Hne. auto.
      - intros j Hj. rewrite po_eof, po_active, po_emit_end. auto.
      - intros j Hj. destruct (Nat.eq_dec j i) as [->|Hne]; [exact Hpcl|].
        specialize (Ipc j Hj). unfold PChunkerInv.pcl in *. rewrite po_pc by exact Hne.
        rewrite po_next, po_emit_end. exact Ipc.
      - intros j Hj Hk. unfold sync_ok. rewrite po_sync, po_cons, po_emit. apply Isy; auto.
      - intros a a' Hlt Ha' Hact. unfold act in Hact. rewrite po_active in Hact. rewrite po_next. apply Ia; auto.
      - intros a j Haj Hjn Hj. rewrite po_next in Hjn. rewrite po_active, po_cons, po_emit. apply (Ib a); auto.
      - intros a x Hax Hxn Hx. rewrite po_next in *. apply Ic; auto.
      - intros a Ha. destruct (Nat.eq_dec a i) as [->|Hne]; [exact Hsl|].
        specialize (Isl a Ha). unfold PChunkerInv.sl in *. rewrite po_pc by exact Hne.
        rewrite po_next, po_cons, po_emit, po_sync. exact Isl.
      - intros j Hjk Hj. cbn in Hjk. rewrite po_active, po_cons, po_emit. apply Ikb; auto.
      - exact Iout.
      - intros Hd. destruct (Icol Hd) as [Hk [HA|HB]]. split; [exact Hk|].
        + left. unfold PChunkerInv.stateA in *. cbn [p_c s' setw] in *. rewrite po_onchain, po_frontier. exact HA.
        + right. unfold PChunkerInv.stateB in *. cbn [p_c s' setw] in *.
          destruct HB as (a & Ha & Ho & Hn & Hn' & Hf). exists a.
          rewrite po_onchain, po_next, po_frontier. tauto.
      - exact Idone.
      - intros a Ha Hk Hact Heof Ho. rewrite po_active in Hact. rewrite po_eof in Heof. rewrite po_onchain in Ho.
        rewrite po_next, po_frontier, po_emit_end. apply Ihand; auto.
    Qed.
  End PcOnly.
End Steps.
