(* Preservation of the IndexFromFile invariant, step kind by step kind. *)
From Coq Require Import List NArith Arith Bool Lia.
From DS Require Import Gen.Constants Base.Bytes Base.Hash Base.Sched Model.Chunker Model.PChunker
     Proofs.ChunkerSpecProofs Proofs.PChunkerBase Proofs.PChunkerInv.
Import ListNotations.

Section Steps.
  Variable H : bytes -> id.
  Variables (min max : nat) (d : N) (data : bytes).
  Hypothesis Hmin : W <= min.
  Hypothesis Hmax : min <= max.
  Hypothesis Hpos : 0 < max.
  Variables (nw span : nat).
  Hypothesis Hspan : forall i, i < nw -> span * i <= length data.

  Notation canon := (canon min max d data).
  Notation PInv := (PInv min max d data nw span).
  Notation emit_end := (emit_end span).
  Notation frontier := (frontier span).
  Notation pcl := (pcl min max d data nw span).
  Notation sl := (sl min max d data).
  Notation stateA := (stateA span).
  Notation stateB := (stateB nw span).

  (* rewriting getw over setw *)
  Ltac gs :=
    repeat (rewrite getw_setw by (rewrite ?nworkers_setw; lia));
    repeat match goal with
           | |- context [?a =? ?b] => destruct (Nat.eqb_spec a b); try subst; try lia
           end.

  (* ---------- a change of the program counter only ---------- *)

  Definition same_but_pc (w w' : wstate) : Prop :=
    w_pos w' = w_pos w /\ w_emit w' = w_emit w /\ w_cons w' = w_cons w /\ w_sync w' = w_sync w /\
    w_next w' = w_next w /\ w_active w' = w_active w /\ w_eof w' = w_eof w.

  Lemma with_pc_same w p : same_but_pc w (with_pc w p).
  Proof. unfold same_but_pc, with_pc. cbn. tauto. Qed.

  Section PcOnly.
    Variables (s : pstate) (i : nat) (w' : wstate).
    Hypothesis I : PInv s.
    Hypothesis Hi : i < nw.
    Hypothesis Hsame : same_but_pc (getw s i) w'.
    Let s' := setw s i w'.

    Lemma po_getw j : getw s' j = if i =? j then w' else getw s j.
    Proof. unfold s'. apply getw_setw. rewrite (p_n _ _ _ _ _ _ s I). exact Hi. Qed.

    Lemma po_field {A} (f : wstate -> A) j :
      (f w' = f (getw s i)) -> f (getw s' j) = f (getw s j).
    Proof. intros E. rewrite po_getw. destruct (Nat.eqb_spec i j); [subst; exact E|reflexivity]. Qed.

    Lemma po_emit j : w_emit (getw s' j) = w_emit (getw s j).
    Proof. apply po_field. apply Hsame. Qed.
    Lemma po_cons j : w_cons (getw s' j) = w_cons (getw s j).
    Proof. apply po_field. apply Hsame. Qed.
    Lemma po_sync j : w_sync (getw s' j) = w_sync (getw s j).
    Proof. apply po_field. apply Hsame. Qed.
    Lemma po_next j : w_next (getw s' j) = w_next (getw s j).
    Proof. apply po_field. apply Hsame. Qed.
    Lemma po_active j : w_active (getw s' j) = w_active (getw s j).
    Proof. apply po_field. apply Hsame. Qed.
    Lemma po_eof j : w_eof (getw s' j) = w_eof (getw s j).
    Proof. apply po_field. apply Hsame. Qed.
    Lemma po_pos j : w_pos (getw s' j) = w_pos (getw s j).
    Proof. apply po_field. apply Hsame. Qed.
    Lemma po_pc j : j <> i -> w_pc (getw s' j) = w_pc (getw s j).
    Proof. intros Hne. rewrite po_getw. destruct (Nat.eqb_spec i j); [congruence|reflexivity]. Qed.

    Lemma po_emit_end j : emit_end s' j = emit_end s j.
    Proof. unfold PChunkerInv.emit_end. now rewrite po_emit. Qed.
    Lemma po_frontier j : frontier s' j = frontier s j.
    Proof. unfold PChunkerInv.frontier. now rewrite po_emit, po_cons. Qed.
    Lemma po_onchain j : onchain s' j <-> onchain s j.
    Proof. unfold onchain. split; intros Ho x Hx; specialize (Ho x Hx); now rewrite po_next in *. Qed.

    Hypothesis Hex : is_ex (w_pc w') = is_ex (w_pc (getw s i)).
    Hypothesis Hpcl : pcl s' i.
    Hypothesis Hsl : sl s' i.

    Lemma pc_only_inv : PInv s'.
    Proof.
      destruct I as [In Ich Ica Ipo Ico Ine Iac Ieo Ipc Isy Ia Ib Ic Isl Ikb Iout Icol Idone Ihand].
      constructor.
      - unfold s'. rewrite nworkers_setw. exact In.
      - intros j Hj. rewrite po_emit. auto.
      - intros j Hj. rewrite po_emit. auto.
      - intros j Hj. rewrite po_pos, po_emit_end. auto.
      - intros j Hj. rewrite po_cons, po_emit. auto.
      - intros j Hj. rewrite po_next. auto.
      - intros j Hj. rewrite po_active. destruct (Nat.eq_dec j i) as [->|Hne].
        + rewrite po_getw, Nat.eqb_refl, Hex. auto.
        + rewrite po_pc by exact Hne. auto.
      - intros j Hj. rewrite po_eof, po_active, po_emit_end. auto.
      - intros j Hj. destruct (Nat.eq_dec j i) as [->|Hne]; [exact Hpcl|].
        specialize (Ipc j Hj). unfold PChunkerInv.pcl in *. rewrite po_pc by exact Hne.
        rewrite po_next, po_emit_end. exact Ipc.
      - intros j Hj Hk. unfold sync_ok. rewrite po_sync, po_cons, po_emit. apply Isy; auto.
      - intros a a' Hlt Ha' Hact. unfold act in Hact. rewrite po_active in Hact. rewrite po_next. apply Ia; auto.
      - intros a j Haj Hjn Hj. rewrite po_next in Hjn. rewrite po_active, po_cons, po_emit. apply (Ib a); auto.
      - intros a x Hax Hxn Hx. rewrite !po_next in *. apply Ic; auto.
      - intros a Ha. destruct (Nat.eq_dec a i) as [->|Hne]; [exact Hsl|].
        specialize (Isl a Ha). unfold PChunkerInv.sl in *. rewrite po_pc by exact Hne.
        rewrite po_next, po_cons, po_emit, po_sync. exact Isl.
      - intros j Hjk Hj. cbn in Hjk. rewrite po_active, po_cons, po_emit. apply Ikb; auto.
      - exact Iout.
      - intros Hd. destruct (Icol Hd) as [Hk [HA|HB]]; (split; [exact Hk|]).
        + left. unfold PChunkerInv.stateA in *. cbn [p_c s' setw] in *. rewrite po_onchain, po_frontier. exact HA.
        + right. unfold PChunkerInv.stateB in *. cbn [p_c s' setw] in *.
          destruct HB as (a & Ha & Ho & Hn & Hn' & Hf). exists a.
          rewrite po_onchain, po_next, po_frontier. tauto.
      - exact Idone.
      - intros a Ha Hk Hact Heof Ho. rewrite po_active in Hact. rewrite po_eof in Heof. rewrite po_onchain in Ho.
        rewrite po_next, po_frontier, po_emit_end. apply Ihand; auto.
    Qed.
  End PcOnly.

  (* ---------- a worker exits (end of stream, or in sync with its next) ---------- *)

  Section Exit.
    Variables (s : pstate) (i : nat) (eof : bool).
    Hypothesis I : PInv s.
    Hypothesis Hi : i < nw.
    Hypothesis Hact : w_active (getw s i) = true.
    Let w' := exit_w (getw s i) eof.
    Let s' := setw s i w'.
    Hypothesis Heof : eof = true -> emit_end s i = length data.
    Hypothesis Hhand : eof = false -> w_next (getw s i) < nw /\ frontier s (w_next (getw s i)) = emit_end s i.

    Lemma ex_getw j : getw s' j = if i =? j then w' else getw s j.
    Proof. unfold s'. apply getw_setw. rewrite (p_n _ _ _ _ _ _ s I). exact Hi. Qed.
    Lemma ex_field {A} (f : wstate -> A) j : (f w' = f (getw s i)) -> f (getw s' j) = f (getw s j).
    Proof. intros E. rewrite ex_getw. destruct (Nat.eqb_spec i j); [subst; exact E|reflexivity]. Qed.
    Lemma ex_emit j : w_emit (getw s' j) = w_emit (getw s j). Proof. apply ex_field. reflexivity. Qed.
    Lemma ex_cons j : w_cons (getw s' j) = w_cons (getw s j). Proof. apply ex_field. reflexivity. Qed.
    Lemma ex_sync j : w_sync (getw s' j) = w_sync (getw s j). Proof. apply ex_field. reflexivity. Qed.
    Lemma ex_next j : w_next (getw s' j) = w_next (getw s j). Proof. apply ex_field. reflexivity. Qed.
    Lemma ex_pos j : w_pos (getw s' j) = w_pos (getw s j). Proof. apply ex_field. reflexivity. Qed.
    Lemma ex_other {A} (f : wstate -> A) j : j <> i -> f (getw s' j) = f (getw s j).
    Proof. intros Hne. rewrite ex_getw. destruct (Nat.eqb_spec i j); [congruence|reflexivity]. Qed.
    Lemma ex_self : getw s' i = w'. Proof. rewrite ex_getw, Nat.eqb_refl. reflexivity. Qed.
    Lemma ex_emit_end j : emit_end s' j = emit_end s j.
    Proof. unfold PChunkerInv.emit_end. now rewrite ex_emit. Qed.
    Lemma ex_frontier j : frontier s' j = frontier s j.
    Proof. unfold PChunkerInv.frontier. now rewrite ex_emit, ex_cons. Qed.
    Lemma ex_onchain j : onchain s' j <-> onchain s j.
    Proof. unfold onchain. split; intros Ho x Hx; specialize (Ho x Hx); now rewrite ex_next in *. Qed.
    Lemma ex_active_mono j : w_active (getw s' j) = true -> w_active (getw s j) = true.
    Proof. destruct (Nat.eq_dec j i) as [->|Hne]; [rewrite ex_self; cbn; discriminate|now rewrite (ex_other w_active j Hne)]. Qed.

    Lemma exit_inv : PInv s'.
    Proof.
      pose proof (active_ge_kcur min max d data nw span s i I Hi Hact) as Hki.
      destruct I as [In Ich Ica Ipo Ico Ine Iac Ieo Ipc Isy Ia Ib Ic Isl Ikb Iout Icol Idone Ihand].
      constructor.
      - unfold s'. rewrite nworkers_setw. exact In.
      - intros j Hj. rewrite ex_emit. auto.
      - intros j Hj. rewrite ex_emit. auto.
      - intros j Hj. rewrite ex_pos, ex_emit_end. auto.
      - intros j Hj. rewrite ex_cons, ex_emit. auto.
      - intros j Hj. rewrite ex_next. auto.
      - intros j Hj. destruct (Nat.eq_dec j i) as [->|Hne]; [rewrite ex_self; reflexivity|].
        rewrite (ex_other w_active j Hne), (ex_other w_pc j Hne). auto.
      - intros j Hj He. rewrite ex_emit_end. destruct (Nat.eq_dec j i) as [->|Hne].
        + rewrite ex_self in *. cbn in *. split; [reflexivity|]. apply Heof. exact He.
        + rewrite (ex_other w_eof j Hne) in He. rewrite (ex_other w_active j Hne). auto.
      - intros j Hj. destruct (Nat.eq_dec j i) as [->|Hne].
        + unfold PChunkerInv.pcl. rewrite ex_self. cbn. exact Logic.I.
        + specialize (Ipc j Hj). unfold PChunkerInv.pcl in *. rewrite (ex_other w_pc j Hne), ex_next, ex_emit_end. exact Ipc.
      - intros j Hj Hk. unfold sync_ok. rewrite ex_sync, ex_cons, ex_emit. apply Isy; auto.
      - intros a a' Hlt Ha' Hac. unfold act in Hac. apply ex_active_mono in Hac. rewrite ex_next. apply Ia; auto.
      - intros a j Haj Hjn Hj. rewrite ex_next in Hjn. rewrite ex_cons, ex_emit.
        destruct (Ib a j Haj Hjn Hj) as [B1 B2]. split; [|exact B2].
        destruct (Nat.eq_dec j i) as [->|Hne]; [rewrite ex_self; reflexivity|now rewrite (ex_other w_active j Hne)].
      - intros a x Hax Hxn Hx. rewrite !ex_next in *. apply Ic; auto.
      - intros a Ha. destruct (Nat.eq_dec a i) as [->|Hne].
        + unfold PChunkerInv.sl. rewrite ex_self. cbn. exact Logic.I.
        + specialize (Isl a Ha). unfold PChunkerInv.sl in *. rewrite (ex_other w_pc a Hne), ex_next, ex_cons, ex_emit, ex_sync. exact Isl.
      - intros j Hjk Hj. cbn in Hjk. rewrite ex_cons, ex_emit. destruct (Ikb j Hjk Hj) as [B1 B2]. split; [|exact B2].
        destruct (Nat.eq_dec j i) as [->|Hne]; [rewrite ex_self; reflexivity|now rewrite (ex_other w_active j Hne)].
      - exact Iout.
      - intros Hd. destruct (Icol Hd) as [Hk [HA|HB]]; (split; [exact Hk|]).
        + left. unfold PChunkerInv.stateA in *. cbn [p_c s' setw] in *. rewrite ex_onchain, ex_frontier. exact HA.
        + right. unfold PChunkerInv.stateB in *. cbn [p_c s' setw] in *.
          destruct HB as (a & Ha & Ho & Hn & Hn' & Hf). exists a.
          rewrite ex_onchain, ex_next, ex_frontier. tauto.
      - exact Idone.
      - intros a Ha Hk Hac He Ho. rewrite ex_onchain in Ho. rewrite ex_next, ex_frontier, ex_emit_end.
        destruct (Nat.eq_dec a i) as [->|Hne].
        + rewrite ex_self in He. cbn in He. apply Hhand. exact He.
        + rewrite (ex_other w_active a Hne) in Hac. rewrite (ex_other w_eof a Hne) in He. apply Ihand; auto.
    Qed.
  End Exit.

  (* ---------- a worker pushes chunks into its own bucket ---------- *)

  Lemma nth_error_app_l {A} (l l' : list A) k : k < length l -> nth_error (l ++ l') k = nth_error l k.
  Proof. intros. apply nth_error_app1. assumption. Qed.

  Lemma firstn_app_l {A} (l l' : list A) k : k <= length l -> firstn k (l ++ l') = firstn k l.
  Proof. intros. rewrite firstn_app. replace (k - length l) with 0 by lia. cbn. apply app_nil_r. Qed.

  Section Push.
    Variables (s : pstate) (i : nat) (cs : list chunk) (newpc : pc).
    Hypothesis I : PInv s.
    Hypothesis Hi : i < nw.
    Hypothesis Hact : w_active (getw s i) = true.
    Let w := getw s i.
    Let w' := {| w_pos := w_pos w + covered cs; w_emit := w_emit w ++ cs; w_cons := w_cons w; w_sync := w_sync w;
                 w_next := w_next w; w_active := true; w_eof := false; w_pc := newpc |}.
    Let s' := setw s i w'.
    Hypothesis Hchain : chain (emit_end s i) cs.
    Hypothesis Hcanon : Forall canon cs.
    Hypothesis Hnex : is_ex newpc = false.

    Lemma pu_getw j : getw s' j = if i =? j then w' else getw s j.
    Proof. unfold s'. apply getw_setw. rewrite (p_n _ _ _ _ _ _ s I). exact Hi. Qed.
    Lemma pu_self : getw s' i = w'. Proof. rewrite pu_getw, Nat.eqb_refl. reflexivity. Qed.
    Lemma pu_other j : j <> i -> getw s' j = getw s j.
    Proof. intros Hne. rewrite pu_getw. destruct (Nat.eqb_spec i j); [congruence|reflexivity]. Qed.
    Lemma pu_field {A} (f : wstate -> A) j : (f w' = f (getw s i)) -> f (getw s' j) = f (getw s j).
    Proof. intros E. rewrite pu_getw. destruct (Nat.eqb_spec i j); [subst; exact E|reflexivity]. Qed.
    Lemma pu_cons j : w_cons (getw s' j) = w_cons (getw s j). Proof. apply pu_field. reflexivity. Qed.
    Lemma pu_sync j : w_sync (getw s' j) = w_sync (getw s j). Proof. apply pu_field. reflexivity. Qed.
    Lemma pu_next j : w_next (getw s' j) = w_next (getw s j). Proof. apply pu_field. reflexivity. Qed.
    Lemma pu_active j : w_active (getw s' j) = w_active (getw s j).
    Proof. apply pu_field. cbn. symmetry. exact Hact. Qed.
    Lemma pu_eof j : w_eof (getw s' j) = w_eof (getw s j).
    Proof.
      apply pu_field. cbn. symmetry. destruct (w_eof (getw s i)) eqn:E; [|reflexivity].
      destruct (p_eof _ _ _ _ _ _ s I i Hi E) as [Hf _]. congruence.
    Qed.
    Lemma pu_emit_prefix j : exists ext, w_emit (getw s' j) = w_emit (getw s j) ++ ext /\ (j <> i -> ext = []).
    Proof.
      destruct (Nat.eq_dec j i) as [->|Hne].
      - rewrite pu_self. exists cs. split; [reflexivity|congruence].
      - rewrite (pu_other j Hne). exists []. split; [now rewrite app_nil_r|reflexivity].
    Qed.
    Lemma pu_frontier j : j < nw -> frontier s' j = frontier s j.
    Proof.
      intros Hj. unfold PChunkerInv.frontier. rewrite pu_cons.
      destruct (pu_emit_prefix j) as (ext & E & _). rewrite E.
      rewrite firstn_app_l by (apply (p_cons _ _ _ _ _ _ s I j Hj)). reflexivity.
    Qed.
    Lemma pu_nth j k : j < nw -> k < w_cons (getw s j) ->
      nth_error (w_emit (getw s' j)) k = nth_error (w_emit (getw s j)) k.
    Proof.
      intros Hj Hk. destruct (pu_emit_prefix j) as (ext & E & _). rewrite E.
      apply nth_error_app_l. pose proof (p_cons _ _ _ _ _ _ s I j Hj). lia.
    Qed.
    Lemma pu_emit_end_other j : j <> i -> emit_end s' j = emit_end s j.
    Proof. intros Hne. unfold PChunkerInv.emit_end. now rewrite (pu_other j Hne). Qed.
    Lemma pu_emit_end_self : emit_end s' i = emit_end s i + covered cs.
    Proof. unfold PChunkerInv.emit_end. rewrite pu_self. cbn. rewrite covered_app. fold w. lia. Qed.
    Lemma pu_onchain j : onchain s' j <-> onchain s j.
    Proof. unfold onchain. split; intros Ho x Hx; specialize (Ho x Hx); now rewrite pu_next in *. Qed.

    Hypothesis Hpcl : pcl s' i.
    Hypothesis Hsl : sl s' i.

    Lemma push_inv : PInv s'.
    Proof.
      pose proof (active_ge_kcur min max d data nw span s i I Hi Hact) as Hki.
      pose proof I as I'.
      destruct I as [In Ich Ica Ipo Ico Ine Iac Ieo Ipc Isy Ia Ib Ic Isl Ikb Iout Icol Idone Ihand].
      constructor.
      - unfold s'. rewrite nworkers_setw. exact In.
      - intros j Hj. destruct (Nat.eq_dec j i) as [->|Hne].
        + rewrite pu_self. cbn. apply chain_app. split; [apply Ich; exact Hi|exact Hchain].
        + rewrite (pu_other j Hne). auto.
      - intros j Hj. destruct (Nat.eq_dec j i) as [->|Hne].
        + rewrite pu_self. cbn. apply Forall_app. split; [apply Ica; exact Hi|exact Hcanon].
        + rewrite (pu_other j Hne). auto.
      - intros j Hj. destruct (Nat.eq_dec j i) as [->|Hne].
        + rewrite pu_emit_end_self. rewrite pu_self. cbn. unfold w. rewrite (Ipo i Hi). reflexivity.
        + rewrite (pu_other j Hne), pu_emit_end_other by exact Hne. auto.
      - intros j Hj. rewrite pu_cons. destruct (pu_emit_prefix j) as (ext & E & _). rewrite E, app_length.
        specialize (Ico j Hj). lia.
      - intros j Hj. rewrite pu_next. auto.
      - intros j Hj. destruct (Nat.eq_dec j i) as [->|Hne].
        + rewrite pu_self. cbn. now rewrite Hnex.
        + rewrite (pu_other j Hne). auto.
      - intros j Hj He. rewrite pu_eof in He. rewrite pu_active.
        destruct (Ieo j Hj He) as [E1 E2]. split; [exact E1|].
        destruct (Nat.eq_dec j i) as [->|Hne]; [congruence|]. now rewrite pu_emit_end_other.
      - intros j Hj. destruct (Nat.eq_dec j i) as [->|Hne]; [exact Hpcl|].
        specialize (Ipc j Hj). unfold PChunkerInv.pcl in *. rewrite (pu_other j Hne).
        rewrite pu_emit_end_other by exact Hne. exact Ipc.
      - intros j Hj Hk. unfold sync_ok. rewrite pu_sync, pu_cons. specialize (Isy j Hj Hk). unfold sync_ok in Isy.
        rewrite Isy. destruct (w_cons (getw s j) =? 0) eqn:E0; [reflexivity|].
        apply Nat.eqb_neq in E0. symmetry. apply pu_nth; [exact Hj|lia].
      - intros a a' Hlt Ha' Hac. unfold act in Hac. rewrite pu_active in Hac. rewrite pu_next. apply Ia; auto.
      - intros a j Haj Hjn Hj. rewrite pu_next in Hjn. rewrite pu_active, pu_cons.
        destruct (Ib a j Haj Hjn Hj) as [B1 B2]. split; [exact B1|].
        destruct (Nat.eq_dec j i) as [->|Hne]; [congruence|]. now rewrite (pu_other j Hne).
      - intros a x Hax Hxn Hx. rewrite !pu_next in *. apply Ic; auto.
      - intros a Ha. destruct (Nat.eq_dec a i) as [->|Hne]; [exact Hsl|].
        specialize (Isl a Ha). unfold PChunkerInv.sl in *. rewrite (pu_other a Hne).
        set (b := w_next (getw s a)) in *.
        destruct (w_pc (getw s a)) as [|c prev|c n|c n| |]; auto.
        + destruct prev as [p0|]; [|exact Logic.I]. destruct Isl as (S1 & S2 & S3).
          rewrite pu_cons. split; [exact S1|]. split; [|exact S3].
          destruct (Nat.lt_ge_cases b nw) as [Hb|Hb].
          * rewrite pu_nth by (auto; lia). exact S2.
          * rewrite (pu_other b) by lia. exact S2.
        + destruct Isl as (m & S1 & S2 & S3). exists m. rewrite pu_sync. auto.
      - intros j Hjk Hj. cbn in Hjk. rewrite pu_active, pu_cons.
        destruct (Ikb j Hjk Hj) as [B1 B2]. split; [exact B1|].
        destruct (Nat.eq_dec j i) as [->|Hne]; [congruence|]. now rewrite (pu_other j Hne).
      - exact Iout.
      - intros Hd. destruct (Icol Hd) as [Hk [HA|HB]]; (split; [exact Hk|]).
        + left. unfold PChunkerInv.stateA in *. cbn [p_c s' setw] in *. rewrite pu_onchain, pu_frontier by exact Hk. exact HA.
        + right. unfold PChunkerInv.stateB in *. cbn [p_c s' setw] in *.
          destruct HB as (a & Ha & Ho & Hn & Hn' & Hf). exists a.
          rewrite pu_onchain, pu_next, pu_frontier by exact Hn'. tauto.
      - exact Idone.
      - intros a Ha Hk Hac He Ho. rewrite pu_active in Hac. rewrite pu_eof in He. rewrite pu_onchain in Ho.
        rewrite pu_next. destruct (Ihand a Ha Hk Hac He Ho) as [H1 H2]. split; [exact H1|].
        rewrite pu_frontier by exact H1. destruct (Nat.eq_dec a i) as [->|Hne]; [congruence|].
        now rewrite pu_emit_end_other.
    Qed.
  End Push.
End Steps.
