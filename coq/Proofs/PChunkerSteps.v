(* Preservation of the IndexFromFile invariant, step kind by step kind. *)
From Coq Require Import List NArith Arith Bool Lia.
From DS Require Import Gen.Constants Base.Bytes Base.Hash Base.Sched Model.Chunker Model.PChunker
     Proofs.ChunkerSpecProofs Proofs.PChunkerBase Proofs.PChunkerInv.
Import ListNotations.

Section Steps.
  Variable H : bytes -> id.
  Variables (min max : nat) (d : N) (data : bytes).
  Hypothesis Hmin : W <= min.
  Hypothesis Hmax : min <= max.
  Hypothesis Hpos : 0 < max.
  Variables (nw span : nat).
  Hypothesis Hspan : forall i, i < nw -> span * i <= length data.

  Notation canon := (canon min max d data).
  Notation PInv := (PInv min max d data nw span).
  Notation emit_end := (emit_end span).
  Notation frontier := (frontier span).
  Notation pcl := (pcl min max d data nw span).
  Notation sl := (sl min max d data).
  Notation stateA := (stateA span).
  Notation stateB := (stateB nw span).

  (* rewriting getw over setw *)
  Ltac gs :=
    repeat (rewrite getw_setw by (rewrite ?nworkers_setw; lia));
    repeat match goal with
           | |- context [?a =? ?b] => destruct (Nat.eqb_spec a b); try subst; try lia
           end.

  (* ---------- a change of the program counter only ---------- *)

  Definition same_but_pc (w w' : wstate) : Prop :=
    w_pos w' = w_pos w /\ w_emit w' = w_emit w /\ w_cons w' = w_cons w /\ w_sync w' = w_sync w /\
    w_next w' = w_next w /\ w_active w' = w_active w /\ w_eof w' = w_eof w.

  Lemma with_pc_same w p : same_but_pc w (with_pc w p).
  Proof. unfold same_but_pc, with_pc. cbn. tauto. Qed.

  Section PcOnly.
    Variables (s : pstate) (i : nat) (w' : wstate).
    Hypothesis I : PInv s.
    Hypothesis Hi : i < nw.
    Hypothesis Hsame : same_but_pc (getw s i) w'.
    Let s' := setw s i w'.

    Lemma po_getw j : getw s' j = if i =? j then w' else getw s j.
    Proof. unfold s'. apply getw_setw. rewrite (p_n _ _ _ _ _ _ s I). exact Hi. Qed.

    Lemma po_field {A} (f : wstate -> A) j :
      (f w' = f (getw s i)) -> f (getw s' j) = f (getw s j).
    Proof. intros E. rewrite po_getw. destruct (Nat.eqb_spec i j); [subst; exact E|reflexivity]. Qed.

    Lemma po_emit j : w_emit (getw s' j) = w_emit (getw s j).
    Proof. apply po_field. apply Hsame. Qed.
    Lemma po_cons j : w_cons (getw s' j) = w_cons (getw s j).
    Proof. apply po_field. apply Hsame. Qed.
    Lemma po_sync j : w_sync (getw s' j) = w_sync (getw s j).
    Proof. apply po_field. apply Hsame. Qed.
    Lemma po_next j : w_next (getw s' j) = w_next (getw s j).
    Proof. apply po_field. apply Hsame. Qed.
    Lemma po_active j : w_active (getw s' j) = w_active (getw s j).
    Proof. apply po_field. apply Hsame. Qed.
    Lemma po_eof j : w_eof (getw s' j) = w_eof (getw s j).
    Proof. apply po_field. apply Hsame. Qed.
    Lemma po_pos j : w_pos (getw s' j) = w_pos (getw s j).
    Proof. apply po_field. apply Hsame. Qed.
    Lemma po_pc j : j <> i -> w_pc (getw s' j) = w_pc (getw s j).
    Proof. intros Hne. rewrite po_getw. destruct (Nat.eqb_spec i j); [congruence|reflexivity]. Qed.

    Lemma po_emit_end j : emit_end s' j = emit_end s j.
    Proof. unfold PChunkerInv.emit_end. now rewrite po_emit. Qed.
    Lemma po_frontier j : frontier s' j = frontier s j.
    Proof. unfold PChunkerInv.frontier. now rewrite po_emit, po_cons. Qed.
    Lemma po_onchain j : onchain s' j <-> onchain s j.
    Proof. unfold onchain. split; intros Ho x Hx; specialize (Ho x Hx); now rewrite po_next in *. Qed.

    Hypothesis Hex : is_ex (w_pc w') = is_ex (w_pc (getw s i)).
    Hypothesis Hpcl : pcl s' i.
    Hypothesis Hsl : sl s' i.

    Lemma pc_only_inv : PInv s'.
    Proof.
      destruct I as [In Ich Ica Ipo Ico Ine Iac Ieo Ipc Isy Ia Ib Ic Isl Ikb Iout Icol Idone Ihand].
      constructor.
      - unfold s'. rewrite nworkers_setw. exact In.
      - intros j Hj. rewrite po_emit. auto.
      - intros j Hj. rewrite po_emit. auto.
      - intros j Hj. rewrite po_pos, po_emit_end. auto.
      - intros j Hj. rewrite po_cons, po_emit. auto.
      - intros j Hj. rewrite po_next. auto.
      - intros j Hj. rewrite po_active. destruct (Nat.eq_dec j i) as [->|Hne].
        + rewrite po_getw, Nat.eqb_refl, Hex. auto.
        + rewrite po_pc by exact Hne. auto.
      - intros j Hj. rewrite po_eof, po_active, po_emit_end. auto.
      - intros j Hj. destruct (Nat.eq_dec j i) as [->|Hne]; [exact Hpcl|].
        specialize (Ipc j Hj). unfold PChunkerInv.pcl in *. rewrite po_pc by exact Hne.
        rewrite po_next, po_emit_end. exact Ipc.
      - intros j Hj Hk. unfold sync_ok. rewrite po_sync, po_cons, po_emit. apply Isy; auto.
      - intros a a' Hlt Ha' Hact. unfold act in Hact. rewrite po_active in Hact. rewrite po_next. apply Ia; auto.
      - intros a j Haj Hjn Hj. rewrite po_next in Hjn. rewrite po_active, po_cons, po_emit. apply (Ib a); auto.
      - intros a x Hax Hxn Hx. rewrite !po_next in *. apply Ic; auto.
      - intros a Ha. destruct (Nat.eq_dec a i) as [->|Hne]; [exact Hsl|].
        specialize (Isl a Ha). unfold PChunkerInv.sl in *. rewrite po_pc by exact Hne.
        rewrite po_next, po_cons, po_emit, po_sync. exact Isl.
      - intros j Hjk Hj. cbn in Hjk. rewrite po_active, po_cons, po_emit. apply Ikb; auto.
      - exact Iout.
      - intros Hd. destruct (Icol Hd) as [Hk [HA|HB]]; (split; [exact Hk|]).
        + left. unfold PChunkerInv.stateA in *. cbn [p_c s' setw] in *. rewrite po_onchain, po_frontier. exact HA.
        + right. unfold PChunkerInv.stateB in *. cbn [p_c s' setw] in *.
          destruct HB as (a & Ha & Ho & Hn & Hn' & Hf). exists a.
          rewrite po_onchain, po_next, po_frontier. tauto.
      - exact Idone.
      - intros a Ha Hk Hact Heof Ho. rewrite po_active in Hact. rewrite po_eof in Heof. rewrite po_onchain in Ho.
        rewrite po_next, po_frontier, po_emit_end. apply Ihand; auto.
    Qed.
  End PcOnly.

  (* ---------- a worker exits (end of stream, or in sync with its next) ---------- *)

  Section Exit.
    Variables (s : pstate) (i : nat) (eof : bool).
    Hypothesis I : PInv s.
    Hypothesis Hi : i < nw.
    Hypothesis Hact : w_active (getw s i) = true.
    Let w' := exit_w (getw s i) eof.
    Let s' := setw s i w'.
    Hypothesis Heof : eof = true -> emit_end s i = length data.
    Hypothesis Hhand : eof = false -> w_next (getw s i) < nw /\ frontier s (w_next (getw s i)) = emit_end s i.

    Lemma ex_getw j : getw s' j = if i =? j then w' else getw s j.
    Proof. unfold s'. apply getw_setw. rewrite (p_n _ _ _ _ _ _ s I). exact Hi. Qed.
    Lemma ex_field {A} (f : wstate -> A) j : (f w' = f (getw s i)) -> f (getw s' j) = f (getw s j).
    Proof. intros E. rewrite ex_getw. destruct (Nat.eqb_spec i j); [subst; exact E|reflexivity]. Qed.
    Lemma ex_emit j : w_emit (getw s' j) = w_emit (getw s j). Proof. apply ex_field. reflexivity. Qed.
    Lemma ex_cons j : w_cons (getw s' j) = w_cons (getw s j). Proof. apply ex_field. reflexivity. Qed.
    Lemma ex_sync j : w_sync (getw s' j) = w_sync (getw s j). Proof. apply ex_field. reflexivity. Qed.
    Lemma ex_next j : w_next (getw s' j) = w_next (getw s j). Proof. apply ex_field. reflexivity. Qed.
    Lemma ex_pos j : w_pos (getw s' j) = w_pos (getw s j). Proof. apply ex_field. reflexivity. Qed.
    Lemma ex_other {A} (f : wstate -> A) j : j <> i -> f (getw s' j) = f (getw s j).
    Proof. intros Hne. rewrite ex_getw. destruct (Nat.eqb_spec i j); [congruence|reflexivity]. Qed.
    Lemma ex_self : getw s' i = w'. Proof. rewrite ex_getw, Nat.eqb_refl. reflexivity. Qed.
    Lemma ex_emit_end j : emit_end s' j = emit_end s j.
    Proof. unfold PChunkerInv.emit_end. now rewrite ex_emit. Qed.
    Lemma ex_frontier j : frontier s' j = frontier s j.
    Proof. unfold PChunkerInv.frontier. now rewrite ex_emit, ex_cons. Qed.
    Lemma ex_onchain j : onchain s' j <-> onchain s j.
    Proof. unfold onchain. split; intros Ho x Hx; specialize (Ho x Hx); now rewrite ex_next in *. Qed.
    Lemma ex_active_mono j : w_active (getw s' j) = true -> w_active (getw s j) = true.
    Proof. destruct (Nat.eq_dec j i) as [->|Hne]; [rewrite ex_self; cbn; discriminate|now rewrite (ex_other w_active j Hne)]. Qed.

    Lemma exit_inv : PInv s'.
    Proof.
      pose proof (active_ge_kcur min max d data nw span s i I Hi Hact) as Hki.
      destruct I as [In Ich Ica Ipo Ico Ine Iac Ieo Ipc Isy Ia Ib Ic Isl Ikb Iout Icol Idone Ihand].
      constructor.
      - unfold s'. rewrite nworkers_setw. exact In.
      - intros j Hj. rewrite ex_emit. auto.
      - intros j Hj. rewrite ex_emit. auto.
      - intros j Hj. rewrite ex_pos, ex_emit_end. auto.
      - intros j Hj. rewrite ex_cons, ex_emit. auto.
      - intros j Hj. rewrite ex_next. auto.
      - intros j Hj. destruct (Nat.eq_dec j i) as [->|Hne]; [rewrite ex_self; reflexivity|].
        rewrite (ex_other w_active j Hne), (ex_other w_pc j Hne). auto.
      - intros j Hj He. rewrite ex_emit_end. destruct (Nat.eq_dec j i) as [->|Hne].
        + rewrite ex_self in *. cbn in *. split; [reflexivity|]. apply Heof. exact He.
        + rewrite (ex_other w_eof j Hne) in He. rewrite (ex_other w_active j Hne). auto.
      - intros j Hj. destruct (Nat.eq_dec j i) as [->|Hne].
        + unfold PChunkerInv.pcl. rewrite ex_self. cbn. exact Logic.I.
        + specialize (Ipc j Hj). unfold PChunkerInv.pcl in *. rewrite (ex_other w_pc j Hne), ex_next, ex_emit_end. exact Ipc.
      - intros j Hj Hk. unfold sync_ok. rewrite ex_sync, ex_cons, ex_emit. apply Isy; auto.
      - intros a a' Hlt Ha' Hac. unfold act in Hac. apply ex_active_mono in Hac. rewrite ex_next. apply Ia; auto.
      - intros a j Haj Hjn Hj. rewrite ex_next in Hjn. rewrite ex_cons, ex_emit.
        destruct (Ib a j Haj Hjn Hj) as [B1 B2]. split; [|exact B2].
        destruct (Nat.eq_dec j i) as [->|Hne]; [rewrite ex_self; reflexivity|now rewrite (ex_other w_active j Hne)].
      - intros a x Hax Hxn Hx. rewrite !ex_next in *. apply Ic; auto.
      - intros a Ha. destruct (Nat.eq_dec a i) as [->|Hne].
        + unfold PChunkerInv.sl. rewrite ex_self. cbn. exact Logic.I.
        + specialize (Isl a Ha). unfold PChunkerInv.sl in *. rewrite (ex_other w_pc a Hne), ex_next, ex_cons, ex_emit, ex_sync. exact Isl.
      - intros j Hjk Hj. cbn in Hjk. rewrite ex_cons, ex_emit. destruct (Ikb j Hjk Hj) as [B1 B2]. split; [|exact B2].
        destruct (Nat.eq_dec j i) as [->|Hne]; [rewrite ex_self; reflexivity|now rewrite (ex_other w_active j Hne)].
      - exact Iout.
      - intros Hd. destruct (Icol Hd) as [Hk [HA|HB]]; (split; [exact Hk|]).
        + left. unfold PChunkerInv.stateA in *. cbn [p_c s' setw] in *. rewrite ex_onchain, ex_frontier. exact HA.
        + right. unfold PChunkerInv.stateB in *. cbn [p_c s' setw] in *.
          destruct HB as (a & Ha & Ho & Hn & Hn' & Hf). exists a.
          rewrite ex_onchain, ex_next, ex_frontier. tauto.
      - exact Idone.
      - intros a Ha Hk Hac He Ho. rewrite ex_onchain in Ho. rewrite ex_next, ex_frontier, ex_emit_end.
        destruct (Nat.eq_dec a i) as [->|Hne].
        + rewrite ex_self in He. cbn in He. apply Hhand. exact He.
        + rewrite (ex_other w_active a Hne) in Hac. rewrite (ex_other w_eof a Hne) in He. apply Ihand; auto.
    Qed.
  End Exit.

  (* ---------- a worker pushes chunks into its own bucket ---------- *)

  Lemma nth_error_app_l {A} (l l' : list A) k : k < length l -> nth_error (l ++ l') k = nth_error l k.
  Proof. intros. apply nth_error_app1. assumption. Qed.

  Lemma firstn_app_l {A} (l l' : list A) k : k <= length l -> firstn k (l ++ l') = firstn k l.
  Proof. intros. rewrite firstn_app. replace (k - length l) with 0 by lia. cbn. apply app_nil_r. Qed.

  Section Push.
    Variables (s : pstate) (i : nat) (cs : list chunk) (newpc : pc).
    Hypothesis I : PInv s.
    Hypothesis Hi : i < nw.
    Hypothesis Hact : w_active (getw s i) = true.
    Let w := getw s i.
    Let w' := {| w_pos := w_pos w + covered cs; w_emit := w_emit w ++ cs; w_cons := w_cons w; w_sync := w_sync w;
                 w_next := w_next w; w_active := true; w_eof := false; w_pc := newpc |}.
    Let s' := setw s i w'.
    Hypothesis Hchain : chain (emit_end s i) cs.
    Hypothesis Hcanon : Forall canon cs.
    Hypothesis Hnex : is_ex newpc = false.

    Lemma pu_getw j : getw s' j = if i =? j then w' else getw s j.
    Proof. unfold s'. apply getw_setw. rewrite (p_n _ _ _ _ _ _ s I). exact Hi. Qed.
    Lemma pu_self : getw s' i = w'. Proof. rewrite pu_getw, Nat.eqb_refl. reflexivity. Qed.
    Lemma pu_other j : j <> i -> getw s' j = getw s j.
    Proof. intros Hne. rewrite pu_getw. destruct (Nat.eqb_spec i j); [congruence|reflexivity]. Qed.
    Lemma pu_field {A} (f : wstate -> A) j : (f w' = f (getw s i)) -> f (getw s' j) = f (getw s j).
    Proof. intros E. rewrite pu_getw. destruct (Nat.eqb_spec i j); [subst; exact E|reflexivity]. Qed.
    Lemma pu_cons j : w_cons (getw s' j) = w_cons (getw s j). Proof. apply pu_field. reflexivity. Qed.
    Lemma pu_sync j : w_sync (getw s' j) = w_sync (getw s j). Proof. apply pu_field. reflexivity. Qed.
    Lemma pu_next j : w_next (getw s' j) = w_next (getw s j). Proof. apply pu_field. reflexivity. Qed.
    Lemma pu_active j : w_active (getw s' j) = w_active (getw s j).
    Proof. apply pu_field. cbn. symmetry. exact Hact. Qed.
    Lemma pu_eof j : w_eof (getw s' j) = w_eof (getw s j).
    Proof.
      apply pu_field. cbn. symmetry. destruct (w_eof (getw s i)) eqn:E; [|reflexivity].
      destruct (p_eof _ _ _ _ _ _ s I i Hi E) as [Hf _]. congruence.
    Qed.
    Lemma pu_emit_prefix j : exists ext, w_emit (getw s' j) = w_emit (getw s j) ++ ext /\ (j <> i -> ext = []).
    Proof.
      destruct (Nat.eq_dec j i) as [->|Hne].
      - rewrite pu_self. exists cs. split; [reflexivity|congruence].
      - rewrite (pu_other j Hne). exists []. split; [now rewrite app_nil_r|reflexivity].
    Qed.
    Lemma pu_frontier j : j < nw -> frontier s' j = frontier s j.
    Proof.
      intros Hj. unfold PChunkerInv.frontier. rewrite pu_cons.
      destruct (pu_emit_prefix j) as (ext & E & _). rewrite E.
      rewrite firstn_app_l by (apply (p_cons _ _ _ _ _ _ s I j Hj)). reflexivity.
    Qed.
    Lemma pu_nth j k : j < nw -> k < w_cons (getw s j) ->
      nth_error (w_emit (getw s' j)) k = nth_error (w_emit (getw s j)) k.
    Proof.
      intros Hj Hk. destruct (pu_emit_prefix j) as (ext & E & _). rewrite E.
      apply nth_error_app_l. pose proof (p_cons _ _ _ _ _ _ s I j Hj). lia.
    Qed.
    Lemma pu_emit_end_other j : j <> i -> emit_end s' j = emit_end s j.
    Proof. intros Hne. unfold PChunkerInv.emit_end. now rewrite (pu_other j Hne). Qed.
    Lemma pu_emit_end_self : emit_end s' i = emit_end s i + covered cs.
    Proof. unfold PChunkerInv.emit_end. rewrite pu_self. cbn. rewrite covered_app. fold w. lia. Qed.
    Lemma pu_onchain j : onchain s' j <-> onchain s j.
    Proof. unfold onchain. split; intros Ho x Hx; specialize (Ho x Hx); now rewrite pu_next in *. Qed.

    Hypothesis Hpcl : pcl s' i.
    Hypothesis Hsl : sl s' i.

    Lemma push_inv : PInv s'.
    Proof.
      pose proof (active_ge_kcur min max d data nw span s i I Hi Hact) as Hki.
      pose proof I as I'.
      destruct I as [In Ich Ica Ipo Ico Ine Iac Ieo Ipc Isy Ia Ib Ic Isl Ikb Iout Icol Idone Ihand].
      constructor.
      - unfold s'. rewrite nworkers_setw. exact In.
      - intros j Hj. destruct (Nat.eq_dec j i) as [->|Hne].
        + rewrite pu_self. cbn. apply chain_app. split; [apply Ich; exact Hi|exact Hchain].
        + rewrite (pu_other j Hne). auto.
      - intros j Hj. destruct (Nat.eq_dec j i) as [->|Hne].
        + rewrite pu_self. cbn. apply Forall_app. split; [apply Ica; exact Hi|exact Hcanon].
        + rewrite (pu_other j Hne). auto.
      - intros j Hj. destruct (Nat.eq_dec j i) as [->|Hne].
        + rewrite pu_emit_end_self. rewrite pu_self. cbn. unfold w. rewrite (Ipo i Hi). reflexivity.
        + rewrite (pu_other j Hne), pu_emit_end_other by exact Hne. auto.
      - intros j Hj. rewrite pu_cons. destruct (pu_emit_prefix j) as (ext & E & _). rewrite E, app_length.
        specialize (Ico j Hj). lia.
      - intros j Hj. rewrite pu_next. auto.
      - intros j Hj. destruct (Nat.eq_dec j i) as [->|Hne].
        + rewrite pu_self. cbn. now rewrite Hnex.
        + rewrite (pu_other j Hne). auto.
      - intros j Hj He. rewrite pu_eof in He. rewrite pu_active.
        destruct (Ieo j Hj He) as [E1 E2]. split; [exact E1|].
        destruct (Nat.eq_dec j i) as [->|Hne]; [congruence|]. now rewrite pu_emit_end_other.
      - intros j Hj. destruct (Nat.eq_dec j i) as [->|Hne]; [exact Hpcl|].
        specialize (Ipc j Hj). unfold PChunkerInv.pcl in *. rewrite (pu_other j Hne).
        rewrite pu_emit_end_other by exact Hne. exact Ipc.
      - intros j Hj Hk. unfold sync_ok. rewrite pu_sync, pu_cons. specialize (Isy j Hj Hk). unfold sync_ok in Isy.
        rewrite Isy. destruct (w_cons (getw s j) =? 0) eqn:E0; [reflexivity|].
        apply Nat.eqb_neq in E0. symmetry. apply pu_nth; [exact Hj|lia].
      - intros a a' Hlt Ha' Hac. unfold act in Hac. rewrite pu_active in Hac. rewrite pu_next. apply Ia; auto.
      - intros a j Haj Hjn Hj. rewrite pu_next in Hjn. rewrite pu_active, pu_cons.
        destruct (Ib a j Haj Hjn Hj) as [B1 B2]. split; [exact B1|].
        destruct (Nat.eq_dec j i) as [->|Hne]; [congruence|]. now rewrite (pu_other j Hne).
      - intros a x Hax Hxn Hx. rewrite !pu_next in *. apply Ic; auto.
      - intros a Ha. destruct (Nat.eq_dec a i) as [->|Hne]; [exact Hsl|].
        specialize (Isl a Ha). unfold PChunkerInv.sl in *. rewrite (pu_other a Hne).
        set (b := w_next (getw s a)) in *.
        destruct (w_pc (getw s a)) as [|c prev|c n|c n| |]; auto.
        + destruct prev as [p0|]; [|exact Logic.I]. destruct Isl as (S1 & S2 & S3).
          rewrite pu_cons. split; [exact S1|]. split; [|exact S3].
          destruct (Nat.lt_ge_cases b nw) as [Hb|Hb].
          * rewrite pu_nth by (auto; lia). exact S2.
          * rewrite (pu_other b) by lia. exact S2.
        + destruct Isl as (m & S1 & S2 & S3). exists m. rewrite pu_sync. auto.
      - intros j Hjk Hj. cbn in Hjk. rewrite pu_active, pu_cons.
        destruct (Ikb j Hjk Hj) as [B1 B2]. split; [exact B1|].
        destruct (Nat.eq_dec j i) as [->|Hne]; [congruence|]. now rewrite (pu_other j Hne).
      - exact Iout.
      - intros Hd. destruct (Icol Hd) as [Hk [HA|HB]]; (split; [exact Hk|]).
        + left. unfold PChunkerInv.stateA in *. cbn [p_c s' setw] in *. rewrite pu_onchain, pu_frontier by exact Hk. exact HA.
        + right. unfold PChunkerInv.stateB in *. cbn [p_c s' setw] in *.
          destruct HB as (a & Ha & Ho & Hn & Hn' & Hf). exists a.
          rewrite pu_onchain, pu_next, pu_frontier by exact Hn'. tauto.
      - exact Idone.
      - intros a Ha Hk Hac He Ho. rewrite pu_active in Hac. rewrite pu_eof in He. rewrite pu_onchain in Ho.
        rewrite pu_next. destruct (Ihand a Ha Hk Hac He Ho) as [H1 H2]. split; [exact H1|].
        rewrite pu_frontier by exact H1. destruct (Nat.eq_dec a i) as [->|Hne]; [congruence|].
        now rewrite pu_emit_end_other.
    Qed.
  End Push.

  (* ---------- a worker receives from its next worker's bucket (syncWith) ---------- *)

  Section Recv.
    Variables (s : pstate) (i : nat) (v : chunk) (newpc : pc).
    Hypothesis I : PInv s.
    Hypothesis Hi : i < nw.
    Hypothesis Hact : w_active (getw s i) = true.
    Let w := getw s i.
    Let j := w_next w.
    Hypothesis Hj : j < nw.
    Let b := getw s j.
    Hypothesis Hhead : nth_error (w_emit b) (w_cons b) = Some v.
    Let b' := recv_w b v.
    Let w' := with_pc w newpc.
    Let s' := setw (setw s j b') i w'.
    Hypothesis Hnex : is_ex newpc = false.

    Lemma rc_ij : i < j. Proof. apply (p_next _ _ _ _ _ _ s I i Hi). Qed.

    Lemma rc_getw x : getw s' x = if i =? x then w' else if j =? x then b' else getw s x.
    Proof.
      unfold s'. rewrite getw_setw by (rewrite nworkers_setw, (p_n _ _ _ _ _ _ s I); exact Hi).
      destruct (i =? x); [reflexivity|]. apply getw_setw. rewrite (p_n _ _ _ _ _ _ s I). exact Hj.
    Qed.
    Lemma rc_self : getw s' i = w'. Proof. rewrite rc_getw, Nat.eqb_refl. reflexivity. Qed.
    Lemma rc_b : getw s' j = b'.
    Proof. rewrite rc_getw. pose proof rc_ij. destruct (Nat.eqb_spec i j); [lia|]. now rewrite Nat.eqb_refl. Qed.
    Lemma rc_other x : x <> i -> x <> j -> getw s' x = getw s x.
    Proof. intros H1 H2. rewrite rc_getw. destruct (Nat.eqb_spec i x); [congruence|]. destruct (Nat.eqb_spec j x); [congruence|reflexivity]. Qed.
    Lemma rc_field {A} (f : wstate -> A) x : f w' = f w -> f b' = f b -> f (getw s' x) = f (getw s x).
    Proof.
      intros E1 E2. rewrite rc_getw. destruct (Nat.eqb_spec i x); [subst; exact E1|].
      destruct (Nat.eqb_spec j x); [subst; exact E2|reflexivity].
    Qed.
    Lemma rc_emit x : w_emit (getw s' x) = w_emit (getw s x). Proof. apply rc_field; reflexivity. Qed.
    Lemma rc_next x : w_next (getw s' x) = w_next (getw s x). Proof. apply rc_field; reflexivity. Qed.
    Lemma rc_active x : w_active (getw s' x) = w_active (getw s x). Proof. apply rc_field; reflexivity. Qed.
    Lemma rc_eof x : w_eof (getw s' x) = w_eof (getw s x). Proof. apply rc_field; reflexivity. Qed.
    Lemma rc_pos x : w_pos (getw s' x) = w_pos (getw s x). Proof. apply rc_field; reflexivity. Qed.
    Lemma rc_pc x : x <> i -> w_pc (getw s' x) = w_pc (getw s x).
    Proof. intros Hne. rewrite rc_getw. destruct (Nat.eqb_spec i x); [congruence|]. destruct (Nat.eqb_spec j x); [subst; reflexivity|reflexivity]. Qed.
    Lemma rc_cons x : x <> j -> w_cons (getw s' x) = w_cons (getw s x).
    Proof. intros Hne. rewrite rc_getw. destruct (Nat.eqb_spec i x); [subst; reflexivity|]. destruct (Nat.eqb_spec j x); [congruence|reflexivity]. Qed.
    Lemma rc_sync x : x <> j -> w_sync (getw s' x) = w_sync (getw s x).
    Proof. intros Hne. rewrite rc_getw. destruct (Nat.eqb_spec i x); [subst; reflexivity|]. destruct (Nat.eqb_spec j x); [congruence|reflexivity]. Qed.
    Lemma rc_emit_end x : emit_end s' x = emit_end s x.
    Proof. unfold PChunkerInv.emit_end. now rewrite rc_emit. Qed.
    Lemma rc_frontier x : x <> j -> frontier s' x = frontier s x.
    Proof. intros Hne. unfold PChunkerInv.frontier. now rewrite rc_emit, rc_cons. Qed.
    Lemma rc_onchain x : onchain s' x <-> onchain s x.
    Proof. unfold onchain. split; intros Ho y Hy; specialize (Ho y Hy); now rewrite rc_next in *. Qed.

    Lemma rc_cons_lt : w_cons b < length (w_emit b).
    Proof. apply nth_error_Some. rewrite Hhead. discriminate. Qed.

    (* nobody has j inside a skipped gap: its bucket is not empty *)
    Lemma rc_not_in_gap a : a < j -> j < w_next (getw s a) -> False.
    Proof.
      intros H1 H2. destruct (p_n2b _ _ _ _ _ _ s I a j H1 H2 Hj) as [_ E]. fold b in E. pose proof rc_cons_lt. lia.
    Qed.

    (* the only active worker whose next is j is i *)
    Lemma rc_unique a : a < nw -> w_active (getw s a) = true -> w_next (getw s a) = j -> a = i.
    Proof. intros Ha Aa En. apply (next_unique H min max d data Hmin Hmax Hpos nw span Hspan s a i I Ha Hi Aa Hact). exact En. Qed.

    Hypothesis Hpcl : pcl s' i.
    Hypothesis Hsl : sl s' i.

    Lemma recv_inv : PInv s'.
    Proof.
      pose proof (active_ge_kcur min max d data nw span s i I Hi Hact) as Hki.
      pose proof rc_ij as Hij. pose proof rc_cons_lt as Hcl.
      pose proof I as I'.
      destruct I as [In Ich Ica Ipo Ico Ine Iac Ieo Ipc Isy Ia Ib Ic Isl Ikb Iout Icol Idone Ihand].
      constructor.
      - unfold s'. rewrite !nworkers_setw. exact In.
      - intros x Hx. rewrite rc_emit. auto.
      - intros x Hx. rewrite rc_emit. auto.
      - intros x Hx. rewrite rc_pos, rc_emit_end. auto.
      - intros x Hx. rewrite rc_emit. destruct (Nat.eq_dec x j) as [->|Hne].
        + rewrite rc_b. cbn. fold b. lia.
        + rewrite rc_cons by exact Hne. auto.
      - intros x Hx. rewrite rc_next. auto.
      - intros x Hx. rewrite rc_active. destruct (Nat.eq_dec x i) as [->|Hne].
        + rewrite rc_self. cbn. rewrite Hnex. exact Hact.
        + rewrite rc_pc by exact Hne. auto.
      - intros x Hx He. rewrite rc_eof in He. rewrite rc_active, rc_emit_end. auto.
      - intros x Hx. destruct (Nat.eq_dec x i) as [->|Hne]; [exact Hpcl|].
        specialize (Ipc x Hx). unfold PChunkerInv.pcl in *. rewrite rc_pc by exact Hne. rewrite rc_next, rc_emit_end. exact Ipc.
      - intros x Hx Hk. cbn [p_c s' setw] in Hk. unfold sync_ok. rewrite rc_emit.
        destruct (Nat.eq_dec x j) as [->|Hne].
        + rewrite rc_b. cbn. fold b. replace (w_cons b - 0) with (w_cons b) by lia. symmetry. exact Hhead.
        + rewrite rc_sync, rc_cons by exact Hne. apply Isy; auto.
      - intros a a' Hlt Ha' Hac. unfold act in Hac. rewrite rc_active in Hac. rewrite rc_next. apply Ia; auto.
      - intros a x Hax Hxn Hx. rewrite rc_next in Hxn. rewrite rc_active, rc_emit.
        destruct (Nat.eq_dec x j) as [->|Hne]; [exfalso; eapply rc_not_in_gap; eauto|].
        rewrite rc_cons by exact Hne. apply (Ib a); auto.
      - intros a x Hax Hxn Hx. rewrite !rc_next in *. apply Ic; auto.
      - intros a Ha. destruct (Nat.eq_dec a i) as [->|Hne]; [exact Hsl|].
        specialize (Isl a Ha). unfold PChunkerInv.sl in *. rewrite rc_pc by exact Hne. rewrite rc_next, rc_emit.
        destruct (Nat.eq_dec (w_next (getw s a)) j) as [En|Hnj].
        + (* a's next is j: then a is not in a state that looks at j's bucket, or a = i *)
          destruct (w_pc (getw s a)) as [|c prev|c n|c n| |] eqn:Epc; auto.
          * destruct prev as [p0|]; [|exact Logic.I]. exfalso. apply Hne. apply rc_unique; auto.
            rewrite (Iac a Ha), Epc. reflexivity.
          * exfalso. apply Hne. apply rc_unique; auto. rewrite (Iac a Ha), Epc. reflexivity.
        + rewrite rc_cons, rc_sync by exact Hnj. exact Isl.
      - intros x Hxk Hx. cbn [p_c s' setw] in Hxk. rewrite rc_active, rc_emit, rc_cons by lia. apply Ikb; auto.
      - exact Iout.
      - intros Hd. destruct (Icol Hd) as [Hk [HA|HB]]; (split; [exact Hk|]).
        + left. unfold PChunkerInv.stateA in *. cbn [p_c s' setw] in *. rewrite rc_onchain, rc_frontier by lia. exact HA.
        + right. unfold PChunkerInv.stateB in *. cbn [p_c s' setw] in *.
          destruct HB as (a & Ha & Ho & Hn & Hn' & Hf). exists a.
          rewrite rc_onchain, rc_next.
          assert (Hnj : w_next (getw s a) <> j).
          { intro En. destruct (Ib a i ltac:(lia) ltac:(rewrite En; exact Hij) Hi) as [Hf' _]. congruence. }
          rewrite rc_frontier by exact Hnj. tauto.
      - exact Idone.
      - intros a Ha Hk Hac He Ho. cbn [p_c s' setw] in Hk. rewrite rc_active in Hac. rewrite rc_eof in He. rewrite rc_onchain in Ho.
        rewrite rc_next, rc_emit_end. destruct (Ihand a Ha Hk Hac He Ho) as [H1 H2]. split; [exact H1|].
        assert (Hnj : w_next (getw s a) <> j).
        { intro En. assert (a <> i) by congruence.
          destruct (Nat.lt_trichotomy a i) as [Hlt|[|Hgt]]; [|congruence|].
          - destruct (Ib a i Hlt ltac:(rewrite En; exact Hij) Hi) as [Hf' _]. congruence.
          - apply (Ho i Hgt). fold w. fold j. rewrite <- En. apply Ine. exact Ha. }
        rewrite rc_frontier by exact Hnj. exact H2.
    Qed.
  End Recv.

  (* ---------- a worker skips its stopped, drained neighbour ---------- *)

  Section SkipS.
    Variables (s : pstate) (i : nat).
    Hypothesis I : PInv s.
    Hypothesis Hi : i < nw.
    Hypothesis Hact : w_active (getw s i) = true.
    Let w := getw s i.
    Let j := w_next w.
    Hypothesis Hj : j < nw.
    Let b := getw s j.
    Hypothesis Hbin : w_active b = false.
    Hypothesis Hbempty : length (w_emit b) <= w_cons b.
    Let w' := {| w_pos := w_pos w; w_emit := w_emit w; w_cons := w_cons w; w_sync := w_sync w;
                 w_next := w_next b; w_active := true; w_eof := false; w_pc := Top |}.
    Let s' := setw s i w'.

    Lemma sk_getw x : getw s' x = if i =? x then w' else getw s x.
    Proof. unfold s'. apply getw_setw. rewrite (p_n _ _ _ _ _ _ s I). exact Hi. Qed.
    Lemma sk_self : getw s' i = w'. Proof. rewrite sk_getw, Nat.eqb_refl. reflexivity. Qed.
    Lemma sk_other x : x <> i -> getw s' x = getw s x.
    Proof. intros Hne. rewrite sk_getw. destruct (Nat.eqb_spec i x); [congruence|reflexivity]. Qed.
    Lemma sk_field {A} (f : wstate -> A) x : f w' = f w -> f (getw s' x) = f (getw s x).
    Proof. intros E. rewrite sk_getw. destruct (Nat.eqb_spec i x); [subst; exact E|reflexivity]. Qed.
    Lemma sk_emit x : w_emit (getw s' x) = w_emit (getw s x). Proof. apply sk_field; reflexivity. Qed.
    Lemma sk_cons x : w_cons (getw s' x) = w_cons (getw s x). Proof. apply sk_field; reflexivity. Qed.
    Lemma sk_sync x : w_sync (getw s' x) = w_sync (getw s x). Proof. apply sk_field; reflexivity. Qed.
    Lemma sk_pos x : w_pos (getw s' x) = w_pos (getw s x). Proof. apply sk_field; reflexivity. Qed.
    Lemma sk_active x : w_active (getw s' x) = w_active (getw s x).
    Proof. apply sk_field. cbn. symmetry. exact Hact. Qed.
    Lemma sk_eof x : w_eof (getw s' x) = w_eof (getw s x).
    Proof.
      apply sk_field. cbn. symmetry. destruct (w_eof w) eqn:E; [|reflexivity].
      destruct (p_eof _ _ _ _ _ _ s I i Hi E) as [Hf _]. unfold w in *. congruence.
    Qed.
    Lemma sk_next x : w_next (getw s' x) = if i =? x then w_next b else w_next (getw s x).
    Proof. rewrite sk_getw. destruct (i =? x); reflexivity. Qed.
    Lemma sk_next_ge x : w_next (getw s x) <= w_next (getw s' x).
    Proof.
      rewrite sk_next. destruct (Nat.eqb_spec i x) as [<-|]; [|lia].
      pose proof (p_next _ _ _ _ _ _ s I j Hj). fold w. fold j. fold b in H0. lia.
    Qed.
    Lemma sk_emit_end x : emit_end s' x = emit_end s x.
    Proof. unfold PChunkerInv.emit_end. now rewrite sk_emit. Qed.
    Lemma sk_frontier x : frontier s' x = frontier s x.
    Proof. unfold PChunkerInv.frontier. now rewrite sk_emit, sk_cons. Qed.
    Lemma sk_onchain_mono x : onchain s' x -> onchain s x.
    Proof. unfold onchain. intros Ho y Hy Hlt. apply (Ho y Hy). pose proof (sk_next_ge y). lia. Qed.
    Lemma sk_onchain_low x : x <= i -> onchain s x -> onchain s' x.
    Proof. unfold onchain. intros Hx Ho y Hy. rewrite sk_next. destruct (Nat.eqb_spec i y); [lia|]. apply Ho. exact Hy. Qed.

    Lemma skip_inv : PInv s'.
    Proof.
      pose proof (active_ge_kcur min max d data nw span s i I Hi Hact) as Hki.
      assert (Hij : i < j) by (apply (p_next _ _ _ _ _ _ s I i Hi)).
      assert (Hjn : j < w_next b) by (apply (p_next _ _ _ _ _ _ s I j Hj)).
      assert (Hbe : w_cons b = length (w_emit b)) by (pose proof (p_cons _ _ _ _ _ _ s I j Hj); fold b in H0; lia).
      pose proof I as I'.
      destruct I as [In Ich Ica Ipo Ico Ine Iac Ieo Ipc Isy Ia Ib Ic Isl Ikb Iout Icol Idone Ihand].
      constructor.
      - unfold s'. rewrite nworkers_setw. exact In.
      - intros x Hx. rewrite sk_emit. auto.
      - intros x Hx. rewrite sk_emit. auto.
      - intros x Hx. rewrite sk_pos, sk_emit_end. auto.
      - intros x Hx. rewrite sk_cons, sk_emit. auto.
      - intros x Hx. rewrite sk_next. destruct (Nat.eqb_spec i x) as [<-|]; [lia|auto].
      - intros x Hx. destruct (Nat.eq_dec x i) as [->|Hne]; [rewrite sk_self; reflexivity|].
        rewrite (sk_other x Hne). auto.
      - intros x Hx He. rewrite sk_eof in He. rewrite sk_active, sk_emit_end. auto.
      - intros x Hx. destruct (Nat.eq_dec x i) as [->|Hne].
        + unfold PChunkerInv.pcl. rewrite sk_self. exact Logic.I.
        + specialize (Ipc x Hx). unfold PChunkerInv.pcl in *. rewrite (sk_other x Hne), sk_emit_end. exact Ipc.
      - intros x Hx Hk. unfold sync_ok. rewrite sk_sync, sk_cons, sk_emit. apply Isy; auto.
      - intros a a' Hlt Ha' Hac. unfold act in Hac. rewrite sk_active in Hac. rewrite sk_next.
        destruct (Nat.eqb_spec i a) as [<-|Hne]; [|apply Ia; auto].
        pose proof (Ia i a' Hlt Ha' Hac) as H1. fold w in H1. fold j in H1.
        assert (j <> a') by (intro; subst a'; unfold b in Hbin; congruence).
        apply (Ia j a'); auto. lia.
      - intros a x Hax Hxn Hx. rewrite sk_next in Hxn. rewrite sk_active, sk_cons, sk_emit.
        destruct (Nat.eqb_spec i a) as [<-|Hne]; [|apply (Ib a); auto].
        destruct (Nat.lt_trichotomy x j) as [Hlt|[->|Hgt]].
        + apply (Ib i); auto.
        + fold b. auto.
        + apply (Ib j); auto.
      - intros a x Hax Hxn Hx. rewrite !sk_next in *.
        destruct (Nat.eqb_spec i a) as [<-|Hne].
        + destruct (Nat.eqb_spec i x); [lia|].
          destruct (Nat.lt_trichotomy x j) as [Hlt|[->|Hgt]].
          * pose proof (Ic i x Hax Hlt Hx). fold w j in H0. lia.
          * fold b. lia.
          * apply (Ic j x); auto.
        + destruct (Nat.eqb_spec i x) as [<-|Hnx]; [|apply Ic; auto].
          (* i lies in a's gap: impossible, i is active *)
          destruct (Ib a i Hax Hxn Hi) as [Hf _]. congruence.
      - intros a Ha. destruct (Nat.eq_dec a i) as [->|Hne].
        + unfold PChunkerInv.sl. rewrite sk_self. exact Logic.I.
        + specialize (Isl a Ha). unfold PChunkerInv.sl in *. rewrite (sk_other a Hne), sk_cons, sk_emit, sk_sync. exact Isl.
      - intros x Hxk Hx. cbn in Hxk. rewrite sk_active, sk_cons, sk_emit. apply Ikb; auto.
      - exact Iout.
      - intros Hd. destruct (Icol Hd) as [Hk [HA|HB]]; (split; [exact Hk|]).
        + left. unfold PChunkerInv.stateA in *. cbn [p_c s' setw] in *. destruct HA as [Ho Hf].
          split; [apply sk_onchain_low; auto|]. rewrite sk_frontier. exact Hf.
        + right. unfold PChunkerInv.stateB in *. cbn [p_c s' setw] in *.
          destruct HB as (a & Ha & Ho & Hn & Hn' & Hf). exists a.
          assert (a <> i) by lia. rewrite (sk_other a H0), sk_frontier.
          repeat split; auto. apply sk_onchain_low; [lia|exact Ho].
      - exact Idone.
      - intros a Ha Hk Hac He Ho. rewrite sk_active in Hac. rewrite sk_eof in He. apply sk_onchain_mono in Ho.
        assert (a <> i) by (intro; subst a; congruence).
        rewrite (sk_other a H0), sk_frontier, sk_emit_end. apply Ihand; auto.
    Qed.
  End SkipS.

  (* ---------- the collector ---------- *)

  Section Collector.
    Variable s : pstate.
    Hypothesis I : PInv s.
    Hypothesis Hnd : k_done (p_c s) = false.
    Let k := k_cur (p_c s).
    Let out := k_out (p_c s).
    Let w := getw s k.

    Lemma co_k : k < nw. Proof. apply (p_col _ _ _ _ _ _ s I Hnd). Qed.

    Lemma co_not_B : nth_error (w_emit w) (w_cons w) <> None -> stateA s.
    Proof.
      intros Hh. destruct (p_col _ _ _ _ _ _ s I Hnd) as [_ [HA|HB]]; [exact HA|].
      exfalso. destruct HB as (a & Ha & _ & Hn & _ & _).
      destruct (p_n2b _ _ _ _ _ _ s I a k Ha Hn co_k) as [_ E]. fold w in E.
      apply Hh. apply nth_error_None. lia.
    Qed.

    (* C1: receive a chunk from the current worker's bucket *)
    Section Take.
      Variable v : chunk.
      Hypothesis Hhead : nth_error (w_emit w) (w_cons w) = Some v.
      Let s' := {| p_w := set_nth (p_w s) k (take_w w);
                   p_c := {| k_cur := k; k_out := out ++ [v]; k_done := false |} |}.

      Lemma tk_getw x : getw s' x = if k =? x then take_w w else getw s x.
      Proof.
        unfold getw, s'. cbn. rewrite nth_set_nth.
        pose proof co_k. rewrite <- (p_n _ _ _ _ _ _ s I) in H0. unfold nworkers in H0.
        replace (k <? length (p_w s)) with true by (symmetry; apply Nat.ltb_lt; exact H0). now rewrite andb_true_r.
      Qed.
      Lemma tk_other x : x <> k -> getw s' x = getw s x.
      Proof. intros Hne. rewrite tk_getw. destruct (Nat.eqb_spec k x); [congruence|reflexivity]. Qed.
      Lemma tk_field {A} (f : wstate -> A) x : f (take_w w) = f w -> f (getw s' x) = f (getw s x).
      Proof. intros E. rewrite tk_getw. destruct (Nat.eqb_spec k x); [subst; exact E|reflexivity]. Qed.
      Lemma tk_emit x : w_emit (getw s' x) = w_emit (getw s x). Proof. apply tk_field; reflexivity. Qed.
      Lemma tk_next x : w_next (getw s' x) = w_next (getw s x). Proof. apply tk_field; reflexivity. Qed.
      Lemma tk_active x : w_active (getw s' x) = w_active (getw s x). Proof. apply tk_field; reflexivity. Qed.
      Lemma tk_eof x : w_eof (getw s' x) = w_eof (getw s x). Proof. apply tk_field; reflexivity. Qed.
      Lemma tk_pos x : w_pos (getw s' x) = w_pos (getw s x). Proof. apply tk_field; reflexivity. Qed.
      Lemma tk_pc x : w_pc (getw s' x) = w_pc (getw s x). Proof. apply tk_field; reflexivity. Qed.
      Lemma tk_sync x : w_sync (getw s' x) = w_sync (getw s x). Proof. apply tk_field; reflexivity. Qed.
      Lemma tk_cons x : x <> k -> w_cons (getw s' x) = w_cons (getw s x).
      Proof. intros Hne. now rewrite (tk_other x Hne). Qed.
      Lemma tk_emit_end x : emit_end s' x = emit_end s x.
      Proof. unfold PChunkerInv.emit_end. now rewrite tk_emit. Qed.
      Lemma tk_frontier x : x <> k -> frontier s' x = frontier s x.
      Proof. intros Hne. unfold PChunkerInv.frontier. now rewrite tk_emit, tk_cons. Qed.
      Lemma tk_onchain x : onchain s' x <-> onchain s x.
      Proof. unfold onchain. split; intros Ho y Hy; specialize (Ho y Hy); now rewrite tk_next in *. Qed.

      Lemma take_inv : PInv s'.
      Proof.
        pose proof co_k as Hk.
        assert (HA : stateA s) by (apply co_not_B; rewrite Hhead; discriminate).
        assert (Hcl : w_cons w < length (w_emit w)) by (apply nth_error_Some; rewrite Hhead; discriminate).
        pose proof (frontier_cons min max d data nw span s k I Hk v Hhead) as Hvs.
        pose proof I as I'.
        destruct I as [In Ich Ica Ipo Ico Ine Iac Ieo Ipc Isy Ia Ib Ic Isl Ikb Iout Icol Idone Ihand].
        destruct HA as [HAo HAf]. fold k in HAo, HAf. fold out in HAf.
        constructor.
        - unfold nworkers, s'. cbn. rewrite set_nth_length. exact In.
        - intros x Hx. rewrite tk_emit. auto.
        - intros x Hx. rewrite tk_emit. auto.
        - intros x Hx. rewrite tk_pos, tk_emit_end. auto.
        - intros x Hx. rewrite tk_emit. destruct (Nat.eq_dec x k) as [->|Hne].
          + rewrite tk_getw, Nat.eqb_refl. cbn. unfold w in *. lia.
          + rewrite tk_cons by exact Hne. auto.
        - intros x Hx. rewrite tk_next. auto.
        - intros x Hx. rewrite tk_active, tk_pc. auto.
        - intros x Hx He. rewrite tk_eof in He. rewrite tk_active, tk_emit_end. auto.
        - intros x Hx. specialize (Ipc x Hx). unfold PChunkerInv.pcl in *. rewrite tk_pc, tk_next, tk_emit_end. exact Ipc.
        - intros x Hx Hkx. cbn [p_c s' k_cur] in Hkx. unfold sync_ok. rewrite tk_sync, tk_emit, tk_cons by lia. apply Isy; auto.
        - intros a a' Hlt Ha' Hac. unfold act in Hac. rewrite tk_active in Hac. rewrite tk_next. apply Ia; auto.
        - intros a x Hax Hxn Hx. rewrite tk_next in Hxn. rewrite tk_active, tk_emit.
          destruct (Nat.eq_dec x k) as [->|Hne].
          + exfalso. destruct (Ib a k Hax Hxn Hx) as [_ E]. fold w in E. lia.
          + rewrite tk_cons by exact Hne. apply (Ib a); auto.
        - intros a x Hax Hxn Hx. rewrite !tk_next in *. apply Ic; auto.
        - intros a Ha. specialize (Isl a Ha). unfold PChunkerInv.sl in *. rewrite tk_pc, tk_next, tk_emit, tk_sync.
          destruct (Nat.eq_dec (w_next (getw s a)) k) as [En|Hnk].
          + (* a's next is the collector's worker: a < k is stopped *)
            assert (Hak : a < k) by (rewrite <- En; apply Ine; exact Ha).
            destruct (Ikb a Hak Ha) as [Hf _]. rewrite (Iac a Ha) in Hf.
            destruct (w_pc (getw s a)); cbn in Hf; try discriminate. exact Logic.I.
          + rewrite tk_cons by exact Hnk. exact Isl.
        - intros x Hxk Hx. cbn [p_c s' k_cur] in Hxk. rewrite tk_active, tk_emit, tk_cons by lia. apply Ikb; auto.
        - cbn [p_c s' k_out]. destruct Iout as [Oc Of]. split.
          + apply chain_app. split; [exact Oc|]. cbn. split; [|exact Logic.I]. rewrite Hvs. fold k. rewrite HAf. lia.
          + apply Forall_app. split; [exact Of|]. constructor; [|constructor].
            pose proof (Ica k Hk) as Hf. rewrite Forall_forall in Hf. apply Hf. eapply nth_error_In. exact Hhead.
        - intros _. cbn [p_c s' k_cur]. split; [exact Hk|]. left. unfold PChunkerInv.stateA. cbn [p_c s' k_cur k_out].
          split; [apply tk_onchain; exact HAo|].
          unfold PChunkerInv.frontier. rewrite tk_emit. rewrite tk_getw, Nat.eqb_refl. cbn [w_cons take_w].
          fold w. rewrite (covered_firstn_S _ _ _ Hhead), covered_app.
          unfold PChunkerInv.frontier in HAf. fold w in HAf. unfold covered at 3. cbn. lia.
        - cbn. discriminate.
        - intros a Ha Hka Hac He Ho. cbn [p_c s' k_cur] in Hka. rewrite tk_active in Hac. rewrite tk_eof in He. rewrite tk_onchain in Ho.
          rewrite tk_next, tk_emit_end. destruct (Ihand a Ha Hka Hac He Ho) as [H1 H2]. split; [exact H1|].
          rewrite tk_frontier; [exact H2|]. pose proof (Ine a Ha). lia.
      Qed.
    End Take.

    (* C2: the index covers the file: done *)
    Lemma done_inv :
      length data <= out_length out ->
      PInv {| p_w := p_w s; p_c := {| k_cur := k; k_out := out; k_done := true |} |}.
    Proof.
      intros Hcov.
      destruct I as [In Ich Ica Ipo Ico Ine Iac Ieo Ipc Isy Ia Ib Ic Isl Ikb Iout Icol Idone Ihand].
      constructor; auto; cbn [p_c k_done k_cur k_out]; try discriminate.
      intros _. destruct Iout as [Oc _]. fold out in Oc. rewrite <- (out_length_chain out Oc). exact Hcov.
    Qed.

    (* C3: the current worker has stopped and its bucket is drained: move on *)
    Lemma move_inv :
      w_active w = false -> nth_error (w_emit w) (w_cons w) = None -> out_length out < length data ->
      PInv {| p_w := p_w s; p_c := {| k_cur := S k; k_out := out; k_done := false |} |}.
    Proof.
      intros Hin Hhead Hcov.
      pose proof co_k as Hk.
      assert (Hce : w_cons w = length (w_emit w)).
      { apply nth_error_None in Hhead. pose proof (p_cons _ _ _ _ _ _ s I k Hk). fold w in H0. lia. }
      pose proof I as I'.
      destruct I as [In Ich Ica Ipo Ico Ine Iac Ieo Ipc Isy Ia Ib Ic Isl Ikb Iout Icol Idone Ihand].
      destruct Iout as [Oc Of]. fold out in Oc, Of.
      assert (Hol : out_length out = covered out) by (apply out_length_chain; exact Oc).
      set (s' := {| p_w := p_w s; p_c := {| k_cur := S k; k_out := out; k_done := false |} |}).
      assert (Hg : forall x, getw s' x = getw s x) by reflexivity.
      assert (Hcol' : S k < nw /\ (stateA s' \/ stateB s')).
      { destruct (Icol Hnd) as [_ [HA|HB]].
        - (* on chain at k *)
          destruct HA as [HAo HAf]. fold k in HAo, HAf. fold out in HAf.
          assert (Hfe : frontier s k = emit_end s k).
          { unfold PChunkerInv.frontier, PChunkerInv.emit_end. fold w. rewrite Hce, firstn_all. reflexivity. }
          assert (Hne : w_eof w = false).
          { destruct (w_eof w) eqn:E; [|reflexivity]. exfalso.
            destruct (Ieo k Hk E) as [_ E2]. lia. }
          destruct (Ihand k Hk (Nat.le_refl _) Hin Hne HAo) as [Hn1 Hn2]. fold w in Hn1, Hn2.
          pose proof (Ine k Hk) as Hkn. fold w in Hkn.
          destruct (Nat.eq_dec (w_next w) (S k)) as [En|Hnn].
          + split; [lia|]. left. unfold PChunkerInv.stateA. cbn [p_c s' k_cur k_out]. split.
            * intros x Hx Hlt. rewrite Hg in Hlt. destruct (Nat.eq_dec x k) as [->|Hxk]; [fold w in Hlt; lia|].
              apply (HAo x ltac:(lia)). lia.
            * unfold PChunkerInv.frontier in *. rewrite Hg. rewrite <- En. rewrite Hn2. lia.
          + split; [lia|]. right. unfold PChunkerInv.stateB. cbn [p_c s' k_cur k_out]. exists k.
            rewrite Hg. fold w. repeat split; try lia.
            * intros x Hx Hlt. rewrite Hg in Hlt. apply (HAo x Hx Hlt).
            * unfold PChunkerInv.frontier in *. rewrite Hg. rewrite Hn2. lia.
        - (* in the gap of a *)
          destruct HB as (a & Ha & Ho & Hn & Hn' & Hf). fold k in Ha, Hn. fold out in Hf.
          destruct (Nat.eq_dec (w_next (getw s a)) (S k)) as [En|Hnn].
          + split; [lia|]. left. unfold PChunkerInv.stateA. cbn [p_c s' k_cur k_out]. split.
            * intros x Hx Hlt. rewrite Hg in Hlt. rewrite <- En in *.
              destruct (Nat.lt_trichotomy x a) as [Hxa|[->|Hxa]].
              -- apply (Ho x Hxa). pose proof (Ine a ltac:(lia)). lia.
              -- lia.
              -- pose proof (Ic a x Hxa Hx ltac:(lia)). lia.
            * unfold PChunkerInv.frontier in *. rewrite Hg, <- En. exact Hf.
          + split; [lia|]. right. unfold PChunkerInv.stateB. cbn [p_c s' k_cur k_out]. exists a.
            rewrite Hg. repeat split; try lia.
            * intros x Hx Hlt. rewrite Hg in Hlt. apply (Ho x Hx Hlt).
            * unfold PChunkerInv.frontier in *. rewrite Hg. exact Hf. }
      constructor; auto.
      - intros x Hx Hkx. unfold s' in Hkx. cbn in Hkx. apply Isy; [exact Hx|]. fold k. lia.
      - intros x Hxk Hx. unfold s' in Hxk. cbn in Hxk. rewrite Hg. destruct (Nat.eq_dec x k) as [->|Hne].
        + fold w. split; [exact Hin|exact Hce].
        + apply Ikb; [fold k; lia|exact Hx].
      - cbn. discriminate.
      - intros a Ha Hka Hac He Ho. unfold s' in Hka. cbn in Hka. apply Ihand; auto. fold k. lia.
    Qed.
  End Collector.
End Steps.
