(* C03 -- proofs about Model/ChunkVerify.v *)
From Coq Require Import List NArith Bool Arith Lia.
From DS Require Import Base.Bytes Base.Hash Model.ChunkVerify Model.VerifyIndex.
Import ListNotations.

(* ---------- induction principle for the nested type [stack] ---------- *)
Section StackInd.
  Variable P : stack -> Prop.
  Hypothesis hW : forall l, P (W l).
  Hypothesis hCache : forall s l, P s -> P (Cache s l).
  Hypothesis hRouter : forall ss, Forall P ss -> P (Router ss).
  Hypothesis hFailover : forall f s0 ss, P s0 -> Forall P ss -> P (Failover f s0 ss).
  Hypothesis hDedup : forall s, P s -> P (Dedup s).
  Hypothesis hSwap : forall s, P s -> P (Swap s).
  Hypothesis hHttp : forall h sc sk un re s, P s -> P (Http h sc sk un re s).
  Hypothesis hProto : forall h s, P s -> P (Proto h s).

  Fixpoint stack_ind' (s : stack) : P s :=
    let fix go (l : list stack) : Forall P l :=
      match l with
      | [] => Forall_nil P
      | x :: r => Forall_cons x (stack_ind' x) (go r)
      end in
    match s with
    | W l => hW l
    | Cache s' l => hCache s' l (stack_ind' s')
    | Router ss => hRouter ss (go ss)
    | Failover f s0 ss => hFailover f s0 ss (stack_ind' s0) (go ss)
    | Dedup s' => hDedup s' (stack_ind' s')
    | Swap s' => hSwap s' (stack_ind' s')
    | Http h sc sk un re s' => hHttp h sc sk un re s' (stack_ind' s')
    | Proto h s' => hProto h s' (stack_ind' s')
    end.
End StackInd.

Section Proofs.
  Variable H : bytes -> id.
  Variable zcomp : bytes -> bytes.
  Variable zdecomp : bytes -> option bytes.

  Notation chunk_data := (chunk_data zdecomp).
  Notation chunk_id := (chunk_id H zdecomp).
  Notation data_of := (data_of zdecomp).
  Notation from_storage := (from_storage zdecomp).
  Notation to_storage := (to_storage zcomp).
  Notation new_chunk_from_storage := (new_chunk_from_storage H zdecomp).
  Notation new_chunk_with_id := (new_chunk_with_id H zdecomp).
  Notation leaf_get := (leaf_get H zdecomp).
  Notation leaf_put := (leaf_put H zcomp zdecomp).
  Notation wget := (wget H zdecomp).
  Notation wput := (wput H zcomp zdecomp).
  Notation cache_get := (cache_get H zcomp zdecomp).
  Notation http_serve := (http_serve zcomp zdecomp).
  Notation http_loop := (http_loop H zcomp zdecomp).
  Notation proto_get := (proto_get H zcomp zdecomp).
  Notation get := (get H zcomp zdecomp).
  Notation get_many := (get_many H zcomp zdecomp).

  (* ---------- chunk.go ---------- *)

  (* What it means for a chunk to be a verified answer to a request for [i].
     The second disjunct is the corner the code really has: Chunk.ID returns the
     all-zero ChunkID{} when Data fails, so an undecodable or empty object passes
     the [sum != id] test when the all-zero id was requested; that chunk never
     yields data. *)
  Definition verified (i : id) (c : chunk) : Prop :=
    (exists b, data_of c = Some b /\ H b = i /\ c_idcalc c = true /\ c_id c = i)
    \/ (i = zero_id /\ data_of c = None /\ c_idcalc c = false).

  Definition rgood (i : id) (r : res chunk) : Prop :=
    match r with Ok c => verified i c | Err _ => True end.

  (* Memoisation in Chunk.Data is invisible. *)
  Lemma data_memo c : data_of (snd (chunk_data c)) = data_of c.
  Proof.
    unfold ChunkVerify.data_of, ChunkVerify.chunk_data.
    destruct (nonempty (c_data c)) eqn:E1; cbn [snd fst]; [now rewrite E1|].
    destruct (nonempty (c_storage c)) eqn:E2; cbn [snd fst]; [|now rewrite E1, E2].
    destruct (from_storage (c_conv c) (c_storage c)) as [d|] eqn:E3; cbn [snd fst].
    - cbn [c_data set_data c_storage c_conv]. destruct (nonempty d) eqn:E4; cbn [fst]; [reflexivity|].
      now rewrite E2, E3.
    - now rewrite E1, E2, E3.
  Qed.

  Lemma data_of_storage_only raw cv i flag :
    data_of (mkChunk [] raw cv i flag) = if nonempty raw then from_storage cv raw else None.
  Proof.
    unfold ChunkVerify.data_of, ChunkVerify.chunk_data. cbn [c_data c_storage c_conv nonempty].
    destruct (nonempty raw); [|reflexivity].
    now destruct (from_storage cv raw).
  Qed.

  Lemma from_storage_verified_strong i raw cv c :
    new_chunk_from_storage i raw cv false = Ok c -> verified i c.
  Proof.
    unfold ChunkVerify.new_chunk_from_storage, ChunkVerify.chunk_id, ChunkVerify.chunk_data.
    cbn [c_idcalc c_data c_storage c_conv nonempty].
    destruct (nonempty raw) eqn:Er.
    - destruct (from_storage cv raw) as [d|] eqn:Ed.
      + destruct (N.eqb (H d) i) eqn:Eh; [|discriminate]. apply N.eqb_eq in Eh.
        intros E. injection E as <-. left. exists d.
        unfold ChunkVerify.data_of, ChunkVerify.chunk_data, set_id, set_data.
        cbn [c_data c_storage c_conv c_id c_idcalc].
        destruct (nonempty d); cbn [fst]; [auto|]. rewrite Er, Ed. cbn [fst]. auto.
      + destruct (N.eqb zero_id i) eqn:Eh; [|discriminate]. apply N.eqb_eq in Eh.
        intros E. injection E as <-. right. rewrite data_of_storage_only, Er, Ed. auto.
    - destruct (N.eqb zero_id i) eqn:Eh; [|discriminate]. apply N.eqb_eq in Eh.
      intros E. injection E as <-. right. rewrite data_of_storage_only, Er. auto.
  Qed.

  Lemma with_id_verified_strong i b c :
    new_chunk_with_id i b false = Ok c -> verified i c.
  Proof.
    unfold ChunkVerify.new_chunk_with_id, ChunkVerify.chunk_id, ChunkVerify.chunk_data.
    cbn [c_idcalc c_data c_storage c_conv nonempty].
    destruct (nonempty b) eqn:Eb.
    - destruct (N.eqb (H b) i) eqn:Eh; [|discriminate]. apply N.eqb_eq in Eh.
      intros E. injection E as <-. left. exists b.
      unfold ChunkVerify.data_of, ChunkVerify.chunk_data, set_id. cbn [c_data c_storage c_conv c_id c_idcalc].
      rewrite Eb. cbn [fst]. auto.
    - destruct (N.eqb zero_id i) eqn:Eh; [|discriminate]. apply N.eqb_eq in Eh.
      intros E. injection E as <-. right.
      unfold ChunkVerify.data_of, ChunkVerify.chunk_data. cbn [c_data c_storage c_conv c_id c_idcalc nonempty].
      rewrite Eb. cbn [fst]. auto.
  Qed.

  Lemma verified_data i c : verified i c ->
    (exists b, data_of c = Some b /\ H b = i) \/ (i = zero_id /\ data_of c = None).
  Proof. intros [(b & ? & ? & _)|(? & ? & _)]; [left; eauto|right; auto]. Qed.

  (* The corner is real: any undecodable or empty object is accepted under the all-zero id. *)
  Lemma zero_id_accepts_undecodable raw cv :
    (if nonempty raw then from_storage cv raw else None) = None ->
    exists c, new_chunk_from_storage zero_id raw cv false = Ok c /\ data_of c = None.
  Proof.
    intros E. exists (mkChunk [] raw cv zero_id false). split.
    - unfold ChunkVerify.new_chunk_from_storage, ChunkVerify.chunk_id, ChunkVerify.chunk_data.
      cbn [c_idcalc c_data c_storage c_conv nonempty].
      destruct (nonempty raw).
      + now rewrite E.
      + reflexivity.
    - now rewrite data_of_storage_only.
  Qed.

  (* With verification disabled the constructor hands on whatever it was given. *)
  Lemma from_storage_skip i raw cv :
    new_chunk_from_storage i raw cv true = Ok (mkChunk [] raw cv i true).
  Proof. reflexivity. Qed.

  Definition unverified_shape (i : id) (c : chunk) : Prop :=
    exists raw cv, c = mkChunk [] raw cv i true.

  Definition rany (i : id) (r : res chunk) : Prop :=
    match r with Ok c => verified i c \/ unverified_shape i c | Err _ => True end.

  Lemma ncfs_good i raw cv : rgood i (new_chunk_from_storage i raw cv false).
  Proof.
    destruct (new_chunk_from_storage i raw cv false) eqn:E; cbn; [|exact I].
    eapply from_storage_verified_strong; eauto.
  Qed.

  Lemma ncfs_any i raw cv sk : rany i (new_chunk_from_storage i raw cv sk).
  Proof.
    destruct sk.
    - rewrite from_storage_skip. cbn. right. now exists raw, cv.
    - pose proof (ncfs_good i raw cv) as G. destruct (new_chunk_from_storage i raw cv false); cbn in *; auto.
  Qed.

  Lemma rgood_rany i r : rgood i r -> rany i r.
  Proof. destruct r; cbn; auto. Qed.

  (* ---------- leaves and writable stores ---------- *)

  Lemma leaf_get_any k o i w : rany i (fst (leaf_get k o i w)).
  Proof.
    unfold ChunkVerify.leaf_get. destruct (leaf_fetch k o i w) as [f w1].
    destruct f; cbn [fst]; try exact I; try apply ncfs_any;
      destruct (lo_kind o); cbn [fst]; try exact I; apply ncfs_any.
  Qed.

  Lemma leaf_get_good k o i w : lo_skip o = false -> rgood i (fst (leaf_get k o i w)).
  Proof.
    intros Hs. unfold ChunkVerify.leaf_get. destruct (leaf_fetch k o i w) as [f w1]. rewrite Hs.
    destruct f; cbn [fst]; try exact I; try apply ncfs_good;
      destruct (lo_kind o); cbn [fst]; try exact I; apply ncfs_good.
  Qed.

  Lemma wget_any l i w : rany i (fst (wget l i w)).
  Proof.
    revert w. induction l as [k o|l IH|l IH|l IH]; intros w; cbn [ChunkVerify.wget]; auto.
    - apply leaf_get_any.
    - specialize (IH w). destruct (wget l i w) as [[c|[]] w1]; cbn [fst] in *; auto.
  Qed.

  Lemma wget_good l i w : wverifying l = true -> rgood i (fst (wget l i w)).
  Proof.
    revert w. induction l as [k o|l IH|l IH|l IH]; intros w V; cbn [ChunkVerify.wget wverifying] in *; auto.
    - apply leaf_get_good. now destruct (lo_skip o).
    - specialize (IH w V). destruct (wget l i w) as [[c|[]] w1]; cbn [fst] in *; auto.
  Qed.

  (* ---------- wrappers, over arbitrary upstream getters ---------- *)

  Definition ggood (i : id) (g : getter) : Prop := forall w, rgood i (fst (g w)).
  Definition gany (i : id) (g : getter) : Prop := forall w, rany i (fst (g w)).

  Lemma cache_get_good up l i : ggood i up -> wverifying l = true -> ggood i (cache_get up l i).
  Proof.
    intros Gu V w. unfold ChunkVerify.cache_get.
    pose proof (wget_good l i w V) as G1. destruct (wget l i w) as [[c|[]] w1]; cbn [fst] in *; auto.
    pose proof (Gu w1) as G2. destruct (up w1) as [[c|e] w2]; cbn [fst] in *; auto.
    destruct (wput l c w2) as [[u|e] w3]; cbn [fst]; auto.
  Qed.

  Lemma cache_get_any up l i : gany i up -> gany i (cache_get up l i).
  Proof.
    intros Gu w. unfold ChunkVerify.cache_get.
    pose proof (wget_any l i w) as G1. destruct (wget l i w) as [[c|[]] w1]; cbn [fst] in *; auto.
    pose proof (Gu w1) as G2. destruct (up w1) as [[c|e] w2]; cbn [fst] in *; auto.
    destruct (wput l c w2) as [[u|e] w3]; cbn [fst]; auto.
  Qed.

  Lemma router_get_P (P : res chunk -> Prop) gs :
    (forall e, P (Err e)) -> Forall (fun g => forall w, P (fst (g w))) gs ->
    forall w, P (fst (router_get gs w)).
  Proof.
    intros PE F. induction F as [|g r Hg F IH]; intros w; cbn [router_get fst]; auto.
    specialize (Hg w). destruct (g w) as [[c|[]] w1]; cbn [fst] in *; auto.
  Qed.

  Lemma failover_loop_P (P : res chunk -> Prop) n f g0 gs e :
    (forall e, P (Err e)) -> Forall (fun g => forall w, P (fst (g w))) (g0 :: gs) ->
    forall w, P (fst (failover_loop n f g0 gs e w)).
  Proof.
    intros PE F. revert e. induction n as [|n IH]; intros e w; cbn [failover_loop fst]; auto.
    match goal with |- context [nth ?a ?l ?d w] =>
      assert (Hn : forall w', P (fst (nth a l d w')));
      [ destruct (nth_in_or_default a l d) as [Hin|Hd];
        [ rewrite Forall_forall in F; apply F, Hin | rewrite Hd; inversion F; auto ]
      | specialize (Hn w); destruct (nth a l d w) as [[c|[]] w1]; cbn [fst] in *; auto ]
    end.
  Qed.

  Lemma rgood_err i e : rgood i (Err e). Proof. exact I. Qed.
  Lemma rany_err i e : rany i (Err e). Proof. exact I. Qed.

  Lemma http_loop_any n h sc sk un inner i w : rany i (fst (http_loop n h sc sk un inner i w)).
  Proof.
    revert w. induction n as [|n IH]; intros w; cbn [ChunkVerify.http_loop];
      destruct (http_serve sc un inner w) as [r w1]; destruct (net h i w1) as [fl w2];
      destruct fl, r; cbn [fst]; try exact I; try apply ncfs_any; try apply IH.
  Qed.

  Lemma http_loop_good n h sc un inner i w : rgood i (fst (http_loop n h sc false un inner i w)).
  Proof.
    revert w. induction n as [|n IH]; intros w; cbn [ChunkVerify.http_loop];
      destruct (http_serve sc un inner w) as [r w1]; destruct (net h i w1) as [fl w2];
      destruct fl, r; cbn [fst]; try exact I; try apply ncfs_good; try apply IH.
  Qed.

  Lemma proto_get_good h inner i w : rgood i (fst (proto_get h inner i w)).
  Proof.
    unfold ChunkVerify.proto_get. destruct (inner w) as [[c|[]] w1]; cbn [fst]; try exact I.
    - destruct (data_of c); cbn [fst]; try exact I.
      destruct (net h i w1) as [[] w2]; cbn [fst]; try exact I; apply ncfs_good.
    - destruct (net h i w1) as [[] w2]; cbn [fst]; try exact I; apply ncfs_good.
  Qed.

  (* ---------- the stack ---------- *)

  Lemma get_any s i : gany i (get s i).
  Proof.
    induction s as [l|s l IH|ss IH|f s0 ss IH0 IH|s IH|s IH|h sc sk un re s IH|h s IH] using stack_ind';
      intros w; cbn [ChunkVerify.get].
    - apply wget_any.
    - now apply cache_get_any.
    - apply router_get_P; [apply rany_err|]. rewrite Forall_map. exact IH.
    - unfold failover_get. apply failover_loop_P; [apply rany_err|].
      constructor; [exact IH0|]. rewrite Forall_map. exact IH.
    - apply IH.
    - apply IH.
    - apply http_loop_any.
    - apply rgood_rany, proto_get_good.
  Qed.

  Lemma get_good s i : verifying s = true -> ggood i (get s i).
  Proof.
    induction s as [l|s l IH|ss IH|f s0 ss IH0 IH|s IH|s IH|h sc sk un re s IH|h s IH] using stack_ind';
      intros V w; cbn [ChunkVerify.get verifying] in *.
    - now apply wget_good.
    - apply andb_prop in V as [V1 V2]. apply cache_get_good; auto.
    - apply router_get_P; [apply rgood_err|]. rewrite Forall_map.
      rewrite forallb_forall in V. rewrite Forall_forall in *. intros x Hx. apply IH; auto.
    - apply andb_prop in V as [V1 V2]. unfold failover_get. apply failover_loop_P; [apply rgood_err|].
      constructor; [apply IH0, V1|]. rewrite Forall_map.
      rewrite forallb_forall in V2. rewrite Forall_forall in *. intros x Hx. apply IH; auto.
    - apply IH, V.
    - apply IH, V.
    - destruct sk; [discriminate|]. apply http_loop_good.
    - apply proto_get_good.
  Qed.

  Theorem stack_sound_strong s i w c w' :
    verifying s = true -> get s i w = (Ok c, w') -> verified i c.
  Proof. intros V E. pose proof (get_good s i V w) as G. now rewrite E in G. Qed.

  Theorem stack_sound_any s i w c w' :
    get s i w = (Ok c, w') -> verified i c \/ (verifying s = false /\ unverified_shape i c).
  Proof.
    intros E. destruct (verifying s) eqn:V.
    - left. eapply stack_sound_strong; eauto.
    - pose proof (get_any s i w) as G. rewrite E in G. cbn in G. destruct G; auto.
  Qed.
End Proofs.
