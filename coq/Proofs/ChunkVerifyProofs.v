(* C03 -- proofs about Model/ChunkVerify.v *)
From Coq Require Import List NArith Bool Arith Lia.
From DS Require Import Base.Bytes Base.Hash Gen.Constants Model.ChunkVerify Model.VerifyIndex.
Import ListNotations.

(* ---------- induction principle for the nested type [stack] ---------- *)
Section StackInd.
  Variable P : stack -> Prop.
  Hypothesis hW : forall l, P (W l).
  Hypothesis hCache : forall s l, P s -> P (Cache s l).
  Hypothesis hRouter : forall ss, Forall P ss -> P (Router ss).
  Hypothesis hFailover : forall f s0 ss, P s0 -> Forall P ss -> P (Failover f s0 ss).
  Hypothesis hDedup : forall s, P s -> P (Dedup s).
  Hypothesis hSwap : forall s, P s -> P (Swap s).
  Hypothesis hHttp : forall h sc sk un re s, P s -> P (Http h sc sk un re s).
  Hypothesis hProto : forall h s, P s -> P (Proto h s).
  Hypothesis hForeign : forall k, P (Foreign k).

  Fixpoint stack_ind' (s : stack) : P s :=
    let fix go (l : list stack) : Forall P l :=
      match l with
      | [] => Forall_nil P
      | x :: r => Forall_cons x (stack_ind' x) (go r)
      end in
    match s with
    | W l => hW l
    | Cache s' l => hCache s' l (stack_ind' s')
    | Router ss => hRouter ss (go ss)
    | Failover f s0 ss => hFailover f s0 ss (stack_ind' s0) (go ss)
    | Dedup s' => hDedup s' (stack_ind' s')
    | Swap s' => hSwap s' (stack_ind' s')
    | Http h sc sk un re s' => hHttp h sc sk un re s' (stack_ind' s')
    | Proto h s' => hProto h s' (stack_ind' s')
    | Foreign k => hForeign k
    end.
End StackInd.

Section Proofs.
  Variable H : bytes -> id.
  Variable zcomp : bytes -> bytes.
  Variable zdecomp : bytes -> option bytes.

  Notation chunk_data := (chunk_data zdecomp).
  Notation chunk_id := (chunk_id H zdecomp).
  Notation data_of := (data_of zdecomp).
  Notation from_storage := (from_storage zdecomp).
  Notation to_storage := (to_storage zcomp).
  Notation new_chunk_from_storage := (new_chunk_from_storage H zdecomp).
  Notation new_chunk_with_id := (new_chunk_with_id H zdecomp).
  Notation leaf_get := (leaf_get H zdecomp).
  Notation leaf_put := (leaf_put H zcomp zdecomp).
  Notation wget := (wget H zdecomp).
  Notation wput := (wput H zcomp zdecomp).
  Notation cache_get := (cache_get H zcomp zdecomp).
  Notation http_serve := (http_serve zcomp zdecomp).
  Notation http_loop := (http_loop H zcomp zdecomp).
  Notation proto_get := (proto_get H zcomp zdecomp).
  Notation get := (get H zcomp zdecomp).
  Notation get_many := (get_many H zcomp zdecomp).

  (* ---------- chunk.go ---------- *)

  (* What it means for a chunk to be a verified answer to a request for [i]. *)
  Definition verified (i : id) (c : chunk) : Prop :=
    exists b, data_of c = Some b /\ H b = i /\ c_idcalc c = true /\ c_id c = i.

  Definition rgood (i : id) (r : res chunk) : Prop :=
    match r with Ok c => verified i c | Err _ => True end.

  (* Memoisation in Chunk.Data is invisible. *)
  Lemma data_memo c : data_of (snd (chunk_data c)) = data_of c.
  Proof.
    unfold ChunkVerify.data_of, ChunkVerify.chunk_data.
    destruct (nonempty (c_data c)) eqn:E1; cbn [snd fst]; [now rewrite E1|].
    destruct (nonempty (c_storage c)) eqn:E2; cbn [snd fst]; [|now rewrite E1, E2].
    destruct (from_storage (c_conv c) (c_storage c)) as [d|] eqn:E3; cbn [snd fst].
    - cbn [c_data set_data c_storage c_conv]. destruct (nonempty d) eqn:E4; cbn [fst]; [reflexivity|].
      now rewrite E2, E3.
    - now rewrite E1, E2, E3.
  Qed.

  Lemma data_of_storage_only raw cv i flag :
    data_of (mkChunk [] raw cv i flag) = if nonempty raw then from_storage cv raw else None.
  Proof.
    unfold ChunkVerify.data_of, ChunkVerify.chunk_data. cbn [c_data c_storage c_conv nonempty].
    destruct (nonempty raw); [|reflexivity].
    now destruct (from_storage cv raw).
  Qed.

  Lemma data_of_set_id c x : data_of (set_id c x) = data_of c.
  Proof.
    unfold ChunkVerify.data_of, ChunkVerify.chunk_data, set_id. cbn [c_data c_storage c_conv].
    destruct (nonempty (c_data c)); [reflexivity|].
    destruct (nonempty (c_storage c)); [|reflexivity].
    now destruct (from_storage (c_conv c) (c_storage c)).
  Qed.

  (* Chunk.ID after a successful Chunk.Data: the digest of those bytes, and the chunk still
     yields them. *)
  Lemma chunk_id_after_data c d c1 :
    c_idcalc c = false -> chunk_data c = (Some d, c1) ->
    exists c', chunk_id c1 = (H d, c') /\ data_of c' = Some d /\ c_idcalc c' = true /\ c_id c' = H d.
  Proof.
    intros Hf E. pose proof (data_memo c) as M. rewrite E in M. cbn [snd] in M.
    assert (Hd : data_of c1 = Some d).
    { rewrite M. unfold ChunkVerify.data_of. now rewrite E. }
    assert (Hf1 : c_idcalc c1 = false).
    { revert E. unfold ChunkVerify.chunk_data.
      destruct (nonempty (c_data c)); [intros E; now injection E as _ <-|].
      destruct (nonempty (c_storage c)); [|discriminate].
      destruct (from_storage (c_conv c) (c_storage c)); [|discriminate].
      intros E. injection E as _ <-. exact Hf. }
    unfold ChunkVerify.chunk_id. rewrite Hf1.
    unfold ChunkVerify.data_of in Hd.
    destruct (chunk_data c1) as [[d'|] c2] eqn:E2; cbn [fst] in Hd; [|discriminate].
    injection Hd as ->. eexists. split; [reflexivity|].
    pose proof (data_memo c1) as M2. rewrite E2 in M2. cbn [snd] in M2.
    assert (Hd2 : data_of c2 = Some d).
    { rewrite M2. unfold ChunkVerify.data_of. now rewrite E2. }
    repeat split. now rewrite data_of_set_id.
  Qed.

  Lemma from_storage_verified_strong i raw cv c :
    new_chunk_from_storage i raw cv false = Ok c -> verified i c.
  Proof.
    unfold ChunkVerify.new_chunk_from_storage.
    destruct (chunk_data (mkChunk [] raw cv i false)) as [[d|] c1] eqn:E; [|discriminate].
    destruct (chunk_id_after_data _ d c1 (eq_refl : c_idcalc (mkChunk _ _ _ _ false) = false) E) as (c' & Ei & Hd & Hc & Hi).
    rewrite Ei. destruct (N.eqb (H d) i) eqn:Eh; [|discriminate]. apply N.eqb_eq in Eh.
    intros X. injection X as <-. exists d. rewrite <- Eh. auto.
  Qed.

  Lemma with_id_verified_strong i b c :
    new_chunk_with_id i b false = Ok c -> verified i c.
  Proof.
    unfold ChunkVerify.new_chunk_with_id.
    destruct (chunk_data (mkChunk b [] [] i false)) as [[d|] c1] eqn:E; [|discriminate].
    destruct (chunk_id_after_data _ d c1 (eq_refl : c_idcalc (mkChunk _ _ _ _ false) = false) E) as (c' & Ei & Hd & Hc & Hi).
    rewrite Ei. destruct (N.eqb (H d) i) eqn:Eh; [|discriminate]. apply N.eqb_eq in Eh.
    intros X. injection X as <-. exists d. rewrite <- Eh. auto.
  Qed.

  Lemma verified_data i c : verified i c -> exists b, data_of c = Some b /\ H b = i.
  Proof. intros (b & ? & ? & _). eauto. Qed.

  Lemma from_storage_verified i raw cv c :
    new_chunk_from_storage i raw cv false = Ok c -> exists b, data_of c = Some b /\ H b = i.
  Proof. intros E. eapply verified_data, from_storage_verified_strong, E. Qed.

  (* Before commit 27b0229: Chunk.ID returns the all-zero ChunkID{} when Data fails, so every
     undecodable or empty object passed the [sum != id] test under the all-zero id. *)
  Lemma pre27b0229_zero_id_accepts_undecodable raw cv :
    (if nonempty raw then from_storage cv raw else None) = None ->
    exists c, new_chunk_from_storage_pre27b0229 H zdecomp zero_id raw cv false = Ok c /\ data_of c = None.
  Proof.
    intros E. exists (mkChunk [] raw cv zero_id false). split.
    - unfold new_chunk_from_storage_pre27b0229, ChunkVerify.chunk_id, ChunkVerify.chunk_data.
      cbn [c_idcalc c_data c_storage c_conv nonempty].
      destruct (nonempty raw).
      + now rewrite E.
      + reflexivity.
    - now rewrite data_of_storage_only.
  Qed.

  (* ... and the repaired constructor rejects exactly those objects, whatever the id. *)
  Lemma undecodable_rejected i raw cv :
    (if nonempty raw then from_storage cv raw else None) = None ->
    new_chunk_from_storage i raw cv false = Err EInvalid.
  Proof.
    intros E. unfold ChunkVerify.new_chunk_from_storage, ChunkVerify.chunk_data.
    cbn [c_data c_storage c_conv nonempty].
    destruct (nonempty raw); [now rewrite E|reflexivity].
  Qed.

  (* With verification disabled the constructor hands on whatever it was given. *)
  Lemma from_storage_skip i raw cv :
    new_chunk_from_storage i raw cv true = Ok (mkChunk [] raw cv i true).
  Proof. reflexivity. Qed.

  Definition unverified_shape (i : id) (c : chunk) : Prop :=
    (exists raw cv, c = mkChunk [] raw cv i true) \/ (exists b, c = new_chunk b).

  Definition rany (i : id) (r : res chunk) : Prop :=
    match r with Ok c => verified i c \/ unverified_shape i c | Err _ => True end.

  Lemma ncfs_good i raw cv : rgood i (new_chunk_from_storage i raw cv false).
  Proof.
    destruct (new_chunk_from_storage i raw cv false) eqn:E; cbn; [|exact I].
    eapply from_storage_verified_strong; eauto.
  Qed.

  Lemma ncfs_any i raw cv sk : rany i (new_chunk_from_storage i raw cv sk).
  Proof.
    destruct sk.
    - rewrite from_storage_skip. cbn. right. left. now exists raw, cv.
    - pose proof (ncfs_good i raw cv) as G. destruct (new_chunk_from_storage i raw cv false); cbn in *; auto.
  Qed.

  Lemma rgood_rany i r : rgood i r -> rany i r.
  Proof. destruct r; cbn; auto. Qed.

  (* ---------- leaves and writable stores ---------- *)

  Lemma leaf_get_any k o i w : rany i (fst (leaf_get k o i w)).
  Proof.
    unfold ChunkVerify.leaf_get. destruct (leaf_fetch k o i w) as [f w1].
    destruct f; cbn [fst]; try exact I; try apply ncfs_any;
      destruct (lo_kind o); cbn [fst]; try exact I; apply ncfs_any.
  Qed.

  Lemma leaf_get_good k o i w : lo_skip o = false -> rgood i (fst (leaf_get k o i w)).
  Proof.
    intros Hs. unfold ChunkVerify.leaf_get. destruct (leaf_fetch k o i w) as [f w1]. rewrite Hs.
    destruct f; cbn [fst]; try exact I; try apply ncfs_good;
      destruct (lo_kind o); cbn [fst]; try exact I; apply ncfs_good.
  Qed.

  Lemma wget_any l i w : rany i (fst (wget l i w)).
  Proof.
    revert w. induction l as [k o|l IH|l IH|l IH]; intros w; cbn [ChunkVerify.wget]; auto.
    - apply leaf_get_any.
    - specialize (IH w). destruct (wget l i w) as [[c|[]] w1]; cbn [fst] in *; auto.
  Qed.

  Lemma wget_good l i w : wverifying l = true -> rgood i (fst (wget l i w)).
  Proof.
    revert w. induction l as [k o|l IH|l IH|l IH]; intros w V; cbn [ChunkVerify.wget wverifying] in *; auto.
    - apply leaf_get_good. now destruct (lo_skip o).
    - specialize (IH w V). destruct (wget l i w) as [[c|[]] w1]; cbn [fst] in *; auto.
  Qed.

  (* ---------- wrappers, over arbitrary upstream getters ---------- *)

  Definition ggood (i : id) (g : getter) : Prop := forall w, rgood i (fst (g w)).
  Definition gany (i : id) (g : getter) : Prop := forall w, rany i (fst (g w)).

  Lemma cache_get_good up l i : ggood i up -> wverifying l = true -> ggood i (cache_get up l i).
  Proof.
    intros Gu V w. unfold ChunkVerify.cache_get.
    pose proof (wget_good l i w V) as G1. destruct (wget l i w) as [[c|[]] w1]; cbn [fst] in *; auto.
    pose proof (Gu w1) as G2. destruct (up w1) as [[c|e] w2]; cbn [fst] in *; auto.
    destruct (wput l c w2) as [[u|e] w3]; cbn [fst]; auto.
  Qed.

  Lemma cache_get_any up l i : gany i up -> gany i (cache_get up l i).
  Proof.
    intros Gu w. unfold ChunkVerify.cache_get.
    pose proof (wget_any l i w) as G1. destruct (wget l i w) as [[c|[]] w1]; cbn [fst] in *; auto.
    pose proof (Gu w1) as G2. destruct (up w1) as [[c|e] w2]; cbn [fst] in *; auto.
    destruct (wput l c w2) as [[u|e] w3]; cbn [fst]; auto.
  Qed.

  Lemma router_get_P (P : res chunk -> Prop) gs :
    (forall e, P (Err e)) -> Forall (fun g => forall w, P (fst (g w))) gs ->
    forall w, P (fst (router_get gs w)).
  Proof.
    intros PE F. induction F as [|g r Hg F IH]; intros w; cbn [router_get fst]; auto.
    specialize (Hg w). destruct (g w) as [[c|[]] w1]; cbn [fst] in *; auto.
  Qed.

  Lemma failover_loop_P (P : res chunk -> Prop) n f g0 gs e :
    (forall e, P (Err e)) -> Forall (fun g => forall w, P (fst (g w))) (g0 :: gs) ->
    forall w, P (fst (failover_loop n f g0 gs e w)).
  Proof.
    intros PE F. revert e. induction n as [|n IH]; intros e w; cbn [failover_loop fst]; auto.
    match goal with |- context [nth ?a ?l ?d w] =>
      assert (Hn : forall w', P (fst (nth a l d w')));
      [ destruct (nth_in_or_default a l d) as [Hin|Hd];
        [ rewrite Forall_forall in F; apply F, Hin | rewrite Hd; inversion F; auto ]
      | specialize (Hn w); destruct (nth a l d w) as [[c|[]] w1]; cbn [fst] in *; auto ]
    end.
  Qed.

  Lemma rgood_err i e : rgood i (Err e). Proof. exact I. Qed.
  Lemma rany_err i e : rany i (Err e). Proof. exact I. Qed.

  Lemma http_loop_any n h sc sk un inner i w : rany i (fst (http_loop n h sc sk un inner i w)).
  Proof.
    revert w. induction n as [|n IH]; intros w; cbn [ChunkVerify.http_loop];
      destruct (http_serve sc un inner w) as [r w1]; destruct (net h i w1) as [fl w2];
      destruct fl, r; cbn [fst]; try exact I; try apply ncfs_any; try apply IH.
  Qed.

  Lemma http_loop_good n h sc un inner i w : rgood i (fst (http_loop n h sc false un inner i w)).
  Proof.
    revert w. induction n as [|n IH]; intros w; cbn [ChunkVerify.http_loop];
      destruct (http_serve sc un inner w) as [r w1]; destruct (net h i w1) as [fl w2];
      destruct fl, r; cbn [fst]; try exact I; try apply ncfs_good; try apply IH.
  Qed.

  (* The protocol client checks against the REQUESTED id, whatever label the answer carries. *)
  Lemma proto_answer_good i j fg body : rgood i (proto_answer H zdecomp i j fg body).
  Proof. apply ncfs_good. Qed.

  Lemma proto_get_good h inner i w : rgood i (fst (proto_get h inner i w)).
  Proof.
    unfold ChunkVerify.proto_get, proto_get_with. destruct (inner w) as [[c|[]] w1]; cbn [fst]; try exact I.
    - destruct (chunk_data c) as [[b|] c1]; cbn [fst]; try exact I.
      destruct (net h i w1) as [[] w2]; cbn [fst]; try exact I; apply proto_answer_good.
    - destruct (net h i w1) as [[] w2]; cbn [fst]; try exact I; apply proto_answer_good.
  Qed.

  Lemma foreign_get_any k i w : rany i (fst (foreign_get k i w)).
  Proof.
    unfold foreign_get. destruct (raw_fetch k i w) as [[b| | |p] w1]; cbn [fst]; try exact I.
    right. right. now exists b.
  Qed.

  (* ---------- the stack ---------- *)

  Lemma get_any s i : gany i (get s i).
  Proof.
    induction s as [l|s l IH|ss IH|f s0 ss IH0 IH|s IH|s IH|h sc sk un re s IH|h s IH|k] using stack_ind';
      intros w; cbn [ChunkVerify.get].
    - apply wget_any.
    - now apply cache_get_any.
    - apply router_get_P; [apply rany_err|]. rewrite Forall_map. exact IH.
    - unfold failover_get. apply failover_loop_P; [apply rany_err|].
      constructor; [exact IH0|]. rewrite Forall_map. exact IH.
    - apply IH.
    - apply IH.
    - apply http_loop_any.
    - apply rgood_rany, proto_get_good.
    - apply foreign_get_any.
  Qed.

  Lemma get_good s i : verifying s = true -> ggood i (get s i).
  Proof.
    induction s as [l|s l IH|ss IH|f s0 ss IH0 IH|s IH|s IH|h sc sk un re s IH|h s IH|k] using stack_ind';
      intros V w; cbn [ChunkVerify.get verifying] in *.
    - now apply wget_good.
    - apply andb_prop in V as [V1 V2]. apply cache_get_good; auto.
    - apply router_get_P; [apply rgood_err|]. rewrite Forall_map.
      rewrite forallb_forall in V. rewrite Forall_forall in *. intros x Hx. apply IH; auto.
    - apply andb_prop in V as [V1 V2]. unfold failover_get. apply failover_loop_P; [apply rgood_err|].
      constructor; [apply IH0, V1|]. rewrite Forall_map.
      rewrite forallb_forall in V2. rewrite Forall_forall in *. intros x Hx. apply IH; auto.
    - apply IH, V.
    - apply IH, V.
    - destruct sk; [discriminate|]. apply http_loop_good.
    - apply proto_get_good.
    - discriminate.
  Qed.

  Theorem stack_sound_strong s i w c w' :
    verifying s = true -> get s i w = (Ok c, w') -> verified i c.
  Proof. intros V E. pose proof (get_good s i V w) as G. now rewrite E in G. Qed.

  Theorem stack_sound_any s i w c w' :
    get s i w = (Ok c, w') -> verified i c \/ (verifying s = false /\ unverified_shape i c).
  Proof.
    intros E. destruct (verifying s) eqn:V.
    - left. eapply stack_sound_strong; eauto.
    - pose proof (get_any s i w) as G. rewrite E in G. cbn in G. destruct G; auto.
  Qed.

  Theorem stack_sound s i w c w' :
    verifying s = true -> get s i w = (Ok c, w') -> exists b, data_of c = Some b /\ H b = i.
  Proof. intros V E. eapply verified_data, stack_sound_strong; eauto. Qed.

  Theorem stack_sound_skip s i w c w' :
    get s i w = (Ok c, w') ->
    (exists b, data_of c = Some b /\ H b = i)
    \/ (verifying s = false /\
        ((exists raw cv, c = mkChunk [] raw cv i true) \/ (exists b, c = new_chunk b))).
  Proof.
    intros E. destruct (stack_sound_any s i w c w' E) as [V|U].
    - left. eapply verified_data, V.
    - right. exact U.
  Qed.

  (* With verification disabled a leaf hands on whatever its backend holds. *)
  Lemma skip_leaf_returns_stored k o i w raw :
    lo_skip o = true ->
    w_fault w (w_hist w) (OpGet k i) = NoFault -> w_obj w k i = Some raw ->
    let c := mkChunk [] raw (converters (lo_uncompressed o)) i true in
    fst (get (W (WLeaf k o)) i w) = Ok c
    /\ data_of c = (if nonempty raw then from_storage (converters (lo_uncompressed o)) raw else None).
  Proof.
    intros Hs Hf Ho c. split; [|apply data_of_storage_only].
    cbn [ChunkVerify.get ChunkVerify.wget]. unfold ChunkVerify.leaf_get.
    assert (Hr : raw_fetch k i w = (Found raw, w_log (OpGet k i) w)).
    { unfold raw_fetch. now rewrite Hf, Ho. }
    assert (Hl : leaf_fetch k o i w = (Found raw, w_log (OpGet k i) w)).
    { unfold leaf_fetch. destruct (lo_kind o); try exact Hr.
      - destruct (pred (lo_retry o)); cbn [fetch_retry]; now rewrite Hr.
      - destruct (lo_retry o); cbn [fetch_retry]; now rewrite Hr. }
    rewrite Hl, Hs. reflexivity.
  Qed.

  (* A sequence of requests. *)
  Lemma get_many_sound s ids w rs w' :
    verifying s = true -> get_many s ids w = (rs, w') ->
    Forall2 (fun i r => forall c, r = Ok c -> exists b, data_of c = Some b /\ H b = i) ids rs.
  Proof.
    intros V. revert w rs w'. induction ids as [|i r IH]; intros w rs w'; cbn [ChunkVerify.get_many].
    - intros E. injection E as <- _. constructor.
    - destruct (get s i w) as [x w1] eqn:E1. destruct (get_many s r w1) as [xs w2] eqn:E2.
      intros E. injection E as <- _. constructor; [|eapply IH, E2].
      intros c ->. eapply stack_sound; eauto.
  Qed.

  (* ---------- what a request does to the world ---------- *)

  (* Every object this code path asks a backend to store is the storage form of bytes that
     hash to the id it is stored under. *)
  Definition put_ok (i : id) (o : op) : Prop :=
    match o with
    | OpPut _ j bs => j = i /\ exists b cv, H b = i /\ bs = to_storage cv b
    | _ => True
    end.

  Definition ext (i : id) (w w' : world) : Prop :=
    exists ops, w_hist w' = w_hist w ++ ops /\ Forall (put_ok i) ops
      /\ w_fault w' = w_fault w
      /\ (forall k j, (forall bs, ~ In (OpPut k j bs) ops) -> w_obj w' k j = w_obj w k j).

  Lemma ext_refl i w : ext i w w.
  Proof. exists []. rewrite app_nil_r. repeat split; auto. Qed.

  Lemma ext_trans i w1 w2 w3 : ext i w1 w2 -> ext i w2 w3 -> ext i w1 w3.
  Proof.
    intros (o1 & H1 & F1 & G1 & O1) (o2 & H2 & F2 & G2 & O2). exists (o1 ++ o2). repeat split.
    - now rewrite H2, H1, app_assoc.
    - apply Forall_app; auto.
    - congruence.
    - intros k j N. rewrite O2, O1; auto; intros bs Hin; apply (N bs), in_or_app; auto.
  Qed.

  Lemma ext_log i o w : put_ok i o -> (forall k j b, o <> OpPut k j b) -> ext i w (w_log o w).
  Proof.
    intros P N. exists [o]. repeat split; auto.
  Qed.

  Lemma raw_fetch_ext i k j w : ext i w (snd (raw_fetch k j w)).
  Proof.
    assert (E : ext i w (w_log (OpGet k j) w)) by (apply ext_log; [exact I|discriminate]).
    unfold raw_fetch. destruct (w_fault w (w_hist w) (OpGet k j)); cbn [snd]; auto;
      destruct (w_obj w k j); cbn [snd]; auto.
  Qed.

  Lemma net_ext i h j w : ext i w (snd (net h j w)).
  Proof. unfold net. cbn [snd]. apply ext_log; [exact I|discriminate]. Qed.

  Lemma set_act_ext i f a w : ext i w (w_set_act f a w).
  Proof. exists []. cbn. rewrite app_nil_r. repeat split; auto. Qed.

  Lemma raw_put_ext i k bs w :
    (exists b cv, H b = i /\ bs = to_storage cv b) -> ext i w (snd (raw_put k i bs w)).
  Proof.
    intros P. unfold raw_put.
    assert (Store : forall b', ext i w (w_store k i b' (w_log (OpPut k i bs) w))).
    { intros b'. exists [OpPut k i bs]. repeat split; cbn; auto.
      - constructor; [|constructor]. cbn. auto.
      - intros k' j N. destruct (Nat.eqb k k') eqn:Ek; cbn [andb]; auto.
        destruct (N.eqb i j) eqn:Ej; auto.
        apply Nat.eqb_eq in Ek. apply N.eqb_eq in Ej. subst. exfalso. apply (N bs). now left. }
    assert (Log : ext i w (w_log (OpPut k i bs) w)).
    { exists [OpPut k i bs]. repeat split; cbn; auto. constructor; [|constructor]. cbn. auto. }
    destruct (w_fault w (w_hist w) (OpPut k i bs)); cbn [snd]; auto.
  Qed.

  Lemma fetch_retry_ext i rm n k j w : ext i w (snd (fetch_retry rm n k j w)).
  Proof.
    revert w. induction n as [|n IH]; intros w; cbn [fetch_retry];
      pose proof (raw_fetch_ext i k j w) as E; destruct (raw_fetch k j w) as [f w1]; cbn [snd] in *; auto.
    destruct f; cbn [snd]; auto; try (eapply ext_trans; [exact E|apply IH]).
    destruct rm; cbn [snd]; auto. eapply ext_trans; [exact E|apply IH].
  Qed.

  Lemma leaf_get_ext i k o j w : ext i w (snd (leaf_get k o j w)).
  Proof.
    unfold ChunkVerify.leaf_get.
    assert (E : ext i w (snd (leaf_fetch k o j w))).
    { unfold leaf_fetch. destruct (lo_kind o); try apply raw_fetch_ext; apply fetch_retry_ext. }
    destruct (leaf_fetch k o j w) as [f w1]. cbn [snd] in E.
    destruct f; cbn [snd]; auto; destruct (lo_kind o); cbn [snd]; auto.
  Qed.

  Lemma wget_ext i l j w : ext i w (snd (wget l j w)).
  Proof.
    revert w. induction l as [k o|l IH|l IH|l IH]; intros w; cbn [ChunkVerify.wget]; auto.
    - apply leaf_get_ext.
    - specialize (IH w). destruct (wget l j w) as [[c|[]] w1]; cbn [snd] in *; auto.
  Qed.

  Lemma verified_id_data i c : verified i c ->
    exists b c1 c2, chunk_id c = (i, c1) /\ chunk_data c1 = (Some b, c2) /\ H b = i.
  Proof.
    intros (b & Hd & Hh & Hc & Hi). unfold ChunkVerify.chunk_id. rewrite Hc, Hi.
    unfold ChunkVerify.data_of in Hd. destruct (chunk_data c) as [d c2] eqn:E. cbn [fst] in Hd. subst d.
    exists b, c, c2. auto.
  Qed.

  Lemma wput_ext i l c w : verified i c -> ext i w (snd (wput l c w)).
  Proof.
    intros V. revert w. induction l as [k o|l IH|l IH|l IH]; intros w; cbn [ChunkVerify.wput]; auto.
    unfold ChunkVerify.leaf_put.
    destruct (verified_id_data i c V) as (b & c1 & c2 & E1 & E2 & Hh). rewrite E1, E2.
    apply raw_put_ext. eauto.
  Qed.

  Definition gext (i : id) (g : getter) : Prop := forall w, ext i w (snd (g w)).

  Lemma cache_get_ext up l i : ggood i up -> gext i up -> gext i (cache_get up l i).
  Proof.
    intros Gu Eu w. unfold ChunkVerify.cache_get.
    pose proof (wget_ext i l i w) as E1. destruct (wget l i w) as [[c|[]] w1]; cbn [snd] in *; auto.
    pose proof (Eu w1) as E2. pose proof (Gu w1) as G2.
    destruct (up w1) as [[c|e] w2]; cbn [snd fst] in *; [|eapply ext_trans; eauto].
    pose proof (wput_ext i l c w2 G2) as E3.
    destruct (wput l c w2) as [[u|e] w3]; cbn [snd] in *; eapply ext_trans; eauto; eapply ext_trans; eauto.
  Qed.

  Lemma router_get_ext i gs : Forall (gext i) gs -> gext i (router_get gs).
  Proof.
    intros F. induction F as [|g r Hg F IH]; intros w; cbn [router_get snd]; [apply ext_refl|].
    specialize (Hg w). destruct (g w) as [[c|[]] w1]; cbn [snd] in *; auto.
    eapply ext_trans; [exact Hg|apply IH].
  Qed.

  Lemma failover_loop_ext i n f g0 gs e : Forall (gext i) (g0 :: gs) -> gext i (failover_loop n f g0 gs e).
  Proof.
    intros F. revert e. induction n as [|n IH]; intros e w; cbn [failover_loop snd]; [apply ext_refl|].
    match goal with |- context [nth ?a ?l ?d w] =>
      assert (Hn : forall w', ext i w' (snd (nth a l d w')));
      [ destruct (nth_in_or_default a l d) as [Hin|Hd];
        [ rewrite Forall_forall in F; apply F, Hin | rewrite Hd; inversion F; auto ]
      | specialize (Hn w); destruct (nth a l d w) as [[c|[]] w1]; cbn [snd] in *; auto ]
    end;
    (eapply ext_trans; [exact Hn|]; eapply ext_trans; [apply set_act_ext|apply IH]).
  Qed.

  Lemma http_serve_ext i sc un inner : gext i inner -> forall w, ext i w (snd (http_serve sc un inner w)).
  Proof.
    intros Ei w. unfold ChunkVerify.http_serve.
    destruct (negb (eqb (has_compression sc) (negb un))); cbn [snd]; [apply ext_refl|].
    specialize (Ei w). destruct (inner w) as [[c|[]] w1]; cbn [snd] in *; auto.
    destruct (nonempty (c_storage c) && convs_equal sc (c_conv c))%bool; cbn [snd]; auto.
    destruct (data_of c); cbn [snd]; auto.
  Qed.

  Lemma http_loop_ext i n h sc sk un inner : gext i inner -> gext i (http_loop n h sc sk un inner i).
  Proof.
    intros Ei. induction n as [|n IH]; intros w; cbn [ChunkVerify.http_loop];
      pose proof (http_serve_ext i sc un inner Ei w) as E1;
      destruct (http_serve sc un inner w) as [r w1]; cbn [snd] in E1;
      pose proof (net_ext i h i w1) as E2; destruct (net h i w1) as [fl w2]; cbn [snd] in E2;
      assert (E : ext i w w2) by (eapply ext_trans; eauto);
      destruct fl, r; cbn [snd]; auto; (eapply ext_trans; [exact E|apply IH]).
  Qed.

  Lemma proto_get_ext i h inner : gext i inner -> gext i (proto_get h inner i).
  Proof.
    intros Ei w. unfold ChunkVerify.proto_get, proto_get_with.
    specialize (Ei w). destruct (inner w) as [[c|[]] w1]; cbn [snd] in *; auto.
    - destruct (chunk_data c) as [[b|] c1]; cbn [snd]; auto.
      pose proof (net_ext i h i w1) as E2. destruct (net h i w1) as [[] w2]; cbn [snd] in *;
        eapply ext_trans; eauto.
    - pose proof (net_ext i h i w1) as E2. destruct (net h i w1) as [[] w2]; cbn [snd] in *;
        eapply ext_trans; eauto.
  Qed.

  Lemma all_verifying_verifying s : all_verifying s = true -> verifying s = true.
  Proof.
    induction s as [l|s l IH|ss IH|f s0 ss IH0 IH|s IH|s IH|h sc sk un re s IH|h s IH|k] using stack_ind';
      cbn [all_verifying verifying]; intros V; auto.
    - apply andb_prop in V as [V1 V2]. rewrite IH; auto.
    - rewrite forallb_forall in *. rewrite Forall_forall in IH. auto.
    - apply andb_prop in V as [V1 V2]. rewrite IH0; auto. cbn [andb].
      rewrite forallb_forall in *. rewrite Forall_forall in IH. auto.
    - apply andb_prop in V as [V1 V2]. auto.
  Qed.

  Lemma get_ext s i : all_verifying s = true -> gext i (get s i).
  Proof.
    induction s as [l|s l IH|ss IH|f s0 ss IH0 IH|s IH|s IH|h sc sk un re s IH|h s IH|k] using stack_ind';
      intros V w; cbn [ChunkVerify.get all_verifying] in *.
    - apply wget_ext.
    - apply andb_prop in V as [V1 V2]. apply cache_get_ext; auto.
      apply get_good, all_verifying_verifying, V1.
    - apply router_get_ext. rewrite Forall_map.
      rewrite forallb_forall in V. rewrite Forall_forall in *. intros x Hx. apply IH; auto.
    - apply andb_prop in V as [V1 V2]. unfold failover_get. apply failover_loop_ext.
      constructor; [apply IH0, V1|]. rewrite Forall_map.
      rewrite forallb_forall in V2. rewrite Forall_forall in *. intros x Hx. apply IH; auto.
    - apply IH, V.
    - apply IH, V.
    - apply andb_prop in V as [V1 V2]. apply http_loop_ext; auto.
    - apply proto_get_ext; auto.
    - discriminate.
  Qed.

  Theorem cache_writes_verified s i w r w' :
    all_verifying s = true -> get s i w = (r, w') ->
    exists ops, w_hist w' = w_hist w ++ ops
      /\ (forall k j bs, In (OpPut k j bs) ops -> j = i /\ exists b cv, H b = i /\ bs = to_storage cv b)
      /\ (forall k j, (forall bs, ~ In (OpPut k j bs) ops) -> w_obj w' k j = w_obj w k j).
  Proof.
    intros V E. pose proof (get_ext s i V w) as X. rewrite E in X. cbn [snd] in X.
    destruct X as (ops & Hh & F & _ & O). exists ops. split; [exact Hh|]. split; [|exact O].
    intros k j bs Hin. rewrite Forall_forall in F. exact (F _ Hin).
  Qed.

  (* ---------- consumers ---------- *)

  Lemma write_chunk_sound s row w b w' :
    verifying s = true -> write_chunk H zcomp zdecomp s row w = (Some b, w') ->
    H b = fst row /\ length b = snd row.
  Proof.
    intros V. unfold write_chunk. destruct (get s (fst row) w) as [[c|e] w1] eqn:E; [|discriminate].
    destruct (stack_sound s _ w c w1 V E) as (d & Hd & Hh). rewrite Hd.
    destruct (Nat.eqb (snd row) (length d)) eqn:El; [|discriminate].
    intros X. injection X as <- _. apply Nat.eqb_eq in El. auto.
  Qed.

  Lemma untar_worker_sound s row w b w' :
    verifying s = true -> untar_worker H zcomp zdecomp s row w = (Some b, w') ->
    H b = fst row /\ length b = snd row.
  Proof.
    intros V. unfold untar_worker. destruct (get s (fst row) w) as [[c|e] w1] eqn:E; [|discriminate].
    destruct (stack_sound s _ w c w1 V E) as (d & Hd & Hh). rewrite Hd.
    destruct (Nat.eqb (snd row) (length d)) eqn:El; [|discriminate].
    intros X. injection X as <- _. apply Nat.eqb_eq in El. auto.
  Qed.

  Lemma sparse_load_sound s row w b w' :
    verifying s = true -> sparse_load H zcomp zdecomp s row w = (Some b, w') -> H b = fst row.
  Proof.
    intros V. unfold sparse_load. destruct (get s (fst row) w) as [[c|e] w1] eqn:E; [|discriminate].
    destruct (stack_sound s _ w c w1 V E) as (d & Hd & Hh). rewrite Hd.
    intros X. injection X as <- _. exact Hh.
  Qed.

  Lemma readseeker_load_sound s nid nd row w b w' :
    verifying s = true -> H nd = nid ->
    readseeker_load H zcomp zdecomp s nid nd row w = (Some b, w') -> H b = fst row.
  Proof.
    intros V Hn. unfold readseeker_load. destruct (N.eqb (fst row) nid) eqn:En.
    - intros X. injection X as <- _. apply N.eqb_eq in En. congruence.
    - destruct (get s (fst row) w) as [[c|e] w1] eqn:E; [|discriminate].
      destruct (stack_sound s _ w c w1 V E) as (d & Hd & Hh). rewrite Hd.
      intros X. injection X as <- _. exact Hh.
  Qed.

  Lemma map_hash_eq (l1 l2 : list bytes) : map H l1 = map H l2 -> l1 = l2 \/ Collision H.
  Proof.
    revert l2. induction l1 as [|a r IH]; intros [|b r2]; cbn; try discriminate; auto.
    intros E. injection E as Ea Er. destruct (hash_eq H a b Ea) as [->|C]; [|now right].
    destruct (IH r2 Er) as [->|C]; auto.
  Qed.

  Lemma consume_all_hashes one rows w bs w' :
    (forall row w b w', one row w = (Some b, w') -> H b = fst row) ->
    consume_all one rows w = (Some bs, w') -> map H bs = map fst rows.
  Proof.
    intros Ho. revert w bs w'. induction rows as [|r rest IH]; intros w bs w'; cbn [consume_all].
    - intros E. injection E as <- _. reflexivity.
    - destruct (one r w) as [[b|] w1] eqn:E1; [|discriminate].
      destruct (consume_all one rest w1) as [[bs'|] w2] eqn:E2; [|discriminate].
      intros E. injection E as <- _. cbn. f_equal; eauto.
  Qed.

  (* A pipeline that hands on what one of the consumers gives it, row by row of an index that
     describes the blob: success means the output is the blob, or H has a collision. *)
  Theorem consumers_output_is_blob one rows w bs w' blob :
    (forall row w b w', one row w = (Some b, w') -> H b = fst row) ->
    index_describes H rows blob ->
    consume_all one rows w = (Some bs, w') -> concat bs = blob \/ Collision H.
  Proof.
    intros Ho [Hl Hm] E. pose proof (consume_all_hashes one rows w bs w' Ho E) as Hb.
    unfold ids in Hm. rewrite <- Hm in Hb.
    destruct (map_hash_eq _ _ Hb) as [->|C]; [|now right].
    left. apply concat_split_by. exact Hl.
  Qed.

  Theorem extract_output_is_blob s rows w w' bs blob :
    verifying s = true -> index_describes H rows blob ->
    consume_all (write_chunk H zcomp zdecomp s) rows w = (Some bs, w') -> concat bs = blob \/ Collision H.
  Proof.
    intros V D E. eapply consumers_output_is_blob; eauto.
    intros row w0 b w0' X. eapply write_chunk_sound; eauto.
  Qed.

  (* ---------- readers ---------- *)

  Lemma readseeker_load_err_sound s nid nd row w b w' :
    verifying s = true -> H nd = nid ->
    readseeker_load_err H zcomp zdecomp s nid nd row w = (Ok b, w') -> H b = fst row.
  Proof.
    intros V Hn. unfold readseeker_load_err. destruct (N.eqb (fst row) nid) eqn:En.
    - intros X. injection X as <- _. apply N.eqb_eq in En. congruence.
    - destruct (get s (fst row) w) as [[c|e] w1] eqn:E; [|discriminate].
      destruct (stack_sound s _ w c w1 V E) as (d & Hd & Hh). rewrite Hd.
      intros X. injection X as <- _. exact Hh.
  Qed.

  Lemma copy_index_chunks s nid nd rows w out w' :
    verifying s = true -> H nd = nid ->
    copy_index H zcomp zdecomp s nid nd rows w = (out, true, w') ->
    exists bs, out = concat bs /\ map H bs = map fst rows.
  Proof.
    intros V Hn. revert w out w'. induction rows as [|r rest IH]; intros w out w'; cbn [copy_index].
    - intros E. injection E as <- _. exists []. auto.
    - destruct (readseeker_load_err H zcomp zdecomp s nid nd r w) as [[b|e] w1] eqn:E1; [|discriminate].
      destruct (copy_index H zcomp zdecomp s nid nd rest w1) as [[bs ok] w2] eqn:E2.
      intros E. injection E as <- -> _.
      destruct (IH _ _ _ E2) as (l & -> & Hl). exists (b :: l). cbn. split; [reflexivity|].
      f_equal; [|exact Hl]. eapply readseeker_load_err_sound; eauto.
  Qed.

  (* `desync cat` / any io.Copy from the index reader: success means the blob was copied. *)
  Theorem copy_index_sound s nid nd rows w out w' blob :
    verifying s = true -> H nd = nid -> index_describes H rows blob ->
    copy_index H zcomp zdecomp s nid nd rows w = (out, true, w') -> out = blob \/ Collision H.
  Proof.
    intros V Hn [Hl Hm] E. destruct (copy_index_chunks _ _ _ _ _ _ _ V Hn E) as (bs & -> & Hb).
    unfold ids in Hm. rewrite <- Hm in Hb.
    destruct (map_hash_eq _ _ Hb) as [->|C]; [|now right].
    left. apply concat_split_by. exact Hl.
  Qed.

  (* Before 898d634 the same held only for stacks that never return a bare io.EOF -- which
     includes everything the command line builds (a StoreRouter is always on top). *)
  Lemma ncfs_no_eof i raw cv sk : new_chunk_from_storage i raw cv sk <> Err EEof.
  Proof.
    unfold ChunkVerify.new_chunk_from_storage. destruct sk; [discriminate|].
    destruct (chunk_data _) as [[d|] c1]; [|discriminate].
    destruct (chunk_id c1) as [sum c']. destruct (N.eqb sum i); discriminate.
  Qed.

  Lemma wget_no_eof l i w w' : wget l i w <> (Err EEof, w').
  Proof.
    revert w w'. induction l as [k o|l IHl|l IHl|l IHl]; intros w w'; cbn [ChunkVerify.wget]; auto.
    - unfold ChunkVerify.leaf_get. destruct (leaf_fetch k o i w) as [f w1].
      destruct f; try destruct (lo_kind o); intros X; injection X as X _; try discriminate;
        eapply ncfs_no_eof; eauto.
    - specialize (IHl w). destruct (wget l i w) as [[c|[]] w1]; intros X; try discriminate.
      eapply IHl; eauto.
  Qed.

  Lemma proto_free_no_eof s i w w' : never_eof s = true -> get s i w <> (Err EEof, w').
  Proof.
    revert w w'.
    induction s as [l|s l IH|ss IH|f s0 ss IH0 IH|s IH|s IH|h sc sk un re s IH|h s IH|k] using stack_ind';
      intros w w' V; cbn [ChunkVerify.get never_eof] in *.
    - apply wget_no_eof.
    - unfold ChunkVerify.cache_get.
      destruct (wget l i w) as [[c|[]] w1] eqn:E1; try discriminate.
      + destruct (get s i w1) as [[c|e] w2] eqn:E2.
        * destruct (wput l c w2) as [[u|e] w3]; discriminate.
        * intros X. injection X as -> ->. eapply IH; eauto.
      + exfalso. eapply wget_no_eof; eauto.
    - clear IH V. generalize (map (fun x => get x i) ss). intros gs. revert w.
      induction gs as [|g r IHg]; intros w; cbn [router_get]; [discriminate|].
      destruct (g w) as [[c|[]] w1]; try discriminate. apply IHg.
    - apply andb_prop in V as [V0 V1]. unfold failover_get.
      assert (F : Forall (fun g : getter => forall w w', g w <> (Err EEof, w')) (get s0 i :: map (fun x => get x i) ss)).
      { constructor; [intros; apply IH0; auto|]. rewrite Forall_map.
        rewrite forallb_forall in V1. rewrite Forall_forall in *. intros x Hx w0 w0'. apply IH; auto. }
      revert F. generalize (map (fun x => get x i) ss). intros gs F.
      assert (L : forall n e w w', e <> EEof -> failover_loop n f (get s0 i) gs e w <> (Err EEof, w')).
      { induction n as [|n IHn]; intros e w0 w0' Ne; cbn [failover_loop]; [congruence|].
        match goal with |- context [nth ?a ?l ?d w0] =>
          assert (Hn : forall w1 w1', nth a l d w1 <> (Err EEof, w1'));
          [ destruct (nth_in_or_default a l d) as [Hin|Hd];
            [ rewrite Forall_forall in F; apply F, Hin | rewrite Hd; inversion F; auto ]
          | destruct (nth a l d w0) as [[c|[]] w1] eqn:En; try discriminate;
            try (apply IHn; discriminate); exfalso; eapply Hn; eauto ]
        end. }
      apply L. discriminate.
    - apply IH, V.
    - apply IH, V.
    - clear IH V. revert w. generalize (pred re). intros n.
      induction n as [|n IHn]; intros w; cbn [ChunkVerify.http_loop];
        destruct (http_serve sc un (get s i) w) as [r w1]; destruct (net h i w1) as [fl w2];
        destruct fl, r; try discriminate; try apply IHn;
        intros X; injection X as X _; eapply ncfs_no_eof; eauto.
    - discriminate.
    - unfold foreign_get. destruct (raw_fetch k i w) as [[b| | |p] w1]; discriminate.
  Qed.

  Lemma copy_pre898d634_eq s nid nd rows w :
    never_eof s = true ->
    copy_index_pre898d634 H zcomp zdecomp s nid nd rows w = copy_index H zcomp zdecomp s nid nd rows w.
  Proof.
    intros V. revert w. induction rows as [|r rest IH]; intros w; cbn [copy_index copy_index_pre898d634]; auto.
    destruct (readseeker_load_err H zcomp zdecomp s nid nd r w) as [[b|e] w1] eqn:E1.
    - now rewrite IH.
    - destruct e; auto. exfalso. revert E1. unfold readseeker_load_err.
      destruct (N.eqb (fst r) nid); [discriminate|].
      destruct (get s (fst r) w) as [[c|e] w2] eqn:E2.
      + destruct (data_of c); discriminate.
      + intros X. injection X as -> ->. eapply proto_free_no_eof; eauto.
  Qed.

  Theorem copy_pre898d634_sound_no_eof s nid nd rows w out w' blob :
    verifying s = true -> never_eof s = true -> H nd = nid -> index_describes H rows blob ->
    copy_index_pre898d634 H zcomp zdecomp s nid nd rows w = (out, true, w') -> out = blob \/ Collision H.
  Proof. intros V N Hn D E. rewrite copy_pre898d634_eq in E by exact N. eapply copy_index_sound; eauto. Qed.

  (* The defect: a store error that is io.EOF ended the copy with success, whatever was left. *)
  Lemma copy_pre898d634_truncates s nid nd r rest w w1 :
    readseeker_load_err H zcomp zdecomp s nid nd r w = (Err EEof, w1) ->
    copy_index_pre898d634 H zcomp zdecomp s nid nd (r :: rest) w = ([], true, w1)
    /\ copy_index H zcomp zdecomp s nid nd (r :: rest) w = ([], false, w1).
  Proof. intros E. cbn [copy_index copy_index_pre898d634]. now rewrite E. Qed.

  (* ---------- the id carried in a casync CHUNK answer ---------- *)

  Lemma proto_response_id_ignored i j fg body c :
    proto_answer H zdecomp i j fg body = Ok c -> exists b, data_of c = Some b /\ H b = i.
  Proof. apply from_storage_verified. Qed.

  (* the client that believes the label checks the data against the label ... *)
  Lemma proto_respid_checks_label i j fg body c :
    proto_answer_respid H zdecomp i j fg body = Ok c -> exists b, data_of c = Some b /\ H b = j.
  Proof. apply from_storage_verified. Qed.

  (* ... so in front of a server whose store derives ids from content it returns, without an
     error, whatever that store holds in the slot of the requested chunk: another chunk's
     valid object gets through (any [b] with [H b <> i] refutes the property for that client). *)
  Lemma proto_respid_delivers_foreign k h i w b :
    w_fault w (w_hist w) (OpGet k i) = NoFault ->
    w_fault w (w_hist w ++ [OpGet k i]) (OpNet h i) = NoFault ->
    w_obj w k i = Some b -> nonempty b = true ->
    nonempty (zcomp b) = true -> zdecomp (zcomp b) = Some b ->
    exists c, fst (proto_get_with H zcomp zdecomp (proto_answer_respid H zdecomp) h (foreign_get k i) i w) = Ok c
              /\ data_of c = Some b.
  Proof.
    intros F1 F2 Ho Nb Nz Dz. unfold proto_get_with, foreign_get, raw_fetch. rewrite F1, Ho.
    unfold new_chunk at 1. unfold ChunkVerify.chunk_data at 1. cbn [c_data]. rewrite Nb.
    unfold net. cbn [w_hist w_fault w_log]. rewrite F2.
    unfold ChunkVerify.chunk_id at 1. cbn [c_idcalc new_chunk].
    unfold ChunkVerify.chunk_data at 1. cbn [c_data]. rewrite Nb. cbn [fst].
    unfold proto_answer_respid, ChunkVerify.new_chunk_from_storage.
    unfold ChunkVerify.chunk_data at 1. cbn [c_data c_storage c_conv nonempty]. rewrite Nz.
    cbn [ChunkVerify.from_storage layer_from]. rewrite Dz.
    unfold ChunkVerify.chunk_id. cbn [set_data c_idcalc].
    unfold ChunkVerify.chunk_data at 1. cbn [c_data set_data]. rewrite Nb.
    rewrite N.eqb_refl. eexists. split; [reflexivity|].
    rewrite data_of_set_id. unfold ChunkVerify.data_of, ChunkVerify.chunk_data. cbn [c_data set_data]. now rewrite Nb.
  Qed.

  (* Chunks are values: what a chunk yields does not depend on the world, so the chunks of
     earlier requests are still verified answers after any number of later requests. *)
  Lemma held_chunks_sound s ids later w rs w' :
    verifying s = true -> get_many s (ids ++ later) w = (rs, w') ->
    Forall2 (fun i r => forall c, r = Ok c -> exists b, data_of c = Some b /\ H b = i)
            ids (firstn (length ids) rs).
  Proof.
    intros V E. pose proof (get_many_sound s _ w rs w' V E) as F.
    apply Forall2_app_inv_l in F as (l1 & l2 & F1 & _ & ->).
    assert (L : length ids = length l1) by (clear - F1; induction F1; cbn; congruence).
    rewrite L, firstn_app, firstn_all, Nat.sub_diag, firstn_O, app_nil_r. exact F1.
  Qed.

  (* ---------- one name per chunk ---------- *)

  Definition fault_free (w : world) : Prop := forall h o, w_fault w h o = NoFault.

  Lemma raw_fetch_missing k i w :
    fault_free w -> w_obj w k i = None ->
    raw_fetch k i w = (NotFound, w_log (OpGet k i) w).
  Proof. intros F N. unfold raw_fetch. now rewrite F, N. Qed.

  Lemma fault_free_log o w : fault_free w -> fault_free (w_log o w).
  Proof. intros F h x. apply F. Qed.

  Lemma fetch_retry_missing rm n k i w :
    fault_free w -> w_obj w k i = None ->
    exists w', fetch_retry rm n k i w = (NotFound, w') /\ fault_free w' /\ w_obj w' = w_obj w.
  Proof.
    revert w. induction n as [|n IH]; intros w F N; cbn [fetch_retry]; rewrite raw_fetch_missing by assumption.
    - eexists. split; [reflexivity|]. split; [now apply fault_free_log|reflexivity].
    - destruct rm.
      + destruct (IH (w_log (OpGet k i) w)) as (w' & E & F' & O); [now apply fault_free_log|exact N|].
        exists w'. auto.
      + eexists. split; [reflexivity|]. split; [now apply fault_free_log|reflexivity].
  Qed.

  Lemma leaf_get_missing k o i w :
    fault_free w -> w_obj w k i = None ->
    exists w', leaf_get k o i w = (Err EMissing, w') /\ fault_free w' /\ w_obj w' = w_obj w.
  Proof.
    intros F N. unfold ChunkVerify.leaf_get, leaf_fetch.
    destruct (lo_kind o);
      try (rewrite raw_fetch_missing by assumption; eexists; split; [reflexivity|];
           split; [now apply fault_free_log|reflexivity]);
      match goal with |- context [fetch_retry ?rm ?n k i w] =>
        destruct (fetch_retry_missing rm n k i w F N) as (w' & E & F' & O); rewrite E; eauto end.
  Qed.

  (* A leaf looks under the name of its own format only: when that object does not exist the
     chunk is missing, whatever else the world holds (an object of the other format under the
     same id is some other slot). *)
  Theorem leaf_own_name_only k o i w :
    fault_free w -> w_obj w k i = None -> fst (get (W (WLeaf k o)) i w) = Err EMissing.
  Proof.
    intros F N. cbn [ChunkVerify.get ChunkVerify.wget].
    destruct (leaf_get_missing k o i w F N) as (w' & E & _). now rewrite E.
  Qed.

  (* If a store does fall back to the other name, what it finds has to go through the
     verifying constructor: then the result is as good as any other ... *)
  Theorem fallback_checked_sound k k' o i w :
    lo_skip o = false -> rgood i (fst (leaf_get_fallback H zdecomp true k k' o i w)).
  Proof.
    intros S. unfold leaf_get_fallback.
    pose proof (leaf_get_good k o i w S) as G.
    destruct (leaf_get k o i w) as [[c|[]] w1]; cbn [fst] in *; auto.
    destruct (raw_fetch k' i w1) as [[b| | |p] w2]; cbn [fst]; try exact I.
    rewrite S. apply ncfs_good.
  Qed.

  (* ... whereas handing it to NewChunk delivers whatever is stored under that name. *)
  Theorem fallback_unchecked_delivers_anything k k' o i w b :
    fault_free w -> w_obj w k i = None -> w_obj w k' i = Some b -> nonempty b = true ->
    exists c, fst (leaf_get_fallback H zdecomp false k k' o i w) = Ok c /\ data_of c = Some b.
  Proof.
    intros F N Hb Nb. unfold leaf_get_fallback.
    destruct (leaf_get_missing k o i w F N) as (w' & E & F' & O). rewrite E.
    unfold raw_fetch. rewrite F', O, Hb. cbn [fst]. exists (new_chunk b). split; [reflexivity|].
    unfold ChunkVerify.data_of, ChunkVerify.chunk_data, new_chunk. cbn [c_data]. now rewrite Nb.
  Qed.

  (* The protocol client as a leaf: in front of ANY peer ([inner] is an arbitrary function of the
     world, the answer in flight may be replaced by any flags / label / body) what it returns
     without error yields bytes hashing to the requested id. *)
  Theorem proto_client_verifies h (inner : getter) i w c w' :
    proto_get h inner i w = (Ok c, w') -> exists b, data_of c = Some b /\ H b = i.
  Proof.
    intros E. pose proof (proto_get_good h inner i w) as G. rewrite E in G. cbn in G.
    eapply verified_data, G.
  Qed.

  (* the client that trusts the flags hands out any plain body that is sent unflagged *)
  Lemma proto_trust_flags_delivers_anything i j fg body :
    N.land fg CaProtocolChunkCompressed = 0%N -> has_prefix zstd_magic body = false -> nonempty body = true ->
    exists c, proto_answer_trust_flags H zdecomp i j fg body = Ok c /\ data_of c = Some body.
  Proof.
    intros F M N. unfold proto_answer_trust_flags. rewrite F, M. cbn [N.eqb andb negb].
    exists (new_chunk body). split; [reflexivity|].
    unfold ChunkVerify.data_of, ChunkVerify.chunk_data, new_chunk. cbn [c_data]. now rewrite N.
  Qed.

  (* Every call verifies what it reads now: whatever happened to the world between the calls --
     also to objects that were read successfully before -- each answer is a verified one. *)
  Theorem get_history_sound s steps w rs w' :
    verifying s = true -> get_history H zcomp zdecomp s steps w = (rs, w') ->
    Forall2 (fun st r => forall c, r = Ok c -> exists b, data_of c = Some b /\ H b = snd st) steps rs.
  Proof.
    intros V. revert w rs w'. induction steps as [|[f i] r IH]; intros w rs w'; cbn [get_history].
    - intros E. injection E as <- _. constructor.
    - destruct (get s i (f w)) as [x w1] eqn:E1.
      destruct (get_history H zcomp zdecomp s r w1) as [xs w2] eqn:E2.
      intros E. injection E as <- _. constructor; [|eapply IH, E2].
      intros c ->. eapply stack_sound; eauto.
  Qed.
End Proofs.
