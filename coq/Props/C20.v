(* C20 -- local chunk stores use casync's on-disk format; both formats coexist.
   Only statements, [exact], Print Assumptions and Examples live here. *)
From Coq Require Import List NArith Arith Bool.
From DS Require Import Gen.Constants Base.Bytes Base.Hash Base.HexId Base.FS Model.LocalStore
     Model.Prune Proofs.LocalStoreProofs Proofs.PruneProofs.
Import ListNotations.

(* nameFromID: <base>/<first 4 hex digits>/<64 lower-case hex digits><ext>, ext = ".cacnk" (literal
   bytes below; the model takes it from const.go) for a compressed store and "" for an uncompressed one;
   the 64 digits decode back to the id. *)
Theorem C20_name_layout : forall (st : store) (i : id),
  exists d4 s64,
    name_from_id st i =
      (st_base st ++ [d4],
       (st_base st ++ [d4]) ++ [s64 ++ (if st_unc st then [] else [46; 99; 97; 99; 110; 107]%N)]) /\
    length d4 = 4 /\ length s64 = 64 /\ d4 = firstn 4 s64 /\
    forallb is_lower_hex s64 = true /\ (wf_id i -> unhex_id s64 = Some i).
Proof. exact name_from_id_layout. Qed.
Print Assumptions C20_name_layout.

(* ... and the file name determines (id, format). *)
Theorem C20_name_injective : forall base z z' k k' i i', wf_id i -> wf_id i' ->
  snd (name_from_id (mkStore base z k) i) = snd (name_from_id (mkStore base z' k') i') ->
  i = i' /\ z = z'.
Proof. exact name_from_id_inj. Qed.
Print Assumptions C20_name_injective.

(* The Verify/Prune filter of a format (suffix test on the path, id parsed from the base name)
   accepts that format's canonical name and returns the id. *)
Theorem C20_filter_accepts_own : forall unc dstr i, wf_id i ->
  chunk_file_id unc (join_str dstr (hex_id i ++ ext_of unc)) (hex_id i ++ ext_of unc) = Some i.
Proof. exact chunk_file_id_canonical. Qed.
Print Assumptions C20_filter_accepts_own.

(* No file is accepted by both filters: in uncompressed mode the suffix test is vacuous
   (HasSuffix(path, "") is always true) but the whole base name must then be 64 hex digits, and such a
   name cannot end in ".cacnk". *)
Theorem C20_formats_disjoint : forall (dstr : bytes) (nm : name) (i j : id),
  chunk_file_id false (join_str dstr nm) nm = Some i ->
  chunk_file_id true (join_str dstr nm) nm = Some j -> False.
Proof. exact formats_disjoint. Qed.
Print Assumptions C20_formats_disjoint.

(* A temp file (".tmp-cacnk" ++ anything) is not a chunk in either format. *)
Theorem C20_tmp_never_chunk : forall unc pstr r, chunk_file_id unc pstr (tmp_name r) = None.
Proof. exact tmp_name_not_chunk. Qed.
Print Assumptions C20_tmp_never_chunk.

(* GetChunk (StoreChunk c) = c, HasChunk = true, for both formats, any prior store content, any
   temp-name stream; the codec enters only through its round-trip law. *)
Theorem C20_store_roundtrip :
  forall (H : bytes -> id) (zcomp zdecomp : bytes -> option bytes),
  (forall x b, zcomp x = Some b -> zdecomp b = Some x) ->
  (forall x b, zcomp x = Some b -> b <> []) ->
  forall st rs i plain s s',
  store_chunk zcomp st rs i plain s = (s', None) -> (i = H plain \/ st_skip st = true) ->
  exists b, to_storage zcomp (st_unc st) plain = Some b /\
            get_chunk H zdecomp st i s' = GetOk b /\
            get_data H zdecomp st i s' = Some plain /\
            has_chunk st i s' = HasYes.
Proof. exact store_chunk_roundtrip. Qed.
Print Assumptions C20_store_roundtrip.

(* What StoreChunk leaves under the chunk's name is toStorage(store format, plain data): the raw bytes in
   an uncompressed store, Compress(plain) in a compressed one -- a function of the format and the plain
   bytes ONLY (not of where the chunk object came from, what it was stored into before, or what its bytes
   look like: C20_store_roundtrip above holds for EVERY plain byte string, zstd frames included, because
   the codec enters solely through the round-trip law). *)
Theorem C20_stored_object :
  forall (zcomp : bytes -> option bytes) st rs i plain s s',
  store_chunk zcomp st rs i plain s = (s', None) ->
  exists b, to_storage zcomp (st_unc st) plain = Some b /\
            stat (snd (name_from_id st i)) s' = Some (EFile meta0 b) /\
            (st_unc st = true -> b = plain) /\ (st_unc st = false -> zcomp plain = Some b).
Proof. exact store_chunk_object. Qed.
Print Assumptions C20_stored_object.

(* Coexistence: storing chunk c in format z changes nothing that a store on the same directory
   serves for any other (id, format) -- in particular for the same id in the other format.  No law
   about the codec or the digest is needed; ids are 256-bit numbers. *)
Theorem C20_coexist :
  forall (H : bytes -> id) (zcomp zdecomp : bytes -> option bytes),
  forall st rs i plain s s' st2 j,
  store_chunk zcomp st rs i plain s = (s', None) ->
  st_base st2 = st_base st -> wf_id j -> wf_id i ->
  (j <> i \/ st_unc st2 <> st_unc st) ->
  not_link (probe (snd (name_from_id st2 j)) s) ->          (* the observed name is not a symbolic link *)
  get_chunk H zdecomp st2 j s' = get_chunk H zdecomp st2 j s /\
  has_chunk st2 j s' = has_chunk st2 j s /\
  get_data H zdecomp st2 j s' = get_data H zdecomp st2 j s.
Proof. exact store_chunk_frame. Qed.
Print Assumptions C20_coexist.

(* ... and the same for RemoveChunk (for Prune and Verify see C16_prune_safe / C16_verify_exact). *)
Theorem C20_coexist_remove :
  forall (H : bytes -> id) (zdecomp : bytes -> option bytes) st j s s' st2 i,
  remove_chunk st j s = RmOk s' ->
  st_base st2 = st_base st -> wf_id i -> wf_id j ->
  (i <> j \/ st_unc st2 <> st_unc st) ->
  not_link (probe (snd (name_from_id st2 i)) s) ->
  get_chunk H zdecomp st2 i s' = get_chunk H zdecomp st2 i s /\ has_chunk st2 i s' = has_chunk st2 i s.
Proof. exact remove_chunk_frame. Qed.
Print Assumptions C20_coexist_remove.

(* Both formats in one directory: whatever Prune (local or SFTP) of a store of one format returns, the
   canonical file of EVERY id in the other format is exactly as before ... *)
Theorem C20_prune_leaves_other_format : forall tmp_rule stop (st : store) keep fuel bstr s0 s' e j,
  prune_gen tmp_rule stop fuel st bstr keep s0 = (s', e) -> wf_id j ->
  stat (snd (name_from_id (mkStore (st_base st) (negb (st_unc st)) (st_skip st)) j)) s' =
  stat (snd (name_from_id (mkStore (st_base st) (negb (st_unc st)) (st_skip st)) j)) s0.
Proof. exact prune_leaves_other_format. Qed.
Print Assumptions C20_prune_leaves_other_format.

(* ... and so it is after Verify (with or without repair), which moreover reports no id whose own-format
   file does not exist in its (existing) directory -- e.g. a chunk that is present only in the other format. *)
Theorem C20_verify_leaves_other_format :
  forall (H : bytes -> id) (zdecomp : bytes -> option bytes) (st : store) fuel bstr repair s0 s' msgs j,
  is_dir (stat (st_base st) s0) = true ->
  (forall i, not_link (probe (snd (name_from_id st i)) s0)) ->
  verify H zdecomp fuel st bstr repair s0 = (s', msgs, None) -> wf_id j ->
  stat (snd (name_from_id (mkStore (st_base st) (negb (st_unc st)) (st_skip st)) j)) s' =
  stat (snd (name_from_id (mkStore (st_base st) (negb (st_unc st)) (st_skip st)) j)) s0 /\
  (is_dir (stat (fst (name_from_id st j)) s0) = true -> stat (snd (name_from_id st j)) s0 = None ->
   ~ In j (reported msgs)).
Proof. exact verify_leaves_other_format_any. Qed.
Print Assumptions C20_verify_leaves_other_format.

(* "Serves": the HTTP chunk handler's name rule.  A request path is accepted only in the shape
   /<first 4 characters of the name>/<64 hex digits><extension of the SERVER's format>; the canonical name of
   the server's format is accepted; no path is accepted by both a compressed-chunk and an
   uncompressed-chunk server -- so a server never answers for a name of the other format. *)
Theorem C20_http_name_rule : forall comp p i, http_id_from_path comp p = Some i ->
  exists sid, p = slash :: firstn 4 sid ++ slash :: sid ++ ext_of (negb comp) /\ unhex_id sid = Some i.
Proof. exact http_path_rule. Qed.
Print Assumptions C20_http_name_rule.

Theorem C20_http_accepts_own_name : forall comp i, wf_id i ->
  http_id_from_path comp (slash :: firstn 4 (hex_id i) ++ slash :: hex_id i ++ ext_of (negb comp)) = Some i.
Proof. exact http_path_accepts_canonical. Qed.
Print Assumptions C20_http_accepts_own_name.

Theorem C20_http_names_disjoint : forall p i j,
  http_id_from_path true p = Some i -> http_id_from_path false p = Some j -> False.
Proof. exact http_paths_disjoint. Qed.
Print Assumptions C20_http_names_disjoint.

(* ---------- non-vacuity ---------- *)
Definition ex_H (b : bytes) : id := fold_right N.add 0%N b.
Definition ex_zcomp (b : bytes) : option bytes := Some (40 :: 181 :: b)%N.
Definition ex_zdecomp (b : bytes) : option bytes :=
  match b with 40 :: 181 :: r => Some r | _ => None end%N.
Definition ex_base : path := [[115]%N].                  (* "s" *)
Definition ex_c : store := mkStore ex_base false false.
Definition ex_u : store := mkStore ex_base true false.
Definition ex_s0 : node := Dir meta0 [([115]%N, Dir meta0 [])].
Definition ex_plain : bytes := [1; 2; 3]%N.
Definition ex_rs : list bytes := [[46; 49]; [46; 50]]%N. (* ".1", ".2" *)
Definition ex_s1 := fst (store_chunk ex_zcomp ex_c ex_rs 6%N ex_plain ex_s0).
Definition ex_s2 := fst (store_chunk ex_zcomp ex_u ex_rs 6%N ex_plain ex_s1).

Example C20_example_store_ok :
  snd (store_chunk ex_zcomp ex_c ex_rs 6%N ex_plain ex_s0) = None /\
  snd (store_chunk ex_zcomp ex_u ex_rs 6%N ex_plain ex_s1) = None.
Proof. vm_compute. split; reflexivity. Qed.

(* both formats of id 6 side by side: "0000/00..06.cacnk" (compressed bytes) and "0000/00..06" (raw) *)
Example C20_example_both_present :
  map (fun e => length (fst e)) (listing [] ex_s2) = [0; 1; 2; 3; 3] /\
  get_chunk ex_H ex_zdecomp ex_c 6%N ex_s2 = GetOk [40; 181; 1; 2; 3]%N /\
  get_chunk ex_H ex_zdecomp ex_u 6%N ex_s2 = GetOk [1; 2; 3]%N /\
  get_chunk ex_H ex_zdecomp ex_u 6%N ex_s1 = GetMissing /\
  has_chunk ex_u 6%N ex_s1 = HasNo /\ has_chunk ex_c 6%N ex_s1 = HasYes.
Proof. vm_compute. repeat split; reflexivity. Qed.

Example C20_example_filters :
  let nm := hex_id 6%N in
  chunk_file_id false (join_str [115]%N (nm ++ ext_of false)) (nm ++ ext_of false) = Some 6%N /\
  chunk_file_id true (join_str [115]%N (nm ++ ext_of false)) (nm ++ ext_of false) = None /\
  chunk_file_id true (join_str [115]%N nm) nm = Some 6%N /\
  chunk_file_id false (join_str [115]%N nm) nm = None.
Proof. vm_compute. repeat split; reflexivity. Qed.

(* upper-case names parse (as in Go), to the same id as the lower-case form *)
Example C20_example_upper_case :
  unhex_id (map (fun c => if (97 <=? c)%N then (c - 32)%N else c) (hex_id 171%N)) = Some 171%N.
Proof. vm_compute. reflexivity. Qed.

Example C20_example_laws :
  (forall x b, ex_zcomp x = Some b -> ex_zdecomp b = Some x) /\
  (forall x b, ex_zcomp x = Some b -> b <> []).
Proof. split; intros x b E; inversion E; [reflexivity|discriminate]. Qed.

(* a chunk whose plain bytes are themselves a frame of the example codec is compressed AGAIN and round-trips *)
Example C20_example_frame_as_content :
  let plain := [40; 181; 9; 9]%N in      (* = ex_zcomp [9; 9] *)
  let s := fst (store_chunk ex_zcomp ex_c ex_rs (ex_H plain) plain ex_s0) in
  get_chunk ex_H ex_zdecomp ex_c (ex_H plain) s = GetOk [40; 181; 40; 181; 9; 9]%N /\
  get_data ex_H ex_zdecomp ex_c (ex_H plain) s = Some plain.
Proof. vm_compute. split; reflexivity. Qed.
