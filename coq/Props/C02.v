(* C02 -- Chunking is deterministic: parallel = sequential = the rolling-hash rule.
   Only statements, [exact], Print Assumptions and Examples live here. *)
From Coq Require Import List NArith Arith.
From DS Require Import Gen.Constants Base.Bytes Base.Word32 Model.Chunker
     Model.PChunker Base.Hash Base.Sched
     Proofs.RollProofs Proofs.ChunkerSpecProofs Proofs.ChunkerImplProofs Proofs.PChunkerMain Proofs.PChunkerOld Proofs.PChunkerLive
     Model.PChunkerTrace Proofs.PChunkerTraceProofs Model.Discriminator Proofs.DiscriminatorProofs
     Model.IndexFlags Proofs.IndexFlagsProofs.
Import ListNotations.

(* The incremental hash update of Chunker.Next (rotate, xor out the byte leaving the window
   rotated by the window size, xor in the new byte) equals the hash of the shifted window,
   for the generated table and ANY window length. *)
Theorem C02_roll_correct : forall (a b : N) (w : list N),
  xor (xor (rotl (win_hash (a :: w)) 1) (rotl (T a) (N.of_nat (S (length w))))) (T b)
  = win_hash (w ++ [b]).
Proof. exact roll_correct. Qed.
Print Assumptions C02_roll_correct.

(* THE RULE (for min < max): with more than min bytes available the chunk ends at the first
   position q > min whose preceding 48-byte window hashes to the discriminator, capped at
   min(max, available); with at most min bytes left the chunk is everything. *)
Theorem C02_cut_rule : forall min max d, W <= min -> min <= max -> 0 < max ->
  forall data, min < length data -> min < max ->
  let m := Nat.min max (length data) in
  let c := cut_spec min max d data in
  min < c <= m /\
  (c < m -> bnd d data c = true) /\
  (forall q, min < q < c -> bnd d data q = false).
Proof. exact cut_rule. Qed.
Print Assumptions C02_cut_rule.

Theorem C02_cut_short : forall min max d, W <= min -> min <= max -> 0 < max ->
  forall data, length data <= min -> cut_spec min max d data = length data.
Proof. exact cut_short. Qed.
Print Assumptions C02_cut_short.

(* The chunks tile the input without gap or overlap ... *)
Theorem C02_chunks_tile : forall min max d, W <= min -> min <= max -> 0 < max ->
  forall data, concat (chunk_all min max d data) = data.
Proof. exact chunks_tile. Qed.
Print Assumptions C02_chunks_tile.

(* ... every chunk is non-empty and at most max bytes, and every chunk except the last has at
   least min bytes (strictly more unless min = max). *)
Theorem C02_chunk_size_bounds : forall min max d (Hmin : W <= min) (Hmax : min <= max) (Hpos : 0 < max),
  forall data, sizes_ok min max (chunk_all min max d data).
Proof. exact chunk_size_bounds. Qed.
Print Assumptions C02_chunk_size_bounds.

(* Chunker.Next (10*max buffer, refills, ring-buffer rolling hash, split/reset), called until it
   returns an empty chunk, yields exactly the rule's chunk sequence with consecutive start
   offsets -- for every input and every way the reader fragments its reads (short reads, 1-byte
   reads, EOF delivered with the last bytes or separately). *)
Theorem C02_next_refines_rule : forall min max d, W <= min -> min <= max -> 0 < max ->
  forall r : reader,
  map snd (chunk_impl r min max d) = chunk_all min max d (r_data r) /\
  starts_from 0 (chunk_impl r min max d).
Proof. exact chunk_impl_correct. Qed.
Print Assumptions C02_next_refines_rule.

Theorem C02_fragmentation_independent : forall min max d, W <= min -> min <= max -> 0 < max ->
  forall data frags1 eager1 frags2 eager2,
  chunk_impl {| r_data := data; r_frags := frags1; r_eager := eager1 |} min max d =
  chunk_impl {| r_data := data; r_frags := frags2; r_eager := eager2 |} min max d.
Proof. exact fragmentation_independent. Qed.
Print Assumptions C02_fragmentation_independent.

(* Self-synchronisation, the fact parallel chunking rests on: two chunkers started at offsets
   o1, o2 of one stream that each emit a chunk starting at the same absolute position emit
   identical chunks from there on. *)
Theorem C02_self_sync : forall min max d, W <= min -> min <= max -> 0 < max ->
  forall data o1 o2 k1 k2,
  o1 + total_len (firstn k1 (chunk_all min max d (skipn o1 data))) =
  o2 + total_len (firstn k2 (chunk_all min max d (skipn o2 data))) ->
  skipn k1 (chunk_all min max d (skipn o1 data)) = skipn k2 (chunk_all min max d (skipn o2 data)).
Proof. exact self_sync. Qed.
Print Assumptions C02_self_sync.

(* PARALLEL = SEQUENTIAL.  IndexFromFile as a system of n chunk workers (pChunker.start with
   syncWith, the null-chunk look-ahead and fast-forward, neighbour skipping) and the collector,
   one atomic step per channel operation / chunker call: for EVERY n >= 1 and EVERY schedule,
   once the collector is done the collected index is exactly the single-stream index (offsets and
   sizes; IDs are H of those byte ranges) -- or H collides on the all-zero chunk. *)
Theorem C02_pchunk_eq_seq : forall (H : bytes -> id) min max d data, W <= min -> min <= max -> 0 < max ->
  forall n, 1 <= n -> forall sched : list ptid,
  let s := run (pstep H min max d data false) sched (pinit max data n) in
  k_done (p_c s) = true ->
  k_out (p_c s) = seq_index min max d data \/ Collision H.
Proof. exact pchunk_eq_seq. Qed.
Print Assumptions C02_pchunk_eq_seq.

(* ... and at every moment of every run what has been collected is a prefix of it. *)
Theorem C02_pchunk_prefix : forall (H : bytes -> id) min max d data, W <= min -> min <= max -> 0 < max ->
  forall n, 1 <= n -> forall sched : list ptid,
  let s := run (pstep H min max d data false) sched (pinit max data n) in
  (exists rest, seq_index min max d data = k_out (p_c s) ++ rest) \/ Collision H.
Proof. exact pchunk_prefix. Qed.
Print Assumptions C02_pchunk_prefix.

(* The collector rule before the "fix:" commit (stop at the first worker that reached end of
   stream) is refuted by a concrete 739-step schedule on a 4564-byte all-zero file with 12 workers:
   the collector reports done with fewer chunks than the single-stream index and without
   covering the file. *)
Theorem C02_pchunk_eof_break_refuted :
  k_done (p_c old_final) = true /\
  length (k_out (p_c old_final)) < length (seq_index 100 152 120%N old_data) /\
  covered (k_out (p_c old_final)) < length old_data.
Proof. exact old_collector_loses_chunks. Qed.
Print Assumptions C02_pchunk_eof_break_refuted.

(* Non-vacuity: the generated window is 48, the table has 256 entries below 2^32; a 300-byte
   input with min 48 / max 120 / discriminator 7 is cut by rule and implementation alike,
   under 1-byte reads, into more than two chunks. *)
Example C02_window : W = 48 /\ length hashTable = 256.
Proof. split; vm_compute; reflexivity. Qed.
Definition ex_data : bytes := map (fun i => N.of_nat ((i * i + 7 * i) mod 251)) (seq 0 300).
Example C02_example :
  map (@length _) (chunk_all 48 120 7 ex_data) =
  map (fun sb => length (snd sb)) (chunk_impl {| r_data := ex_data; r_frags := repeat 1 400; r_eager := true |} 48 120 7)
  /\ 2 < length (chunk_all 48 120 7 ex_data).
Proof. vm_compute. split; [reflexivity|repeat constructor]. Qed.

(* Liveness of the same protocol.  (1) From the initial state, after ANY schedule prefix, while the
   collector is not done some thread is enabled: the protocol cannot deadlock. *)
Theorem C02_pchunk_never_stuck : forall (H : bytes -> id) min max d data, W <= min -> min <= max -> 0 < max ->
  forall n, 1 <= n -> forall sched : list ptid,
  let s := run (pstep H min max d data false) sched (pinit max data n) in
  k_done (p_c s) = false -> (exists t, pstep H min max d data false s t <> None) \/ Collision H.
Proof. exact pchunk_never_stuck. Qed.
Print Assumptions C02_pchunk_never_stuck.

(* (2) Every run made of enabled steps only has at most live_bound = n'*(7*size+3)+1 steps
   (n' the effective worker count): termination under every scheduler, no fairness needed. *)
Theorem C02_pchunk_run_bounded : forall (H : bytes -> id) min max d data, W <= min -> min <= max -> 0 < max ->
  forall n, 1 <= n -> forall (sched : list ptid) s',
  run_strict (pstep H min max d data false) sched (pinit max data n) = Some s' ->
  length sched <= live_bound max data n \/ Collision H.
Proof. exact pchunk_run_bounded. Qed.
Print Assumptions C02_pchunk_run_bounded.

(* (3) Hence a run of enabled steps that cannot be extended ends with the single-stream index. *)
Theorem C02_pchunk_maximal_run_complete : forall (H : bytes -> id) min max d data, W <= min -> min <= max -> 0 < max ->
  forall n, 1 <= n -> forall (sched : list ptid) s',
  run_strict (pstep H min max d data false) sched (pinit max data n) = Some s' ->
  (forall t, pstep H min max d data false s' t = None) ->
  k_out (p_c s') = seq_index min max d data \/ Collision H.
Proof. exact pchunk_maximal_run_complete. Qed.
Print Assumptions C02_pchunk_maximal_run_complete.

(* THE TIE of the protocol model to make.go is a trace validation: the verif build records the
   linearized sequence of channel operations of every run of IndexFromFile the harness makes
   (sends, syncWith receives and misses, skip decisions, close(done), collector receives / moves /
   stop), and the extracted [replay] follows it on the model step by step.  An accepted trace is
   an execution of the model, so everything proved for every schedule holds of that run: *)
Theorem C02_trace_valid_index : forall (H : bytes -> id) min max d data, W <= min -> min <= max -> 0 < max ->
  forall n evs s', 1 <= n ->
  replay H min max d data 0 evs (pinit max data n) = inl s' ->
  k_done (p_c (finish data s')) = true ->
  k_out (p_c (finish data s')) = seq_index min max d data \/ Collision H.
Proof. intros H min max d data Hmin Hmax Hpos n evs s'. exact (trace_valid_index H min max d data Hmin Hmax Hpos n evs s'). Qed.
Print Assumptions C02_trace_valid_index.

(* ... and "follows" means the same visible effect: a model step matched with a recorded send
   appends exactly that chunk to the worker's bucket; one matched with a recorded receive takes
   exactly that chunk from the head of the next worker's bucket and makes it its sync chunk
   (likewise label_empty_sound, label_exit_sound, label_skip_sound in Proofs/PChunkerTraceProofs.v). *)
Theorem C02_trace_send_sound : forall (H : bytes -> id) min max d data s i c s',
  label_worker min max d data s i = LSend c -> step_worker H min max d data s i = Some s' ->
  w_emit (getw s' i) = w_emit (getw s i) ++ [c].
Proof. exact label_send_sound. Qed.
Print Assumptions C02_trace_send_sound.

Theorem C02_trace_recv_sound : forall (H : bytes -> id) min max d data s i j v s',
  label_worker min max d data s i = LRecv j v -> step_worker H min max d data s i = Some s' ->
  j = w_next (getw s i) /\ bucket_head (getw s j) = Some v /\
  (i <> j -> j < nworkers s -> w_cons (getw s' j) = S (w_cons (getw s j)) /\ w_sync (getw s' j) = Some v).
Proof. exact label_recv_sound. Qed.
Print Assumptions C02_trace_recv_sound.

(* IDs of the synthetic null chunks.  make.go does not hash them: it records the null chunk's ID.
   In every reachable state, a worker that is about to emit one (pc After c k with max <= k) is
   looking at max zero bytes, so that ID is the digest of the chunk's bytes. *)
Theorem C02_pchunk_synthetic_null : forall (H : bytes -> id) min max d data, W <= min -> min <= max -> 0 < max ->
  forall n, 1 <= n -> forall (sched : list ptid) i c k,
  let s := run (pstep H min max d data false) sched (pinit max data n) in
  i < nworkers s -> w_pc (getw s i) = After c k -> max <= k ->
  (slice data (c_end c) max = repeat 0%N max /\ c_end c + max <= length data) \/ Collision H.
Proof. exact pchunk_synthetic_null. Qed.
Print Assumptions C02_pchunk_synthetic_null.

(* THE DISCRIMINATOR.  casync derives it from the average chunk size; the model is the exact
   quotient avg*10^15 / (133237515*10^7 - 142888852*avg) (= avg / (1.33237515 - 1.42888852e-7*avg),
   truncated), compared with discriminatorFromAvg on every run (all avg 48..4096, all KiB multiples
   up to 8 MiB, random values below 9,000,000; exhaustively equal to the float64 evaluation on
   1..9,000,000).  In that range it is a positive 32-bit number -- the premise 1 <= d of the
   chunker theorems -- and monotone in avg. *)
Theorem C02_disc_range : forall avg : N, (2 <= avg)%N -> (avg <= disc_avg_limit)%N ->
  (1 <= disc_of_avg avg /\ disc_of_avg avg < 2 ^ 32)%N.
Proof. exact disc_range. Qed.
Print Assumptions C02_disc_range.

Theorem C02_disc_monotone : forall a b : N, (a <= b)%N -> (b <= disc_avg_limit)%N ->
  (disc_of_avg a <= disc_of_avg b)%N.
Proof. exact disc_monotone. Qed.
Print Assumptions C02_disc_monotone.

(* "RECORDS THE CORRECT ... PARAMETERS": the feature flags of the index IndexFromFile returns
   (make.go; both flag expressions are regenerated from the source on every run).  Whatever the
   input file's catar header claims, the digest flag of the index says which digest made the chunk
   ids; so the configuration that made the index can read it back, a configuration with the other
   digest refuses it, and no other flag of the catar is lost. *)
Theorem C02_index_flags_digest_bit : forall d512 catar, has_digest_bit (index_flags d512 catar) = d512.
Proof. exact index_flags_digest_bit. Qed.
Print Assumptions C02_index_flags_digest_bit.

Theorem C02_made_index_is_readable : forall d512 catar, reader_accepts d512 (index_flags d512 catar) = true.
Proof. exact made_index_is_readable. Qed.
Print Assumptions C02_made_index_is_readable.

Theorem C02_made_index_refused_by_other_digest : forall d512 catar,
  reader_accepts (negb d512) (index_flags d512 catar) = false.
Proof. exact made_index_refused_by_other_digest. Qed.
Print Assumptions C02_made_index_refused_by_other_digest.

Theorem C02_index_flags_keeps_catar_flags : forall d512 t,
  N.ldiff (index_flags d512 (Some t)) CaFormatSHA512256
  = N.ldiff (N.lor CaFormatExcludeNoDump t) CaFormatSHA512256.
Proof. exact index_flags_keeps_catar_flags. Qed.
Print Assumptions C02_index_flags_keeps_catar_flags.

Example C02_flags_example :
  index_flags false (Some TarFeatureFlags) = 0x9000000010001f22%N /\ index_flags true (Some TarFeatureFlags) = TarFeatureFlags /\
  index_flags false None = CaFormatExcludeNoDump.
Proof. vm_compute. repeat split. Qed.

(* RUNS OF ONE BYTE VALUE.  Every window inside such a run is the same, so the rule cuts after
   min+1 bytes when the discriminator meets that window's hash ("resonant" parameters) and does
   not cut at all otherwise.  "A zero run contains no boundary" -- the assumption behind the null
   chunk -- is true exactly in the second case; for zero runs avg = 5251 is resonant (the harness
   derives the resonant avgs of several byte values from the generated table and chunks runs with
   them). *)
Theorem C02_cut_constant_run : forall min max d, W <= min -> min <= max -> 0 < max ->
  forall b n, min < n -> min < max ->
  cut_spec min max d (repeat b n) = if is_boundary d (win_hash (repeat b W)) then S min else Nat.min max n.
Proof. exact cut_constant_run. Qed.
Print Assumptions C02_cut_constant_run.

Example C02_zero_run_resonance :
  is_boundary (disc_of_avg 5251) (win_hash (repeat 0%N W)) = true /\
  is_boundary (disc_of_avg 65536) (win_hash (repeat 0%N W)) = false /\
  disc_of_avg 5251 = 3943%N /\ win_hash (repeat 0%N W) = 0x9e489e48%N.
Proof. vm_compute. repeat split. Qed.
