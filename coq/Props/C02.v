From DS Require Import Model.Chunker.
