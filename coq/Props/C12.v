(* C12 -- request de-duplication is safe under every interleaving.
   Only statements, [exact], and Print Assumptions live here.

   [step up] is the transition system of Model/Dedup.v: one thread per caller of DedupQueue.GetChunk /
   HasChunk, WriteDedupQueue.StoreChunk / GetChunk; [up : nat -> uout] is the upstream store (outcome of its
   n-th call: data, missing or error), arbitrary; [calls] are the callers (any number, any ids);
   [sched : list nat] is the interleaving (any list of thread numbers; a thread that cannot move stutters). *)
From Coq Require Import List Arith Bool.
From DS Require Import Base.Sched Model.Dedup Proofs.DedupProofs.
Import ListNotations.

(* At most one upstream request per (queue kind, chunk id) is between call and return, under every schedule. *)
Theorem C12_dedup_single_flight : forall (up : nat -> uout) (calls : list call) (sched : list nat) (k : kind) (d : id),
  in_flight (run (step up) sched (init calls)) k d <= 1.
Proof. exact single_flight. Qed.
Print Assumptions C12_dedup_single_flight.

(* No deadlock and no lost wake-up: in every reachable state in which some caller has not returned, some
   caller can take a step (a follower only ever waits on a record that is done or whose leader can move). *)
Theorem C12_dedup_no_deadlock : forall (up : nat -> uout) (calls : list call) (sched : list nat),
  let s := run (step up) sched (init calls) in
  final s = false -> exists i, step up s i <> None.
Proof. exact deadlock_free. Qed.
Print Assumptions C12_dedup_no_deadlock.

(* Every caller returns: a run that schedules only callers that can move takes at most 7 steps per caller
   (no fairness assumption), and when no caller can move any more every caller has returned. *)
Theorem C12_dedup_all_return : forall (up : nat -> uout) (calls : list call) (sched : list nat) (s' : state),
  run_strict (step up) sched (init calls) = Some s' ->
  length sched <= 7 * length calls /\ ((forall i, step up s' i = None) -> final s' = true).
Proof. exact all_return. Qed.
Print Assumptions C12_dedup_all_return.
