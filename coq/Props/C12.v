(* C12 -- request de-duplication is safe under every interleaving.
   Only statements, [exact], and Print Assumptions live here.

   [step up] is the transition system of Model/Dedup.v: one thread per caller of DedupQueue.GetChunk /
   HasChunk, WriteDedupQueue.StoreChunk / GetChunk; [up : nat -> uout] is the upstream store (outcome of its
   n-th call: data, missing or error), arbitrary; [calls] are the callers (any number, any ids);
   [sched : list nat] is the interleaving (any list of thread numbers; a thread that cannot move stutters). *)
From Coq Require Import List Arith Bool.
From DS Require Import Base.Sched Model.Dedup Proofs.DedupProofs.
Import ListNotations.

(* At most one upstream request per (queue kind, chunk id) is between call and return, under every schedule. *)
Theorem C12_dedup_single_flight : forall (up : nat -> uout) (calls : list call) (sched : list nat) (k : kind) (d : id),
  in_flight (run (step up) sched (init calls)) k d <= 1.
Proof. exact single_flight. Qed.
Print Assumptions C12_dedup_single_flight.

(* No deadlock and no lost wake-up: in every reachable state in which some caller has not returned, some
   caller can take a step (a follower only ever waits on a record that is done or whose leader can move). *)
Theorem C12_dedup_no_deadlock : forall (up : nat -> uout) (calls : list call) (sched : list nat),
  let s := run (step up) sched (init calls) in
  final s = false -> exists i, step up s i <> None.
Proof. exact deadlock_free. Qed.
Print Assumptions C12_dedup_no_deadlock.

(* Every caller returns: a run that schedules only callers that can move takes at most 7 steps per caller
   (no fairness assumption), and when no caller can move any more every caller has returned. *)
Theorem C12_dedup_all_return : forall (up : nat -> uout) (calls : list call) (sched : list nat) (s' : state),
  run_strict (step up) sched (init calls) = Some s' ->
  length sched <= 7 * length calls /\ ((forall i, step up s' i = None) -> final s' = true).
Proof. exact all_return. Qed.
Print Assumptions C12_dedup_all_return.

(* Every answer is the result of exactly one upstream request, and the request's leader was active during the
   caller's call.  For a caller i that has returned [res]:  it obtained a record r (from loadOrStore, or from the
   peek of the store queue) of its own chunk and queue; r has exactly one upstream call n (no other upstream call
   belongs to r); [res] is that call's outcome [up n] as the code hands it out ([interp] = the (data, err) pair
   given to markDone, [project] = StoreChunk returning only the error); and there is a logical time tau with
     start(i) <= tau < return(i)   and   registration(r) <= tau < removal(r)
   i.e. the caller's interval overlaps the leader's interval [loadOrStore, delete) -- the interval that contains
   the upstream call. *)
Theorem C12_dedup_result : forall (up : nat -> uout) (calls : list call) (sched : list nat) (i : nat) (res : result),
  let s := run (step up) sched (init calls) in
  answer s i = Some res ->
  exists t r q n u tl tau st rt,
    nth_error (thr s) i = Some t /\ t_req t = Some r /\ nth_error (reqs s) r = Some q /\
    q_id q = c_id (t_call t) /\
    (q_kind q = kind_of (c_op (t_call t)) \/ (q_kind q = QStore /\ c_op (t_call t) = CWGet)) /\
    q_up q = Some n /\ nth_error (ups s) n = Some u /\ u_req u = r /\ u_kind u = q_kind q /\ u_id u = q_id q /\
    (forall m u', nth_error (ups s) m = Some u' -> u_req u' = r -> m = n) /\
    u_by u = q_leader q /\ nth_error (thr s) (q_leader q) = Some tl /\
    res = project (c_op (t_call t)) (interp (q_kind q) (stored_tag (c_op (t_call tl))) n (up n)) /\
    t_start t = Some st /\ t_ret t = Some rt /\ st <= tau /\ tau < rt /\
    q_reg q <= tau /\ (forall dl, q_del q = Some dl -> tau < dl).
Proof. exact dedup_result. Qed.
Print Assumptions C12_dedup_result.

(* A result is not handed out again after the request that produced it has returned: the removal of a record
   from the queue and its leader's return are one step (time dl), and a caller that obtained the record had
   started before dl.  Hence a caller that starts after the leader returned never obtains its record. *)
Theorem C12_dedup_no_reuse : forall (up : nat -> uout) (calls : list call) (sched : list nat) i t r q dl st,
  let s := run (step up) sched (init calls) in
  nth_error (thr s) i = Some t -> t_req t = Some r -> nth_error (reqs s) r = Some q ->
  q_del q = Some dl -> t_start t = Some st -> st < dl.
Proof. exact dedup_no_reuse. Qed.
Print Assumptions C12_dedup_no_reuse.

Theorem C12_dedup_removal_is_leader_return : forall (up : nat -> uout) (calls : list call) (sched : list nat) r q dl,
  let s := run (step up) sched (init calls) in
  nth_error (reqs s) r = Some q -> q_del q = Some dl ->
  exists tl, nth_error (thr s) (q_leader q) = Some tl /\ t_ret tl = Some dl.
Proof. exact dedup_del_is_leader_return. Qed.
Print Assumptions C12_dedup_removal_is_leader_return.

(* WriteDedupQueue.GetChunk that found a StoreChunk of the chunk in flight returns exactly the chunk being
   stored (the leader's chunk) together with the store's error, if any. *)
Theorem C12_wdq_read_sees_write : forall (up : nat -> uout) (calls : list call) (sched : list nat) i t r q res,
  let s := run (step up) sched (init calls) in
  nth_error (thr s) i = Some t -> c_op (t_call t) = CWGet -> t_req t = Some r ->
  nth_error (reqs s) r = Some q -> q_kind q = QStore -> answer s i = Some res ->
  exists tl tg n, nth_error (thr s) (q_leader q) = Some tl /\ c_op (t_call tl) = CStore tg /\
    c_id (t_call tl) = c_id (t_call t) /\ q_up q = Some n /\
    res = (VChunk tg, match up n with UFail => XErr n | _ => XNil end).
Proof. exact wdq_read_sees_write. Qed.
Print Assumptions C12_wdq_read_sees_write.

(* The STRICT reading of "an upstream request that was in flight during its own call" -- overlap with the
   upstream call proper, [u_call, u_ret] -- is false for the code as it is and for any implementation whose
   bookkeeping follows the upstream return: a caller that arrives between the upstream return (here at time 2)
   and queue.delete (here: it starts at time 4) is handed the finished result.  Not a violation: see
   C12_dedup_result for what holds (overlap with the leader's interval) and props/C12.json. *)
Theorem C12_dedup_strict_overlap_refuted :
  exists up calls sched i res t r q n u st ur,
    let s := run (step up) sched (init calls) in
    final s = true /\
    answer s i = Some res /\ nth_error (thr s) i = Some t /\ t_req t = Some r /\
    nth_error (reqs s) r = Some q /\ q_up q = Some n /\ nth_error (ups s) n = Some u /\
    t_start t = Some st /\ u_ret u = Some ur /\ ur < st.
Proof. exact strict_overlap_refuted. Qed.
Print Assumptions C12_dedup_strict_overlap_refuted.

(* Non-vacuity. Three GetChunk callers of one chunk and one of another: one upstream call per chunk;
   both followers get the leader's data. *)
Definition ex_calls : list call :=
  [ {| c_op := CGet; c_id := 0 |}; {| c_op := CGet; c_id := 0 |}; {| c_op := CGet; c_id := 1 |}; {| c_op := CGet; c_id := 0 |} ].
Definition ex_up : nat -> uout := fun n => UOk (100 + n).
Definition ex_sched : list nat := [0; 1; 0; 2; 3; 2; 2; 0; 0; 1; 2; 3; 0; 2].
Example C12_example_run :
  let s := run (step ex_up) ex_sched (init ex_calls) in
  final s = true /\ length (ups s) = 2 /\
  map (answer s) [0; 1; 2; 3] =
    [Some (VChunk 100, XNil); Some (VChunk 100, XNil); Some (VChunk 101, XNil); Some (VChunk 100, XNil)].
Proof. vm_compute. repeat split. Qed.

(* A StoreChunk and a concurrent WriteDedupQueue.GetChunk of the same chunk: the read returns the chunk being
   stored (data copy 7) and the store's error (upstream call 0 fails). *)
Example C12_example_read_sees_write :
  let s := run (step (fun _ => UFail)) [0; 1; 0; 0; 0; 1; 0]
               (init [ {| c_op := CStore 7; c_id := 3 |}; {| c_op := CWGet; c_id := 3 |} ]) in
  final s = true /\ answer s 0 = Some (VNil, XErr 0) /\ answer s 1 = Some (VChunk 7, XErr 0) /\ length (ups s) = 1.
Proof. vm_compute. repeat split. Qed.

(* A waiting follower is not enabled, its leader is: the deadlock-freedom hypothesis is satisfiable. *)
Example C12_example_blocked_follower :
  let s := run (step ex_up) [0; 1] (init ex_calls) in
  final s = false /\ step ex_up s 1 = None /\ step ex_up s 0 <> None.
Proof. vm_compute. repeat split. discriminate. Qed.
