(* C10 -- copy-on-read sparse files return the blob's bytes or an error, never stale zeros.
   Only statements, [exact], Print Assumptions and Examples live here.
   Model: Model/Sparse.v (sparse-file.go). *)
From Coq Require Import List NArith ZArith Arith.
From DS Require Import Base.Bytes Base.Hash Base.Sched Model.ReadSeeker Model.Sparse Proofs.SparseProofs.
Import ListNotations.
Local Open Scope Z_scope.

(* loadRange's scan under the read lock: the chunks it decides to load are exactly those of first..last that are
   neither marked done nor the null chunk; it indexes out of range (a Go panic) exactly when first..last is a
   non-empty interval that leaves [0, n). *)
Theorem C10_needed_spec : forall idx nullid done first last,
  match needed idx nullid done first last with
  | Some todo =>
      (last < first \/ (0 <= first /\ last < Z.of_nat (length idx))) /\
      forall k, In k todo <-> (first <= Z.of_nat k <= last /\ nth k done false = false /\
                                N.eqb (r_id (nth k idx row0)) nullid = false)
  | None => first <= last /\ (first < 0 \/ Z.of_nat (length idx) <= last)
  end.
Proof. exact needed_spec. Qed.
Print Assumptions C10_needed_spec.

(* ---- concrete runs of the model (vm_compute): non-vacuity and the findings ---- *)
Definition ex_H (b : bytes) : id := fold_left (fun a x => (a * 257 + x + 1)%N) b 0%N.
Definition ex_blob : bytes := [5; 6; 0; 0; 0; 0; 9]%N.
Definition ex_row (st sz : N) : row := mkrow (ex_H (slice ex_blob (N.to_nat st) (N.to_nat sz))) st sz.
Definition ex_idx : index := [ex_row 0 2; ex_row 2 2; ex_row 4 2; ex_row 6 1].
Definition ex_null : id := snd (new_null_chunk ex_H 2).
(* the store fails its first call (code 2) and answers correctly afterwards *)
Definition ex_store : store_t := fun k i =>
  if (k =? 0)%nat then SFail 2
  else match find (fun r => N.eqb (r_id r) i) ex_idx with
       | Some r => SData (chunk_of ex_blob r)
       | None => SFail 1
       end.
Definition ex_run (sched : list label) : sstate := run (step ex_idx ex_null ex_store) sched (init ex_idx).
Definition T0x (k : nat) : list label := repeat (LThread 0) k.

(* A failed load is retried: the first ReadAt fails with the store's error, the second returns the blob's bytes
   (never the zeros of the unpopulated file); the null chunks in the middle cost no store call. *)
Example C10_example_retry :
  let s := ex_run ([LSubmit 0 (RqRead 0 7)] ++ T0x 12 ++ [LSubmit 0 (RqRead 0 7)] ++ T0x 12) in
  s_log s = [(RqRead 0 7, ROk ex_blob false); (RqRead 0 7, RErr (XStore 2))] /\ s_calls s = 3%nat /\
  s_done s = [true; false; false; true].
Proof. vm_compute. repeat split. Qed.

(* FINDING (zero-length read at the end): indexRange returns first = len(chunks) and loadRange indexes past the end. *)
Example C10_zero_length_read_at_eof_panics :
  s_crashed (ex_run [LSubmit 0 (RqRead 7 0); LThread 0]) = true.
Proof. vm_compute. reflexivity. Qed.

(* FINDING (empty index): every ReadAt indexes an empty bitmap / chunk list. *)
Example C10_empty_index_read_panics :
  s_crashed (run (step [] ex_null ex_store) [LSubmit 0 (RqRead 0 1); LThread 0] (init [])) = true /\
  s_crashed (run (step [] ex_null ex_store) [LSubmit 0 (RqRead 0 0); LThread 0] (init [])) = true.
Proof. vm_compute. split; reflexivity. Qed.

(* FINDING (stale state file): populate and save; the cache file is lost; the next start ignores the state (size
   mismatch) and recreates a blank full-size cache but leaves the state file in place; it is killed before
   rewriting it; the start after that loads the old state over the blank cache: ReadAt returns zeros with no error. *)
Example C10_stale_state_returns_zeros :
  let s := ex_run ([LSubmit 0 (RqRead 0 7)] ++ T0x 12 ++ [LSubmit 0 (RqRead 0 7)] ++ T0x 12 ++ [LSubmit 0 RqSave; LThread 0] ++
                   [LRestart (mkmode true CAbsent false); LRestart (mkmode true CKeep false);
                    LSubmit 0 (RqRead 0 7)] ++ T0x 3) in
  hd_error (s_log s) = Some (RqRead 0 7, ROk [0; 0; 0; 0; 0; 0; 0]%N false) /\ s_stale s = true.
Proof. vm_compute. split; reflexivity. Qed.
