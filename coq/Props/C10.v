(* C10 -- copy-on-read sparse files return the blob's bytes or an error, never stale zeros.
   Only statements, [exact], Print Assumptions and Examples live here.
   Model: Model/Sparse.v (sparse-file.go). *)
From Coq Require Import List NArith ZArith Arith.
From DS Require Import Base.Bytes Base.Hash Base.Sched Model.ReadSeeker Model.Sparse Model.SparsePre Model.SparseOnce
     Proofs.SparseProofs.
Import ListNotations.
Local Open Scope Z_scope.

(* loadRange's scan under the read lock: the chunks it decides to load are exactly those of first..last that are
   neither marked done nor the null chunk; it indexes out of range (a Go panic) exactly when first..last is a
   non-empty interval that leaves [0, n). *)
Theorem C10_needed_spec : forall idx nullid done first last,
  match needed idx nullid done first last with
  | Some todo =>
      (last < first \/ (0 <= first /\ last < Z.of_nat (length idx))) /\
      forall k, In k todo <-> (first <= Z.of_nat k <= last /\ nth k done false = false /\
                                N.eqb (r_id (nth k idx row0)) nullid = false)
  | None => first <= last /\ (first < 0 \/ Z.of_nat (length idx) <= last)
  end.
Proof. exact needed_spec. Qed.
Print Assumptions C10_needed_spec.

(* indexRange: for a non-empty buffer the interval first..last contains every chunk that overlaps
   [off, off+len) (off >= 0, no uint64 wrap). *)
Theorem C10_index_range_covers : forall idx off len,
  tiles_from 0 idx -> 0 <= off -> (1 <= len)%nat -> off + Z.of_nat len < two64 ->
  exists first last, index_range idx off (Z.of_nat len) = Some (first, last) /\
    forall j r, nth_error idx j = Some r -> Z.of_N (r_start r) < off + Z.of_nat len -> off < r_end r ->
                first <= Z.of_nat j <= last.
Proof. exact index_range_covers. Qed.
Print Assumptions C10_index_range_covers.

(* sparse_inv.  A schedule is any list of labels: one atomic step of goroutine k (reader, preload worker or
   WriteState caller), a new request handed to a goroutine (creating it if needed), or a restart of the process at
   any moment -- a kill of the running process included -- with any combination of {state file readable or not,
   cache file kept / deleted / truncated or extended, preload} -- successful, or FAILING after it replaced the state and
   resized the cache file (LFailedStart; a start-up that fails before that has changed nothing and is no step), or
   with a SEPARATE init state file holding ANY bitmap (LRestartInit: the pre-loader calls loadChunk for every set bit,
   null chunks included).  These
   are all the restarts the code can perform on what it and such events left behind; an external party REPLACING THE
   CONTENT of the cache or state file is not a label.  For EVERY schedule, every fault pattern of a sound store and
   any number of goroutines the loader invariant holds (or H collides): a set done bit or a null chunk means the range
   holds the chunk; the saved state never claims more than the cache file holds (start-up rewrites the state whenever
   it does not load it); every completed ReadAt returned the blob's bytes. *)
Theorem C10_sparse_inv : forall H idx blob maxsz store sched,
  index_describes H idx blob -> store_sound H store ->
  let nullid := snd (new_null_chunk H maxsz) in
  loader_inv idx nullid blob (run (step idx nullid store) sched (init idx)) \/ Collision H.
Proof. exact sparse_inv. Qed.
Print Assumptions C10_sparse_inv.

(* sparse_read_sound.  Spelled out for one ReadAt: whatever happened before and concurrently (interleavings,
   transient store failures, WriteState at any point, every restart of the kind above, preload), a ReadAt(len, off)
   that reports success (nil or io.EOF) returned exactly blob[off, off+n) with n = min(len, L-off) and io.EOF iff
   n < len -- never the zeros of an unpopulated range.  No premise on the schedule, none on the store's error values:
   a store error that IS io.EOF is reported as io.ErrUnexpectedEOF (61c4b65; before: C10_store_eof_refuted), one that
   wraps io.EOF is passed on as it is. *)
Theorem C10_sparse_read_sound : forall H idx blob maxsz store sched off len d eof,
  index_describes H idx blob -> store_sound H store ->
  let nullid := snd (new_null_chunk H maxsz) in
  In (RqRead off len, ROk d eof) (s_log (run (step idx nullid store) sched (init idx))) ->
  off + Z.of_nat len < two64 ->
  (0 <= off /\ d = slice blob (Z.to_nat off) (length d) /\
   length d = Nat.min len (length blob - Z.to_nat off) /\ eof = (length d <? len)%nat) \/ Collision H.
Proof. exact sparse_read_sound. Qed.
Print Assumptions C10_sparse_read_sound.

(* sparse_retry, step level: a failed GetChunk leaves the done bits and the file unchanged, frees the chunk's mutex and
   gives a reader the store's error.  With C10_needed_spec (a chunk that is neither done nor null is on the load list
   of every later read that covers it) and C10_sparse_read_sound: the next read of that range calls the store again
   or fails.  (In the old sync.Once code the second caller skipped the load; see known-findings.d/C10.json.) *)
Theorem C10_sparse_failed_load : forall idx nullid store s k th i todo rq q c,
  s_crashed s = false -> nth_error (s_threads s) k = Some th ->
  pc th = Some (PFetch i todo) -> queue th = rq :: q ->
  store (s_calls s) (r_id (nth i idx row0)) = SFail c ->
  exists s', step idx nullid store s (LThread k) = Some s' /\
    s_done s' = s_done s /\ s_file s' = s_file s /\ s_calls s' = S (s_calls s) /\
    s_mutex s' = set_nth (s_mutex s) i false /\
    nth_error (s_threads s') k = Some (mkthread q None) /\
    s_log s' = (rq, match rq with RqRead _ _ => read_error (XStore c) | _ => RDone end) :: s_log s.
Proof. exact sparse_failed_load. Qed.
Print Assumptions C10_sparse_failed_load.

(* sparse_retry.  For EVERY schedule -- here with every restart allowed, paired or not -- and every fault pattern:
   a ReadAt with a non-empty buffer that reported success is backed, for every chunk it covers that is not the null
   chunk, by a GetChunk call for that chunk that SUCCEEDED and whose data was written (s_fetched records the call
   number), in this or an earlier incarnation.  A failed load is not such a call, and by C10_sparse_failed_load it
   leaves no done bit: after a failed load a later read of that range calls the store again, or is served by another
   successful call, or fails -- it never succeeds on the unpopulated zeros. *)
Theorem C10_sparse_retry : forall idx nullid store sched off len d eof,
  tiles_from 0 idx ->
  let s := run (step idx nullid store) sched (init idx) in
  In (RqRead off len, ROk d eof) (s_log s) ->
  0 <= off -> (1 <= len)%nat -> off + Z.of_nat len < two64 ->
  forall j r, nth_error idx j = Some r -> row_overlaps r off len ->
    r_id r = nullid \/ exists c d', In (c, j) (s_fetched s) /\ store c (r_id r) = SData d'.
Proof. exact sparse_retry. Qed.
Print Assumptions C10_sparse_retry.

(* No index-out-of-range panic: for every index that tiles (the EMPTY one included), every request (empty buffers and
   offsets at, past or before the ends included), every schedule, store and restart sequence. *)
Theorem C10_sparse_no_panic : forall idx nullid store sched,
  tiles_from 0 idx ->
  s_crashed (run (step idx nullid store) sched (init idx)) = false.
Proof. exact sparse_no_panic. Qed.
Print Assumptions C10_sparse_no_panic.

(* ---- concrete runs of the model (vm_compute): non-vacuity and the findings ---- *)
Definition ex_H (b : bytes) : id := fold_left (fun a x => (a * 257 + x + 1)%N) b 0%N.
Definition ex_blob : bytes := [5; 6; 0; 0; 0; 0; 9]%N.
Definition ex_row (st sz : N) : row := mkrow (ex_H (slice ex_blob (N.to_nat st) (N.to_nat sz))) st sz.
Definition ex_idx : index := [ex_row 0 2; ex_row 2 2; ex_row 4 2; ex_row 6 1].
Definition ex_null : id := snd (new_null_chunk ex_H 2).
(* the store fails its first call (code 2) and answers correctly afterwards *)
Definition ex_store : store_t := fun k i =>
  if (k =? 0)%nat then SFail 2
  else match find (fun r => N.eqb (r_id r) i) ex_idx with
       | Some r => SData (chunk_of ex_blob r)
       | None => SFail 1
       end.
Definition ex_run (sched : list label) : sstate := run (step ex_idx ex_null ex_store) sched (init ex_idx).
Example C10_example_describes : index_describes ex_H ex_idx ex_blob.
Proof. repeat split; repeat constructor. Qed.
Example C10_example_sound : store_sound ex_H ex_store.
Proof.
  intros k i d. unfold ex_store. destruct (k =? 0)%nat; [discriminate|].
  destruct (find (fun r => N.eqb (r_id r) i) ex_idx) as [r|] eqn:E; [|discriminate].
  intros E2. inversion E2; subst d. apply find_some in E. destruct E as [Hin Hid]. apply N.eqb_eq in Hid. subst i.
  cbn in Hin. repeat (destruct Hin as [<-|Hin]; [vm_compute; reflexivity|]). contradiction.
Qed.
Definition T0x (k : nat) : list label := repeat (LThread 0) k.

(* A failed load is retried: the first ReadAt fails with the store's error, the second returns the blob's bytes
   (never the zeros of the unpopulated file); the null chunks in the middle cost no store call. *)
Example C10_example_retry :
  let s := ex_run ([LSubmit 0 (RqRead 0 7)] ++ T0x 12 ++ [LSubmit 0 (RqRead 0 7)] ++ T0x 12) in
  s_log s = [(RqRead 0 7, ROk ex_blob false); (RqRead 0 7, RErr (XStore 2))] /\ s_calls s = 3%nat /\
  s_done s = [true; false; false; true].
Proof. vm_compute. repeat split. Qed.

(* The three defects found by this check on the tree before 2f69527 / 0331e86, as theorems about the PRE-fix model
   variants (Model/SparsePre.v; bin/check reproduces each on the code with the commit reverted), each next to the same
   schedule on the current model. *)
Definition pre_run (fix_range fix_state : bool) (idx : index) (sched : list label) : sstate :=
  run (step_pre idx ex_null ex_store fix_range fix_state true) sched (init idx).

(* before 2f69527: a zero-length ReadAt at (or past) the end indexes chunks[len(chunks)] *)
Theorem C10_zero_length_read_at_eof_refuted :
  exists sched, s_crashed (pre_run false true ex_idx sched) = true.
Proof. exists [LSubmit 0 (RqRead 7 0); LThread 0]. vm_compute. reflexivity. Qed.
Example C10_zero_length_read_at_eof_now :
  let s := ex_run ([LSubmit 0 (RqRead 7 0)] ++ T0x 8 ++ [LSubmit 0 (RqRead 9 0)] ++ T0x 8) in
  (* it loads the last chunk: the first attempt meets the store's one failure, no panic either way *)
  s_crashed s = false /\ s_log s = [(RqRead 9 0, ROk [] false); (RqRead 7 0, RErr (XStore 2))].
Proof. vm_compute. split; reflexivity. Qed.

(* before 2f69527: every ReadAt on an index without chunks indexes the empty bitmap *)
Theorem C10_empty_index_read_refuted :
  exists sched, s_crashed (pre_run false true [] sched) = true.
Proof. exists [LSubmit 0 (RqRead 0 1); LThread 0]. vm_compute. reflexivity. Qed.
Example C10_empty_index_read_now :
  let s := run (step [] ex_null ex_store) ([LSubmit 0 (RqRead 0 1); LSubmit 0 (RqRead 0 0); LSubmit 0 (RqRead 3 2)] ++ T0x 6) (init []) in
  s_crashed s = false /\
  s_log s = [(RqRead 3 2, ROk [] true); (RqRead 0 0, ROk [] false); (RqRead 0 1, ROk [] true)] /\ s_calls s = 0%nat.
Proof. vm_compute. repeat split. Qed.

(* before 0331e86: populate and save; the cache file is lost; the next start ignores the state (size mismatch) and
   re-creates a blank full-size cache but leaves the state file in place; it ends without WriteState; the start after
   that loads the old state over the blank cache: ReadAt returns zeros with no error. *)
Definition stale_sched : list label :=
  [LSubmit 0 (RqRead 0 7)] ++ T0x 12 ++ [LSubmit 0 (RqRead 0 7)] ++ T0x 12 ++ [LSubmit 0 RqSave; LThread 0] ++
  [LRestart (mkmode true CAbsent false); LRestart (mkmode true CKeep false); LSubmit 0 (RqRead 0 7)] ++ T0x 12.
Theorem C10_stale_state_refuted :
  exists sched d eof, hd_error (s_log (pre_run true false ex_idx sched)) = Some (RqRead 0 7, ROk d eof) /\
                      d <> slice ex_blob 0 7.
Proof. exists stale_sched, [0; 0; 0; 0; 0; 0; 0]%N, false. vm_compute. split; [reflexivity|discriminate]. Qed.
Example C10_stale_state_now :
  hd_error (s_log (ex_run stale_sched)) = Some (RqRead 0 7, ROk ex_blob false) /\
  s_saved (ex_run stale_sched) = Some [false; false; false; false].
Proof. vm_compute. split; reflexivity. Qed.

(* before the start-up reordering: a start-up that FAILED (init file missing or of the wrong length) had already brought
   the re-created cache file to full size but not yet replaced the state: the next start adopted the old state over the
   blank cache.  (Same schedule with LFailedStart instead of the first restart.) *)
Definition failed_start_sched : list label :=
  [LSubmit 0 (RqRead 0 7)] ++ T0x 12 ++ [LSubmit 0 (RqRead 0 7)] ++ T0x 12 ++ [LSubmit 0 RqSave; LThread 0] ++
  [LFailedStart (mkmode true CAbsent true); LRestart (mkmode true CKeep false); LSubmit 0 (RqRead 0 7)] ++ T0x 12.
Theorem C10_failed_start_refuted :
  exists sched d eof, hd_error (s_log (pre_run true false ex_idx sched)) = Some (RqRead 0 7, ROk d eof) /\
                      d <> slice ex_blob 0 7.
Proof. exists failed_start_sched, [0; 0; 0; 0; 0; 0; 0]%N, false. vm_compute. split; [reflexivity|discriminate]. Qed.
Example C10_failed_start_now :
  hd_error (s_log (ex_run failed_start_sched)) = Some (RqRead 0 7, ROk ex_blob false).
Proof. vm_compute. reflexivity. Qed.

(* Two readers on the same range, the first parked between WriteAt and done.Set while the second arrives, a
   WriteState in between (the state must not yet contain the chunk), then a kill and a restart on cache + state:
   the reads return the blob's bytes or the store's error; the state saved while the writer was parked does not
   contain the chunk. *)
Example C10_example_concurrent :
  let s := ex_run ([LSubmit 0 (RqRead 6 1); LSubmit 1 (RqRead 5 2)] ++ T0x 1 (* scan *) ++ [LThread 1 (* scan *)] ++
                   T0x 1 (* lock 3 *) ++ T0x 1 (* fetch fails (call 0) *) ++
                   [LSubmit 0 (RqRead 6 1)] ++ T0x 4 (* scan, lock, fetch, write: parked before Set *) ++
                   [LThread 1 (* blocked on mutex 3 *); LSubmit 2 RqSave; LThread 2] ++
                   [LRestart (mkmode true CKeep false); LSubmit 0 (RqRead 6 1)] ++ T0x 6) in
  s_log s = [(RqRead 6 1, ROk [9]%N false); (RqSave, RDone); (RqRead 6 1, RErr (XStore 2))] /\
  s_saved s = Some [false; false; false; false] /\ s_calls s = 3%nat.
Proof. vm_compute. repeat split. Qed.

(* sparse_once_refuted: the model of the loader as it was before e197e04 (Model/SparseOnce.v, sync.Once instead of the
   per-chunk mutex) violates the property: one chunk, the store fails once, read twice -- the second ReadAt reports
   success and returns the zeros of the unpopulated cache file. *)
Theorem C10_sparse_once_refuted :
  exists sched, exists d eof,
    hd_error (s_log (fst (run (step_once ex_idx ex_null ex_store) sched (init_once ex_idx)))) = Some (RqRead 0 2, ROk d eof) /\
    d <> slice ex_blob 0 2.
Proof.
  exists ([LSubmit 0 (RqRead 0 2)] ++ T0x 4 ++ [LSubmit 0 (RqRead 0 2)] ++ T0x 4), [0; 0]%N, false.
  vm_compute. split; [reflexivity|discriminate].
Qed.

(* A waiter behind a failing leader (every schedule is covered by C10_sparse_read_sound; this is the one a TryLock
   "optimisation" would break): reader 0 and reader 1 need chunk 0; reader 0 holds the chunk mutex and is inside
   GetChunk when reader 1 arrives and blocks on the mutex; reader 0's fetch fails; reader 1 then takes the mutex,
   re-checks the done bit, fetches (call 1) and returns the blob's bytes. *)
Example C10_example_waiter_behind_failed_leader :
  let s := ex_run ([LSubmit 0 (RqRead 0 2); LSubmit 1 (RqRead 1 1)] ++ T0x 2 (* scan, lock: inside GetChunk *) ++
                   [LThread 1 (* scan *); LThread 1 (* blocked *); LThread 1] ++ T0x 1 (* the fetch fails *) ++
                   [LThread 1; LThread 1; LThread 1; LThread 1; LThread 1] (* lock+re-check, fetch, write, set, read *)) in
  s_log s = [(RqRead 1 1, ROk [6]%N false); (RqRead 0 2, RErr (XStore 2))] /\ s_calls s = 2%nat.
Proof. vm_compute. split; reflexivity. Qed.

(* before 61c4b65: a store that fails with the value io.EOF itself (a remote that went away, not behind a StoreRouter)
   made ReadAt return (0, io.EOF) for a range inside the blob -- to the caller (e.g. the mount-sparse node, which answers
   OK with 0 bytes) a successful read that reached the end of the file. *)
Definition ex_store_eof : store_t := fun k i => if (k =? 0)%nat then SFail code_bare_eof else ex_store k i.
Theorem C10_store_eof_refuted :
  exists sched d eof,
    hd_error (s_log (run (step_pre ex_idx ex_null ex_store_eof true true false) sched (init ex_idx))) =
      Some (RqRead 0 2, ROk d eof) /\
    length d <> Nat.min 2 (length ex_blob - 0).
Proof. exists ([LSubmit 0 (RqRead 0 2)] ++ T0x 4), [], true. vm_compute. split; [reflexivity|discriminate]. Qed.
Example C10_store_eof_now :
  s_log (run (step ex_idx ex_null ex_store_eof) ([LSubmit 0 (RqRead 0 2)] ++ T0x 4 ++ [LSubmit 0 (RqRead 0 2)] ++ T0x 6) (init ex_idx)) =
  [(RqRead 0 2, ROk [5; 6]%N false); (RqRead 0 2, RErr XUnexpectedEOF)].
Proof. vm_compute. reflexivity. Qed.

(* Pre-load from an init state that lists a NULL chunk, with a transient failure of a real chunk (every schedule is
   covered by C10_sparse_read_sound; this is the one a "number of chunks still missing" shortcut would break): the first
   start pre-loads from the all-ones bitmap, the fetch of chunk 0 (call 0) fails, the null chunks 1, 2 and chunk 3 are
   loaded; a read of everything then fetches chunk 0 and returns the blob's bytes. *)
Example C10_example_preload_null_chunks :
  let s := ex_run ([LRestartInit (mkmode true CAbsent true) [true; true; true; true]] ++
                   concat (repeat [LThread 0; LThread 1; LThread 2; LThread 3] 6) ++
                   [LSubmit 4 (RqRead 0 7)] ++ repeat (LThread 4) 8) in
  hd_error (s_log s) = Some (RqRead 0 7, ROk ex_blob false) /\ s_done s = [true; true; true; true] /\ s_calls s = 5%nat.
Proof. vm_compute. repeat split. Qed.
