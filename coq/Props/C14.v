(* C14 -- Remote transports preserve data and report missing vs. failed truthfully.
   Only statements, [exact], and Print Assumptions live here.

   Client: Model/HTTPClient.v (remotehttp.go, remotehttpindex.go); server: Model/HTTPServer.v
   (httphandler*.go, httpindexhandler.go, local.go, localindex.go); casync protocol:
   Model/ProtocolSession.v (protocol.go, protocolserver.go).  [rs : nat -> resp_ev] is an arbitrary
   script of what the client observes at attempt 0, 1, 2, ...: a status with a body, a
   transport error, or a body that breaks off.  zstd and the index codec are arbitrary
   functions with the round-trip law as an explicit premise; the digest H is arbitrary. *)
From Coq Require Import List NArith Arith Bool.
From DS Require Import Gen.Constants Base.Bytes Base.Hash Base.Hex Base.GoPath Base.LE64
     Model.HTTPServer Model.HTTPClient Model.ProtocolSession
     Proofs.HTTPServerProofs Proofs.HTTPClientProofs Proofs.TransportProofs Proofs.ProtocolSessionProofs.
Import ListNotations.
Local Open Scope N_scope.

Arguments IData {index_t} ix.
Arguments IMissing {index_t}.
Arguments IErr {index_t}.

(* ---------- the retry loop: IssueRetryableHttpRequest, for every script ---------- *)

(* retry_bound: between 1 and max(1, ErrorRetry) requests are sent, whatever the server does *)
Theorem C14_retry_bound : forall budget rs,
  1 <= snd (issue_retryable budget rs) <= N.max 1 budget.
Proof. exact retry_bound. Qed.
Print Assumptions C14_retry_bound.

(* retry_transparent: a run of k retryable failures (transport error, broken body, 5xx) with
   k < max(1, ErrorRetry) is invisible: the result is that of response k, after k+1 requests *)
Theorem C14_retry_transparent : forall budget rs k,
  k < N.max 1 budget ->
  (forall j, j < k -> retry_at rs j = true) -> retry_at rs k = false ->
  issue_retryable budget rs = (issue_once (rs (N.to_nat k)), k + 1).
Proof. exact retry_transparent. Qed.
Print Assumptions C14_retry_transparent.

(* retry_exhausted: otherwise every operation reports an error -- never "missing", never
   success -- after exactly max(1, ErrorRetry) requests *)
Theorem C14_retry_exhausted : forall budget rs,
  (forall j, j < N.max 1 budget -> retry_at rs j = true) ->
  get_object budget rs = (ObjErr, N.max 1 budget) /\
  has_chunk budget rs = (HasErr, N.max 1 budget) /\
  store_object budget rs = (false, N.max 1 budget).
Proof. exact exhausted_is_error. Qed.
Print Assumptions C14_retry_exhausted.

(* the loop is exactly "first non-retryable response within the budget, else give up" *)
Theorem C14_retry_spec : forall budget rs, issue_retryable budget rs = issue_spec budget rs.
Proof. exact issue_retryable_spec. Qed.
Print Assumptions C14_retry_spec.

(* ---------- request bodies across retries (StoreIndex, StoreChunk) ----------
   [store_payload_log budget payload rs] = (result, requests sent, the body of each request):
   the callback handed to StoreObject produces the whole payload on EVERY call (StoreIndex starts
   a fresh pipe fed by Index.WriteTo, StoreChunk a fresh bytes.Reader). *)

(* every attempt carries exactly the payload, and there are between 1 and max(1, ErrorRetry) *)
Theorem C14_put_every_attempt_carries_payload : forall budget payload rs,
  let '(ok, n, bodies) := store_payload_log budget payload rs in
  Forall (fun b => b = payload) bodies /\ length bodies = N.to_nat n /\ 1 <= n <= N.max 1 budget.
Proof. exact store_payload_bodies. Qed.
Print Assumptions C14_put_every_attempt_carries_payload.

(* nil is returned iff the first non-retryable answer, within the budget, is 200/201 ... *)
Theorem C14_put_ok_iff_2xx_within_budget : forall budget payload rs,
  fst (fst (store_payload_log budget payload rs)) = true <->
  exists k, k < N.max 1 budget /\ (forall j, j < k -> retry_at rs j = true) /\ is_2xx (rs (N.to_nat k)) = true.
Proof. exact store_payload_ok_iff. Qed.
Print Assumptions C14_put_ok_iff_2xx_within_budget.

(* ... and a server that keeps the body of each PUT it answers 2xx then holds exactly the payload;
   after a reported failure it holds what it held before (never an empty or partial object) *)
Theorem C14_put_server_object : forall budget payload rs obj,
  let '(ok, n, bodies) := store_payload_log budget payload rs in
  stored_after rs 0 bodies obj = if ok then Some payload else obj.
Proof. exact store_payload_stored. Qed.
Print Assumptions C14_put_server_object.

(* ---------- status_truthful: what the final response means to the caller ---------- *)

Theorem C14_object_missing_iff_404 : forall budget rs,
  fst (get_object budget rs) = ObjMissing <-> exists b, fst (issue_retryable budget rs) = HStatus 404 b.
Proof. intros budget rs. rewrite get_object_eq. exact (obj_missing_iff _). Qed.
Print Assumptions C14_object_missing_iff_404.

Theorem C14_object_data_iff_200 : forall budget rs b,
  fst (get_object budget rs) = ObjData b <-> fst (issue_retryable budget rs) = HStatus 200 b.
Proof. intros budget rs b. rewrite get_object_eq. exact (obj_data_iff _ b). Qed.
Print Assumptions C14_object_data_iff_200.

Theorem C14_has_false_iff_404 : forall budget rs,
  fst (has_chunk budget rs) = HasFalse <-> exists b, fst (issue_retryable budget rs) = HStatus 404 b.
Proof. intros budget rs. rewrite has_chunk_eq. exact (has_false_iff _). Qed.
Print Assumptions C14_has_false_iff_404.

Theorem C14_has_true_iff_200 : forall budget rs,
  fst (has_chunk budget rs) = HasTrue <-> exists b, fst (issue_retryable budget rs) = HStatus 200 b.
Proof. intros budget rs. rewrite has_chunk_eq. exact (has_true_iff _). Qed.
Print Assumptions C14_has_true_iff_200.

(* ---------- transport_matrix: client + chunk server + upstream store ---------- *)

(* For every upstream compression setting (ls_uncompressed s), every server setting
   (c_compressed c; the client uses the matching one), every verification switch on either hop,
   every retry budget and every non-empty chunk: the client receives exactly the stored data,
   after one request. *)
Theorem C14_transport_matrix : forall H zcomp zdecomp,
  (forall x, zdecomp (zcomp x) = Some x) -> (forall x, zcomp x <> []) ->
  forall budget c s ib d auth cli_skip,
  wf_bytes ib -> length ib = 32%nat -> authorized c auth ->
  d <> [] -> H d = id_of_bytes ib ->
  lookup (id_of_bytes ib) (ls_files s) = Some (to_storage zcomp (opt_converters (ls_uncompressed s)) d) ->
  exists ch,
    remote_get_chunk H zcomp zdecomp budget (negb (c_compressed c)) cli_skip auth c s ib = (CData ch, 1) /\
    chunk_data zdecomp ch = Some d.
Proof. exact transport_get. Qed.
Print Assumptions C14_transport_matrix.

(* upstream missing => client ChunkMissing (one request) *)
Theorem C14_missing_is_missing : forall H zcomp zdecomp budget c s ib auth cli_skip,
  wf_bytes ib -> length ib = 32%nat -> authorized c auth ->
  lookup (id_of_bytes ib) (ls_files s) = None ->
  remote_get_chunk H zcomp zdecomp budget (negb (c_compressed c)) cli_skip auth c s ib = (CMissing, 1).
Proof. exact transport_get_missing. Qed.
Print Assumptions C14_missing_is_missing.

(* upstream failure => client error, after max(1, ErrorRetry) requests (500 is retried) *)
Theorem C14_failure_is_error : forall H zcomp zdecomp budget c s ib auth cli_skip,
  wf_bytes ib -> length ib = 32%nat -> authorized c auth ->
  local_get H zdecomp s (id_of_bytes ib) = GFail ->
  remote_get_chunk H zcomp zdecomp budget (negb (c_compressed c)) cli_skip auth c s ib = (CErr, N.max 1 budget).
Proof. exact transport_get_failure. Qed.
Print Assumptions C14_failure_is_error.

(* client and server disagreeing about compression, or a client without the right
   authorization: an error, never data and never "missing" *)
Theorem C14_mismatch_is_error : forall H zcomp zdecomp budget c s ib auth cli_skip,
  wf_bytes ib -> length ib = 32%nat ->
  fst (remote_get_chunk H zcomp zdecomp budget (c_compressed c) cli_skip auth c s ib) = CErr.
Proof. exact transport_get_mismatch. Qed.
Print Assumptions C14_mismatch_is_error.

Theorem C14_unauthorized_is_error : forall H zcomp zdecomp budget cu c s ib auth cli_skip,
  c_auth c <> [] -> auth <> c_auth c ->
  remote_get_chunk H zcomp zdecomp budget cu cli_skip auth c s ib = (CErr, 1).
Proof. exact transport_get_unauthorized. Qed.
Print Assumptions C14_unauthorized_is_error.

(* A chunk server whose upstream store answers or FAILS per call (any store: local, remote,
   failover group ...): HasChunk through the server is true / false / an error exactly as the
   upstream's answer was yes / no / a failure -- a failure is never reported as "false" ... *)
Theorem C14_upstream_head_truthful : forall budget (u : has_result),
  has_chunk budget (const_script (handler_head u)) =
  match u with
  | HasYes => (HasTrue, 1)
  | HasNo => (HasFalse, 1)
  | HasFail => (HasErr, N.max 1 budget)
  end.
Proof. exact upstream_head. Qed.
Print Assumptions C14_upstream_head_truthful.

(* ... GetChunk reports ChunkMissing for "missing" and an error for a failure ... *)
Theorem C14_upstream_get_truthful : forall H zcomp zdecomp budget unc skip i (u : get_result),
  u = GMissing \/ u = GFail ->
  get_chunk H zdecomp budget unc skip i (const_script (handler_get zcomp zdecomp (opt_converters unc) u)) =
  match u with GMissing => (CMissing, 1) | _ => (CErr, N.max 1 budget) end.
Proof. exact upstream_get_not_present. Qed.
Print Assumptions C14_upstream_get_truthful.

(* ... and a failing upstream StoreChunk (answered 500) makes the client's StoreChunk fail *)
Theorem C14_upstream_put_failure : forall budget,
  store_object budget (const_script (resp 500 [])) = (false, N.max 1 budget).
Proof. exact upstream_put_failure. Qed.
Print Assumptions C14_upstream_put_failure.

(* HEAD: true iff the upstream store has the chunk *)
Theorem C14_has_chunk_truthful : forall H zcomp zdecomp budget c s ib auth,
  wf_bytes ib -> length ib = 32%nat -> authorized c auth ->
  remote_has_chunk H zcomp zdecomp budget (negb (c_compressed c)) auth c s ib =
  (match lookup (id_of_bytes ib) (ls_files s) with Some _ => HasTrue | None => HasFalse end, 1).
Proof. exact transport_has. Qed.
Print Assumptions C14_has_chunk_truthful.

(* PUT through a writable server stores the chunk in the upstream store's own format, so that a
   later GET (theorem above) returns it, for every combination of settings *)
Theorem C14_store_chunk_roundtrip : forall H zcomp zdecomp,
  (forall x, zdecomp (zcomp x) = Some x) -> (forall x, zcomp x <> []) ->
  forall budget c s ib d auth ch,
  wf_bytes ib -> length ib = 32%nat -> authorized c auth ->
  c_writable c = true -> c_store_writable c = true ->
  d <> [] -> H d = id_of_bytes ib -> chunk_data zdecomp ch = Some d ->
  exists s',
    remote_store_chunk H zcomp zdecomp budget (negb (c_compressed c)) auth c s ib ch = ((true, 1), s') /\
    lookup (id_of_bytes ib) (ls_files s') = Some (to_storage zcomp (opt_converters (ls_uncompressed s)) d) /\
    ls_uncompressed s' = ls_uncompressed s /\
    forall j, j <> id_of_bytes ib -> lookup j (ls_files s') = lookup j (ls_files s).
Proof. exact transport_put. Qed.
Print Assumptions C14_store_chunk_roundtrip.

(* A PUT answered 200 stored the decoded body re-encoded for the store -- for EVERY body, of any
   length: there is no size at which the handler keeps less than it received ... *)
Theorem C14_put_200_stores : forall H zcomp zdecomp c s r rs s',
  r_method r = PUT -> chunk_handle H zcomp zdecomp c s r = (rs, s') -> status rs = 200 ->
  exists ib d,
    id_from_path (c_compressed c) (r_path r) = Some ib /\
    from_storage zdecomp (handler_conv c) (r_body r) = Some d /\
    lookup (id_of_bytes ib) (ls_files s') = Some (to_storage zcomp (opt_converters (ls_uncompressed s)) d).
Proof. exact put_200_stores. Qed.
Print Assumptions C14_put_200_stores.

(* ... with an uncompressed server in front of an uncompressed store the file IS the body *)
Theorem C14_put_200_stores_body : forall H zcomp zdecomp c s r rs s',
  r_method r = PUT -> c_compressed c = false -> ls_uncompressed s = true ->
  chunk_handle H zcomp zdecomp c s r = (rs, s') -> status rs = 200 ->
  exists ib, id_from_path false (r_path r) = Some ib /\
             lookup (id_of_bytes ib) (ls_files s') = Some (r_body r).
Proof. exact put_200_stores_body. Qed.
Print Assumptions C14_put_200_stores_body.

(* ---------- indexes over HTTP ---------- *)

(* GET: the index that is in the file (as decoded by the server) arrives unchanged; a name
   without a file is reported missing; a directory, an entry that cannot be opened for another
   reason than "does not exist" (DErr: symlink loop, permission, I/O error) or an undecodable
   file is an error -- never "missing" *)
Theorem C14_index_get : forall (index_t : Type) (idx_decode : bytes -> option index_t) idx_encode,
  (forall ix, idx_decode (idx_encode ix) = Some ix) ->
  forall budget c d n auth,
  plain_name n -> authorized c auth ->
  remote_get_index index_t idx_decode idx_encode budget auth c d n =
  match dlookup n d with
  | None => (IMissing, 1)
  | Some DDir | Some DErr => (IErr, 1)
  | Some (DFile b) => match idx_decode b with Some ix => (IData ix, 1) | None => (IErr, 1) end
  end.
Proof. exact index_get. Qed.
Print Assumptions C14_index_get.

(* index_head_truthful (the code after the three HEAD fixes): HEAD answers 200 iff the entry is a
   file, 404 iff the served directory has NO entry of that name, and 400 -- an error for the
   client, as GET -- for a directory or an entry that exists but cannot be opened *)
Theorem C14_index_head_truthful : forall (index_t : Type) (idx_decode : bytes -> option index_t) idx_encode budget c d n auth,
  plain_name n -> authorized c auth ->
  remote_has_index index_t idx_decode idx_encode budget auth c d n =
  (match dlookup n d with Some (DFile _) => HasTrue | Some _ => HasErr | None => HasFalse end, 1).
Proof. exact index_head. Qed.
Print Assumptions C14_index_head_truthful.

Theorem C14_index_head_404_iff_absent : forall (index_t : Type) (idx_decode : bytes -> option index_t) idx_encode budget c d n auth,
  plain_name n -> authorized c auth ->
  (fst (remote_has_index index_t idx_decode idx_encode budget auth c d n) = HasFalse <-> dlookup n d = None).
Proof. exact index_head_missing_iff. Qed.
Print Assumptions C14_index_head_404_iff_absent.

(* the HEAD handler before those fixes ([index_head_status true]): every open error was 404 and a
   directory was 200 -- "404 iff absent" and "200 only for an index" were both false for it *)
Theorem C14_index_head_prefix_refuted :
  status (index_head_status true OErr) = 404 /\ status (index_head_status true OIsDir) = 200.
Proof. split; reflexivity. Qed.
Print Assumptions C14_index_head_prefix_refuted.

Theorem C14_index_put_get : forall (index_t : Type) (idx_decode : bytes -> option index_t) idx_encode,
  (forall ix, idx_decode (idx_encode ix) = Some ix) ->
  forall budget c d n auth ix,
  plain_name n -> authorized c auth -> c_writable c = true -> c_store_writable c = true ->
  dlookup n d <> Some DDir -> dlookup n d <> Some DErr ->
  exists d',
    remote_store_index index_t idx_decode idx_encode budget auth c d n ix = ((true, 1), d') /\
    remote_get_index index_t idx_decode idx_encode budget auth c d' n = (IData ix, 1).
Proof. exact index_put_get. Qed.
Print Assumptions C14_index_put_get.

(* index server in front of a REMOTE index store (after "fix: index server answers 404 when the
   index is missing in a remote upstream store"): the client sees exactly what a direct client of
   the upstream store would see -- the index, "missing", or an error -- for every upstream script *)
Theorem C14_index_proxy : forall (index_t : Type) (idx_decode : bytes -> option index_t) idx_encode,
  (forall ix, idx_decode (idx_encode ix) = Some ix) ->
  forall budget budget_up rs_up,
  proxied_get_index index_t idx_decode idx_encode budget budget_up rs_up =
  (fst (get_index index_t idx_decode budget_up rs_up), 1).
Proof. exact proxied_index. Qed.
Print Assumptions C14_index_proxy.

(* the handler before that fix ([proxied_get_index_prefix]) tested only os.IsNotExist, which
   NoSuchObject does not satisfy: an index MISSING upstream reached the client as an error ... *)
Theorem C14_index_proxy_prefix_missing_is_error : forall (index_t : Type) (idx_decode : bytes -> option index_t) idx_encode,
  (forall ix, idx_decode (idx_encode ix) = Some ix) ->
  forall budget budget_up rs_up,
  fst (get_index index_t idx_decode budget_up rs_up) = IMissing ->
  proxied_get_index_prefix index_t idx_decode idx_encode budget budget_up rs_up = (IErr, 1).
Proof. exact proxied_index_prefix. Qed.
Print Assumptions C14_index_proxy_prefix_missing_is_error.

(* ... so "a missing object is reported as missing" was false for it *)
Definition index_proxy_prefix_missing_statement : Prop :=
  forall (index_t : Type) (idx_decode : bytes -> option index_t) (idx_encode : index_t -> bytes) budget budget_up rs_up,
    fst (get_index index_t idx_decode budget_up rs_up) = IMissing ->
    fst (proxied_get_index_prefix index_t idx_decode idx_encode budget budget_up rs_up) = IMissing.

Theorem C14_index_proxy_missing_refuted : ~ index_proxy_prefix_missing_statement.
Proof.
  intros St. specialize (St bytes (fun b => Some b) (fun b => b) 1 1 (fun _ => Status 404 [])).
  vm_compute in St. specialize (St eq_refl). discriminate.
Qed.
Print Assumptions C14_index_proxy_missing_refuted.

(* ---------- casync protocol ---------- *)

(* message_roundtrip: a written message is read back, whatever follows it on the stream *)
Theorem C14_message_roundtrip : forall m rest,
  m_type m < two64 -> N.of_nat (length (m_body m)) + 16 <= MaxInt64 ->
  read_message (write_message m ++ rest) = RMsg m rest.
Proof. intros m rest Ht Hb. apply message_roundtrip. split; assumption. Qed.
Print Assumptions C14_message_roundtrip.

(* session_truthful (the code after "fix: protocol server keeps serving after answering a request
   for a missing chunk"): on one session, EVERY request -- any number, any order -- is answered
   CHUNK carrying exactly the chunk's data when the store has it and MISSING when it has not ... *)
Theorem C14_session_truthful : forall H zcomp zdecomp,
  (forall x, zdecomp (zcomp x) = Some x) -> (forall x, zcomp x <> []) ->
  forall store data_of ids,
  Forall (servable H zcomp zdecomp store data_of) ids ->
  Forall2 (answered H zcomp zdecomp store data_of) ids (session H zcomp zdecomp store ids).
Proof. exact session_truthful. Qed.
Print Assumptions C14_session_truthful.

(* the same with the LocalStore behind `desync pull`, in either on-disk format (compressed like
   casync's, or uncompressed) and with or without verification on read *)
Theorem C14_session_over_local_store : forall H zcomp zdecomp,
  (forall x, zdecomp (zcomp x) = Some x) -> (forall x, zcomp x <> []) ->
  forall (s : lstore) data_of ids,
  Forall (held H zcomp s data_of) ids ->
  Forall2 (answered H zcomp zdecomp (local_get H zdecomp s) data_of) ids
          (session H zcomp zdecomp (local_get H zdecomp s) ids).
Proof. exact session_over_local_store. Qed.
Print Assumptions C14_session_over_local_store.

(* ... until a store FAILURE ends the session: the failing request and every later one are
   reported as errors (never as missing, never as data) *)
Theorem C14_session_until_failure : forall H zcomp zdecomp,
  (forall x, zdecomp (zcomp x) = Some x) -> (forall x, zcomp x <> []) ->
  forall store data_of pre f post,
  Forall (servable H zcomp zdecomp store data_of) pre -> wf_id f -> store f = GFail ->
  exists rs,
    session H zcomp zdecomp store (pre ++ f :: post) = rs ++ repeat PErr (S (length post)) /\
    Forall2 (answered H zcomp zdecomp store data_of) pre rs.
Proof. exact session_until_failure. Qed.
Print Assumptions C14_session_until_failure.

Theorem C14_session_store_failure : forall H zcomp zdecomp store i,
  wf_id i -> store i = GFail -> session H zcomp zdecomp store [i] = [PErr].
Proof. exact session_store_failure. Qed.
Print Assumptions C14_session_store_failure.

(* The code BEFORE that fix ([session_prefix]: Serve returned after answering one MISSING):
   the first missing chunk was reported as missing and EVERY later request on the session, for a
   present or for a missing chunk, was answered with an error ... *)
Theorem C14_session_prefix_after_missing : forall H zcomp zdecomp,
  (forall x, zdecomp (zcomp x) = Some x) -> (forall x, zcomp x <> []) ->
  forall store data_of pre m post,
  Forall (present H zcomp zdecomp store data_of) pre -> wf_id m -> store m = GMissing ->
  exists rs,
    session_prefix H zcomp zdecomp store (pre ++ m :: post) = rs ++ PMissing :: repeat PErr (length post) /\
    Forall2 (is_data zdecomp data_of) pre rs.
Proof. exact session_prefix_after_missing. Qed.
Print Assumptions C14_session_prefix_after_missing.

(* ... so "a missing object is reported as missing" was false for it: the second of two
   missing chunks was an error. *)
Definition session_prefix_truthful_statement : Prop :=
  forall H zcomp zdecomp (store : id -> get_result) ids,
    Forall (fun i => wf_id i /\ store i = GMissing) ids ->
    session_prefix H zcomp zdecomp store ids = map (fun _ => PMissing) ids.

Theorem C14_session_truthful_refuted : ~ session_prefix_truthful_statement.
Proof.
  intros St.
  specialize (St (fun _ => 0) (fun b => b) (fun b => Some b) (fun _ => GMissing) [1; 2]).
  assert (Forall (fun i : id => wf_id i /\ (fun _ : id => GMissing) i = GMissing) [1; 2]) as F.
  { repeat constructor; vm_compute; reflexivity. }
  specialize (St F). vm_compute in St. discriminate.
Qed.
Print Assumptions C14_session_truthful_refuted.

(* ---------- non-vacuity ---------- *)
Definition ex_H (b : bytes) : id := fold_right N.add 0 b.
Definition ex_zcomp (b : bytes) : bytes := 90 :: b.
Definition ex_zdecomp (b : bytes) : option bytes := match b with 90 :: r => Some r | _ => None end.
Definition ex_id : bytes := repeat 0 31 ++ [5].
Definition ex_cfg (comp : bool) : cfg :=
  {| c_auth := []; c_writable := true; c_skip_verify_write := false; c_compressed := comp; c_store_writable := true |}.
Definition ex_store (unc : bool) : lstore :=
  {| ls_files := [(5, if unc then [5] else [90; 5])]; ls_uncompressed := unc; ls_skip_verify := false |}.

(* all four server x upstream combinations deliver the chunk [5] *)
Example C14_example_matrix :
  map (fun p : bool * bool =>
         match fst (remote_get_chunk ex_H ex_zcomp ex_zdecomp 3 (negb (fst p)) false [] (ex_cfg (fst p)) (ex_store (snd p)) ex_id) with
         | CData ch => chunk_data ex_zdecomp ch
         | _ => None
         end) [(true, true); (true, false); (false, true); (false, false)]
  = [Some [5]; Some [5]; Some [5]; Some [5]].
Proof. vm_compute. reflexivity. Qed.

(* scripts: two 503s then 200 with budget 3 -> data after 3 requests; with budget 2 -> error after 2;
   404 is not retried; a connection reset then 404 -> missing after 2 *)
Definition ex_script (l : list resp_ev) : nat -> resp_ev := fun k => nth k l TransportErr.
Example C14_example_retry :
  (get_object 3 (ex_script [Status 503 []; Status 503 []; Status 200 [7]]),
   get_object 2 (ex_script [Status 503 []; Status 503 []; Status 200 [7]]),
   get_object 3 (ex_script [Status 404 []; Status 200 [7]]),
   get_object 3 (ex_script [TransportErr; Status 404 []]),
   get_object 0 (ex_script [ShortBody; Status 200 [7]]))
  = ((ObjData [7], 3), (ObjErr, 2), (ObjMissing, 1), (ObjMissing, 2), (ObjErr, 1)).
Proof. vm_compute. reflexivity. Qed.

(* index PUT with two 503s then 200, budget 3: three requests, each with the whole payload; budget 2: error, two requests *)
Example C14_example_put_retry :
  (store_payload_log 3 [1; 2; 3] (ex_script [Status 503 []; Status 503 []; Status 200 []]),
   store_payload_log 2 [1; 2; 3] (ex_script [Status 503 []; TransportErr; Status 200 []]))
  = ((true, 3, [[1; 2; 3]; [1; 2; 3]; [1; 2; 3]]), (false, 2, [[1; 2; 3]; [1; 2; 3]])).
Proof. vm_compute. reflexivity. Qed.

(* one protocol session: present, missing, present -> data, missing, data (before the fix: data, missing, error) *)
Example C14_example_session :
  let store := fun i : id => if i =? 5 then GChunk {| ch_data := [5]; ch_storage := []; ch_conv := []; ch_id := 5; ch_idcalc := true |}
                             else GMissing in
  map (fun r => match r with PData c => 1 | PMissing => 2 | PErr => 3 end)
      (session ex_H ex_zcomp ex_zdecomp store [5; 6; 5] ++ session_prefix ex_H ex_zcomp ex_zdecomp store [5; 6; 5]) = [1; 2; 1; 1; 2; 3].
Proof. vm_compute. reflexivity. Qed.
