(* C08 -- process death never exposes a partial chunk or a partial extract target.
   Only statements, [exact], Print Assumptions and Examples live here.

   StoreChunk is a small-step program (one system call per step; a write() may transfer any number
   of bytes and may fail); any number of writers run concurrently on one store directory; the process
   may die after any step, so the crash states are [run step sched init] for ALL schedules. *)
From Coq Require Import List NArith Arith Bool.
From DS Require Import Gen.Constants Base.Bytes Base.Hash Base.HexId Base.FS Base.Sched
     Model.LocalStore Model.Prune Model.StoreCrash Model.InPlace
     Proofs.LocalStoreProofs Proofs.PruneProofs Proofs.StoreCrashProofs Proofs.InPlaceProofs.
Import ListNotations.

(* store_crash_atomic, path by path: in every crash state every path is as before, or a directory
   MkdirAll created, or a writer's final chunk name holding that writer's COMPLETE object, or a writer's
   temp name (".tmp-cacnk" ++ its random suffix, absent before) holding a prefix of its object.
   Writers: any number, any formats and ids (equal or different), temp suffixes not shared. *)
Theorem C08_store_crash_atomic : forall (base : path) (wd : nat -> wdata) (s0 : node),
  (forall i j r, In r (wd_cands (wd i)) -> In r (wd_cands (wd j)) -> i = j) ->
  forall (sched : list (nat * action)) (q : path),
  let fs := fst (run (StoreCrash.step base wd) sched (init base wd s0)) in
  stat q fs = stat q s0 \/
  (stat q s0 = None /\ stat q fs = Some (EDir meta0) /\ exists i, In q (prefixes (w_dir base wd i))) \/
  (exists i, q = w_final base wd i /\ stat q fs = Some (EFile meta0 (wd_obj (wd i)))) \/
  (stat q s0 = None /\ exists i r k, In r (wd_cands (wd i)) /\ q = w_tmp base wd i r /\
                                    stat q fs = Some (EFile meta0 (firstn k (wd_obj (wd i))))).
Proof. exact store_crash_paths. Qed.
Print Assumptions C08_store_crash_atomic.

(* ... hence under a chunk name <base>/xxxx/<64 hex><ext> of ANY (id, format), a crash state holds what
   was there before or a complete object that NewChunkFromStorage accepts for that id (given that the
   writers were handed valid objects). *)
Theorem C08_no_partial_chunk_visible :
  forall (base : path) (wd : nat -> wdata) (s0 : node),
  (forall i j r, In r (wd_cands (wd i)) -> In r (wd_cands (wd j)) -> i = j) ->
  forall (H : bytes -> id) (zdecomp : bytes -> option bytes) sched (st : store) (j : id) m c,
  st_base st = base -> wf_id j -> (forall i, wf_id (wd_id (wd i))) ->
  (forall i, new_chunk_from_storage H zdecomp (wd_id (wd i)) (wd_obj (wd i)) (wd_unc (wd i)) false
             = GetOk (wd_obj (wd i))) ->
  let fs := fst (run (StoreCrash.step base wd) sched (init base wd s0)) in
  stat (snd (name_from_id st j)) fs = Some (EFile m c) ->
  stat (snd (name_from_id st j)) s0 = Some (EFile m c) \/
  new_chunk_from_storage H zdecomp j c (st_unc st) false = GetOk c.
Proof. exact store_crash_valid. Qed.
Print Assumptions C08_no_partial_chunk_visible.

(* StoreChunk returning nil means the object is there and complete: a writer whose program counter is
   [PcDone None] -- reached only through the rename; a write that fails or is cut short ([AFail]) leads
   through close and remove to [PcDone (Some EIO)] -- finds under its final name the complete object of
   a writer of that same (id, format): its own, or the one a concurrent writer of the same chunk renamed
   over it.  In every schedule, so also while other writers are mid-way or dead. *)
Theorem C08_store_nil_implies_complete :
  forall (base : path) (wd : nat -> wdata) (s0 : node),
  (forall i j r, In r (wd_cands (wd i)) -> In r (wd_cands (wd j)) -> i = j) ->
  forall (sched : list (nat * action)) (i : nat),
  (forall i, wf_id (wd_id (wd i))) ->
  let s := run (StoreCrash.step base wd) sched (init base wd s0) in
  snd s i = PcDone None ->
  exists j, wd_id (wd j) = wd_id (wd i) /\ wd_unc (wd j) = wd_unc (wd i) /\
            stat (w_final base wd i) (fst s) = Some (EFile meta0 (wd_obj (wd j))).
Proof. exact store_nil_complete_id. Qed.
Print Assumptions C08_store_nil_implies_complete.

(* ... and a later Prune that returns nil has removed every leftover temp file. *)
Theorem C08_prune_removes_leftovers :
  forall (base : path) (wd : nat -> wdata) (s0 : node),
  (forall i j r, In r (wd_cands (wd i)) -> In r (wd_cands (wd j)) -> i = j) ->
  forall sched (st : store) keep fuel bstr fs' i r,
  st_base st = base ->
  let fs := fst (run (StoreCrash.step base wd) sched (init base wd s0)) in
  is_dir (stat base fs) = true ->
  prune fuel st bstr keep fs = (fs', None) ->
  In r (wd_cands (wd i)) -> stat (w_tmp base wd i r) s0 = None ->
  stat (w_tmp base wd i r) fs' = None.
Proof. exact prune_removes_leftovers. Qed.
Print Assumptions C08_prune_removes_leftovers.

(* extract_crash_untouched (writeWithTmpFile): in every crash state, for every sequence of temp-file
   contents AssembleFile goes through and every failure point, no path other than the temp names
   ".<name><suffix>" and the destination differs from before, and the destination is as before unless
   the final rename has happened, in which case it holds the completely assembled content. *)
Theorem C08_extract_crash_untouched :
  forall (dir : path) (dst : name) (cands contents : list bytes) (s0 : node) (sched : list xaction),
  let '(fs, pc) := run (xstep dir dst contents) sched (s0, XCreate cands) in
  (forall q, (forall r, q <> x_tmp dir dst r) -> q <> x_dst dir dst -> stat q fs = stat q s0) /\
  (stat (x_dst dir dst) fs = stat (x_dst dir dst) s0 \/
   (stat (x_dst dir dst) fs = Some (EFile meta0 (last contents [])) /\
    (pc = XDone true \/ exists r, pc = XRemove r true))).
Proof. exact extract_crash. Qed.
Print Assumptions C08_extract_crash_untouched.

(* inplace_rerun (writeChunk on an existing file, self-seed shortcut left out; the workers' jobs in any
   order, with repeats): starting from ANY file of the indexed length -- e.g. what a killed in-place
   extract left -- the re-run ends with every processed range hashing to its id, leaves unprocessed ranges
   alone, and asks the store only for chunks whose range in the starting file did NOT already hash to
   their id.  (The index rows are disjoint and inside the file; the store verifies what it returns.) *)
Theorem C08_inplace_rerun :
  forall (H : bytes -> id) (fetch : id -> option bytes) (idx : list row) (f0 : bytes),
  (forall a b, In a idx -> In b idx -> a <> b ->
     r_start a + r_size a <= r_start b \/ r_start b + r_size b <= r_start a) ->
  (forall a, In a idx -> r_start a + r_size a <= length f0) ->
  (forall i d, fetch i = Some d -> H d = i) ->
  forall jobs f' q,
  Forall (fun r => In r idx) jobs ->
  assemble_inplace H fetch jobs f0 = Some (f', q) ->
  length f' = length f0 /\
  (forall r, In r jobs -> H (slice f' (r_start r) (r_size r)) = r_id r) /\
  (forall a, In a idx -> ~ In a jobs -> slice f' (r_start a) (r_size a) = slice f0 (r_start a) (r_size a)) /\
  (forall i, In i q -> exists r, In r jobs /\ r_id r = i /\ H (slice f0 (r_start r) (r_size r)) <> i).
Proof. exact inplace_rerun. Qed.
Print Assumptions C08_inplace_rerun.

(* Null-chunk sections in an in-place run (nullseed.go copy path): zero-filling a section, clipped to the
   section, makes its own range zeroes and leaves EVERY other indexed range as it was -- so a chunk that
   follows a run of null chunks and is already in place stays in place and is not fetched again by
   C08_inplace_rerun.  (Seeded mutant C08-9 wrote whole 32 KiB blocks past the section's end.) *)
Theorem C08_null_section_is_clipped :
  forall (idx : list row) (f0 : bytes),
  (forall a b, In a idx -> In b idx -> a <> b ->
     r_start a + r_size a <= r_start b \/ r_start b + r_size b <= r_start a) ->
  (forall a, In a idx -> r_start a + r_size a <= length f0) ->
  forall f r, length f = length f0 -> In r idx ->
  length (write_null f r) = length f0 /\
  slice (write_null f r) (r_start r) (r_size r) = repeat 0%N (r_size r) /\
  (forall a, In a idx -> a <> r ->
     slice (write_null f r) (r_start a) (r_size a) = slice f (r_start a) (r_size a)).
Proof. exact write_null_spec. Qed.
Print Assumptions C08_null_section_is_clipped.

(* ---------- non-vacuity ---------- *)
Definition ex_base : path := [[115]%N].
Definition ex_wd (i : nat) : wdata :=
  match i with
  | 0 => mkW false 6%N [40; 181; 1; 2; 3]%N [[46; 49]%N]       (* writer 0: id 6, compressed, suffix ".1" *)
  | 1 => mkW false 6%N [40; 181; 1; 2; 3]%N [[46; 50]%N]       (* writer 1: same id, suffix ".2" *)
  | _ => mkW true 7%N [7]%N []
  end.
Definition ex_s0 : node := Dir meta0 [([115]%N, Dir meta0 [])].
Definition ex_final := w_final ex_base ex_wd 0.

(* writer 0 dies after writing 2 of 5 bytes: the final name does not exist, the temp file holds 2 bytes *)
Example C08_example_crash_mid_write :
  let fs := fst (run (StoreCrash.step ex_base ex_wd) [(0, ANext 0); (0, ANext 0); (0, ANext 0); (0, ANext 0); (0, ANext 1)]
                     (init ex_base ex_wd ex_s0)) in
  stat ex_final fs = None /\
  stat (w_tmp ex_base ex_wd 0 [46; 49]%N) fs = Some (EFile meta0 [40; 181]%N).
Proof. vm_compute. split; reflexivity. Qed.

(* two writers of the same id interleaved; writer 1 finishes, writer 0 dies before it closes and renames *)
Example C08_example_two_writers :
  let sched := [(0, ANext 0); (1, ANext 0); (0, ANext 0); (1, ANext 0); (0, ANext 0); (1, ANext 0); (0, ANext 0); (1, ANext 0);
                (0, ANext 9); (1, ANext 9); (1, ANext 0); (1, ANext 0); (1, ANext 0); (0, ANext 0)] in
  let s := run (StoreCrash.step ex_base ex_wd) sched (init ex_base ex_wd ex_s0) in
  stat ex_final (fst s) = Some (EFile meta0 [40; 181; 1; 2; 3]%N) /\
  snd s 1 = PcDone None /\ snd s 0 = PcClose [46; 49]%N /\
  stat (w_tmp ex_base ex_wd 0 [46; 49]%N) (fst s) = Some (EFile meta0 [40; 181; 1; 2; 3]%N).
Proof. vm_compute. repeat split; reflexivity. Qed.

(* a write error: the temp file is removed again and StoreChunk returns an error *)
Example C08_example_write_error :
  let s := run (StoreCrash.step ex_base ex_wd) [(0, ANext 0); (0, ANext 0); (0, ANext 0); (0, ANext 0); (0, ANext 1); (0, AFail); (0, ANext 0); (0, ANext 0)]
               (init ex_base ex_wd ex_s0) in
  snd s 0 = PcDone (Some EIO) /\ stat (w_tmp ex_base ex_wd 0 [46; 49]%N) (fst s) = None /\ stat ex_final (fst s) = None.
Proof. vm_compute. repeat split; reflexivity. Qed.

(* the solo fault-free run does what Model/LocalStore.store_chunk (C20) does *)
Example C08_example_solo_is_store_chunk :
  listing [] (fst (run (StoreCrash.step ex_base ex_wd) (solo_sched 12 9) (init ex_base ex_wd ex_s0))) =
  listing [] (fst (store_chunk (fun b => Some (40 :: 181 :: b)%N) (mkStore ex_base false false) [[46; 49]%N] 6%N [1; 2; 3]%N ex_s0)).
Proof. vm_compute. reflexivity. Qed.

(* extract: killed while assembling -> destination untouched; run to the end -> complete content *)
Example C08_example_extract :
  let d0 := Dir meta0 [([111]%N, File meta0 [9; 9]%N)] in
  stat [[111]%N] (fst (run (xstep [] [111]%N [[1]; [1; 2]; [1; 2; 3]]%N) [XNext; XNext; XNext] (d0, XCreate [[46; 53]%N])))
    = Some (EFile meta0 [9; 9]%N) /\
  run (xstep [] [111]%N [[1]; [1; 2]; [1; 2; 3]]%N) [XNext; XNext; XNext; XNext; XNext; XNext; XNext] (d0, XCreate [[46; 53]%N])
    = (Dir meta0 [([111]%N, File meta0 [1; 2; 3]%N)], XDone true).
Proof. vm_compute. split; reflexivity. Qed.

(* Base/FS.v's operation-list view of the same thing: every crash state of StoreChunk's op list
   (incl. every prefix of the write) has the final name absent or complete *)
Example C08_example_op_list_crash_states :
  let ops := store_ops (mkStore ex_base false false) 6%N [46; 49]%N [40; 181; 1; 2; 3]%N in
  let cs := crash_states ops ex_s0 in
  length cs = 12 /\
  forallb (fun s => match stat ex_final s with
                    | None => true
                    | Some (EFile _ b) => bytes_eqb b [40; 181; 1; 2; 3]%N
                    | _ => false
                    end) cs = true /\
  existsb (fun s => match stat ex_final s with Some _ => true | None => false end) cs = true.
Proof. vm_compute. repeat split; reflexivity. Qed.

(* in-place re-run: blob 1 2 3 4 5 6 in rows of 2 (H = sum); the crash left the middle row wrong: only it is fetched *)
Example C08_example_inplace :
  let H := fun b : bytes => fold_right N.add 0%N b in
  let fetch := fun i : id => match i with 7 => Some [3; 4] | 3 => Some [1; 2] | 11 => Some [5; 6] | _ => None end%N in
  let idx := [mkRow 3 0 2; mkRow 7 2 2; mkRow 11 4 2]%N in
  assemble_inplace H fetch (rev idx) [1; 2; 0; 0; 5; 6]%N = Some ([1; 2; 3; 4; 5; 6]%N, [7%N]).
Proof. vm_compute. reflexivity. Qed.

(* What the unique O_EXCL temp name is for -- the property is REFUTED for a StoreChunk that uses one temp
   name per chunk id opened with O_TRUNC ([step_shared]; this is seeded mutant C08-1): two writers of the
   same chunk, A: create, write, close | B: open+truncate the same temp file | A: rename -- and the chunk's
   final name holds an empty object, although both writers were handed a complete valid one.  With the real
   code (distinct temp names) C08_no_partial_chunk_visible excludes exactly this for every schedule. *)
Example C08_shared_temp_name_refuted :
  let sched := [(0, ANext 0); (0, ANext 0); (0, ANext 0); (0, ANext 0); (0, ANext 9); (0, ANext 0);
                (1, ANext 0); (1, ANext 0); (1, ANext 0); (1, ANext 0);
                (0, ANext 0); (0, ANext 0)] in
  let s := run (step_shared ex_base ex_wd) sched (init ex_base ex_wd ex_s0) in
  stat ex_final (fst s) = Some (EFile meta0 []) /\ snd s 0 = PcDone None /\
  wd_obj (ex_wd 0) = [40; 181; 1; 2; 3]%N.
Proof. vm_compute. repeat split; reflexivity. Qed.

(* the same schedule with the real code: the final name holds the complete object *)
Example C08_same_schedule_real_code :
  let sched := [(0, ANext 0); (0, ANext 0); (0, ANext 0); (0, ANext 0); (0, ANext 9); (0, ANext 0);
                (1, ANext 0); (1, ANext 0); (1, ANext 0); (1, ANext 0);
                (0, ANext 0); (0, ANext 0)] in
  let s := run (StoreCrash.step ex_base ex_wd) sched (init ex_base ex_wd ex_s0) in
  stat ex_final (fst s) = Some (EFile meta0 [40; 181; 1; 2; 3]%N).
Proof. vm_compute. reflexivity. Qed.
