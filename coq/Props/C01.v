(* C01 -- Extract reproduces the indexed blob byte-for-byte.
   Only statements, [exact], Print Assumptions and Examples live here. *)
From Coq Require Import List NArith Arith.
From DS Require Import Gen.Constants Base.Bytes Base.Hash Base.Sched Model.Assemble Model.Clone
     Model.VerifyIndex Proofs.AssembleProofs Proofs.CloneProofs.
Import ListNotations.

(* SAFETY.  For every index, every plan that tiles it, every initial content of the (truncated)
   target, and EVERY sequence of worker events -- seed writes of arbitrary bytes confined to the
   writing job's range (stale, corrupted, changing or self-aliasing seeds are "arbitrary bytes"),
   post-write re-hashes, in-place hits, verified store writes, self-seed copies from finished
   jobs, in any interleaving of any number of workers -- once every job has finished the file is
   exactly the blob the index describes, or H has a collision. *)
Theorem C01_assemble_safe : forall (H : bytes -> id) (idx : Assemble.index) (plan : list (nat * nat)),
  plan_ok idx plan ->
  forall file0 blob (sched : list event),
  index_describes H idx blob -> length file0 = length blob ->
  let s := run (Assemble.step H idx plan) sched (Assemble.init plan file0) in
  all_finished s = true ->
  a_file s = blob \/ Collision H.
Proof. exact assemble_safe. Qed.
Print Assumptions C01_assemble_safe.

(* The clone arithmetic of fileSeedSegment.clone (expressions generated from fileseed.go, with Go's
   uint64 wrap-around) keeps every copy and the FICLONERANGE call inside the segment's destination
   range, at the source's displacement, block aligned with positive length, and covers the
   segment exactly -- this is the confinement premise of the EWrite event on the clone path. *)
Theorem C01_clone_confined : forall srcOffset srcLength dstOffset bs : N,
  (0 < bs)%N -> (srcOffset mod bs = dstOffset mod bs)%N ->
  (srcOffset + srcLength + bs < 2 ^ 64)%N -> (dstOffset + srcLength + bs < 2 ^ 64)%N ->
  let ops := fs_clone_ops srcOffset srcLength dstOffset bs in
  Forall (fun o => (dstOffset <= op_dst o /\ op_dst o + op_len o <= dstOffset + srcLength /\
                   op_src o + dstOffset = op_dst o + srcOffset)%N) ops /\
  Forall (fun o => match o with
                   | Clone d s l => (d mod bs = 0 /\ s mod bs = 0 /\ l mod bs = 0 /\ 0 < l)%N
                   | Copy _ _ _ => True end) ops /\
  fold_right (fun o acc => (op_len o + acc)%N) 0%N ops = srcLength.
Proof. exact fs_clone_confined. Qed.
Print Assumptions C01_clone_confined.

Theorem C01_null_clone_confined : forall offset length bs : N,
  (0 < bs)%N -> (offset + length + bs < 2 ^ 64)%N ->
  Forall (fun o => (offset <= op_dst o /\ op_dst o + op_len o <= offset + length)%N)
         (ns_clone_ops offset length bs).
Proof. exact ns_clone_confined. Qed.
Print Assumptions C01_null_clone_confined.

(* The code before the "fix:" commit had no guard: confinement was false. *)
Theorem C01_clone_unguarded_refuted :
  exists o, In o (fs_clone_ops_unguarded 100 50 100 4096) /\ (100 + 50 < op_dst o + op_len o)%N.
Proof. exact fs_clone_unguarded_refuted. Qed.
Print Assumptions C01_clone_unguarded_refuted.

(* Non-vacuity: a 3-row index over 6 bytes, plan of two jobs, a schedule in which job 1 first
   writes garbage from a stale seed, fails to validate, takes the chunk from the store, job 0 is
   served in place and by a self-seed-style copy; every job finishes and the file is the blob. *)
Definition exH (b : bytes) : id := fold_right (fun x acc => (x + 3 * acc)%N) 7%N b.
Definition ex_blob : bytes := [1; 2; 3; 4; 1; 2]%N.
Definition ex_idx : Assemble.index := [(exH [1; 2]%N, 2); (exH [3; 4]%N, 2); (exH [1; 2]%N, 2)].
Definition ex_plan : list (nat * nat) := [(0, 1); (2, 2)].
Definition ex_sched : list event :=
  [EStart 1; EWrite 1 4 [9; 9]%N; EValidate 1 2; EStart 0; EStore 0 0 [1; 2]%N; EInPlace 0 1;
   EFinish 0; ESelfCopy 1 2 0; EFinish 1].
Example C01_example :
  plan_ok ex_idx ex_plan /\ index_describes exH ex_idx ex_blob /\
  let s := run (Assemble.step exH ex_idx ex_plan) ex_sched (Assemble.init ex_plan [0; 0; 3; 4; 0; 0]%N) in
  all_finished s = true /\ a_file s = ex_blob.
Proof. vm_compute. repeat split; try reflexivity; repeat constructor. Qed.
