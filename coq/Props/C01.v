(* C01 -- Extract reproduces the indexed blob byte-for-byte.
   Only statements, [exact], Print Assumptions and Examples live here. *)
From Coq Require Import List NArith Arith.
From DS Require Import Gen.Constants Base.Bytes Base.Hash Base.Sched Model.Assemble Model.Clone
     Model.VerifyIndex Model.Sequencer Proofs.AssembleProofs Proofs.CloneProofs Proofs.SequencerProofs
     Proofs.AssembleSeqProofs Proofs.AssembleLive Proofs.AssembleTraceProofs Model.SelfSeed Proofs.SelfSeedProofs
     Model.Pool Proofs.PoolProofs Model.Regenerate Proofs.RegenerateProofs.
Import ListNotations.

(* SAFETY.  For every index, every plan that tiles it, every initial content of the (truncated)
   target, and EVERY sequence of worker events -- seed writes of arbitrary bytes confined to the
   writing job's range (stale, corrupted, changing or self-aliasing seeds are "arbitrary bytes"),
   post-write re-hashes, in-place hits, verified store writes, self-seed copies from finished
   jobs, in any interleaving of any number of workers -- once every job has finished the file is
   exactly the blob the index describes, or H has a collision. *)
Theorem C01_assemble_safe : forall (H : bytes -> id) (idx : Assemble.index) (plan : list (nat * nat)),
  plan_ok idx plan ->
  forall file0 blob (sched : list event),
  index_describes H idx blob -> length file0 = length blob ->
  let s := run (Assemble.step H idx plan) sched (Assemble.init plan file0) in
  all_finished s = true ->
  a_file s = blob \/ Collision H.
Proof. exact assemble_safe. Qed.
Print Assumptions C01_assemble_safe.

(* The clone arithmetic of fileSeedSegment.clone (expressions generated from fileseed.go, with Go's
   uint64 wrap-around) keeps every copy and the FICLONERANGE call inside the segment's destination
   range, at the source's displacement, block aligned with positive length, and covers the
   segment exactly -- this is the confinement premise of the EWrite event on the clone path. *)
Theorem C01_clone_confined : forall srcOffset srcLength dstOffset bs : N,
  (0 < bs)%N -> (srcOffset mod bs = dstOffset mod bs)%N ->
  (srcOffset + srcLength + bs < 2 ^ 64)%N -> (dstOffset + srcLength + bs < 2 ^ 64)%N ->
  let ops := fs_clone_ops srcOffset srcLength dstOffset bs in
  Forall (fun o => (dstOffset <= op_dst o /\ op_dst o + op_len o <= dstOffset + srcLength /\
                   op_src o + dstOffset = op_dst o + srcOffset)%N) ops /\
  Forall (fun o => match o with
                   | Clone d s l => (d mod bs = 0 /\ s mod bs = 0 /\ l mod bs = 0 /\ 0 < l)%N
                   | Copy _ _ _ => True end) ops /\
  fold_right (fun o acc => (op_len o + acc)%N) 0%N ops = srcLength.
Proof. exact fs_clone_confined. Qed.
Print Assumptions C01_clone_confined.

Theorem C01_null_clone_confined : forall offset length bs : N,
  (0 < bs)%N -> (offset + length + bs < 2 ^ 64)%N ->
  Forall (fun o => (offset <= op_dst o /\ op_dst o + op_len o <= offset + length)%N)
         (ns_clone_ops offset length bs).
Proof. exact ns_clone_confined. Qed.
Print Assumptions C01_null_clone_confined.

(* The code before the "fix:" commit had no guard: confinement was false. *)
Theorem C01_clone_unguarded_refuted :
  exists o, In o (fs_clone_ops_unguarded 100 50 100 4096) /\ (100 + 50 < op_dst o + op_len o)%N.
Proof. exact fs_clone_unguarded_refuted. Qed.
Print Assumptions C01_clone_unguarded_refuted.

(* Non-vacuity: a 3-row index over 6 bytes, plan of two jobs, a schedule in which job 1 first
   writes garbage from a stale seed, fails to validate, takes the chunk from the store, job 0 is
   served in place and by a self-seed-style copy; every job finishes and the file is the blob. *)
Definition exH (b : bytes) : id := fold_right (fun x acc => (x + 3 * acc)%N) 7%N b.
Definition ex_blob : bytes := [1; 2; 3; 4; 1; 2]%N.
Definition ex_idx : Assemble.index := [(exH [1; 2]%N, 2); (exH [3; 4]%N, 2); (exH [1; 2]%N, 2)].
Definition ex_plan : list (nat * nat) := [(0, 1); (2, 2)].
Definition ex_sched : list event :=
  [EStart 1; EWrite 1 4 [9; 9]%N; EValidate 1 2; EStart 0; EStore 0 0 [1; 2]%N; EInPlace 0 1;
   EFinish 0; ESelfCopy 1 2 0; EFinish 1].
Example C01_example :
  plan_ok ex_idx ex_plan /\ index_describes exH ex_idx ex_blob /\
  let s := run (Assemble.step exH ex_idx ex_plan) ex_sched (Assemble.init ex_plan [0; 0; 3; 4; 0; 0]%N) in
  all_finished s = true /\ a_file s = ex_blob.
Proof. vm_compute. repeat split; try reflexivity; repeat constructor. Qed.

(* THE PLAN.  For every target index and every list of seeds (file seeds with any index, valid or
   marked invalid, with or without reflinks; null seeds), the plan SeedSequencer.Plan makes
   (model: Model/Sequencer.v, compared entry by entry with the Go code on every run)
   - tiles the index rows: consecutive, non-empty, complete, no entry beyond the last row;
   - every entry with a file source names a seed that is not marked invalid, and the source rows
     are a contiguous stretch of that seed's index carrying exactly the IDs of the rows replaced;
     a null section covers only rows with the null seed's ID and exactly their byte range;
   - an entry without source is a single row (the worker's panic on such a segment is unreachable). *)
Theorem C01_plan_tiles_and_matches : forall (seeds : list seedm) (idx : list ichunk),
  tiles (length idx) 0 (segs (plan seeds idx)) /\ Forall (cand_ok seeds idx) (plan seeds idx).
Proof. exact plan_ok_all. Qed.
Print Assumptions C01_plan_tiles_and_matches.

Theorem C01_plan_sourceless_single : forall seeds idx c,
  In c (plan seeds idx) -> cd_src c = None -> cd_last c = cd_first c.
Proof. exact plan_sourceless_single. Qed.
Print Assumptions C01_plan_sourceless_single.

(* AssembleFile's validate / skip-invalid-seeds loop ends after at most (usable file seeds + 1)
   attempts whatever the validation verdicts are: every failed attempt marks a seed the plan used,
   such a seed was usable, and a marked seed is never planned again. *)
Theorem C01_replan_terminates : forall idx fuel seeds verdicts,
  usable_files seeds < fuel ->
  exists p n seeds', replan fuel seeds idx verdicts = Some (p, n) /\ n <= usable_files seeds + 1 /\
    p = plan seeds' idx /\ length seeds' = length seeds.
Proof. exact replan_terminates. Qed.
Print Assumptions C01_replan_terminates.

(* SAFETY END TO END (model level): the tiling premise of C01_assemble_safe is discharged by the
   sequencer: any seeds, any validation verdicts, the plan the loop ends with, any schedule. *)
Theorem C01_assemble_safe_seq : forall (H : bytes -> id) (idx : Assemble.index) (seeds : list seedm) (verdicts : list verdict),
  exists p n, replan (usable_files seeds + 1) seeds (index_rows idx) verdicts = Some (p, n) /\
    n <= usable_files seeds + 1 /\
    forall file0 blob (sched : list event),
      index_describes H idx blob -> length file0 = length blob ->
      let s := run (Assemble.step H idx (segs p)) sched (Assemble.init (segs p) file0) in
      all_finished s = true -> a_file s = blob \/ Collision H.
Proof. exact assemble_safe_seq. Qed.
Print Assumptions C01_assemble_safe_seq.

(* NO DEAD END.  When the store holds a chunk with the right digest and size for every row, then
   from EVERY reachable state of the assembly (whatever the seeds wrote, whichever jobs were
   started, validated or finished in whatever interleaving) there is a continuation after which
   all jobs are finished -- start the idle jobs, take the rows of the unfinished jobs from the
   store, finish.  With C01_assemble_safe the file then is the blob. *)
Theorem C01_assemble_can_finish : forall (H : bytes -> id) (idx : Assemble.index) (plan : list (nat * nat)),
  plan_ok idx plan ->
  forall store : nat -> bytes,
  (forall i, i < length idx -> N.eqb (H (store i)) (id_of idx i) = true /\ length (store i) = size_of idx i) ->
  forall file0 (sched : list event), length file0 = start_of idx (length idx) ->
  let s := run (Assemble.step H idx plan) sched (Assemble.init plan file0) in
  exists cont, all_finished (run (Assemble.step H idx plan) cont s) = true.
Proof. exact assemble_can_finish. Qed.
Print Assumptions C01_assemble_can_finish.

(* THE TIE of the event model to assemble.go is a trace validation: the verif build reports the
   events of the worker goroutines of every successful traced run (job start, seed segment written
   -- with the bytes found in the job's range --, re-hash passed, in-place hit, store write, self-seed
   copy, ss.add), and the extracted Assemble.step must accept every one of them in order
   (run_strict: the guard of each event holds of the model's file).  An accepted trace is an
   execution of the model, so the safety theorem applies to the run the code performed: *)
Theorem C01_trace_valid_file : forall (H : bytes -> id) (idx : Assemble.index) (plan : list (nat * nat)),
  plan_ok idx plan ->
  forall file0 blob (evs : list event) s',
  index_describes H idx blob -> length file0 = length blob ->
  run_strict (Assemble.step H idx plan) evs (Assemble.init plan file0) = Some s' ->
  all_finished s' = true ->
  a_file s' = blob \/ Collision H.
Proof. exact assemble_trace_valid. Qed.
Print Assumptions C01_trace_valid_file.

(* THE SELF SEED (selfseed.go).  Workers report finished segments with add() in any order; the
   seed offers a row only below its write pointer.  For EVERY order of reports (duplicates and
   gaps included): a row handed out by getChunk(id) carries that id, is the least such row, and
   lies inside a segment that was reported -- i.e. inside a finished job, which is the guard
   [finished s src] of the ESelfCopy event in Model/Assemble.v.  (Model compared with
   selfSeed.add/getChunk on generated report orders on every run.) *)
Theorem C01_selfseed_sound : forall (ids : list id) (adds : list (nat * nat)) (x : id) (p : nat),
  ss_get ids (ss_run adds) x = Some p ->
  nth_error ids p = Some x /\ covered_by adds p /\ (forall q, q < p -> nth_error ids q <> Some x).
Proof. exact selfseed_sound. Qed.
Print Assumptions C01_selfseed_sound.

(* NEVER HANGS (goroutine protocol).  AssembleFile's feeder / N workers / errgroup / context is the
   skeleton of Model/Pool.v (jobs = plan entries; job_ok k = "the body of job k returned nil"; the
   environment may cancel at any moment; Plan.Validate is the same skeleton).  For every number of
   jobs, every outcome of every job body, every worker count >= 1, every schedule and every
   cancellation point: a non-final state has an enabled thread (no deadlock, no lost hand-over),
   every run of enabled steps is at most mu(init) long (termination under any scheduler), and nil
   is returned only when every job ran and succeeded.  Assumed, not proved: each job BODY returns
   (finite file I/O, one store call per chunk, selfSeed's mutex held only inside add/getChunk). *)
Theorem C01_pool_deadlock_free : forall njobs job_ok can_cancel nw sched,
  let s := run (Pool.step njobs job_ok can_cancel) sched (Pool.init nw) in
  0 < nw -> final s = false -> exists t, Pool.step njobs job_ok can_cancel s t <> None.
Proof. exact pool_deadlock_free. Qed.
Print Assumptions C01_pool_deadlock_free.

Theorem C01_pool_terminates : forall njobs job_ok can_cancel nw sched s',
  run_strict (Pool.step njobs job_ok can_cancel) sched (Pool.init nw) = Some s' ->
  length sched <= mu njobs (Pool.init nw).
Proof. exact pool_terminates. Qed.
Print Assumptions C01_pool_terminates.

Theorem C01_pool_nil_means_all_jobs : forall njobs job_ok can_cancel nw sched,
  let s := run (Pool.step njobs job_ok can_cancel) sched (Pool.init nw) in
  final s = true -> pool_result s = RNil ->
  forall k, k < njobs -> In k (processed s) /\ job_ok k = true.
Proof. exact pool_sound. Qed.
Print Assumptions C01_pool_nil_means_all_jobs.

(* Non-vacuity: target rows 1 2 3 1 2; a null seed, a seed (9 1 2 3) without reflinks, a reflink
   seed (2 3 1 2 4).  Rows 0-2 and 3-4 come from seed 1 (ties go to the first seed); with seed 1
   marked invalid rows 0-1 and 2-4 come from seed 2; after one failed validation of seed 1 the
   loop ends at the second attempt with that plan; with only a null seed for id 3 and the
   invalid seed, every row is its own entry and only row 2 has a (null) source. *)
Definition ex_rows : list ichunk := index_rows [(1%N, 5); (2%N, 6); (3%N, 7); (1%N, 5); (2%N, 6)].
Definition ex_seed1 (inv : bool) : seedm := SFile false inv (index_rows [(9%N, 1); (1%N, 5); (2%N, 6); (3%N, 7)]).
Definition ex_seed2 : seedm := SFile true false (index_rows [(2%N, 6); (3%N, 7); (1%N, 5); (2%N, 6); (4%N, 1)]).
Definition ex_show (p : list cand) : list (nat * nat * nat) :=
  map (fun c => (cd_first c, cd_last c,
                 match cd_src c with None => 0 | Some (FromFile k _) => 10 + k | Some (FromNull k _ _) => 20 + k end)) p.
Example C01_plan_example :
  ex_show (plan [SNull false 0%N; ex_seed1 false; ex_seed2] ex_rows) = [(0, 2, 11); (3, 4, 11)] /\
  ex_show (plan [SNull false 0%N; ex_seed1 true; ex_seed2] ex_rows) = [(0, 1, 12); (2, 4, 12)] /\
  option_map (fun pn => (ex_show (fst pn), snd pn))
    (replan 3 [SNull false 0%N; ex_seed1 false; ex_seed2] ex_rows [[1]]) = Some ([(0, 1, 12); (2, 4, 12)], 2) /\
  ex_show (plan [SNull false 3%N; ex_seed1 true] ex_rows) = [(0, 0, 0); (1, 1, 0); (2, 2, 20); (3, 3, 0); (4, 4, 0)].
Proof. vm_compute. repeat split. Qed.

(* THE VALIDATE LOOP WITH THE SEEDS' DATA (Model/Regenerate.v).  Here the verdict of Plan.Validate is
   not an oracle: every file seed carries the (static) bytes of its file and a segment validates
   when each of its chunks, read at the start/size the SEED index gives, has the digest the seed
   index gives.  Which of the failing seeds the racing workers mark is the scheduler's choice.
   With --regenerate-invalid-seeds the loop ends after at most (stale seeds + 1) attempts -- a
   stale seed is one whose index does not describe its data, or which is marked -- with a plan all
   of whose segments validate; [index_from_file] is Model/Chunker.v's chunker with the seed index'
   own parameters. *)
Theorem C01_regenerate_loop_ends : forall (H : bytes -> id) (min max : nat) (d : N),
  Chunker.W <= min -> min <= max -> 0 < max ->
  forall idx ds choices,
  exists o, Regenerate.vloop H (index_from_file H min max d) Regen (S (stale H ds)) ds idx choices = Some o /\
    finished H ds idx o /\ o_attempts o <= stale H ds + 1.
Proof. exact regenerate_loop_ends. Qed.
Print Assumptions C01_regenerate_loop_ends.

(* the same for any regenerator whose result describes the data it was given *)
Theorem C01_regenerate_loop_ends_gen : forall (H : bytes -> id) (chunkf : bytes -> list ichunk),
  (forall d, seg_valid H d (chunkf d) = true) ->
  forall idx fuel ds choices, stale H ds < fuel ->
  exists o, Regenerate.vloop H chunkf Regen fuel ds idx choices = Some o /\ finished H ds idx o /\ o_attempts o <= stale H ds + 1.
Proof. exact vloop_regen_terminates. Qed.
Print Assumptions C01_regenerate_loop_ends_gen.

(* --skip-invalid-seeds with computed verdicts: at most (usable file seeds + 1) attempts, and the
   final plan validates.  (C01_replan_terminates is the same bound for arbitrary verdicts.) *)
Theorem C01_skip_loop_ends : forall (H : bytes -> id) (chunkf : bytes -> list ichunk) idx fuel ds choices,
  dusable ds < fuel ->
  exists o, Regenerate.vloop H chunkf Skip fuel ds idx choices = Some o /\ finished H ds idx o /\ o_attempts o <= dusable ds + 1.
Proof. exact vloop_skip_terminates. Qed.
Print Assumptions C01_skip_loop_ends.

(* default action: one attempt, which succeeds exactly when no segment of the first plan is stale *)
Theorem C01_bail_out : forall (H : bytes -> id) (chunkf : bytes -> list ichunk) idx fuel ds choices,
  exists o, Regenerate.vloop H chunkf Bail (S fuel) ds idx choices = Some o /\ o_attempts o = 1 /\
    o_plan o = plan (map fst ds) idx /\
    (o_ok o = true <-> truly_bad H ds (plan (map fst ds) idx) = []).
Proof. exact vloop_bail. Qed.
Print Assumptions C01_bail_out.

(* WHAT A VALIDATED PLAN HANDS TO THE WORKERS: every row a file seed provides is, in that seed's
   data, a byte string in range whose digest is the id the TARGET index has at that row. *)
Theorem C01_validated_plan_sources : forall (H : bytes -> id) ds idx c k m j,
  truly_bad H ds (plan (map fst ds) idx) = [] ->
  In c (plan (map fst ds) idx) -> cd_src c = Some (FromFile k m) -> j < length m ->
  exists sc row, nth_error m j = Some sc /\ nth_error idx (cd_first c + j) = Some row /\
    Sequencer.c_id sc = Sequencer.c_id row /\ chunk_valid H (data_of ds k) sc = true.
Proof. exact validated_plan_sources. Qed.
Print Assumptions C01_validated_plan_sources.

(* IndexFromFile's rows describe the data that was chunked *)
Theorem C01_index_from_file_describes : forall (H : bytes -> id) (min max : nat) (d : N),
  Chunker.W <= min -> min <= max -> 0 < max ->
  forall data, seg_valid H data (index_from_file H min max d data) = true.
Proof. exact index_from_file_describes. Qed.
Print Assumptions C01_index_from_file_describes.

(* Non-vacuity: a seed whose index is stale (its second row claims id 2 where the data hashes to
   something else under the toy digest "sum of bytes"): bail-out fails at attempt 1, skip ends at
   attempt 2 without the seed, regenerate ends at attempt 2 with the seed's real rows in use. *)
Definition ex_H (b : bytes) : id := fold_right N.add 0%N b.
Definition ex_regen (d : bytes) : list ichunk := rows_of_chunks ex_H 0 (map (fun x => [x]) d).
Definition ex_target : list ichunk := index_rows [(1%N, 1); (7%N, 1); (3%N, 1)].
Definition ex_ds : list dseed := [(SFile false false (index_rows [(1%N, 1); (7%N, 1); (3%N, 1)]), [1%N; 2%N; 3%N])].
Example C01_vloop_example :
  option_map (fun o => (o_ok o, o_attempts o, ex_show (o_plan o))) (Regenerate.vloop ex_H ex_regen Bail 5 ex_ds ex_target [])
    = Some (false, 1, [(0, 2, 10)]) /\
  option_map (fun o => (o_ok o, o_attempts o, ex_show (o_plan o))) (Regenerate.vloop ex_H ex_regen Skip 5 ex_ds ex_target [])
    = Some (true, 2, [(0, 0, 0); (1, 1, 0); (2, 2, 0)]) /\
  option_map (fun o => (o_ok o, o_attempts o, ex_show (o_plan o))) (Regenerate.vloop ex_H ex_regen Regen 5 ex_ds ex_target [])
    = Some (true, 2, [(0, 0, 10); (1, 1, 0); (2, 2, 10)]) /\
  stale ex_H ex_ds = 1 /\ dusable ex_ds = 1.
Proof. vm_compute. repeat split. Qed.
