(* C18 -- unpacking an archive never writes outside the destination directory.
   Only statements, [exact], and Print Assumptions live here.

   Vocabulary (Model/FSLinks.v, Model/ArchiveNames.v, Model/Untar.v):
     untar pol opts root elems fs   UnTar + the LocalFS writer run on the element sequence
                                    [elems] (arbitrary: the attacker's) over the tree [fs];
                                    [pol] = Fixed is the decoder as it is, PreFix the decoder
                                    before commit 41ef764; result: final tree, the canonical
                                    places written (w_touched), outcome
     rootstr p                      the absolute path string "/p1/p2/.."
     beneath root q                 q is the directory root or lies below it
     stat q fs                      what lstat + reading shows at the canonical place q
     is_dir_at p fs                 p is a chain of real directories (no link) ending in a directory *)
From Coq Require Import List NArith Bool.
From DS Require Import Base.Bytes Base.FS Base.GoPath Model.FSLinks Model.ArchiveNames Model.Untar
     Proofs.ArchiveNamesProofs Proofs.FSLinksProofs Proofs.UntarProofs Proofs.UntarWitness.
Import ListNotations.

(* The decoder as it is now (c6596cf) confines the writer.  For EVERY element sequence
   (any names, any nesting, link-then-same-name orders, goodbyes in excess, a first entry of
   any kind), every writer option, and every initial tree in which the PARENT chain of the
   destination [root] (a clean absolute path, not "/") consists of real directories and
   [root] itself is not a symbolic link -- it may be a directory, a file, or not exist yet;
   what is inside and outside of it is arbitrary, including links left by an earlier
   extraction:
     - every place the run writes (creates, replaces, removes, chowns, chmods, touches) is
       the destination or lies below it, also when the run ends with an error half way;
     - lstat and content of every place that is not beneath the destination are unchanged;
     - the fuel of the model's loop is never used up. *)
Theorem C18_untar_confined : forall (o : opts) (root : path) (elems : list elem) (fs : node),
  root <> [] -> Forall real_elem root -> parent_ok root fs -> not_link_at root fs ->
  let r := untar Fixed o (rootstr root) elems fs in
  Forall (fun p => beneath root p = true) (w_touched (fst r)) /\
  (forall q, beneath root q = false -> stat q (w_fs (fst r)) = stat q fs) /\
  snd r <> OutOfFuel.
Proof. exact untar_confined. Qed.
Print Assumptions C18_untar_confined.

(* What the discovery stage of the harness relies on (cmd/vh/c18disc.go): every place the
   run writes is what the kernel makes of filepath.Join(root, Name) for the Name of a node
   the decoder yields for this archive -- the writer of the model passes no other path
   (temporary, partial or lock name) to the kernel.  A writer that does is outside the model;
   the harness finds such names from a traced run and plants links there. *)
Theorem C18_writes_only_entry_paths : forall (o : opts) (root : path) (elems : list elem) (fs : node),
  root <> [] -> Forall real_elem root -> parent_ok root fs -> not_link_at root fs ->
  let r := untar Fixed o (rootstr root) elems fs in
  Forall (fun p => beneath root p = true /\
                   exists nd base, In (nd, base) (nodes_of Fixed elems) /\
                                   dst_of (rootstr root) (node_name nd) = rootstr p)
         (w_touched (fst r)) /\
  (forall q, beneath root q = false -> stat q (w_fs (fst r)) = stat q fs).
Proof. exact untar_writes_entry_paths. Qed.
Print Assumptions C18_writes_only_entry_paths.

(* the usual case: the destination exists and is a real directory *)
Theorem C18_untar_confined_dir : forall (o : opts) (root : path) (elems : list elem) (fs : node),
  root <> [] -> Forall real_elem root -> is_dir_at root fs ->
  let r := untar Fixed o (rootstr root) elems fs in
  Forall (fun p => beneath root p = true) (w_touched (fst r)) /\
  (forall q, beneath root q = false -> stat q (w_fs (fst r)) = stat q fs) /\
  snd r <> OutOfFuel.
Proof. exact untar_confined_dir. Qed.
Print Assumptions C18_untar_confined_dir.

(* The name discipline behind it: started in a directory "." / "c1/../cn" of validated
   components ([real_elem]: not "", ".", "..", no '/'), Next hands the writer a Name that is
   a prefix of that directory plus at most one validated component -- nameless only for the
   first node of the archive, nothing at all after a root entry that is not a directory --
   and leaves a.dir in the same form. *)
Theorem C18_archive_names : forall ds cs inp nd base dir' rest,
  Forall real_elem cs -> archive_next Fixed ds (rel cs) inp = NNode nd base dir' rest ->
  ds <> LeafRoot /\
  exists cs0, prefix_of cs0 cs /\ Forall real_elem (cs0 ++ opt_comp base) /\
              node_name nd = rel (cs0 ++ opt_comp base) /\ (base = [] -> ds = Fresh) /\
              exists cs', dir' = rel cs' /\ Forall real_elem cs'.
Proof. exact archive_names_components. Qed.
Print Assumptions C18_archive_names.

(* path.Join / filepath.Dir on such directories are list operations (Base/GoPath.v: Clean = clean_spec) *)
Theorem C18_join_is_snoc : forall cs n, Forall real_elem cs -> real_elem n ->
  GoPath.join [rel cs; n] = rel (cs ++ [n]).
Proof. exact join_rel_name. Qed.
Print Assumptions C18_join_is_snoc.

Theorem C18_dir_is_removelast : forall cs, Forall real_elem cs -> GoPath.dir (rel cs) = rel (removelast cs).
Proof. exact dir_rel. Qed.
Print Assumptions C18_dir_is_removelast.

(* Non-vacuity: the hypotheses hold for /sb/dest in the witness tree, and the runs that
   matter behave as the Go code does: a link followed by a file of the same name is replaced
   inside the destination; a link followed by a directory of the same name stops the run
   (the Lstat of CreateDir); a link left in the destination by an earlier extraction stops it
   too; a first entry that is a regular file replaces the destination itself and everything
   after it fails. *)
Example C18_hypotheses_satisfiable : w_root <> [] /\ Forall real_elem w_root /\ is_dir_at w_root wit_fs.
Proof. split; [discriminate|]. split; [exact w_root_real|exact w_root_dir]. Qed.

Example C18_link_then_file :
  snd (untar Fixed w_opts (rootstr w_root) w_benign wit_fs) = Done /\
  stat (w_root ++ [w_s]) (w_fs (fst (untar Fixed w_opts (rootstr w_root) w_benign wit_fs)))
    = Some (EFile (mkMeta 420 0 0 1000 []) [6%N]) /\
  stat w_victim (w_fs (fst (untar Fixed w_opts (rootstr w_root) w_benign wit_fs))) = stat w_victim wit_fs /\
  length (w_touched (fst (untar Fixed w_opts (rootstr w_root) w_benign wit_fs))) = 19.
Proof. exact benign_run. Qed.

Example C18_link_then_dir_stops :
  snd (untar Fixed w_opts (rootstr w_root) w_link_then_dir wit_fs) = WriteError EEXIST /\
  stat w_victim (w_fs (fst (untar Fixed w_opts (rootstr w_root) w_link_then_dir wit_fs))) = stat w_victim wit_fs.
Proof. exact link_then_dir_stops. Qed.

Example C18_pre_existing_link_stops :
  snd (untar Fixed w_opts (rootstr w_root) w_into_pre wit_fs_pre) = WriteError EEXIST /\
  stat w_victim (w_fs (fst (untar Fixed w_opts (rootstr w_root) w_into_pre wit_fs_pre))) = stat w_victim wit_fs_pre.
Proof. exact pre_existing_link_stops. Qed.

Example C18_file_as_root :
  snd (untar Fixed w_opts (rootstr w_root) w_file_root wit_fs) = DecodeError /\
  stat w_root (w_fs (fst (untar Fixed w_opts (rootstr w_root) w_file_root wit_fs))) = Some (EFile (mkMeta 420 0 0 1000 []) [1%N]) /\
  stat w_victim (w_fs (fst (untar Fixed w_opts (rootstr w_root) w_file_root wit_fs))) = stat w_victim wit_fs.
Proof. exact file_root_run. Qed.

(* the destination need not exist: a directory as the root entry creates it *)
Example C18_absent_destination_created :
  parent_ok w_root wit_fs_absent /\ not_link_at w_root wit_fs_absent /\ ~ is_dir_at w_root wit_fs_absent /\
  snd (untar Fixed w_opts (rootstr w_root) w_benign wit_fs_absent) = Done /\
  is_dir_at w_root (w_fs (fst (untar Fixed w_opts (rootstr w_root) w_benign wit_fs_absent))).
Proof. exact absent_dest_created. Qed.

(* ... and a link as the root entry is created AT the destination path, and that is all *)
Example C18_root_link_now :
  snd (untar Fixed w_opts (rootstr w_root) w_root_link wit_fs_absent) = DecodeError /\
  stat w_root (w_fs (fst (untar Fixed w_opts (rootstr w_root) w_root_link wit_fs_absent)))
    = Some (ELink (mkMeta 511 0 0 1000 []) w_out) /\
  stat w_victim (w_fs (fst (untar Fixed w_opts (rootstr w_root) w_root_link wit_fs_absent))) = stat w_victim wit_fs_absent.
Proof. exact root_link_now. Qed.

(* the archives of the refutations below are refused by the decoder as it is now *)
Example C18_witnesses_rejected_now :
  snd (untar Fixed w_opts (rootstr w_root) w_nameless wit_fs) = DecodeError /\
  snd (untar Fixed w_opts (rootstr w_root) w_dotdot wit_fs) = DecodeError.
Proof. split; [exact nameless_rejected_now|exact dotdot_rejected]. Qed.

(* The decoder of commit b7b089e ([Fix2]) did NOT confine the writer when the destination
   does not exist yet (or is a file): a root entry that is a symbolic link is created AT the
   destination path (unlink: ENOENT, ignored), and every following entry is written through
   it.  UnTar returns nil; a file outside the destination is overwritten.  Repaired by
   c6596cf (nothing is accepted after a root entry that is not a directory). *)
Theorem C18_untar_leafroot_refuted :
  exists (elems : list elem) (fs : node) (root victim : path),
    root <> [] /\ Forall real_elem root /\ parent_ok root fs /\ not_link_at root fs /\ beneath root victim = false /\
    snd (untar Fix2 (mkOpts false false) (rootstr root) elems fs) = Done /\
    stat victim (w_fs (fst (untar Fix2 (mkOpts false false) (rootstr root) elems fs))) <> stat victim fs.
Proof. exact untar_leafroot_refuted. Qed.
Print Assumptions C18_untar_leafroot_refuted.

(* The decoder of commit 41ef764 (filename elements checked, [Fix1]) did NOT confine the
   writer -- found by this check, repaired by b7b089e.  An Entry that no Filename element
   precedes kept the name "", path.Join(a.dir, "") is a.dir itself, CreateFile replaced the
   current directory by a file (os.RemoveAll), CreateSymlink then replaced that file by a
   link, and the next entry was written through the link.  Every Filename element of the
   witness is a valid single component; the hypotheses of C18_untar_confined hold; UnTar
   returns nil; a file outside the destination is overwritten. *)
Theorem C18_untar_nameless_refuted :
  exists (elems : list elem) (fs : node) (root victim : path),
    Forall (fun e => match e with EFilename n => bad_name n = false | _ => True end) elems /\
    root <> [] /\ Forall real_elem root /\ is_dir_at root fs /\ beneath root victim = false /\
    snd (untar Fix1 (mkOpts false false) (rootstr root) elems fs) = Done /\
    stat victim (w_fs (fst (untar Fix1 (mkOpts false false) (rootstr root) elems fs))) <> stat victim fs.
Proof. exact untar_nameless_refuted. Qed.
Print Assumptions C18_untar_nameless_refuted.

(* Before commit 41ef764 ([PreFix]) a Filename element "../out/x" was enough. *)
Theorem C18_untar_dotdot_refuted :
  exists (elems : list elem) (fs : node) (root victim : path),
    root <> [] /\ Forall real_elem root /\ is_dir_at root fs /\ beneath root victim = false /\
    snd (untar PreFix (mkOpts false false) (rootstr root) elems fs) = Done /\
    stat victim (w_fs (fst (untar PreFix (mkOpts false false) (rootstr root) elems fs))) <> stat victim fs.
Proof. exact untar_dotdot_refuted. Qed.
Print Assumptions C18_untar_dotdot_refuted.
