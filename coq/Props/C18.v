(* C18 -- unpacking an archive never writes outside the destination directory.
   Only statements, [exact], and Print Assumptions live here.

   Vocabulary (Model/FSLinks.v, Model/ArchiveNames.v, Model/Untar.v):
     untar pol opts root elems fs   UnTar + the LocalFS writer run on the element sequence
                                    [elems] (arbitrary: the attacker's) over the tree [fs];
                                    [pol] = Fixed is the decoder as it is, PreFix the decoder
                                    before commit 41ef764; result: final tree, the canonical
                                    places written (w_touched), outcome
     rootstr p                      the absolute path string "/p1/p2/.."
     beneath root q                 q is the directory root or lies below it
     stat q fs                      what lstat + reading shows at the canonical place q
     is_dir_at p fs                 p is a chain of real directories (no link) ending in a directory *)
From Coq Require Import List NArith Bool.
From DS Require Import Base.Bytes Base.FS Base.GoPath Model.FSLinks Model.ArchiveNames Model.Untar
     Proofs.UntarWitness.
Import ListNotations.

(* The decoder of commit 41ef764 (entry names checked, [Fix1]) did NOT confine the writer: an Entry that no Filename element
   precedes keeps the name "", path.Join(a.dir, "") is a.dir itself, CreateFile replaces the
   current directory by a file (os.RemoveAll), CreateSymlink then replaces that file by a
   link, and the next entry is written through the link.  Every Filename element of the
   witness is a valid single component; UnTar returns nil; /sb/out/x is overwritten. *)
Theorem C18_untar_nameless_refuted :
  exists (elems : list elem) (fs : node) (root victim : path),
    Forall (fun e => match e with EFilename n => bad_name n = false | _ => True end) elems /\
    is_dir_at root fs /\ beneath root victim = false /\
    snd (untar Fix1 (mkOpts false false) (rootstr root) elems fs) = Done /\
    stat victim (w_fs (fst (untar Fix1 (mkOpts false false) (rootstr root) elems fs))) <> stat victim fs.
Proof.
  exists w_nameless, wit_fs, w_root, w_victim. split; [exact nameless_names_valid|exact nameless_escapes].
Qed.
Print Assumptions C18_untar_nameless_refuted.

(* Before commit 41ef764 a Filename element "../out/x" was enough. *)
Theorem C18_untar_dotdot_refuted :
  exists (elems : list elem) (fs : node) (root victim : path),
    is_dir_at root fs /\ beneath root victim = false /\
    snd (untar PreFix (mkOpts false false) (rootstr root) elems fs) = Done /\
    stat victim (w_fs (fst (untar PreFix (mkOpts false false) (rootstr root) elems fs))) <> stat victim fs.
Proof. exists w_dotdot, wit_fs, w_root, w_victim. exact dotdot_escapes. Qed.
Print Assumptions C18_untar_dotdot_refuted.
