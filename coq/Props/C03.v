(* C03 -- no chunk is delivered that does not hash to the requested ID.
   Only statements, [exact], Print Assumptions and Examples live here.

   H (digest), zcomp and zdecomp (zstd) are arbitrary functions: nothing is
   assumed about them.  A world assigns ARBITRARY bytes to every backend slot
   and contains an adaptive fault oracle (I/O errors, short reads, bytes
   replaced in flight), so "for every world" covers every bit flip, every
   truncation length, empty objects, another chunk's object, a valid zstd frame
   of other data, raw data in a compressed slot and vice versa. *)
From Coq Require Import List NArith Bool Arith.
From DS Require Import Base.Bytes Base.Hash Model.ChunkVerify Model.VerifyIndex Proofs.ChunkVerifyProofs.
Import ListNotations.

(* NewChunkFromStorage with verification on: the chunk decodes to bytes that hash
   to the requested id.  The only other possibility the code has: the all-zero id
   was requested and the object is undecodable/empty (Chunk.ID returns ChunkID{} on
   a Data error); that chunk can never yield bytes. *)
Theorem C03_from_storage_verified :
  forall (H : bytes -> id) (zdecomp : bytes -> option bytes) (i : id) (raw : bytes) (cv : convs) (c : chunk),
  new_chunk_from_storage H zdecomp i raw cv false = Ok c ->
  (exists b, data_of zdecomp c = Some b /\ H b = i) \/ (i = zero_id /\ data_of zdecomp c = None).
Proof. intros H zd i raw cv c E. eapply verified_data, from_storage_verified_strong, E. Qed.
Print Assumptions C03_from_storage_verified.

(* The corner exists: every undecodable or empty object is accepted under the all-zero id. *)
Theorem C03_zero_id_accepts_undecodable :
  forall (H : bytes -> id) (zdecomp : bytes -> option bytes) (raw : bytes) (cv : convs),
  (if nonempty raw then from_storage zdecomp cv raw else None) = None ->
  exists c, new_chunk_from_storage H zdecomp zero_id raw cv false = Ok c /\ data_of zdecomp c = None.
Proof. exact zero_id_accepts_undecodable. Qed.
Print Assumptions C03_zero_id_accepts_undecodable.

(* Every store stack in which no store on the way to the caller has verification
   disabled, in EVERY world: a chunk that is returned decodes to bytes hashing to the
   requested id (or is the data-less all-zero-id corner). *)
Theorem C03_stack_sound :
  forall (H : bytes -> id) (zcomp : bytes -> bytes) (zdecomp : bytes -> option bytes)
         (s : stack) (i : id) (w w' : world) (c : chunk),
  verifying s = true ->
  get H zcomp zdecomp s i w = (Ok c, w') ->
  (exists b, data_of zdecomp c = Some b /\ H b = i) \/ (i = zero_id /\ data_of zdecomp c = None).
Proof. intros H zc zd s i w w' c V E. eapply verified_data, stack_sound_strong; eauto. Qed.
Print Assumptions C03_stack_sound.

(* "... unless verification was explicitly disabled for that store": for every stack,
   a returned chunk is verified, or the stack has verification disabled somewhere on the
   way and the chunk is the unverified wrapper of some raw storage bytes. *)
Theorem C03_stack_sound_skip :
  forall (H : bytes -> id) (zcomp : bytes -> bytes) (zdecomp : bytes -> option bytes)
         (s : stack) (i : id) (w w' : world) (c : chunk),
  get H zcomp zdecomp s i w = (Ok c, w') ->
  ((exists b, data_of zdecomp c = Some b /\ H b = i) \/ (i = zero_id /\ data_of zdecomp c = None))
  \/ (verifying s = false /\ exists raw cv, c = mkChunk [] raw cv i true).
Proof.
  intros H zc zd s i w w' c E. destruct (stack_sound_any H zc zd s i w c w' E) as [V|U].
  - left. eapply verified_data, V.
  - right. exact U.
Qed.
Print Assumptions C03_stack_sound_skip.

(* Non-vacuity.  H = sum of bytes, "zstd" = prefix byte 7. *)
Definition ex_H (b : bytes) : id := fold_right N.add 0%N b.
Definition ex_zc (b : bytes) : bytes := 7%N :: b.
Definition ex_zd (b : bytes) : option bytes := match b with 7%N :: r => Some r | _ => None end.
Definition ex_world (obj : nat -> id -> option bytes) : world :=
  mkWorld obj (fun _ => 0) [] (fun _ _ => NoFault).
Definition ex_leaf k skip := W (WLeaf k (mkLopts BLocal skip false 0)).
Definition ex_result (x : res chunk * world) : res (option bytes) :=
  match fst x with Ok c => Ok (data_of ex_zd c) | Err e => Err e end.

(* a good object is served; a flipped one, a truncated one and another chunk's object are not *)
Example C03_ex_good : ex_result (get ex_H ex_zc ex_zd (ex_leaf 0 false) 6%N (ex_world (fun _ _ => Some [7; 1; 2; 3]%N)))
  = Ok (Some [1; 2; 3]%N).
Proof. vm_compute. reflexivity. Qed.
Example C03_ex_flip : ex_result (get ex_H ex_zc ex_zd (ex_leaf 0 false) 6%N (ex_world (fun _ _ => Some [7; 1; 2; 4]%N)))
  = Err EInvalid.
Proof. vm_compute. reflexivity. Qed.
Example C03_ex_trunc : ex_result (get ex_H ex_zc ex_zd (ex_leaf 0 false) 6%N (ex_world (fun _ _ => Some []%N)))
  = Err EInvalid.
Proof. vm_compute. reflexivity. Qed.
(* with verification disabled the flipped object is delivered *)
Example C03_ex_skip : ex_result (get ex_H ex_zc ex_zd (ex_leaf 0 true) 6%N (ex_world (fun _ _ => Some [7; 1; 2; 4]%N)))
  = Ok (Some [1; 2; 4]%N).
Proof. vm_compute. reflexivity. Qed.
(* a poisoned cache in front of a good store: fails; with a repairable cache: repaired and served *)
Definition ex_objs (k : nat) (i : id) : option bytes :=
  match k with 0 => Some [7; 1; 2; 3]%N | _ => Some [7; 9]%N end.
Example C03_ex_cache : ex_result (get ex_H ex_zc ex_zd
    (Cache (ex_leaf 0 false) (WLeaf 1 (mkLopts BLocal false false 0))) 6%N (ex_world ex_objs)) = Err EInvalid.
Proof. vm_compute. reflexivity. Qed.
Example C03_ex_repair :
  let r := get ex_H ex_zc ex_zd (Cache (ex_leaf 0 false) (WRepair (WLeaf 1 (mkLopts BLocal false false 0)))) 6%N (ex_world ex_objs) in
  ex_result r = Ok (Some [1; 2; 3]%N) /\ w_obj (snd r) 1 6%N = Some [7; 1; 2; 3]%N.
Proof. vm_compute. split; reflexivity. Qed.
