(* C03 -- no chunk is delivered that does not hash to the requested ID.
   Only statements, [exact], Print Assumptions and Examples live here.

   H (digest), zcomp and zdecomp (zstd) are arbitrary functions: nothing is assumed about
   them.  A [world] assigns ARBITRARY bytes to every backend slot and contains an adaptive
   fault oracle (I/O errors, short reads, bytes replaced at rest or in flight) that sees the
   whole history of raw operations, so "for every world" covers every bit flip, every
   truncation length, empty objects, another chunk's object, a valid zstd frame of other
   data, raw data in a compressed slot and vice versa, and every fault sequence. *)
From Coq Require Import List NArith Bool Arith.
From DS Require Import Base.Bytes Base.Hash Model.ChunkVerify Model.VerifyIndex Proofs.ChunkVerifyProofs.
Import ListNotations.

(* NewChunkFromStorage / NewChunkWithID with verification on: the chunk yields bytes that
   hash to the requested id. *)
Theorem C03_from_storage_verified :
  forall (H : bytes -> id) (zdecomp : bytes -> option bytes) (i : id) (raw : bytes) (cv : convs) (c : chunk),
  new_chunk_from_storage H zdecomp i raw cv false = Ok c ->
  exists b, data_of zdecomp c = Some b /\ H b = i.
Proof. exact from_storage_verified. Qed.
Print Assumptions C03_from_storage_verified.

Theorem C03_with_id_verified :
  forall (H : bytes -> id) (zdecomp : bytes -> option bytes) (i : id) (b : bytes) (c : chunk),
  new_chunk_with_id H zdecomp i b false = Ok c -> verified H zdecomp i c.
Proof. exact with_id_verified_strong. Qed.
Print Assumptions C03_with_id_verified.

(* An object from which no plain data can be produced (empty, or the decoder fails) is
   rejected as ChunkInvalid whatever id was asked for ... *)
Theorem C03_undecodable_rejected :
  forall (H : bytes -> id) (zdecomp : bytes -> option bytes) (i : id) (raw : bytes) (cv : convs),
  (if nonempty raw then from_storage zdecomp cv raw else None) = None ->
  new_chunk_from_storage H zdecomp i raw cv false = Err EInvalid.
Proof. exact undecodable_rejected. Qed.
Print Assumptions C03_undecodable_rejected.

(* ... which the constructor as it was before commit 27b0229 did not do: under the all-zero
   id it accepted every such object (Chunk.ID returns ChunkID{} when Data fails), so the
   property "a returned chunk yields bytes hashing to the requested id" was false for it. *)
Theorem C03_pre27b0229_from_storage_refuted :
  forall (H : bytes -> id) (zdecomp : bytes -> option bytes) (raw : bytes) (cv : convs),
  (if nonempty raw then from_storage zdecomp cv raw else None) = None ->
  exists c, new_chunk_from_storage_pre27b0229 H zdecomp zero_id raw cv false = Ok c /\ data_of zdecomp c = None.
Proof. exact pre27b0229_zero_id_accepts_undecodable. Qed.
Print Assumptions C03_pre27b0229_from_storage_refuted.

(* Every store stack -- leaves on any backend, desync's HTTP handler and the casync protocol
   as network hops, Cache, RepairableCache, StoreRouter, FailoverGroup, DedupQueue,
   WriteDedupQueue, SwapStore, nested to any depth -- in which no store on the way to the
   caller has verification disabled, in EVERY world: a chunk that is returned yields bytes
   hashing to the requested id. *)
Theorem C03_stack_sound :
  forall (H : bytes -> id) (zcomp : bytes -> bytes) (zdecomp : bytes -> option bytes)
         (s : stack) (i : id) (w : world) (c : chunk) (w' : world),
  verifying s = true ->
  get H zcomp zdecomp s i w = (Ok c, w') ->
  exists b, data_of zdecomp c = Some b /\ H b = i.
Proof. exact stack_sound. Qed.
Print Assumptions C03_stack_sound.

(* "... unless verification was explicitly disabled for that store": for EVERY stack a
   returned chunk is verified, or verification is disabled somewhere on the way and the
   chunk is the unverified wrapper of some raw storage bytes (or what a foreign,
   content-trusting store made of its content) ... *)
Theorem C03_stack_sound_skip :
  forall (H : bytes -> id) (zcomp : bytes -> bytes) (zdecomp : bytes -> option bytes)
         (s : stack) (i : id) (w : world) (c : chunk) (w' : world),
  get H zcomp zdecomp s i w = (Ok c, w') ->
  (exists b, data_of zdecomp c = Some b /\ H b = i)
  \/ (verifying s = false /\
      ((exists raw cv, c = mkChunk [] raw cv i true) \/ (exists b, c = new_chunk b))).
Proof. exact stack_sound_skip. Qed.
Print Assumptions C03_stack_sound_skip.

(* ... and such a leaf really hands on whatever its backend holds. *)
Theorem C03_skip_leaf_returns_stored :
  forall (H : bytes -> id) (zcomp : bytes -> bytes) (zdecomp : bytes -> option bytes)
         (k : nat) (o : lopts) (i : id) (w : world) (raw : bytes),
  lo_skip o = true ->
  w_fault w (w_hist w) (OpGet k i) = NoFault -> w_obj w k i = Some raw ->
  let c := mkChunk [] raw (converters (lo_uncompressed o)) i true in
  fst (get H zcomp zdecomp (W (WLeaf k o)) i w) = Ok c
  /\ data_of zdecomp c = (if nonempty raw then from_storage zdecomp (converters (lo_uncompressed o)) raw else None).
Proof. exact skip_leaf_returns_stored. Qed.
Print Assumptions C03_skip_leaf_returns_stored.

(* The casync CHUNK answer carries a chunk id next to the data.  Protocol.RequestChunk does
   not use it: whatever label the answer carries, an accepted chunk yields bytes hashing to
   the REQUESTED id (C03_stack_sound contains this for every stack with a Proto hop, in front
   of any server, including one whose store derives ids from content, [Foreign]). *)
Theorem C03_proto_response_id_ignored :
  forall (H : bytes -> id) (zdecomp : bytes -> option bytes) (requested label : id) (flags : N) (body : bytes) (c : chunk),
  proto_answer H zdecomp requested label flags body = Ok c ->
  exists b, data_of zdecomp c = Some b /\ H b = requested.
Proof. exact proto_response_id_ignored. Qed.
Print Assumptions C03_proto_response_id_ignored.

(* The protocol client is a leaf like the others: "whatever a leaf returns with a nil error hashes
   to the requested id" holds for it in front of ANY peer -- [inner] is an arbitrary function of
   the world, and the adversary may replace the answer in flight by any flags, label and body
   (compressed flag set or not, zstd frame or plain bytes, intact, damaged or another chunk's). *)
Theorem C03_protocol_client_verifies :
  forall (H : bytes -> id) (zcomp : bytes -> bytes) (zdecomp : bytes -> option bytes)
         (h : nat) (inner : world -> res chunk * world) (i : id) (w : world) (c : chunk) (w' : world),
  proto_get H zcomp zdecomp h inner i w = (Ok c, w') ->
  exists b, data_of zdecomp c = Some b /\ H b = i.
Proof. exact proto_client_verifies. Qed.
Print Assumptions C03_protocol_client_verifies.

(* The variant that believes the flags -- "compressed" unset and no zstd magic: plain data, through
   NewChunk -- is refuted: it hands out any non-empty plain body a peer sends that way. *)
Theorem C03_proto_trust_flags_variant_refuted :
  forall (H : bytes -> id) (zdecomp : bytes -> option bytes) (requested label : id) (flags : N) (body : bytes),
  N.land flags DS.Gen.Constants.CaProtocolChunkCompressed = 0%N ->
  has_prefix zstd_magic body = false -> nonempty body = true ->
  exists c, proto_answer_trust_flags H zdecomp requested label flags body = Ok c /\ data_of zdecomp c = Some body.
Proof. exact proto_trust_flags_delivers_anything. Qed.
Print Assumptions C03_proto_trust_flags_variant_refuted.

(* The variant that builds the chunk with the id found in the answer is refuted: in front of a
   server over a content-trusting store it returns, without error, whatever that store holds in
   the requested chunk's slot -- e.g. another chunk's valid object ([H b <> i]).  (zstd must
   round-trip on that one object for the answer to decode; that is the only premise about it.) *)
Theorem C03_proto_response_id_variant_refuted :
  forall (H : bytes -> id) (zcomp : bytes -> bytes) (zdecomp : bytes -> option bytes)
         (k h : nat) (i : id) (w : world) (b : bytes),
  w_fault w (w_hist w) (OpGet k i) = NoFault ->
  w_fault w (w_hist w ++ [OpGet k i]) (OpNet h i) = NoFault ->
  w_obj w k i = Some b -> nonempty b = true ->
  nonempty (zcomp b) = true -> zdecomp (zcomp b) = Some b ->
  exists c, fst (proto_get_with H zcomp zdecomp (proto_answer_respid H zdecomp) h (foreign_get k i) i w) = Ok c
            /\ data_of zdecomp c = Some b.
Proof. exact proto_respid_delivers_foreign. Qed.
Print Assumptions C03_proto_response_id_variant_refuted.

(* One name per chunk.  A leaf store looks for a chunk under the name of the format it is
   configured for and nowhere else: if that object does not exist the chunk is missing, whatever
   else the world holds -- in particular an object of the OTHER format under the same id, which
   is a different slot. *)
Theorem C03_leaf_own_name_only :
  forall (H : bytes -> id) (zcomp : bytes -> bytes) (zdecomp : bytes -> option bytes)
         (k : nat) (o : lopts) (i : id) (w : world),
  (forall h op, w_fault w h op = NoFault) -> w_obj w k i = None ->
  fst (get H zcomp zdecomp (W (WLeaf k o)) i w) = Err EMissing.
Proof. exact leaf_own_name_only. Qed.
Print Assumptions C03_leaf_own_name_only.

(* A store that DID fall back to the other format's name (slot k') would be fine as long as
   what it finds goes through the verifying constructor ... *)
Theorem C03_fallback_checked_sound :
  forall (H : bytes -> id) (zdecomp : bytes -> option bytes) (k k' : nat) (o : lopts) (i : id) (w : world),
  lo_skip o = false ->
  match fst (leaf_get_fallback H zdecomp true k k' o i w) with
  | Ok c => verified H zdecomp i c
  | Err _ => True
  end.
Proof. exact fallback_checked_sound. Qed.
Print Assumptions C03_fallback_checked_sound.

(* ... and is refuted if it hands it to NewChunk (the constructor for trusted data): with the
   own object gone it delivers, without error, whatever bytes lie under the other name. *)
Theorem C03_fallback_unchecked_refuted :
  forall (H : bytes -> id) (zdecomp : bytes -> option bytes) (k k' : nat) (o : lopts) (i : id) (w : world) (b : bytes),
  (forall h op, w_fault w h op = NoFault) -> w_obj w k i = None -> w_obj w k' i = Some b -> nonempty b = true ->
  exists c, fst (leaf_get_fallback H zdecomp false k k' o i w) = Ok c /\ data_of zdecomp c = Some b.
Proof. exact fallback_unchecked_delivers_anything. Qed.
Print Assumptions C03_fallback_unchecked_refuted.

(* A sequence of requests through the same stack (caches fill up, failover groups move on). *)
Theorem C03_requests_sound :
  forall (H : bytes -> id) (zcomp : bytes -> bytes) (zdecomp : bytes -> option bytes)
         (s : stack) (ids : list id) (w : world) (rs : list (res chunk)) (w' : world),
  verifying s = true -> get_many H zcomp zdecomp s ids w = (rs, w') ->
  Forall2 (fun i r => forall c, r = Ok c -> exists b, data_of zdecomp c = Some b /\ H b = i) ids rs.
Proof. exact get_many_sound. Qed.
Print Assumptions C03_requests_sound.

(* Histories.  The stores of the model are stateless between calls -- the only state is the
   world -- so every call verifies what it reads NOW: for any sequence of requests interleaved
   with ARBITRARY changes of the world (an object damaged after it was read and verified,
   keeping its size and timestamps or not; restored; replaced ...), every answer is verified.
   A store that remembers "this file was fine last time" is not a refinement of this model. *)
Theorem C03_history_sound :
  forall (H : bytes -> id) (zcomp : bytes -> bytes) (zdecomp : bytes -> option bytes)
         (s : stack) (steps : list ((world -> world) * id)) (w : world) (rs : list (res chunk)) (w' : world),
  verifying s = true -> get_history H zcomp zdecomp s steps w = (rs, w') ->
  Forall2 (fun st r => forall c, r = Ok c -> exists b, data_of zdecomp c = Some b /\ H b = snd st) steps rs.
Proof. exact get_history_sound. Qed.
Print Assumptions C03_history_sound.

(* Chunks are VALUES in the model: [data_of] takes no world, so what a returned chunk yields
   cannot change when the store is used again.  That is the contract every backend has to
   provide in the code -- a returned *Chunk must not alias memory that a later call into the
   store writes (a connection buffer, a pooled slice) -- and it is checked on the implementation
   by the held-chunks predicate of the harness, not provable here.  Under it: the chunks of
   earlier requests are still verified answers after all later requests. *)
Theorem C03_held_chunks_sound :
  forall (H : bytes -> id) (zcomp : bytes -> bytes) (zdecomp : bytes -> option bytes)
         (s : stack) (ids later : list id) (w : world) (rs : list (res chunk)) (w' : world),
  verifying s = true -> get_many H zcomp zdecomp s (ids ++ later) w = (rs, w') ->
  Forall2 (fun i r => forall c, r = Ok c -> exists b, data_of zdecomp c = Some b /\ H b = i)
          ids (firstn (length ids) rs).
Proof. exact held_chunks_sound. Qed.
Print Assumptions C03_held_chunks_sound.

(* What a request does to the world when verification is enabled everywhere in the stack:
   the history grows by some operations; every object it asks a backend to store is stored
   under the requested id and is the storage form of bytes hashing to that id; no other
   slot changes. *)
Theorem C03_cache_writes_verified :
  forall (H : bytes -> id) (zcomp : bytes -> bytes) (zdecomp : bytes -> option bytes)
         (s : stack) (i : id) (w : world) (r : res chunk) (w' : world),
  all_verifying s = true -> get H zcomp zdecomp s i w = (r, w') ->
  exists ops, w_hist w' = w_hist w ++ ops
    /\ (forall k j bs, In (OpPut k j bs) ops -> j = i /\ exists b cv, H b = i /\ bs = to_storage zcomp cv b)
    /\ (forall k j, (forall bs, ~ In (OpPut k j bs) ops) -> w_obj w' k j = w_obj w k j).
Proof. exact cache_writes_verified. Qed.
Print Assumptions C03_cache_writes_verified.

(* Consumers fail closed: what writeChunk (extract), the UnTarIndex worker (untar -i), the
   sparse-file loader and the index read-seeker (cat, mount) hand on for an index row are
   bytes hashing to the row's id (of the row's size where the code checks it). *)
Theorem C03_write_chunk_sound :
  forall H zcomp zdecomp (s : stack) (row : id * nat) (w : world) (b : bytes) (w' : world),
  verifying s = true -> write_chunk H zcomp zdecomp s row w = (Some b, w') ->
  H b = fst row /\ length b = snd row.
Proof. exact write_chunk_sound. Qed.
Print Assumptions C03_write_chunk_sound.

Theorem C03_untar_worker_sound :
  forall H zcomp zdecomp (s : stack) (row : id * nat) (w : world) (b : bytes) (w' : world),
  verifying s = true -> untar_worker H zcomp zdecomp s row w = (Some b, w') ->
  H b = fst row /\ length b = snd row.
Proof. exact untar_worker_sound. Qed.
Print Assumptions C03_untar_worker_sound.

Theorem C03_sparse_load_sound :
  forall H zcomp zdecomp (s : stack) (row : id * nat) (w : world) (b : bytes) (w' : world),
  verifying s = true -> sparse_load H zcomp zdecomp s row w = (Some b, w') -> H b = fst row.
Proof. exact sparse_load_sound. Qed.
Print Assumptions C03_sparse_load_sound.

Theorem C03_readseeker_load_sound :
  forall H zcomp zdecomp (s : stack) (null_id : id) (null_data : bytes) (row : id * nat) (w : world) (b : bytes) (w' : world),
  verifying s = true -> H null_data = null_id ->
  readseeker_load H zcomp zdecomp s null_id null_data row w = (Some b, w') -> H b = fst row.
Proof. exact readseeker_load_sound. Qed.
Print Assumptions C03_readseeker_load_sound.

(* Hence a pipeline that runs one of them over the rows of an index describing a blob and
   succeeds has produced the blob -- or exhibits a collision of H. *)
Theorem C03_consumers_fail_closed :
  forall (H : bytes -> id) (one : id * nat -> world -> option bytes * world)
         (rows : index) (w : world) (bs : list bytes) (w' : world) (blob : bytes),
  (forall row w b w', one row w = (Some b, w') -> H b = fst row) ->
  index_describes H rows blob ->
  consume_all one rows w = (Some bs, w') -> concat bs = blob \/ Collision H.
Proof. exact consumers_output_is_blob. Qed.
Print Assumptions C03_consumers_fail_closed.

Theorem C03_extract_output_is_blob :
  forall H zcomp zdecomp (s : stack) (rows : index) (w w' : world) (bs : list bytes) (blob : bytes),
  verifying s = true -> index_describes H rows blob ->
  consume_all (write_chunk H zcomp zdecomp s) rows w = (Some bs, w') -> concat bs = blob \/ Collision H.
Proof. exact extract_output_is_blob. Qed.
Print Assumptions C03_extract_output_is_blob.

(* Readers (`desync cat`, io.Copy from the index read-seeker): when the copy reports success
   the blob was copied -- for every verifying stack. *)
Theorem C03_copy_index_sound :
  forall H zcomp zdecomp (s : stack) (null_id : id) (null_data : bytes) (rows : index)
         (w : world) (out : bytes) (w' : world) (blob : bytes),
  verifying s = true -> H null_data = null_id -> index_describes H rows blob ->
  copy_index H zcomp zdecomp s null_id null_data rows w = (out, true, w') -> out = blob \/ Collision H.
Proof. exact copy_index_sound. Qed.
Print Assumptions C03_copy_index_sound.

(* Before commit 898d634 IndexPos.Read handed a store error that IS io.EOF (the casync protocol
   client after its server went away) on unchanged: the copy then ended with success and a
   truncated output, where the repaired reader fails ... *)
Theorem C03_pre898d634_copy_refuted :
  forall H zcomp zdecomp (s : stack) (null_id : id) (null_data : bytes) (r : id * nat) (rest : index) (w w1 : world),
  readseeker_load_err H zcomp zdecomp s null_id null_data r w = (Err EEof, w1) ->
  copy_index_pre898d634 H zcomp zdecomp s null_id null_data (r :: rest) w = ([], true, w1)
  /\ copy_index H zcomp zdecomp s null_id null_data (r :: rest) w = ([], false, w1).
Proof. exact copy_pre898d634_truncates. Qed.
Print Assumptions C03_pre898d634_copy_refuted.

(* ... and it was sound only for stacks that never return a bare io.EOF, e.g. everything the
   command line builds (MultiStoreWithCache always puts a StoreRouter, which wraps errors, on top). *)
Theorem C03_pre898d634_copy_sound_without_eof :
  forall H zcomp zdecomp (s : stack) (null_id : id) (null_data : bytes) (rows : index)
         (w : world) (out : bytes) (w' : world) (blob : bytes),
  verifying s = true -> never_eof s = true -> H null_data = null_id -> index_describes H rows blob ->
  copy_index_pre898d634 H zcomp zdecomp s null_id null_data rows w = (out, true, w') -> out = blob \/ Collision H.
Proof. exact copy_pre898d634_sound_no_eof. Qed.
Print Assumptions C03_pre898d634_copy_sound_without_eof.

(* ---------- non-vacuity ---------- *)
(* H = sum of bytes, "zstd" = prefix byte 7. *)
Definition ex_H (b : bytes) : id := fold_right N.add 0%N b.
Definition ex_zc (b : bytes) : bytes := 7%N :: b.
Definition ex_zd (b : bytes) : option bytes := match b with 7%N :: r => Some r | _ => None end.
Definition ex_world (obj : nat -> id -> option bytes) : world :=
  mkWorld obj (fun _ => 0) [] (fun _ _ => NoFault).
Definition ex_lo skip := mkLopts BLocal skip false 0.
Definition ex_leaf k skip := W (WLeaf k (ex_lo skip)).
Definition ex_result (x : res chunk * world) : res (option bytes) :=
  match fst x with Ok c => Ok (data_of ex_zd c) | Err e => Err e end.
Definition ex_get s i obj := ex_result (get ex_H ex_zc ex_zd s i (ex_world obj)).

(* a good object is served; a flipped one, an empty one and another chunk's object are not *)
Example C03_ex_good : ex_get (ex_leaf 0 false) 6%N (fun _ _ => Some [7; 1; 2; 3]%N) = Ok (Some [1; 2; 3]%N).
Proof. vm_compute. reflexivity. Qed.
Example C03_ex_flip : ex_get (ex_leaf 0 false) 6%N (fun _ _ => Some [7; 1; 2; 4]%N) = Err EInvalid.
Proof. vm_compute. reflexivity. Qed.
Example C03_ex_empty : ex_get (ex_leaf 0 false) 6%N (fun _ _ => Some []%N) = Err EInvalid.
Proof. vm_compute. reflexivity. Qed.
Example C03_ex_undecodable_zero_id : ex_get (ex_leaf 0 false) zero_id (fun _ _ => Some [9]%N) = Err EInvalid.
Proof. vm_compute. reflexivity. Qed.
(* the pre-27b0229 constructor on the same object: accepted, and it has no data *)
Example C03_ex_pre27b0229 :
  match new_chunk_from_storage_pre27b0229 ex_H ex_zd zero_id [9]%N [Zstd] false with
  | Ok c => data_of ex_zd c = None | Err _ => False end.
Proof. vm_compute. reflexivity. Qed.
(* with verification disabled the flipped object is delivered *)
Example C03_ex_skip : ex_get (ex_leaf 0 true) 6%N (fun _ _ => Some [7; 1; 2; 4]%N) = Ok (Some [1; 2; 4]%N).
Proof. vm_compute. reflexivity. Qed.
(* a poisoned cache in front of a good store: the request fails; behind a RepairableCache it
   is re-fetched, served, and the cache slot is rewritten with the verified object *)
Definition ex_objs (k : nat) (i : id) : option bytes :=
  match k with 0 => Some [7; 1; 2; 3]%N | _ => Some [7; 9]%N end.
Example C03_ex_cache : ex_get (Cache (ex_leaf 0 false) (WLeaf 1 (ex_lo false))) 6%N ex_objs = Err EInvalid.
Proof. vm_compute. reflexivity. Qed.
Example C03_ex_repair :
  let r := get ex_H ex_zc ex_zd (Cache (ex_leaf 0 false) (WRepair (WLeaf 1 (ex_lo false)))) 6%N (ex_world ex_objs) in
  ex_result r = Ok (Some [1; 2; 3]%N) /\ w_obj (snd r) 1 6%N = Some [7; 1; 2; 3]%N
  /\ w_hist (snd r) = [OpGet 1 6%N; OpGet 0 6%N; OpPut 1 6%N [7; 1; 2; 3]%N].
Proof. vm_compute. repeat split; reflexivity. Qed.
(* a skip-verify store behind the casync protocol or behind a verifying HTTP client is fine
   (this is `desync pull` and the chunk-server default), the hypotheses of C03_stack_sound hold *)
Example C03_ex_hops_verifying :
  verifying (Proto 0 (ex_leaf 0 true)) = true /\ verifying (Http 0 [Zstd] false false 3 (ex_leaf 0 true)) = true
  /\ all_verifying (Cache (Router [ex_leaf 0 false; ex_leaf 1 false]) (WRepair (WLeaf 2 (ex_lo false)))) = true.
Proof. vm_compute. repeat split; reflexivity. Qed.
Example C03_ex_proto_flip : ex_get (Proto 0 (ex_leaf 0 true)) 6%N (fun _ _ => Some [7; 1; 2; 4]%N) = Err EInvalid.
Proof. vm_compute. reflexivity. Qed.
Example C03_ex_proto_good : ex_get (Proto 0 (ex_leaf 0 true)) 6%N (fun _ _ => Some [7; 1; 2; 3]%N) = Ok (Some [1; 2; 3]%N).
Proof. vm_compute. reflexivity. Qed.
(* a server over a store that derives ids from content, holding chunk 7's object [1;2;4] in the
   slot of chunk 6: the client refuses it; the response-id variant delivers it for request 6;
   a scripted answer "[1;2;4] labelled 7" (FRespond) is refused as well *)
Example C03_ex_response_id :
  let w := ex_world (fun _ _ => Some [1; 2; 4]%N) in
  verifying (Proto 0 (Foreign 0)) = true
  /\ ex_result (get ex_H ex_zc ex_zd (Proto 0 (Foreign 0)) 6%N w) = Err EInvalid
  /\ ex_result (proto_get_with ex_H ex_zc ex_zd (proto_answer_respid ex_H ex_zd) 0 (foreign_get 0 6%N) 6%N w)
     = Ok (Some [1; 2; 4]%N)
  /\ ex_result (get ex_H ex_zc ex_zd (Proto 0 (ex_leaf 0 false)) 6%N
        (mkWorld (fun _ _ => None) (fun _ => 0) [] (fun _ o => match o with OpNet _ _ => FRespond 1%N 7%N [7; 1; 2; 4]%N | _ => NoFault end)))
     = Err EInvalid
  /\ ex_result (get ex_H ex_zc ex_zd (Proto 0 (Foreign 0)) 7%N w) = Ok (Some [1; 2; 4]%N).
Proof. vm_compute. repeat split; reflexivity. Qed.
(* a compressed store whose object for chunk 6 is gone while a bare-id file (slot 1) holds
   [1;2;4]: the code says missing; the unchecked fallback delivers [1;2;4] for request 6 *)
Example C03_ex_other_format :
  let w := ex_world (fun k _ => match k with 1 => Some [1; 2; 4]%N | _ => None end) in
  ex_result (get ex_H ex_zc ex_zd (ex_leaf 0 false) 6%N w) = Err EMissing
  /\ ex_result (leaf_get_fallback ex_H ex_zd false 0 1 (ex_lo false) 6%N w) = Ok (Some [1; 2; 4]%N)
  /\ ex_result (leaf_get_fallback ex_H ex_zd true 0 1 (ex_lo false) 6%N w) = Err EInvalid
  /\ ex_result (leaf_get_fallback ex_H ex_zd true 0 1 (ex_lo false) 7%N w) = Ok (Some [1; 2; 4]%N).
Proof. vm_compute. repeat split; reflexivity. Qed.
(* a peer answering request 6 with the plain body [1;2;4], compressed flag unset: the code
   refuses it (not a zstd frame), as it refuses the intact plain body [1;2;3]; the flag-trusting
   variant hands out [1;2;4] *)
Example C03_ex_plain_body :
  let peer fg body := mkWorld (fun _ _ => None) (fun _ => 0) []
                        (fun _ o => match o with OpNet _ _ => FRespond fg 6%N body | _ => NoFault end) in
  ex_result (get ex_H ex_zc ex_zd (Proto 0 (ex_leaf 0 false)) 6%N (peer 0%N [1; 2; 4]%N)) = Err EInvalid
  /\ ex_result (get ex_H ex_zc ex_zd (Proto 0 (ex_leaf 0 false)) 6%N (peer 0%N [1; 2; 3]%N)) = Err EInvalid
  /\ ex_result (get ex_H ex_zc ex_zd (Proto 0 (ex_leaf 0 false)) 6%N (peer 0%N [7; 1; 2; 3]%N)) = Ok (Some [1; 2; 3]%N)
  /\ match proto_answer_trust_flags ex_H ex_zd 6%N 6%N 0%N [1; 2; 4]%N with
     | Ok c => data_of ex_zd c = Some [1; 2; 4]%N | Err _ => False end.
Proof. vm_compute. repeat split; reflexivity. Qed.
(* read chunk 6, then its object is replaced by chunk 7's (same length), read again, restored, read *)
Example C03_ex_history :
  let good (_ : world) := ex_world (fun _ _ => Some [7; 1; 2; 3]%N) in
  let bad (_ : world) := ex_world (fun _ _ => Some [7; 1; 2; 4]%N) in
  map (fun r => match r with Ok c => Ok (data_of ex_zd c) | Err e => Err e end)
      (fst (get_history ex_H ex_zc ex_zd (Cache (ex_leaf 1 false) (WLeaf 0 (ex_lo false)))
              [(good, 6%N); (bad, 6%N); (good, 6%N)] (ex_world (fun _ _ => None))))
  = [Ok (Some [1; 2; 3]%N); Err EInvalid; Ok (Some [1; 2; 3]%N)].
Proof. vm_compute. reflexivity. Qed.
(* the premise of C03_pre898d634_copy_refuted is met by a verifying stack: RemoteSSH in front of
   `desync pull` over a store with a flipped object; index [(6, 3)] describing [1;2;3] *)
Example C03_ex_eof_truncation :
  let s := Proto 0 (ex_leaf 0 true) in
  let w := ex_world (fun _ _ => Some [9; 1; 2; 3]%N) in
  verifying s = true /\ index_describes ex_H [(6%N, 3)] [1; 2; 3]%N
  /\ fst (readseeker_load_err ex_H ex_zc ex_zd s 0%N [] (6%N, 3) w) = Err EEof
  /\ fst (copy_index_pre898d634 ex_H ex_zc ex_zd s 0%N [] [(6%N, 3)] w) = ([], true)
  /\ fst (copy_index ex_H ex_zc ex_zd s 0%N [] [(6%N, 3)] w) = ([], false)
  /\ never_eof (Router [s]) = true
  /\ fst (copy_index_pre898d634 ex_H ex_zc ex_zd (Router [s]) 0%N [] [(6%N, 3)] w) = ([], false).
Proof. vm_compute. repeat split; reflexivity. Qed.
(* the consumers: an index of two rows over the blob [1;2;3;4] *)
Example C03_ex_extract :
  let s := Router [ex_leaf 0 false; ex_leaf 1 false] in
  let obj k (i : id) := match k, i with 0, 3%N => Some [7; 1; 2]%N | 1, 7%N => Some [7; 3; 4]%N | 1, 3%N => Some [7; 3]%N | _, _ => None end in
  index_describes ex_H [(3%N, 2); (7%N, 2)] [1; 2; 3; 4]%N
  /\ fst (consume_all (write_chunk ex_H ex_zc ex_zd s) [(3%N, 2); (7%N, 2)] (ex_world obj)) = Some [[1; 2]; [3; 4]]%N.
Proof. vm_compute. repeat split; reflexivity. Qed.
