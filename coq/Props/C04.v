(* C04 -- index files round-trip exactly and malformed ones are rejected.
   Only statements, [exact], and Print Assumptions live here.

   Model: coq/Model/Format.v (element codec: FormatDecoder.Next, FormatEncoder.Encode, reader.go,
   writer.go) and coq/Model/Index.v (IndexFromReader = [decode_index d], Index.WriteTo =
   [encode_index], and [parse_layout], an independent reader of the caibx layout at fixed offsets).
   [d] is desync.Digest.Algorithm(); a file is a list of bytes. *)
From Coq Require Import List NArith Arith Bool.
From DS Require Import Gen.Constants Base.Bytes Base.LE64 Model.Format Model.Index Model.IndexStore Model.IndexSink Model.IndexRetry
     Proofs.IndexStoreProofs Proofs.IndexSinkProofs Proofs.IndexRetryProofs Proofs.FormatProofs Proofs.IndexProofs Proofs.PrefixProofs Proofs.ReencodeProofs Proofs.LayoutProofs
     Proofs.C04Final.
Import ListNotations.
Local Open Scope N_scope.

(* Reading back what Index.WriteTo wrote gives the same parameters and chunk table, for every index
   WriteTo is meant to be given ([wf_index]: 64-bit fields, 32-byte ids, sizes <= max, total < 2^64,
   Start = sum of the preceding sizes, first chunk not empty -- an end offset of 0 is the table
   terminator) and either digest whose flag the index carries. *)
Theorem C04_index_roundtrip : forall (d : digest) (i : index),
  wf_index i -> digest_ok d (ix_flags i) = true -> decode_index d (encode_index i) = Ok i.
Proof. exact index_roundtrip. Qed.
Print Assumptions C04_index_roundtrip.

(* The same for every element type of the codec (archives and indexes): Next after Encode returns the
   element and leaves exactly the bytes that followed it. *)
Theorem C04_element_roundtrip : forall (e : elem) (rest : bytes),
  wf_elem e -> exists alloc, next Fixed (encode_elem e ++ rest) = (Ok (Some e), rest, alloc).
Proof. exact next_encode. Qed.
Print Assumptions C04_element_roundtrip.

(* The bytes follow the caibx/caidx layout: a reader that only looks at fixed offsets (48-byte index
   element, 16-byte table header with size 2^64-1, 40-byte rows of end offset + id, 40-byte tail
   0,0,48,table size,marker) recovers the parameters and one (end offset, id) row per chunk; the tail
   carries 48 and uint64(file length - 48); the file has 104 + 40*chunks bytes. *)
Theorem C04_index_layout : forall i : index, wf_index i ->
  parse_layout (encode_index i) =
    Some (mkLayout (ix_flags i) (ix_min i) (ix_avg i) (ix_max i) (table_items 0 (ix_chunks i))
                   48 (u64 (N.of_nat (length (encode_index i) - 48)))) /\
  length (encode_index i) = (48 + 16 + 40 * length (ix_chunks i) + 40)%nat.
Proof. exact index_layout. Qed.
Print Assumptions C04_index_layout.

(* Any file of real bytes that IndexFromReader accepts and reads to its last byte, and whose three
   unchecked words are what casync writes ([canonical]: index element size 48, tail index offset 48,
   tail table size = length - 48), is reproduced byte for byte by WriteTo of the decoded index. *)
Theorem C04_index_reencode : forall (d : digest) (b : bytes) (i : index),
  wf_bytes b -> decode_index_rest d b = Ok (i, []) -> canonical b -> encode_index i = b.
Proof. exact index_reencode. Qed.
Print Assumptions C04_index_reencode.

(* The same with "canonical" judged by the independent reader: a file of real bytes that
   IndexFromReader accepts and that [parse_layout] reads at the fixed caibx offsets (exact length
   104+40k, k non-zero end offsets, tail 0,0,..,..,marker) with tail fields (48, length-48) is
   reproduced byte for byte -- this is what the casync-made testdata files are checked against. *)
Theorem C04_index_reencode_layout : forall (d : digest) (b : bytes) (i : index) (l : layout),
  wf_bytes b -> decode_index d b = Ok i -> parse_layout b = Some l -> canonical_tail b l = true ->
  encode_index i = b.
Proof. exact index_reencode_layout. Qed.
Print Assumptions C04_index_reencode_layout.

(* Re-encoding heals.  IndexFromReader deliberately does not look at the index element's SIZE field
   (FormatDecoder.Next has no size check for CaFormatIndex) nor at the tail's index-offset / table-size
   words, so files in which those words are damaged are accepted; what WriteTo then writes for the
   decoded index is canonical again: 48-byte index element, tail (48, uint64(length - 48)). *)
Theorem C04_reencode_canonical : forall (d : digest) (b : bytes) (i : index) (rest : bytes),
  wf_bytes b -> decode_index_rest d b = Ok (i, rest) ->
  parse_layout (encode_index i) =
    Some (mkLayout (ix_flags i) (ix_min i) (ix_avg i) (ix_max i) (table_items 0 (ix_chunks i))
                   48 (u64 (N.of_nat (length (encode_index i) - 48)))) /\
  word_at (encode_index i) 0 = 48.
Proof. exact reencode_canonical. Qed.
Print Assumptions C04_reencode_canonical.

(* Truncation: every strict prefix of ANY file that IndexFromReader accepts and reads to its last
   byte is rejected ... *)
Theorem C04_index_rejects_prefix_of_accepted : forall (d : digest) (b : bytes) (i : index),
  decode_index_rest d b = Ok (i, []) ->
  forall p q, b = p ++ q -> q <> [] -> exists e, decode_index d p = Err e.
Proof. exact index_prefix_rejected. Qed.
Print Assumptions C04_index_rejects_prefix_of_accepted.

(* ... in particular every strict prefix of a file WriteTo wrote. *)
Theorem C04_index_rejects_prefix : forall (d : digest) (i : index),
  wf_index i -> digest_ok d (ix_flags i) = true ->
  forall p q, encode_index i = p ++ q -> q <> [] -> exists e, decode_index d p = Err e.
Proof. exact index_rejects_prefix. Qed.
Print Assumptions C04_index_rejects_prefix.

(* A file whose index element carries the other digest's flag is rejected, whatever follows. *)
Theorem C04_index_rejects_digest_mismatch : forall d h ff mn av mx rest,
  wf_elem (Index h ff mn av mx) -> digest_ok d ff = false ->
  decode_index d (encode_elem (Index h ff mn av mx) ++ rest) = Err DigestMismatch.
Proof. exact index_rejects_digest_mismatch. Qed.
Print Assumptions C04_index_rejects_digest_mismatch.

(* A table in which row j ends more than ChunkSizeMax after row j-1 is rejected (any rows before and
   after, any trailing bytes); the error is one of the two table errors (an earlier row may already
   have been refused). *)
Theorem C04_index_rejects_oversize : forall d h ff mn av mx th items rest j,
  wf_elem (Index h ff mn av mx) -> digest_ok d ff = true -> wf_elem (Table th items) ->
  (j < length items)%nat ->
  prev_offset j items <= fst (nth j items (0, [])) ->
  mx < fst (nth j items (0, [])) - prev_offset j items ->
  exists e, decode_index d (encode_elem (Index h ff mn av mx) ++ encode_elem (Table th items) ++ rest) = Err e /\
            table_error e.
Proof. exact index_rejects_oversize. Qed.
Print Assumptions C04_index_rejects_oversize.

(* A table in which row j ends BEFORE row j-1 is rejected, whatever the declared ChunkSizeMax. *)
Theorem C04_index_rejects_decreasing : forall d h ff mn av mx th items rest j,
  wf_elem (Index h ff mn av mx) -> digest_ok d ff = true -> wf_elem (Table th items) ->
  (j < length items)%nat ->
  fst (nth j items (0, [])) < prev_offset j items ->
  exists e, decode_index d (encode_elem (Index h ff mn av mx) ++ encode_elem (Table th items) ++ rest) = Err e /\
            table_error e.
Proof. exact index_rejects_decreasing. Qed.
Print Assumptions C04_index_rejects_decreasing.

(* Hence nothing that misdescribes a blob comes out: every index IndexFromReader returns for a file of
   real bytes is in WriteTo's domain -- Start = sum of the preceding sizes, every size <= max, total
   < 2^64, 32-byte ids, first chunk not empty (so C04_index_roundtrip applies to it again). *)
Theorem C04_index_accepted_wf : forall (d : digest) (b : bytes) (i : index) (rest : bytes),
  wf_bytes b -> decode_index_rest d b = Ok (i, rest) -> wf_index i.
Proof. exact index_accepted_wf. Qed.
Print Assumptions C04_index_accepted_wf.

(* ---- before commit "fix: index reader rejects decreasing chunk offsets ..." the decreasing case was
        only caught through the unsigned wrap of r.Offset - lastOffset exceeding max: with a declared
        maximum within the drop of 2^64 such a table was accepted, with a wrapped chunk size.  The
        reader as it was ([decode_index_prefix]) accepts this file; the current one refuses it. ---- *)
Definition ex_id (x : N) : bytes := repeat x 32.
Definition ex_corner_file : bytes :=
  encode_elem (Index (mkHeader 48 CaFormatIndex) 0 1 2 MaxUint64) ++
  encode_elem (Table (mkHeader MaxUint64 CaFormatTable) [(100, ex_id 1); (50, ex_id 2)]).
Example C04_index_decreasing_corner_refuted :
  decode_index_prefix SHA256 ex_corner_file =
    Ok (mkIndex 0 1 2 MaxUint64 [(ex_id 1, 0, 100); (ex_id 2, 100, two64 - 50)], []) /\
  ~ wf_index (mkIndex 0 1 2 MaxUint64 [(ex_id 1, 0, 100); (ex_id 2, 100, two64 - 50)]) /\
  decode_index SHA256 ex_corner_file = Err DecreasingOffset.
Proof.
  split; [vm_compute; reflexivity|]. split; [|vm_compute; reflexivity].
  intros [_ _ _ _ _ _ Htot _ _]. vm_compute in Htot. discriminate.
Qed.

(* WriteTo goes by the chunk sizes alone: two indexes with the same parameters, ids and sizes -- whatever
   their Start fields say (a concatenation of chunk lists, a sub-range, hand-built chunks with Start 0) --
   are written to the same bytes; and row k of the written table ends at the (64-bit) sum of the sizes
   of rows 0..k. *)
Theorem C04_encode_index_ignores_start : forall i j : index,
  ix_flags i = ix_flags j -> ix_min i = ix_min j -> ix_avg i = ix_avg j -> ix_max i = ix_max j ->
  map (fun c => (c_id c, c_size c)) (ix_chunks i) = map (fun c => (c_id c, c_size c)) (ix_chunks j) ->
  encode_index i = encode_index j.
Proof. exact encode_index_ignores_start. Qed.
Print Assumptions C04_encode_index_ignores_start.

Theorem C04_table_offsets_are_running_sums : forall (cs : list chunk) (off : N) (k : nat),
  (k < length cs)%nat ->
  fst (nth k (table_items off cs) (0, [])) = fold_left (fun a c => add64 a (c_size c)) (firstn (S k) cs) off.
Proof. exact table_items_offsets. Qed.
Print Assumptions C04_table_offsets_are_running_sums.

(* Store histories (LocalIndexStore: os.Create truncates, WriteTo writes from offset 0): whatever was
   stored under the name before -- nothing, a shorter, a longer index -- the file after StoreIndex i is
   exactly Index.WriteTo's bytes of i, and reading the name back after two stores gives the second. *)
Theorem C04_store_overwrites : forall (old : option bytes) (i : index),
  local_store_index old i = encode_index i.
Proof. exact store_overwrites. Qed.
Print Assumptions C04_store_overwrites.

Theorem C04_store_history_get : forall d old i1 i2,
  wf_index i2 -> digest_ok d (ix_flags i2) = true ->
  local_get_index d (local_store_index (Some (local_store_index old i1)) i2) = Ok i2.
Proof. exact store_history_get. Qed.
Print Assumptions C04_store_history_get.

(* Write faults.  Index.WriteTo onto a writer that accepts ws_cap more bytes and then fails (short
   write + ENOSPC/EIO/EPIPE), through the 4096-byte bufio.Writer and the final, checked, Flush:
   a nil error means every byte of the encoding arrived and n is its length ... *)
Theorem C04_write_to_success : forall (i : index) (s s' : wsink) (n : N),
  index_write_to i s = (s', n, true) ->
  ws_data s' = ws_data s ++ encode_index i /\ n = lenN (encode_index i).
Proof. exact write_to_success. Qed.
Print Assumptions C04_write_to_success.

(* ... which happens exactly when the writer has room for the whole file ... *)
Theorem C04_write_to_ok_iff : forall (i : index) (s : wsink),
  snd (index_write_to i s) = true <-> lenN (encode_index i) <= ws_cap s.
Proof. exact write_to_ok_iff. Qed.
Print Assumptions C04_write_to_ok_iff.

(* ... and in every case (also with the flush error dropped) what arrived is a prefix of the file. *)
Theorem C04_write_to_prefix : forall (v : flush_variant) (i : index) (s : wsink),
  exists k, ws_data (fst (fst (write_to v i s))) = ws_data s ++ firstn k (encode_index i).
Proof. exact write_to_prefix. Qed.
Print Assumptions C04_write_to_prefix.

(* Retries.  RemoteHTTPIndex.StoreIndex through IssueRetryableHttpRequest, for every script of failing
   attempts (5xx / transport errors), every retry budget and every backend: it returns nil exactly when
   an attempt within the budget (max(1, ErrorRetry) attempts) reaches a backend that accepts the index,
   and then the backend holds exactly Index.WriteTo's bytes. *)
Theorem C04_remote_store_index_spec : forall accepts error_retry script (i : index),
  remote_store_index FreshReader accepts error_retry script i =
    if (leading_failures script <? attempts_of error_retry)%nat && accepts (encode_index i)
    then Some (encode_index i) else None.
Proof. exact remote_store_index_spec. Qed.
Print Assumptions C04_remote_store_index_spec.

(* ---- non-vacuity ---- *)
Definition ex_index : index :=
  mkIndex CaFormatSHA512256 16 64 256 [(ex_id 7, 0, 100); (ex_id 8, 100, 0); (ex_id 9, 100, 256)].
Example C04_example_wf : wf_index ex_index.
Proof.
  constructor; cbn; try reflexivity; try exact I; try discriminate.
  - repeat constructor.
  - repeat constructor; cbn; discriminate.
  - repeat split.
Qed.
Example C04_example_roundtrip :
  decode_index SHA512_256 (encode_index ex_index) = Ok ex_index /\
  decode_index SHA256 (encode_index ex_index) = Err DigestMismatch /\
  length (encode_index ex_index) = 224%nat /\
  decode_index SHA512_256 (firstn 223 (encode_index ex_index)) = Err UnexpectedEOF /\
  decode_index SHA512_256 (firstn 48 (encode_index ex_index)) = Err NoTable /\
  decode_index SHA512_256 (firstn 56 (encode_index ex_index)) = Err NoTable /\
  decode_index SHA512_256 [] = Err NotIndex.
Proof. vm_compute. repeat split; reflexivity. Qed.
(* zero chunks: header, table header, tail *)
Example C04_example_empty :
  decode_index SHA256 (encode_index (mkIndex 0 1 2 3 [])) = Ok (mkIndex 0 1 2 3 []) /\
  length (encode_index (mkIndex 0 1 2 3 [])) = 104%nat.
Proof. vm_compute. split; reflexivity. Qed.
(* the stated domain boundary: an empty FIRST chunk writes the table terminator in place of its row *)
Example C04_example_first_chunk_empty :
  decode_index SHA256 (encode_index (mkIndex 0 1 2 300 [(ex_id 7, 0, 0); (ex_id 8, 0, 5)])) = Err InvalidFormat.
Proof. vm_compute. reflexivity. Qed.

(* an open without O_TRUNC: a 0-chunk index stored over a 3-chunk one leaves 224 bytes, of which only the
   first 104 are the new index; IndexFromReader does not notice (it stops at the first tail record) *)
Example C04_store_without_truncate_refuted :
  let f := store_index_file false (Some (encode_index ex_index)) (mkIndex CaFormatSHA512256 1 2 3 []) in
  length f = 224%nat /\ f <> encode_index (mkIndex CaFormatSHA512256 1 2 3 []) /\
  local_get_index SHA512_256 f = Ok (mkIndex CaFormatSHA512256 1 2 3 []) /\
  parse_layout f = None.
Proof.
  vm_compute. repeat split; try reflexivity. intros E. apply (f_equal (@length N)) in E. vm_compute in E. discriminate.
Qed.

(* `defer bw.Flush()` instead of the checked flush: a 3-chunk index (224 bytes, all of it still in the
   bufio buffer when the Encode calls return) written onto a full device, or one with room for 100
   bytes, reports n = 224 and success; the checked flush reports the error *)
Example C04_deferred_flush_refuted :
  write_to FlushDeferred ex_index (mkWSink 0 []) = (mkWSink 0 [], 224, true) /\
  snd (write_to FlushDeferred ex_index (mkWSink 100 [])) = true /\
  length (ws_data (fst (fst (write_to FlushDeferred ex_index (mkWSink 100 []))))) = 100%nat /\
  snd (write_to FlushChecked ex_index (mkWSink 0 [])) = false /\
  snd (write_to FlushChecked ex_index (mkWSink 223 [])) = false /\
  write_to FlushChecked ex_index (mkWSink 224 []) = (mkWSink 0 (encode_index ex_index), 224, true).
Proof. vm_compute. repeat split; reflexivity. Qed.

(* one reader shared by all attempts instead of a fresh one per attempt: after a failed first attempt the
   retry uploads an empty body; a plain object server stores it and StoreIndex reports success, desync's
   own index server (accepting what IndexFromReader accepts) refuses it although it was healthy *)
Example C04_shared_reader_refuted :
  remote_store_index SharedReader (fun _ => true) 3 [AFail] ex_index = Some [] /\
  remote_store_index SharedReader (fun b => match decode_index SHA512_256 b with Ok _ => true | _ => false end)
                     3 [AFail] ex_index = None /\
  remote_store_index FreshReader (fun _ => true) 3 [AFail; AFail] ex_index = Some (encode_index ex_index) /\
  remote_store_index FreshReader (fun _ => true) 3 [AFail; AFail; AFail] ex_index = None /\
  remote_store_index FreshReader (fun b => match decode_index SHA512_256 b with Ok _ => true | _ => false end)
                     3 [AFail] ex_index = Some (encode_index ex_index).
Proof. vm_compute. repeat split; reflexivity. Qed.

(* the unchecked words are really unchecked: an index element claiming 56 bytes and a tail with foreign
   sizes is accepted, and re-encoding gives the canonical file back *)
Example C04_damaged_unchecked_words_accepted :
  let good := encode_index ex_index in
  let bad := le64 56 ++ skipn 8 (firstn 200 good) ++ le64 7 ++ le64 9 ++ skipn 216 good in
  length bad = 224%nat /\ bad <> good /\
  decode_index SHA512_256 bad = Ok ex_index /\ encode_index ex_index = good.
Proof.
  vm_compute. repeat split; try reflexivity. intros E. inversion E.
Qed.
