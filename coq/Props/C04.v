(* C04 -- index files round-trip exactly and malformed ones are rejected.
   Only statements, [exact], and Print Assumptions live here. *)
From Coq Require Import List NArith Arith Bool.
From DS Require Import Gen.Constants Base.Bytes Base.LE64 Model.Format Model.Index
     Proofs.FormatProofs Proofs.IndexProofs.
Import ListNotations.
Local Open Scope N_scope.

(* Reading back what Index.WriteTo wrote gives the same parameters and chunk table, for
   every index WriteTo is meant to be given ([wf_index]: 64-bit fields, 32-byte ids, sizes
   <= max, total < 2^64, Start = sum of the preceding sizes, first chunk not empty -- an
   end offset of 0 is the table terminator) and either digest whose flag the index carries. *)
Theorem C04_index_roundtrip : forall (d : digest) (i : index),
  wf_index i -> digest_ok d (ix_flags i) = true -> decode_index d (encode_index i) = Ok i.
Proof. exact index_roundtrip. Qed.
Print Assumptions C04_index_roundtrip.
