(* C09 -- random-access reads through an index return exactly the blob's bytes.
   Only statements, [exact], Print Assumptions and Examples live here.
   Model: Model/ReadSeeker.v (readseeker.go IndexPos, nullchunk.go, mount-index.go indexFileHandle.read). *)
From Coq Require Import List NArith ZArith Arith Permutation.
From DS Require Import Base.Bytes Base.Hash Model.ReadSeeker Proofs.ReadSeekerProofs.
Import ListNotations.
Local Open Scope Z_scope.

(* sort.Search as used by findOffset: for a predicate monotone on [0,n) it terminates (fuel n+1) and
   returns the least index where the predicate holds, n if there is none. *)
Theorem C09_go_search_least : forall n f, mono_upto n f ->
  exists k, go_search n f = Some k /\ (k <= n)%nat /\
            (forall x, (x < k)%nat -> f x = false) /\ (forall x, (k <= x < n)%nat -> f x = true).
Proof. exact go_search_least. Qed.
Print Assumptions C09_go_search_least.

(* After EVERY history of Seek (any offset, any whence) and Read (any length), under EVERY fault pattern of a
   store whose successful answers hash to the requested ID, the cursor is consistent: pos = Start(curChunkIdx) +
   curChunkOffset, the offset lies inside the row, curChunkID is the row's ID, and a cached chunk hashes to it. *)
Theorem C09_ipos_inv : forall H idx store maxsz ops,
  tiles_from 0 idx -> store_sound H store ->
  ipos_ok H idx (fst (fst (run_ops store (new_null_chunk H maxsz) idx (new_ipos idx, 0%nat) ops))).
Proof. exact ipos_inv. Qed.
Print Assumptions C09_ipos_inv.

(* A Read issued after any history, under any fault pattern: it does not panic or loop ([read_fuel] suffices) and
   (read_post) the bytes are exactly blob[pos, pos+n), the position advances by n; without error n = min(len, L-pos);
   io.EOF iff pos = L at entry (then n = 0) -- also when the store itself fails with the value io.EOF
   (code_bare_eof: Read reports io.ErrUnexpectedEOF) or with an error that wraps io.EOF (code_wrapped_eof: passed
   through, it is not the value io.EOF); any other error is [read_err (store_err c)] for a store failure c that
   happened during this very call, and the bytes reported with it are still the blob's.  H is arbitrary: "or H has a
   collision". *)
Theorem C09_read_refines_blob : forall H maxsz idx blob store ops plen,
  index_describes H idx blob -> store_sound H store ->
  let nc := new_null_chunk H maxsz in
  let st := fst (run_ops store nc idx (new_ipos idx, 0%nat) ops) in
  (0 <= pos (fst st) <= Z.of_nat (length blob) /\
   read_post H blob store (snd st) (pos (fst st)) plen (read (read_fuel plen) store nc idx (snd st) (fst st) plen))
  \/ Collision H.
Proof. exact read_refines_blob. Qed.
Print Assumptions C09_read_refines_blob.

(* With a store that never fails, Read never reports an error except io.EOF at the end of the blob. *)
Theorem C09_read_healthy : forall H maxsz idx blob store ops plen,
  index_describes H idx blob -> store_sound H store -> (forall k i c, store k i <> SFail c) ->
  let nc := new_null_chunk H maxsz in
  let st := fst (run_ops store nc idx (new_ipos idx, 0%nat) ops) in
  match read (read_fuel plen) store nc idx (snd st) (fst st) plen with
  | Ret (_, _, d, e) =>
      (e = None /\ Z.of_nat (length d) = Z.min (Z.of_nat plen) (Z.of_nat (length blob) - pos (fst st))) \/
      (e = Some EEOF /\ pos (fst st) = Z.of_nat (length blob))
  | _ => False
  end \/ Collision H.
Proof. exact read_healthy. Qed.
Print Assumptions C09_read_healthy.

(* A Seek issued after any history: target in [0, L] (L itself included) => positioned there, no error;
   otherwise an error that is not io.EOF and the position is unchanged; it never panics. *)
Theorem C09_seek_refines : forall H maxsz idx blob store ops off wh,
  index_describes H idx blob -> store_sound H store ->
  let nc := new_null_chunk H maxsz in
  let s := fst (fst (run_ops store nc idx (new_ipos idx, 0%nat) ops)) in
  seek_post idx (Z.of_nat (length blob)) s off wh (seek idx s off wh).
Proof. exact seek_refines. Qed.
Print Assumptions C09_seek_refines.

(* FUSE: any number n of open handles, any sequence of earlier requests (handle, offset, size) in any order, then a
   request on handle h: the answer is the blob's bytes blob[off, off+min(size, L-off)), or EIO only if the offset
   is outside the blob or the store failed during this request.  (Requests on one handle are serialized by its
   mutex; handles do not share state, so this sequential semantics covers concurrent requests on different handles
   up to the interleaving of their store calls, which the fault oracle quantifies over.) *)
Theorem C09_fuse_read_refines_blob : forall H maxsz idx blob store n rqs h off len,
  index_describes H idx blob -> store_sound H store ->
  let nc := new_null_chunk H maxsz in
  let fs := fst (fuse_run store nc idx (fuse_open idx n) rqs) in
  match snd (fuse_req store nc idx fs (h, off, len)) with
  | None => (n <= h)%nat /\ fst (fuse_req store nc idx fs (h, off, len)) = fs
  | Some r => (h < n)%nat /\
              (fuse_post blob store (snd fs) (snd (fst (fuse_req store nc idx fs (h, off, len)))) off len r \/ Collision H)
  end.
Proof. exact fuse_read_refines_blob. Qed.
Print Assumptions C09_fuse_read_refines_blob.

(* Overlapping FUSE requests on DIFFERENT handles.  A handle runs its own requests one after the other (its mutex) and
   shares nothing with other handles but the store; whatever the other handles do while one of its requests is under
   way can only change which store answers that request's GetChunk calls receive.  So: let every request of this handle
   see an ARBITRARY store view (any sound store, any call numbers -- unrelated between requests: every interleaving
   with any number of other handles and requests); then every answer is still blob[off, off+min(size, L-off)), or EIO
   only for an offset outside the blob or a store failure in that request.  (That handles really share nothing is a
   fact about mount-index.go, checked on the implementation by the harness's overlapping-read cases: one request is
   held inside the store while requests on other handles run.) *)
Theorem C09_fuse_overlapping_reads : forall H maxsz idx blob rqs st calls off len,
  index_describes H idx blob ->
  Forall (fun rq => store_sound H (fst (fst (fst rq)))) rqs -> store_sound H st ->
  let nc := new_null_chunk H maxsz in
  let s := fst (handle_run nc idx (new_ipos idx) rqs) in
  fuse_post blob st calls (snd (fst (fuse_read st nc idx (s, calls) off len))) off len
            (snd (fuse_read st nc idx (s, calls) off len)) \/ Collision H.
Proof. exact fuse_overlapping_reads. Qed.
Print Assumptions C09_fuse_overlapping_reads.

(* Concurrent requests on ONE handle.  indexFileHandle.read holds the handle's mutex across Seek + Read, so requests that
   arrive while another one is under way (kernel read-ahead) are served one at a time in the order the mutex lets
   them in: some permutation [served] of the requests [issued].  For EVERY such order every answer is the blob's bytes
   blob[off, off+min(size, L-off)), or EIO only for an offset outside the blob or when the store fails (fuse_answer_ok).
   That the requests of a handle are atomic is the model's reading of that mutex; the harness checks it on the
   implementation: one request is parked inside GetChunk while another one is issued on the SAME handle. *)
Theorem C09_fuse_any_admission_order : forall H maxsz idx blob store n issued served,
  index_describes H idx blob -> store_sound H store -> Permutation issued served ->
  let nc := new_null_chunk H maxsz in
  Forall2 (fuse_answer_ok blob store n) served (snd (fuse_run store nc idx (fuse_open idx n) served)) \/ Collision H.
Proof. exact fuse_any_admission_order. Qed.
Print Assumptions C09_fuse_any_admission_order.

(* The empty index (empty blob): for every history and every store, each Read returns (0, io.EOF), Seek succeeds
   exactly when its target is 0, the store is never called, nothing panics. *)
Theorem C09_ipos_empty : forall store nc ops,
  fst (run_ops store nc [] (new_ipos [], 0%nat) ops) = (new_ipos [], 0%nat) /\
  Forall2 empty_res_ok ops (snd (run_ops store nc [] (new_ipos [], 0%nat) ops)).
Proof. exact ipos_empty. Qed.
Print Assumptions C09_ipos_empty.

(* ---- non-vacuity: a 3-row index over a 7-byte blob with a run of zero chunks, H = positional sum ---- *)
Definition ex_H (b : bytes) : id := fold_left (fun a x => (a * 257 + x + 1)%N) b 0%N.
Definition ex_blob : bytes := [5; 6; 0; 0; 0; 0; 9]%N.
Definition ex_row (st sz : N) : row := mkrow (ex_H (slice ex_blob (N.to_nat st) (N.to_nat sz))) st sz.
Definition ex_idx : index := [ex_row 0 2; ex_row 2 2; ex_row 4 2; ex_row 6 1].
(* store: call 1 fails with code 7, every other call returns the right chunk *)
Definition ex_store : store_t := fun k i =>
  if (k =? 1)%nat then SFail 7
  else match find (fun r => N.eqb (r_id r) i) ex_idx with
       | Some r => SData (chunk_of ex_blob r)
       | None => SFail 1
       end.
Example C09_example_describes : index_describes ex_H ex_idx ex_blob.
Proof. repeat split; repeat constructor. Qed.
Example C09_example_sound : store_sound ex_H ex_store.
Proof.
  intros k i d. unfold ex_store. destruct (k =? 1)%nat; [discriminate|].
  destruct (find (fun r => N.eqb (r_id r) i) ex_idx) as [r|] eqn:E; [|discriminate].
  intros E2. inversion E2; subst d. apply find_some in E. destruct E as [Hin Hid]. apply N.eqb_eq in Hid. subst i.
  cbn in Hin. repeat (destruct Hin as [<-|Hin]; [vm_compute; reflexivity|]). contradiction.
Qed.
(* Read(3) at 0; Read(3) fails in the store after 0 bytes; Seek(-3, End); Read(9) is short; Read(1) is EOF.
   The null chunk (2 zero bytes) is served without a store call: the zero rows cost no call. *)
Example C09_example_history :
  snd (run_ops ex_store (new_null_chunk ex_H 2) ex_idx (new_ipos ex_idx, 0%nat)
         [ORead 3; OSeek 6 SeekStart; ORead 3; ORead 3; OSeek (-5) SeekEnd; ORead 9; ORead 1; OSeek 8 SeekStart]) =
  [RRead [5; 6; 0]%N None; RSeek 6 None; RRead [] (Some (EStore 7)); RRead [9]%N None; RSeek 2 None;
   RRead [0; 0; 0; 0; 9]%N None; RRead [] (Some EEOF); RSeek 7 (Some EPastChunk)].
Proof. vm_compute. reflexivity. Qed.
Example C09_example_fuse :
  snd (fuse_run ex_store (new_null_chunk ex_H 2) ex_idx (fuse_open ex_idx 2)
         [(0%nat, 5, 4%nat); (1%nat, 0, 2%nat); (0%nat, 1, 3%nat); (1%nat, 7, 3%nat); (0%nat, 8, 1%nat); (2%nat, 0, 1%nat)]) =
  [Some (FData [0; 9]%N); Some FEIO; Some (FData [6; 0; 0]%N); Some (FData []); Some FEIO; None].
Proof. vm_compute. reflexivity. Qed.

(* A store that fails with io.EOF itself (call 0) and with a wrapped io.EOF (call 1): Read reports
   io.ErrUnexpectedEOF resp. the wrapped error -- never io.EOF before the end -- and the FUSE read answers EIO both
   times, then the data. *)
Definition ex_store_eof : store_t := fun k i =>
  if (k =? 0)%nat then SFail code_bare_eof else if (k =? 1)%nat then SFail code_wrapped_eof
  else match find (fun r => N.eqb (r_id r) i) ex_idx with
       | Some r => SData (chunk_of ex_blob r)
       | None => SFail 1
       end.
Example C09_example_store_eof :
  snd (run_ops ex_store_eof (new_null_chunk ex_H 2) ex_idx (new_ipos ex_idx, 0%nat) [ORead 3; ORead 3; ORead 3]) =
  [RRead [] (Some EUnexpectedEOF); RRead [] (Some (EStore code_wrapped_eof)); RRead [5; 6; 0]%N None] /\
  snd (fuse_run ex_store_eof (new_null_chunk ex_H 2) ex_idx (fuse_open ex_idx 1)
         [(0%nat, 0, 3%nat); (0%nat, 0, 3%nat); (0%nat, 0, 3%nat)]) =
  [Some FEIO; Some FEIO; Some (FData [5; 6; 0]%N)].
Proof. vm_compute. split; reflexivity. Qed.

(* A FUSE read that spans a chunk boundary and whose LATER chunk fails is answered EIO although Read had already copied
   the first chunk and moved on; the identical request retried on the same handle is positioned again (the handle seeks
   for every request) and returns exactly the requested bytes.  (Covered by C09_fuse_read_refines_blob for every
   history; this is the one a "skip the seek when the request continues the last one" shortcut would break.) *)
Example C09_example_retry_after_failed_later_chunk :
  snd (fuse_run ex_store (new_null_chunk ex_H 2) ex_idx (fuse_open ex_idx 1)
         [(0%nat, 0, 7%nat); (0%nat, 0, 7%nat); (0%nat, 1, 1%nat); (0%nat, 0, 7%nat)]) =
  [Some FEIO; Some (FData ex_blob); Some (FData [6]%N); Some (FData ex_blob)].
Proof. vm_compute. reflexivity. Qed.
