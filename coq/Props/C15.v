(* C15 -- HTTP servers enforce authorization, read-only mode and path confinement.
   Only statements, [exact], and Print Assumptions live here.

   [chunk_handle H zcomp zdecomp c s r] is HTTPHandler.ServeHTTP over a LocalStore [s];
   [index_handle T dec enc c d r] is HTTPIndexHandler.ServeHTTP over a LocalIndexStore
   directory [d]; both return the response and the store afterwards.  [r_path]/[r_auth] are
   r.URL.Path and r.Header.Get("Authorization") as net/http hands them to the handler.
   The digest H, zstd (zcomp/zdecomp) and the index codec are arbitrary functions. *)
From Coq Require Import List NArith Arith Bool.
From DS Require Import Gen.Constants Base.Bytes Base.Hash Base.Hex Base.GoPath
     Model.HTTPServer Model.ServerCLI Proofs.HTTPServerProofs.
Import ListNotations.

(* auth_gate: with an authorization value configured, a request whose header value differs
   from it (absent = "") is answered 401 by BOTH handlers, for every method, path, body and
   store content: the store is returned unchanged and the answer is the same constant
   whatever the store holds (nothing was read). *)
Theorem C15_auth_gate :
  forall H zcomp zdecomp (index_t : Type) (idx_decode : bytes -> option index_t) idx_encode c r,
  c_auth c <> [] -> r_auth r <> c_auth c ->
  (forall s, chunk_handle H zcomp zdecomp c s r = (resp 401 [], s)) /\
  (forall d, index_handle index_t idx_decode idx_encode c d r = (resp 401 [], d)).
Proof. exact auth_gate_both. Qed.
Print Assumptions C15_auth_gate.

(* readonly_no_write: a server not started writable never modifies its store. *)
Theorem C15_readonly_no_write :
  forall H zcomp zdecomp (index_t : Type) (idx_decode : bytes -> option index_t) idx_encode c r,
  c_writable c = false ->
  (forall s, snd (chunk_handle H zcomp zdecomp c s r) = s) /\
  (forall d, snd (index_handle index_t idx_decode idx_encode c d r) = d).
Proof. exact readonly_both. Qed.
Print Assumptions C15_readonly_no_write.

(* path_confined: idFromPath accepts a path only if it is, byte for byte,
   "/" sid[0:4] "/" sid ext  for a 64-digit hex string sid (either case) that decodes to the id.
   Hence every other path -- wrong prefix, wrong or missing suffix, "..", "//", "%2f" decoded to
   "/", NUL, over-long, empty -- is refused (Bad400 in chunk_serve). *)
Theorem C15_path_confined : forall compressed p i,
  id_from_path compressed p = Some i ->
  exists sid,
    p = [slash] ++ firstn 4 sid ++ [slash] ++ sid ++ chunk_ext compressed /\
    unhex sid = Some i /\ length i = 32 /\ length sid = 64 /\ hex i = lower sid.
Proof. exact id_from_path_sound. Qed.
Print Assumptions C15_path_confined.

(* ... and the canonical path of every id is accepted (the theorem above is not vacuous). *)
Theorem C15_path_canonical_accepted : forall compressed i,
  wf_bytes i -> length i = 32 ->
  id_from_path compressed ([slash] ++ firstn 4 (hex i) ++ [slash] ++ hex i ++ chunk_ext compressed) = Some i.
Proof. exact id_from_path_complete. Qed.
Print Assumptions C15_path_canonical_accepted.

(* Writes of the chunk server are confined: whenever the store changes, the request was an
   authorized PUT to a writable server on a canonical path, and exactly the file of that id
   was written, holding the re-encoded decoded body; every other id is untouched. *)
Theorem C15_chunk_write_confined : forall H zcomp zdecomp c s r rs s',
  chunk_handle H zcomp zdecomp c s r = (rs, s') -> s' <> s ->
  exists ib d,
    id_from_path (c_compressed c) (r_path r) = Some ib /\ r_method r = PUT /\
    c_writable c = true /\ auth_denied c r = false /\
    from_storage zdecomp (handler_conv c) (r_body r) = Some d /\
    lookup (id_of_bytes ib) (ls_files s') = Some (to_storage zcomp (opt_converters (ls_uncompressed s)) d) /\
    forall j, j <> id_of_bytes ib -> lookup j (ls_files s') = lookup j (ls_files s).
Proof. exact chunk_write_confined. Qed.
Print Assumptions C15_chunk_write_confined.

(* put_verified: unless write verification was disabled, what is stored hashes to the ID. *)
Theorem C15_put_verified : forall H zcomp zdecomp c s r rs s',
  c_skip_verify_write c = false ->
  chunk_handle H zcomp zdecomp c s r = (rs, s') -> s' <> s ->
  exists ib d,
    id_from_path (c_compressed c) (r_path r) = Some ib /\
    from_storage zdecomp (handler_conv c) (r_body r) = Some d /\
    H d = id_of_bytes ib /\
    lookup (id_of_bytes ib) (ls_files s') = Some (to_storage zcomp (opt_converters (ls_uncompressed s)) d) /\
    forall j, j <> id_of_bytes ib -> lookup j (ls_files s') = lookup j (ls_files s).
Proof. exact put_verified. Qed.
Print Assumptions C15_put_verified.

(* Reads of the chunk server are confined: the answer depends on the store only through the
   file of the id named by the (canonical) path; for a path that names no id it does not
   depend on the store at all. *)
Theorem C15_chunk_read_confined : forall H zcomp zdecomp c s1 s2 r,
  ls_uncompressed s1 = ls_uncompressed s2 -> ls_skip_verify s1 = ls_skip_verify s2 ->
  (forall ib, id_from_path (c_compressed c) (r_path r) = Some ib ->
              lookup (id_of_bytes ib) (ls_files s1) = lookup (id_of_bytes ib) (ls_files s2)) ->
  fst (chunk_handle H zcomp zdecomp c s1 r) = fst (chunk_handle H zcomp zdecomp c s2 r).
Proof. exact chunk_read_local. Qed.
Print Assumptions C15_chunk_read_confined.

(* index_name_confined: the only name the index server touches is path.Base(URL path), which
   contains no '/' unless it is "/" itself ... *)
Theorem C15_index_name_no_slash : forall p, base p = [slash] \/ ~ In slash (base p).
Proof. exact base_no_slash. Qed.
Print Assumptions C15_index_name_no_slash.

(* ... whenever the directory changes, the request was an authorized PUT to a writable server
   and exactly the entry of that name -- slash-free, not "." or "..", without NUL -- was created
   or replaced by the uploaded index; every other entry is untouched ... *)
Theorem C15_index_write_confined :
  forall (index_t : Type) (idx_decode : bytes -> option index_t) idx_encode c d r rs d',
  index_handle index_t idx_decode idx_encode c d r = (rs, d') -> d' <> d ->
  let n := base (r_path r) in
  r_method r = PUT /\ c_writable c = true /\ auth_denied c r = false /\
  noslash n /\ n <> [dot] /\ n <> [dot; dot] /\ ~ In 0%N n /\
  (exists ix, idx_decode (r_body r) = Some ix /\ dlookup n d' = Some (DFile (idx_encode ix))) /\
  forall m, m <> n -> dlookup m d' = dlookup m d.
Proof. exact index_write_confined. Qed.
Print Assumptions C15_index_write_confined.

(* ... and the answer depends on the directory only through the entry of that name; file
   content is only ever taken from an entry with a plain name. *)
Theorem C15_index_read_confined :
  forall (index_t : Type) (idx_decode : bytes -> option index_t) idx_encode c d1 d2 r,
  dlookup (base (r_path r)) d1 = dlookup (base (r_path r)) d2 ->
  fst (index_handle index_t idx_decode idx_encode c d1 r) = fst (index_handle index_t idx_decode idx_encode c d2 r).
Proof. exact index_read_local. Qed.
Print Assumptions C15_index_read_confined.

Theorem C15_index_content_from_plain_name : forall d n b,
  fs_open d n = OFile b -> dlookup n d = Some (DFile b) /\ n <> [dot] /\ n <> [dot; dot] /\ n <> [slash].
Proof. exact fs_open_file. Qed.
Print Assumptions C15_index_content_from_plain_name.

(* ---------- the same guarantees over the command line of `desync chunk-server` / `index-server`
   (Model/ServerCLI.v: options record -> handler parameters) ---------- *)

(* An expected Authorization value given with --authorization OR only through DESYNC_HTTP_AUTH
   is enforced by both servers; the flag wins when both are given. *)
Theorem C15_cli_auth_gate :
  forall H zcomp zdecomp (index_t : Type) (idx_decode : bytes -> option index_t) idx_encode o r,
  o_auth_flag o <> [] \/ o_auth_env o <> [] -> r_auth r <> cli_auth o ->
  (forall files, cli_chunk_handle H zcomp zdecomp o files r = (resp 401 [], cli_store o files)) /\
  (forall d, cli_index_handle index_t idx_decode idx_encode o d r = (resp 401 [], d)).
Proof. exact cli_auth_gate. Qed.
Print Assumptions C15_cli_auth_gate.

Theorem C15_cli_auth_source : forall o,
  (o_auth_flag o <> [] -> cli_auth o = o_auth_flag o) /\ (o_auth_flag o = [] -> cli_auth o = o_auth_env o).
Proof. intros o. split; [apply cli_auth_flag|apply cli_auth_env]. Qed.
Print Assumptions C15_cli_auth_source.

Theorem C15_cli_readonly :
  forall H zcomp zdecomp (index_t : Type) (idx_decode : bytes -> option index_t) idx_encode o r,
  o_writable o = false ->
  (forall files, snd (cli_chunk_handle H zcomp zdecomp o files r) = cli_store o files) /\
  (forall d, snd (cli_index_handle index_t idx_decode idx_encode o d r) = d).
Proof. exact cli_readonly. Qed.
Print Assumptions C15_cli_readonly.

(* --skip-verify-write=false governs uploads whatever --skip-verify-read is set to: anything the
   chunk server stores decodes to data hashing to the id of the request path. *)
Theorem C15_cli_put_verified : forall H zcomp zdecomp o files r rs s',
  o_skip_verify_write o = false ->
  cli_chunk_handle H zcomp zdecomp o files r = (rs, s') -> s' <> cli_store o files ->
  exists ib d,
    id_from_path (negb (o_uncompressed o)) (r_path r) = Some ib /\
    from_storage zdecomp (opt_converters (o_uncompressed o)) (r_body r) = Some d /\
    H d = id_of_bytes ib /\
    lookup (id_of_bytes ib) (ls_files s') = Some (zcomp d) /\
    forall j, j <> id_of_bytes ib -> lookup j (ls_files s') = lookup j files.
Proof. exact cli_put_verified. Qed.
Print Assumptions C15_cli_put_verified.

(* ---------- request histories: the servers are stateless ----------
   [chunk_history c s rs] / [index_history c d rs] answer the requests rs one after the other, each
   against the store the previous ones left; the handlers keep nothing else between requests. *)

(* In ANY history every request that does not carry the configured value is answered 401 --
   whatever was requested before it and by whom (an authorized GET of the same object included). *)
Theorem C15_history_auth_gate :
  forall H zcomp zdecomp (index_t : Type) (idx_decode : bytes -> option index_t) idx_encode c rs,
  c_auth c <> [] ->
  (forall s, Forall2 (fun r a => r_auth r <> c_auth c -> a = resp 401 [])
                     rs (fst (chunk_history H zcomp zdecomp c s rs))) /\
  (forall d, Forall2 (fun r a => r_auth r <> c_auth c -> a = resp 401 [])
                     rs (fst (index_history index_t idx_decode idx_encode c d rs))).
Proof. intros. split; intros; [now apply chunk_history_auth|now apply index_history_auth]. Qed.
Print Assumptions C15_history_auth_gate.

(* On a read-only server every request of a history is answered exactly as if it were the only
   request ever sent, and the store is what it was. *)
Theorem C15_history_stateless :
  forall H zcomp zdecomp (index_t : Type) (idx_decode : bytes -> option index_t) idx_encode c rs,
  c_writable c = false ->
  (forall s, chunk_history H zcomp zdecomp c s rs = (map (fun r => fst (chunk_handle H zcomp zdecomp c s r)) rs, s)) /\
  (forall d, index_history index_t idx_decode idx_encode c d rs =
             (map (fun r => fst (index_handle index_t idx_decode idx_encode c d r)) rs, d)).
Proof. intros. split; intros; [now apply chunk_history_readonly|now apply index_history_readonly]. Qed.
Print Assumptions C15_history_stateless.

(* The two Go standard-library facts the confinement rests on, for every byte string. *)
Theorem C15_clean_idempotent : forall p, clean (clean p) = clean p.
Proof. exact clean_idempotent. Qed.
Print Assumptions C15_clean_idempotent.

Theorem C15_clean_is_component_machine : forall p, clean p = clean_spec p.
Proof. exact clean_eq_spec. Qed.
Print Assumptions C15_clean_is_component_machine.

(* ---------- non-vacuity: a toy digest (sum of bytes), a toy compressor (prefix 90) ---------- *)
Definition ex_H (b : bytes) : id := fold_right N.add 0%N b.
Definition ex_zcomp (b : bytes) : bytes := 90%N :: b.
Definition ex_zdecomp (b : bytes) : option bytes := match b with 90%N :: r => Some r | _ => None end.
Definition ex_id : bytes := repeat 0%N 31 ++ [5%N].
Definition ex_path : bytes := [slash] ++ firstn 4 (hex ex_id) ++ [slash] ++ hex ex_id ++ CompressedChunkExt_bytes.
Definition ex_cfg (auth : bytes) (w : bool) : cfg :=
  {| c_auth := auth; c_writable := w; c_skip_verify_write := false; c_compressed := true; c_store_writable := true |}.
Definition ex_store : lstore := {| ls_files := []; ls_uncompressed := true; ls_skip_verify := false |}.
Definition ex_req (m : method) (auth body : bytes) : request :=
  {| r_method := m; r_path := ex_path; r_auth := auth; r_body := body |}.

(* an authorized, verified PUT stores the decoded chunk under its id ... *)
Example C15_example_put :
  chunk_handle ex_H ex_zcomp ex_zdecomp (ex_cfg [115]%N true) ex_store (ex_req PUT [115]%N [90; 5]%N)
  = (resp 200 [], {| ls_files := [(5%N, [5%N])]; ls_uncompressed := true; ls_skip_verify := false |}).
Proof. vm_compute. reflexivity. Qed.
(* ... a body that does not hash to the id is refused ... *)
Example C15_example_put_mismatch :
  chunk_handle ex_H ex_zcomp ex_zdecomp (ex_cfg [115]%N true) ex_store (ex_req PUT [115]%N [90; 6]%N)
  = (resp 400 [], ex_store).
Proof. vm_compute. reflexivity. Qed.
(* ... the same PUT without the right header is refused, as is any PUT on a read-only server ... *)
Example C15_example_denied :
  chunk_handle ex_H ex_zcomp ex_zdecomp (ex_cfg [115]%N true) ex_store (ex_req PUT [116]%N [90; 5]%N)
  = (resp 401 [], ex_store).
Proof. vm_compute. reflexivity. Qed.
Example C15_example_readonly :
  chunk_handle ex_H ex_zcomp ex_zdecomp (ex_cfg [] false) ex_store (ex_req PUT [] [90; 5]%N)
  = (resp 400 [], ex_store).
Proof. vm_compute. reflexivity. Qed.
(* ... and a GET of the stored chunk through a compressing handler returns the compressed data. *)
Example C15_example_get :
  fst (chunk_handle ex_H ex_zcomp ex_zdecomp (ex_cfg [] false)
         {| ls_files := [(5%N, [5%N])]; ls_uncompressed := true; ls_skip_verify := false |} (ex_req GET [] []))
  = resp 200 [90; 5]%N.
Proof. vm_compute. reflexivity. Qed.
(* dot-dot never reaches the store: "/0000/../0000/<id>.cacnk" is a bad request *)
Example C15_example_dotdot :
  id_from_path true ([slash] ++ firstn 4 (hex ex_id) ++ [slash; dot; dot; slash] ++ firstn 4 (hex ex_id) ++ [slash] ++ hex ex_id ++ CompressedChunkExt_bytes) = None.
Proof. vm_compute. reflexivity. Qed.
(* index server: "/../secret" and "/x/%2e%2e/secret" (decoded) both name "secret" inside the directory *)
Example C15_example_index_base :
  map base [[47; 46; 46; 47; 115]%N; [47; 120; 47; 46; 46; 47; 115]%N; [47; 46; 46]%N; [47]%N; []]%N
  = [[115]%N; [115]%N; [46; 46]%N; [47]%N; [46]%N]%N.
Proof. vm_compute. reflexivity. Qed.
