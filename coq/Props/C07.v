(* C07 -- a cancelled or interrupted operation never reports success.
   Only statements, [exact], Print Assumptions and Examples live here.
   Schedules are arbitrary [list tid]; the environment thread [CancelEnv] may
   cancel the parent context at any point of the schedule. *)
From Coq Require Import List NArith Arith Bool.
From DS Require Import Base.Bytes Base.Hash Base.Sched Model.Pool Model.VerifyIndex Model.Cancel
     Proofs.PoolProofs Proofs.VerifyIndexProofs Proofs.CancelProofs.
Import ListNotations.

(* The feeder/worker skeleton after the fix (interrupted flag): for every job count, job body,
   worker count, schedule and cancellation point, nil means every job ran and succeeded. *)
Theorem C07_pool_cancel_sound : forall njobs job_ok nw sched,
  let s := run (Pool.step njobs job_ok true) sched (Pool.init nw) in
  final s = true -> pool_result s = RNil ->
  forall k, k < njobs -> In k (processed s) /\ job_ok k = true.
Proof. exact pool_cancel_sound. Qed.
Print Assumptions C07_pool_cancel_sound.

(* An interruption is only reported when the parent context really was cancelled. *)
Theorem C07_interrupted_real : forall njobs job_ok can_cancel nw sched,
  let s := run (Pool.step njobs job_ok can_cancel) sched (Pool.init nw) in
  pool_result s = RInterrupted -> can_cancel = true.
Proof. exact pool_interrupted_real. Qed.
Print Assumptions C07_interrupted_real.

(* The code BEFORE the fix (`close(in); return g.Wait()`): refuted for every non-empty job list,
   by cancelling before the first job ... *)
Theorem C07_prefix_refuted_first : forall njobs job_ok, 0 < njobs ->
  exists nw sched,
    let s := run (Pool.step njobs job_ok true) sched (Pool.init nw) in
    final s = true /\ pool_result_prefix s = RNil /\ processed s = [] /\ pool_result s = RInterrupted.
Proof. exact pool_prefix_refuted_first. Qed.
Print Assumptions C07_prefix_refuted_first.

(* ... and between job k and job k+1, for every k. *)
Theorem C07_prefix_refuted_between : forall njobs job_ok k,
  k < njobs -> (forall j, j < k -> job_ok j = true) ->
  exists nw sched,
    let s := run (Pool.step njobs job_ok true) sched (Pool.init nw) in
    final s = true /\ pool_result_prefix s = RNil /\ ~ In k (processed s) /\ pool_result s = RInterrupted.
Proof. exact pool_prefix_refuted_between. Qed.
Print Assumptions C07_prefix_refuted_between.

(* VerifyIndex: nil under cancellation still means that the file matches the index. *)
Theorem C07_verifyindex_cancel_sound : forall H n nw sched file idx bs,
  length file = idx_length idx ->
  batches n (with_starts 0 idx) = Some bs ->
  let s := run (Pool.step (length bs) (vi_job_ok H file bs) true) sched (Pool.init nw) in
  final s = true -> pool_result s = RNil ->
  map H (split_by (sizes idx) file) = ids idx.
Proof. intros H n nw. exact (verify_conc_sound H n nw true). Qed.
Print Assumptions C07_verifyindex_cancel_sound.

(* Plan.Validate: nil means every file-seed segment of the plan was validated. *)
Theorem C07_validate_cancel_sound : forall plan nw sched,
  let jobs := validate_jobs plan in
  let s := run (Pool.step (length jobs) (validate_job_ok plan) true) sched (Pool.init nw) in
  final s = true -> pool_result s = RNil ->
  forall seg, In seg plan -> seg_file_seed seg = true -> seg_valid seg = true.
Proof. exact validate_cancel_sound. Qed.
Print Assumptions C07_validate_cancel_sound.

(* AssembleFile: nil means a validation ran to completion with nil (an interrupted validation
   returns at once) and the main loop handed every segment of the plan to a worker that wrote it. *)
Theorem C07_assemble_cancel_sound : forall a attempts nsegs seg_ok nw sched,
  let s := run (Pool.step nsegs seg_ok true) sched (Pool.init nw) in
  final s = true ->
  assemble_result a attempts (pool_result s) = Some RNil ->
  (forall k, k < nsegs -> In k (processed s) /\ seg_ok k = true) /\
  exists rg, In (RNil, rg) attempts.
Proof. exact assemble_cancel_sound. Qed.
Print Assumptions C07_assemble_cancel_sound.

Theorem C07_assemble_validate_interrupted : forall a rg rest main,
  assemble_result a ((RInterrupted, rg) :: rest) main = Some RInterrupted.
Proof. exact assemble_validate_interrupted. Qed.
Print Assumptions C07_assemble_validate_interrupted.

(* The oracle's outcome enumeration (used by the cancel-at-k correspondence) lists only outcomes of
   real runs of the model. *)
Theorem C07_outcomes_sound : forall njobs job_ok nw cancel_at fuel outs o,
  pool_outcomes njobs job_ok nw cancel_at fuel = Some outs -> In o outs ->
  exists sched, let s := run (Pool.step njobs job_ok true) sched (Pool.init nw) in
                final s = true /\ outcome njobs s = o.
Proof. exact pool_outcomes_sound. Qed.
Print Assumptions C07_outcomes_sound.

(* Non-vacuity: 3 jobs, 2 workers, cancel as job 1 is about to be offered: both an interrupted,
   incomplete run and a complete nil run exist; with the pre-fix result the former reports nil. *)
Example C07_example_outcomes :
  pool_outcomes 3 (fun _ => true) 2 (Some 1) 2000 = Some [(RNil, true); (RInterrupted, false)].
Proof. vm_compute. reflexivity. Qed.
Example C07_example_interrupted :
  let s := run (Pool.step 3 (fun _ => true) true) [Worker 0; Worker 0; CancelEnv; Feeder; Worker 0; Worker 1] (Pool.init 2) in
  final s = true /\ pool_result s = RInterrupted /\ pool_result_prefix s = RNil /\ processed s = [0].
Proof. vm_compute. repeat split; reflexivity. Qed.
Example C07_example_complete_after_cancel :
  let s := run (Pool.step 2 (fun _ => true) true) [CancelEnv; Worker 0; Worker 0; Worker 1; Worker 1; Feeder; Worker 0; Worker 1] (Pool.init 2) in
  final s = true /\ pool_result s = RNil /\ processed s = [1; 0].
Proof. vm_compute. repeat split; reflexivity. Qed.
