(* C07 -- a cancelled or interrupted operation never reports success.
   Only statements, [exact], Print Assumptions and Examples live here.
   Schedules are arbitrary [list tid]; the environment thread [CancelEnv] may
   cancel the parent context at any point of the schedule. *)
From Coq Require Import List NArith Arith Bool.
From DS Require Import Base.Bytes Base.Hash Base.Sched Model.Pool Model.VerifyIndex Model.Cancel Model.BulkWrite
     Model.UnTarIndex Model.ExtractTmp Model.CtxBound Model.StreamIO Model.TarCancel
     Proofs.PoolProofs Proofs.VerifyIndexProofs Proofs.CancelProofs Proofs.BulkWriteProofs
     Proofs.UnTarIndexProofs Proofs.ExtractTmpProofs Proofs.CtxBoundProofs Proofs.StreamIOProofs Proofs.TarCancelProofs.
Import ListNotations.

(* The feeder/worker skeleton after the fix (interrupted flag): for every job count, job body,
   worker count, schedule and cancellation point, nil means every job ran and succeeded. *)
Theorem C07_pool_cancel_sound : forall njobs job_ok nw sched,
  let s := run (Pool.step njobs job_ok true) sched (Pool.init nw) in
  final s = true -> pool_result s = RNil ->
  forall k, k < njobs -> In k (processed s) /\ job_ok k = true.
Proof. exact pool_cancel_sound. Qed.
Print Assumptions C07_pool_cancel_sound.

(* An interruption is only reported when the parent context really was cancelled. *)
Theorem C07_interrupted_real : forall njobs job_ok can_cancel nw sched,
  let s := run (Pool.step njobs job_ok can_cancel) sched (Pool.init nw) in
  pool_result s = RInterrupted -> can_cancel = true.
Proof. exact pool_interrupted_real. Qed.
Print Assumptions C07_interrupted_real.

(* The code BEFORE the fix (`close(in); return g.Wait()`): refuted for every non-empty job list,
   by cancelling before the first job ... *)
Theorem C07_prefix_refuted_first : forall njobs job_ok, 0 < njobs ->
  exists nw sched,
    let s := run (Pool.step njobs job_ok true) sched (Pool.init nw) in
    final s = true /\ pool_result_prefix s = RNil /\ processed s = [] /\ pool_result s = RInterrupted.
Proof. exact pool_prefix_refuted_first. Qed.
Print Assumptions C07_prefix_refuted_first.

(* ... and between job k and job k+1, for every k. *)
Theorem C07_prefix_refuted_between : forall njobs job_ok k,
  k < njobs -> (forall j, j < k -> job_ok j = true) ->
  exists nw sched,
    let s := run (Pool.step njobs job_ok true) sched (Pool.init nw) in
    final s = true /\ pool_result_prefix s = RNil /\ ~ In k (processed s) /\ pool_result s = RInterrupted.
Proof. exact pool_prefix_refuted_between. Qed.
Print Assumptions C07_prefix_refuted_between.

(* VerifyIndex: nil under cancellation still means that the file matches the index. *)
Theorem C07_verifyindex_cancel_sound : forall H n nw sched file idx bs,
  length file = idx_length idx ->
  batches n (with_starts 0 idx) = Some bs ->
  let s := run (Pool.step (length bs) (vi_job_ok H file bs) true) sched (Pool.init nw) in
  final s = true -> pool_result s = RNil ->
  map H (split_by (sizes idx) file) = ids idx.
Proof. intros H n nw. exact (verify_conc_sound H n nw true). Qed.
Print Assumptions C07_verifyindex_cancel_sound.

(* ChopFile, Copy, ChunkStream (the effectful model of C06 with the cancelling environment enabled):
   nil under cancellation and arbitrary store faults still means that every chunk of the index is in
   the target store, valid. *)
Theorem C07_chop_cancel_sound : forall H rows fault store0 nw sched,
  store_ok H store0 ->
  let s := run (bstep H MChop rows (fun _ => None) fault true) sched (binit store0 nw) in
  bfinal s = true -> bulk_result s = RNil ->
  forall k, k < length rows ->
    exists b, lookup (b_store s) (fst (nth k rows (0%N, []))) = Some b /\ H b = fst (nth k rows (0%N, [])).
Proof. exact chop_cancel_sound. Qed.
Print Assumptions C07_chop_cancel_sound.

Theorem C07_copy_cancel_sound : forall H ids src fault store0 nw sched,
  store_ok H store0 -> src_ok H src ->
  let s := run (bstep H MCopy ids src fault true) sched (binit store0 nw) in
  bfinal s = true -> bulk_result s = RNil ->
  forall k, k < length ids ->
    exists b, lookup (b_store s) (fst (nth k ids (0%N, []))) = Some b /\ H b = fst (nth k ids (0%N, [])).
Proof. exact copy_cancel_sound. Qed.
Print Assumptions C07_copy_cancel_sound.

Theorem C07_chunkstream_cancel_sound : forall H chunks fault store0 nw sched,
  store_ok H store0 ->
  let s := run (bstep H MStream chunks (fun _ => None) fault true) sched (binit store0 nw) in
  bfinal s = true -> bulk_result s = RNil ->
  stream_index chunks s = map (fun j => Some (H (snd j))) chunks /\
  forall k, k < length chunks ->
    exists b, lookup (b_store s) (H (snd (nth k chunks (0%N, [])))) = Some b /\ H b = H (snd (nth k chunks (0%N, []))).
Proof. exact chunkstream_cancel_sound. Qed.
Print Assumptions C07_chunkstream_cancel_sound.

(* ... and their pre-fix result function is refuted for every non-empty input: cancel before the first job,
   the old code returns nil with the target untouched. *)
Theorem C07_bulk_prefix_refuted : forall H mode jobs src fault store0, 0 < length jobs ->
  exists nw sched,
    let s := run (bstep H mode jobs src fault true) sched (binit store0 nw) in
    bfinal s = true /\ bulk_result_prefix s = RNil /\ bulk_result s = RInterrupted /\
    b_store s = store0 /\ b_done s = [].
Proof. exact bulk_prefix_refuted_first. Qed.
Print Assumptions C07_bulk_prefix_refuted.

(* Context-bound stores (Model/CtxBound.v): a request that is in flight when the context is cancelled, and
   every later one, fails.  Such a failure is a delivered failure and surfaces as an error -- also when the
   CALLER cancelled, no sibling error is recorded and every job had already been handed out -- and nil still
   means complete, for every schedule and cancellation point. *)
Theorem C07_ctxbound_fail_reported : forall H mode jobs src fault can_cancel store0 nw sched,
  let s := run (cb_step H mode jobs src fault can_cancel) sched (binit store0 nw) in
  bfinal s = true -> 0 < b_hits s -> bulk_result s = RErr.
Proof. exact cb_fail_reported. Qed.
Print Assumptions C07_ctxbound_fail_reported.

Theorem C07_ctxbound_complete : forall H mode jobs src fault can_cancel store0 nw sched,
  store_ok H store0 -> (mode = MCopy -> src_ok H src) ->
  let s := run (cb_step H mode jobs src fault can_cancel) sched (binit store0 nw) in
  bfinal s = true -> bulk_result s = RNil ->
  forall k, k < njobs jobs ->
    exists b, lookup (b_store s) (jid H mode jobs k) = Some b /\ H b = jid H mode jobs k.
Proof. exact cb_complete. Qed.
Print Assumptions C07_ctxbound_complete.

(* Plan.Validate: nil means every file-seed segment of the plan was validated. *)
Theorem C07_validate_cancel_sound : forall plan nw sched,
  let jobs := validate_jobs plan in
  let s := run (Pool.step (length jobs) (validate_job_ok plan) true) sched (Pool.init nw) in
  final s = true -> pool_result s = RNil ->
  forall seg, In seg plan -> seg_file_seed seg = true -> seg_valid seg = true.
Proof. exact validate_cancel_sound. Qed.
Print Assumptions C07_validate_cancel_sound.

(* AssembleFile: nil means a validation ran to completion with nil (an interrupted validation
   returns at once) and the main loop handed every segment of the plan to a worker that wrote it. *)
Theorem C07_assemble_cancel_sound : forall a attempts nsegs seg_ok nw sched,
  let s := run (Pool.step nsegs seg_ok true) sched (Pool.init nw) in
  final s = true ->
  assemble_result a attempts (pool_result s) = Some RNil ->
  (forall k, k < nsegs -> In k (processed s) /\ seg_ok k = true) /\
  exists rg, In (RNil, rg) attempts.
Proof. exact assemble_cancel_sound. Qed.
Print Assumptions C07_assemble_cancel_sound.

Theorem C07_assemble_validate_interrupted : forall a rg rest main,
  assemble_result a ((RInterrupted, rg) :: rest) main = Some RInterrupted.
Proof. exact assemble_validate_interrupted. Qed.
Print Assumptions C07_assemble_validate_interrupted.

(* UnTarIndex (feeder, workers, assembler writing into the pipe, decoder with "EOF at an element
   boundary is a clean end"), after the fix: for every chunk count, chunk sizes, fetch results,
   boundary predicate, decoder failure points, channel capacity, worker count, schedule and
   cancellation point, nil means every chunk was fetched, its bytes went through the pipe in index
   order, and the decoder consumed the whole stream. *)
Theorem C07_untarindex_cancel_sound : forall n csize fetch_ok boundary dec_ok cap can_cancel nw sched,
  let s := run (ustep n csize fetch_ok boundary dec_ok cap true can_cancel) sched (uinit nw) in
  ufinal s = true -> untar_result s = RNil ->
  u_wdone s = n /\ (forall k, k < n -> fetch_ok k = true) /\
  u_pos s = total_to csize n /\ boundary (u_pos s) = true.
Proof. exact untarindex_cancel_sound. Qed.
Print Assumptions C07_untarindex_cancel_sound.

(* ... and UnTarIndex cannot get stuck: as long as some goroutine has not returned one of them can take
   a step (with at least one worker and a channel capacity of at least one, as in the code), so after a
   cancellation or an error every goroutine eventually leaves and g.Wait() returns. *)
Theorem C07_untarindex_deadlock_free : forall n csize fetch_ok boundary dec_ok cap can_cancel nw sched,
  let s := run (ustep n csize fetch_ok boundary dec_ok cap true can_cancel) sched (uinit nw) in
  0 < nw -> 0 < cap -> ufinal s = false ->
  exists t, ustep n csize fetch_ok boundary dec_ok cap true can_cancel s t <> None.
Proof. exact untarindex_deadlock_free. Qed.
Print Assumptions C07_untarindex_deadlock_free.

(* Before the fix: refuted for every non-empty index whose stream start is an element boundary --
   nil with nothing fetched and nothing unpacked; the fixed code returns Interrupted on the same schedule. *)
Theorem C07_untarindex_prefix_refuted : forall n csize fetch_ok boundary dec_ok cap,
  0 < n -> boundary 0 = true -> dec_ok 0 = true ->
  exists nw sched,
    let s := run (ustep n csize fetch_ok boundary dec_ok cap false true) sched (uinit nw) in
    let s' := run (ustep n csize fetch_ok boundary dec_ok cap true true) sched (uinit nw) in
    ufinal s = true /\ untar_result s = RNil /\ u_pos s = 0 /\ u_wdone s = 0 /\ u_fetched s = [] /\
    ufinal s' = true /\ untar_result s' = RInterrupted.
Proof. exact untarindex_prefix_refuted. Qed.
Print Assumptions C07_untarindex_prefix_refuted.

(* writeWithTmpFile (extract without --in-place): unless the result is nil the destination path is
   unchanged; nil means AssembleFile returned nil and the destination is the assembled file; the temp
   file never survives. *)
Theorem C07_extract_tmp_untouched : forall name tmp create_ok new_ino asm_data asm_res rename_ok fs,
  tmp <> name ->
  let '(fs', r) := write_with_tmp name tmp create_ok new_ino asm_data asm_res rename_ok fs in
  r <> RNil -> fs' name = fs name.
Proof. exact extract_tmp_untouched. Qed.
Print Assumptions C07_extract_tmp_untouched.

Theorem C07_extract_tmp_success : forall name tmp create_ok new_ino asm_data asm_res rename_ok fs,
  tmp <> name ->
  let '(fs', r) := write_with_tmp name tmp create_ok new_ino asm_data asm_res rename_ok fs in
  r = RNil -> asm_res = RNil /\ fs' name = Some {| f_ino := new_ino; f_data := asm_data |}.
Proof. exact extract_tmp_success. Qed.
Print Assumptions C07_extract_tmp_success.

Theorem C07_extract_tmp_removed : forall name tmp create_ok new_ino asm_data asm_res rename_ok fs,
  tmp <> name -> fs tmp = None ->
  fst (write_with_tmp name tmp create_ok new_ino asm_data asm_res rename_ok fs) tmp = None.
Proof. exact extract_tmp_removed. Qed.
Print Assumptions C07_extract_tmp_removed.

(* Frame: unless the result is nil no path other than the temp name changes -- neither the file a destination
   symlink points to nor the link itself; extracting "in place" through such a link is refuted. *)
Theorem C07_extract_tmp_frame : forall name tmp create_ok new_ino asm_data asm_res rename_ok fs p,
  p <> tmp ->
  let '(fs', r) := write_with_tmp name tmp create_ok new_ino asm_data asm_res rename_ok fs in
  r <> RNil -> fs' p = fs p.
Proof. exact extract_tmp_frame. Qed.
Print Assumptions C07_extract_tmp_frame.

Theorem C07_extract_through_link_refuted :
  exists target new_ino asm_data fs,
    let '(fs', r) := write_through_link target new_ino asm_data RInterrupted fs in
    r <> RNil /\ fs' target <> fs target.
Proof. exact extract_through_link_refuted. Qed.
Print Assumptions C07_extract_through_link_refuted.

(* The seeded mutation "rename before looking at the error" is refuted. *)
Theorem C07_extract_rename_first_refuted :
  exists name tmp new_ino asm_data fs,
    tmp <> name /\
    let '(fs', r) := write_with_tmp_rename_first name tmp true new_ino asm_data RInterrupted fs in
    r <> RNil /\ fs' name <> fs name.
Proof. exact extract_rename_first_refuted. Qed.
Print Assumptions C07_extract_rename_first_refuted.

(* Tar (tar.go): the context is looked at once per entry; nil is only returned for a complete archive in which
   every payload has the size its header announces, wherever the cancellation arrives -- also inside the payload
   of the last entry; a cancellation before the last entry is reported; a payload reader that stops at the
   cancellation is refuted. *)
Theorem C07_tar_walk_sound : forall sizes cancel_at i cancelled w,
  tar_walk true sizes i cancelled cancel_at = (w, WNil) -> w = sizes.
Proof. exact tar_walk_sound. Qed.
Print Assumptions C07_tar_walk_sound.

Theorem C07_tar_walk_interrupted : forall sizes e r,
  S e < length sizes -> snd (tar_walk true sizes 0 false (Some (e, r))) = WInterrupted.
Proof. exact tar_walk_interrupted. Qed.
Print Assumptions C07_tar_walk_interrupted.

Theorem C07_tar_walk_mutant_refuted :
  exists sizes e r,
    tar_walk false sizes 0 false (Some (e, r)) = ([3; 2], WNil) /\ sizes = [3; 5] /\
    tar_walk true sizes 0 false (Some (e, r)) = (sizes, WNil).
Proof. exact tar_walk_mutant_refuted. Qed.
Print Assumptions C07_tar_walk_mutant_refuted.

(* tar -i (cmd/desync/tar.go runTar): an interrupted or failed Tar goroutine closes the pipe, the chunker sees a
   clean end and ChunkStream may well return nil -- the command still fails because the Tar result is consulted
   after a successful ChunkStream; consulting it only in ChunkStream's error branch is refuted. *)
Theorem C07_run_tar_sound : forall cs_err tar_err sink_err,
  run_tar true cs_err tar_err sink_err = false -> cs_err = false /\ tar_err = false /\ sink_err = false.
Proof. exact run_tar_sound. Qed.
Print Assumptions C07_run_tar_sound.

Theorem C07_run_tar_mutant_refuted :
  run_tar false false true false = false /\ run_tar true false true false = true.
Proof. exact run_tar_mutant_refuted. Qed.
Print Assumptions C07_run_tar_mutant_refuted.

(* The oracle's outcome enumeration (used by the cancel-at-k correspondence) lists only outcomes of
   real runs of the model. *)
Theorem C07_outcomes_sound : forall njobs job_ok nw cancel_at fuel outs o,
  pool_outcomes njobs job_ok nw cancel_at fuel = Some outs -> In o outs ->
  exists sched, let s := run (Pool.step njobs job_ok true) sched (Pool.init nw) in
                final s = true /\ outcome njobs s = o.
Proof. exact pool_outcomes_sound. Qed.
Print Assumptions C07_outcomes_sound.

(* Non-vacuity: 3 jobs, 2 workers, cancel as job 1 is about to be offered: both an interrupted,
   incomplete run and a complete nil run exist; with the pre-fix result the former reports nil. *)
Example C07_example_outcomes :
  pool_outcomes 3 (fun _ => true) 2 (Some 1) 2000 = Some [(RNil, true); (RInterrupted, false)].
Proof. vm_compute. reflexivity. Qed.
Example C07_example_interrupted :
  let s := run (Pool.step 3 (fun _ => true) true) [Worker 0; Worker 0; CancelEnv; Feeder; Worker 0; Worker 1] (Pool.init 2) in
  final s = true /\ pool_result s = RInterrupted /\ pool_result_prefix s = RNil /\ processed s = [0].
Proof. vm_compute. repeat split; reflexivity. Qed.
Example C07_example_complete_after_cancel :
  let s := run (Pool.step 2 (fun _ => true) true) [CancelEnv; Worker 0; Worker 0; Worker 1; Worker 1; Feeder; Worker 0; Worker 1] (Pool.init 2) in
  final s = true /\ pool_result s = RNil /\ processed s = [1; 0].
Proof. vm_compute. repeat split; reflexivity. Qed.

(* UnTarIndex: a complete run (2 chunks of 2 and 1 bytes, 1 worker) ends in nil with 3 bytes consumed;
   a fetch error gives an error; a cancellation gives Interrupted. *)
Definition ex_usched : list utid :=
  [UTDec; UTWorker 0; UTFeed; UTWorker 0; UTWorker 0; UTAsm; UTFeed; UTFeed; UTWorker 0; UTWorker 0;
   UTAsm; UTDec; UTDec; UTAsm; UTAsm; UTDec; UTAsm; UTDec].
Example C07_example_untarindex_complete :
  let s := run (ustep 2 (fun k => 2 - k) (fun _ => true) (fun p => p =? 3) (fun _ => true) 1 true true) ex_usched (uinit 1) in
  ufinal s = true /\ untar_result s = RNil /\ u_pos s = 3 /\ u_wdone s = 2.
Proof. vm_compute. repeat split; reflexivity. Qed.
Example C07_example_untarindex_fetch_error :
  let s := run (ustep 2 (fun k => 2 - k) (fun k => k =? 0) (fun p => p =? 3) (fun _ => true) 1 true true)
             ex_usched (uinit 1) in
  ufinal s = true /\ untar_result s = RErr.
Proof. vm_compute. repeat split; reflexivity. Qed.

(* Copy with context-bound stores: both ids are handed out, the feeder has left its loop (not interrupted), the
   caller cancels, the two downloads in flight fail: the result is an error, not nil (a worker that swallowed
   the failure because ctx.Err() != nil -- seeded mutant C07-4 -- would make it nil with both chunks missing). *)
Example C07_example_ctxbound_inflight_failure :
  let src := fun i => if N.eqb i 3%N then Some [1; 2]%N else if N.eqb i 7%N then Some [3; 4]%N else None in
  let s := run (cb_step (fun b => fold_right N.add 0%N b) MCopy [(3%N, []); (7%N, [])] src (fun _ _ => false) true)
             [BWorker 0; BWorker 1; BFeeder; BWorker 0; BWorker 1; BCancel;
              BWorker 0; BWorker 1; BWorker 0; BWorker 1; BWorker 0; BWorker 1] (binit [] 2) in
  bfinal s = true /\ b_feeder s = Stopped false /\ bulk_result s = RErr /\ b_hits s = 2 /\ b_store s = [].
Proof. vm_compute. repeat split; reflexivity. Qed.
