(* C17 -- verify-index accepts a file if and only if it matches the index.
   Only statements, [exact], and Print Assumptions live here. *)
From Coq Require Import List NArith Arith.
From DS Require Import Base.Bytes Base.Hash Base.Sched Model.Pool Model.VerifyIndex
     Proofs.PoolProofs Proofs.VerifyIndexProofs
     Model.PoolTrace Proofs.PoolTraceProofs.
Import ListNotations.

(* The feeder's batching (batch = chunks/(10n), generated from verifyindex.go) hands every
   chunk to exactly one worker batch, for every worker count n (n = 0 included). *)
Theorem C17_batches_partition : forall (A : Type) (n : N) (chunks : list A),
  exists bs, batches n chunks = Some bs /\ concat bs = chunks /\ Forall (fun b => b <> []) bs.
Proof. exact @batches_partition. Qed.
Print Assumptions C17_batches_partition.

(* Acceptance <-> exact length and every range hashes to its ID; for every n. *)
Theorem C17_verify_iff : forall (H : bytes -> id) (n : N) (file : bytes) (idx : index),
  verify_index H n file idx = Some true <->
  (length file = idx_length idx /\ map H (split_by (sizes idx) file) = ids idx).
Proof. exact verify_iff. Qed.
Print Assumptions C17_verify_iff.

(* Relative to the blob the index describes: the blob is accepted, and any other file
   (altered, truncated, extended, chunks swapped) is rejected unless it exhibits a collision of H. *)
Theorem C17_accepts_blob : forall H n idx blob,
  index_describes H idx blob -> verify_index H n blob idx = Some true.
Proof. exact verify_accepts_blob. Qed.
Print Assumptions C17_accepts_blob.

Theorem C17_detects_any_change : forall H n file idx blob,
  index_describes H idx blob -> file <> blob ->
  verify_index H n file idx = Some false \/ Collision H.
Proof. exact verify_detects_change. Qed.
Print Assumptions C17_detects_any_change.

(* The concurrent implementation (nw workers fed batch by batch, errgroup, cancellable context):
   for EVERY schedule and cancellation point, a nil result implies the hash predicate ... *)
Theorem C17_concurrent_sound : forall H n nw can_cancel sched file idx bs,
  length file = idx_length idx ->
  batches n (with_starts 0 idx) = Some bs ->
  let s := run (Pool.step (length bs) (vi_job_ok H file bs) can_cancel) sched (Pool.init nw) in
  final s = true -> pool_result s = RNil ->
  map H (split_by (sizes idx) file) = ids idx.
Proof. exact verify_conc_sound. Qed.
Print Assumptions C17_concurrent_sound.

(* ... and without cancellation a matching file is accepted under every schedule;
   the run cannot deadlock and terminates. *)
Theorem C17_concurrent_complete : forall H n nw sched file idx bs,
  batches n (with_starts 0 idx) = Some bs ->
  map H (split_by (sizes idx) file) = ids idx -> length file = idx_length idx ->
  let s := run (Pool.step (length bs) (vi_job_ok H file bs) false) sched (Pool.init nw) in
  final s = true -> pool_result s = RNil.
Proof. exact verify_conc_complete. Qed.
Print Assumptions C17_concurrent_complete.

Theorem C17_pool_deadlock_free : forall njobs job_ok can_cancel nw sched,
  let s := run (Pool.step njobs job_ok can_cancel) sched (Pool.init nw) in
  0 < nw -> final s = false -> exists t, Pool.step njobs job_ok can_cancel s t <> None.
Proof. exact pool_deadlock_free. Qed.
Print Assumptions C17_pool_deadlock_free.

Theorem C17_pool_terminates : forall njobs job_ok can_cancel nw sched s',
  run_strict (Pool.step njobs job_ok can_cancel) sched (Pool.init nw) = Some s' ->
  length sched <= mu njobs (Pool.init nw).
Proof. exact pool_terminates. Qed.
Print Assumptions C17_pool_terminates.

(* Non-vacuity: a 3-chunk index over a 5-byte blob with H = sum of bytes; the blob verifies,
   a one-byte change does not; 23 chunks with n = 2 give 12 batches (batch = 23/20 = 1). *)
Definition ex_H (b : bytes) : id := fold_right N.add 0%N b.
Definition ex_blob : bytes := [1; 2; 3; 4; 5]%N.
Definition ex_idx : index := [(3%N, 2); (3%N, 1); (9%N, 2)].
Example C17_example_describes : index_describes ex_H ex_idx ex_blob.
Proof. split; reflexivity. Qed.
Example C17_example_accept : verify_index ex_H 2 ex_blob ex_idx = Some true.
Proof. vm_compute. reflexivity. Qed.
Example C17_example_reject : verify_index ex_H 2 [1; 2; 3; 4; 6]%N ex_idx = Some false.
Proof. vm_compute. reflexivity. Qed.
Example C17_example_batches : option_map (map (@length nat)) (batches 2 (seq 0 23)) =
  Some [2; 2; 2; 2; 2; 2; 2; 2; 2; 2; 2; 1].
Proof. vm_compute. reflexivity. Qed.

(* TRACE VALIDATION of the worker-pool model against verifyindex.go (Model/PoolTrace.v).  The verif
   build reports every receive, result, exit and the feeder's stop; [replay] follows the recorded
   sequence on Pool.step, applying early the receives whose record is late (the feeder sends the
   batches in order).  An accepted trace is an execution of the model: the schedule returned is a
   run of enabled steps from the state the replay started in, so the all-schedules theorems above
   apply to the run the code actually performed. *)
Theorem C17_pool_trace_valid : forall njobs job_ok tr s early s' sched,
  replay njobs job_ok tr s early = Some (s', sched) ->
  run_strict (Pool.step njobs job_ok true) sched s = Some s'.
Proof. exact replay_sound. Qed.
Print Assumptions C17_pool_trace_valid.

(* a matched receive: the batch is the next one to hand out and the worker is then busy with it *)
Theorem C17_trace_take_sound : forall njobs job_ok s w k s',
  take njobs job_ok s w k = Some s' ->
  fed s = k /\ fed s' = S k /\ nth_error (workers s') w = Some (Busy k).
Proof. exact label_take_sound. Qed.
Print Assumptions C17_trace_take_sound.

(* Non-vacuity: two workers, two batches; worker 1's receive of batch 1 is recorded before worker
   0's receive of batch 0 (late record); accepted, all exited, result nil.  The same trace with
   the feeder reported as interrupted is refused. *)
Example C17_trace_example :
  let tr b := [PTake 1 1; PTake 0 0; POk 0 0; POk 1 1; PClose b; PExit 0; PExit 1] in
  option_map (fun r => (final (fst r), pool_result (fst r), snd r)) (replay 2 (fun _ => true) (tr false) (Pool.init 2) [])
    = Some (true, RNil, [Worker 0; Worker 1; Worker 0; Worker 1; Feeder; Worker 0; Worker 1]) /\
  replay 2 (fun _ => true) (tr true) (Pool.init 2) [] = None.
Proof. vm_compute. split; reflexivity. Qed.
