(* C11 -- store chains follow their documented routing, caching and failover policy.
   Only statements, [exact], and Print Assumptions live here. *)
From Coq Require Import List Arith Bool.
From DS Require Import Base.Sched Model.Chains Model.ChainsConc Proofs.ChainsProofs Proofs.ChainsConcProofs.
Import ListNotations.

(* StoreRouter.GetChunk, for ANY member semantics [ms] (arbitrary state-passing functions: any contents,
   any fault behaviour, nested chains) and any state [w]:  the answer is [res] in final state [w'] exactly
   when a prefix [pre] of the members, asked in order, all answered a plain ChunkMissing
   ([skipped i pre w wk]) and either that prefix is the whole list (=> ChunkMissing, nobody else asked),
   or the next member answered something else: a chunk (=> that chunk) or another error (=> no chunk and
   that error, wrapped), and no later member was asked (the final state is the one that member left). *)
Theorem C11_router_refines : forall (ms : list ssem) (i : id) (w : world) (res : gres) (w' : world),
  router_get ms i w = (res, w') <->
  exists pre wk, skipped i pre w wk /\
    ((ms = pre /\ res = (None, EMissing false) /\ w' = wk) \/
     (exists s post c e, ms = pre ++ s :: post /\ sget s i wk = ((c, e), w') /\
        is_plain_missing e = false /\
        res = ((if is_nil e then c else None), wrap e))).
Proof. exact router_get_refines. Qed.
Print Assumptions C11_router_refines.

(* StoreRouter.HasChunk: members answering (false, nil) are passed over; the first error aborts with
   (false, err); the first [true] ends the walk; nobody after that is asked. *)
Theorem C11_router_has_refines : forall (ms : list ssem) (i : id) (w : world) (res : hres) (w' : world),
  router_has ms i w = (res, w') <->
  exists pre wk, has_skipped i pre w wk /\
    ((ms = pre /\ res = (false, ENil) /\ w' = wk) \/
     (exists s post b e, ms = pre ++ s :: post /\ shas s i wk = ((b, e), w') /\
        (e <> ENil \/ b = true) /\
        res = (if is_nil e then b else false, e))).
Proof. exact router_has_refines. Qed.
Print Assumptions C11_router_has_refines.

(* ---- Cache (cache.go), for ANY upstream semantics [s] and cache semantics [l] ---- *)

(* A cache hit is served without touching upstream: result and final state are the same whatever the upstream is. *)
Theorem C11_cache_hit_ignores_upstream : forall (s s' l : ssem) i w c w1,
  sget l i w = ((c, ENil), w1) ->
  cache_get s l i w = ((c, ENil), w1) /\ cache_get s l i w = cache_get s' l i w.
Proof. exact cache_hit_spec. Qed.
Print Assumptions C11_cache_hit_ignores_upstream.

(* Miss and upstream delivers copy t: exactly that chunk is stored into the cache and returned; the caller gets an
   error (the wrapped store error) exactly when storing failed -- chunk AND error. *)
Theorem C11_cache_miss_fill : forall (s l : ssem) i w c w1 t w2 e3 w3,
  sget l i w = ((c, EMissing false), w1) -> sget s i w1 = ((Some t, ENil), w2) -> sstore l i t w2 = (e3, w3) ->
  cache_get s l i w = ((Some t, wrap e3), w3).
Proof. exact cache_get_fill. Qed.
Print Assumptions C11_cache_miss_fill.

(* Miss and upstream fails (or lacks the chunk): upstream's answer, nothing stored. *)
Theorem C11_cache_miss_upstream_error : forall (s l : ssem) i w c w1 c2 e2 w2,
  sget l i w = ((c, EMissing false), w1) -> sget s i w1 = ((c2, e2), w2) -> e2 <> ENil ->
  cache_get s l i w = ((c2, e2), w2).
Proof. exact cache_get_upstream_error. Qed.
Print Assumptions C11_cache_miss_upstream_error.

(* With a member store k as cache (with or without RepairableCache), any upstream [s]: if the cache member lacks
   chunk i -- or, with repair enabled, holds an INVALID object for it -- and upstream delivers copy t, then
   (healthy store) the answer is t and afterwards the cache member holds t as a valid object: the cache filled
   itself / the invalid object was replaced; (failing store) the answer is the chunk t together with an error. *)
Theorem C11_cache_fill_and_repair : forall (repair : bool) (s : ssem) k i w m t w2 m2,
  let l := if repair then repair_sem (leaf_sem k) else leaf_sem k in
  nth_error (members w) k = Some m -> fault_at m = FNone ->
  (lookup (m_content m) i = None \/ (repair = true /\ exists t0, lookup (m_content m) i = Some (t0, false))) ->
  sget s i (snd (sget (leaf_sem k) i w)) = ((Some t, ENil), w2) ->
  nth_error (members w2) k = Some m2 ->
  (fault_at m2 = FNone ->
     exists w3 m3, cache_get s l i w = ((Some t, ENil), w3) /\
                   nth_error (members w3) k = Some m3 /\ lookup (m_content m3) i = Some (t, true)) /\
  (fault_at m2 = FErr -> exists w3, cache_get s l i w = ((Some t, EOther), w3)).
Proof. exact cache_fill_leaf. Qed.
Print Assumptions C11_cache_fill_and_repair.

(* Without repair an invalid cached object is reported as ChunkInvalid and upstream is not asked. *)
Theorem C11_cache_invalid_without_repair : forall (s : ssem) k i w m t0,
  nth_error (members w) k = Some m -> fault_at m = FNone -> lookup (m_content m) i = Some (t0, false) ->
  cache_get s (leaf_sem k) i w = ((None, EInvalid false), snd (sget (leaf_sem k) i w)).
Proof. exact cache_invalid_no_repair. Qed.
Print Assumptions C11_cache_invalid_without_repair.

(* ---- FailoverGroup (failover.go) ---- *)

(* One request at a time: a ChunkMissing from the consulted member is returned as ChunkMissing, at any attempt,
   whatever error was recorded before; no other member is asked (the final state is the member's). *)
Theorem C11_failover_never_masks_missing : forall g (ms : list ssem) i k gerr w c w1,
  sget (nth (nth g (actives w) 0) ms dead_sem) i w = ((c, EMissing false), w1) ->
  failover_get_loop g ms i (S k) gerr w = ((c, EMissing false), w1).
Proof. exact failover_never_masks_missing. Qed.
Print Assumptions C11_failover_never_masks_missing.

(* Any number of concurrent requests, EVERY schedule, arbitrary fault oracle [resp] (request, attempt, member):
   if member g never fails, a request that has returned did not fail: it carries the answer [v] that the last
   member it called gave at that attempt; it called at most n members, pairwise distinct. *)
Theorem C11_failover_progress : forall (n g : nat), g < n ->
  forall (resp : nat -> nat -> nat -> ans), (forall t k, resp t k g <> AFail) ->
  forall (a0 : nat) (sched : list nat) (t : nat) (r : option nat), a0 < n ->
  let s := run (fstep n resp) sched (finit a0) in
  f_pc (f_thr s t) = FDone r ->
  exists v a tr, r = Some v /\ f_tried (f_thr s t) = a :: tr /\ resp t (length tr) a = AVal v /\
                 length (f_tried (f_thr s t)) <= n /\ NoDup (f_tried (f_thr s t)).
Proof. exact failover_progress. Qed.
Print Assumptions C11_failover_progress.

(* ... and once [active] has reached the never-failing member it stays there. *)
Theorem C11_failover_active_settles : forall (n g : nat), g < n ->
  forall (resp : nat -> nat -> nat -> ans), (forall t k, resp t k g <> AFail) ->
  forall a0 sched sched', a0 < n ->
  f_active (run (fstep n resp) sched (finit a0)) = g ->
  f_active (run (fstep n resp) (sched ++ sched') (finit a0)) = g.
Proof. exact failover_active_settles. Qed.
Print Assumptions C11_failover_active_settles.

(* The rule for stale reports (failover.go errorFrom: "ignore if i is not (no longer) the active store"): a failure
   report about a store that is not the active one changes nothing but the reporting request's own position; a
   report about the active store advances the group by exactly one. *)
Theorem C11_failover_stale_report_ignored : forall n resp s t a k,
  f_pc (f_thr s t) = F2 a k -> f_active s <> a ->
  exists s', fstep n resp s t = Some s' /\ f_active s' = f_active s /\
             (forall u, u <> t -> f_thr s' u = f_thr s u) /\ f_pc (f_thr s' t) = F0 (S k).
Proof. exact failover_stale_report_ignored. Qed.
Print Assumptions C11_failover_stale_report_ignored.

Theorem C11_failover_active_report_advances : forall n resp s t k,
  f_pc (f_thr s t) = F2 (f_active s) k ->
  exists s', fstep n resp s t = Some s' /\ f_active s' = (f_active s + 1) mod n.
Proof. exact failover_active_report_advances. Qed.
Print Assumptions C11_failover_active_report_advances.

(* That rule is what C11_failover_progress rests on: with an errorFrom that always moves on from the REPORTING store
   (g.active = (i+1) % len) a late report drags [active] back and a request fails although member g never failed. *)
Theorem C11_failover_stale_report_breaks_progress :
  exists n g resp sched t,
    g < n /\ (forall t k, resp t k g <> AFail) /\
    f_pc (f_thr (run (fstep_stale n resp) sched (finit 0)) t) = FDone None.
Proof. exact failover_stale_report_breaks_progress. Qed.
Print Assumptions C11_failover_stale_report_breaks_progress.

(* ---- SwapStore (swapstore.go) ---- *)

(* Any mix of requests and Swap calls, EVERY schedule: no member call ever executes on a closed store, and every
   call of a request goes to the store (generation) that was installed when the request took the read lock. *)
Theorem C11_swap_safe : forall (is_swap : nat -> bool) (ncalls : nat -> nat) (sched : list nat) (e : scall),
  In e (s_log (run (sstep ncalls) sched (sinit is_swap))) -> sc_closed e = false /\ sc_gen e = sc_lockgen e.
Proof. exact swap_safe. Qed.
Print Assumptions C11_swap_safe.

(* The write lock in Swap is what makes this true: without it a request in flight is served by a closed store. *)
Theorem C11_swap_without_lock_unsafe :
  exists is_swap ncalls sched e,
    In e (s_log (run (sstep_nolock ncalls) sched (sinit is_swap))) /\ sc_closed e = true.
Proof. exact swap_nolock_unsafe. Qed.
Print Assumptions C11_swap_without_lock_unsafe.

(* A SwapWriteStore keeps a writable store installed under every operation sequence (Swap refuses to replace a
   writable store by a read-only one), so StoreChunk's type assertion cannot panic. *)
Theorem C11_swap_write_store_stays_writable : forall ops t w,
  (t_mode t = MSwapRW -> writable (t_cur t) = true) ->
  let t' := snd (fst (exec_all t ops w)) in t_mode t' = MSwapRW -> writable (t_cur t') = true.
Proof. exact exec_all_top_ok. Qed.
Print Assumptions C11_swap_write_store_stays_writable.

(* ---- the shapes the CLI builds: storeGroup / multiStoreWithRouter / MultiStoreWithCache / chunkServerStore ---- *)

(* served := Leaf | Dedup cached;  cached := router | Cache router (Leaf | Repairable Leaf);
   router := Router [member...];  member := Leaf | Failover [Leaf, Leaf, ...] (two or more);
   every built chain is well-formed, its failover groups have distinct [active] cells, and the writable
   server store is a WriteStore. *)
Theorem C11_cli_shapes : forall writable cache repair ls s,
  chunk_server_store writable cache repair ls = Some s ->
  is_served s = true /\ wf_stack s = true /\ NoDup (group_ids s) /\
  (writable = true -> Chains.writable s = true).
Proof. exact cli_shapes. Qed.
Print Assumptions C11_cli_shapes.

(* Reloading the store file (mount-index / chunk-server --store-file + SIGHUP): the chain built by mountIndexStore
   (= MultiStoreWithCache) or by the read-only chunkServerStore (DedupQueue around it) is never a WriteStore, because
   multiStoreWithRouter always wraps the locations in a StoreRouter, a single one too.  Hence Swap accepts every
   reload, from every CLI shape to any new chain, and the chain in use afterwards is the newly built one. *)
Theorem C11_cli_reload_accepted : forall (served : bool) cache repair ls (new : stack) w,
  let old := if served then Dedup (multi_store_with_cache cache repair ls) else mount_index_store cache repair ls in
  let t := {| t_mode := MSwapRO; t_cur := old |} in
  fst (fst (exec t (OSwap new) w)) = RSwap true /\ t_cur (snd (fst (exec t (OSwap new) w))) = new.
Proof. exact cli_reload_accepted. Qed.
Print Assumptions C11_cli_reload_accepted.

(* ... whereas a bare store in a SwapStore (what "return the single store as it is" would give) refuses it *)
Example C11_example_bare_store_refuses_reload :
  fst (fst (exec {| t_mode := MSwapRO; t_cur := Leaf 0 |} (OSwap (Router [Leaf 0; Leaf 1])) (init_world [] 0))) = RSwap false.
Proof. reflexivity. Qed.

(* ---- non-vacuity ---- *)
Definition exm (c : list (id * (tag * bool))) (d : fault) : member := init_member c [] d.
(* router over three members: the first lacks chunk 4, the second fails, the third has it: the failure aborts *)
Example C11_example_router :
  fst (router_get (map leaf_sem [0; 1; 2]) 4 (init_world [exm [] FNone; exm [] FErr; exm [(4, (9, true))] FNone] 0))
  = (None, EOther) /\
  fst (router_get (map leaf_sem [0; 2; 1]) 4 (init_world [exm [] FNone; exm [] FErr; exm [(4, (9, true))] FNone] 0))
  = (Some 9, ENil).
Proof. vm_compute. split; reflexivity. Qed.
(* cache with repair over an invalid cached object: replaced from upstream, second read is a hit (2 calls on member 1 only) *)
Example C11_example_repair :
  let t := {| t_mode := MPlain; t_cur := Cache (Router [Leaf 1]) (Repairable (Leaf 0)) |} in
  let '(rs, lg, _) := run_chain [exm [(3, (1, false))] FNone; exm [(3, (7, true))] FNone] 0 t [OGet 3; OGet 3] in
  rs = [RGet (Some 7, ENil); RGet (Some 7, ENil)] /\ map ev_member lg = [0; 1; 0; 0].
Proof. vm_compute. split; reflexivity. Qed.
(* failover: 3 members, member 2 never fails, two requests interleaved, both answered by member 2 *)
Example C11_example_failover :
  let resp := fun (t k m : nat) => if Nat.eqb m 2 then AVal 5 else AFail in
  let s := run (fstep 3 resp) [0; 1; 0; 1; 0; 1; 0; 1; 0; 1; 0; 1; 0; 0; 0; 1; 1] (finit 0) in
  f_pc (f_thr s 0) = FDone (Some 5) /\ f_pc (f_thr s 1) = FDone (Some 5) /\ f_active s = 2.
Proof. vm_compute. repeat split. Qed.
Example C11_example_swap :
  let s := run (sstep (fun _ => 2)) [0; 1; 0; 0; 0; 0; 1; 1; 1; 1; 2; 2]
               (sinit (fun t => Nat.eqb t 1)) in
  length (s_log s) = 3 /\ s_cur s = 1 /\ s_closed s 0 = true /\ map sc_gen (s_log s) = [1; 0; 0].
Proof. vm_compute. repeat split. Qed.
Example C11_example_cli :
  chunk_server_store false (Some 9) true [LStore 0; LGroup 1 2 [3]; LGroup 4 5 []] =
  Some (Dedup (Cache (Router [Leaf 0; Failover 1 [Leaf 1; Leaf 2; Leaf 3]; Failover 2 [Leaf 4; Leaf 5]]) (Repairable (Leaf 9)))).
Proof. reflexivity. Qed.
