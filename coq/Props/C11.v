(* C11 -- store chains follow their documented routing, caching and failover policy.
   Only statements, [exact], and Print Assumptions live here. *)
From Coq Require Import List Arith Bool.
From DS Require Import Base.Sched Model.Chains Proofs.ChainsProofs.
Import ListNotations.

(* StoreRouter.GetChunk, for ANY member semantics [ms] (arbitrary state-passing functions: any contents,
   any fault behaviour, nested chains) and any state [w]:  the answer is [res] in final state [w'] exactly
   when a prefix [pre] of the members, asked in order, all answered a plain ChunkMissing
   ([skipped i pre w wk]) and either that prefix is the whole list (=> ChunkMissing, nobody else asked),
   or the next member answered something else: a chunk (=> that chunk) or another error (=> no chunk and
   that error, wrapped), and no later member was asked (the final state is the one that member left). *)
Theorem C11_router_refines : forall (ms : list ssem) (i : id) (w : world) (res : gres) (w' : world),
  router_get ms i w = (res, w') <->
  exists pre wk, skipped i pre w wk /\
    ((ms = pre /\ res = (None, EMissing false) /\ w' = wk) \/
     (exists s post c e, ms = pre ++ s :: post /\ sget s i wk = ((c, e), w') /\
        is_plain_missing e = false /\
        res = ((if is_nil e then c else None), wrap e))).
Proof. exact router_get_refines. Qed.
Print Assumptions C11_router_refines.

(* StoreRouter.HasChunk: members answering (false, nil) are passed over; the first error aborts with
   (false, err); the first [true] ends the walk; nobody after that is asked. *)
Theorem C11_router_has_refines : forall (ms : list ssem) (i : id) (w : world) (res : hres) (w' : world),
  router_has ms i w = (res, w') <->
  exists pre wk, has_skipped i pre w wk /\
    ((ms = pre /\ res = (false, ENil) /\ w' = wk) \/
     (exists s post b e, ms = pre ++ s :: post /\ shas s i wk = ((b, e), w') /\
        (e <> ENil \/ b = true) /\
        res = (if is_nil e then b else false, e))).
Proof. exact router_has_refines. Qed.
Print Assumptions C11_router_has_refines.
