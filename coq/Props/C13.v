(* C13 -- Archives written by desync are well-formed casync catar.
   Only statements, [exact], Print Assumptions and Examples live here. *)
From Coq Require Import List NArith Arith Permutation Sorted.
From DS Require Import Gen.Constants Base.Bytes Base.LE64 Base.GoPath Model.Format Model.Goodbye Model.Sip Model.Tar Model.TarSink
     Model.TarWalk Model.TarStream Proofs.GoodbyeProofs Proofs.TarProofs Proofs.TarSinkProofs Proofs.PathChildProofs Proofs.TarWalkProofs Proofs.C13Examples.
Import ListNotations.

(* makeGoodbyeBST, for EVERY number of directory entries and every list of items (duplicated
   hashes and offsets included): it does not panic; the table has one slot per item and the
   slots hold exactly the items (nothing lost, nothing left at its zero value); reading the
   table as an implicit binary tree (children of slot i at 2i+1 and 2i+2, slots beyond the
   table empty) in order gives the items sorted by hash, ties by offset. *)
Theorem C13_bst_inorder : forall items : list item,
  exists out,
    make_goodbye_bst items = Some out /\
    length out = length items /\
    Permutation out items /\
    arr_inorder (length out) out 0 = sort_items items /\
    Permutation items (sort_items items) /\
    StronglySorted item_le (sort_items items).
Proof. exact bst_inorder_full. Qed.
Print Assumptions C13_bst_inorder.

(* casync's search (compare the hash with the slot, equal: found, smaller: slot 2i+1, larger:
   slot 2i+2, beyond the table: not found) started at slot 0 reaches, for every item that was
   put in, a slot holding an item with the same hash; when the hashes of the directory are
   pairwise different it is that very item (its offset and size). *)
Theorem C13_bst_lookup : forall (items out : list item),
  make_goodbye_bst items = Some out ->
  forall x, In x items ->
  exists j y, casync_lookup out (it_hash x) = Some (j, y) /\
    nth_error out j = Some y /\ In y items /\ it_hash y = it_hash x /\
    (NoDup (map it_hash items) -> y = x).
Proof. exact bst_lookup_proof. Qed.
Print Assumptions C13_bst_lookup.

(* TEST (not a theorem about all inputs): the model of SipHash-2-4 reproduces the 64 vectors of
   the reference implementation. *)
Example C13_sip_vectors :
  sip_ref_computed = sip_ref_vectors.
Proof. exact C13_sip_vectors_proof. Qed.

(* Non-vacuity / shape: 6 items with a duplicated hash; the table is the complete tree. *)
Example C13_bst_example :
  make_goodbye_bst [(10, 1, 50); (20, 1, 30); (30, 1, 50); (40, 1, 10); (50, 1, 70); (60, 1, 60)]%N
  = Some [(30, 1, 50); (20, 1, 30); (50, 1, 70); (40, 1, 10); (10, 1, 50); (60, 1, 60)]%N.
Proof. exact C13_bst_example_proof. Qed.

Example C13_lookup_example :
  casync_lookup [(30, 1, 50); (20, 1, 30); (50, 1, 70); (40, 1, 10); (10, 1, 50); (60, 1, 60)]%N 60%N
  = Some (5, (60, 1, 60)%N).
Proof. exact C13_lookup_example_proof. Qed.

(* ---------------------------------------------------------------------------------------
   The archive as a whole.  [tar_node t] is the model of tar.go's recursion over a source tree
   t (Model/Tar.v): the elements written and the byte counter n it returns; [tar_bytes t] is
   their encoding by FormatEncoder (Model/Format.v).  [kept cs] are the children of a directory
   that are not a FIFO or socket (tar() skips those before writing anything).
   [good ord t] (Proofs/TarProofs.v) describes the trees a source delivers: permission bits below
   010000, 64-bit ids and times, xattr names non-empty / NUL-free / ascending, child names valid
   single components -- in strictly ascending byte order when ord = true (the disk source), in
   any order when ord = false (a tar stream) --, symlink targets non-empty and NUL-free, FIFOs and
   sockets anywhere except at the root.
   [validate ord] is a reader written from casync's format rules: element sizes = encoded
   lengths, ENTRY XATTR* then PAYLOAD | SYMLINK | DEVICE | (FILENAME node)* GOODBYE by file type,
   xattr names strictly ascending, file names strictly ascending when ord = true, goodbye items =
   the true back-offsets / extents / SipHash of the names laid out as a search tree that casync's
   descent resolves, tail item. *)

(* Offsets and sizes are true distances in the written bytes -- for EVERY directory node, with
   any children (any names, any order, FIFOs included): the bytes are the entry and xattrs, then
   one block (FILENAME + child) per kept child, then the GOODBYE, which starts at offset G; its
   last item is (G, size of the GOODBYE element, tail marker) and its other items are, in some
   order, exactly one (G - F, L, SipHash(name)) per kept child, F = where the child's FILENAME
   starts, L = number of bytes of the child's block.  And the counter tar() returns is the number
   of bytes written. *)
Theorem C13_tar_offsets : forall m xs cs,
  let t := NDir m xs cs in
  let ks := kept cs in
  let before := encode_elems (head_elems t) ++ flat_map block_bytes ks in
  let G := lenN before in
  exists table tail_size h,
    tar_bytes t = before ++ encode_elem (Goodbye h (table ++ [(G, tail_size, CaFormatGoodbyeTailMarker)])) /\
    tail_size = lenN (encode_elem (Goodbye h (table ++ [(G, tail_size, CaFormatGoodbyeTailMarker)]))) /\
    h_size h = tail_size /\
    Permutation table (true_items G (lenN (encode_elems (head_elems t))) ks) /\
    snd (tar_node t) = lenN (tar_bytes t).
Proof. exact tar_offsets_proof. Qed.
Print Assumptions C13_tar_offsets.

(* Every element written carries its true size: the header's size field is the length of the
   element's encoding and the decoder reads back exactly that element (wf_elem, Model/Format.v). *)
Theorem C13_tar_sizes : forall ord t, good ord t -> (snd (tar_node t) < two64)%N -> Forall wf_elem (tar_model t).
Proof. exact tar_wf. Qed.
Print Assumptions C13_tar_sizes.

(* The archive of a good tree is accepted by the reader and the reader returns the tree as
   [casync_view] shows it: FIFOs and sockets left out, every xattr value one NUL byte longer (see
   C13_tar_xattr_refuted).  Disk source: names ascending, the reader insists on it. *)
Theorem C13_tar_wellformed : forall t, good true t -> (snd (tar_node t) < two64)%N ->
  validate true (tar_bytes t) = Some (casync_view t).
Proof. exact (tar_wellformed_proof true). Qed.
Print Assumptions C13_tar_wellformed.

(* Tar-stream source: children in the order of the stream; everything but the name order is
   judged (sizes, offsets, hashes, search tree, tail). *)
Theorem C13_tar_wellformed_stream : forall t, good false t -> (snd (tar_node t) < two64)%N ->
  validate false (tar_bytes t) = Some (casync_view t).
Proof. exact (tar_wellformed_proof false). Qed.
Print Assumptions C13_tar_wellformed_stream.

(* FINDING (xattr/value-trailing-nul): a tree with one xattr "user.a"="v" is good, yet the reader
   does not get the tree back: tar.go writes name NUL value NUL, casync's value runs to the end
   of the element. *)
Theorem C13_tar_xattr_refuted : exists t, good true t /\ validate true (tar_bytes t) <> Some t.
Proof. exists ex_xattr_tree. exact tar_xattr_refuted_proof. Qed.
Print Assumptions C13_tar_xattr_refuted.

(* FIXED by 0d1baa3 (tar/unsupported-node-dangling-filename): the model of tar() before that
   commit writes, for a directory holding a FIFO and a file, an archive the reader rejects
   (FILENAME not followed by ENTRY) ... *)
Theorem C13_tar_fifo_prefix_refuted : exists t, validate true (tar_bytes_v TarPreSkipFix t) = None.
Proof. exists ex_fifo_tree. exact tar_fifo_prefix_refuted_proof. Qed.
Print Assumptions C13_tar_fifo_prefix_refuted.

(* ... the code as it is leaves the FIFO out: that tree is good and reads back as the directory
   with the file alone (an instance of C13_tar_wellformed). *)
Example C13_tar_fifo_fixed : good true ex_fifo_tree /\
  validate true (tar_bytes ex_fifo_tree) = Some (NDir ex_meta [] [([98], NFile ex_meta [] [])])%N.
Proof. exact tar_fifo_fixed_proof. Qed.

(* Non-vacuity: a good tree with a nested directory, a symlink, a device and xattr-free files
   is accepted and returned unchanged. *)
Example C13_tar_example :
  (let m := mkMeta 493 0 0 1600000000000000000 in
   let t := NDir m [] [([97], NFile m [] [1; 2; 3]); ([98], NDir m [] [([120], NFile m [] [])]);
                       ([99], NSymlink m [] [97]); ([100], NDevice m [] true 1 3)] in
   validate true (tar_bytes t) = Some t)%N.
Proof. exact C13_tar_example_proof. Qed.

(* the unordered reader accepts names in stream order, the ordered one does not *)
Example C13_tar_stream_example :
  (let m := mkMeta 493 0 0 1600000000000000000 in
   let t := NDir m [] [([98], NFile m [] [1]); ([97], NFile m [] [])] in
   validate false (tar_bytes t) = Some t /\ validate true (tar_bytes t) = None)%N.
Proof. exact C13_tar_stream_example_proof. Qed.

(* ---------------------------------------------------------------------------------------
   Success means a complete archive.  [tar_into v t k] (Model/TarSink.v) is Tar() writing the
   elements of t onto a target that accepts k bytes and then fails every write (short write +
   error), with FormatEncoder.Encode's error handling as it is (v = EncFixed); the result is
   what the target holds and whether Tar() returned nil. *)

(* Tar() == nil  =>  the target holds the whole archive (so it fitted) ... *)
Theorem C13_tar_success_complete : forall t k b,
  tar_into EncFixed t k = (b, true) -> b = tar_bytes t /\ (lenN (tar_bytes t) <= k)%N.
Proof. exact tar_into_ok_proof. Qed.
Print Assumptions C13_tar_success_complete.

(* ... hence a well-formed catar of the whole tree (disk source: ord = true, tar stream: false) *)
Theorem C13_tar_success_wellformed : forall ord t k b,
  good ord t -> (snd (tar_node t) < two64)%N ->
  tar_into EncFixed t k = (b, true) -> validate ord b = Some (casync_view t).
Proof. exact tar_into_wellformed_proof. Qed.
Print Assumptions C13_tar_success_wellformed.

(* non-vacuity: with room for the archive Tar() does return nil *)
Theorem C13_tar_success_possible : forall v t k,
  (lenN (tar_bytes t) <= k)%N -> tar_into v t k = (tar_bytes t, true).
Proof. exact tar_into_fits_proof. Qed.
Print Assumptions C13_tar_success_possible.

(* What the error check in the goodbye item loop is for: if the item write's error is dropped
   (EncSwallow: `n += n1; if err != nil { break }; ...; return n, err` with the outer err), a
   target that runs full 30 bytes before the end of the archive makes Tar() return nil for a
   cut-off archive the reader rejects; the code as it is reports the error for the same bytes. *)
Theorem C13_tar_swallowed_error_refuted :
  exists t k b, tar_into EncSwallow t k = (b, true) /\ lenN b = k /\ validate true b = None /\
                fst (tar_into EncFixed t k) = b /\ snd (tar_into EncFixed t k) = false.
Proof.
  exists ex_sink_tree, (lenN (tar_bytes ex_sink_tree) - 30)%N. exact tar_into_swallow_refuted_proof.
Qed.
Print Assumptions C13_tar_swallowed_error_refuted.

(* ---------------------------------------------------------------------------------------
   The tree tar() encodes is the tree that was walked.  Model/Tar.v starts from a tree value;
   the disk source delivers a flat stream of files (filepath.Walk order) and tar() finds the
   directory structure again with `path.Dir(f.Path) == dir`.  [tar_sees v w t] (Model/TarWalk.v)
   is that regrouping for the walk of t started at the path string w -- spelled any way: "tree",
   "tree/", "./tree", "a//tree", "tree/../tree", absolute -- with File.Path = path.Clean(walk path)
   (v = PathClean, LocalFS.Next as it is); result: the tree tar() encodes and the files it never
   looks at.  path.Clean / Join / Dir / Base are the models of Base/GoPath.v. *)

(* What the regrouping rests on: the directory of an entry's path is the cleaned path of the
   directory it was listed in -- for every spelling w and every name that is a real path element. *)
Theorem C13_dir_of_child : forall w name, w <> [] -> real_elem name ->
  dir (join [w; name]) = clean w.
Proof. exact dir_join_child. Qed.
Print Assumptions C13_dir_of_child.

(* With the cleaned File.Path tar() sees exactly the walked tree and consumes every file, for every
   tree whose names are real path elements (in particular every [good] tree) and every non-empty
   root spelling. *)
Theorem C13_walk_regrouped : forall t w, names_real t -> w <> [] ->
  tar_sees PathClean w t = Some (t, []).
Proof. exact tar_sees_clean_proof. Qed.
Print Assumptions C13_walk_regrouped.

Theorem C13_good_names_real : forall ord t, good ord t -> names_real t.
Proof. exact good_names. Qed.
Print Assumptions C13_good_names_real.

(* What path.Clean in LocalFS.Next is for: with File.Path = the walker's path as is (PathRaw), the
   root spelled "t/" is closed at its first entry -- tar() encodes an empty directory and leaves the
   3 other files unread, returning nil -- while the spelling "t" still works. *)
Theorem C13_unclean_root_refuted : exists t,
  names_real t /\
  (exists left, tar_sees PathRaw [116; 47]%N t = Some (NDir ex_meta [] [], left) /\ length left = 3) /\
  tar_sees PathRaw [116]%N t = Some (t, []).
Proof. exists ex_walk_tree. exact tar_sees_raw_refuted_proof. Qed.
Print Assumptions C13_unclean_root_refuted.

(* ---------------------------------------------------------------------------------------
   The tar-stream source with AddRoot (--tar-add-root).  [members_of cs] is the file stream of a
   tar that lists the content cs of a directory without the directory itself ("a", "d", "d/x", ..);
   [stream_sees v add_root members] (Model/TarStream.v) is what Tar() encodes from TarReader.Next
   (v = ReaderFixed: the synthetic root first, then every member). *)

(* No member is lost, and the stream's own root members ("./", ".", "./.": path.Clean = ".") are
   all dropped, wherever they stand and however many there are: if what is left after taking them
   out is the content cs of a directory, the archive is the synthetic root holding exactly cs. *)
Theorem C13_stream_addroot : forall ms cs,
  Forall (fun nc : bytes * node => real_elem (fst nc) /\ names_real (snd nc)) cs ->
  filter (fun e => negb (is_root_member e)) ms = members_of cs ->
  stream_sees ReaderFixed true ms = Some (NDir stream_root_meta [] cs, []).
Proof. exact stream_addroot_proof. Qed.
Print Assumptions C13_stream_addroot.

(* in particular a stream without any root member (no file below "." is itself ".") *)
Theorem C13_stream_addroot_plain : forall cs,
  Forall (fun nc : bytes * node => real_elem (fst nc) /\ names_real (snd nc)) cs ->
  stream_sees ReaderFixed true (members_of cs) = Some (NDir stream_root_meta [] cs, []).
Proof. exact stream_addroot_plain_proof. Qed.
Print Assumptions C13_stream_addroot_plain.

(* What the skip LOOP is for (b406c8c): with the loop written as an `if` (ReaderSkipsOne) two root
   members in a row leave the second one as an entry named "." holding the tree; without any
   skipping (ReaderNoSkip, before b406c8c) one root member is enough. *)
Theorem C13_stream_skips_one_refuted :
  let ms := root_member [dot] :: root_member [dot] :: members_of ex_stream_members in
  stream_sees ReaderSkipsOne true ms = Some (NDir stream_root_meta [] [([dot], NDir ex_meta [] ex_stream_members)], []) /\
  stream_sees ReaderFixed true ms = Some (NDir stream_root_meta [] ex_stream_members, []) /\
  stream_sees ReaderNoSkip true (root_member [dot] :: members_of ex_stream_members) =
    Some (NDir stream_root_meta [] [([dot], NDir ex_meta [] ex_stream_members)], []).
Proof. exact stream_skips_one_refuted_proof. Qed.
Print Assumptions C13_stream_skips_one_refuted.

(* What the order of the two opening blocks of TarReader.Next is for: reading a member before the
   root is handed out loses the first member ("a" below), and an empty stream gives io.EOF instead
   of the archive of the empty root. *)
Theorem C13_stream_reads_first_refuted :
  stream_sees ReaderReadsFirst true (members_of ex_stream_members) =
    Some (NDir stream_root_meta [] [([100], NDir ex_meta [] [([120], NFile ex_meta [] [])])]%N, []) /\
  stream_sees ReaderReadsFirst true [] = None /\
  stream_sees ReaderFixed true [] = Some (NDir stream_root_meta [] [], []).
Proof. exact stream_reads_first_refuted_proof. Qed.
Print Assumptions C13_stream_reads_first_refuted.

(* Tar() as a whole over a tar stream: [stream_tar lv add_root members] is TarOk t when Tar returns
   nil having encoded t, TarError otherwise; lv = LeftoverRefused is the check after the root entry
   (commit 4e00255: one more Next(); anything but io.EOF is an error).  For ANY stream -- grouped by
   directory or not, with or without a root member: if Tar() returns nil, the files the reader
   delivered are exactly the nodes of the archive, in order (nothing dropped). *)
Theorem C13_stream_success_complete : forall add_root members t,
  stream_tar LeftoverRefused add_root members = TarOk t ->
  event_heads (reader_events ReaderFixed add_root members) = heads t.
Proof. exact stream_tar_complete_proof. Qed.
Print Assumptions C13_stream_success_complete.

(* FIXED by 4e00255 (tarstream/members-after-root-dropped): without the check a stream "a", "d", "d/x"
   and no AddRoot gives success with an archive of "a" alone; with the check it is an error; with
   AddRoot it is the root holding all three. *)
Theorem C13_stream_leftover_refuted :
  stream_tar LeftoverIgnored false (members_of ex_stream_members) = TarOk (NFile ex_meta [] [1]%N) /\
  stream_tar LeftoverRefused false (members_of ex_stream_members) = TarError /\
  stream_tar LeftoverRefused true (members_of ex_stream_members) = TarOk (NDir stream_root_meta [] ex_stream_members).
Proof. exact stream_leftover_refuted_proof. Qed.
Print Assumptions C13_stream_leftover_refuted.

(* ---------------------------------------------------------------------------------------
   A source that fails.  [tar_faulty v src] (Model/TarStream.v) is Tar() over a source whose Next()
   calls return, in order, the entries of src -- a file (NextOk) or an error other than io.EOF
   (NextErr: the walk could not lstat or list an entry, a damaged tar stream) -- and io.EOF after
   them; v = FaultReported: the error reaches tar(), which returns it. *)

(* Tar() == nil only if no Next() failed: a source fault is never turned into a shorter archive. *)
Theorem C13_source_fault_reported : forall src t,
  tar_faulty FaultReported src = TarOk t -> ~ In NextErr src.
Proof. exact tar_faulty_reports_proof. Qed.
Print Assumptions C13_source_fault_reported.

(* What handing the error on is for: a source that turns its error into a normal end (FaultAsEOF)
   makes Tar() return nil for root "t" with "a" alone -- "z", which sorts after the failing entry,
   is gone --; the error reported gives TarError; without the fault both files are archived. *)
Theorem C13_source_fault_swallowed_refuted :
  tar_faulty FaultAsEOF ex_fault_src = TarOk (NDir ex_meta [] [([97], NFile ex_meta [] [1])])%N /\
  tar_faulty FaultReported ex_fault_src = TarError /\
  tar_faulty FaultReported (filter (fun r => match r with NextOk _ => true | NextErr => false end) ex_fault_src)
    = TarOk (NDir ex_meta [] [([97], NFile ex_meta [] [1]); ([122], NFile ex_meta [] [])])%N.
Proof. exact tar_faulty_refuted_proof. Qed.
Print Assumptions C13_source_fault_swallowed_refuted.
