(* C13 -- Archives written by desync are well-formed casync catar.
   Only statements, [exact], Print Assumptions and Examples live here. *)
From Coq Require Import List NArith Arith Permutation Sorted.
From DS Require Import Gen.Constants Base.Bytes Model.Goodbye Model.Sip Proofs.GoodbyeProofs.
Import ListNotations.

(* makeGoodbyeBST, for EVERY number of directory entries and every list of items (duplicated
   hashes and offsets included): it does not panic; the table has one slot per item and the
   slots hold exactly the items (nothing lost, nothing left at its zero value); reading the
   table as an implicit binary tree (children of slot i at 2i+1 and 2i+2, slots beyond the
   table empty) in order gives the items sorted by hash, ties by offset. *)
Theorem C13_bst_inorder : forall items : list item,
  exists out,
    make_goodbye_bst items = Some out /\
    length out = length items /\
    Permutation out items /\
    arr_inorder (length out) out 0 = sort_items items /\
    Permutation items (sort_items items) /\
    StronglySorted item_le (sort_items items).
Proof.
  intros items. destruct (bst_inorder_proof items) as (out & H1 & H2 & H3 & H4).
  exists out. repeat split; try assumption; [apply sort_items_perm|apply sort_items_sorted].
Qed.
Print Assumptions C13_bst_inorder.

(* casync's search (compare the hash with the slot, equal: found, smaller: slot 2i+1, larger:
   slot 2i+2, beyond the table: not found) started at slot 0 reaches, for every item that was
   put in, a slot holding an item with the same hash; when the hashes of the directory are
   pairwise different it is that very item (its offset and size). *)
Theorem C13_bst_lookup : forall (items out : list item),
  make_goodbye_bst items = Some out ->
  forall x, In x items ->
  exists j y, casync_lookup out (it_hash x) = Some (j, y) /\
    nth_error out j = Some y /\ In y items /\ it_hash y = it_hash x /\
    (NoDup (map it_hash items) -> y = x).
Proof. exact bst_lookup_proof. Qed.
Print Assumptions C13_bst_lookup.

(* TEST (not a theorem about all inputs): the model of SipHash-2-4 reproduces the 64 vectors of
   the reference implementation. *)
Example C13_sip_vectors : sip_ref_computed = sip_ref_vectors.
Proof. vm_compute. reflexivity. Qed.

(* Non-vacuity / shape: 6 items with a duplicated hash; the table is the complete tree. *)
Example C13_bst_example :
  make_goodbye_bst [(10, 1, 50); (20, 1, 30); (30, 1, 50); (40, 1, 10); (50, 1, 70); (60, 1, 60)]%N
  = Some [(30, 1, 50); (20, 1, 30); (50, 1, 70); (40, 1, 10); (10, 1, 50); (60, 1, 60)]%N.
Proof. vm_compute. reflexivity. Qed.

Example C13_lookup_example :
  casync_lookup [(30, 1, 50); (20, 1, 30); (50, 1, 70); (40, 1, 10); (10, 1, 50); (60, 1, 60)]%N 60%N
  = Some (5, (60, 1, 60)%N).
Proof. vm_compute. reflexivity. Qed.
