(* C05 -- tar then untar reproduces the directory tree.
   Only statements, [exact], Print Assumptions and Examples live here. *)
From Coq Require Import List NArith Bool.
From DS Require Import Gen.Constants Base.Bytes Model.Mode Proofs.ModeProofs.
Import ListNotations.
Local Open Scope N_scope.

(* filesystem.go.  Every st_mode a file system can report -- all 16 bits: any of the seven file
   types, all twelve permission bits incl. set-uid, set-gid and sticky -- survives
   StatModeToFilemode followed by FilemodeToStatMode.  The domain is finite (2^16 values) and
   is swept exhaustively by the kernel's evaluator; the bound is part of the statement. *)
Theorem C05_mode_roundtrip : forall m : N,
  m < 2 ^ 16 -> valid_type (N.land m S_IFMT) = true ->
  filemode_to_stat (stat_to_filemode m) = m.
Proof. exact mode_roundtrip. Qed.
Print Assumptions C05_mode_roundtrip.

(* the same through the 64-bit mode word of an archive entry (decoder: uint32(mode)) *)
Theorem C05_mode_roundtrip_word : forall m : N,
  m < 2 ^ 16 -> valid_type (N.land m S_IFMT) = true ->
  filemode_to_stat (stat_to_filemode (u32 m)) = m.
Proof. exact mode_roundtrip_word. Qed.
Print Assumptions C05_mode_roundtrip_word.

(* what chmod receives after the two conversions: the twelve permission bits of the source,
   whatever the type nibble is *)
Theorem C05_chmod_bits : forall m : N,
  m < 2 ^ 16 -> chmod_bits (filemode_to_stat (stat_to_filemode m)) = N.land m 4095.
Proof. exact chmod_bits_roundtrip. Qed.
Print Assumptions C05_chmod_bits.

(* localfs_other.go.  mkdev after the major/minor split of LocalFS.Next (both generated from
   the source): exactly the device numbers with a 12-bit major and a 20-bit minor survive;
   and every 32-bit st_rdev is rebuilt from its split. *)
Theorem C05_dev_roundtrip : forall major minor : N,
  (rdev_major (mkdev major minor) = major /\ rdev_minor (mkdev major minor) = minor) <->
  (major < 2 ^ 12 /\ minor < 2 ^ 20).
Proof. exact dev_roundtrip_domain. Qed.
Print Assumptions C05_dev_roundtrip.

Theorem C05_rdev_rebuilt : forall r : N, r < 2 ^ 32 -> mkdev (rdev_major r) (rdev_minor r) = r.
Proof. exact mkdev_split. Qed.
Print Assumptions C05_rdev_rebuilt.

(* KNOWN FINDING (format conversion; the repair would change the bytes the repository's own
   fixture test TestGnuTarWrite pins): untar --output-format gnu-tar writes the os.FileMode word into
   the tar header; what tar --input-format tar (archive/tar's FileInfo) reads back of it is the
   nine rwx bits only -- set-uid, set-gid and sticky are lost for every mode. *)
Theorem C05_gnutar_mode_refuted : forall m : N,
  m < 2 ^ 16 -> tar_mode_back (tar_header_mode m) = N.land m 511.
Proof. exact gnutar_mode_loses_special_bits. Qed.
Print Assumptions C05_gnutar_mode_refuted.

(* tarfs.go / mtreefs.go CreateDevice (since "fix: gnu-tar and mtree output report character
   devices as such"): a device node is written as a character device exactly when its st_mode
   says so -- all 2^16 mode words.  Before the fix (n.Mode&0x4000) no mode word at all was. *)
Theorem C05_writer_char_device : forall m : N,
  m < 2 ^ 16 -> (N.land m S_IFMT = S_IFCHR \/ N.land m S_IFMT = S_IFBLK) ->
  writer_is_char (stat_to_filemode m) = (N.land m S_IFMT =? S_IFCHR).
Proof. exact writer_char_correct. Qed.
Print Assumptions C05_writer_char_device.

Theorem C05_writer_char_device_prefix_refuted : forall m : N,
  m < 2 ^ 16 -> writer_is_char_prefix (stat_to_filemode m) = false.
Proof. exact writer_char_prefix_refuted. Qed.
Print Assumptions C05_writer_char_device_prefix_refuted.

(* mtreefs.go (since "fix: mtree output pads nanoseconds with zeros and shows set-id/sticky
   bits"): mode= carries all twelve permission bits; the nanoseconds are printed as exactly nine
   digits that read back as the number.  Before: the nine rwx bits only. *)
Theorem C05_mtree_mode : forall m : N, m < 2 ^ 16 -> mtree_mode (stat_to_filemode m) = N.land m 4095.
Proof. exact mtree_mode_correct. Qed.
Print Assumptions C05_mtree_mode.

Theorem C05_mtree_mode_prefix_refuted : forall m : N,
  m < 2 ^ 16 -> mtree_mode_prefix (stat_to_filemode m) = N.land m 511.
Proof. exact mtree_mode_prefix_refuted. Qed.
Print Assumptions C05_mtree_mode_prefix_refuted.

Theorem C05_mtree_nsec : forall ns : N,
  ns < 10 ^ 9 -> length (fmt_nsec ns) = 9%nat /\ read_digits (fmt_nsec ns) = ns.
Proof. exact fmt_nsec_correct. Qed.
Print Assumptions C05_mtree_nsec.

(* 0104755: a set-uid regular file with rwxr-xr-x *)
Example C05_mode_example : stat_to_filemode 35309 = N.lor GoModeSetuid 493 /\
                           filemode_to_stat (N.lor GoModeSetuid 493) = 35309.
Proof. vm_compute. split; reflexivity. Qed.

Example C05_dev_outside_domain : rdev_minor (mkdev 0 (2 ^ 20)) = 0 /\ rdev_major (mkdev (2 ^ 12) 0) = 0.
Proof. vm_compute. split; reflexivity. Qed.

(* ======================================================================================
   The archive: tar() -> FormatEncoder -> FormatDecoder -> ArchiveDecoder.Next
   ====================================================================================== *)
From DS Require Import Base.LE64 Model.Format Model.Archive Model.TarModel Model.FSMeta
     Proofs.XattrSort Proofs.TarModelProofs Proofs.UntarMetaProofs.

(* [wf_tree t] (Proofs/TarModelProofs.v): st_mode < 2^16 with the type nibble of the constructor,
   uid/gid/mtime are 64-bit words, xattr keys contain no NUL, entry names are single path
   components (not "", ".", "..", no '/'), lengths are below 2^61 and a directory has fewer than
   2^32 entries.  [nodes_of path t] lists what ArchiveDecoder.Next is expected to return: every
   directory, file, symlink and device of t in walk order with its path, mode word, uid, gid,
   mtime, sorted xattrs and content / target / device numbers (fifos and sockets are skipped by
   tar()).  [tar_of_tree t] = the bytes written by Tar() for t; [decode_archive] = Next until nil.

   For every such tree whose root is a directory or a regular file the archive exists and
   decodes to exactly these nodes, with nothing left over. *)
Theorem C05_archive_roundtrip : forall t : tree,
  wf_tree t -> root_ok t ->
  exists b, tar_of_tree t = Some b /\ decode_archive b = Ok (nodes_of [] t, []).
Proof. exact archive_roundtrip. Qed.
Print Assumptions C05_archive_roundtrip.

(* tar() works on the flat stream of File events (fsBufReader.Next/Buffer, path.Dir(f.Path) == dir);
   on the depth-first walk of a tree this reconstructs the nesting: same elements as the
   recursion over the tree. *)
Theorem C05_tar_events_walk : forall t : tree,
  wf_tree t -> tar_events (walk [] [] t) = tar_tree [] [] t.
Proof. exact tar_events_walk. Qed.
Print Assumptions C05_tar_events_walk.

(* The same holds whether or not Tar() checks that the source is exhausted ([tar_events_with]):
   a stream grouped by directory -- depth first, as a walk or `tar c` produce it -- is archived
   completely either way. *)
Theorem C05_tarin_grouped : forall (check : bool) (t : tree),
  wf_tree t -> tar_events_with check (walk [] [] t) = tar_tree [] [] t.
Proof. exact tar_events_with_walk. Qed.
Print Assumptions C05_tarin_grouped.

(* KNOWN FINDING (tar-stream input; code before "fix: tar fails when the source holds entries that
   did not make it into the archive", [tar_events_with false]): the four-member stream
       ./   d0/   f1   d0/f0
   (a member of d0 after a member of its parent, as `tar -r` appends or name-sorted tools produce)
   is archived "successfully", and the archive decodes to ./, d0 and f1 only: d0/f0 is lost.
   With the check ([tar_events_with true]) Tar fails instead. *)
Theorem C05_tarin_ungrouped_refuted :
  (exists els ns, tar_events_with false ungrouped_stream = Some els /\
                  decode_archive (encode_elems els) = Ok (ns, []) /\
                  node_paths ns = [[]; [[100; 48]]; [[102; 49]]] /\
                  ~ In [[100; 48]; [102; 48]] (node_paths ns)) /\
  tar_events_with true ungrouped_stream = None.
Proof. exact tarin_ungrouped. Qed.
Print Assumptions C05_tarin_ungrouped_refuted.

(* after the fix a successful Tar has read its source to the end: nothing is dropped silently *)
Theorem C05_tarin_checked_complete : forall f rest els,
  tar_events_with true (f :: rest) = Some els ->
  tar_ev (2 * length (f :: rest) + 2) f rest = Some (els, []).
Proof. exact tar_events_checked_complete. Qed.
Print Assumptions C05_tarin_checked_complete.

(* Packing the same tree twice yields identical bytes: the archive is a function of the tree and
   does not depend on the order in which the xattr keys of an object are listed (same_tree:
   equal shape, names, contents and attributes; the xattr lists are permutations of each other). *)
Theorem C05_tar_deterministic : forall t1 t2 : tree,
  same_tree t1 t2 -> tar_of_tree t1 = tar_of_tree t2.
Proof. exact tar_deterministic. Qed.
Print Assumptions C05_tar_deterministic.

Theorem C05_xattr_order_irrelevant : forall l1 l2 : list (bytes * bytes),
  Permutation.Permutation l1 l2 -> NoDup (map fst l1) -> sort_xattrs l1 = sort_xattrs l2.
Proof. exact sort_xattrs_perm. Qed.
Print Assumptions C05_xattr_order_irrelevant.

(* Fifos and sockets are left out (tar() warns and skips them; outside what C05 quantifies over)
   and they are left out cleanly: the archive of a tree is the archive of the tree without them
   ([prune]) -- no filename element, no goodbye item -- and so are the decoded nodes. *)
Theorem C05_fifos_left_out : forall t : tree,
  tar_of_tree (prune t) = tar_of_tree t /\ nodes_of [] (prune t) = nodes_of [] t.
Proof. exact fifos_left_out. Qed.
Print Assumptions C05_fifos_left_out.

(* A FACT about the model, outside the property (C05 is about directory trees; not judged by the
   check): an archive whose root is a symlink is written but decodes to nothing: the symlink is
   lost without an error (ArchiveDecoder.Next waits for the element after the symlink element and
   takes the end of the stream for the end of the archive).  Same for a device root. *)
Theorem C05_root_symlink_lost : forall a tg,
  wf_tree (TLink a tg) ->
  exists b, tar_of_tree (TLink a tg) = Some b /\ decode_archive b = Ok ([], []).
Proof. exact root_link_lost. Qed.
Print Assumptions C05_root_symlink_lost.

(* ======================================================================================
   The writer: UnTar + LocalFS over the file system of Model/FSMeta.v
   ====================================================================================== *)

(* [unique_tree t]: sibling names are distinct, st_rdev < 2^32.  [expect pr o t] is the tree left
   behind, defined by recursion on t: same shape without fifos/sockets; permission bits, owner,
   xattrs as in the source (or the process defaults under the two options); mtime [Stamp] of the
   source for files, devices and directories without archived children, unless it is the epoch;
   [Now] -- the time of extraction -- otherwise.

   End to end in the model, for every directory tree, process credentials and option set:
   Tar, decode, UnTar into an empty directory succeeds and leaves exactly [expect]. *)
Theorem C05_tar_untar_result : forall (pr : proc) (o : lopts) a ch,
  wf_tree (TDir a ch) -> unique_tree (TDir a ch) ->
  exists b ns r,
    tar_of_tree (TDir a ch) = Some b /\ decode_archive b = Ok (ns, []) /\
    untar pr o ns (empty_root pr) = FOk r /\ expect pr o (TDir a ch) = Some r.
Proof. exact tar_untar_result. Qed.
Print Assumptions C05_tar_untar_result.

(* With the default options every archived object of the source is found at its path with its
   type, permission/set-id/sticky bits, owner, xattrs, content, link target and device number
   ([restored]); its mtime too if it is a file, a device or a directory without archived
   children and the mtime is not the epoch ([mtime_kept]). *)
Theorem C05_untar_restores : forall (pr : proc) a ch,
  wf_tree (TDir a ch) -> unique_tree (TDir a ch) ->
  exists b ns r,
    tar_of_tree (TDir a ch) = Some b /\ decode_archive b = Ok (ns, []) /\
    untar pr default_opts ns (empty_root pr) = FOk r /\
    forall p c, tree_at p (TDir a ch) = Some c -> supported_tree c = true ->
      exists e, lookup p r = Some e /\ restored c e /\
                (mtime_kept c -> fm_mtime (fmeta_of e) = Stamp (t_mtime (tree_attrs c))).
Proof. exact untar_restores. Qed.
Print Assumptions C05_untar_restores.

(* LocalFS.CreateFile removes whatever is at the path before it creates the file (os.RemoveAll).
   Consequence: the directory it leaves does not depend on what was there -- a file of an earlier
   generation with other content, more xattrs or further hard links, a directory, a link, a device. *)
Theorem C05_create_file_independent : forall pr o m ents nm old mt xs data,
  assoc nm ents = None ->
  create_file pr o [nm] mt xs data (FDir m (ents ++ [(nm, old)])) =
  create_file pr o [nm] mt xs data (FDir m ents).
Proof. exact create_file_independent. Qed.
Print Assumptions C05_create_file_independent.

(* A CreateFile that re-used a regular file already there (emptied by O_TRUNC) would keep the
   xattrs the archive does not have: the old file's u=1 survives in the variant, not in the code. *)
Example C05_create_file_reuse_refuted :
  let pr := mkProc 0 0 18 in
  let mt := mkMeta 0 0 33188 5 in
  xattrs_of_a (create_file_reuse pr default_opts [[97]] mt [] [1] reuse_before) = Some [([117], [1])] /\
  xattrs_of_a (create_file pr default_opts [[97]] mt [] [1] reuse_before) = Some [].
Proof. exact create_file_reuse_refuted. Qed.

(* The file system of Model/FSMeta.v gives a new entry the group of a set-group-ID directory (and a
   new directory its set-group-ID bit), as Linux does.  C05_tar_untar_result holds over it: the
   explicit chown and chmod of the writer put the archive's owner and mode back.  A writer that
   skipped the chown for entries belonging to the user who runs the extraction would not: *)
Example C05_lazy_chown_refuted :
  let pr := mkProc 0 0 18 in
  let mt := mkMeta 0 0 33188 5 in
  owner_of_a (create_file_lazy_chown pr [[97]] mt [] [1] sgid_dir) = Some (0, 7) /\
  owner_of_a (create_file pr default_opts [[97]] mt [] [1] sgid_dir) = Some (0, 0).
Proof. exact create_file_lazy_chown_refuted. Qed.

(* KNOWN FINDINGS, each for EVERY tree that contains such an object and every option set
   ([unpacked pr o t r]: r is the result of the run above). *)

(* a directory with at least one archived child keeps the time of extraction *)
Theorem C05_dir_mtime_lost : forall pr o a ch r p a' ch',
  wf_tree (TDir a ch) -> unique_tree (TDir a ch) -> unpacked pr o (TDir a ch) r ->
  tree_at p (TDir a ch) = Some (TDir a' ch') -> has_archived_child ch' ->
  exists m ents, lookup p r = Some (FDir m ents) /\ fm_mtime m = Now.
Proof. exact dir_mtime_lost. Qed.
Print Assumptions C05_dir_mtime_lost.

(* REPAIRED ("fix: untar restores the modification time of symlinks"): a symlink comes back with
   its own mtime (utimensat, AT_SYMLINK_NOFOLLOW).  The writer as it was before is
   [untar_prefix]; C05_symlink_mtime_prefix_refuted below evaluates it. *)
Theorem C05_symlink_mtime_restored : forall pr o a ch r p a' tg,
  wf_tree (TDir a ch) -> unique_tree (TDir a ch) -> unpacked pr o (TDir a ch) r ->
  tree_at p (TDir a ch) = Some (TLink a' tg) -> t_mtime a' <> 0 ->
  exists m, lookup p r = Some (FLink m tg) /\ fm_mtime m = Stamp (t_mtime a').
Proof. exact symlink_mtime_restored. Qed.
Print Assumptions C05_symlink_mtime_restored.

(* an mtime of exactly 1970-01-01T00:00:00Z is not applied *)
Theorem C05_epoch_mtime_lost : forall pr o a ch r p c,
  wf_tree (TDir a ch) -> unique_tree (TDir a ch) -> unpacked pr o (TDir a ch) r ->
  tree_at p (TDir a ch) = Some c -> supported_tree c = true -> t_mtime (tree_attrs c) = 0 ->
  exists e, lookup p r = Some e /\ fm_mtime (fmeta_of e) = Now.
Proof. exact epoch_mtime_lost. Qed.
Print Assumptions C05_epoch_mtime_lost.

(* A FACT about the model, outside the property (options other than the defaults; not judged by
   the check): --no-same-owner drops all extended attributes *)
Theorem C05_no_same_owner_drops_xattrs : forall pr nsp a ch r p c,
  wf_tree (TDir a ch) -> unique_tree (TDir a ch) -> unpacked pr (mkLopts true nsp) (TDir a ch) r ->
  tree_at p (TDir a ch) = Some c -> supported_tree c = true ->
  exists e, lookup p r = Some e /\ fm_xattrs (fmeta_of e) = [].
Proof. exact no_same_owner_drops_xattrs. Qed.
Print Assumptions C05_no_same_owner_drops_xattrs.

(* ---------- the refuting witnesses, evaluated (non-vacuity of everything above) ---------- *)

(* root (mtime 1000, xattrs listed b then a) with: a set-uid file "a" (mtime 5), a symlink "b"
   (mtime 9), an empty directory "c" (mtime 7), a file "d" with mtime 0, a char device "e" *)
Definition C05_witness : tree := witness_tree.

(* Tar, decode, UnTar into an empty directory as root with umask 022 *)
Definition run_model (pr : proc) (o : lopts) (t : tree) : option fnode :=
  match tar_of_tree t with
  | Some b => match decode_archive b with
              | Ok (ns, []) => match untar pr o ns (empty_root pr) with
                               | FOk r => Some r
                               | FErr _ => None
                               end
              | _ => None
              end
  | None => None
  end.

(* the same with the LocalFS writer as it was before the symlink-time fix *)
Definition run_model_prefix (pr : proc) (o : lopts) (t : tree) : option fnode :=
  match tar_of_tree t with
  | Some b => match decode_archive b with
              | Ok (ns, []) => match untar_prefix pr o ns (empty_root pr) with
                               | FOk r => Some r
                               | FErr _ => None
                               end
              | _ => None
              end
  | None => None
  end.

Definition C05_pr : proc := mkProc 0 0 18.
Definition C05_run (o : lopts) : option fnode := run_model C05_pr o C05_witness.

Definition look (p : list bytes) (r : option fnode) : option fnode :=
  match r with Some n => lookup p n | None => None end.
Definition mtime_at (p : list bytes) (r : option fnode) : option time :=
  option_map (fun e : fnode => fm_mtime (fmeta_of e)) (look p r).
Definition owner_mode_at (p : list bytes) (r : option fnode) : option (N * N * N) :=
  option_map (fun e : fnode => (fm_perm (fmeta_of e), fm_uid (fmeta_of e), fm_gid (fmeta_of e))) (look p r).
Definition xattrs_at (p : list bytes) (r : option fnode) : option (list (bytes * bytes)) :=
  option_map (fun e : fnode => fm_xattrs (fmeta_of e)) (look p r).

(* dir_mtime_refuted: the root had mtime 1000 and has children *)
Example C05_dir_mtime_refuted : mtime_at [] (C05_run default_opts) = Some Now.
Proof. vm_compute. reflexivity. Qed.
(* the symlink had mtime 9: restored now, the time of extraction with the writer before the fix *)
Example C05_symlink_mtime_example : mtime_at [[98]] (C05_run default_opts) = Some (Stamp 9).
Proof. vm_compute. reflexivity. Qed.
Example C05_symlink_mtime_prefix_refuted : mtime_at [[98]] (run_model_prefix C05_pr default_opts C05_witness) = Some Now.
Proof. vm_compute. reflexivity. Qed.
(* the file with mtime 0 *)
Example C05_epoch_mtime_refuted : mtime_at [[100]] (C05_run default_opts) = Some Now.
Proof. vm_compute. reflexivity. Qed.
(* and what is kept: the file, the empty directory, the device *)
Example C05_mtime_kept : mtime_at [[97]] (C05_run default_opts) = Some (Stamp 5) /\
                         mtime_at [[99]] (C05_run default_opts) = Some (Stamp 7) /\
                         mtime_at [[101]] (C05_run default_opts) = Some (Stamp 3).
Proof. vm_compute. repeat split; reflexivity. Qed.
(* the set-uid file keeps mode 04755 and its owner although chown clears the bit in between *)
Example C05_setuid_kept : owner_mode_at [[97]] (C05_run default_opts) = Some (2541, 1000, 4000000000).
Proof. vm_compute. reflexivity. Qed.
(* the whole run equals expect *)
Example C05_run_is_expect : C05_run default_opts = expect C05_pr default_opts C05_witness /\
                            C05_run (mkLopts true true) = expect C05_pr (mkLopts true true) C05_witness.
Proof. vm_compute. split; reflexivity. Qed.
(* the xattrs of the root come back sorted by key, value with its NUL byte intact *)
Example C05_xattrs_sorted :
  xattrs_at [] (C05_run default_opts) = Some [([117; 46; 97], [2; 0; 3]); ([117; 46; 98], [1])].
Proof. vm_compute. reflexivity. Qed.

(* the hypotheses of the theorems are satisfiable: the witness is a well-formed tree *)
Example C05_witness_wf : wf_tree C05_witness /\ unique_tree C05_witness /\ root_ok C05_witness.
Proof. exact witness_wf. Qed.

(* ======================================================================================
   Paths: the component lists of the models and Go's strings
   ====================================================================================== *)
From DS Require Base.GoPath Proofs.PathTie.

(* Model/Archive.v keeps a.dir as a list of components.  With Go's path package modelled on
   strings (Base/GoPath.v: path.Clean, path.Join, path.Dir) and a directory rendered as Go
   holds it ("." for the root, components joined by '/'): path.Join(a.dir, name) and
   filepath.Dir(a.dir) are [join] and [removelast] on the lists, for all directories made of
   real components and every name that passes the decoder's check -- which is exactly the
   names that are real components. *)
Theorem C05_name_check : forall nm : bytes, bad_name nm = false <-> GoPath.real_elem nm.
Proof. exact PathTie.bad_name_real. Qed.
Print Assumptions C05_name_check.

Theorem C05_path_join : forall (ds : list bytes) (nm : bytes),
  Forall GoPath.real_elem ds -> GoPath.real_elem nm ->
  GoPath.join [PathTie.render_dir ds; nm] = PathTie.render_dir (Archive.join ds nm) /\
  GoPath.join [PathTie.render_dir ds; []] = PathTie.render_dir (Archive.join ds []).
Proof. exact PathTie.join_render_both. Qed.
Print Assumptions C05_path_join.

Theorem C05_path_dir : forall ds : list bytes,
  Forall GoPath.real_elem ds -> GoPath.dir (PathTie.render_dir ds) = PathTie.render_dir (removelast ds).
Proof. exact PathTie.dir_render. Qed.
Print Assumptions C05_path_dir.

Example C05_path_example :
  GoPath.join [PathTie.render_dir [[97]; [46; 46; 46]]; [32; 98]] = [97; 47; 46; 46; 46; 47; 32; 98] /\
  GoPath.dir [97; 47; 46; 46; 46] = [97] /\ GoPath.dir [97] = [46].
Proof. vm_compute. repeat split; reflexivity. Qed.

(* non-vacuity of C05_fifos_left_out: a directory holding a fifo and a file; pruning removes the
   fifo, the archive stays the same *)
Definition C05_fifo_tree : tree :=
  TDir (mkAttrs 16877 0 0 1000 [])
    [ ([97], TOther (mkAttrs 4516 0 0 1 [])); ([98], TFile (mkAttrs 33188 0 0 5 []) [1; 2; 3]) ].
Example C05_fifo_example :
  prune C05_fifo_tree = TDir (mkAttrs 16877 0 0 1000 []) [([98], TFile (mkAttrs 33188 0 0 5 []) [1; 2; 3])] /\
  tar_of_tree (prune C05_fifo_tree) = tar_of_tree C05_fifo_tree /\ tar_of_tree C05_fifo_tree <> None.
Proof. vm_compute. repeat split; try reflexivity. discriminate. Qed.

(* symlink targets are opaque byte strings for tar(), the codec, the decoder and the writer: "sub/../f//"
   (which path.Clean would turn into "f") comes back byte for byte.  In general this is the [tg' = tg]
   of [restored] in C05_untar_restores and the NSymlink node of C05_archive_roundtrip. *)
Definition C05_link_tree : tree :=
  TDir (mkAttrs 16877 0 0 1000 [])
    [ ([108], TLink (mkAttrs 41471 0 0 9 []) [115; 117; 98; 47; 46; 46; 47; 102; 47; 47]) ].
Example C05_symlink_target_verbatim :
  option_map (fun e : fnode => match e with FLink _ t => t | _ => [] end)
             (look [[108]] (run_model C05_pr default_opts C05_link_tree))
  = Some [115; 117; 98; 47; 46; 46; 47; 102; 47; 47].
Proof. vm_compute. reflexivity. Qed.

(* file contents are opaque bytes end to end (C05_archive_roundtrip, [restored]): zeros at the end stay *)
Definition C05_zero_tail_tree : tree :=
  TDir (mkAttrs 16877 0 0 1000 []) [ ([122], TFile (mkAttrs 33188 0 0 9 []) [7; 0; 0; 0; 0; 0; 0; 0]); ([123], TFile (mkAttrs 33188 0 0 9 []) [0; 0; 0; 0]) ].
Example C05_zero_tail_kept :
  option_map (fun e : fnode => match e with FFile _ d => d | _ => [] end) (look [[122]] (run_model C05_pr default_opts C05_zero_tail_tree)) = Some [7; 0; 0; 0; 0; 0; 0; 0] /\
  option_map (fun e : fnode => match e with FFile _ d => d | _ => [] end) (look [[123]] (run_model C05_pr default_opts C05_zero_tail_tree)) = Some [0; 0; 0; 0].
Proof. vm_compute. split; reflexivity. Qed.

