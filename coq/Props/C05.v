(* C05 -- tar then untar reproduces the directory tree.
   Only statements, [exact], Print Assumptions and Examples live here. *)
From Coq Require Import List NArith Bool.
From DS Require Import Gen.Constants Base.Bytes Model.Mode Proofs.ModeProofs.
Import ListNotations.
Local Open Scope N_scope.

(* filesystem.go.  Every st_mode a file system can report -- all 16 bits: any of the seven file
   types, all twelve permission bits incl. set-uid, set-gid and sticky -- survives
   StatModeToFilemode followed by FilemodeToStatMode.  The domain is finite (2^16 values) and
   is swept exhaustively by the kernel's evaluator; the bound is part of the statement. *)
Theorem C05_mode_roundtrip : forall m : N,
  m < 2 ^ 16 -> valid_type (N.land m S_IFMT) = true ->
  filemode_to_stat (stat_to_filemode m) = m.
Proof. exact mode_roundtrip. Qed.
Print Assumptions C05_mode_roundtrip.

(* the same through the 64-bit mode word of an archive entry (decoder: uint32(mode)) *)
Theorem C05_mode_roundtrip_word : forall m : N,
  m < 2 ^ 16 -> valid_type (N.land m S_IFMT) = true ->
  filemode_to_stat (stat_to_filemode (u32 m)) = m.
Proof. exact mode_roundtrip_word. Qed.
Print Assumptions C05_mode_roundtrip_word.

(* what chmod receives after the two conversions: the twelve permission bits of the source,
   whatever the type nibble is *)
Theorem C05_chmod_bits : forall m : N,
  m < 2 ^ 16 -> chmod_bits (filemode_to_stat (stat_to_filemode m)) = N.land m 4095.
Proof. exact chmod_bits_roundtrip. Qed.
Print Assumptions C05_chmod_bits.

(* localfs_other.go.  mkdev after the major/minor split of LocalFS.Next (both generated from
   the source): exactly the device numbers with a 12-bit major and a 20-bit minor survive;
   and every 32-bit st_rdev is rebuilt from its split. *)
Theorem C05_dev_roundtrip : forall major minor : N,
  (rdev_major (mkdev major minor) = major /\ rdev_minor (mkdev major minor) = minor) <->
  (major < 2 ^ 12 /\ minor < 2 ^ 20).
Proof. exact dev_roundtrip_domain. Qed.
Print Assumptions C05_dev_roundtrip.

Theorem C05_rdev_rebuilt : forall r : N, r < 2 ^ 32 -> mkdev (rdev_major r) (rdev_minor r) = r.
Proof. exact mkdev_split. Qed.
Print Assumptions C05_rdev_rebuilt.

(* FINDING (format conversion): untar --output-format gnu-tar writes the os.FileMode word into
   the tar header; what tar --input-format tar (archive/tar's FileInfo) reads back of it is the
   nine rwx bits only -- set-uid, set-gid and sticky are lost for every mode. *)
Theorem C05_gnutar_mode_refuted : forall m : N,
  m < 2 ^ 16 -> tar_mode_back (tar_header_mode m) = N.land m 511.
Proof. exact gnutar_mode_loses_special_bits. Qed.
Print Assumptions C05_gnutar_mode_refuted.

(* 0104755: a set-uid regular file with rwxr-xr-x *)
Example C05_mode_example : stat_to_filemode 35309 = N.lor GoModeSetuid 493 /\
                           filemode_to_stat (N.lor GoModeSetuid 493) = 35309.
Proof. vm_compute. split; reflexivity. Qed.

Example C05_dev_outside_domain : rdev_minor (mkdev 0 (2 ^ 20)) = 0 /\ rdev_major (mkdev (2 ^ 12) 0) = 0.
Proof. vm_compute. split; reflexivity. Qed.
