(* C16 -- placeholder, theorems follow *)
From DS Require Import Model.Prune.
