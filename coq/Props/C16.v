(* C16 -- prune and verify remove exactly what they should.
   Only statements, [exact], Print Assumptions and Examples live here. *)
From Coq Require Import List NArith Arith Bool Permutation.
From DS Require Import Gen.Constants Base.Bytes Base.Hash Base.HexId Base.FS Model.LocalStore Model.Prune
     Proofs.LocalStoreProofs Proofs.PruneProofs.
Import ListNotations.

(* [stop] places a cancellation of the context anywhere in the run (the callback for that path finds
   ctx.Done() closed and returns Interrupted{}); the theorems hold for every [stop], so "nil => complete"
   also covers cancelled runs: a cancelled Prune either got through or does not return nil.
   Below, [prune_gen true] is LocalStore.Prune (= [prune]) and [prune_gen false] is SFTPStore.Prune
   (= [sftp_prune]: the same walk callback without the temp-file rule).

   prune_safe: whatever Prune returns (nil, ChunkMissing, an I/O error, even an exhausted recursion
   budget), for every path of the tree: it is as before, or it existed and is gone and then it is a
   ".tmp-cacnk*" name (local stores only) or the canonical own-format name of an id outside the keep-set.
   So referenced chunks, chunks of the other format, junk files and directories are untouched. *)
Theorem C16_prune_safe : forall (tmp_rule : bool) (stop : path -> bool) (st : store) (keep : id -> bool) fuel bstr s0 s' e,
  prune_gen tmp_rule stop fuel st bstr keep s0 = (s', e) ->
  forall q, stat q s' = stat q s0 \/
            (stat q s' = None /\ stat q s0 <> None /\
             ((tmp_rule = true /\ has_prefix (last q []) tmpChunkPrefix_bytes = true) \/
              exists i, wf_id i /\ keep i = false /\ q = snd (name_from_id st i))).
Proof. exact prune_safe. Qed.
Print Assumptions C16_prune_safe.

(* ... in particular never a canonical chunk of the other format (by C20_name_injective it is not a
   canonical own-format name, and it does not start with the temp prefix). *)

(* prune_complete: result nil => no canonical own-format chunk FILE with id outside keep remains, and
   (local stores) no temp-named FILE remains anywhere below the base. *)
Theorem C16_prune_complete : forall (tmp_rule : bool) (stop : path -> bool) (st : store) (keep : id -> bool) fuel bstr s0 s',
  is_dir (stat (st_base st) s0) = true ->
  prune_gen tmp_rule stop fuel st bstr keep s0 = (s', None) ->
  (forall i en, wf_id i -> keep i = false ->
     stat (snd (name_from_id st i)) s' = Some en -> is_dir (Some en) = true) /\
  (tmp_rule = true ->
   forall t en, stat (st_base st ++ t) s' = Some en ->
     has_prefix (last (st_base st ++ t) []) tmpChunkPrefix_bytes = true -> is_dir (Some en) = true).
Proof. exact prune_complete. Qed.
Print Assumptions C16_prune_complete.

(* prune_stray_name_errors: a (non-temp) file below the base whose base name parses (own format) to an id
   outside keep, while nothing exists at that id's canonical path (chunk name in a wrong directory,
   upper-case hex name), makes Prune return non-nil. *)
Theorem C16_prune_stray_name_errors : forall (tmp_rule : bool) (stop : path -> bool) (st : store) (keep : id -> bool) fuel bstr s0 t en i,
  is_dir (stat (st_base st) s0) = true ->
  stat (st_base st ++ t) s0 = Some en -> is_dir (Some en) = false ->
  (tmp_rule = true -> has_prefix (last (st_base st ++ t) []) tmpChunkPrefix_bytes = false) ->
  base_file_id (st_unc st) (last (st_base st ++ t) []) = Some i -> keep i = false ->
  stat (snd (name_from_id st i)) s0 = None ->
  snd (prune_gen tmp_rule stop fuel st bstr keep s0) <> None.
Proof. exact prune_stray_errors. Qed.
Print Assumptions C16_prune_stray_name_errors.

(* The recursion budget of the walk model is not a restriction: above the depth of the tree below the
   base it never runs out (the oracle runs with 64; real stores have depth 2). *)
Theorem C16_prune_fuel_suffices : forall (tmp_rule : bool) (stop : path -> bool) (st : store) (keep : id -> bool) fuel bstr s0,
  (forall q en, stat (st_base st ++ q) s0 = Some en -> length q < fuel) ->
  snd (prune_gen tmp_rule stop fuel st bstr keep s0) <> Some WeFuel.
Proof. exact prune_fuel_suffices. Qed.
Print Assumptions C16_prune_fuel_suffices.

(* The filter of the walk callbacks (suffix test on the path string, id from the base name) is a
   function of the base name alone. *)
Theorem C16_filter_is_on_base_name : forall unc dstr nm,
  chunk_file_id unc (join_str dstr nm) nm = base_file_id unc nm.
Proof. exact chunk_file_id_base. Qed.
Print Assumptions C16_filter_is_on_base_name.

(* verify_exact.  Verify looks only at the store's own chunk files -- a file whose path is not exactly
   nameFromID(id) for the id parsed from its name is skipped -- and reads them with verification whatever
   the store is configured to trust ([verifying st]).  If it returns nil then, for ANY store options,
   - the reported ids are exactly the ids of the canonical own-format chunk FILES whose object fails
     NewChunkFromStorage (both directions),
   - without repair the tree is unchanged; with repair every path is as before or is the removed
     canonical path of a reported id, and every reported chunk file is removed,
   (a chunk whose canonical file is a symbolic link is outside this theorem: Stat/Open follow the link, see
   the model's probe_f; the harness compares model and code on such stores)
   - every canonical own-format chunk file that is not reported holds an object whose data can be produced
     and hashes to the id in its name (the all-zero id included). *)
Theorem C16_verify_exact : forall (H : bytes -> id) (zdecomp : bytes -> option bytes) (st : store)
  fuel bstr repair s0 s' msgs,
  is_dir (stat (st_base st) s0) = true ->
  (forall i, not_link (probe (snd (name_from_id st i)) s0)) ->      (* no chunk is kept as a symbolic link *)
  verify H zdecomp fuel st bstr repair s0 = (s', msgs, None) ->
  (forall i, In i (reported msgs) ->
     wf_id i /\ (exists sum, get_chunk H zdecomp (verifying st) i s0 = GetInvalid sum) /\
     exists m b, stat (snd (name_from_id st i)) s0 = Some (EFile m b)) /\
  (forall i en, wf_id i -> stat (snd (name_from_id st i)) s0 = Some en -> is_dir (Some en) = false ->
     (exists sum, get_chunk H zdecomp (verifying st) i s0 = GetInvalid sum) -> In i (reported msgs)) /\
  (repair = false -> s' = s0) /\
  (forall q, stat q s' = stat q s0 \/
     (stat q s' = None /\ repair = true /\ exists i, In i (reported msgs) /\ q = snd (name_from_id st i))) /\
  (repair = true -> forall i, In i (reported msgs) -> stat (snd (name_from_id st i)) s' = None) /\
  (forall i m b, wf_id i -> stat (snd (name_from_id st i)) s0 = Some (EFile m b) ->
     ~ In i (reported msgs) -> exists d, storage_data zdecomp (st_unc st) b = Some d /\ H d = i).
Proof. exact verify_exact_any. Qed.
Print Assumptions C16_verify_exact.

(* The ids handed to the workers are those of existing canonical chunk files -- whatever else lies in the
   store (chunk names in wrong directories, upper-case names, chunk-named directories).  Hence the premise
   of C16_verify_order_irrelevant below holds in every run: the workers' order never matters, and no worker
   can remove a file the walk has not reached yet (the alias race of the pre-fix code is gone). *)
Theorem C16_verify_feeds_canonical_files_only : forall (st : store) fuel bstr s0 ids e,
  verify_ids fuel st bstr s0 = (ids, e) ->
  Forall wf_id ids /\
  forall i, In i ids -> exists en, stat (snd (name_from_id st i)) s0 = Some en /\ is_dir (Some en) = false.
Proof. exact verify_fed_ids_canonical. Qed.
Print Assumptions C16_verify_feeds_canonical_files_only.

(* What Verify did before that fix (the same body run on the store as configured): on a store opened with
   SkipVerify it reports nothing and removes nothing, whatever the store holds -- the property "Verify
   reports the chunks whose content does not match their id" is refuted for the old code. *)
Theorem C16_verify_skip_verify_reports_nothing_prefix_refuted :
  forall (H : bytes -> id) (zdecomp : bytes -> option bytes) (st : store) fuel bstr repair s0,
  st_skip st = true ->
  fst (fst (verify_raw H zdecomp fuel st bstr repair s0)) = s0 /\
  reported (snd (fst (verify_raw H zdecomp fuel st bstr repair s0))) = [].
Proof. exact verify_raw_skip_reports_nothing. Qed.
Print Assumptions C16_verify_skip_verify_reports_nothing_prefix_refuted.

(* The order in which the workers handle the fed ids does not matter when every fed id's canonical path is
   a file (no alias names): any permutation gives the same reported set and the same tree. *)
Theorem C16_verify_order_irrelevant : forall (H : bytes -> id) (zdecomp : bytes -> option bytes) (st : store)
  repair ids ids' s s1 m1 s2 m2,
  Permutation ids ids' -> Forall wf_id ids ->
  (forall i, In i ids -> exists m b, stat (snd (name_from_id st i)) s = Some (EFile m b)) ->
  verify_all H zdecomp st repair ids s = (s1, m1) -> verify_all H zdecomp st repair ids' s = (s2, m2) ->
  (forall j, In j (reported m1) <-> In j (reported m2)) /\ (forall q, stat q s1 = stat q s2).
Proof. exact verify_all_perm. Qed.
Print Assumptions C16_verify_order_irrelevant.

(* NewChunkFromStorage since 27b0229: an object whose data cannot be produced (empty, undecodable) is
   invalid for every id ... *)
Theorem C16_undecodable_always_invalid : forall (H : bytes -> id) (zdecomp : bytes -> option bytes) (b : bytes) unc i,
  storage_data zdecomp unc b = None ->
  new_chunk_from_storage H zdecomp i b unc false = GetInvalid zero_id.
Proof. exact undecodable_always_invalid. Qed.
Print Assumptions C16_undecodable_always_invalid.

(* ... whereas the constructor as it was before that commit accepted it under the all-zero id (the
   property "Verify reports every object that does not match its id" is refuted for the old code). *)
Theorem C16_zero_id_accepts_undecodable_prefix_refuted :
  forall (H : bytes -> id) (zdecomp : bytes -> option bytes) (b : bytes) unc,
  storage_data zdecomp unc b = None ->
  new_chunk_from_storage_prefix H zdecomp zero_id b unc false = GetOk b.
Proof. exact zero_id_accepts_undecodable_prefix. Qed.
Print Assumptions C16_zero_id_accepts_undecodable_prefix_refuted.

(* SFTPStore.Prune since 9329890 removes over the connection the walk holds: for every pool size the
   model never waits for a connection ... *)
Theorem C16_prune_never_blocks : forall (tmp_rule : bool) (stop : path -> bool) (st : store) (keep : id -> bool) fuel bstr s0,
  snd (prune_gen tmp_rule stop fuel st bstr keep s0) <> Some WeBlocked.
Proof. exact prune_never_blocks. Qed.
Print Assumptions C16_prune_never_blocks.

(* ---------- non-vacuity ---------- *)
Definition ex_H (b : bytes) : id := fold_right N.add 0%N b.
Definition ex_zdecomp (b : bytes) : option bytes :=
  match b with 40 :: 181 :: r => Some r | _ => None end%N.
Definition ex_st : store := mkStore [[115]%N] false false.      (* base "s", compressed *)
Definition ex_keep (i : id) : bool := N.eqb i 7.
Definition nm6 := hex_id 6%N.
Definition nm7 := hex_id 7%N.
Definition d0 := firstn 4 nm6.
Definition ex_tree : node :=
  Dir meta0 [([115]%N, Dir meta0
    [(d0, Dir meta0 [(nm6 ++ ext_of false, File meta0 [40; 181; 1; 2; 3]%N);     (* unreferenced, valid *)
                     (nm7 ++ ext_of false, File meta0 [40; 181; 9]%N);           (* referenced, INVALID (sum 9) *)
                     (nm6, File meta0 [1; 2; 3]%N);                              (* other format *)
                     (tmp_name [46; 49]%N, File meta0 [40]%N)]);                 (* abandoned temp file *)
     ([82]%N, File meta0 [1]%N)])].                                              (* junk "R" *)

Example C16_example_prune :
  let '(s', e) := prune default_fuel ex_st [115]%N ex_keep ex_tree in
  e = None /\
  map (fun pe => map (@length byte) (fst pe)) (listing [] s') = [[]; [1]; [1; 4]; [1; 4; 70]; [1; 4; 64]; [1; 1]].
Proof. vm_compute. split; reflexivity. Qed.

Example C16_example_verify :
  let '(s', msgs, e) := verify ex_H ex_zdecomp default_fuel ex_st [115]%N true ex_tree in
  e = None /\ reported msgs = [7%N] /\ stat ([[115]%N; d0; nm7 ++ ext_of false]) s' = None /\
  stat ([[115]%N; d0; nm6 ++ ext_of false]) s' = Some (EFile meta0 [40; 181; 1; 2; 3]%N).
Proof. vm_compute. repeat split; reflexivity. Qed.

(* a chunk name in the wrong directory, id outside keep, canonical path absent: ChunkMissing *)
Example C16_example_stray :
  snd (prune default_fuel ex_st [115]%N (fun _ => false)
         (Dir meta0 [([115]%N, Dir meta0 [([48; 48]%N, Dir meta0 [(hex_id 300%N ++ ext_of false, File meta0 [1]%N)])])]))
  = Some (WeMissing 300%N).
Proof. vm_compute. reflexivity. Qed.

(* the former alias race: an upper-case alias listed before the invalid canonical chunk.  The alias is
   skipped now, so also the eager schedule (worker at once) completes, and both report exactly id 171 *)
Definition up (s : bytes) : bytes := map (fun c => if (97 <=? c)%N then (c - 32)%N else c) s.
Definition ex_alias_tree : node :=
  Dir meta0 [([115]%N, Dir meta0
    [(firstn 4 (hex_id 171%N), Dir meta0 [(up (hex_id 171%N) ++ ext_of false, File meta0 [40; 181; 171]%N);
                                         (hex_id 171%N ++ ext_of false, File meta0 [40; 181; 1]%N)])])].
Example C16_example_alias_no_race :
  snd (verify_eager ex_H ex_zdecomp default_fuel ex_st [115]%N true ex_alias_tree) = None /\
  snd (verify ex_H ex_zdecomp default_fuel ex_st [115]%N true ex_alias_tree) = None /\
  reported (snd (fst (verify_eager ex_H ex_zdecomp default_fuel ex_st [115]%N true ex_alias_tree))) = [171%N] /\
  reported (snd (fst (verify ex_H ex_zdecomp default_fuel ex_st [115]%N true ex_alias_tree))) = [171%N].
Proof. vm_compute. repeat split; reflexivity. Qed.

(* ---------- S3Store.Prune ---------- *)

(* idFromName accepts the key nameFromID builds, and returns the id *)
Theorem C16_s3_accepts_canonical : forall prefix unc i, wf_id i ->
  s3_id_from_name prefix unc (s3_name prefix unc i) = Some i.
Proof. exact s3_id_from_name_canonical. Qed.
Print Assumptions C16_s3_accepts_canonical.

(* safe: nothing appears; an object that disappears is the canonical own-format key of an id outside keep *)
Theorem C16_s3_prune_safe : forall prefix unc (keep : id -> bool) bucket x,
  (In x (s3_prune prefix unc keep bucket) -> In x bucket) /\
  (In x bucket -> In x (s3_prune prefix unc keep bucket) \/
                  exists i, wf_id i /\ keep i = false /\ x = s3_name prefix unc i).
Proof. exact s3_prune_safe. Qed.
Print Assumptions C16_s3_prune_safe.

(* complete: no canonical own-format key of an id outside keep remains (RemoveObject of an absent key
   succeeds, so S3 prune has no error path of its own) *)
Theorem C16_s3_prune_complete : forall prefix unc (keep : id -> bool) bucket i, wf_id i -> keep i = false ->
  ~ In (s3_name prefix unc i) (s3_prune prefix unc keep bucket).
Proof. exact s3_prune_complete. Qed.
Print Assumptions C16_s3_prune_complete.

Definition k6c := s3_name [112; 47]%N false 6%N.      (* "p/0000/00..06.cacnk" *)
Definition k6u := s3_name [112; 47]%N true 6%N.
Definition k7c := s3_name [112; 47]%N false 7%N.
Example C16_example_s3 :
  s3_prune [112; 47]%N false (fun i => N.eqb i 7) [k6c; k6u; k7c; [112; 47; 82]%N] = [k6u; k7c; [112; 47; 82]%N] /\
  (* idFromName only asks that the id START WITH the directory name: "p/00/00..06.cacnk" parses to id 6 *)
  s3_id_from_name [112; 47]%N false ([112; 47; 48; 48; 47]%N ++ hex_id 6%N ++ ext_of false) = Some 6%N.
Proof. vm_compute. split; reflexivity. Qed.

(* Finding recorded as a theorem: the temp names of SFTP stores (<chunk name><decimal digits>, sftp.go
   StoreObject) are accepted by neither format's filter, so no Prune ever removes an abandoned one. *)
Theorem C16_sftp_temp_never_accepted : forall unc i digits,
  digits <> [] -> forallb is_digit digits = true ->
  base_file_id unc (hex_id i ++ ext_of unc ++ digits) = None.
Proof. exact sftp_temp_never_accepted. Qed.
Print Assumptions C16_sftp_temp_never_accepted.

(* ... whereas the pre-9329890 code with a one-connection pool blocks at the first unreferenced chunk
   (refuted for the old code; the fixed model prunes the same tree). *)
Example C16_sftp_prune_deadlock_prefix_refuted :
  snd (sftp_prune_prefix 1 default_fuel ex_st [115]%N ex_keep ex_tree) = Some WeBlocked /\
  snd (sftp_prune_prefix 2 default_fuel ex_st [115]%N ex_keep ex_tree) = None /\
  snd (sftp_prune default_fuel ex_st [115]%N ex_keep ex_tree) = None.
Proof. vm_compute. repeat split; reflexivity. Qed.

(* the zero-id corner on a concrete tree: "0000/00..00.cacnk" holding garbage is reported now *)
Example C16_example_zero_id_reported :
  let z := hex_id 0%N in
  let t := Dir meta0 [([115]%N, Dir meta0 [(firstn 4 z, Dir meta0 [(z ++ ext_of false, File meta0 [1; 2; 3]%N)])])] in
  let '(_, msgs, e) := verify ex_H ex_zdecomp default_fuel ex_st [115]%N false t in
  e = None /\ reported msgs = [0%N].
Proof. vm_compute. split; reflexivity. Qed.

(* a SkipVerify store with a damaged chunk: Verify reports it; the pre-fix body did not *)
Example C16_example_skip_verify_store :
  let st := mkStore [[115]%N] false true in
  reported (snd (fst (verify ex_H ex_zdecomp default_fuel st [115]%N false ex_tree))) = [7%N] /\
  reported (snd (fst (verify_raw ex_H ex_zdecomp default_fuel st [115]%N false ex_tree))) = [].
Proof. vm_compute. split; reflexivity. Qed.

(* S3Store.Prune with a cancellation anywhere in the listing: if it does not return Interrupted it has done
   what the uninterrupted prune does -- so nil implies complete (C16_s3_prune_complete) also when the
   context is cancelled under way.  (Seeded mutant C16-11 ended the loop normally on cancellation.) *)
Theorem C16_s3_prune_cancelled : forall (stop : bytes -> bool) prefix unc (keep : id -> bool) bucket b',
  s3_prune_c stop prefix unc keep bucket = (b', false) -> b' = s3_prune prefix unc keep bucket.
Proof. exact s3_prune_c_nil. Qed.
Print Assumptions C16_s3_prune_cancelled.

(* a chunk kept as a symbolic link: local Prune removes the link, and only the link *)
Example C16_example_symlinked_chunk :
  let lnk := [46; 46; 47; 111]%N in      (* "../o" *)
  let t := Dir meta0 [([115]%N, Dir meta0 [(d0, Dir meta0 [(nm6 ++ ext_of false, Symlink meta0 lnk)]);
                                           ([111]%N, File meta0 [40; 181; 1; 2; 3]%N)])] in
  let '(s', e) := prune default_fuel ex_st [115]%N (fun _ => false) t in
  e = None /\ stat [[115]%N; d0; nm6 ++ ext_of false] s' = None /\
  stat [[115]%N; [111]%N] s' = Some (EFile meta0 [40; 181; 1; 2; 3]%N) /\
  get_chunk ex_H ex_zdecomp ex_st 6%N t = GetOk [40; 181; 1; 2; 3]%N.
Proof. vm_compute. repeat split; reflexivity. Qed.

(* cancellation placed at the first chunk file: Interrupted, nothing removed *)
Example C16_example_prune_cancelled :
  prune_gen true (fun p => Nat.eqb (length p) 3) default_fuel ex_st [115]%N ex_keep ex_tree = (ex_tree, Some WeInterrupted).
Proof. vm_compute. reflexivity. Qed.
