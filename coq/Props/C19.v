(* C19 -- decoders survive arbitrary input.
   Only statements, [exact], and Print Assumptions live here. *)
From Coq Require Import List NArith Arith Bool.
From DS Require Import Gen.Constants Base.Bytes Base.LE64 Model.Format Model.Index Model.Protocol Model.Archive Model.ArchiveLeaf Model.ProtocolServer
     Proofs.FormatProofs Proofs.DecoderProofs Proofs.ProtocolServerProofs Proofs.ArchiveLeafProofs.
Import ListNotations.
Local Open Scope N_scope.

(* For EVERY byte list b (no well-formedness assumed, not even that the numbers are below 256):
   FormatDecoder.Next, the loop over Next, IndexFromReader under either digest, Protocol.ReadMessage,
   a loop of ReadMessage, ArchiveDecoder.Next from any decoder state it can be in, and the loop over
   it, return a value or an error.  [survives r] = r is not a Panic (slice bounds, makeslice) and not
   the model's OutOfFuel, i.e. the model's loops are bounded by the input like the Go loops are. *)
Theorem C19_decoders_total : forall b : bytes,
  survives (decode_next b) /\ survives (decode_elems b) /\
  (forall d, survives (decode_index d b)) /\
  survives (decode_message b) /\ survives (decode_messages b) /\
  (forall st, wf_astate st -> survives (decode_archive_next st b)) /\ survives (decode_archive b).
Proof. exact decoders_total. Qed.
Print Assumptions C19_decoders_total.

(* the decoder states quantified over above are closed under Next; the initial one is among them *)
Theorem C19_archive_state_preserved : forall st b nd st' rest,
  wf_astate st -> decode_archive_next st b = Ok ((nd, st'), rest) -> wf_astate st'.
Proof. exact archive_state_preserved. Qed.
Print Assumptions C19_archive_state_preserved.

(* Memory: the bytes allocated by allocations whose size derives from the input (ReadN buffers,
   appended goodbye/table items, the chunk slice of IndexFromReader) are bounded by the input length
   (3x for an index: 40 bytes of table row also cost a 48-byte IndexChunk) plus one 64 KiB buffer. *)
Theorem C19_decoders_alloc_bound : forall b : bytes,
  decode_next_alloc b <= lenN b + 65536 /\ decode_elems_alloc b <= lenN b + 65536 /\
  (forall d, decode_index_alloc d b <= 3 * lenN b + 65536) /\
  decode_message_alloc b <= lenN b + 65536 /\ decode_messages_alloc b <= lenN b + 65536 /\
  (forall st, decode_archive_next_alloc st b <= lenN b + 65536) /\ decode_archive_alloc b <= lenN b + 65536.
Proof. exact decoders_alloc_bound. Qed.
Print Assumptions C19_decoders_alloc_bound.

(* ArchiveDecoder.Next as it is now, with the leaf-root rule on top of [archive_next] (Model/ArchiveLeaf.v:
   a root entry that is a file, symlink or device is the only entry; any later node is refused): for
   every byte list and every decoder state, a value or an error, bounded allocation; the states are
   closed under Next; and after a leaf root nothing is returned any more. *)
Theorem C19_archive_full_total : forall b : bytes,
  (forall ds, wf_astate (d_core ds) ->
     survives (decode_archive_next_full ds b) /\ decode_archive_next_full_alloc ds b <= lenN b + 65536) /\
  survives (decode_archive_full b) /\ decode_archive_full_alloc b <= lenN b + 65536.
Proof. exact archive_full_total. Qed.
Print Assumptions C19_archive_full_total.

Theorem C19_archive_full_state_preserved : forall ds b nd ds' rest,
  wf_astate (d_core ds) -> decode_archive_next_full ds b = Ok ((nd, ds'), rest) -> wf_astate (d_core ds').
Proof. exact archive_full_state_preserved. Qed.
Print Assumptions C19_archive_full_state_preserved.

Theorem C19_leaf_root_is_last : forall ds b r rest,
  d_leaf_root ds = true -> decode_archive_next_full ds b = Ok (r, rest) -> fst r = None.
Proof. exact leaf_root_is_last. Qed.
Print Assumptions C19_leaf_root_is_last.

(* The protocol endpoints.  ProtocolServer.Serve on EVERY byte stream a client can send and for every
   chunk store (a function of the requested id): handshake, wanted-service check, then the dispatch on
   (type, body length) of each message -- it returns nil or an error, never panics in m.Body[8:40],
   its loop is bounded by the input, and what it allocates for the input is bounded. *)
Theorem C19_server_total : forall (store : bytes -> store_res) (b : bytes),
  survives (decode_serve store b) /\ decode_serve_alloc store b <= lenN b + 65536.
Proof. exact server_total. Qed.
Print Assumptions C19_server_total.

(* a REQUEST whose body is shorter than 8 flag bytes + a 32-byte id is answered with an error *)
Theorem C19_server_rejects_short_request : forall (store : bytes -> store_res) (body rest : bytes),
  lenN body < 40 ->
  exists a, serve_one 40 store (write_message (CaProtocolRequest, body) ++ rest) = (Err TooShort, rest, a).
Proof. exact server_rejects_short_request. Qed.
Print Assumptions C19_server_rejects_short_request.

(* the client side: RecvHello, then RequestChunk's handling of whatever the server answers
   (CHUNK with a body < 40, MISSING with any body, ABORT, unknown types, truncated messages) *)
Theorem C19_client_total : forall b : bytes,
  survives (decode_client b) /\ decode_client_alloc b <= lenN b + 65536.
Proof. exact client_total. Qed.
Print Assumptions C19_client_total.

(* ---- the same model with the element-size handling as it was before commit
        "fix: decoders validate element sizes ..." ([PreFix]) violates both ---- *)

(* a 16-byte Filename element: make([]byte, 0), then b[:len(b)-1] panics *)
Example C19_filename_size16_panic_refuted :
  run_result (next PreFix) (le64 16 ++ le64 CaFormatFilename) = Panic SliceBounds.
Proof. vm_compute. reflexivity. Qed.

(* size 8 < header size: 8-16 wraps to 2^64-8, makeslice panics *)
Example C19_size_lt16_wrap_refuted :
  run_result (next PreFix) (le64 8 ++ le64 CaFormatUser) = Panic MakeSliceLen.
Proof. vm_compute. reflexivity. Qed.

(* a 16-byte input that announces 2^40 bytes: 1 TiB allocated for the body / the goodbye items *)
Example C19_body_size_alloc_refuted :
  run_alloc (next PreFix) (le64 (2 ^ 40) ++ le64 CaFormatSymlink) = 2 ^ 40 - 16.
Proof. vm_compute. reflexivity. Qed.
Example C19_goodbye_count_refuted :
  run_alloc (next PreFix) (le64 (2 ^ 40) ++ le64 CaFormatGoodbye) = 24 * ((2 ^ 40 - 16) / 24).
Proof. vm_compute. reflexivity. Qed.
Example C19_protocol_len_refuted :
  run_alloc (read_message PreFix) (le64 (2 ^ 40)) = 2 ^ 40 - 8.
Proof. vm_compute. reflexivity. Qed.

(* the current code on the same inputs: an error, nothing allocated up front beyond 64 KiB *)
Example C19_fixed_on_those_inputs :
  decode_next (le64 16 ++ le64 CaFormatFilename) = Err InvalidFormat /\
  decode_next (le64 8 ++ le64 CaFormatUser) = Err InvalidFormat /\
  decode_next (le64 (2 ^ 40) ++ le64 CaFormatSymlink) = Err UnexpectedEOF /\
  decode_next_alloc (le64 (2 ^ 40) ++ le64 CaFormatSymlink) = 0 /\
  decode_next (le64 (2 ^ 40) ++ le64 CaFormatGoodbye) = Err EOF /\
  decode_next_alloc (le64 (2 ^ 40) ++ le64 CaFormatGoodbye) = 0 /\
  decode_message (le64 (2 ^ 40)) = Err UnexpectedEOF.
Proof. vm_compute. repeat split; reflexivity. Qed.

(* non-vacuity of the positive side: a two-entry archive decodes to its nodes *)
Definition ex_archive : bytes :=
  encode_elems [ Entry (mkHeader 64 CaFormatEntry) 0 16877 0 1000 1000 5;
                 Filename (mkHeader 19 CaFormatFilename) [102; 49];
                 Entry (mkHeader 64 CaFormatEntry) 0 33188 0 1000 1000 7;
                 Payload (mkHeader 19 CaFormatPayload) [1; 2; 3];
                 Goodbye (mkHeader 40 CaFormatGoodbye) [(0, 0, CaFormatGoodbyeTailMarker)] ].
Example C19_example_archive :
  decode_archive ex_archive =
  Ok ([ NDirectory [] (mkMeta 1000 1000 16877 5) [];
        NFile [[102; 49]] (mkMeta 1000 1000 33188 7) [] 3 [1; 2; 3] ], []).
Proof. vm_compute. reflexivity. Qed.

(* only the root entry is nameless: a later entry without a Filename element is refused
   (commit "fix: archive decoder rejects entries without a name after the root entry") *)
Example C19_example_nameless_entry :
  decode_archive (encode_elems [ Entry (mkHeader 64 CaFormatEntry) 0 16877 0 0 0 5;
                                 Goodbye (mkHeader 40 CaFormatGoodbye) [(0, 0, CaFormatGoodbyeTailMarker)];
                                 Entry (mkHeader 64 CaFormatEntry) 0 33188 0 0 0 7;
                                 Payload (mkHeader 17 CaFormatPayload) [1] ]) = Err InvalidFormat.
Proof. vm_compute. reflexivity. Qed.

(* Serve with the guard `len(m.Body) < 32` (the id alone, forgetting the 8 flag bytes): a REQUEST with a
   32..39 byte body after a completed handshake panics in m.Body[8:40]; the real guard reports an error *)
Definition ex_hello : bytes := write_message (CaProtocolHello, le64 CaProtocolPullChunks).
Definition ex_short_request : bytes := write_message (CaProtocolRequest, repeat 7 35).
Example C19_server_guard32_refuted :
  run_result (serve 32 (fun _ => SMissing)) (ex_hello ++ ex_short_request) = Panic SliceBounds /\
  decode_serve (fun _ => SMissing) (ex_hello ++ ex_short_request) = Err TooShort /\
  decode_serve (fun _ => SMissing)
    (ex_hello ++ write_message (CaProtocolRequest, repeat 7 40) ++ write_message (CaProtocolGoodbye, [])) =
    Ok ([RMissing (repeat 7 32)], []).
Proof. vm_compute. repeat split; reflexivity. Qed.

(* the leaf-root rule: a root FILE alone, or followed by a goodbye / the end, decodes to that one node;
   followed by a named entry it is an error; a root DIRECTORY may be followed by named entries *)
Definition ex_root_file : list elem :=
  [ Entry (mkHeader 64 CaFormatEntry) 0 33188 0 0 0 7; Payload (mkHeader 17 CaFormatPayload) [1] ].
Definition ex_named_file : list elem :=
  [ Filename (mkHeader 18 CaFormatFilename) [102]; Entry (mkHeader 64 CaFormatEntry) 0 33188 0 0 0 7;
    Payload (mkHeader 17 CaFormatPayload) [2] ].
Definition ex_goodbye : elem := Goodbye (mkHeader 40 CaFormatGoodbye) [(0, 0, CaFormatGoodbyeTailMarker)].
Example C19_example_leaf_root :
  decode_archive_full (encode_elems ex_root_file) = Ok ([NFile [] (mkMeta 0 0 33188 7) [] 1 [1]], []) /\
  decode_archive_full (encode_elems (ex_root_file ++ [ex_goodbye])) = Ok ([NFile [] (mkMeta 0 0 33188 7) [] 1 [1]], []) /\
  decode_archive_full (encode_elems (ex_root_file ++ ex_named_file)) = Err InvalidFormat /\
  decode_archive (encode_elems (ex_root_file ++ ex_named_file)) =
    Ok ([NFile [] (mkMeta 0 0 33188 7) [] 1 [1]; NFile [[102]] (mkMeta 0 0 33188 7) [] 1 [2]], []) /\
  decode_archive_full (encode_elems (Entry (mkHeader 64 CaFormatEntry) 0 16877 0 0 0 5 :: ex_named_file ++ [ex_goodbye])) =
    Ok ([NDirectory [] (mkMeta 0 0 16877 5) []; NFile [[102]] (mkMeta 0 0 33188 7) [] 1 [2]], []).
Proof. vm_compute. repeat split; reflexivity. Qed.
