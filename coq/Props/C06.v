(* C06 -- bulk writes (make, chop, cache, tar -i) are complete when they report success.
   Only statements, [exact], Print Assumptions and Examples live here.

   [bstep H mode jobs src fault can_cancel] is the interleaving system of Model/BulkWrite.v:
   feeder, nw workers whose bodies act on the target store and on ChunkStorage.processed, an
   environment thread cancelling the context; [fault kind n] makes the n-th HasChunk /
   StoreChunk / GetChunk call fail.  All theorems quantify over every schedule (list btid), every
   worker count, every fault oracle, every job list (duplicates included). *)
From Coq Require Import List NArith Arith Bool.
From DS Require Import Base.Bytes Base.Hash Base.Sched Model.Pool Model.BulkWrite Model.MakeCancel Model.CtxBound Model.StreamIO
     Proofs.BulkWriteProofs Proofs.MakeCancelProofs Proofs.CtxBoundProofs Proofs.StreamIOProofs.
Import ListNotations.

(* At every point of every schedule: an id in ChunkStorage.processed is present in the target
   store, or owned by a live worker between markProcessed and the result of ws.StoreChunk, or an
   error has reached (or is on its way to) the errgroup. *)
Theorem C06_chunkstorage_inv : forall H mode jobs src fault can_cancel store0 nw sched,
  let s := run (bstep H mode jobs src fault can_cancel) sched (binit store0 nw) in
  forall i, In i (b_proc s) ->
    has (b_store s) i = true \/
    exw (is_owner H mode jobs i) (b_workers s) \/
    (b_failed s = true \/ exw is_doom (b_workers s)).
Proof. exact chunkstorage_inv. Qed.
Print Assumptions C06_chunkstorage_inv.

(* nil => every chunk of the index can be read back from the target and hashes to its id.
   Premises: the target held only valid chunks before; for copy, the source delivers valid chunks
   (C03).  No premise on H. *)
Theorem C06_bulk_complete : forall H mode jobs src fault can_cancel store0 nw sched,
  store_ok H store0 -> (mode = MCopy -> src_ok H src) ->
  let s := run (bstep H mode jobs src fault can_cancel) sched (binit store0 nw) in
  bfinal s = true -> bulk_result s = RNil ->
  forall k, k < njobs jobs ->
    exists b, lookup (b_store s) (jid H mode jobs k) = Some b /\ H b = jid H mode jobs k.
Proof. exact bulk_complete. Qed.
Print Assumptions C06_bulk_complete.

(* The same spelled out for a context that may be cancelled at ANY step of the schedule (before the
   start, between two jobs, after the feeder handed out the last job while the last bodies are in
   flight, ...): the workers of the model never look at the context, so success still means complete.
   A worker that drops its chunk once the context is cancelled (seeded mutant C06-1) is outside this
   model; the harness catches it by cancelling at exactly these points. *)
Theorem C06_cancel_complete : forall H mode jobs src fault store0 nw sched,
  store_ok H store0 -> (mode = MCopy -> src_ok H src) ->
  let s := run (bstep H mode jobs src fault true) sched (binit store0 nw) in
  bfinal s = true -> bulk_result s = RNil ->
  forall k, k < njobs jobs ->
    exists b, lookup (b_store s) (jid H mode jobs k) = Some b /\ H b = jid H mode jobs k.
Proof. exact bulk_cancel_complete. Qed.
Print Assumptions C06_cancel_complete.

(* ... and with context-bound stores (Model/CtxBound.v: a request in flight when the context is cancelled, and
   every later one, fails): success still means complete. *)
Theorem C06_ctxbound_complete : forall H mode jobs src fault can_cancel store0 nw sched,
  store_ok H store0 -> (mode = MCopy -> src_ok H src) ->
  let s := run (cb_step H mode jobs src fault can_cancel) sched (binit store0 nw) in
  bfinal s = true -> bulk_result s = RNil ->
  forall k, k < njobs jobs ->
    exists b, lookup (b_store s) (jid H mode jobs k) = Some b /\ H b = jid H mode jobs k.
Proof. exact cb_complete. Qed.
Print Assumptions C06_ctxbound_complete.

(* IndexFromFile (make) under cancellation, on the abstraction of Model/MakeCancel.v ([stop_at i] = the
   chunks worker i emits when it is not interrupted, C02's subject): nil => every bucket that went into
   the index is its worker's complete bucket and the collector stopped on coverage or after the last
   worker; for every schedule, worker count and cancellation point. *)
Theorem C06_make_cancel_sound : forall stop_at need can_cancel nw sched,
  let s := run (mstep stop_at need true can_cancel) sched (minit nw) in
  m_res s = Some RNil ->
  (forall k, k < length (m_got s) -> nth k (m_got s) 0 = stop_at k) /\
  (need <= fold_right plus 0 (m_got s) \/ nw <= length (m_got s)).
Proof. exact make_cancel_sound. Qed.
Print Assumptions C06_make_cancel_sound.

(* ... and the variant in which the interrupted worker does not set c.err (seeded mutant C06-2) is refuted:
   nil with an empty index, where the code as it is returns Interrupted. *)
Theorem C06_make_noerr_refuted : forall stop_at need, 0 < stop_at 0 -> 0 < need ->
  exists nw sched,
    let s := run (mstep stop_at need false true) sched (minit nw) in
    m_res s = Some RNil /\ m_got s = [0] /\
    m_res (run (mstep stop_at need true true) sched (minit nw)) = Some RInterrupted.
Proof. exact make_noerr_refuted. Qed.
Print Assumptions C06_make_noerr_refuted.

(* Without any premise: nil => every chunk of the index is present in the target. *)
Theorem C06_bulk_complete_present : forall H mode jobs src fault can_cancel store0 nw sched,
  let s := run (bstep H mode jobs src fault can_cancel) sched (binit store0 nw) in
  bfinal s = true -> bulk_result s = RNil ->
  forall k, k < njobs jobs -> has (b_store s) (jid H mode jobs k) = true.
Proof. exact bulk_complete_present. Qed.
Print Assumptions C06_bulk_complete_present.

(* An injected store fault that was delivered to a worker is reported: the racing duplicate that
   returned nil early does not mask the owner's error. *)
Theorem C06_bulk_fail_reported : forall H mode jobs src fault can_cancel store0 nw sched,
  let s := run (bstep H mode jobs src fault can_cancel) sched (binit store0 nw) in
  bfinal s = true -> 0 < b_hits s -> bulk_result s = RErr.
Proof. exact bulk_fail_reported. Qed.
Print Assumptions C06_bulk_fail_reported.

(* ChunkStream (make via tar -i, cat | make): after nil the index rows are exactly the hashes of the
   chunks cut by the chunker, in order. *)
Theorem C06_stream_index_exact : forall H jobs src fault can_cancel store0 nw sched,
  let s := run (bstep H MStream jobs src fault can_cancel) sched (binit store0 nw) in
  bfinal s = true -> bulk_result s = RNil ->
  stream_index jobs s = map (fun j => Some (H (snd j))) jobs.
Proof. exact stream_index_exact. Qed.
Print Assumptions C06_stream_index_exact.

(* Conversely an error always has a cause (an injected fault, a row whose bytes no longer hash to its
   id, a chunk missing from the source), and without faults, invalid jobs and cancellation every
   schedule ends in nil: the model does not fail spuriously. *)
Theorem C06_bulk_err_has_cause : forall H mode jobs src fault can_cancel store0 nw sched,
  let s := run (bstep H mode jobs src fault can_cancel) sched (binit store0 nw) in
  bulk_result s = RErr ->
  (exists o n, fault o n = true) \/ (exists k, k < njobs jobs /\ job_bad H mode jobs src k).
Proof. exact bulk_err_has_cause. Qed.
Print Assumptions C06_bulk_err_has_cause.

Theorem C06_bulk_no_fault_nil : forall H mode jobs src fault store0 nw sched,
  (forall o n, fault o n = false) ->
  (forall k, k < njobs jobs -> ~ job_bad H mode jobs src k) ->
  let s := run (bstep H mode jobs src fault false) sched (binit store0 nw) in
  bfinal s = true -> bulk_result s = RNil.
Proof. exact bulk_no_fault_nil. Qed.
Print Assumptions C06_bulk_no_fault_nil.

(* The bulk writers cannot get stuck and terminate: as long as the feeder or a worker has not returned
   some thread can step (whatever faults and cancellations happened), and every enabled step
   decreases a measure, so every run of enabled steps is at most [bmu init] long. *)
Theorem C06_bulk_deadlock_free : forall H mode jobs src fault can_cancel store0 nw sched,
  let s := run (bstep H mode jobs src fault can_cancel) sched (binit store0 nw) in
  0 < nw -> bfinal s = false -> exists t, bstep H mode jobs src fault can_cancel s t <> None.
Proof. exact bulk_deadlock_free. Qed.
Print Assumptions C06_bulk_deadlock_free.

Theorem C06_bulk_terminates : forall H mode jobs src fault can_cancel store0 nw sched s',
  run_strict (bstep H mode jobs src fault can_cancel) sched (binit store0 nw) = Some s' ->
  length sched <= bmu jobs (binit store0 nw).
Proof. exact bulk_terminates. Qed.
Print Assumptions C06_bulk_terminates.

(* ChunkStorage used directly with retries (no errgroup): a failed ws.StoreChunk unmarks the id,
   so the retry stores the chunk (before and after the fix of the HasChunk path) ... *)
Theorem C06_retry_after_store_error : forall fixed proc st i b,
  memN i proc = false -> has st i = false ->
  let '(r1, proc1, st1) := cs_store_seq fixed proc st i b false true in
  let '(r2, proc2, st2) := cs_store_seq fixed proc1 st1 i b false false in
  r1 = false /\ r2 = true /\ has st2 i = true.
Proof. exact cs_retry_after_store_error. Qed.
Print Assumptions C06_retry_after_store_error.

(* ... and so does a failed ws.HasChunk in the current code (the deferred unmark precedes the call). *)
Theorem C06_retry_after_has_error : forall proc st i b,
  memN i proc = false -> has st i = false ->
  let '(r1, proc1, st1) := cs_store_seq true proc st i b true false in
  let '(r2, proc2, st2) := cs_store_seq true proc1 st1 i b false false in
  r1 = false /\ r2 = true /\ has st2 i = true.
Proof. exact cs_retry_after_has_error. Qed.
Print Assumptions C06_retry_after_has_error.

(* Before "fix: ChunkStorage unmarks a chunk when checking the store for it fails" the id stayed
   marked: the retry returned nil and nothing was stored (finding
   chunkstorage/retry-after-haschunk-error-skips-store, reproduced on the code with the fix reverted). *)
Theorem C06_retry_after_has_error_refuted :
  exists proc st i b,
    let '(r1, proc1, st1) := cs_store_seq false proc st i b true false in
    let '(r2, proc2, st2) := cs_store_seq false proc1 st1 i b false false in
    r1 = false /\ r2 = true /\ has st2 i = false.
Proof. exact cs_retry_after_has_error_prefix_refuted. Qed.
Print Assumptions C06_retry_after_has_error_refuted.

(* Faults outside the chunk store (Model/StreamIO.v).
   SOURCE: a read error that the chunker reports before the end of the stream makes ChunkStream fail (no index),
   also when it comes together with an empty chunk; nil means the jobs are exactly the chunks before the first
   empty, error-free result. *)
Theorem C06_source_error_reported : forall pre r post acc,
  Forall (fun x => nr_err x = false /\ 0 < nr_len x) pre -> nr_err r = true ->
  cs_feed true (pre ++ r :: post) acc = FErr.
Proof. exact cs_source_error_reported. Qed.
Print Assumptions C06_source_error_reported.

Theorem C06_source_nil_complete : forall rs acc jobs,
  cs_feed true rs acc = FNil jobs ->
  exists pre post, rs = pre ++ post /\ jobs = rev acc ++ map nr_len pre /\
                   Forall (fun x => nr_err x = false /\ 0 < nr_len x) pre /\
                   (post = [] \/ exists r q, post = r :: q /\ nr_err r = false /\ nr_len r = 0).
Proof. exact cs_nil_complete. Qed.
Print Assumptions C06_source_nil_complete.

Theorem C06_source_mutant_refuted :
  exists rs, cs_feed false rs [] = FNil [] /\ cs_feed true rs [] = FErr.
Proof. exact cs_feed_mutant_refuted. Qed.
Print Assumptions C06_source_mutant_refuted.

(* SINK: Index.WriteTo returns no error iff every write to the sink succeeded (n_mid writes while encoding plus
   the final Flush); with the Flush result dropped an index of up to 99 chunks is "written" to a failing sink. *)
Theorem C06_sink_error_reported : forall n_mid ok,
  write_to true n_mid ok = false <-> forall k, k <= n_mid -> ok k = true.
Proof. exact write_to_sound. Qed.
Print Assumptions C06_sink_error_reported.

Theorem C06_sink_mutant_refuted :
  exists ok, write_to false 0 ok = false /\ ok 0 = false /\ write_to true 0 ok = true.
Proof. exact write_to_mutant_refuted. Qed.
Print Assumptions C06_sink_mutant_refuted.

Theorem C06_index_fits_buffer : index_bytes 99 <= 4096 /\ 4096 < index_bytes 100.
Proof. exact index_fits_buffer. Qed.
Print Assumptions C06_index_fits_buffer.

(* tar -i: exit 0 => ChunkStream, the Tar goroutine and the index store all succeeded. *)
Theorem C06_run_tar_sound : forall cs_err tar_err sink_err,
  run_tar true cs_err tar_err sink_err = false -> cs_err = false /\ tar_err = false /\ sink_err = false.
Proof. exact run_tar_sound. Qed.
Print Assumptions C06_run_tar_sound.

(* ---- Non-vacuity ---- *)
Definition ex_H (b : bytes) : id := fold_right N.add 0%N b.
Definition ex_jobs : list (id * bytes) := [(3%N, [1; 2]%N); (3%N, [1; 2]%N); (7%N, [3; 4]%N)].
Definition no_fault (o : op_kind) (n : nat) : bool := false.
Definition first_store_fails (o : op_kind) (n : nat) : bool :=
  match o, n with OpStore, 0 => true | _, _ => false end.

(* two workers race on the duplicate id 3: worker 1 returns nil early (markProcessed = true) while
   worker 0, the owner, has not stored yet; worker 0's StoreChunk then fails, the id is unmarked and the
   error reaches the group: the result is an error, the store is empty. *)
Definition ex_race_sched : list btid :=
  [BWorker 0; BWorker 0; BWorker 0;      (* w0: take job 0, read+check, mark (owner) *)
   BWorker 1; BWorker 1; BWorker 1;      (* w1: take job 1, read+check, mark: already marked -> nil *)
   BWorker 0; BWorker 0; BWorker 0; BWorker 0;   (* w0: HasChunk (absent), StoreChunk FAILS, unmark, return err *)
   BFeeder; BWorker 1].                  (* feeder sees ctx.Done, leaves; w1 exits *)
Example C06_example_race_masked_not :
  let s := run (bstep ex_H MChop ex_jobs (fun _ => None) first_store_fails false) ex_race_sched (binit [] 2) in
  bfinal s = true /\ bulk_result s = RErr /\ b_done s = [1] /\ b_store s = [] /\ b_proc s = [] /\ b_hits s = 1.
Proof. vm_compute. repeat split; reflexivity. Qed.

(* the same schedule prefix without the fault ends in nil with both ids stored *)
Example C06_example_nil :
  let s := run_rr ex_H MChop ex_jobs (fun _ => None) no_fault false 100 2 (binit [] 2) in
  bfinal s = true /\ bulk_result s = RNil /\ has (b_store s) 3%N = true /\ has (b_store s) 7%N = true /\ b_hits s = 0.
Proof. vm_compute. repeat split; reflexivity. Qed.

(* a row whose bytes do not hash to its id (readChunkFromFile's check) is an error *)
Example C06_example_bad_row :
  let s := run_rr ex_H MChop [(4%N, [1; 2]%N)] (fun _ => None) no_fault false 100 1 (binit [] 1) in
  bfinal s = true /\ bulk_result s = RErr /\ b_store s = [].
Proof. vm_compute. repeat split; reflexivity. Qed.

(* copy: HasChunk -> GetChunk -> StoreChunk; a chunk missing from the source is an error *)
Example C06_example_copy :
  let src := fun i => if N.eqb i 3%N then Some [1; 2]%N else None in
  let s := run_rr ex_H MCopy [(3%N, []); (3%N, [])] src no_fault false 100 2 (binit [] 2) in
  let s' := run_rr ex_H MCopy [(3%N, []); (9%N, [])] src no_fault false 100 2 (binit [] 2) in
  (bfinal s = true /\ bulk_result s = RNil /\ lookup (b_store s) 3%N = Some [1; 2]%N) /\
  (bfinal s' = true /\ bulk_result s' = RErr).
Proof. vm_compute. repeat split; reflexivity. Qed.

(* stream: the index rows *)
Example C06_example_stream :
  let s := run_rr ex_H MStream ex_jobs (fun _ => None) no_fault false 100 2 (binit [] 2) in
  bfinal s = true /\ bulk_result s = RNil /\ stream_index ex_jobs s = [Some 3; Some 3; Some 7]%N.
Proof. vm_compute. repeat split; reflexivity. Qed.

(* cancel after the feeder handed out the last id, while both downloads are in flight: the workers finish,
   nobody reports Interrupted, the result is nil -- and complete *)
Example C06_example_cancel_after_last_handout :
  let src := fun i => if N.eqb i 3%N then Some [1; 2]%N else if N.eqb i 7%N then Some [3; 4]%N else None in
  let s := run (bstep ex_H MCopy [(3%N, []); (7%N, [])] src no_fault true)
             [BWorker 0; BWorker 1; BFeeder; BCancel;
              BWorker 0; BWorker 0; BWorker 0; BWorker 1; BWorker 1; BWorker 1; BWorker 0; BWorker 1] (binit [] 2) in
  bfinal s = true /\ b_ext s = true /\ bulk_result s = RNil /\ has (b_store s) 3%N = true /\ has (b_store s) 7%N = true.
Proof. vm_compute. repeat split; reflexivity. Qed.
