(* C08 oracle commands: the operation list of StoreChunk (Model/LocalStore.store_ops) and the set of
   states reachable by the small-step writers of Model/StoreCrash.v (= the crash states). *)
open Conv
open Fsconv

let op_string (o : FS.op) : string = match o with
  | FS.OpEnsureDir p -> "ensuredir:" ^ path_string p
  | FS.OpMkdir p -> "mkdir:" ^ path_string p
  | FS.OpCreateExcl p -> "create_excl:" ^ path_string p
  | FS.OpWrite (p, b) -> "write:" ^ path_string p ^ ":" ^ string_of_int (Stdlib.List.length b)
  | FS.OpClose p -> "close:" ^ path_string p
  | FS.OpRename (a, b) -> "rename:" ^ path_string a ^ ">" ^ path_string b
  | FS.OpUnlink p -> "unlink:" ^ path_string p
  | FS.OpRmdir p -> "rmdir:" ^ path_string p

let pc_string (pc : StoreCrash.wpc) : string = match pc with
  | StoreCrash.PcEnsure l -> "E" ^ string_of_int (Stdlib.List.length l)
  | StoreCrash.PcCreate l -> "C" ^ string_of_int (Stdlib.List.length l)
  | StoreCrash.PcWrite (_, w) -> "W" ^ string_of_int (int_of_nat w)
  | StoreCrash.PcClose _ -> "L"
  | StoreCrash.PcRename _ -> "R"
  | StoreCrash.PcFailClose _ -> "FL"
  | StoreCrash.PcFailRemove _ -> "FR"
  | StoreCrash.PcDone None -> "D"
  | StoreCrash.PcDone (Some _) -> "X"

(* writers: "unc:idhex:rhex:objhex" separated by ',' *)
let parse_writers (arg : string) : StoreCrash.wdata array =
  Array.of_list (Stdlib.List.map (fun w -> match Stdlib.String.split_on_char ':' w with
    | [unc; idh; r; obj] ->
        { StoreCrash.wd_unc = bool_arg unc; wd_id = Sha256.id_of_hex idh; wd_obj = bytes_of_hex obj;
          wd_cands = [bytes_of_hex r] }
    | _ -> failwith "writer") (split_on ',' arg))

let register () =
  (* ops <unc> <idhex> <hex(r)> <hex(obj)> -> the op list of one fault-free StoreChunk, base "s" *)
  Drv.register "c08.ops" (fun args -> match args with
    | [unc; idh; r; obj] ->
        let st = { LocalStore.st_base = split_path "s"; st_unc = bool_arg unc; st_skip = false } in
        let ops = LocalStore.store_ops st (Sha256.id_of_hex idh) (bytes_of_hex r) (bytes_of_hex obj) in
        Stdlib.String.concat "," (Stdlib.List.map op_string ops)
    | _ -> "ERR args");
  (* reach <writers> <tree> -> every tree reachable under any schedule (incl. partial and failing writes),
     separated by '|'; then the trees in which every
     writer has returned nil, then those in which every writer has returned and at least one failed; base "s" *)
  Drv.register "c08.reach" (fun args -> match args with
    | [ws; tree] ->
        let wa = parse_writers ws in
        let n = Array.length wa in
        let dummy = { StoreCrash.wd_unc = true; wd_id = BinNums.N0; wd_obj = []; wd_cands = [] } in
        let wd (i : Datatypes.nat) = let k = int_of_nat i in if k < n then wa.(k) else dummy in
        let base = split_path "s" in
        let maxlen = Array.fold_left (fun m w -> max m (Stdlib.List.length w.StoreCrash.wd_obj)) 0 wa in
        (* one byte at a time reaches every prefix length; all at once is the common case *)
        let actions = [StoreCrash.AFail; StoreCrash.ANext (nat_of_int 0); StoreCrash.ANext (nat_of_int maxlen)] in
        let key (fs, pcs) =
          print_fs fs ^ "#" ^ Stdlib.String.concat "," (Stdlib.List.init n (fun i -> pc_string (pcs (nat_of_int i)))) in
        let seen = Hashtbl.create 256 and trees = Hashtbl.create 256 in
        let oks = Hashtbl.create 16 and errs = Hashtbl.create 16 in
        let todo = Queue.create () in
        let push s = let k = key s in
          if not (Hashtbl.mem seen k) then begin
            let t = print_fs (fst s) in
            let pcs = Stdlib.List.init n (fun i -> pc_string (snd s (nat_of_int i))) in
            if Stdlib.List.for_all (fun p -> p = "D") pcs then Hashtbl.replace oks t ()
            else if Stdlib.List.for_all (fun p -> p = "D" || p = "X") pcs then Hashtbl.replace errs t ();
            Hashtbl.replace seen k (); Hashtbl.replace trees t (); Queue.add s todo end in
        push (StoreCrash.init base wd (parse_fs tree));
        while not (Queue.is_empty todo) do
          let s = Queue.pop todo in
          for i = 0 to n - 1 do
            Stdlib.List.iter (fun a -> match StoreCrash.step base wd s (nat_of_int i, a) with
              | Some s' -> push s' | None -> ()) actions
          done
        done;
        let dump h = let l = Hashtbl.fold (fun k () acc -> k :: acc) h [] in
          if l = [] then "none" else Stdlib.String.concat "|" l in
        dump trees ^ " " ^ dump oks ^ " " ^ dump errs
    | _ -> "ERR args")
