(* C11 oracle commands: sequential store-chain model (Model/Chains.v)

   c11.run <members> <ngroups> <top> <ops>  ->  <results>|<log>|<final contents>
     members : ';'-separated  content/faults/default
               content = ','-separated id:tag:valid(0|1), '_' if empty
               faults  = string over n(one) e(rr) m(issing) i(nvalid), '_' if empty; default = one such char
     top     : N=<stack> (no swap wrapper) | S=<stack> (SwapStore) | W=<stack> (SwapWriteStore)
     stack   : L<k> | O<k> | R[s,...] | C[s,l] | P[l] | F<g>[s,...] | D[s] | Q[s]
     ops     : '+'-separated  g<id> | h<id> | s<id>:<tag> | x | w=<stack> ; '_' if none
     results : '+'-separated  G<tag|_>:<e> | H<0|1>:<e> | S:<e> | SX | W0 | W1 | X
               e = n | m | M (wrapped missing) | i | I (wrapped invalid) | o
     log     : ','-separated  <member><g|h|s|x><id>[.<tag>][!]   ('!' = the member was closed) ; '_' if empty
     final contents : ';'-separated per member, ','-separated id:tag[!]  ('!' = invalid object), '_' if empty *)
open Conv
open Chains

let fault_of_char = function
  | 'n' -> FNone | 'e' -> FErr | 'm' -> FMissing | 'i' -> FInvalid
  | c -> failwith (Printf.sprintf "bad fault %c" c)

let nat_s s = nat_of_int (int_of_string s)

let parse_member (s : string) : member =
  match Stdlib.String.split_on_char '/' s with
  | [c; f; d] ->
      let content =
        if c = "_" then [] else
          Stdlib.List.map (fun e -> match Stdlib.String.split_on_char ':' e with
              | [i; t; v] -> (nat_s i, (nat_s t, v = "1"))
              | _ -> failwith "content") (Stdlib.String.split_on_char ',' c) in
      let faults = if f = "_" then [] else Stdlib.List.init (Stdlib.String.length f) (fun k -> fault_of_char f.[k]) in
      init_member content faults (fault_of_char d.[0])
  | _ -> failwith "member"

(* recursive-descent parser for stacks *)
let parse_stack (s : string) : stack =
  let n = Stdlib.String.length s in
  let pos = ref 0 in
  let peek () = if !pos < n then s.[!pos] else '\000' in
  let adv () = incr pos in
  let number () =
    let st = !pos in
    while !pos < n && s.[!pos] >= '0' && s.[!pos] <= '9' do adv () done;
    if !pos = st then failwith "number expected";
    nat_of_int (int_of_string (Stdlib.String.sub s st (!pos - st))) in
  let expect c = if peek () <> c then failwith (Printf.sprintf "expected %c at %d in %s" c !pos s) else adv () in
  let rec stack () =
    let c = peek () in adv ();
    match c with
    | 'L' -> Leaf (number ())
    | 'O' -> LeafRO (number ())
    | 'R' -> Router (lst ())
    | 'C' -> (match lst () with [a; b] -> Cache (a, b) | _ -> failwith "C arity")
    | 'P' -> (match lst () with [a] -> Repairable a | _ -> failwith "P arity")
    | 'F' -> let g = number () in Failover (g, lst ())
    | 'D' -> (match lst () with [a] -> Dedup a | _ -> failwith "D arity")
    | 'Q' -> (match lst () with [a] -> WDedup a | _ -> failwith "Q arity")
    | _ -> failwith (Printf.sprintf "bad stack at %d in %s" !pos s)
  and lst () =
    expect '[';
    if peek () = ']' then (adv (); []) else begin
      let acc = ref [stack ()] in
      while peek () = ',' do adv (); acc := stack () :: !acc done;
      expect ']';
      Stdlib.List.rev !acc
    end in
  let r = stack () in
  if !pos <> n then failwith ("trailing input in stack " ^ s);
  r

let parse_top (s : string) : top =
  let m = match s.[0] with 'N' -> MPlain | 'S' -> MSwapRO | 'W' -> MSwapRW | _ -> failwith "mode" in
  { t_mode = m; t_cur = parse_stack (Stdlib.String.sub s 2 (Stdlib.String.length s - 2)) }

let parse_op (s : string) : opn =
  let rest = Stdlib.String.sub s 1 (Stdlib.String.length s - 1) in
  match s.[0] with
  | 'g' -> OGet (nat_s rest)
  | 'h' -> OHas (nat_s rest)
  | 's' -> (match Stdlib.String.split_on_char ':' rest with [i; t] -> OStore (nat_s i, nat_s t) | _ -> failwith "store op")
  | 'x' -> OClose
  | 'w' -> OSwap (parse_stack (Stdlib.String.sub s 2 (Stdlib.String.length s - 2)))
  | _ -> failwith ("bad op " ^ s)

let err_s = function
  | ENil -> "n" | EMissing false -> "m" | EMissing true -> "M"
  | EInvalid false -> "i" | EInvalid true -> "I" | EOther -> "o"

let res_s = function
  | RGet (c, e) -> "G" ^ (match c with Some t -> string_of_int (int_of_nat t) | None -> "_") ^ ":" ^ err_s e
  | RHas (b, e) -> "H" ^ (if b then "1" else "0") ^ ":" ^ err_s e
  | RStore e -> "S:" ^ err_s e
  | RNotWritable -> "SX"
  | RSwap b -> if b then "W1" else "W0"
  | RClose -> "X"

let ev_s (e : ev) =
  let m = string_of_int (int_of_nat e.ev_member) and i = string_of_int (int_of_nat e.ev_id) in
  let body = match e.ev_op with
    | KGet -> m ^ "g" ^ i
    | KHas -> m ^ "h" ^ i
    | KStore t -> m ^ "s" ^ i ^ "." ^ string_of_int (int_of_nat t)
    | KClose -> m ^ "x" ^ i in
  if e.ev_closed then body ^ "!" else body

let join sep = function [] -> "_" | l -> Stdlib.String.concat sep l

let register () =
  Drv.register "c11.run" (fun args -> match args with
    | [ms; ng; tp; ops] ->
        let members = if ms = "_" then [] else Stdlib.List.map parse_member (Stdlib.String.split_on_char ';' ms) in
        let ops = if ops = "_" then [] else Stdlib.List.map parse_op (Stdlib.String.split_on_char '+' ops) in
        let ((rs, lg), w) = run_chain members (nat_s ng) (parse_top tp) ops in
        (* final contents: per member the ids 0..15 it holds, '!' marks an invalid object, with the data copy *)
        let content (m : member) =
          join "," (Stdlib.List.filter_map (fun i ->
              match lookup m.m_content (nat_of_int i) with
              | Some (t, v) -> Some (string_of_int i ^ ":" ^ string_of_int (int_of_nat t) ^ (if v then "" else "!"))
              | None -> None) (Stdlib.List.init 16 (fun i -> i))) in
        join "+" (Stdlib.List.map res_s rs) ^ "|" ^ join "," (Stdlib.List.map ev_s lg)
        ^ "|" ^ join ";" (Stdlib.List.map content w.members)
    | _ -> "ERR args")
