(* C14 oracle commands.  Scripts of server behaviour are comma lists of tokens:
   s<code>[:<bodyhex>]  a complete response, T a transport error, B a body that breaks off.
   Beyond the end of the list the script continues with transport errors (the harness never
   lets the client get that far).  zstd / index codec: finite tables as in drv_c15.ml. *)
open Conv
open HTTPServer
open HTTPClient

let script_of (s : string) : Datatypes.nat -> resp_ev =
  let toks = Array.of_list (split_on ',' s) in
  let ev t =
    if t = "T" then TransportErr else if t = "B" then ShortBody
    else match Stdlib.String.split_on_char ':' t with
      | [c] -> Status (n_of_string (Stdlib.String.sub c 1 (Stdlib.String.length c - 1)), [])
      | [c; b] -> Status (n_of_string (Stdlib.String.sub c 1 (Stdlib.String.length c - 1)), bytes_of_hex b)
      | _ -> failwith "script token" in
  fun k -> let i = int_of_nat k in if i < Array.length toks then ev toks.(i) else TransportErr

let files_of s = Stdlib.List.map (fun kv -> match Stdlib.String.split_on_char ':' kv with
    | [k; v] -> (Sha256.id_of_hex k, bytes_of_hex v) | _ -> failwith "files") (split_on ',' s)

let files_str fl =
  let out = Stdlib.List.sort compare (Stdlib.List.map (fun (i, b) -> Drv_c15.id_hex i ^ ":" ^ hex_of_bytes b) fl) in
  if out = [] then "-" else Stdlib.String.concat "," out

let cfg_of auth wr svw comp swr =
  { c_auth = bytes_of_hex auth; c_writable = Drv_c15.bool_of wr; c_skip_verify_write = Drv_c15.bool_of svw;
    c_compressed = Drv_c15.bool_of comp; c_store_writable = Drv_c15.bool_of swr }

let dir_of dir = Stdlib.List.map (fun e -> match Stdlib.String.split_on_char ':' e with
    | [n; "D"] -> (bytes_of_hex n, DDir)
    | [n; "E"] -> (bytes_of_hex n, DErr)
    | [n; "F"; v] -> (bytes_of_hex n, DFile (bytes_of_hex v))
    | _ -> failwith "dir") (split_on ',' dir)

let dir_str d =
  let out = Stdlib.List.sort compare (Stdlib.List.map (fun (n, e) -> match e with
      | DDir -> hex_of_bytes n ^ ":D" | DErr -> hex_of_bytes n ^ ":E" | DFile v -> hex_of_bytes n ^ ":F:" ^ hex_of_bytes v) d) in
  if out = [] then "-" else Stdlib.String.concat "," out

let register () =
  (* ---- the retry loop and status mapping against a scripted server ---- *)
  (* c14.getchunk <budget> <idhex> <script>  (uncompressed client, verification on, H = SHA-256)
     -> data:<hex>|missing|error <attempts> *)
  Drv.register "c14.getchunk" (fun a -> match a with
    | [budget; id; script] ->
        let zd = (fun _ -> None) in
        let (r, n) = get_chunk Sha256.h_model zd (n_of_string budget) true false (Sha256.id_of_hex id) (script_of script) in
        (match r with
         | CData c -> (match chunk_data zd c with Some d -> "data:" ^ hex_of_bytes d | None -> "data:?")
         | CMissing -> "missing" | CErr -> "error") ^ " " ^ string_of_n n
    | _ -> "ERR args");
  Drv.register "c14.getobject" (fun a -> match a with
    | [budget; script] ->
        let (r, n) = get_object (n_of_string budget) (script_of script) in
        (match r with ObjData b -> "data:" ^ hex_of_bytes b | ObjMissing -> "missing" | ObjErr -> "error") ^ " " ^ string_of_n n
    | _ -> "ERR args");
  Drv.register "c14.haschunk" (fun a -> match a with
    | [budget; script] ->
        let (r, n) = has_chunk (n_of_string budget) (script_of script) in
        (match r with HasTrue -> "true" | HasFalse -> "false" | HasErr -> "error") ^ " " ^ string_of_n n
    | _ -> "ERR args");
  Drv.register "c14.storeobject" (fun a -> match a with
    | [budget; script] ->
        let (r, n) = store_object (n_of_string budget) (script_of script) in
        (if r then "ok" else "error") ^ " " ^ string_of_n n
    | _ -> "ERR args");

  (* c14.putlog <budget> <payloadhex> <script> -> ok|error <attempts> <body,body,...> <server object hex | NONE>
     StoreIndex / StoreChunk: the body of every request sent and what a body-keeping server holds *)
  Drv.register "c14.putlog" (fun a -> match a with
    | [budget; payload; script] ->
        let rs = script_of script in
        let ((ok, n), bodies) = store_payload_log (n_of_string budget) (bytes_of_hex payload) rs in
        let obj = stored_after rs Datatypes.O bodies None in
        Printf.sprintf "%s %s %s %s" (if ok then "ok" else "error") (string_of_n n)
          (Stdlib.String.concat "," (Stdlib.List.map hex_of_bytes bodies))
          (match obj with Some b -> hex_of_bytes b | None -> "NONE")
    | _ -> "ERR args");

  (* c14.upstream <op head|get|put> <budget> <yes|no|fail> : a chunk server whose upstream answers like this
     -> client result class and number of requests *)
  Drv.register "c14.upstream" (fun a -> match a with
    | [op; budget; u] ->
        let b = n_of_string budget in
        (match op with
         | "head" ->
             let hr = (match u with "yes" -> HasYes | "no" -> HasNo | _ -> HasFail) in
             let (r, n) = has_chunk b (const_script (handler_head hr)) in
             (match r with HasTrue -> "true" | HasFalse -> "false" | HasErr -> "error") ^ " " ^ string_of_n n
         | "get" ->
             let gr = (match u with "no" -> GMissing | _ -> GFail) in
             let zd = (fun _ -> None) and zc = (fun x -> x) in
             let (r, n) = get_chunk Sha256.h_model zd b true false zero_id (const_script (handler_get zc zd [] gr)) in
             (match r with CData _ -> "data" | CMissing -> "missing" | CErr -> "error") ^ " " ^ string_of_n n
         | _ ->
             let (r, n) = store_object b (const_script (resp (n_of_int 500) [])) in
             (if r then "ok" else "error") ^ " " ^ string_of_n n)
    | _ -> "ERR args");

  (* ---- client + chunk server + local store ----
     c14.remote <op get|has|put> <budget> <cli_uncompressed> <cli_skip> <auth> <writable> <skipverifywrite> <srv_compressed>
                <store_uncompressed> <store_skip> <idhex> <datahex (put)> <files> <zdecomp tab> <zcomp tab>
     -> get: data:<hex>|missing|error <attempts> ; has: true|false|error <attempts> ; put: ok|error <attempts> <files'> *)
  Drv.register "c14.remote" (fun a -> match a with
    | [op; budget; cunc; cskip; auth; wr; svw; comp; sunc; ssv; id; data; files; ztab; ctab] ->
        let zd = Drv_c15.partial_of "zdecomp" (Drv_c15.parse_tab ztab) and zc = Drv_c15.total_of "zcomp" (Drv_c15.parse_tab ctab) in
        let c = cfg_of auth wr svw comp "1" in
        let s = { ls_files = files_of files; ls_uncompressed = Drv_c15.bool_of sunc; ls_skip_verify = Drv_c15.bool_of ssv } in
        let ib = bytes_of_hex id and b = n_of_string budget and h = Sha256.h_model in
        (try (match op with
          | "get" ->
              let (r, n) = remote_get_chunk h zc zd b (Drv_c15.bool_of cunc) (Drv_c15.bool_of cskip) (bytes_of_hex auth) c s ib in
              (match r with
               | CData ch -> (match chunk_data zd ch with Some d -> "data:" ^ hex_of_bytes d | None -> "data:?")
               | CMissing -> "missing" | CErr -> "error") ^ " " ^ string_of_n n
          | "has" ->
              let (r, n) = remote_has_chunk h zc zd b (Drv_c15.bool_of cunc) (bytes_of_hex auth) c s ib in
              (match r with HasTrue -> "true" | HasFalse -> "false" | HasErr -> "error") ^ " " ^ string_of_n n
          | "put" ->
              (* desync.NewChunk(data): plain data, id computed on demand *)
              let ch = { ch_data = bytes_of_hex data; ch_storage = []; ch_conv = []; ch_id = zero_id; ch_idcalc = false } in
              let ((r, n), s') = remote_store_chunk h zc zd b (Drv_c15.bool_of cunc) (bytes_of_hex auth) c s ib ch in
              (if r then "ok" else "error") ^ " " ^ string_of_n n ^ " " ^ files_str s'.ls_files
          | _ -> "ERR op")
        with Drv_c15.Table_miss w -> "ERR table miss " ^ w)
    | _ -> "ERR args");

  (* ---- client + index server + local index store ----
     c14.remoteindex <op get|head|put> <budget> <auth> <writable> <name> <body (put: encoded index)> <dir> <codec tab>
     -> get: data:<canonical hex>|missing|error <n> ; head: true|false|error <n> ; put: ok|error <n> <dir'> *)
  Drv.register "c14.remoteindex" (fun a -> match a with
    | [op; budget; auth; wr; name; body; dir; itab] ->
        let dec = Drv_c15.partial_of "idx_decode" (Drv_c15.parse_tab itab) and enc = (fun (x : BinNums.coq_N list) -> x) in
        let c = cfg_of auth wr "0" "0" "1" in
        let d = dir_of dir and b = n_of_string budget and nm = bytes_of_hex name in
        (try (match op with
          | "get" ->
              let (r, n) = remote_get_index dec enc b (bytes_of_hex auth) c d nm in
              (match r with IData ix -> "data:" ^ hex_of_bytes ix | IMissing -> "missing" | IErr -> "error") ^ " " ^ string_of_n n
          | "head" ->
              let (r, n) = remote_has_index dec enc b (bytes_of_hex auth) c d nm in
              (match r with HasTrue -> "true" | HasFalse -> "false" | HasErr -> "error") ^ " " ^ string_of_n n
          | "put" ->
              (match dec (bytes_of_hex body) with
               | None -> "ERR put body is not an index"
               | Some ix ->
                   let ((r, n), d') = remote_store_index dec enc b (bytes_of_hex auth) c d nm ix in
                   (if r then "ok" else "error") ^ " " ^ string_of_n n ^ " " ^ dir_str d')
          | _ -> "ERR op")
        with Drv_c15.Table_miss w -> "ERR table miss " ^ w)
    | _ -> "ERR args");

  (* c14.indexproxy <budget> <budget upstream> <script> <codec tab> -> data:<canonical hex>|missing|error <n> *)
  Drv.register "c14.indexproxy" (fun a -> match a with
    | [budget; bup; script; itab] ->
        let dec = Drv_c15.partial_of "idx_decode" (Drv_c15.parse_tab itab) and enc = (fun (x : BinNums.coq_N list) -> x) in
        (try
          let (r, n) = proxied_get_index dec enc (n_of_string budget) (n_of_string bup) (script_of script) in
          (match r with IData ix -> "data:" ^ hex_of_bytes ix | IMissing -> "missing" | IErr -> "error") ^ " " ^ string_of_n n
        with Drv_c15.Table_miss w -> "ERR table miss " ^ w)
    | _ -> "ERR args");

  (* ---- casync protocol framing ---- *)
  Drv.register "c14.writemsg" (fun a -> match a with
    | [t; body] -> hex_of_bytes (ProtocolSession.write_message { ProtocolSession.m_type = n_of_string t; ProtocolSession.m_body = bytes_of_hex body })
    | _ -> "ERR args");
  Drv.register "c14.readmsg" (fun a -> match a with
    | [stream] -> (match ProtocolSession.read_message (bytes_of_hex stream) with
        | ProtocolSession.RMsg (m, rest) -> Printf.sprintf "msg %s %s %s" (string_of_n m.ProtocolSession.m_type) (hex_of_bytes m.ProtocolSession.m_body) (hex_of_bytes rest)
        | ProtocolSession.RErr -> "error")
    | _ -> "ERR args");

  (* ---- one protocol session over a LocalStore: c14.session2 <store uncompressed> <store skip verify>
     <files id:filebytes,...> <failing ids> <requested ids> <zdecomp tab> <zcomp tab> ---- *)
  Drv.register "c14.session2" (fun a -> match a with
    | [unc; skip; files; failing; ids; ztab; ctab] ->
        let zd = Drv_c15.partial_of "zdecomp" (Drv_c15.parse_tab ztab) and zc = Drv_c15.total_of "zcomp" (Drv_c15.parse_tab ctab) in
        let ls = { ls_files = files_of files; ls_uncompressed = Drv_c15.bool_of unc; ls_skip_verify = Drv_c15.bool_of skip } in
        let fails = Stdlib.List.map Sha256.id_of_hex (split_on ',' failing) in
        let store i = if Stdlib.List.mem i fails then GFail else local_get Sha256.h_model zd ls i in
        (try
          let rs = ProtocolSession.session Sha256.h_model zc zd store (Stdlib.List.map Sha256.id_of_hex (split_on ',' ids)) in
          let out = Stdlib.List.map (fun r -> match r with
              | ProtocolSession.PData c -> (match chunk_data zd c with Some d -> "D:" ^ hex_of_bytes d | None -> "D:?")
              | ProtocolSession.PMissing -> "M" | ProtocolSession.PErr -> "E") rs in
          if out = [] then "-" else Stdlib.String.concat "," out
        with Drv_c15.Table_miss w -> "ERR table miss " ^ w)
    | _ -> "ERR args");

  (* ---- one protocol session: c14.session <present id:data,...> <failing ids> <requested ids> <zdecomp tab> <zcomp tab>
     -> per request D:<datahex> | M | E, comma separated ---- *)
  Drv.register "c14.session" (fun a -> match a with
    | [present; failing; ids; ztab; ctab] ->
        let zd = Drv_c15.partial_of "zdecomp" (Drv_c15.parse_tab ztab) and zc = Drv_c15.total_of "zcomp" (Drv_c15.parse_tab ctab) in
        let pres = files_of present and fails = Stdlib.List.map Sha256.id_of_hex (split_on ',' failing) in
        let store i =
          if Stdlib.List.mem i fails then GFail
          else match lookup i pres with
            | Some d -> GChunk { ch_data = d; ch_storage = []; ch_conv = []; ch_id = i; ch_idcalc = true }
            | None -> GMissing in
        (try
          let rs = ProtocolSession.session Sha256.h_model zc zd store (Stdlib.List.map Sha256.id_of_hex (split_on ',' ids)) in
          let out = Stdlib.List.map (fun r -> match r with
              | ProtocolSession.PData c -> (match chunk_data zd c with Some d -> "D:" ^ hex_of_bytes d | None -> "D:?")
              | ProtocolSession.PMissing -> "M" | ProtocolSession.PErr -> "E") rs in
          if out = [] then "-" else Stdlib.String.concat "," out
        with Drv_c15.Table_miss w -> "ERR table miss " ^ w)
    | _ -> "ERR args")
