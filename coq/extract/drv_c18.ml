(* C18 oracle commands *)
open Conv

(* element tokens, comma separated:
     E:<mode>:<uid>:<gid>:<mtime>  F:<hexname>  P:<hexdata>  S:<hextarget>  D:<major>:<minor>
     X:<hex name\000value>  G  O  U  B *)
let elem_of_token (t : string) : ArchiveNames.elem =
  match Stdlib.String.split_on_char ':' t with
  | ["E"; m; u; g; t] -> ArchiveNames.EEntry (n_of_string m, n_of_string u, n_of_string g, n_of_string t)
  | ["F"; n] -> ArchiveNames.EFilename (bytes_of_hex n)
  | ["P"; d] -> ArchiveNames.EPayload (bytes_of_hex d)
  | ["S"; d] -> ArchiveNames.ESymlink (bytes_of_hex d)
  | ["D"; a; b] -> ArchiveNames.EDevice (n_of_string a, n_of_string b)
  | ["X"; d] -> ArchiveNames.EXAttr (bytes_of_hex d)
  | ["G"] -> ArchiveNames.EGoodbye
  | ["O"] -> ArchiveNames.EOther
  | ["U"] -> ArchiveNames.EUnsupported
  | ["B"] -> ArchiveNames.EBad
  | _ -> failwith ("bad element token " ^ t)

(* initial file system, comma separated, parents first:  d:<hexpath>:<mode>  f:<hexpath>:<mode>:<hexdata>  l:<hexpath>:<hextarget> *)
let ent_of_token (t : string) =
  match Stdlib.String.split_on_char ':' t with
  | ["d"; p; m] -> (bytes_of_hex p, UntarIO.IDir (n_of_string m))
  | ["f"; p; m; d] -> (bytes_of_hex p, UntarIO.IFile (n_of_string m, bytes_of_hex d))
  | ["l"; p; d] -> (bytes_of_hex p, UntarIO.ILink (bytes_of_hex d))
  | _ -> failwith ("bad fs token " ^ t)

let policy_of = function
  | "prefix" -> ArchiveNames.PreFix
  | "fix1" -> ArchiveNames.Fix1
  | "fix2" -> ArchiveNames.Fix2
  | "fixed" -> ArchiveNames.Fixed
  | s -> failwith ("bad policy " ^ s)

let meta_s (m : FS.meta) =
  string_of_n m.FS.m_mode ^ ":" ^ string_of_n m.FS.m_uid ^ ":" ^ string_of_n m.FS.m_gid ^ ":" ^ string_of_n m.FS.m_mtime

let register () =
  (* c18.untar <policy> <no_same_owner><no_same_perms> <hexroot> <fs> <elems>
       -> <done|decode-error|write-error|fuel> <touched hexpaths,> <final listing,>
     listing entries: d:<hexpath>:<mode>:<uid>:<gid>:<mtime>  f:<hexpath>:<mode>:<uid>:<gid>:<mtime>:<hexdata>
                      l:<hexpath>:<uid>:<gid>:<mtime>:<hextarget> *)
  Drv.register "c18.untar" (fun args -> match args with
    | [pol; o; root; fs; elems] ->
        let o = { Untar.no_same_owner = (o.[0] = '1'); Untar.no_same_perms = (o.[1] = '1') } in
        let fs0 = UntarIO.build_fs (Stdlib.List.map ent_of_token (split_on ',' fs)) in
        let es = Stdlib.List.map elem_of_token (split_on ',' elems) in
        let (st, out) = Untar.untar (policy_of pol) o (bytes_of_hex root) es fs0 in
        let outs = (match out with
          | Untar.Done -> "done" | Untar.DecodeError -> "decode-error"
          | Untar.WriteError _ -> "write-error" | Untar.OutOfFuel -> "fuel") in
        let touched = Stdlib.List.map (fun p -> hex_of_bytes (UntarIO.str_of_path p)) st.Untar.w_touched in
        let touched = Stdlib.List.sort_uniq compare touched in
        let listing = Stdlib.List.map (fun (p, e) -> match e with
          | FS.EDir m -> "d:" ^ hex_of_bytes p ^ ":" ^ meta_s m
          | FS.EFile (m, d) -> "f:" ^ hex_of_bytes p ^ ":" ^ meta_s m ^ ":" ^ hex_of_bytes d
          | FS.ELink (m, t) -> "l:" ^ hex_of_bytes p ^ ":" ^ string_of_n m.FS.m_uid ^ ":" ^ string_of_n m.FS.m_gid ^ ":" ^ string_of_n m.FS.m_mtime ^ ":" ^ hex_of_bytes t) (UntarIO.dump_fs st.Untar.w_fs) in
        let j l = if l = [] then "-" else Stdlib.String.concat "," l in
        outs ^ " " ^ j touched ^ " " ^ j listing
    | _ -> "ERR args");
  (* c18.nodes <policy> <elems> -> <end|error> then per node  <kind>:<hexname>:<hexbase>, ...  *)
  Drv.register "c18.nodes" (fun args -> match args with
    | [pol; elems] ->
        let es = Stdlib.List.map elem_of_token (split_on ',' elems) in
        let ns = ArchiveNames.nodes_of (policy_of pol) es in
        let tok (n, base) =
          let k, name = (match n with
            | ArchiveNames.NDir (s, _) -> "d", s | ArchiveNames.NFile (s, _, _) -> "f", s
            | ArchiveNames.NSymlink (s, _, _) -> "l", s | ArchiveNames.NDevice (s, _, _, _) -> "v", s) in
          k ^ ":" ^ hex_of_bytes name ^ ":" ^ hex_of_bytes base in
        (if ArchiveNames.nodes_end (policy_of pol) es then "end" else "error") ^ " " ^
        (if ns = [] then "-" else Stdlib.String.concat "," (Stdlib.List.map tok ns))
    | _ -> "ERR args")
