(* C03 oracle commands.

   c03.run <stack> <ops> <objs> <acts> <faults> <dec> <comp> <hash>
     stack  : prefix notation, comma separated:
                L,k,kind,skip,unc,retry | WR,<w> | WD,<w> | WS,<w>            (writable)
                C,<s>,<w> | R,n,<s>*n | F,f,n,<s>*n (n>=1) | D,<s> | S,<s>
                H,h,sconvcompressed,skip,unc,retry,<s> | P,h,<s> | X,k (content-trusting foreign store)
              kind in l h s f g (local http s3 sftp gcs); booleans 0/1
     ops    : ';'-separated   g:<idhex>            GetChunk
                              x:<idhex>:<size>     writeChunk    (assemble.go)
                              u:<idhex>:<size>     UnTarIndex worker
                              p:<idhex>            sparse loadChunk
                              r:<idhex>:<nullidhex>:<nulldatahex>  readseeker loadChunk
                              m:k:<idhex>:<objhex>  the world changes: backend k now holds that object
     objs   : ';'-separated   k:<idhex>:<objhex>   what backend k holds for that id
     acts   : ';'-separated   f:a                  active index of failover group f
     faults : ';'-separated   T:k:<idhex|*>:from:to:F[:arg]   T in G P N; the from..to-1 th
              occurrence (counted in the history) of that operation gets fault F in io rd rp rs
              (rs:<flags>:<labelidhex>:<hex> = a CHUNK answer with those flags, labelled as that chunk)
     dec    : ';'-separated   <inhex>:<outhex|!>   what the real zstd decoder does
     comp   : ';'-separated   <inhex>:<outhex>     what the real zstd encoder does
     hash   : ';'-separated   <datahex>:<idhex>    the digest in use
   answer : <results> <objs> <hist> <acts>   or   NEED dec|comp|hash <hex>
     results: '|'-separated  ok:<datahex|!>  missing  invalid  other  eof  (for g; eof = the error is io.EOF itself)
                             w:<datahex> / fail                       (for consumers)
*)
open Conv
open ChunkVerify

exception Need of string

let id_hex (i : BinNums.coq_N) : string = Z.format "%064x" (z_of_n i)
let id_of_hex (h : string) : BinNums.coq_N = n_of_z (Z.of_string ("0x" ^ h))

let bool_of s = (s = "1")

let kind_of = function
  | "l" -> BLocal | "h" -> BHTTP | "s" -> BS3 | "f" -> BSFTP | "g" -> BGCS
  | k -> failwith ("kind " ^ k)

let rec parse_w (t : string list) : wstack * string list =
  match t with
  | "L" :: k :: kind :: skip :: unc :: retry :: r ->
      (WLeaf (nat_of_int (int_of_string k),
              { lo_kind = kind_of kind; lo_skip = bool_of skip; lo_uncompressed = bool_of unc;
                lo_retry = nat_of_int (int_of_string retry) }), r)
  | "WR" :: r -> let (w, r') = parse_w r in (WRepair w, r')
  | "WD" :: r -> let (w, r') = parse_w r in (WDedup w, r')
  | "WS" :: r -> let (w, r') = parse_w r in (WSwap w, r')
  | x :: _ -> failwith ("wstack token " ^ x)
  | [] -> failwith "wstack: end"

let rec parse_s (t : string list) : stack * string list =
  match t with
  | ("L" | "WR" | "WD" | "WS") :: _ -> let (w, r) = parse_w t in (W w, r)
  | "C" :: r -> let (s, r1) = parse_s r in let (w, r2) = parse_w r1 in (Cache (s, w), r2)
  | "R" :: n :: r -> let (l, r') = parse_n (int_of_string n) r in (Router l, r')
  | "F" :: f :: n :: r ->
      let (l, r') = parse_n (int_of_string n) r in
      (match l with
       | s0 :: ss -> (Failover (nat_of_int (int_of_string f), s0, ss), r')
       | [] -> failwith "empty failover group")
  | "D" :: r -> let (s, r') = parse_s r in (Dedup s, r')
  | "S" :: r -> let (s, r') = parse_s r in (Swap s, r')
  | "H" :: h :: sc :: skip :: unc :: retry :: r ->
      let (s, r') = parse_s r in
      (Http (nat_of_int (int_of_string h), converters (not (bool_of sc)), bool_of skip, bool_of unc,
             nat_of_int (int_of_string retry), s), r')
  | "P" :: h :: r -> let (s, r') = parse_s r in (Proto (nat_of_int (int_of_string h), s), r')
  | "X" :: k :: r -> (Foreign (nat_of_int (int_of_string k)), r)
  | x :: _ -> failwith ("stack token " ^ x)
  | [] -> failwith "stack: end"
and parse_n n t =
  if n = 0 then ([], t) else
    let (s, r) = parse_s t in let (l, r') = parse_n (n - 1) r in (s :: l, r')

let table (spec : string) : (string, string) Hashtbl.t =
  let h = Hashtbl.create 64 in
  Stdlib.List.iter (fun e -> match Stdlib.String.split_on_char ':' e with
      | [a; b] -> Hashtbl.replace h (string_of_hex a) b
      | _ -> failwith ("table entry " ^ e)) (split_on ';' spec);
  h

type rule = { rt : char; rk : int; rid : BinNums.coq_N option; rfrom : int; rto : int; rf : fault }

let parse_rule (e : string) : rule =
  match Stdlib.String.split_on_char ':' e with
  | t :: k :: i :: a :: b :: f :: rest ->
      let fl = match f, rest with
        | "io", _ -> FIO
        | "rd", [n] -> FRead (nat_of_int (int_of_string n))
        | "rp", [h] -> FReplace (bytes_of_hex h)
        | "rs", [fg; l; h] -> FRespond (n_of_string fg, id_of_hex l, bytes_of_hex h)
        | _ -> failwith ("fault " ^ f) in
      { rt = t.[0]; rk = int_of_string k; rid = (if i = "*" then None else Some (id_of_hex i));
        rfrom = int_of_string a; rto = int_of_string b; rf = fl }
  | _ -> failwith ("fault rule " ^ e)

let op_key (o : op) : char * int * BinNums.coq_N =
  match o with
  | OpGet (k, i) -> ('G', int_of_nat k, i)
  | OpPut (k, i, _) -> ('P', int_of_nat k, i)
  | OpNet (h, i) -> ('N', int_of_nat h, i)

let fault_fn (rules : rule list) (hist : op list) (o : op) : fault =
  let (t, k, i) = op_key o in
  let matching r = r.rt = t && r.rk = k && (match r.rid with None -> true | Some j -> j = i) in
  let rec first = function
    | [] -> NoFault
    | r :: rest ->
        if matching r then begin
          (* occurrences so far of operations matching this rule *)
          let n = Stdlib.List.length (Stdlib.List.filter (fun o' ->
              let (t', k', i') = op_key o' in
              t' = t && k' = k && (match r.rid with None -> true | Some j -> j = i')) hist) in
          if n >= r.rfrom && n < r.rto then r.rf else first rest
        end else first rest in
  first rules

let res_str zd (r : chunk res) : string =
  match r with
  | Ok c -> (match data_of zd c with Some b -> "ok:" ^ hex_of_bytes b | None -> "ok:!")
  | Err EMissing -> "missing"
  | Err EInvalid -> "invalid"
  | Err EOther -> "other"
  | Err EEof -> "eof"

let cons_str r : string =
  match r with Some b -> "w:" ^ hex_of_bytes b | None -> "fail"

let run args =
  match args with
  | [stack; ops; objs; acts; faults; dec; comp; hash] ->
      let (s, rest) = parse_s (Stdlib.String.split_on_char ',' stack) in
      if rest <> [] then failwith "stack: trailing tokens";
      let dect = table dec and compt = table comp and hasht = table hash in
      let zd b =
        let k = string_of_bytes b in
        match Hashtbl.find_opt dect k with
        | Some "!" -> None
        | Some h -> Some (bytes_of_hex h)
        | None -> raise (Need ("dec " ^ hex_of_string k)) in
      let zc b =
        let k = string_of_bytes b in
        match Hashtbl.find_opt compt k with
        | Some h -> bytes_of_hex h
        | None -> raise (Need ("comp " ^ hex_of_string k)) in
      let hh b : BinNums.coq_N =
        let k = string_of_bytes b in
        match Hashtbl.find_opt hasht k with
        | Some h -> id_of_hex h
        | None -> raise (Need ("hash " ^ hex_of_string k)) in
      let objt : (int * string, BinNums.coq_N list) Hashtbl.t = Hashtbl.create 64 in
      let slots = ref [] in
      Stdlib.List.iter (fun e -> match Stdlib.String.split_on_char ':' e with
          | [k; i; o] ->
              let key = (int_of_string k, Stdlib.String.lowercase_ascii i) in
              Hashtbl.replace objt key (bytes_of_hex o); slots := key :: !slots
          | _ -> failwith ("obj " ^ e)) (split_on ';' objs);
      let actt = Hashtbl.create 8 in
      Stdlib.List.iter (fun e -> match Stdlib.String.split_on_char ':' e with
          | [f; a] -> Hashtbl.replace actt (int_of_string f) (int_of_string a)
          | _ -> failwith ("act " ^ e)) (split_on ';' acts);
      let rules = Stdlib.List.map parse_rule (split_on ';' faults) in
      let w0 = { w_obj = (fun k i -> Hashtbl.find_opt objt (int_of_nat k, id_hex i));
                 w_act = (fun f -> nat_of_int (match Hashtbl.find_opt actt (int_of_nat f) with Some a -> a | None -> 0));
                 w_hist = []; w_fault = fault_fn rules } in
      let w = ref w0 in
      let out = Stdlib.List.map (fun e ->
          match Stdlib.String.split_on_char ':' e with
          | ["g"; i] ->
              let (r, w1) = get hh zc zd s (id_of_hex i) !w in w := w1; res_str zd r
          | ["m"; k; i; o] ->
              (* somebody else replaces the object of backend k for chunk i *)
              let kk = int_of_string k in
              w := w_store (nat_of_int kk) (id_of_hex i) (bytes_of_hex o) !w;
              slots := (kk, Stdlib.String.lowercase_ascii i) :: !slots; "m"
          | ["x"; i; n] ->
              let (r, w1) = write_chunk hh zc zd s (id_of_hex i, nat_of_int (int_of_string n)) !w in w := w1; cons_str r
          | ["u"; i; n] ->
              let (r, w1) = untar_worker hh zc zd s (id_of_hex i, nat_of_int (int_of_string n)) !w in w := w1; cons_str r
          | ["p"; i] ->
              let (r, w1) = sparse_load hh zc zd s (id_of_hex i, Datatypes.O) !w in w := w1; cons_str r
          | ["r"; i; ni; nd] ->
              let (r, w1) = readseeker_load hh zc zd s (id_of_hex ni) (bytes_of_hex nd) (id_of_hex i, Datatypes.O) !w in
              w := w1; cons_str r
          | _ -> failwith ("op " ^ e)) (split_on ';' ops) in
      (* slots to report: the given ones and everything written *)
      Stdlib.List.iter (fun o -> match o with
          | OpPut (k, i, _) -> slots := (int_of_nat k, id_hex i) :: !slots
          | _ -> ()) !w.w_hist;
      let slots = Stdlib.List.sort_uniq compare !slots in
      let objs_out = Stdlib.List.filter_map (fun (k, i) ->
          match !w.w_obj (nat_of_int k) (id_of_hex i) with
          | Some b -> Some (Printf.sprintf "%d:%s:%s" k i (hex_of_bytes b))
          | None -> None) slots in
      let hist_out = Stdlib.List.map (fun o ->
          let (t, k, i) = op_key o in Printf.sprintf "%c.%d.%s" t k (id_hex i)) !w.w_hist in
      let acts_out = Hashtbl.fold (fun f _ acc ->
          Printf.sprintf "%d:%d" f (int_of_nat (!w.w_act (nat_of_int f))) :: acc) actt [] in
      let j sep l = if l = [] then "-" else Stdlib.String.concat sep l in
      Printf.sprintf "%s %s %s %s" (j "|" out) (j ";" objs_out) (j "," hist_out)
        (j ";" (Stdlib.List.sort compare acts_out))
  | _ -> "ERR args"

let register () =
  Drv.register "c03.run" (fun args -> try run args with Need s -> "NEED " ^ s);
  (* c03.verifying <stack> -> 1 | 0 *)
  Drv.register "c03.verifying" (fun args -> match args with
    | [stack] ->
        let (s, _) = parse_s (Stdlib.String.split_on_char ',' stack) in
        if verifying s then "1" else "0"
    | _ -> "ERR args")
