(* C12 oracle commands: DedupQueue / WriteDedupQueue transition system (Model/Dedup.v)

   A "grant" is what the Go harness can do to a caller goroutine: let it run to its next yield hook,
   to the entry of the upstream store, or to its return.  One grant is one model step, except where the
   code has no yield hook between two model steps:
     - HasChunk / StoreChunk leaders: upstream return + markDone are one grant,
     - WriteDedupQueue.GetChunk: a peek that finds nothing + loadOrStore are one grant.

   c12.run <callers> <outcomes> <grants>  ->  <tokens>|<answers>|<enabled>|<strict-overlap misses>|<model schedule>
     callers  : ','-separated  g<id> | h<id> | s<id>:<tag> | w<id>
     outcomes : string over d(ata, tag 100+n) m(issing) e(rror) for upstream call 0,1,...; later calls 'd'; '_' if empty
     grants   : '.'-separated thread numbers, '_' if none
     tokens   : ','-separated, one per grant:  Y:<site> | G:<kind g|h|s><id>:<call no> | R:<answer> | B (blocked in wait, no event) | - (not enabled)
     answers  : ','-separated per caller: <value>:<err> or ?   value = _ | c<tag> | b0 | b1 ; err = n | m | e<call no>
     enabled  : '.'-separated thread numbers that can take a step now, '_' if none
   c12.enum <callers> <outcomes> <max>    ->  <count>|<schedule>/<schedule>/...   (all maximal grant sequences, at most max) *)
open Conv
open Datatypes
open Dedup

let nat_s s = nat_of_int (int_of_string s)
let ios n = string_of_int (int_of_nat n)

let parse_call (s : string) : call =
  let rest = Stdlib.String.sub s 1 (Stdlib.String.length s - 1) in
  match s.[0] with
  | 'g' -> { c_op = CGet; c_id = nat_s rest }
  | 'h' -> { c_op = CHas; c_id = nat_s rest }
  | 'w' -> { c_op = CWGet; c_id = nat_s rest }
  | 's' -> (match Stdlib.String.split_on_char ':' rest with
            | [i; t] -> { c_op = CStore (nat_s t); c_id = nat_s i }
            | _ -> failwith "store call")
  | _ -> failwith ("bad call " ^ s)

let parse_calls s = if s = "_" then [] else Stdlib.List.map parse_call (Stdlib.String.split_on_char ',' s)

let mk_up (o : string) : nat -> uout = fun n ->
  let k = int_of_nat n in
  if o <> "_" && k < Stdlib.String.length o then
    (match o.[k] with 'd' -> UOk (nat_of_int (100 + k)) | 'm' -> UMissing | 'e' -> UFail | _ -> failwith "outcome")
  else UOk (nat_of_int (100 + k))

let kind_c = function QGet -> "g" | QHas -> "h" | QStore -> "s"
let err_s = function XNil -> "n" | XMissing -> "m" | XErr n -> "e" ^ ios n
let val_s = function VNil -> "_" | VChunk t -> "c" ^ ios t | VBool b -> if b then "b1" else "b0"
let res_s (v, e) = val_s v ^ ":" ^ err_s e

let site_loaded = function CGet | CWGet -> "dedup.get.loaded" | CHas -> "dedup.has.loaded" | CStore _ -> "wdedup.store.loaded"
let site_marked = function CGet | CWGet -> "dedup.get.marked" | CHas -> "dedup.has.marked" | CStore _ -> "wdedup.store.marked"

let thread_of (s : state) (t : int) : thread option = Stdlib.List.nth_opt s.thr t

(* one grant; returns the token, the new state and the model steps taken *)
let rec grant up (s : state) (t : int) : (string * state * int) option =
  match thread_of s t with
  | None -> None
  | Some th ->
    match step up s (nat_of_int t) with
    | None -> None
    | Some s1 ->
      let th1 = match thread_of s1 t with Some x -> x | None -> failwith "thread vanished" in
      let op = th.t_call.c_op in
      let again () = match grant up s1 t with
        | Some (tok, s2, k) -> Some (tok, s2, k + 1)
        | None -> failwith "second half of a grant is not enabled" in
      (match th.t_pc, th1.t_pc with
       | PStart, PPeeked -> again ()
       | PStart, PWait _ when op = CWGet -> Some ("B", s1, 1)
       | (PStart | PPeeked), (PWait _ | PLead _) -> Some ("Y:" ^ site_loaded op, s1, 1)
       | PLead _, PUp (_, n) -> Some ("G:" ^ kind_c (kind_of op) ^ ios th.t_call.c_id ^ ":" ^ ios n, s1, 1)
       | PUp _, PGot _ -> (match op with
                           | CGet | CWGet -> Some ("Y:dedup.get.upstream", s1, 1)
                           | _ -> again ())
       | PGot _, PMarked _ -> Some ("Y:" ^ site_marked op, s1, 1)
       | (PMarked _ | PWait _), PDone r -> Some ("R:" ^ res_s r, s1, 1)
       | _ -> failwith "unexpected transition")

let enabled up (s : state) : int list =
  let n = Stdlib.List.length s.thr in
  Stdlib.List.filter (fun t -> step up s (nat_of_int t) <> None) (Stdlib.List.init n (fun i -> i))

let join sep = function [] -> "_" | l -> Stdlib.String.concat sep l

(* callers whose interval does not overlap the upstream call that produced their result *)
let strict_misses (s : state) : int =
  Stdlib.List.fold_left (fun acc th ->
      match th.t_pc, th.t_req, th.t_start, th.t_ret with
      | PDone _, Some r, Some st, Some rt ->
          (match Stdlib.List.nth_opt s.reqs (int_of_nat r) with
           | Some q -> (match q.q_up with
               | Some n -> (match Stdlib.List.nth_opt s.ups (int_of_nat n) with
                   | Some u ->
                       let uc = int_of_nat u.u_call and st = int_of_nat st and rt = int_of_nat rt in
                       let ok = uc <= rt && (match u.u_ret with Some ur -> st <= int_of_nat ur | None -> true) in
                       if ok then acc else acc + 1
                   | None -> acc)
               | None -> acc)
           | None -> acc)
      | _ -> acc) 0 s.thr

let register () =
  Drv.register "c12.run" (fun args -> match args with
    | [cs; os; gs] ->
        let calls = parse_calls cs in
        let up = mk_up os in
        let grants = if gs = "_" then [] else Stdlib.List.map int_of_string (Stdlib.String.split_on_char '.' gs) in
        let s = ref (init calls) in
        let msched = ref [] in
        let toks = Stdlib.List.map (fun t ->
            match grant up !s t with
            | Some (tok, s1, k) -> s := s1; for _ = 1 to k do msched := string_of_int t :: !msched done; tok
            | None -> msched := string_of_int t :: !msched; "-") grants in
        let answers = Stdlib.List.map (fun th -> match th.t_pc with PDone r -> res_s r | _ -> "?") !s.thr in
        join "," toks ^ "|" ^ join "," answers ^ "|" ^ join "." (Stdlib.List.map string_of_int (enabled up !s))
        ^ "|" ^ string_of_int (strict_misses !s) ^ "|" ^ join "." (Stdlib.List.rev !msched)
    | _ -> "ERR args");
  Drv.register "c12.enum" (fun args -> match args with
    | [cs; os; mx] ->
        let calls = parse_calls cs in
        let up = mk_up os in
        let mx = int_of_string mx in
        let out = ref [] and count = ref 0 in
        let rec dfs s pref =
          if !count < mx then begin
            match enabled up s with
            | [] -> incr count; out := join "." (Stdlib.List.rev_map string_of_int pref) :: !out
            | en -> Stdlib.List.iter (fun t ->
                match grant up s t with
                | Some (_, s1, _) -> dfs s1 (t :: pref)
                | None -> ()) en
          end in
        dfs (init calls) [];
        string_of_int !count ^ "|" ^ join "/" (Stdlib.List.rev !out)
    | _ -> "ERR args")
