(* Line protocol: "<cmd> <arg> <arg> ..." on stdin, one answer line on stdout. *)
let () =
  All.register_all ();
  (try
     while true do
       let line = input_line stdin in
       let ans =
         match Stdlib.String.split_on_char ' ' line with
         | [] | [""] -> "ERR empty"
         | cmd :: args ->
             (match Hashtbl.find_opt Drv.handlers cmd with
              | None -> "ERR unknown command " ^ cmd
              | Some f -> (try f args with e -> "ERR exception " ^ Printexc.to_string e))
       in
       print_string ans; print_newline ()
     done
   with End_of_file -> ())
