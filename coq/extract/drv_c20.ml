(* C20 oracle commands: Model/LocalStore.v run with H = SHA-256 and the codec given as finite tables
   (the harness fills them from desync.Compress / desync.Decompress on the byte strings of the case). *)
open Conv
open Fsconv

let store unc skip base = { LocalStore.st_base = split_path base; st_unc = bool_arg unc; st_skip = bool_arg skip }
let no_codec _ = failwith "codec table has no entry for a byte string the model asked for"

let register () =
  (* name <unc> <idhex> -> "<dir>/<file>" relative to the store base *)
  Drv.register "c20.name" (fun args -> match args with
    | [unc; idh] ->
        let (_, p) = LocalStore.name_from_id (store unc "0" "") (Sha256.id_of_hex idh) in
        path_string p
    | _ -> "ERR args");
  (* fileid <unc> <hex(path string)> <hex(base name)> -> idhex | none   (the Verify/Prune filter) *)
  Drv.register "c20.fileid" (fun args -> match args with
    | [unc; ph; nh] ->
        (match LocalStore.chunk_file_id (bool_arg unc) (bytes_of_hex ph) (bytes_of_hex nh) with
         | Some i -> id_hex i | None -> "none")
    | _ -> "ERR args");
  (* httppath <compressed> <hex(path)> -> idhex | none   (HTTPHandler.idFromPath) *)
  Drv.register "c20.httppath" (fun args -> match args with
    | [comp; ph] ->
        (match LocalStore.http_id_from_path (bool_arg comp) (bytes_of_hex ph) with
         | Some i -> id_hex i | None -> "none")
    | _ -> "ERR args");
  (* unhex <hex(string)> -> idhex | none   (ChunkIDFromString) *)
  Drv.register "c20.unhex" (fun args -> match args with
    | [sh] -> (match HexId.unhex_id (bytes_of_hex sh) with Some i -> id_hex i | None -> "none")
    | _ -> "ERR args");
  (* get <unc> <skip> <base> <idhex> <tree> <decomp table> -> ok:<storage>:<plain|none> | missing | invalid:<sum> *)
  Drv.register "c20.get" (fun args -> match args with
    | [unc; skip; base; idh; tree; zt] ->
        let st = store unc skip (string_of_hex base) in
        let zd = parse_table zt no_codec in
        (match LocalStore.get_chunk Sha256.h_model zd st (Sha256.id_of_hex idh) (parse_fs tree) with
         | LocalStore.GetOk b ->
             "ok:" ^ hex_of_bytes b ^ ":" ^
             (match LocalStore.storage_data zd st.LocalStore.st_unc b with Some d -> hex_of_bytes d | None -> "none")
         | LocalStore.GetMissing -> "missing"
         | LocalStore.GetInvalid s -> "invalid:" ^ id_hex s)
    | _ -> "ERR args");
  (* has <unc> <base> <idhex> <tree> -> yes | no | err *)
  Drv.register "c20.has" (fun args -> match args with
    | [unc; base; idh; tree] ->
        (match LocalStore.has_chunk (store unc "0" (string_of_hex base)) (Sha256.id_of_hex idh) (parse_fs tree) with
         | LocalStore.HasYes -> "yes" | LocalStore.HasNo -> "no" | LocalStore.HasErr -> "err")
    | _ -> "ERR args");
  (* store <unc> <base> <idhex> <plainhex> <r,r,..> <tree> <comp table> -> ok <tree'> | err:<errno> <tree'> *)
  Drv.register "c20.store" (fun args -> match args with
    | [unc; base; idh; plain; rs; tree; zt] ->
        let st = store unc "0" (string_of_hex base) in
        let zc = parse_table zt no_codec in
        let rs = Stdlib.List.map bytes_of_hex (split_on ',' rs) in
        let (s', e) = LocalStore.store_chunk zc st rs (Sha256.id_of_hex idh) (bytes_of_hex plain) (parse_fs tree) in
        (match e with None -> "ok" | Some e -> "err:" ^ errno_string e) ^ " " ^ print_fs s'
    | _ -> "ERR args");
  (* remove <unc> <base> <idhex> <tree> -> ok <tree'> | missing | err:<errno> *)
  Drv.register "c20.remove" (fun args -> match args with
    | [unc; base; idh; tree] ->
        (match LocalStore.remove_chunk (store unc "0" (string_of_hex base)) (Sha256.id_of_hex idh) (parse_fs tree) with
         | LocalStore.RmOk s' -> "ok " ^ print_fs s'
         | LocalStore.RmMissing -> "missing"
         | LocalStore.RmErr e -> "err:" ^ errno_string e)
    | _ -> "ERR args")
