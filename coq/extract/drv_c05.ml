(* C05 oracle commands *)
open Conv

let csv_n s = Stdlib.List.map n_of_string (split_on ',' s)
let out_csv l = if l = [] then "-" else Stdlib.String.concat "," (Stdlib.List.map string_of_n l)

(* "k=v,k=v" with hex keys and values ("-" = empty string inside a pair is written as nothing) *)
let xattrs_of s =
  Stdlib.List.map (fun kv -> match Stdlib.String.split_on_char '=' kv with
      | [k; v] -> (bytes_of_hex k, bytes_of_hex v)
      | _ -> failwith "xattr") (split_on ',' s)

(* components in hex separated by '/' ; "-" = the root *)
let path_of s = Stdlib.List.map bytes_of_hex (split_on '/' s)

(* one event: name:path:mode:size:target:mtime:uid:gid:major:minor:xattrs:data *)
let event_of tok =
  match Stdlib.String.split_on_char ':' tok with
  | [name; path; mode; size; target; mtime; uid; gid; major; minor; xa; data] ->
      { TarModel.fe_name = bytes_of_hex name; fe_path = path_of path; fe_mode = n_of_string mode;
        fe_size = n_of_string size; fe_target = bytes_of_hex target; fe_mtime = n_of_string mtime;
        fe_uid = n_of_string uid; fe_gid = n_of_string gid; fe_major = n_of_string major;
        fe_minor = n_of_string minor; fe_xattrs = xattrs_of xa; fe_data = bytes_of_hex data }
  | _ -> failwith "event"

let read_file path =
  let ic = open_in_bin path in
  let n = in_channel_length ic in
  let s = really_input_string ic n in
  close_in ic; s

let events_of_file path =
  let s = read_file path in
  Stdlib.List.map event_of (Stdlib.List.filter (fun l -> l <> "") (Stdlib.String.split_on_char '\n' s))

let register () =
  (* c05.s2f <csv of st_mode> -> csv of os.FileMode *)
  Drv.register "c05.s2f" (fun args -> match args with
    | [l] -> out_csv (Stdlib.List.map Mode.stat_to_filemode (csv_n l))
    | _ -> "ERR args");
  (* c05.s2frange <lo> <hi> -> csv for lo..hi-1 *)
  Drv.register "c05.s2frange" (fun args -> match args with
    | [lo; hi] ->
        let lo = int_of_string lo and hi = int_of_string hi in
        out_csv (Stdlib.List.init (hi - lo) (fun i -> Mode.stat_to_filemode (n_of_int (lo + i))))
    | _ -> "ERR args");
  Drv.register "c05.f2s" (fun args -> match args with
    | [l] -> out_csv (Stdlib.List.map Mode.filemode_to_stat (csv_n l))
    | _ -> "ERR args");
  (* c05.mkdev <major> <minor> -> dev *)
  Drv.register "c05.mkdev" (fun args -> match args with
    | [a; b] -> string_of_n (Mode.mkdev (n_of_string a) (n_of_string b))
    | _ -> "ERR args");
  (* c05.split <rdev> -> major,minor *)
  Drv.register "c05.split" (fun args -> match args with
    | [r] -> let r = n_of_string r in string_of_n (Mode.rdev_major r) ^ "," ^ string_of_n (Mode.rdev_minor r)
    | _ -> "ERR args");
  Drv.register "c05.tarmodeback" (fun args -> match args with
    | [l] -> out_csv (Stdlib.List.map Mode.tar_mode_back (csv_n l))
    | _ -> "ERR args");
  (* c05.tar <file with one event per line> <output file> -> OK <length> | NONE ; the archive bytes go to the output file *)
  Drv.register "c05.tar" (fun args -> match args with
    | [inp; outp] ->
        (match TarModel.tar_bytes (events_of_file inp) with
         | Some b ->
             let s = string_of_bytes b in
             let oc = open_out_bin outp in
             output_string oc s; close_out oc;
             "OK " ^ string_of_int (Stdlib.String.length s)
         | None -> "NONE")
    | _ -> "ERR args")
