(* C05 oracle commands *)
open Conv

let csv_n s = Stdlib.List.map n_of_string (split_on ',' s)
let out_csv l = if l = [] then "-" else Stdlib.String.concat "," (Stdlib.List.map string_of_n l)

(* "k=v,k=v" with hex keys and values ("-" = empty string inside a pair is written as nothing) *)
let xattrs_of s =
  Stdlib.List.map (fun kv -> match Stdlib.String.split_on_char '=' kv with
      | [k; v] -> (bytes_of_hex k, bytes_of_hex v)
      | _ -> failwith "xattr") (split_on ',' s)

(* components in hex separated by '/' ; "-" = the root *)
let path_of s = Stdlib.List.map bytes_of_hex (split_on '/' s)

(* one event: name:path:mode:size:target:mtime:uid:gid:major:minor:xattrs:data *)
let event_of tok =
  match Stdlib.String.split_on_char ':' tok with
  | [name; path; mode; size; target; mtime; uid; gid; major; minor; xa; data] ->
      { TarModel.fe_name = bytes_of_hex name; fe_path = path_of path; fe_mode = n_of_string mode;
        fe_size = n_of_string size; fe_target = bytes_of_hex target; fe_mtime = n_of_string mtime;
        fe_uid = n_of_string uid; fe_gid = n_of_string gid; fe_major = n_of_string major;
        fe_minor = n_of_string minor; fe_xattrs = xattrs_of xa; fe_data = bytes_of_hex data }
  | _ -> failwith "event"

let read_file path =
  let ic = open_in_bin path in
  let n = in_channel_length ic in
  let s = really_input_string ic n in
  close_in ic; s

let events_of_file path =
  let s = read_file path in
  Stdlib.List.map event_of (Stdlib.List.filter (fun l -> l <> "") (Stdlib.String.split_on_char '\n' s))

let register () =
  (* c05.s2f <csv of st_mode> -> csv of os.FileMode *)
  Drv.register "c05.s2f" (fun args -> match args with
    | [l] -> out_csv (Stdlib.List.map Mode.stat_to_filemode (csv_n l))
    | _ -> "ERR args");
  (* c05.s2frange <lo> <hi> -> csv for lo..hi-1 *)
  Drv.register "c05.s2frange" (fun args -> match args with
    | [lo; hi] ->
        let lo = int_of_string lo and hi = int_of_string hi in
        out_csv (Stdlib.List.init (hi - lo) (fun i -> Mode.stat_to_filemode (n_of_int (lo + i))))
    | _ -> "ERR args");
  Drv.register "c05.f2s" (fun args -> match args with
    | [l] -> out_csv (Stdlib.List.map Mode.filemode_to_stat (csv_n l))
    | _ -> "ERR args");
  (* c05.mkdev <major> <minor> -> dev *)
  Drv.register "c05.mkdev" (fun args -> match args with
    | [a; b] -> string_of_n (Mode.mkdev (n_of_string a) (n_of_string b))
    | _ -> "ERR args");
  (* c05.split <rdev> -> major,minor *)
  Drv.register "c05.split" (fun args -> match args with
    | [r] -> let r = n_of_string r in string_of_n (Mode.rdev_major r) ^ "," ^ string_of_n (Mode.rdev_minor r)
    | _ -> "ERR args");
  Drv.register "c05.tarmodeback" (fun args -> match args with
    | [l] -> out_csv (Stdlib.List.map Mode.tar_mode_back (csv_n l))
    | _ -> "ERR args");
  (* c05.tar <file with one event per line> <output file> -> OK <length> | NONE ; the archive bytes go to the output file *)
  Drv.register "c05.tar" (fun args -> match args with
    | [inp; outp] ->
        (match TarModel.tar_bytes (events_of_file inp) with
         | Some b ->
             let s = string_of_bytes b in
             let oc = open_out_bin outp in
             output_string oc s; close_out oc;
             "OK " ^ string_of_int (Stdlib.String.length s)
         | None -> "NONE")
    | _ -> "ERR args");
  (* c05.untar <events file> <no_same_owner 0|1> <no_same_permissions 0|1> <uid> <gid> <umask> <output file>
     -> OK <n> | NONE | DECODE-ERR | UNTAR-ERR ; the predicted listing goes to the output file, one line per object:
        path kind perm uid gid mtime|NOW xattrs size-or-rdev-or-target-hex   (walk order of the model's directories) *)
  Drv.register "c05.untar" (fun args -> match args with
    | [inp; nso; nsp; uid; gid; umask; outp] ->
        (match TarModel.tar_bytes (events_of_file inp) with
         | None -> "NONE"
         | Some b ->
           (match Archive.decode_archive b with
            | Format.Ok (ns, _) ->
                let pr = { FSMeta.p_uid = n_of_string uid; p_gid = n_of_string gid; p_umask = n_of_string umask } in
                let o = { FSMeta.no_same_owner = (nso = "1"); no_same_permissions = (nsp = "1") } in
                (match FSMeta.untar pr o ns (FSMeta.empty_root pr) with
                 | FSMeta.FOk root ->
                     let buf = Buffer.create 65536 in
                     let count = ref 0 in
                     let xs l = if l = [] then "-" else
                       Stdlib.String.concat "," (Stdlib.List.map (fun (k, v) ->
                         (let h = hex_of_bytes k in if h = "-" then "" else h) ^ "=" ^ (let h = hex_of_bytes v in if h = "-" then "" else h)) l) in
                     let line path kind (m : FSMeta.fmeta) extra =
                       incr count;
                       Buffer.add_string buf (Stdlib.String.concat " " [
                         (if path = [] then "-" else Stdlib.String.concat "/" (Stdlib.List.rev_map hex_of_bytes path));
                         kind; string_of_n m.FSMeta.fm_perm; string_of_n m.FSMeta.fm_uid; string_of_n m.FSMeta.fm_gid;
                         (match m.FSMeta.fm_mtime with FSMeta.Stamp t -> string_of_n t | FSMeta.Now -> "NOW");
                         xs m.FSMeta.fm_xattrs; extra ]);
                       Buffer.add_char buf '\n' in
                     let rec go rpath (n : FSMeta.fnode) = match n with
                       | FSMeta.FDir (m, ents) ->
                           line rpath "dir" m (string_of_int (Stdlib.List.length ents));
                           Stdlib.List.iter (fun (nm, c) -> go (nm :: rpath) c) ents
                       | FSMeta.FFile (m, d) -> line rpath "file" m (string_of_int (Stdlib.List.length d) ^ ":" ^ hex_of_string (Sha256.digest (string_of_bytes d)))
                       | FSMeta.FLink (m, t) -> line rpath "link" m (hex_of_bytes t)
                       | FSMeta.FDev (m, chr, r) -> line rpath (if chr then "chr" else "blk") m (string_of_n r) in
                     go [] root;
                     let oc = open_out_bin outp in
                     Buffer.output_buffer oc buf; close_out oc;
                     "OK " ^ string_of_int !count
                 | FSMeta.FErr _ -> "UNTAR-ERR")
            | _ -> "DECODE-ERR"))
    | _ -> "ERR args")

