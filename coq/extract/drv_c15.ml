(* C15 oracle commands (also the GoPath / Hex correspondence commands used by C14 and C15).
   Byte strings travel as hex ("-" = empty).  zstd and the index codec are not available to the
   oracle: the harness passes them as finite tables covering the byte strings of the case
   (a miss is an oracle error, never a silent default). *)
open Conv
open HTTPServer

exception Table_miss of string

let b2s = string_of_bytes
let bool_of s = s = "1"

(* list elements: "_" is the empty string (so that empty elements survive split_on) *)
let elem_of h = if h = "_" then [] else bytes_of_hex h

(* "k:v,k:v" with hex fields; v = "!" means 'invalid' *)
let parse_tab (s : string) : (string * string option) list =
  Stdlib.List.map (fun kv -> match Stdlib.String.split_on_char ':' kv with
      | [k; "!"] -> (string_of_hex k, None)
      | [k; v] -> (string_of_hex k, Some (string_of_hex v))
      | _ -> failwith "tab") (split_on ',' s)

let partial_of what tab b =
  match Stdlib.List.assoc_opt (b2s b) tab with
  | Some (Some v) -> Some (bytes_of_string v)
  | Some None -> None
  | None -> raise (Table_miss (what ^ " " ^ hex_of_bytes b))

let total_of what tab b =
  match Stdlib.List.assoc_opt (b2s b) tab with
  | Some (Some v) -> bytes_of_string v
  | _ -> raise (Table_miss (what ^ " " ^ hex_of_bytes b))

let id_hex (i : BinNums.coq_N) : string =
  let s = Z.format "%x" (z_of_n i) in
  let n = Stdlib.String.length s in
  if n >= 64 then s else Stdlib.String.make (64 - n) '0' ^ s

let meth_of = function "GET" -> GET | "HEAD" -> HEAD | "PUT" -> PUT | _ -> OTHER

let opt_hex = function Some b -> hex_of_bytes b | None -> "NONE"

let action_str = function
  | Deny401 -> "Deny401" | Bad400 -> "Bad400" | NotAllowed405 -> "NotAllowed405" | Unsupported415 -> "Unsupported415"
  | DoGet i -> "DoGet:" ^ id_hex i | DoHead i -> "DoHead:" ^ id_hex i | DoPut (i, _) -> "DoPut:" ^ id_hex i
  | IdxGet n -> "IdxGet:" ^ hex_of_bytes n | IdxHead n -> "IdxHead:" ^ hex_of_bytes n | IdxPut (n, _) -> "IdxPut:" ^ hex_of_bytes n

let register () =
  (* ---- Go standard library models ---- *)
  Drv.register "gopath.clean" (fun a -> match a with [p] -> hex_of_bytes (GoPath.clean (bytes_of_hex p)) | _ -> "ERR args");
  Drv.register "gopath.base" (fun a -> match a with [p] -> hex_of_bytes (GoPath.base (bytes_of_hex p)) | _ -> "ERR args");
  Drv.register "gopath.dir" (fun a -> match a with [p] -> hex_of_bytes (GoPath.dir (bytes_of_hex p)) | _ -> "ERR args");
  Drv.register "gopath.split" (fun a -> match a with
    | [p] -> let (d, f) = GoPath.split_path (bytes_of_hex p) in hex_of_bytes d ^ " " ^ hex_of_bytes f
    | _ -> "ERR args");
  (* clean base dir split-dir split-file in one round trip *)
  Drv.register "gopath.all" (fun a -> match a with
    | [p] -> let b = bytes_of_hex p in let (d, f) = GoPath.split_path b in
        Stdlib.String.concat " " [hex_of_bytes (GoPath.clean b); hex_of_bytes (GoPath.base b); hex_of_bytes (GoPath.dir b); hex_of_bytes d; hex_of_bytes f]
    | _ -> "ERR args");
  Drv.register "gopath.join" (fun a -> match a with
    | [es] -> hex_of_bytes (GoPath.join (Stdlib.List.map elem_of (split_on ',' es)))
    | _ -> "ERR args");
  Drv.register "gostrings.hassuffix" (fun a -> match a with
    | [s; t] -> if GoPath.has_suffix (bytes_of_hex s) (bytes_of_hex t) then "1" else "0" | _ -> "ERR args");
  Drv.register "gostrings.hasprefix" (fun a -> match a with
    | [s; t] -> if GoPath.has_prefix (bytes_of_hex s) (bytes_of_hex t) then "1" else "0" | _ -> "ERR args");
  Drv.register "gostrings.trimsuffix" (fun a -> match a with
    | [s; t] -> hex_of_bytes (GoPath.trim_suffix (bytes_of_hex s) (bytes_of_hex t)) | _ -> "ERR args");
  Drv.register "gostrings.trimprefix" (fun a -> match a with
    | [s; t] -> hex_of_bytes (GoPath.trim_prefix (bytes_of_hex s) (bytes_of_hex t)) | _ -> "ERR args");
  Drv.register "gohex.encode" (fun a -> match a with [s] -> hex_of_bytes (Hex.hex (bytes_of_hex s)) | _ -> "ERR args");
  Drv.register "gohex.decode" (fun a -> match a with [s] -> opt_hex (Hex.unhex (bytes_of_hex s)) | _ -> "ERR args");

  (* ---- idFromPath: c15.idfrompath <compressed> <path> -> id hex | NONE ---- *)
  Drv.register "c15.idfrompath" (fun a -> match a with
    | [c; p] -> opt_hex (id_from_path (bool_of c) (bytes_of_hex p))
    | _ -> "ERR args");

  (* ---- chunk handler over a LocalStore:
     c15.chunk <auth> <writable> <skipverifywrite> <compressed> <storewritable> <store_uncompressed> <store_skipverify>
               <method> <path> <authhdr> <body> <files id:content,...> <zdecomp tab> <zcomp tab>
     -> <action> <status> <body> <files'> ---- *)
  Drv.register "c15.chunk" (fun a -> match a with
    | [auth; wr; svw; comp; swr; sunc; ssv; m; p; ah; body; files; ztab; ctab] ->
        let zd = partial_of "zdecomp" (parse_tab ztab) and zc = total_of "zcomp" (parse_tab ctab) in
        let c = { c_auth = bytes_of_hex auth; c_writable = bool_of wr; c_skip_verify_write = bool_of svw;
                  c_compressed = bool_of comp; c_store_writable = bool_of swr } in
        let fl = Stdlib.List.map (fun kv -> match Stdlib.String.split_on_char ':' kv with
            | [k; v] -> (Sha256.id_of_hex k, bytes_of_hex v) | _ -> failwith "files") (split_on ',' files) in
        let s = { ls_files = fl; ls_uncompressed = bool_of sunc; ls_skip_verify = bool_of ssv } in
        let r = { r_method = meth_of m; r_path = bytes_of_hex p; r_auth = bytes_of_hex ah; r_body = bytes_of_hex body } in
        (try
          let act = chunk_serve Sha256.h_model zd c r in
          let (rs, s') = chunk_handle Sha256.h_model zc zd c s r in
          let out = Stdlib.List.sort compare (Stdlib.List.map (fun (i, b) -> id_hex i ^ ":" ^ hex_of_bytes b) s'.ls_files) in
          Printf.sprintf "%s %s %s %s" (action_str act) (string_of_n rs.status) (hex_of_bytes rs.body)
            (if out = [] then "-" else Stdlib.String.concat "," out)
        with Table_miss w -> "ERR table miss " ^ w)
    | _ -> "ERR args");

  (* ---- `desync chunk-server` from its options (Model/ServerCLI.v):
     c15.clichunk <auth flag> <auth env> <writable> <skipverifywrite> <skipverifyread> <uncompressed>
                  <method> <path> <authhdr> <body> <files> <zdecomp tab> <zcomp tab>
     -> <action> <status> <body> <files'> ---- *)
  Drv.register "c15.clichunk" (fun a -> match a with
    | [af; ae; wr; svw; svr; unc; m; p; ah; body; files; ztab; ctab] ->
        let zd = partial_of "zdecomp" (parse_tab ztab) and zc = total_of "zcomp" (parse_tab ctab) in
        let o = { ServerCLI.o_auth_flag = bytes_of_hex af; ServerCLI.o_auth_env = bytes_of_hex ae; ServerCLI.o_writable = bool_of wr;
                  ServerCLI.o_skip_verify_write = bool_of svw; ServerCLI.o_skip_verify_read = bool_of svr; ServerCLI.o_uncompressed = bool_of unc } in
        let fl = Stdlib.List.map (fun kv -> match Stdlib.String.split_on_char ':' kv with
            | [k; v] -> (Sha256.id_of_hex k, bytes_of_hex v) | _ -> failwith "files") (split_on ',' files) in
        let r = { r_method = meth_of m; r_path = bytes_of_hex p; r_auth = bytes_of_hex ah; r_body = bytes_of_hex body } in
        (try
          let act = chunk_serve Sha256.h_model zd (ServerCLI.cli_chunk_cfg o) r in
          let (rs, s') = ServerCLI.cli_chunk_handle Sha256.h_model zc zd o fl r in
          let out = Stdlib.List.sort compare (Stdlib.List.map (fun (i, b) -> id_hex i ^ ":" ^ hex_of_bytes b) s'.ls_files) in
          Printf.sprintf "%s %s %s %s" (action_str act) (string_of_n rs.status) (hex_of_bytes rs.body)
            (if out = [] then "-" else Stdlib.String.concat "," out)
        with Table_miss w -> "ERR table miss " ^ w)
    | _ -> "ERR args");

  (* c15.cliindex <auth flag> <auth env> <writable> <method> <path> <authhdr> <body> <dir> <codec tab> *)
  Drv.register "c15.cliindex" (fun a -> match a with
    | [af; ae; wr; m; p; ah; body; dir; itab] ->
        let tab = parse_tab itab in
        let dec = partial_of "idx_decode" tab and enc = (fun (x : BinNums.coq_N list) -> x) in
        let o = { ServerCLI.o_auth_flag = bytes_of_hex af; ServerCLI.o_auth_env = bytes_of_hex ae; ServerCLI.o_writable = bool_of wr;
                  ServerCLI.o_skip_verify_write = false; ServerCLI.o_skip_verify_read = false; ServerCLI.o_uncompressed = false } in
        let d = Stdlib.List.map (fun e -> match Stdlib.String.split_on_char ':' e with
            | [n; "D"] -> (bytes_of_hex n, DDir)
    | [n; "E"] -> (bytes_of_hex n, DErr)
            | [n; "F"; v] -> (bytes_of_hex n, DFile (bytes_of_hex v))
            | _ -> failwith "dir") (split_on ',' dir) in
        let r = { r_method = meth_of m; r_path = bytes_of_hex p; r_auth = bytes_of_hex ah; r_body = bytes_of_hex body } in
        (try
          let act = index_serve dec (ServerCLI.cli_index_cfg o) r in
          let (rs, d') = ServerCLI.cli_index_handle dec enc o d r in
          let out = Stdlib.List.sort compare (Stdlib.List.map (fun (n, e) -> match e with
              | DDir -> hex_of_bytes n ^ ":D" | DErr -> hex_of_bytes n ^ ":E" | DFile v -> hex_of_bytes n ^ ":F:" ^ hex_of_bytes v) d') in
          Printf.sprintf "%s %s %s %s" (action_str act) (string_of_n rs.status) (hex_of_bytes rs.body)
            (if out = [] then "-" else Stdlib.String.concat "," out)
        with Table_miss w -> "ERR table miss " ^ w)
    | _ -> "ERR args");

  (* ---- index handler over a LocalIndexStore:
     c15.index <auth> <writable> <storewritable> <method> <path> <authhdr> <body> <dir name:F:content|name:D,...> <codec tab body:recoded|body:!>
     -> <action> <status> <body> <dir'> ---- *)
  Drv.register "c15.index" (fun a -> match a with
    | [auth; wr; swr; m; p; ah; body; dir; itab] ->
        let tab = parse_tab itab in
        (* index_t := canonical encoding *)
        let dec = partial_of "idx_decode" tab and enc = (fun (x : BinNums.coq_N list) -> x) in
        let c = { c_auth = bytes_of_hex auth; c_writable = bool_of wr; c_skip_verify_write = false;
                  c_compressed = false; c_store_writable = bool_of swr } in
        let d = Stdlib.List.map (fun e -> match Stdlib.String.split_on_char ':' e with
            | [n; "D"] -> (bytes_of_hex n, DDir)
    | [n; "E"] -> (bytes_of_hex n, DErr)
            | [n; "F"; v] -> (bytes_of_hex n, DFile (bytes_of_hex v))
            | _ -> failwith "dir") (split_on ',' dir) in
        let r = { r_method = meth_of m; r_path = bytes_of_hex p; r_auth = bytes_of_hex ah; r_body = bytes_of_hex body } in
        (try
          let act = index_serve dec c r in
          let (rs, d') = index_handle dec enc c d r in
          let out = Stdlib.List.sort compare (Stdlib.List.map (fun (n, e) -> match e with
              | DDir -> hex_of_bytes n ^ ":D" | DErr -> hex_of_bytes n ^ ":E" | DFile v -> hex_of_bytes n ^ ":F:" ^ hex_of_bytes v) d') in
          Printf.sprintf "%s %s %s %s" (action_str act) (string_of_n rs.status) (hex_of_bytes rs.body)
            (if out = [] then "-" else Stdlib.String.concat "," out)
        with Table_miss w -> "ERR table miss " ^ w)
    | _ -> "ERR args")
