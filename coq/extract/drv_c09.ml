(* C09 oracle commands: the extracted IndexPos model (Model/ReadSeeker.v) run on a case.
   H = SHA-256 (the Go side runs with desync.Digest = SHA256). *)
open Conv
open BinNums

let z_of_int (i : int) : coq_Z =
  if i = 0 then Z0 else if i > 0 then Zpos (pos_of_z (Z.of_int i)) else Zneg (pos_of_z (Z.of_int (- i)))
let int_of_z (z : coq_Z) : int =
  match z with Z0 -> 0 | Zpos p -> Z.to_int (z_of_pos p) | Zneg p -> - (Z.to_int (z_of_pos p))

(* decimal string of any size (int64 offsets exceed OCaml's 63-bit int) *)
let z_of_string (s : string) : coq_Z =
  let z = Z.of_string s in
  if Z.sign z = 0 then Z0 else if Z.sign z > 0 then Zpos (pos_of_z z) else Zneg (pos_of_z (Z.neg z))

(* rows: idhex:start:size,... *)
let parse_rows (s : string) : ReadSeeker.index =
  Stdlib.List.map (fun r -> match Stdlib.String.split_on_char ':' r with
      | [i; st; sz] -> { ReadSeeker.r_id = Sha256.id_of_hex i; r_start = n_of_string st; r_size = n_of_string sz }
      | _ -> failwith "row") (split_on ',' s)

(* store: idhex=datahex,... (datahex "-" = empty); faults: k:code,...  A call whose number is listed fails with
   that code; an ID that is not in the table fails with code 1 (missing). *)
let parse_store (tab : string) (faults : string) : ReadSeeker.store_t =
  let t = Hashtbl.create 64 in
  Stdlib.List.iter (fun e -> match Stdlib.String.split_on_char '=' e with
      | [i; d] -> Hashtbl.replace t (Z.of_string ("0x" ^ i)) (bytes_of_hex d)
      | _ -> failwith "store entry") (split_on ',' tab);
  let f = Hashtbl.create 16 in
  Stdlib.List.iter (fun e -> match Stdlib.String.split_on_char ':' e with
      | [k; c] -> Hashtbl.replace f (int_of_string k) (n_of_string c)
      | _ -> failwith "fault") (split_on ',' faults);
  fun k i ->
    match Hashtbl.find_opt f (int_of_nat k) with
    | Some c -> ReadSeeker.SFail c
    | None -> (match Hashtbl.find_opt t (z_of_n i) with
               | Some d -> ReadSeeker.SData d
               | None -> ReadSeeker.SFail (n_of_int 1))

let err_class (e : ReadSeeker.err option) : string =
  match e with
  | None -> "ok"
  | Some ReadSeeker.EEOF -> "eof"
  | Some ReadSeeker.EUnexpectedEOF -> "unexpected-eof"
  | Some (ReadSeeker.EStore c) when int_of_n c = 5 -> "wrapped-eof"
  | Some (ReadSeeker.EStore c) -> (match int_of_n c with 1 -> "missing" | 2 -> "fault" | 3 -> "other" (* undecodable object: Chunk.Data() fails *) | n -> "store" ^ string_of_int n)
  | Some _ -> "other"   (* seek errors and "no data in chunk": plain errors in the Go code *)

(* ops: S:<offset>:<whence> | R:<len> *)
let parse_ops (s : string) : ReadSeeker.op list =
  Stdlib.List.map (fun o -> match Stdlib.String.split_on_char ':' o with
      | ["S"; off; wh] -> ReadSeeker.OSeek (z_of_string off, z_of_int (int_of_string wh))
      | ["R"; n] -> ReadSeeker.ORead (nat_of_int (int_of_string n))
      | _ -> failwith "op") (split_on ',' s)

let register () =
  (* c09.run <max> <rows> <store> <faults> <ops> -> per op S:<ret>:<class> | R:<hex>:<class> | P | F, then ;calls=<n>;pos=<p> *)
  Drv.register "c09.run" (fun args -> match args with
    | [max; rows; tab; faults; ops] ->
        let idx = parse_rows rows in
        let nc = ReadSeeker.new_null_chunk Sha256.h_model (n_of_string max) in
        let store = parse_store tab faults in
        let ((s, calls), rs) = ReadSeeker.run_ops store nc idx (ReadSeeker.new_ipos idx, O) (parse_ops ops) in
        let out = Stdlib.List.map (fun r -> match r with
            | ReadSeeker.RSeek (ret, e) -> Printf.sprintf "S:%d:%s" (int_of_z ret) (err_class e)
            | ReadSeeker.RRead (d, e) -> Printf.sprintf "R:%s:%s" (hex_of_bytes d) (err_class e)
            | ReadSeeker.RPanic -> "P"
            | ReadSeeker.RNoFuel -> "F") rs in
        Printf.sprintf "%s;calls=%d;pos=%d" (if out = [] then "-" else Stdlib.String.concat "," out)
          (int_of_nat calls) (int_of_z s.ReadSeeker.pos)
    | _ -> "ERR args");
  (* c09.fuse <max> <rows> <store> <faults> <nhandles> <reqs h:off:len,...> -> D:<hex> | EIO | NOHANDLE | P | F per request, ;calls=<n> *)
  Drv.register "c09.fuse" (fun args -> match args with
    | [max; rows; tab; faults; nh; reqs] ->
        let idx = parse_rows rows in
        let nc = ReadSeeker.new_null_chunk Sha256.h_model (n_of_string max) in
        let store = parse_store tab faults in
        let rqs = Stdlib.List.map (fun o -> match Stdlib.String.split_on_char ':' o with
            | [h; off; len] -> ((nat_of_int (int_of_string h), z_of_int (int_of_string off)), nat_of_int (int_of_string len))
            | _ -> failwith "req") (split_on ',' reqs) in
        let ((_, calls), rs) = ReadSeeker.fuse_run store nc idx (ReadSeeker.fuse_open idx (nat_of_int (int_of_string nh))) rqs in
        let out = Stdlib.List.map (fun r -> match r with
            | None -> "NOHANDLE"
            | Some (ReadSeeker.FData d) -> "D:" ^ hex_of_bytes d
            | Some ReadSeeker.FEIO -> "EIO"
            | Some ReadSeeker.FPanic -> "P"
            | Some ReadSeeker.FNoFuel -> "F") rs in
        Printf.sprintf "%s;calls=%d" (if out = [] then "-" else Stdlib.String.concat "," out) (int_of_nat calls)
    | _ -> "ERR args");
  (* c09.search <n> <bits> -> sort.Search over the predicate given as a 0/1 string *)
  Drv.register "c09.search" (fun args -> match args with
    | [n; bits] ->
        let b = if bits = "-" then "" else bits in
        (match ReadSeeker.go_search (nat_of_int (int_of_string n))
                 (fun i -> let k = int_of_nat i in k < Stdlib.String.length b && b.[k] = '1') with
         | Some k -> string_of_int (int_of_nat k)
         | None -> "NONE")
    | _ -> "ERR args")
