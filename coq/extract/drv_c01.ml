(* C01 oracle commands *)
open Conv

let show_ops ops =
  if ops = [] then "-" else
  Stdlib.String.concat "," (Stdlib.List.map (fun o -> match o with
    | Clone.Copy (d, s, l) -> "copy:" ^ string_of_n d ^ ":" ^ string_of_n s ^ ":" ^ string_of_n l
    | Clone.Clone (d, s, l) -> "clone:" ^ string_of_n d ^ ":" ^ string_of_n s ^ ":" ^ string_of_n l) ops)

let register () =
  (* c01.fsclone <srcOffset> <srcLength> <dstOffset> <blocksize> *)
  Drv.register "c01.fsclone" (fun args -> match args with
    | [so; sl; d; bs] -> show_ops (Clone.fs_clone_ops (n_of_string so) (n_of_string sl) (n_of_string d) (n_of_string bs))
    | _ -> "ERR args");
  (* c01.nsclone <offset> <length> <blocksize> *)
  Drv.register "c01.nsclone" (fun args -> match args with
    | [o; l; bs] -> show_ops (Clone.ns_clone_ops (n_of_string o) (n_of_string l) (n_of_string bs))
    | _ -> "ERR args")
