(* C01 oracle commands *)
open Conv

let show_ops ops =
  if ops = [] then "-" else
  Stdlib.String.concat "," (Stdlib.List.map (fun o -> match o with
    | Clone.Copy (d, s, l) -> "copy:" ^ string_of_n d ^ ":" ^ string_of_n s ^ ":" ^ string_of_n l
    | Clone.Clone (d, s, l) -> "clone:" ^ string_of_n d ^ ":" ^ string_of_n s ^ ":" ^ string_of_n l) ops)

let register () =
  (* c01.fsclone <srcOffset> <srcLength> <dstOffset> <blocksize> *)
  Drv.register "c01.fsclone" (fun args -> match args with
    | [so; sl; d; bs] -> show_ops (Clone.fs_clone_ops (n_of_string so) (n_of_string sl) (n_of_string d) (n_of_string bs))
    | _ -> "ERR args");
  (* c01.nsclone <offset> <length> <blocksize> *)
  Drv.register "c01.nsclone" (fun args -> match args with
    | [o; l; bs] -> show_ops (Clone.ns_clone_ops (n_of_string o) (n_of_string l) (n_of_string bs))
    | _ -> "ERR args")

(* ---- sequencer ---- *)
let split c s = Stdlib.String.split_on_char c s

let parse_rows (s : string) : Sequencer.ichunk list =
  if s = "-" then [] else
  Stdlib.List.map (fun t -> match split ':' t with
    | [i; st; sz] -> { Sequencer.c_id = n_of_string i; c_start = n_of_string st; c_size = n_of_string sz }
    | _ -> failwith "bad row") (split ',' s)

(* F<canReflink><invalid>;rows   or   N<canReflink>;id *)
let parse_seed (s : string) : Sequencer.seedm =
  match split ';' s with
  | [hd; body] when Stdlib.String.length hd = 3 && hd.[0] = 'F' ->
      Sequencer.SFile ((hd.[1] = '1'), (hd.[2] = '1'), parse_rows body)
  | [hd; body] when Stdlib.String.length hd = 2 && hd.[0] = 'N' ->
      Sequencer.SNull ((hd.[1] = '1'), n_of_string body)
  | _ -> failwith "bad seed"

let show_cand (c : Sequencer.cand) : string =
  let f = string_of_int (int_of_nat c.Sequencer.cd_first) and l = string_of_int (int_of_nat c.Sequencer.cd_last) in
  match c.Sequencer.cd_src with
  | None -> f ^ ":" ^ l ^ ":0:0:0:0:0"
  | Some (Sequencer.FromFile (k, m) as s) ->
      let st = match m with [] -> "0" | x :: _ -> string_of_n x.Sequencer.c_start in
      f ^ ":" ^ l ^ ":1:" ^ string_of_int (int_of_nat k) ^ ":" ^ st ^ ":" ^ string_of_int (Stdlib.List.length m)
      ^ ":" ^ string_of_n (Sequencer.src_size s)
  | Some (Sequencer.FromNull (k, a, b) as s) ->
      f ^ ":" ^ l ^ ":2:" ^ string_of_int (int_of_nat k) ^ ":" ^ string_of_n a ^ ":" ^ string_of_n b
      ^ ":" ^ string_of_n (Sequencer.src_size s)

let () =
  (* c01.plan <rows> <seed>* : the plan of SeedSequencer.Plan *)
  Drv.register "c01.plan" (fun args -> match args with
    | rows :: seeds ->
        let p = Sequencer.plan (Stdlib.List.map parse_seed seeds) (parse_rows rows) in
        if p = [] then "-" else Stdlib.String.concat "," (Stdlib.List.map show_cand p)
    | _ -> "ERR args")

(* ---- assemble trace ----
   c01.atrace <idx: idhex:size,...|-> <plan: first:last,...|-> <file0 hex> <events|->
   events: S:j  W:j:off:hex  V:j:i  P:j:i  T:j:i:hex  C:j:i:src  F:j
   Answer: "ok <all_finished 0|1> <file hex>" | "FAIL <position>" *)
let () =
  let nat s = nat_of_int (int_of_string s) in
  let parse_ev (t : string) : Assemble.event =
    match split ':' t with
    | ["S"; j] -> Assemble.EStart (nat j)
    | ["W"; j; off; hx] -> Assemble.EWrite (nat j, nat off, bytes_of_hex hx)
    | ["V"; j; i] -> Assemble.EValidate (nat j, nat i)
    | ["P"; j; i] -> Assemble.EInPlace (nat j, nat i)
    | ["T"; j; i; hx] -> Assemble.EStore (nat j, nat i, bytes_of_hex hx)
    | ["C"; j; i; src] -> Assemble.ESelfCopy (nat j, nat i, nat src)
    | ["F"; j] -> Assemble.EFinish (nat j)
    | _ -> failwith ("bad event " ^ t) in
  Drv.register "c01.atrace" (fun args -> match args with
    | [idx; plan; file0; evs] ->
        let h = Sha256.h_model in
        let idx = if idx = "-" then [] else Stdlib.List.map (fun t -> match split ':' t with
          | [i; sz] -> (Sha256.id_of_hex i, nat sz) | _ -> failwith "bad row") (split ',' idx) in
        let plan = if plan = "-" then [] else Stdlib.List.map (fun t -> match split ':' t with
          | [f; l] -> (nat f, nat l) | _ -> failwith "bad seg") (split ',' plan) in
        let evs = if evs = "-" then [] else Stdlib.List.map parse_ev (split ',' evs) in
        let rec go pos s = function
          | [] -> Ok s
          | e :: r -> (match Assemble.step h idx plan s e with Some s' -> go (pos + 1) s' r | None -> Error pos) in
        (match go 0 (Assemble.init plan (bytes_of_hex file0)) evs with
         | Error pos -> "FAIL " ^ string_of_int pos
         | Ok s -> "ok " ^ (if Assemble.all_finished s then "1" else "0") ^ " " ^ hex_of_bytes s.Assemble.a_file)
    | _ -> "ERR args")

(* ---- self seed ----
   c01.selfseed <ids csv|-> <adds first:last,...|-> <queries csv|->
   after each add: written and, per query id, the row offered (-1 = none):  "w;r,r,r|w;r,r,r|..." *)
let () =
  let nat s = nat_of_int (int_of_string s) in
  Drv.register "c01.selfseed" (fun args -> match args with
    | [ids; adds; qs] ->
        let ids = if ids = "-" then [] else Stdlib.List.map n_of_string (split ',' ids) in
        let adds = if adds = "-" then [] else Stdlib.List.map (fun t -> match split ':' t with
          | [f; l] -> (nat f, nat l) | _ -> failwith "bad seg") (split ',' adds) in
        let qs = if qs = "-" then [] else Stdlib.List.map n_of_string (split ',' qs) in
        let st = ref SelfSeed.ss_init in
        let out = Stdlib.List.map (fun a ->
          st := SelfSeed.ss_add !st a;
          string_of_int (int_of_nat (!st).SelfSeed.ss_written) ^ ";" ^
          Stdlib.String.concat "," (Stdlib.List.map (fun q -> match SelfSeed.ss_get ids !st q with
            | Some p -> string_of_int (int_of_nat p) | None -> "-1") qs)) adds in
        if out = [] then "-" else Stdlib.String.concat "|" out
    | _ -> "ERR args")

(* ---- the plan / validate / skip / regenerate loop with the seeds' data ----
   c01.vloop <bail|skip|regen> <min> <avg> <max> <target rows idhex:size,...|-> <seed>*
     seed = n:<canReflink 0|1>:<idhex>   |   f:<canReflink>:<rows idhex:size,...|->:<data hex|->
   One validation worker: the first failing seed in plan order is the one marked (choices = []).
   Answer: "<ok 0|1> <attempts> <plan first:last:src,...|-> <stale> <usable>"   src: 0 = none, 1+k = seed k *)
let () =
  let nat s = nat_of_int (int_of_string s) in
  let rows_of (s : string) : Sequencer.ichunk list =
    if s = "-" then [] else
    let off = ref Z.zero in
    Stdlib.List.map (fun t -> match split ':' t with
      | [i; sz] ->
          let st = !off in
          off := Z.add !off (Z.of_string sz);
          { Sequencer.c_id = Sha256.id_of_hex i; c_start = n_of_z st; c_size = n_of_string sz }
      | _ -> failwith "bad row") (split ',' s) in
  Drv.register "c01.vloop" (fun args -> match args with
    | act :: mn :: avg :: mx :: rows :: seeds ->
        let h = Sha256.h_model in
        let act = match act with "bail" -> Regenerate.Bail | "skip" -> Regenerate.Skip | "regen" -> Regenerate.Regen
                                | _ -> failwith "bad action" in
        let d = Discriminator.disc_of_avg (n_of_string avg) in
        let chunkf data = Regenerate.rows_of_chunks h N0 (Chunker.chunk_all (nat mn) (nat mx) d data) in
        let ds = Stdlib.List.map (fun s -> match split ':' s with
          | ["n"; cr; i] -> (Sequencer.SNull ((cr = "1"), Sha256.id_of_hex i), [])
          | ["f"; cr; r; data] -> (Sequencer.SFile ((cr = "1"), false, rows_of (Stdlib.String.concat ":" [r])), bytes_of_hex data)
          | "f" :: cr :: rest ->
              (* rows contain ':' themselves: the data is the last field *)
              let rec last = function [x] -> ([], x) | x :: r -> let (a, b) = last r in (x :: a, b) | [] -> failwith "bad seed" in
              let (r, data) = last rest in
              (Sequencer.SFile ((cr = "1"), false, rows_of (Stdlib.String.concat ":" r)), bytes_of_hex data)
          | _ -> failwith "bad seed") seeds in
        let idx = rows_of rows in
        let fuel = nat_of_int (Stdlib.List.length ds + 3) in
        (match Regenerate.vloop h chunkf act fuel ds idx [] with
         | None -> "FUEL"
         | Some o ->
             let src c = match c.Sequencer.cd_src with
               | None -> 0
               | Some (Sequencer.FromFile (k, _)) -> 1 + int_of_nat k
               | Some (Sequencer.FromNull (k, _, _)) -> 1 + int_of_nat k in
             let plan = Stdlib.List.map (fun c ->
               string_of_int (int_of_nat c.Sequencer.cd_first) ^ ":" ^ string_of_int (int_of_nat c.Sequencer.cd_last)
               ^ ":" ^ string_of_int (src c)) o.Regenerate.o_plan in
             (if o.Regenerate.o_ok then "1" else "0") ^ " " ^ string_of_int (int_of_nat o.Regenerate.o_attempts) ^ " "
             ^ (if plan = [] then "-" else Stdlib.String.concat "," plan) ^ " "
             ^ string_of_int (int_of_nat (Regenerate.stale h ds)) ^ " "
             ^ string_of_int (int_of_nat (Regenerate.dusable ds)))
    | _ -> "ERR args")
