(* C19 oracle commands: the decoders of Model/{Format,Archive,Protocol}.v run in a loop
   over an arbitrary byte string, the way the harness drives the Go decoders.

   c19.elems <hex>    FormatDecoder.Next until nil or error
   c19.archive <hex>  ArchiveDecoder.Next until nil or error
   c19.msgs <hex>     Protocol.ReadMessage until the input is used up or an error occurs
   answer: <alloc> <end|err:KIND|panic:KIND> <item|item|...|->
   (index files: c04.decode)

   item syntax (numbers decimal, byte strings hex with "-" for empty):
     entry:size:flags:mode:fflags:uid:gid:mtime   user|group|xattr|selinux|filename|symlink:size:hex
     device:size:major:minor   payload|fcaps:size:hex   acluser|aclgroup:size:id:perm:hex
     aclgroupobj:size:perm   acldefault:size:u:g:o:m   goodbye:size:o/s/h;o/s/h   index:size:ff:min:avg:max
     table:size:off/idhex;...
     dir|file|symlink|device:name:uid:gid:mode:mtime:k=v,k=v[:extra...]     msg:type:bodyhex *)
open Conv

let n = string_of_n
let hx = hex_of_bytes
let cat = Stdlib.String.concat

let string_of_elem (e : Format.elem) : string =
  let sz h = n h.Format.h_size in
  match e with
  | Format.Entry (h, ff, mode, fl, uid, gid, mtime) -> cat ":" ["entry"; sz h; n ff; n mode; n fl; n uid; n gid; n mtime]
  | Format.User (h, s) -> cat ":" ["user"; sz h; hx s]
  | Format.Group (h, s) -> cat ":" ["group"; sz h; hx s]
  | Format.XAttr (h, s) -> cat ":" ["xattr"; sz h; hx s]
  | Format.SELinux (h, s) -> cat ":" ["selinux"; sz h; hx s]
  | Format.Filename (h, s) -> cat ":" ["filename"; sz h; hx s]
  | Format.Symlink (h, s) -> cat ":" ["symlink"; sz h; hx s]
  | Format.Device (h, a, b) -> cat ":" ["device"; sz h; n a; n b]
  | Format.Payload (h, d) -> cat ":" ["payload"; sz h; hx d]
  | Format.FCaps (h, d) -> cat ":" ["fcaps"; sz h; hx d]
  | Format.ACLUser (h, i, p, s) -> cat ":" ["acluser"; sz h; n i; n p; hx s]
  | Format.ACLGroup (h, i, p, s) -> cat ":" ["aclgroup"; sz h; n i; n p; hx s]
  | Format.ACLGroupObj (h, p) -> cat ":" ["aclgroupobj"; sz h; n p]
  | Format.ACLDefault (h, u, g, o, m) -> cat ":" ["acldefault"; sz h; n u; n g; n o; n m]
  | Format.Goodbye (h, items) ->
      cat ":" ["goodbye"; sz h;
               if items = [] then "-" else cat ";" (Stdlib.List.map (fun ((o, s), hh) -> cat "/" [n o; n s; n hh]) items)]
  | Format.Index (h, ff, mn, av, mx) -> cat ":" ["index"; sz h; n ff; n mn; n av; n mx]
  | Format.Table (h, items) ->
      cat ":" ["table"; sz h;
               if items = [] then "-" else cat ";" (Stdlib.List.map (fun (o, id) -> n o ^ "/" ^ hx id) items)]

let string_of_name comps = if comps = [] then "." else cat "/" (Stdlib.List.map hx comps)
let string_of_meta (m : Archive.meta) =
  cat ":" [n m.Archive.m_uid; n m.Archive.m_gid; n m.Archive.m_mode; n m.Archive.m_mtime]
let string_of_xattrs xs = if xs = [] then "-" else cat "," (Stdlib.List.map (fun (k, v) -> hx k ^ "=" ^ hx v) xs)

let string_of_node (nd : Archive.node) : string =
  match nd with
  | Archive.NDirectory (nm, m, xs) -> cat ":" ["dir"; string_of_name nm; string_of_meta m; string_of_xattrs xs]
  | Archive.NFile (nm, m, xs, size, data) -> cat ":" ["file"; string_of_name nm; string_of_meta m; string_of_xattrs xs; n size; hx data]
  | Archive.NSymlink (nm, m, xs, t) -> cat ":" ["symlink"; string_of_name nm; string_of_meta m; string_of_xattrs xs; hx t]
  | Archive.NDevice (nm, m, xs, a, b) -> cat ":" ["device"; string_of_name nm; string_of_meta m; string_of_xattrs xs; n a; n b]

let answer alloc status items =
  Printf.sprintf "%s %s %s" (Z.to_string alloc) status (if items = [] then "-" else cat "|" (Stdlib.List.rev items))

let status_of_err e = "err:" ^ Drv_c04.err_name e
let status_of_panic p = "panic:" ^ Drv_c04.panic_name p

let register () =
  Drv.register "c19.elems" (fun args -> match args with
    | [h] ->
        let rec go b alloc acc =
          let alloc = Z.add alloc (z_of_n (Format.decode_next_alloc b)) in
          match Format.decode_next b with
          | Format.Ok (None, _) -> answer alloc "end" acc
          | Format.Ok (Some e, rest) -> go rest alloc (string_of_elem e :: acc)
          | Format.Err e -> answer alloc (status_of_err e) acc
          | Format.Panic p -> answer alloc (status_of_panic p) acc in
        go (bytes_of_hex h) Z.zero []
    | _ -> "ERR args");
  Drv.register "c19.archive" (fun args -> match args with
    | [h] ->
        let rec go st b alloc acc =
          let alloc = Z.add alloc (z_of_n (ArchiveLeaf.decode_archive_next_full_alloc st b)) in
          match ArchiveLeaf.decode_archive_next_full st b with
          | Format.Ok ((None, _), _) -> answer alloc "end" acc
          | Format.Ok ((Some nd, st'), rest) -> go st' rest alloc (string_of_node nd :: acc)
          | Format.Err e -> answer alloc (status_of_err e) acc
          | Format.Panic p -> answer alloc (status_of_panic p) acc in
        go ArchiveLeaf.dstate0 (bytes_of_hex h) Z.zero []
    | _ -> "ERR args");
  Drv.register "c19.msgs" (fun args -> match args with
    | [h] ->
        let rec go b alloc acc =
          if b = [] then answer alloc "end" acc else
          let alloc = Z.add alloc (z_of_n (Protocol.decode_message_alloc b)) in
          match Protocol.decode_message b with
          | Format.Ok ((t, body), rest) -> go rest alloc (cat ":" ["msg"; n t; hx body] :: acc)
          | Format.Err e -> answer alloc (status_of_err e) acc
          | Format.Panic p -> answer alloc (status_of_panic p) acc in
        go (bytes_of_hex h) Z.zero []
    | _ -> "ERR args");
  (* c19.serve <idhex,idhex,...|-> <hex>: ProtocolServer.Serve on the client's byte stream; the store
     holds exactly the listed ids.  items: chunk:<idhex> | missing:<idhex> (the replies sent) *)
  Drv.register "c19.serve" (fun args -> match args with
    | [ids; h] ->
        let have = Stdlib.List.map bytes_of_hex (split_on ',' ids) in
        let store id = if Stdlib.List.mem id have then ProtocolServer.SFound else ProtocolServer.SMissing in
        let g = n_of_int 40 in
        (match ProtocolServer.serve_handshake (bytes_of_hex h) with
         | ((Format.Ok _, rest), a0) ->
             let rec go b alloc acc =
               match ProtocolServer.serve_one g store b with
               | ((Format.Ok ProtocolServer.SDone, _), a) -> answer (Z.add alloc (z_of_n a)) "end" acc
               | ((Format.Ok (ProtocolServer.SReply (ProtocolServer.RChunk id)), rest), a) ->
                   go rest (Z.add alloc (z_of_n a)) (("chunk:" ^ hx id) :: acc)
               | ((Format.Ok (ProtocolServer.SReply (ProtocolServer.RMissing id)), rest), a) ->
                   go rest (Z.add alloc (z_of_n a)) (("missing:" ^ hx id) :: acc)
               | ((Format.Err e, _), a) -> answer (Z.add alloc (z_of_n a)) (status_of_err e) acc
               | ((Format.Panic p, _), a) -> answer (Z.add alloc (z_of_n a)) (status_of_panic p) acc in
             go rest (z_of_n a0) []
         | ((Format.Err e, _), a) -> answer (z_of_n a) (status_of_err e) []
         | ((Format.Panic p, _), a) -> answer (z_of_n a) (status_of_panic p) [])
    | _ -> "ERR args");
  (* c19.client <hex>: Initialize, then RequestChunk while the server's stream lasts. items: missing | chunk *)
  Drv.register "c19.client" (fun args -> match args with
    | [h] ->
        (match ProtocolServer.recv_hello (bytes_of_hex h) with
         | ((Format.Ok _, rest), a0) ->
             let rec go b alloc acc =
               if b = [] then answer alloc "end" acc else
               match ProtocolServer.request_reply b with
               | ((Format.Ok ProtocolServer.CMissing, rest), a) -> go rest (Z.add alloc (z_of_n a)) ("missing" :: acc)
               | ((Format.Ok (ProtocolServer.CChunk _), rest), a) -> go rest (Z.add alloc (z_of_n a)) ("chunk" :: acc)
               | ((Format.Err e, _), a) -> answer (Z.add alloc (z_of_n a)) (status_of_err e) acc
               | ((Format.Panic p, _), a) -> answer (Z.add alloc (z_of_n a)) (status_of_panic p) acc in
             go rest (z_of_n a0) []
         | ((Format.Err e, _), a) -> answer (z_of_n a) (status_of_err e) []
         | ((Format.Panic p, _), a) -> answer (z_of_n a) (status_of_panic p) [])
    | _ -> "ERR args")
