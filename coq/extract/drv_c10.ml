(* C10 oracle commands: the extracted sparse-file loader model (Model/Sparse.v) run on a script.
   H = SHA-256 for the null chunk ID.  Reuses the row/store parsers of drv_c09. *)
open Conv
open BinNums

let z_of_int = Drv_c09.z_of_int
let int_of_z = Drv_c09.int_of_z

let bits (l : bool list) : string =
  if l = [] then "-" else Stdlib.String.concat "" (Stdlib.List.map (fun b -> if b then "1" else "0") l)

let err_class (e : Sparse.rerr) : string =
  match e with
  | Sparse.XStore c -> (match int_of_n c with 1 -> "missing" | 2 -> "fault" | 3 -> "other" (* undecodable object: Chunk.Data() fails *) | 5 -> "wrapped-eof" | n -> "store" ^ string_of_int n)
  | Sparse.XNoData -> "other"
  | Sparse.XNegative -> "other"
  | Sparse.XUnexpectedEOF -> "unexpected-eof"
  | Sparse.XFile -> "other"

let show_entry ((rq, r) : Sparse.request * Sparse.result) : string =
  let q = match rq with
    | Sparse.RqRead (off, len) -> Printf.sprintf "R:%d:%d" (int_of_z off) (int_of_nat len)
    | Sparse.RqLoad i -> Printf.sprintf "L:%d" (int_of_nat i)
    | Sparse.RqSave -> "S" in
  let a = match r with
    | Sparse.ROk (d, eof) -> Printf.sprintf "%s:%s" (hex_of_bytes d) (if eof then "eof" else "ok")
    | Sparse.RErr e -> "E:" ^ err_class e
    | Sparse.RDone -> "D" in
  q ^ "=" ^ a

(* script tokens:
     Q<k>:R:<off>:<len> | Q<k>:L:<i> | Q<k>:S     hand a request to goroutine k
     T<k>                                          one atomic step of goroutine k
     D<k>                                          run goroutine k until it has nothing left to do (or is blocked)
     U<k>                                          run goroutine k until it sits at the yield point before done.Set (or is blocked/finished)
     DA                                            drain all goroutines round-robin until none can move
     X:<state 0|1>:<K|A|R<n>>:<preload 0|1|I<bits>>  restart (I<bits>: pre-load from a separate init state file with these bits)
     Y:<K|A|R<n>>                                  start-up that fails after replacing the state and resizing the cache *)
let register () =
  Drv.register "c10.run" (fun args -> match args with
    | [max; rows; tab; faults; script] ->
        let idx = Drv_c09.parse_rows rows in
        let nullid = snd (ReadSeeker.new_null_chunk Sha256.h_model (n_of_string max)) in
        let base = Drv_c09.parse_store tab faults in
        let calls = ref [] in
        let store k i = (calls := (int_of_nat k, Z.format "%064x" (z_of_n i)) :: !calls); base k i in
        let step s l = Sparse.step idx nullid store s l in
        let s = ref (Sparse.init idx) in
        let at_fetch k = match Stdlib.List.nth_opt (!s).Sparse.s_threads k with
          | Some { Sparse.pc = Some (Sparse.PFetch _); _ } -> true | _ -> false in
        let at_set k = match Stdlib.List.nth_opt (!s).Sparse.s_threads k with
          | Some { Sparse.pc = Some (Sparse.PSet _); _ } -> true | _ -> false in
        let rec run_thread k stop fuel =
          if fuel > 0 && not (stop ()) then
            match step !s (Sparse.LThread (nat_of_int k)) with
            | Some s' -> s := s'; run_thread k stop (fuel - 1)
            | None -> () in
        let restarts = ref 0 in
        (* goroutine numbers of the script -> thread indices of the model (a new goroutine is appended) *)
        let tmap : (int, int) Hashtbl.t = Hashtbl.create 8 in
        let thr k = match Hashtbl.find_opt tmap k with Some i -> i | None -> -1 in
        Stdlib.List.iter (fun tok ->
            let parts = Stdlib.String.split_on_char ':' tok in
            let hd = Stdlib.List.hd parts in
            let num s = int_of_string (Stdlib.String.sub s 1 (Stdlib.String.length s - 1)) in
            match hd.[0] with
            | 'Q' ->
                let k0 = num hd in
                (if not (Hashtbl.mem tmap k0) then Hashtbl.replace tmap k0 (Stdlib.List.length (!s).Sparse.s_threads));
                let k = thr k0 in
                let rq = (match Stdlib.List.tl parts with
                    | ["R"; off; len] -> Sparse.RqRead (z_of_int (int_of_string off), nat_of_int (int_of_string len))
                    | ["L"; i] -> Sparse.RqLoad (nat_of_int (int_of_string i))
                    | ["S"] -> Sparse.RqSave
                    | _ -> failwith "request") in
                (match step !s (Sparse.LSubmit (nat_of_int k, rq)) with Some s' -> s := s' | None -> ())
            | 'T' -> if thr (num hd) >= 0 then (match step !s (Sparse.LThread (nat_of_int (thr (num hd)))) with Some s' -> s := s' | None -> ())
            | 'D' when hd = "DA" ->
                let moved = ref true in
                while !moved do
                  moved := false;
                  Stdlib.List.iteri (fun k _ ->
                      match step !s (Sparse.LThread (nat_of_int k)) with
                      | Some s' -> s := s'; moved := true
                      | None -> ()) (!s).Sparse.s_threads
                done
            | 'D' -> if thr (num hd) >= 0 then run_thread (thr (num hd)) (fun () -> false) 100000
            | 'U' -> let k = thr (num hd) in if k >= 0 then run_thread k (fun () -> at_set k) 100000
            | 'G' -> let k = thr (num hd) in if k >= 0 then run_thread k (fun () -> at_fetch k) 100000
            | 'K' -> (match step !s Sparse.LUnlink with Some s' -> s := s' | None -> ())   (* the cache file is unlinked *)
            | 'Y' ->   (* Y:<K|A|R<n>>  a start-up that fails late (after replacing the state and resizing the cache) *)
                (match Stdlib.List.tl parts with
                 | [cache] ->
                     let cm = if cache = "K" then Sparse.CKeep else if cache = "A" then Sparse.CAbsent
                       else Sparse.CResize (nat_of_int (num cache)) in
                     Hashtbl.reset tmap;
                     (match step !s (Sparse.LFailedStart { Sparse.m_state = true; m_cache = cm; m_preload = false }) with
                      | Some s' -> s := s' | None -> ())
                 | _ -> failwith "failed start")
            | 'X' ->
                (match Stdlib.List.tl parts with
                 | [st; cache; pre] ->
                     let cm = if cache = "K" then Sparse.CKeep else if cache = "A" then Sparse.CAbsent
                       else Sparse.CResize (nat_of_int (num cache)) in
                     incr restarts; Hashtbl.reset tmap;
                     let lbl =
                       if Stdlib.String.length pre > 0 && pre.[0] = 'I' then
                         (* a separate init state file with the given bits *)
                         let bits = Stdlib.List.init (Stdlib.String.length pre - 1) (fun i -> pre.[i + 1] = '1') in
                         Sparse.LRestartInit ({ Sparse.m_state = (st = "1"); m_cache = cm; m_preload = true }, bits)
                       else Sparse.LRestart { Sparse.m_state = (st = "1"); m_cache = cm; m_preload = (pre = "1") } in
                     (match step !s lbl with
                      | Some s' -> s := s' | None -> ())
                 | _ -> failwith "restart")
            | _ -> failwith ("token " ^ tok)) (split_on ',' script);
        let st = !s in
        let log = Stdlib.List.sort compare (Stdlib.List.filter (fun e -> e.[0] <> 'L') (Stdlib.List.map show_entry st.Sparse.s_log)) in
        let ids = Stdlib.List.sort compare (Stdlib.List.map snd !calls) in
        Printf.sprintf "%s;calls=%d;done=%s;saved=%s;file=%s;crashed=%d;ids=%s"
          (if log = [] then "-" else Stdlib.String.concat "," log)
          (int_of_nat st.Sparse.s_calls) (bits st.Sparse.s_done)
          (match st.Sparse.s_saved with None -> "none" | Some b -> bits b)
          (hex_of_bytes st.Sparse.s_file) (if st.Sparse.s_crashed then 1 else 0)
          (if ids = [] then "-" else Stdlib.String.concat "," (Stdlib.List.map (fun h -> Stdlib.String.sub h 0 8) ids))
    | _ -> "ERR args");
  (* c10.range <rows> <start> <length> -> first:last *)
  Drv.register "c10.range" (fun args -> match args with
    | [rows; st; len] ->
        (match Sparse.index_range (Drv_c09.parse_rows rows) (z_of_int (int_of_string st)) (z_of_int (int_of_string len)) with
         | Some (a, b) -> Printf.sprintf "%d:%d" (int_of_z a) (int_of_z b)
         | None -> "NONE")
    | _ -> "ERR args")
