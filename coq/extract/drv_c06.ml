(* C06 oracle commands *)
open Conv

(* Contents are numbered by the harness; a chunk's bytes are the one-element list [c] and
   H [c] = c, a collision-free digest on the contents of the case (DESIGN section 5). *)
let h_table (b : BinNums.coq_N list) : BinNums.coq_N = match b with x :: _ -> x | [] -> n_of_int 0

let register () =
  (* c06.run <chop|copy|stream> <nw> <id:content,...> <src ids|-> <store0 ids|-> <h:n,s:n,g:n ...|->
     -> "<nil|err|interrupted|NOTFINAL> <sorted ids in the target|-> <hits> <nhas>/<nstore>/<nget> <rows|->"
     run under the deterministic round-robin scheduler (exact for nw = 1). *)
  Drv.register "c06.run" (fun args -> match args with
    | [mode; nw; jobs; src; store0; faults] ->
        let mode = match mode with "chop" -> BulkWrite.MChop | "copy" -> BulkWrite.MCopy | "stream" -> BulkWrite.MStream | _ -> failwith "mode" in
        let jobs = Stdlib.List.map (fun j -> match Stdlib.String.split_on_char ':' j with
            | [i; c] -> (n_of_int (int_of_string i), [n_of_int (int_of_string c)])
            | _ -> failwith "job") (split_on ',' jobs) in
        let srcids = Stdlib.List.map int_of_string (split_on ',' src) in
        let srcf (i : BinNums.coq_N) = let k = int_of_n i in if Stdlib.List.mem k srcids then Some [n_of_int k] else None in
        let st0 = Stdlib.List.map (fun s -> let k = int_of_string s in (n_of_int k, [n_of_int k])) (split_on ',' store0) in
        let fl = Stdlib.List.map (fun f -> match Stdlib.String.split_on_char ':' f with
            | [k; n] -> (k, int_of_string n) | _ -> failwith "fault") (split_on ',' faults) in
        let fault (o : BulkWrite.op_kind) (n : Datatypes.nat) =
          let k = match o with BulkWrite.OpHas -> "h" | BulkWrite.OpStore -> "s" | BulkWrite.OpGet -> "g" in
          Stdlib.List.mem (k, int_of_nat n) fl in
        let nwi = int_of_string nw in
        let nj = Stdlib.List.length jobs in
        let s = BulkWrite.run_rr h_table mode jobs srcf fault false (nat_of_int (20 * (nj + 2) * (nwi + 1) + 50)) (nat_of_int nwi)
                  (BulkWrite.binit st0 (nat_of_int nwi)) in
        let res = if not (BulkWrite.bfinal s) then "NOTFINAL" else
            (match BulkWrite.bulk_result s with Pool.RNil -> "nil" | Pool.RErr -> "err" | Pool.RInterrupted -> "interrupted") in
        let ids = Stdlib.List.sort_uniq compare (Stdlib.List.map (fun (i, _) -> int_of_n i) s.BulkWrite.b_store) in
        let ids = if ids = [] then "-" else Stdlib.String.concat "," (Stdlib.List.map string_of_int ids) in
        let rows = if mode = BulkWrite.MStream && res = "nil" then
            Stdlib.String.concat "," (Stdlib.List.map (function Some i -> string_of_int (int_of_n i) | None -> "?") (BulkWrite.stream_index jobs s))
          else "-" in
        let rows = if rows = "" then "-" else rows in
        Printf.sprintf "%s %s %d %d/%d/%d %s" res ids (int_of_nat s.BulkWrite.b_hits)
          (int_of_nat s.BulkWrite.b_nhas) (int_of_nat s.BulkWrite.b_nstore) (int_of_nat s.BulkWrite.b_nget) rows
    | _ -> "ERR args");
  (* c06.retry <has|store> -> "<r1>,<r2> <stored 0|1>": ChunkStorage.StoreChunk called twice in sequence for one
     new chunk, the first call's HasChunk / StoreChunk failing *)
  Drv.register "c06.retry" (fun args -> match args with
    | [kind] ->
        let i = n_of_int 5 in
        let b = [n_of_int 5] in
        let ((r1, p1), s1) = BulkWrite.cs_store_seq [] [] i b (kind = "has") (kind = "store") in
        let ((r2, _), s2) = BulkWrite.cs_store_seq p1 s1 i b false false in
        let n r = if r then "nil" else "err" in
        Printf.sprintf "%s,%s %d" (n r1) (n r2) (if BulkWrite.has s2 i then 1 else 0)
    | _ -> "ERR args")
