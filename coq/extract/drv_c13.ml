(* C13 oracle commands *)
open Conv

(* "off:size:hash,off:size:hash,..." (decimal) <-> list of items ((offset, size), hash) *)
let items_of_string s =
  Stdlib.List.map (fun t ->
    match Stdlib.String.split_on_char ':' t with
    | [o; z; h] -> ((n_of_string o, n_of_string z), n_of_string h)
    | _ -> failwith "bad item") (split_on ',' s)

let string_of_items l =
  if l = [] then "-" else
  Stdlib.String.concat "," (Stdlib.List.map (fun ((o, z), h) ->
    string_of_n o ^ ":" ^ string_of_n z ^ ":" ^ string_of_n h) l)

let read_file path =
  let ic = open_in_bin path in
  let n = in_channel_length ic in
  let s = really_input_string ic n in
  close_in ic; s

let hex_or_dash s = if s = "" then "-" else hex_of_string s

(* canonical listing of a tree returned by the extracted reader:
   node;node;...  node = path|type|perm|uid|gid|mtime|extra|xattrs  (preorder) *)
let listing (t : Tar.node) : string =
  let buf = Buffer.create 4096 in
  let first = ref true in
  let xattrs xs =
    if xs = [] then "-" else
    Stdlib.String.concat "," (Stdlib.List.map (fun (k, v) ->
      hex_or_dash (string_of_bytes k) ^ "=" ^ hex_or_dash (string_of_bytes v)) xs) in
  let emit path typ (m : Tar.meta) extra xs =
    if not !first then Buffer.add_char buf ';';
    first := false;
    Buffer.add_string buf (Stdlib.String.concat "|" [
      (if path = [] then "." else Stdlib.String.concat "/" (Stdlib.List.rev path));
      typ; string_of_n m.Tar.m_perm; string_of_n m.Tar.m_uid; string_of_n m.Tar.m_gid;
      string_of_n m.Tar.m_mtime; extra; xattrs xs]) in
  let rec go path (t : Tar.node) =
    match t with
    | Tar.NDir (m, xs, cs) ->
        emit path "dir" m ("n" ^ string_of_int (Stdlib.List.length cs)) xs;
        Stdlib.List.iter (fun (name, c) -> go (hex_of_string (string_of_bytes name) :: path) c) cs
    | Tar.NFile (m, xs, d) ->
        let s = string_of_bytes d in
        emit path "file" m (string_of_int (Stdlib.String.length s) ^ ":" ^ Sha256.hex s) xs
    | Tar.NSymlink (m, xs, tg) -> emit path "symlink" m (hex_or_dash (string_of_bytes tg)) xs
    | Tar.NDevice (m, xs, c, ma, mi) ->
        emit path (if c then "char" else "block") m (string_of_n ma ^ ":" ^ string_of_n mi) xs
    | Tar.NOther (m, xs, sk) -> emit path (if sk then "socket" else "fifo") m "-" xs
  in
  go [] t; Buffer.contents buf

(* a tree from a spec file: one node per line in preorder,
   depth type perm uid gid mtime namehex extra xattrs *)
let tree_of_spec (path : string) : Tar.node =
  let lines = Stdlib.List.filter (fun l -> l <> "") (Stdlib.String.split_on_char '\n' (read_file path)) in
  let toks = Stdlib.List.map (fun l -> Stdlib.Array.of_list (Stdlib.String.split_on_char ' ' l)) lines in
  let rest = ref toks in
  let parse_x s =
    if s = "-" then [] else
    Stdlib.List.map (fun kv -> match Stdlib.String.split_on_char '=' kv with
      | [k; v] -> (bytes_of_hex k, bytes_of_hex v)
      | _ -> failwith "bad xattr") (Stdlib.String.split_on_char ',' s) in
  let rec node () : string * Tar.node =
    match !rest with
    | [] -> failwith "spec: unexpected end"
    | t :: tl ->
        rest := tl;
        let depth = int_of_string t.(0) in
        let m = { Tar.m_perm = n_of_string t.(2); Tar.m_uid = n_of_string t.(3);
                  Tar.m_gid = n_of_string t.(4); Tar.m_mtime = n_of_string t.(5) } in
        let name = string_of_hex t.(6) in
        let xs = parse_x t.(8) in
        let nd = match t.(1) with
          | "dir" ->
              let cs = ref [] in
              let continue = ref true in
              while !continue do
                match !rest with
                | c :: _ when int_of_string c.(0) = depth + 1 ->
                    let (cn, cnode) = node () in cs := (bytes_of_string cn, cnode) :: !cs
                | _ -> continue := false
              done;
              Tar.NDir (m, xs, Stdlib.List.rev !cs)
          | "file" -> Tar.NFile (m, xs, bytes_of_hex t.(7))
          | "symlink" -> Tar.NSymlink (m, xs, bytes_of_hex t.(7))
          | "char" | "block" ->
              (match Stdlib.String.split_on_char ':' t.(7) with
               | [ma; mi] -> Tar.NDevice (m, xs, t.(1) = "char", n_of_string ma, n_of_string mi)
               | _ -> failwith "bad device")
          | "fifo" -> Tar.NOther (m, xs, false)
          | "socket" -> Tar.NOther (m, xs, true)
          | _ -> failwith "bad type" in
        (name, nd)
  in
  snd (node ())

let register () =
  (* c13.bst <items|-> -> the table written by makeGoodbyeBST, or PANIC *)
  Drv.register "c13.bst" (fun args -> match args with
    | [items] ->
        (match Goodbye.make_goodbye_bst (items_of_string items) with
         | Some out -> string_of_items out
         | None -> "PANIC")
    | _ -> "ERR args");
  (* c13.bitlen <n> -> number of binary digits of n (the tree height e of makeGoodbyeBST) *)
  Drv.register "c13.bitlen" (fun args -> match args with
    | [n] -> string_of_int (int_of_nat (Goodbye.bitlenN (n_of_string n)))
    | _ -> "ERR args");
  (* c13.sip <namehex|-> -> SipHash-2-4 of the name under the goodbye key, decimal *)
  Drv.register "c13.sip" (fun args -> match args with
    | [name] -> string_of_n (Sip.sip_hash (bytes_of_hex name))
    | _ -> "ERR args");
  (* c13.validate <ord 0|1> <catar file> -> REJECT | OK <listing>: the extracted format-rule reader;
     ord = 1 insists on ascending file names (disk source), 0 accepts the order of a tar stream *)
  Drv.register "c13.validate" (fun args -> match args with
    | [ord; path] ->
        (match Tar.validate (ord = "1") (bytes_of_string (read_file path)) with
         | Some t -> "OK " ^ listing t
         | None -> "REJECT")
    | _ -> "ERR args");
  (* c13.tar <spec file> -> <length> <sha256> of the archive the tar() model writes for the tree *)
  Drv.register "c13.tar" (fun args -> match args with
    | [path] ->
        let b = string_of_bytes (Tar.tar_bytes (tree_of_spec path)) in
        string_of_int (Stdlib.String.length b) ^ " " ^ Sha256.hex b
    | _ -> "ERR args");
  (* c13.sink <spec file> <k1,k2,..> -> ok:bytes,...: Tar() onto a target that accepts k bytes *)
  Drv.register "c13.sink" (fun args -> match args with
    | [path; ks] ->
        let t = tree_of_spec path in
        Stdlib.String.concat "," (Stdlib.List.map (fun k ->
          let (b, ok) = TarSink.tar_into TarSink.EncFixed t (n_of_string k) in
          (if ok then "true" else "false") ^ ":" ^ string_of_int (Stdlib.List.length b))
          (Stdlib.String.split_on_char ',' ks))
    | _ -> "ERR args");
  (* c13.sees <spec file> <root path hex> -> <nodes tar() encodes, FIFOs/sockets not counted>:<events left unread>
     for the walk started at the given spelling of the root path (File.Path cleaned) *)
  Drv.register "c13.sees" (fun args -> match args with
    | [path; w] ->
        let t = tree_of_spec path in
        let rec count (t : Tar.node) = match t with
          | Tar.NDir (_, _, cs) -> 1 + Stdlib.List.fold_left (fun a (_, c) -> a + count c) 0 cs
          | Tar.NOther _ -> 0
          | _ -> 1 in
        (match TarWalk.tar_sees TarWalk.PathClean (bytes_of_hex w) t with
         | Some (t', left) -> string_of_int (count t') ^ ":" ^ string_of_int (Stdlib.List.length left)
         | None -> "NONE")
    | _ -> "ERR args")
