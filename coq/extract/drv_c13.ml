(* C13 oracle commands *)
open Conv

(* "off:size:hash,off:size:hash,..." (decimal) <-> list of items ((offset, size), hash) *)
let items_of_string s =
  Stdlib.List.map (fun t ->
    match Stdlib.String.split_on_char ':' t with
    | [o; z; h] -> ((n_of_string o, n_of_string z), n_of_string h)
    | _ -> failwith "bad item") (split_on ',' s)

let string_of_items l =
  if l = [] then "-" else
  Stdlib.String.concat "," (Stdlib.List.map (fun ((o, z), h) ->
    string_of_n o ^ ":" ^ string_of_n z ^ ":" ^ string_of_n h) l)

let register () =
  (* c13.bst <items|-> -> the table written by makeGoodbyeBST, or PANIC *)
  Drv.register "c13.bst" (fun args -> match args with
    | [items] ->
        (match Goodbye.make_goodbye_bst (items_of_string items) with
         | Some out -> string_of_items out
         | None -> "PANIC")
    | _ -> "ERR args");
  (* c13.bitlen <n> -> number of binary digits of n (the tree height e of makeGoodbyeBST) *)
  Drv.register "c13.bitlen" (fun args -> match args with
    | [n] -> string_of_int (int_of_nat (Goodbye.bitlenN (n_of_string n)))
    | _ -> "ERR args");
  (* c13.sip <namehex|-> -> SipHash-2-4 of the name under the goodbye key, decimal *)
  Drv.register "c13.sip" (fun args -> match args with
    | [name] -> string_of_n (Sip.sip_hash (bytes_of_hex name))
    | _ -> "ERR args")
