(* Shared by the file-system based oracle commands (C20, C16, C08): transfer syntax for
   Base/FS.v trees and for finite codec tables.
     tree    := "-" | entry{","entry}      entry := kind ":" hex(path) ":" hex(data)
                kind = d (directory) | f (file, data = content) | l (symlink, data = target)
                path = names joined by "/", relative to the root
     table   := "-" | pair{";"pair}        pair := hex(key) "=" (hex(value) | "!")   ("!" = error) *)
open Conv

let split_path (s : string) : BinNums.coq_N list list =
  if s = "" then [] else Stdlib.List.map bytes_of_string (Stdlib.String.split_on_char '/' s)

let path_string (p : BinNums.coq_N list list) : string =
  Stdlib.String.concat "/" (Stdlib.List.map string_of_bytes p)

let errno_string (e : FS.errno) : string = match e with
  | FS.ENOENT -> "ENOENT" | FS.EEXIST -> "EEXIST" | FS.ENOTDIR -> "ENOTDIR" | FS.EISDIR -> "EISDIR"
  | FS.ENOTEMPTY -> "ENOTEMPTY" | FS.EINVAL -> "EINVAL" | FS.EIO -> "EIO"

let get_ok what = function FS.Ok x -> x | FS.Err e -> failwith (what ^ ": " ^ errno_string e)

let rec drop_last = function [] -> [] | [_] -> [] | x :: r -> x :: drop_last r

let parse_fs (arg : string) : FS.node =
  Stdlib.List.fold_left (fun s e ->
    match Stdlib.String.split_on_char ':' e with
    | [k; ph; dh] ->
        let p = split_path (string_of_hex ph) in
        if k = "d" then get_ok e (FS.mkdir_all p s)
        else if k = "l" then begin
          let s = get_ok e (FS.mkdir_all (drop_last p) s) in
          get_ok e (LocalStore.mk_symlink p (bytes_of_hex dh) s)
        end else begin
          let s = get_ok e (FS.mkdir_all (drop_last p) s) in
          let s = get_ok e (FS.create_excl p s) in
          get_ok e (FS.write_file p (bytes_of_hex dh) s)
        end
    | _ -> failwith "parse_fs: bad entry") FS.empty_fs (split_on ',' arg)

let print_fs (s : FS.node) : string =
  let ents = Stdlib.List.filter_map (fun (p, e) ->
      if p = [] then None else
      let ps = path_string p in
      Some (ps, match e with
        | FS.EDir _ -> "d:" ^ hex_of_string ps ^ ":-"
        | FS.EFile (_, b) -> "f:" ^ hex_of_string ps ^ ":" ^ hex_of_bytes b
        | FS.ELink (_, t) -> "l:" ^ hex_of_string ps ^ ":" ^ hex_of_bytes t)) (FS.listing [] s) in
  let ents = Stdlib.List.sort (fun (a, _) (b, _) -> compare a b) ents in
  if ents = [] then "-" else Stdlib.String.concat "," (Stdlib.List.map snd ents)

(* a finite partial function bytes -> option bytes; keys not in the table map to [default] *)
let parse_table (arg : string) (default : BinNums.coq_N list -> BinNums.coq_N list option)
  : BinNums.coq_N list -> BinNums.coq_N list option =
  let tbl = Hashtbl.create 16 in
  Stdlib.List.iter (fun kv -> match Stdlib.String.split_on_char '=' kv with
    | [k; v] -> Hashtbl.replace tbl (string_of_hex k) (if v = "!" then None else Some (string_of_hex v))
    | _ -> failwith "parse_table") (split_on ';' arg);
  fun b -> match Hashtbl.find_opt tbl (string_of_bytes b) with
    | Some (Some v) -> Some (bytes_of_string v)
    | Some None -> None
    | None -> default b

let id_hex (i : BinNums.coq_N) : string = string_of_bytes (HexId.hex_id i)
let bool_arg s = (s = "1" || s = "true")
