(* C17 oracle commands *)
open Conv

let register () =
  (* batches <n> <len> -> comma-separated batch sizes of [0..len), or NONE (out of fuel) *)
  Drv.register "c17.batches" (fun args -> match args with
    | [n; len] ->
        let l = Stdlib.List.init (int_of_string len) (fun i -> i) in
        (match VerifyIndex.batches (n_of_string n) l with
         | Some bs -> if bs = [] then "-" else Stdlib.String.concat "," (Stdlib.List.map (fun b -> string_of_int (Stdlib.List.length b)) bs)
         | None -> "NONE")
    | _ -> "ERR args");
  (* verify <n> <filehex> <idhex:size,...> -> true | false | NONE ; H = SHA-256 *)
  Drv.register "c17.verify" (fun args -> match args with
    | [n; file; rows] ->
        let idx = Stdlib.List.map (fun r -> match Stdlib.String.split_on_char ':' r with
            | [i; s] -> (Sha256.id_of_hex i, nat_of_int (int_of_string s))
            | _ -> failwith "row") (split_on ',' rows) in
        (match VerifyIndex.verify_index Sha256.h_model (n_of_string n) (bytes_of_hex file) idx with
         | Some true -> "true" | Some false -> "false" | None -> "NONE")
    | _ -> "ERR args")

(* c17.ptrace <nworkers> <njobs> <events>
   events: T:w:k  O:w:k  F:w:k  X:w  C:0|1  K   (take, ok, fail, exit, feeder close(interrupted), cancel)
   Answer: "ok <final 0|1> <nil|err|int> <fed> <processed>" | "FAIL <position>" *)
let () =
  let nat s = nat_of_int (int_of_string s) in
  let parse (t : string) : PoolTrace.pev =
    match Stdlib.String.split_on_char ':' t with
    | ["T"; w; k] -> PoolTrace.PTake (nat w, nat k)
    | ["O"; w; k] -> PoolTrace.POk (nat w, nat k)
    | ["F"; w; k] -> PoolTrace.PFail (nat w, nat k)
    | ["X"; w] -> PoolTrace.PExit (nat w)
    | ["C"; b] -> PoolTrace.PClose (b = "1")
    | ["K"] -> PoolTrace.PCancel
    | _ -> failwith ("bad event " ^ t) in
  Drv.register "c17.ptrace" (fun args -> match args with
    | [nw; nj; evs] ->
        let tr = if evs = "-" then [] else Stdlib.List.map parse (Stdlib.String.split_on_char ',' evs) in
        let njobs = nat nj in
        let job_ok = PoolTrace.trace_job_ok tr in
        let rec go pos s early = function
          | [] -> if early = [] then Ok s else Error pos
          | e :: r -> (match PoolTrace.apply_ev njobs job_ok e r s early with
                       | Some ((s1, e1), _) -> go (pos + 1) s1 e1 r
                       | None -> Error pos) in
        (match go 0 (Pool.init (nat nw)) [] tr with
         | Error pos -> "FAIL " ^ string_of_int pos
         | Ok s ->
             (* the same through [replay], whose result the theorem speaks about *)
             (match PoolTrace.replay njobs job_ok tr (Pool.init (nat nw)) [] with
              | None -> "FAIL replay"
              | Some (s2, _) ->
                  if s2 <> s then "FAIL replay-differs" else
                  "ok " ^ (if Pool.final s then "1" else "0") ^ " " ^
                  (match Pool.pool_result s with Pool.RNil -> "nil" | Pool.RErr -> "err" | Pool.RInterrupted -> "int") ^ " " ^
                  string_of_int (int_of_nat s.Pool.fed) ^ " " ^ string_of_int (Stdlib.List.length s.Pool.processed)))
    | _ -> "ERR args")
