(* C17 oracle commands *)
open Conv

let register () =
  (* batches <n> <len> -> comma-separated batch sizes of [0..len), or NONE (out of fuel) *)
  Drv.register "c17.batches" (fun args -> match args with
    | [n; len] ->
        let l = Stdlib.List.init (int_of_string len) (fun i -> i) in
        (match VerifyIndex.batches (n_of_string n) l with
         | Some bs -> if bs = [] then "-" else Stdlib.String.concat "," (Stdlib.List.map (fun b -> string_of_int (Stdlib.List.length b)) bs)
         | None -> "NONE")
    | _ -> "ERR args");
  (* verify <n> <filehex> <idhex:size,...> -> true | false | NONE ; H = SHA-256 *)
  Drv.register "c17.verify" (fun args -> match args with
    | [n; file; rows] ->
        let idx = Stdlib.List.map (fun r -> match Stdlib.String.split_on_char ':' r with
            | [i; s] -> (Sha256.id_of_hex i, nat_of_int (int_of_string s))
            | _ -> failwith "row") (split_on ',' rows) in
        (match VerifyIndex.verify_index Sha256.h_model (n_of_string n) (bytes_of_hex file) idx with
         | Some true -> "true" | Some false -> "false" | None -> "NONE")
    | _ -> "ERR args")
