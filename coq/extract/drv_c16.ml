(* C16 oracle commands: Model/Prune.v (LocalStore.Prune / Verify, SFTPStore.Prune, S3Store.Prune). *)
open Conv
open Fsconv

let store unc base = { LocalStore.st_base = split_path base; st_unc = bool_arg unc; st_skip = false }
let no_codec _ = failwith "codec table has no entry for a byte string the model asked for"

let keep_fn (arg : string) : BinNums.coq_N -> bool =
  let tbl = Hashtbl.create 16 in
  Stdlib.List.iter (fun h -> Hashtbl.replace tbl (Stdlib.String.lowercase_ascii h) ()) (split_on ',' arg);
  fun i -> Hashtbl.mem tbl (id_hex i)

let err_string (e : Prune.walk_err option) : string = match e with
  | None -> "nil"
  | Some (Prune.WeMissing i) -> "missing:" ^ id_hex i
  | Some (Prune.WeErrno e) -> "errno:" ^ errno_string e
  | Some Prune.WeFuel -> "fuel"
  | Some Prune.WeBlocked -> "blocked"
  | Some Prune.WeInterrupted -> "interrupted"

let fuel = nat_of_int 64

let register () =
  (* prune <unc> <hex(base dir string)> <keep ids> <tree>  ->  <result> <tree'>     (model base = "s") *)
  Drv.register "c16.prune" (fun args -> match args with
    | [unc; bstr; keep; tree] ->
        let (s', e) = Prune.prune fuel (store unc "s") (bytes_of_hex bstr) (keep_fn keep) (parse_fs tree) in
        err_string e ^ " " ^ print_fs s'
    | _ -> "ERR args");
  Drv.register "c16.sftpprune" (fun args -> match args with
    | [unc; bstr; keep; tree] ->
        let (s', e) = Prune.sftp_prune fuel (store unc "s") (bytes_of_hex bstr) (keep_fn keep) (parse_fs tree) in
        err_string e ^ " " ^ print_fs s'
    | _ -> "ERR args");
  (* [optional last argument: skip-verify store]
     verify <lazy|eager> <unc> <repair> <hex(base dir string)> <tree> <decomp table> -> <result> <msgs> <tree'>
     msgs = "-" | msg{","msg}; msg = inv:<id>:<sum>:<removed r|failed f|norepair n> | oth:<id> *)
  Drv.register "c16.verify" (fun args -> match args with
    | mode :: unc :: repair :: bstr :: tree :: zt :: rest ->
        let zd = parse_table zt no_codec in
        let f = if mode = "eager" then Prune.verify_eager else Prune.verify in   (* both read with verification on *)
        let st = { (store unc "s") with LocalStore.st_skip = (match rest with [sk] -> bool_arg sk | _ -> false) } in
        let ((s', msgs), e) = f Sha256.h_model zd fuel st (bytes_of_hex bstr) (bool_arg repair) (parse_fs tree) in
        let ms = Stdlib.List.map (function
          | Prune.VmInvalid (i, sum, removed, failed) ->
              "inv:" ^ id_hex i ^ ":" ^ id_hex sum ^ ":" ^ (if removed then "r" else if failed then "f" else "n")
          | Prune.VmOther i -> "oth:" ^ id_hex i) msgs in
        err_string e ^ " " ^ (if ms = [] then "-" else Stdlib.String.concat "," ms) ^ " " ^ print_fs s'
    | _ -> "ERR args");
  (* fileid: see c20.fileid *)
  (* s3prune <hex(prefix)> <unc> <keep ids> <hex keys,...> -> remaining keys (hex, comma separated, in bucket order) *)
  Drv.register "c16.s3prune" (fun args -> match args with
    | [prefix; unc; keep; keys] ->
        let ks = Stdlib.List.map bytes_of_hex (split_on ',' keys) in
        let r = Prune.s3_prune (bytes_of_hex prefix) (bool_arg unc) (keep_fn keep) ks in
        if r = [] then "-" else Stdlib.String.concat "," (Stdlib.List.map hex_of_bytes r)
    | _ -> "ERR args");
  (* s3id <hex(prefix)> <unc> <hex(key)> -> idhex | none *)
  Drv.register "c16.s3id" (fun args -> match args with
    | [prefix; unc; key] ->
        (match Prune.s3_id_from_name (bytes_of_hex prefix) (bool_arg unc) (bytes_of_hex key) with
         | Some i -> id_hex i | None -> "none")
    | _ -> "ERR args")
