(* C02 oracle commands *)
open Conv

let sizes_of chunks = if chunks = [] then "-" else
  Stdlib.String.concat "," (Stdlib.List.map (fun c -> string_of_int (Stdlib.List.length c)) chunks)

let register () =
  (* c02.spec <min> <max> <d> <datahex> -> chunk sizes by the rule *)
  Drv.register "c02.spec" (fun args -> match args with
    | [mn; mx; d; data] ->
        sizes_of (Chunker.chunk_all (nat_of_int (int_of_string mn)) (nat_of_int (int_of_string mx)) (n_of_string d) (bytes_of_hex data))
    | _ -> "ERR args");
  (* c02.impl <min> <max> <d> <frags csv|-> <eager 0|1> <datahex> -> start:len list from the Chunker.Next model *)
  Drv.register "c02.impl" (fun args -> match args with
    | [mn; mx; d; frags; eager; data] ->
        let fr = Stdlib.List.map (fun s -> nat_of_int (int_of_string s)) (split_on ',' frags) in
        let r = { Chunker.r_data = bytes_of_hex data; Chunker.r_frags = fr; Chunker.r_eager = (eager = "1") } in
        let cs = Chunker.chunk_impl r (nat_of_int (int_of_string mn)) (nat_of_int (int_of_string mx)) (n_of_string d) in
        if cs = [] then "-" else
        Stdlib.String.concat "," (Stdlib.List.map (fun (s, b) -> string_of_int (int_of_nat s) ^ ":" ^ string_of_int (Stdlib.List.length b)) cs)
    | _ -> "ERR args");
  (* c02.implfile <min> <max> <d> <path> -> sizes, data read from a file (large fixtures) *)
  Drv.register "c02.implfile" (fun args -> match args with
    | [mn; mx; d; path] ->
        let ic = open_in_bin path in
        let n = in_channel_length ic in
        let s = really_input_string ic n in
        close_in ic;
        let r = { Chunker.r_data = bytes_of_string s; Chunker.r_frags = []; Chunker.r_eager = false } in
        let cs = Chunker.chunk_impl r (nat_of_int (int_of_string mn)) (nat_of_int (int_of_string mx)) (n_of_string d) in
        if cs = [] then "-" else
        Stdlib.String.concat "," (Stdlib.List.map (fun (_, b) -> string_of_int (Stdlib.List.length b)) cs)
    | _ -> "ERR args")
