(* C02 oracle commands *)
open Conv

let register_pchunk_ref : (unit -> unit) ref = ref (fun () -> ())
let register_pchunk_hook () = !register_pchunk_ref ()

let sizes_of chunks = if chunks = [] then "-" else
  Stdlib.String.concat "," (Stdlib.List.map (fun c -> string_of_int (Stdlib.List.length c)) chunks)

let register () =
  (* c02.spec <min> <max> <d> <datahex> -> chunk sizes by the rule *)
  Drv.register "c02.spec" (fun args -> match args with
    | [mn; mx; d; data] ->
        sizes_of (Chunker.chunk_all (nat_of_int (int_of_string mn)) (nat_of_int (int_of_string mx)) (n_of_string d) (bytes_of_hex data))
    | _ -> "ERR args");
  (* c02.impl <min> <max> <d> <frags csv|-> <eager 0|1> <datahex> -> start:len list from the Chunker.Next model *)
  Drv.register "c02.impl" (fun args -> match args with
    | [mn; mx; d; frags; eager; data] ->
        let fr = Stdlib.List.map (fun s -> nat_of_int (int_of_string s)) (split_on ',' frags) in
        let r = { Chunker.r_data = bytes_of_hex data; Chunker.r_frags = fr; Chunker.r_eager = (eager = "1") } in
        let cs = Chunker.chunk_impl r (nat_of_int (int_of_string mn)) (nat_of_int (int_of_string mx)) (n_of_string d) in
        if cs = [] then "-" else
        Stdlib.String.concat "," (Stdlib.List.map (fun (s, b) -> string_of_int (int_of_nat s) ^ ":" ^ string_of_int (Stdlib.List.length b)) cs)
    | _ -> "ERR args");
  (* c02.implfile <min> <max> <d> <path> -> sizes, data read from a file (large fixtures) *)
  Drv.register "c02.implfile" (fun args -> match args with
    | [mn; mx; d; path] ->
        let ic = open_in_bin path in
        let n = in_channel_length ic in
        let s = really_input_string ic n in
        close_in ic;
        let r = { Chunker.r_data = bytes_of_string s; Chunker.r_frags = []; Chunker.r_eager = false } in
        let cs = Chunker.chunk_impl r (nat_of_int (int_of_string mn)) (nat_of_int (int_of_string mx)) (n_of_string d) in
        if cs = [] then "-" else
        Stdlib.String.concat "," (Stdlib.List.map (fun (_, b) -> string_of_int (Stdlib.List.length b)) cs)
    | _ -> "ERR args");
  register_pchunk_hook ()

(* c02.pchunk <n> <min> <max> <d> <schedseed> <datahex>
   Runs the IndexFromFile model (Model/PChunker.v) under a pseudo-random schedule until the
   collector is done (or a step bound is hit) and compares the collected index with the
   single-stream index.  Answer: "ok <steps> <chunks>" | "DIFF got=... want=..." | "STUCK <steps>" *)
let register_pchunk () =
  Drv.register "c02.pchunk" (fun args -> match args with
    | n :: mn :: mx :: d :: seed :: data :: rest ->
        let old = Stdlib.List.mem "old" rest in
        let trace = Stdlib.List.mem "trace" rest in
        let tr = Buffer.create 1024 in
        let h = Sha256.h_model in
        let mn = nat_of_int (int_of_string mn) and mx = nat_of_int (int_of_string mx) in
        let d = n_of_string d and data = bytes_of_hex data in
        let n = nat_of_int (int_of_string n) in
        let st = ref (PChunker.pinit mx data n) in
        let _ = old in
        let nw = int_of_nat (PChunker.nworkers !st) in
        let rng = ref (Int64.of_string seed) in
        let next () =
          rng := Int64.add (Int64.mul !rng 6364136223846793005L) 1442695040888963407L;
          Int64.to_int (Int64.shift_right_logical !rng 33) in
        let steps = ref 0 and idle = ref 0 in
        let show cs = Stdlib.String.concat "," (Stdlib.List.map (fun (s, z) -> string_of_int (int_of_nat s) ^ ":" ^ string_of_int (int_of_nat z)) cs) in
        let bias = (next ()) mod 3 in
        while not (!st).PChunker.p_c.PChunker.k_done && !steps < 2000000 && !idle < 100000 do
          let r = next () in
          let t =
            if r mod (nw + 1) = nw then PChunker.PCollector
            else begin
              let i = r mod (nw + 1) in
              (* bias: 1 = favour late workers, 2 = favour early workers *)
              let i = if bias = 1 && (next ()) mod 2 = 0 then nw - 1 - (i / 2) else if bias = 2 && (next ()) mod 2 = 0 then i / 2 else i in
              PChunker.PWorker (nat_of_int i)
            end in
          (match PChunker.pstep h mn mx d data old !st t with
           | Some s' -> st := s'; incr steps; idle := 0;
               if trace then (match t with
                 | PChunker.PCollector -> Buffer.add_string tr "c;"
                 | PChunker.PWorker i -> Buffer.add_string tr (string_of_int (int_of_nat i) ^ ";"))
           | None -> incr idle)
        done;
        if not (!st).PChunker.p_c.PChunker.k_done then "STUCK " ^ string_of_int !steps
        else begin
          let got = (!st).PChunker.p_c.PChunker.k_out in
          let want = PChunker.seq_index mn mx d data in
          if got = want then "ok " ^ string_of_int !steps ^ " " ^ string_of_int (Stdlib.List.length got)
          else "DIFF got=" ^ show got ^ " want=" ^ show want ^ (if trace then " trace=" ^ Buffer.contents tr else "")
        end
    | _ -> "ERR args")

let () = register_pchunk_ref := register_pchunk

(* c02.ptrace <n> <min> <max> <d> <datahex> <events|->
   Replays the recorded channel-operation trace of a run of IndexFromFile on the model
   (Model/PChunkerTrace.v).  Events, comma separated:
     s:i:start:size  r:i:j:start:size  e:i:j  k:i:0|1  x:i  t:k:start:size  m:k  p:k
   Answer: "ok <done 0|1> <start:size,...|->"  |  "FAIL <position of the event the model cannot follow>" *)
let () =
  let nat s = nat_of_int (int_of_string s) in
  let parse_ev (t : string) : PChunkerTrace.gev =
    match Stdlib.String.split_on_char ':' t with
    | ["s"; i; a; b] -> PChunkerTrace.GSend (nat i, (nat a, nat b))
    | ["r"; i; j; a; b] -> PChunkerTrace.GRecv (nat i, nat j, (nat a, nat b))
    | ["e"; i; j] -> PChunkerTrace.GEmpty (nat i, nat j)
    | ["k"; i; y] -> PChunkerTrace.GSkip (nat i, (y = "1"))
    | ["x"; i] -> PChunkerTrace.GExit (nat i)
    | ["t"; k; a; b] -> PChunkerTrace.GTake (nat k, (nat a, nat b))
    | ["m"; k] -> PChunkerTrace.GMove (nat k)
    | ["p"; k] -> PChunkerTrace.GStop (nat k)
    | _ -> failwith ("bad event " ^ t) in
  Drv.register "c02.ptrace" (fun args -> match args with
    | [n; mn; mx; d; data; evs] ->
        let h = Sha256.h_model in
        let mn = nat mn and mx = nat mx and d = n_of_string d and data = bytes_of_hex data in
        let evs = if evs = "-" then [] else Stdlib.List.map parse_ev (Stdlib.String.split_on_char ',' evs) in
        let s0 = PChunker.pinit mx data (nat n) in
        (match PChunkerTrace.replay h mn mx d data O evs s0 with
         | Datatypes.Coq_inr pos -> "FAIL " ^ string_of_int (int_of_nat pos)
         | Datatypes.Coq_inl s ->
             let s = PChunkerTrace.finish data s in
             let out = s.PChunker.p_c.PChunker.k_out in
             "ok " ^ (if s.PChunker.p_c.PChunker.k_done then "1" else "0") ^ " " ^
             (if out = [] then "-" else Stdlib.String.concat "," (Stdlib.List.map (fun (a, b) ->
                string_of_int (int_of_nat a) ^ ":" ^ string_of_int (int_of_nat b)) out)))
    | _ -> "ERR args")

(* c02.disc <avg,avg,...> -> discriminators by the exact-quotient model of casync's formula *)
let () =
  Drv.register "c02.disc" (fun args -> match args with
    | [avgs] ->
        Stdlib.String.concat "," (Stdlib.List.map (fun a -> string_of_n (Discriminator.disc_of_avg (n_of_string a)))
          (Stdlib.String.split_on_char ',' avgs))
    | _ -> "ERR args")

(* c02.flags <digest is SHA512/256: 0|1> <feature flags of the input's catar ENTRY header|->
   -> "<flags IndexFromFile records> <IndexFromReader accepts under the same digest 0|1> <under the other digest 0|1>" *)
let () =
  Drv.register "c02.flags" (fun args -> match args with
    | [d; t] ->
        let d512 = (d = "1") in
        let catar = if t = "-" then None else Some (n_of_string t) in
        let f = IndexFlags.index_flags d512 catar in
        let b x = if x then "1" else "0" in
        string_of_n f ^ " " ^ b (IndexFlags.reader_accepts d512 f) ^ " " ^ b (IndexFlags.reader_accepts (not d512) f)
    | _ -> "ERR args")

(* c02.winhash <window hex> -> the window hash of the rule (Model/Chunker.v win_hash, generated table) *)
let () =
  Drv.register "c02.winhash" (fun args -> match args with
    | [w] -> string_of_n (Chunker.win_hash (bytes_of_hex w))
    | _ -> "ERR args")
