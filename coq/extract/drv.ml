(* Registry of oracle commands: name -> (argument tokens -> answer line). *)
let handlers : (string, string list -> string) Hashtbl.t = Hashtbl.create 64
let register (name : string) (f : string list -> string) = Hashtbl.replace handlers name f
