(* C07 oracle commands *)
open Conv

let res_name (r : Pool.result) = match r with Pool.RNil -> "nil" | Pool.RErr -> "err" | Pool.RInterrupted -> "interrupted"

let register () =
  (* c07.outcomes <njobs> <nw> <cancel_at|-> <bad,bad,...|->
     -> sorted, comma-separated set of outcomes "<result>:<complete 0|1>" the pool model allows when the
        parent context is cancelled as the feeder is about to offer job <cancel_at> (never if "-");
        jobs listed in <bad> fail.  NONE = out of fuel. *)
  Drv.register "c07.outcomes" (fun args -> match args with
    | [njobs; nw; cat; bad] ->
        let bad = Stdlib.List.map int_of_string (split_on ',' bad) in
        let job_ok k = not (Stdlib.List.mem (int_of_nat k) bad) in
        let cancel_at = if cat = "-" then None else Some (nat_of_int (int_of_string cat)) in
        (match Cancel.pool_outcomes (nat_of_int (int_of_string njobs)) job_ok (nat_of_int (int_of_string nw)) cancel_at (nat_of_int 400000) with
         | None -> "NONE"
         | Some outs ->
             let l = Stdlib.List.map (fun (r, c) -> res_name r ^ ":" ^ (if c then "1" else "0")) outs in
             Stdlib.String.concat "," (Stdlib.List.sort_uniq compare l))
    | _ -> "ERR args");
  (* c07.assemble <bailout|skip|regenerate> <v/rg,v/rg,...> <main> -> result of AssembleFile's outer loop, or NONE *)
  Drv.register "c07.assemble" (fun args -> match args with
    | [act; attempts; main] ->
        let r s = match s with "nil" -> Pool.RNil | "err" -> Pool.RErr | "interrupted" -> Pool.RInterrupted | _ -> failwith "result" in
        let a = match act with "bailout" -> Cancel.BailOut | "skip" -> Cancel.SkipSeed | "regenerate" -> Cancel.RegenerateSeed | _ -> failwith "action" in
        let at = Stdlib.List.map (fun p -> match Stdlib.String.split_on_char '/' p with
            | [v; g] -> (r v, r g) | _ -> failwith "attempt") (split_on ',' attempts) in
        (match Cancel.assemble_result a at (r main) with Some x -> res_name x | None -> "NONE")
    | _ -> "ERR args")
