(* C04 oracle commands: index encode / decode / fixed-offset layout reader.
   Numbers are decimal, byte strings hex ("-" = empty).

   c04.encode <flags> <min> <avg> <max> <idhex:start:size,...|->     -> <hex of encode_index>
   c04.decode <sha256|sha512> <hex>
        -> ok <alloc> <restlen> <flags> <min> <avg> <max> <idhex:start:size,...|->
         | err <kind> <alloc> | panic <kind> <alloc>
   c04.layout <hex>
        -> some <canonical 0|1> <flags> <min> <avg> <max> <index_offset> <table_size> <offset:idhex,...|->
         | none *)
open Conv

let err_name (e : Format.err) = match e with
  | Format.EOF -> "eof" | Format.UnexpectedEOF -> "ueof" | Format.InvalidFormat -> "invalid"
  | Format.Unsupported -> "unsupported" | Format.NotIndex -> "notindex" | Format.DigestMismatch -> "digest"
  | Format.NoTable -> "notable" | Format.ChunkTooLarge -> "toolarge" | Format.DecreasingOffset -> "decreasing" | Format.TooShort -> "tooshort" | Format.BadHello -> "badhello" | Format.Aborted -> "aborted" | Format.StoreFailed -> "storefailed"
  | Format.OutOfFuel -> "outoffuel"

let panic_name (p : Format.panic) = match p with
  | Format.SliceBounds -> "slicebounds" | Format.MakeSliceLen -> "makeslice"

let digest_of s = match s with
  | "sha256" -> Index.SHA256
  | "sha512" | "sha512-256" -> Index.SHA512_256
  | _ -> failwith "digest"

let chunk_of_string r = match Stdlib.String.split_on_char ':' r with
  | [i; st; sz] -> ((bytes_of_hex i, n_of_string st), n_of_string sz)
  | _ -> failwith "row"

let string_of_chunk ((i, st), sz) = hex_of_bytes i ^ ":" ^ string_of_n st ^ ":" ^ string_of_n sz

let join sep f l = if l = [] then "-" else Stdlib.String.concat sep (Stdlib.List.map f l)

let string_of_index (i : Index.index) =
  Printf.sprintf "%s %s %s %s %s" (string_of_n i.Index.ix_flags) (string_of_n i.Index.ix_min)
    (string_of_n i.Index.ix_avg) (string_of_n i.Index.ix_max) (join "," string_of_chunk i.Index.ix_chunks)

let register () =
  Drv.register "c04.encode" (fun args -> match args with
    | [fl; mn; av; mx; rows] ->
        let i = { Index.ix_flags = n_of_string fl; ix_min = n_of_string mn; ix_avg = n_of_string av;
                  ix_max = n_of_string mx; ix_chunks = Stdlib.List.map chunk_of_string (split_on ',' rows) } in
        hex_of_bytes (Index.encode_index i)
    | _ -> "ERR args");
  (* c04.writeto <cap> <flags> <min> <avg> <max> <rows> -> ok|err <bytes accepted> <n> *)
  Drv.register "c04.writeto" (fun args -> match args with
    | [cap; fl; mn; av; mx; rows] ->
        let i = { Index.ix_flags = n_of_string fl; ix_min = n_of_string mn; ix_avg = n_of_string av;
                  ix_max = n_of_string mx; ix_chunks = Stdlib.List.map chunk_of_string (split_on ',' rows) } in
        let ((s', n), ok) = IndexSink.index_write_to i { IndexSink.ws_cap = n_of_string cap; ws_data = [] } in
        Printf.sprintf "%s %d %s" (if ok then "ok" else "err") (Stdlib.List.length s'.IndexSink.ws_data) (string_of_n n)
    | _ -> "ERR args");
  Drv.register "c04.decode" (fun args -> match args with
    | [d; h] ->
        let b = bytes_of_hex h in
        let dg = digest_of d in
        let alloc = string_of_n (Index.decode_index_alloc dg b) in
        (match Index.decode_index_rest dg b with
         | Format.Ok (i, rest) -> Printf.sprintf "ok %s %d %s" alloc (Stdlib.List.length rest) (string_of_index i)
         | Format.Err e -> "err " ^ err_name e ^ " " ^ alloc
         | Format.Panic p -> "panic " ^ panic_name p ^ " " ^ alloc)
    | _ -> "ERR args");
  Drv.register "c04.layout" (fun args -> match args with
    | [h] ->
        let b = bytes_of_hex h in
        (match Index.parse_layout b with
         | None -> "none"
         | Some l ->
             Printf.sprintf "some %d %s %s %s %s %s %s %s"
               (if Index.canonical_tail b l then 1 else 0)
               (string_of_n l.Index.ly_flags) (string_of_n l.Index.ly_min) (string_of_n l.Index.ly_avg)
               (string_of_n l.Index.ly_max) (string_of_n l.Index.ly_index_offset) (string_of_n l.Index.ly_table_size)
               (join "," (fun (o, id) -> string_of_n o ^ ":" ^ hex_of_bytes id) l.Index.ly_items))
    | _ -> "ERR args")
