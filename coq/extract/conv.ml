(* Conversions between OCaml values and the extracted Coq number types.
   N, positive and nat stay the extracted Coq datatypes (values reach 2^64 and
   beyond: 256-bit ids); zarith is used only to parse and print them. *)
open BinNums
open Datatypes

let rec pos_of_z (z : Z.t) : positive =
  if Z.equal z Z.one then Coq_xH
  else if Z.testbit z 0 then Coq_xI (pos_of_z (Z.shift_right z 1))
  else Coq_xO (pos_of_z (Z.shift_right z 1))

let n_of_z (z : Z.t) : coq_N = if Z.sign z <= 0 then N0 else Npos (pos_of_z z)

let rec z_of_pos (p : positive) : Z.t =
  match p with
  | Coq_xH -> Z.one
  | Coq_xO q -> Z.shift_left (z_of_pos q) 1
  | Coq_xI q -> Z.succ (Z.shift_left (z_of_pos q) 1)

let z_of_n (n : coq_N) : Z.t = match n with N0 -> Z.zero | Npos p -> z_of_pos p

let n_of_int (i : int) : coq_N = n_of_z (Z.of_int i)
let int_of_n (n : coq_N) : int = Z.to_int (z_of_n n)
let n_of_string (s : string) : coq_N = n_of_z (Z.of_string s)   (* decimal or 0x.. *)
let string_of_n (n : coq_N) : string = Z.to_string (z_of_n n)

let rec nat_of_int (i : int) : nat = if i <= 0 then O else S (nat_of_int (i - 1))
(* tail-recursive variants for big values *)
let nat_of_int (i : int) : nat =
  let rec go acc k = if k <= 0 then acc else go (S acc) (k - 1) in go O i
let int_of_nat (n : nat) : int =
  let rec go acc = function O -> acc | S m -> go (acc + 1) m in go 0 n

(* byte tables so that blobs share their N values *)
let byte_tab : coq_N array = Array.init 256 n_of_int

let bytes_of_string (s : string) : coq_N list =
  let r = ref [] in
  for i = Stdlib.String.length s - 1 downto 0 do r := byte_tab.(Char.code s.[i]) :: !r done; !r

let string_of_bytes (l : coq_N list) : string =
  let b = Buffer.create 1024 in
  Stdlib.List.iter (fun n -> Buffer.add_char b (Char.chr ((int_of_n n) land 255))) l;
  Buffer.contents b

let hexdigit c = match c with
  | '0'..'9' -> Char.code c - 48 | 'a'..'f' -> Char.code c - 87 | 'A'..'F' -> Char.code c - 55
  | _ -> failwith "bad hex"

(* "-" is the empty string; otherwise hex *)
let string_of_hex (h : string) : string =
  if h = "-" then "" else begin
    let n = Stdlib.String.length h / 2 in
    Stdlib.String.init n (fun i -> Char.chr (hexdigit h.[2*i] * 16 + hexdigit h.[2*i+1]))
  end

let hex_of_string (s : string) : string =
  if s = "" then "-" else begin
    let b = Buffer.create (2 * Stdlib.String.length s) in
    Stdlib.String.iter (fun c -> Buffer.add_string b (Printf.sprintf "%02x" (Char.code c))) s;
    Buffer.contents b
  end

let bytes_of_hex h = bytes_of_string (string_of_hex h)
let hex_of_bytes l = hex_of_string (string_of_bytes l)

let split_on c s = if s = "" || s = "-" then [] else Stdlib.String.split_on_char c s
