From Coq Require Import NArith List Lia.
Import ListNotations.
Local Open Scope N_scope.

Definition wbits : N := 32.
Definition wmod : N := 2 ^ wbits.
Definition wf (x : N) := x < wmod.

Definition rotl (x k : N) : N :=
  let k := k mod wbits in
  (N.lor (N.shiftl x k) (N.shiftr x (wbits - k))) mod wmod.

Definition xor := N.lxor.

Lemma wf_bits x : wf x <-> forall i, wbits <= i -> N.testbit x i = false.
Proof.
  unfold wf, wmod. split.
  - intros Hx i Hi. destruct (N.eq_dec x 0) as [->|Hne]; [apply N.bits_0|].
    apply N.bits_above_log2. apply N.log2_lt_pow2 in Hx; lia.
  - intros Hb. destruct (N.eq_dec x 0) as [->|Hne]; [unfold wbits; reflexivity|].
    apply N.log2_lt_pow2; [lia|].
    destruct (N.lt_ge_cases (N.log2 x) wbits) as [|Hge]; [assumption|].
    specialize (Hb (N.log2 x) Hge). rewrite N.bit_log2 in Hb by assumption. discriminate.
Qed.

Lemma rotl_bits x k i : wf x ->
  N.testbit (rotl x k) i = if i <? wbits then N.testbit x ((i + wbits - k mod wbits) mod wbits) else false.
Proof.
  intros Hx. unfold rotl. set (r := k mod wbits).
  assert (Hr : r < wbits) by (apply N.mod_lt; unfold wbits; lia).
  destruct (N.ltb_spec i wbits) as [Hi|Hi].
  - unfold wmod. rewrite N.mod_pow2_bits_low by assumption.
    rewrite N.lor_spec.
    destruct (N.lt_ge_cases i r) as [Hlt|Hge].
    + rewrite N.shiftl_spec_low by assumption. rewrite N.shiftr_spec' . cbn [orb].
      f_equal. replace (i + wbits - r) with (i + (wbits - r)) by lia.
      rewrite N.mod_small; unfold wbits in *; lia.
    + rewrite N.shiftl_spec_high' by assumption. rewrite N.shiftr_spec'.
      assert (N.testbit x (i + (wbits - r)) = false) as ->.
      { destruct (N.eq_dec r 0) as [E|E].
        - apply (proj1 (wf_bits x) Hx). lia.
        - apply (proj1 (wf_bits x) Hx). lia. }
      rewrite Bool.orb_false_r. f_equal.
      replace (i + wbits - r) with ((i - r) + 1 * wbits) by lia.
      rewrite N.mod_add by (unfold wbits; lia). rewrite N.mod_small; lia.
  - unfold wmod. apply N.mod_pow2_bits_high. assumption.
Qed.

Lemma rotl_wf x k : wf (rotl x k).
Proof. unfold rotl, wf. apply N.mod_lt. unfold wmod. apply N.pow_nonzero. discriminate. Qed.

Lemma xor_wf a b : wf a -> wf b -> wf (xor a b).
Proof.
  intros Ha Hb. apply wf_bits. intros i Hi. unfold xor. rewrite N.lxor_spec.
  rewrite (proj1 (wf_bits a) Ha i Hi), (proj1 (wf_bits b) Hb i Hi). reflexivity.
Qed.

Lemma rotl_xor a b k : wf a -> wf b -> rotl (xor a b) k = xor (rotl a k) (rotl b k).
Proof.
  intros Ha Hb. apply N.bits_inj. intro i. unfold xor at 2. rewrite N.lxor_spec.
  rewrite !rotl_bits by auto using xor_wf.
  destruct (i <? wbits); [|reflexivity]. unfold xor. apply N.lxor_spec.
Qed.

Lemma rotl_rotl x a b : wf x -> rotl (rotl x a) b = rotl x (a + b).
Proof.
  intros Hx. apply N.bits_inj. intro i.
  rewrite !rotl_bits by auto using rotl_wf.
  destruct (N.ltb_spec i wbits) as [Hi|Hi]; [|reflexivity].
  assert (Hlt : (i + wbits - b mod wbits) mod wbits < wbits) by (apply N.mod_lt; unfold wbits; lia).
  apply N.ltb_lt in Hlt. rewrite Hlt. f_equal.
  assert (Ha := N.mod_lt a wbits ltac:(unfold wbits; lia)).
  assert (Hb := N.mod_lt b wbits ltac:(unfold wbits; lia)).
  rewrite (N.add_mod a b) by (unfold wbits; lia).
  set (am := a mod wbits) in *. set (bm := b mod wbits) in *.
  (* ((i+wbits-bm) mod wbits + wbits - am) mod wbits = (i + wbits - (am+bm) mod wbits) mod wbits *)
  clearbody am bm. clear Hlt. unfold wbits in *.
  assert (E1 : (i + 32 - bm) mod 32 = if i + 32 - bm <? 32 then i + 32 - bm else i - bm).
  { destruct (N.ltb_spec (i + 32 - bm) 32).
    - apply N.mod_small; lia.
    - replace (i + 32 - bm) with ((i - bm) + 1 * 32) by lia. rewrite N.mod_add by lia. apply N.mod_small. lia. }
  rewrite E1.
  assert (E2 : (am + bm) mod 32 = if am + bm <? 32 then am + bm else am + bm - 32).
  { destruct (N.ltb_spec (am + bm) 32).
    - apply N.mod_small; lia.
    - replace (am + bm) with ((am + bm - 32) + 1 * 32) at 1 by lia. rewrite N.mod_add by lia. apply N.mod_small. lia. }
  rewrite E2.
  destruct (N.ltb_spec (i + 32 - bm) 32); destruct (N.ltb_spec (am + bm) 32).
  all: match goal with |- ?l mod 32 = ?r mod 32 =>
         let d := fresh in
         first [ replace l with r by lia; reflexivity
               | replace l with (r + 1 * 32) by lia; rewrite N.mod_add by lia; reflexivity
               | replace r with (l + 1 * 32) by lia; rewrite N.mod_add by lia; reflexivity ] end.
Qed.
