(* Little-endian 64-bit words (Go: encoding/binary.LittleEndian.Uint64 /
   PutUint64) and Go's unsigned 64-bit wrap-around arithmetic.

   [two64] is a notation for the literal 2^64 so that [lia] sees through it.

     le64 x        the 8 bytes, least significant first, of x mod 2^64
     un_le64 b     the number denoted by a little-endian byte list
     u64 x         x mod 2^64           (conversion to uint64)
     add64 a b     (a + b) mod 2^64     (uint64 +)
     sub64 a b     (a + 2^64 - b) mod 2^64   (uint64 -, for a, b < 2^64)

   Main lemmas: [un_le64_le64], [le64_un_le64], [le64_length], [le64_wf],
   [un_le64_lt], [le64_inj], [sub64_exact], [sub64_wrap], [add64_sub64]. *)
From Coq Require Import List NArith Arith Lia ZifyN ZifyNat.
From DS Require Import Base.Bytes.
Import ListNotations.
Local Open Scope N_scope.

Notation two64 := 18446744073709551616%N.
Notation MaxUint64 := 18446744073709551615%N.
Notation MaxInt64 := 9223372036854775807%N.

Lemma two64_eq : two64 = 2 ^ 64.
Proof. reflexivity. Qed.

Definition u64 (x : N) : N := x mod two64.
Definition add64 (a b : N) : N := (a + b) mod two64.
Definition sub64 (a b : N) : N := (a + two64 - b) mod two64.

(* n bytes, least significant first, of x mod 256^n *)
Fixpoint le_bytes (n : nat) (x : N) : bytes :=
  match n with
  | O => []
  | S n' => x mod 256 :: le_bytes n' (x / 256)
  end.

Fixpoint un_le (b : bytes) : N :=
  match b with
  | [] => 0
  | x :: r => x + 256 * un_le r
  end.

Definition le64 (x : N) : bytes := le_bytes 8 x.
Definition un_le64 (b : bytes) : N := un_le b.

(* ---- u64 / add64 / sub64 ---- *)

Lemma u64_lt x : u64 x < two64.
Proof. unfold u64. apply N.mod_lt. lia. Qed.

Lemma u64_small x : x < two64 -> u64 x = x.
Proof. intros. unfold u64. apply N.mod_small. assumption. Qed.

Lemma u64_idem x : u64 (u64 x) = u64 x.
Proof. apply u64_small, u64_lt. Qed.

Lemma add64_lt a b : add64 a b < two64.
Proof. unfold add64. apply N.mod_lt. lia. Qed.

Lemma add64_exact a b : a + b < two64 -> add64 a b = a + b.
Proof. intros. unfold add64. apply N.mod_small. assumption. Qed.

Lemma sub64_lt a b : sub64 a b < two64.
Proof. unfold sub64. apply N.mod_lt. lia. Qed.

(* no wrap: the mathematical difference *)
Lemma sub64_exact a b : b <= a -> a < two64 -> sub64 a b = a - b.
Proof.
  intros Hle Hlt. unfold sub64.
  replace (a + two64 - b) with (a - b + 1 * two64) by lia.
  rewrite N.mod_add by lia. apply N.mod_small. lia.
Qed.

(* wrap: a < b gives 2^64 - (b - a) *)
Lemma sub64_wrap a b : a < b -> b < two64 -> sub64 a b = two64 - (b - a).
Proof.
  intros Hlt Hb. unfold sub64. rewrite N.mod_small by lia. lia.
Qed.

Lemma sub64_diag a : a < two64 -> sub64 a a = 0.
Proof. intros. rewrite sub64_exact by lia. lia. Qed.

(* Go: last + (off - last) == off in uint64 arithmetic *)
Lemma add64_sub64 a b : a < two64 -> b < two64 -> add64 b (sub64 a b) = a.
Proof.
  intros Ha Hb. destruct (N.le_gt_cases b a) as [Hle|Hgt].
  - rewrite sub64_exact by assumption. rewrite add64_exact by lia. lia.
  - rewrite sub64_wrap by lia. unfold add64.
    replace (b + (two64 - (b - a))) with (a + 1 * two64) by lia.
    rewrite N.mod_add by lia. apply N.mod_small. assumption.
Qed.

Lemma sub64_add64 a b : a < two64 -> b < two64 -> sub64 (add64 a b) a = b.
Proof.
  intros Ha Hb. unfold add64.
  destruct (N.lt_ge_cases (a + b) two64) as [Hlt|Hge].
  - rewrite N.mod_small by assumption. rewrite sub64_exact by lia. lia.
  - replace ((a + b) mod two64) with (a + b - two64).
    + rewrite sub64_wrap by lia. lia.
    + symmetry. replace (a + b) with ((a + b - two64) + 1 * two64) at 1 by lia.
      rewrite N.mod_add by lia. apply N.mod_small. lia.
Qed.

(* ---- le_bytes / un_le ---- *)

Lemma le_bytes_length n x : length (le_bytes n x) = n.
Proof. revert x. induction n as [|n IH]; intros x; cbn [le_bytes length]; [reflexivity|]. now rewrite IH. Qed.

Lemma le_bytes_wf n x : wf_bytes (le_bytes n x).
Proof.
  revert x. induction n as [|n IH]; intros x; cbn [le_bytes]; constructor.
  - unfold wf_byte. apply N.mod_lt. lia.
  - apply IH.
Qed.

Lemma un_le_le_bytes n x : un_le (le_bytes n x) = x mod 256 ^ N.of_nat n.
Proof.
  revert x. induction n as [|n IH]; intros x.
  - cbn [le_bytes un_le]. change (N.of_nat 0) with 0. rewrite N.pow_0_r, N.mod_1_r. reflexivity.
  - cbn [le_bytes un_le]. rewrite IH.
    rewrite Nat2N.inj_succ, N.pow_succ_r by lia.
    assert (Hp : 256 ^ N.of_nat n <> 0) by (apply N.pow_nonzero; lia).
    rewrite N.mod_mul_r by lia. lia.
Qed.

Lemma un_le_lt b : wf_bytes b -> un_le b < 256 ^ N.of_nat (length b).
Proof.
  induction 1 as [|x r Hx Hr IH].
  - cbn. lia.
  - cbn [un_le length]. rewrite Nat2N.inj_succ, N.pow_succ_r by lia.
    unfold wf_byte in Hx. lia.
Qed.

Lemma le_bytes_un_le b : wf_bytes b -> le_bytes (length b) (un_le b) = b.
Proof.
  induction 1 as [|x r Hx Hr IH]; [reflexivity|].
  cbn [un_le length le_bytes]. unfold wf_byte in Hx.
  replace ((x + 256 * un_le r) mod 256) with x.
  - replace ((x + 256 * un_le r) / 256) with (un_le r); [now rewrite IH|].
    symmetry. rewrite N.mul_comm, N.div_add by lia. rewrite N.div_small by lia. lia.
  - symmetry. rewrite N.mul_comm, N.mod_add by lia. apply N.mod_small. assumption.
Qed.

(* ---- the 64-bit instances ---- *)

Lemma le64_length x : length (le64 x) = 8%nat.
Proof. apply le_bytes_length. Qed.

Lemma le64_wf x : wf_bytes (le64 x).
Proof. apply le_bytes_wf. Qed.

Lemma un_le64_le64_mod x : un_le64 (le64 x) = u64 x.
Proof. unfold un_le64, le64, u64. rewrite un_le_le_bytes. reflexivity. Qed.

Lemma un_le64_le64 x : x < two64 -> un_le64 (le64 x) = x.
Proof. intros. rewrite un_le64_le64_mod. apply u64_small. assumption. Qed.

Lemma le64_un_le64 b : length b = 8%nat -> wf_bytes b -> le64 (un_le64 b) = b.
Proof. intros Hl Hw. unfold le64, un_le64. rewrite <- Hl. apply le_bytes_un_le. assumption. Qed.

Lemma un_le64_lt b : length b = 8%nat -> wf_bytes b -> un_le64 b < two64.
Proof. intros Hl Hw. unfold un_le64. pose proof (un_le_lt b Hw) as H. rewrite Hl in H. exact H. Qed.

Lemma le64_u64 x : le64 (u64 x) = le64 x.
Proof.
  transitivity (le64 (un_le64 (le64 x))).
  - f_equal. now rewrite un_le64_le64_mod.
  - apply le64_un_le64; [apply le64_length|apply le64_wf].
Qed.

Lemma le64_inj x y : x < two64 -> y < two64 -> le64 x = le64 y -> x = y.
Proof.
  intros Hx Hy E. apply (f_equal un_le64) in E. now rewrite !un_le64_le64 in E by assumption.
Qed.

(* a list of words, concatenated: writer.WriteUint64(values...) *)
Definition le64s (xs : list N) : bytes := flat_map le64 xs.

Lemma le64s_length xs : length (le64s xs) = (8 * length xs)%nat.
Proof. unfold le64s. induction xs as [|x r IH]; cbn [flat_map length]; [reflexivity|]. rewrite app_length, le64_length, IH. lia. Qed.

Lemma le64s_wf xs : wf_bytes (le64s xs).
Proof. unfold le64s, wf_bytes. induction xs as [|x r IH]; cbn [flat_map]; [constructor|]. apply Forall_app. split; [apply le64_wf|exact IH]. Qed.

Lemma le64s_cons x xs : le64s (x :: xs) = le64 x ++ le64s xs.
Proof. reflexivity. Qed.

Lemma le64s_app xs ys : le64s (xs ++ ys) = le64s xs ++ le64s ys.
Proof. unfold le64s. apply flat_map_app. Qed.
